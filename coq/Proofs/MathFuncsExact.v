(* Proofs/MathFuncsExact.v -- C15: the exactly computable built-ins.  Linear algebra (cross, trans, trace, det) over an
   arbitrary commutative ring; floor, ceil, min, max, re, im, conj, |.|^2, kronecker over (Gaussian) rationals. *)
From Coq Require Import ZArith QArith Qround Qabs List String Bool Arith Lia Lqa Ring Reals.
From Verif.Lib Require Import QRound MathFuncsBase.
From Verif.Model Require Import MathFuncs MathFuncsExact.
Import ListNotations.

Section RingFacts.
  Context {A : Type} (K : ops A).
  Hypothesis Rth : ring_theory (o_zero K) (o_one K) (o_add K) (o_mul K) (o_sub K) (o_opp K) eq.
  Add Ring Aring : Rth.
  Notation "0" := (o_zero K). Notation "1" := (o_one K).
  Infix "+" := (o_add K). Infix "*" := (o_mul K). Infix "-" := (o_sub K). Notation "- x" := (o_opp K x).

  (* ---------- cross product ---------- *)
  Lemma cross3_formula : forall a0 a1 a2 b0 b1 b2,
    cross3 K [a0; a1; a2] [b0; b1; b2] = [a1 * b2 - b1 * a2; a2 * b0 - b2 * a0; a0 * b1 - b0 * a1].
  Proof. reflexivity. Qed.

  Lemma len3 : forall (l : list A), List.length l = 3%nat -> exists x y z, l = [x; y; z].
  Proof.
    intros l H. destruct l as [|x [|y [|z [|w l]]]]; simpl in H; try discriminate. eauto.
  Qed.

  Lemma cross3_orthogonal_left : forall a b, List.length a = 3%nat -> List.length b = 3%nat -> dot K a (cross3 K a b) = 0.
  Proof.
    intros a b Ha Hb. destruct (len3 a Ha) as [a0 [a1 [a2 ->]]]. destruct (len3 b Hb) as [b0 [b1 [b2 ->]]].
    rewrite cross3_formula. unfold dot. simpl. ring.
  Qed.

  Lemma cross3_orthogonal_right : forall a b, List.length a = 3%nat -> List.length b = 3%nat -> dot K b (cross3 K a b) = 0.
  Proof.
    intros a b Ha Hb. destruct (len3 a Ha) as [a0 [a1 [a2 ->]]]. destruct (len3 b Hb) as [b0 [b1 [b2 ->]]].
    rewrite cross3_formula. unfold dot. simpl. ring.
  Qed.

  Lemma cross3_anticommutative : forall a b, List.length a = 3%nat -> List.length b = 3%nat ->
    cross3 K a b = map (o_opp K) (cross3 K b a).
  Proof.
    intros a b Ha Hb. destruct (len3 a Ha) as [a0 [a1 [a2 ->]]]. destruct (len3 b Hb) as [b0 [b1 [b2 ->]]].
    rewrite !cross3_formula. simpl. repeat f_equal; ring.
  Qed.

  Lemma cross3_self : forall a, List.length a = 3%nat -> cross3 K a a = [0; 0; 0].
  Proof.
    intros a Ha. destruct (len3 a Ha) as [a0 [a1 [a2 ->]]]. rewrite cross3_formula. repeat f_equal; ring.
  Qed.

  Lemma cross3_length : forall a b, List.length (cross3 K a b) = 3%nat.
  Proof. reflexivity. Qed.

  (* ---------- transpose, trace ---------- *)
  Lemma vnth_map : forall (B : Type) (f : B -> A) (l : list B) (d : B) i, (i < List.length l)%nat ->
    vnth K (map f l) i = f (nth i l d).
  Proof.
    intros B f l d i H. unfold vnth. rewrite (nth_indep _ 0 (f d)) by (rewrite map_length; exact H). apply map_nth.
  Qed.

  Lemma nth_map_seq : forall (B : Type) (f : nat -> B) c j d, (j < c)%nat -> nth j (map f (seq 0 c)) d = f j.
  Proof.
    intros B f c j d H. rewrite (nth_indep _ d (f 0%nat)) by (rewrite map_length, seq_length; exact H).
    rewrite (map_nth f). rewrite seq_nth by exact H. reflexivity.
  Qed.

  Lemma transpose_entry : forall c m i j, (j < c)%nat -> (i < List.length m)%nat ->
    entry K (transpose K c m) j i = entry K m i j.
  Proof.
    intros c m i j Hj Hi. unfold entry, transpose.
    rewrite nth_map_seq by exact Hj.
    apply (vnth_map _ (fun row => vnth K row j) m []). exact Hi.
  Qed.

  Lemma transpose_dims : forall c m, List.length (transpose K c m) = c /\
    Forall (fun row => List.length row = List.length m) (transpose K c m).
  Proof.
    intros c m. unfold transpose. split; [rewrite map_length, seq_length; reflexivity | ].
    apply Forall_forall. intros row H. apply in_map_iff in H. destruct H as [j [<- _]]. apply map_length.
  Qed.

  Lemma trace_transpose : forall n m, List.length m = n -> trace K n (transpose K n m) = trace K n m.
  Proof.
    intros n m H. unfold trace. f_equal. apply map_ext_in. intros i Hi. apply in_seq in Hi.
    apply transpose_entry; lia.
  Qed.

  (* rows of equal length c, read back entry by entry *)
  Lemma nth_ext_rows : forall (l l' : list A), List.length l = List.length l' ->
    (forall i, (i < List.length l)%nat -> vnth K l i = vnth K l' i) -> l = l'.
  Proof. intros l l' H E. apply (nth_ext l l' 0 0); assumption. Qed.

  Lemma transpose_involutive : forall r c m, List.length m = r -> Forall (fun row => List.length row = c) m ->
    transpose K r (transpose K c m) = m.
  Proof.
    intros r c m Hr Hc.
    apply (nth_ext _ _ [] []).
    - destruct (transpose_dims r (transpose K c m)) as [L _]. rewrite L. symmetry. exact Hr.
    - intros i Hi. destruct (transpose_dims r (transpose K c m)) as [L F]. rewrite L in Hi.
      assert (Hrow : List.length (nth i m []) = c).
      { rewrite Forall_forall in Hc. apply Hc. apply nth_In. lia. }
      apply nth_ext_rows.
      + rewrite Forall_forall in F. rewrite (F (nth i (transpose K r (transpose K c m)) [])).
        * destruct (transpose_dims c m) as [L2 _]. rewrite L2. symmetry. exact Hrow.
        * apply nth_In. lia.
      + intros j Hj.
        assert (Hjc : (j < c)%nat).
        { rewrite Forall_forall in F. rewrite (F (nth i (transpose K r (transpose K c m)) [])) in Hj by (apply nth_In; lia).
          destruct (transpose_dims c m) as [L2 _]. lia. }
        change (entry K (transpose K r (transpose K c m)) i j = entry K m i j).
        rewrite transpose_entry; [ | exact Hi | destruct (transpose_dims c m) as [L2 _]; lia].
        apply transpose_entry; lia.
  Qed.

  (* ---------- determinant ---------- *)
  Lemma det_1 : forall a, det K 1 [[a]] = a.
  Proof. intro a. simpl. unfold vnth. simpl. ring. Qed.

  Lemma det_2 : forall a b c d, det K 2 [[a; b]; [c; d]] = a * d - b * c.
  Proof. intros. simpl. unfold vnth. simpl. ring. Qed.

  Lemma det_3 : forall a b c d e f g h i,
    det K 3 [[a; b; c]; [d; e; f]; [g; h; i]] = a * (e * i - f * h) - b * (d * i - f * g) + c * (d * h - e * g).
  Proof. intros. simpl. unfold vnth. simpl. ring. Qed.

  (* expansion along a first row whose only non-zero entry is the leading one *)
  Lemma sum_all_zero : forall (l : list A), Forall (fun x => x = 0) l -> fold_right (o_add K) 0 l = 0.
  Proof. induction 1 as [|x l Hx _ IH]; simpl; [reflexivity | rewrite Hx, IH; ring]. Qed.

  Lemma det_leading_row : forall n a zs rest, Forall (fun x => x = 0) zs -> List.length zs = n ->
    det K (S n) ((a :: zs) :: rest) = a * det K n (map (@tl A) rest).
  Proof.
    intros n a zs rest Hz Hl. cbn [det]. rewrite <- cons_seq. cbn [map fold_right Nat.even]. unfold vnth at 1. cbn [nth].
    replace (map (remove_nth 0) rest) with (map (@tl A) rest).
    2:{ apply map_ext. intros [|x r]; reflexivity. }
    rewrite sum_all_zero; [ring | ].
    apply Forall_forall. intros t Ht. apply in_map_iff in Ht. destruct Ht as [j [<- Hj]]. apply in_seq in Hj.
    assert (Z0 : vnth K (a :: zs) j = 0).
    { unfold vnth. destruct j as [|j]; [lia | ]. cbn [nth]. rewrite Forall_forall in Hz. apply Hz. apply nth_In. lia. }
    cbv zeta. rewrite Z0. destruct (Nat.even j); ring.
  Qed.

  (* lower-triangular matrices, structurally: a leading entry, zeros to its right, and a lower-triangular minor
     below-right (the first column below is arbitrary) *)
  Inductive lower_tri : nat -> list (list A) -> list A -> Prop :=
  | lt_nil : lower_tri 0 [] []
  | lt_cons : forall n a zs col minor diag,
      Forall (fun x => x = 0) zs -> List.length zs = n -> List.length col = n -> lower_tri n minor diag ->
      lower_tri (S n) ((a :: zs) :: map (fun p => fst p :: snd p) (combine col minor)) (a :: diag).

  Lemma lower_tri_length : forall n m d, lower_tri n m d -> List.length m = n.
  Proof.
    induction 1; [reflexivity | ]. simpl. rewrite map_length, combine_length, IHlower_tri, H1, Nat.min_id. reflexivity.
  Qed.

  Lemma map_tl_combine : forall (col : list A) (minor : list (list A)), List.length col = List.length minor ->
    map (@tl A) (map (fun p => fst p :: snd p) (combine col minor)) = minor.
  Proof.
    induction col as [|x col IH]; destruct minor as [|r minor]; simpl; intro H; try discriminate; [reflexivity | ].
    f_equal. apply IH. lia.
  Qed.

  Lemma det_lower_triangular : forall n m diag, lower_tri n m diag -> det K n m = fold_right (o_mul K) 1 diag.
  Proof.
    induction 1 as [|n a zs col minor diag Hz Hl Hc Hm IH]; [reflexivity | ].
    rewrite det_leading_row by assumption. rewrite map_tl_combine by (rewrite (lower_tri_length _ _ _ Hm); exact Hc).
    rewrite IH. reflexivity.
  Qed.
End RingFacts.

(* the identity matrix is lower triangular with unit diagonal, in every dimension *)
Section Identity.
  Context {A : Type} (K : ops A).
  Hypothesis Rth : ring_theory (o_zero K) (o_one K) (o_add K) (o_mul K) (o_sub K) (o_opp K) eq.

  Fixpoint ident (n : nat) : list (list A) :=
    match n with
    | O => []
    | S n' => (o_one K :: repeat (o_zero K) n') :: map (fun p => fst p :: snd p) (combine (repeat (o_zero K) n') (ident n'))
    end.

  Lemma ident_lower_tri : forall n, lower_tri K n (ident n) (repeat (o_one K) n).
  Proof.
    induction n as [|n IH]; [constructor | ]. simpl. constructor; try apply repeat_length; try exact IH.
    apply Forall_forall. intros x Hx. apply repeat_spec in Hx. exact Hx.
  Qed.

  Lemma det_ident : forall n, det K n (ident n) = o_one K.
  Proof.
    intro n. rewrite (det_lower_triangular K Rth n (ident n) _ (ident_lower_tri n)).
    induction n as [|n IH]; [reflexivity | ]. simpl. rewrite IH. destruct Rth. rewrite Rmul_1_l. reflexivity.
  Qed.
End Identity.

(* ---------------- instances: the integers, and the complex numbers as pairs of reals ---------------- *)
From Verif.Model Require Import MathFuncsR.
Definition Zops : ops Z := mkOps Z 0%Z 1%Z Z.add Z.sub Z.mul Z.opp.
Lemma Z_ring : ring_theory (o_zero Zops) (o_one Zops) (o_add Zops) (o_mul Zops) (o_sub Zops) (o_opp Zops) eq.
Proof. exact InitialRing.Zth. Qed.

Definition Cops : ops C2 := mkOps C2 (0%R, 0%R) (1%R, 0%R) cadd csub cmul cneg.
Lemma C_ring : ring_theory (o_zero Cops) (o_one Cops) (o_add Cops) (o_mul Cops) (o_sub Cops) (o_opp Cops) eq.
Proof.
  constructor; intros; simpl; repeat match goal with z : C2 |- _ => destruct z end;
    unfold cadd, csub, cmul, cneg; simpl; f_equal; ring.
Qed.

(* ---------------- rationals: floor, ceil, min, max ---------------- *)
Open Scope Q_scope.

Lemma floorQ_spec : forall x, floorQ x <= x /\ x < floorQ x + 1 /\ exists z, floorQ x = inject_Z z.
Proof.
  intro x. unfold floorQ. split; [apply Qfloor_le | ]. split; [ | eauto].
  pose proof (Qlt_floor x) as H. rewrite inject_Z_plus in H. exact H.
Qed.

Lemma ceilQ_spec : forall x, ceilQ x - 1 < x /\ x <= ceilQ x /\ exists z, ceilQ x = inject_Z z.
Proof.
  intro x. unfold ceilQ. split; [ | split; [apply Qle_ceiling | eauto]].
  pose proof (Qceiling_lt x) as H. unfold Z.sub in H. rewrite inject_Z_plus, inject_Z_opp in H. exact H.
Qed.

Lemma floorQ_unique : forall x z, inject_Z z <= x -> x < inject_Z z + 1 -> floorQ x == inject_Z z.
Proof.
  intros x z H1 H2. unfold floorQ.
  assert (E : Qfloor x = z).
  { pose proof (Qfloor_le x) as F1. pose proof (Qlt_floor x) as F2. rewrite inject_Z_plus in F2.
    change (inject_Z 1) with 1 in *.
    assert (A : inject_Z z < inject_Z (Qfloor x) + 1) by lra.
    assert (B : inject_Z (Qfloor x) < inject_Z z + 1) by lra.
    change 1 with (inject_Z 1) in A, B. rewrite <- inject_Z_plus in A, B. rewrite <- Zlt_Qlt in A, B. lia. }
  rewrite E. reflexivity.
Qed.

Lemma Qltb_true : forall a b, Qltb a b = true <-> a < b.
Proof.
  intros a b. unfold Qltb. rewrite negb_true_iff. split; intro H.
  - apply Qnot_le_lt. intro L. apply Qle_bool_iff in L. congruence.
  - destruct (Qle_bool b a) eqn:E; [ | reflexivity]. apply Qle_bool_iff in E. exfalso. apply (Qlt_not_le _ _ H E).
Qed.
Lemma Qltb_false : forall a b, Qltb a b = false <-> b <= a.
Proof.
  intros a b. unfold Qltb. rewrite negb_false_iff. apply Qle_bool_iff.
Qed.

Lemma min_from_spec : forall l x, In (min_from x l) (x :: l) /\ forall y, In y (x :: l) -> min_from x l <= y.
Proof.
  induction l as [|z l IH]; intro x; simpl.
  - split; [left; reflexivity | intros y [<- | []]; apply Qle_refl].
  - destruct (Qltb z x) eqn:E.
    + destruct (IH z) as [I M]. split.
      * destruct I as [<- | I]; [right; left; reflexivity | right; right; exact I].
      * intros y [<- | [<- | Hy]].
        -- apply Qltb_true in E. apply Qle_trans with z; [apply M; left; reflexivity | apply Qlt_le_weak; exact E].
        -- apply M; left; reflexivity.
        -- apply M; right; exact Hy.
    + destruct (IH x) as [I M]. split.
      * destruct I as [<- | I]; [left; reflexivity | right; right; exact I].
      * intros y [<- | [<- | Hy]].
        -- apply M; left; reflexivity.
        -- apply Qltb_false in E. apply Qle_trans with x; [apply M; left; reflexivity | exact E].
        -- apply M; right; exact Hy.
Qed.

Lemma max_from_spec : forall l x, In (max_from x l) (x :: l) /\ forall y, In y (x :: l) -> y <= max_from x l.
Proof.
  induction l as [|z l IH]; intro x; simpl.
  - split; [left; reflexivity | intros y [<- | []]; apply Qle_refl].
  - destruct (Qltb x z) eqn:E.
    + destruct (IH z) as [I M]. split.
      * destruct I as [<- | I]; [right; left; reflexivity | right; right; exact I].
      * intros y [<- | [<- | Hy]].
        -- apply Qltb_true in E. apply Qle_trans with z; [apply Qlt_le_weak; exact E | apply M; left; reflexivity].
        -- apply M; left; reflexivity.
        -- apply M; right; exact Hy.
    + destruct (IH x) as [I M]. split.
      * destruct I as [<- | I]; [left; reflexivity | right; right; exact I].
      * intros y [<- | [<- | Hy]].
        -- apply M; left; reflexivity.
        -- apply Qltb_false in E. apply Qle_trans with x; [exact E | apply M; left; reflexivity].
        -- apply M; right; exact Hy.
Qed.

Lemma py_min_spec : forall l, (2 <= List.length l)%nat ->
  exists m, py_min l = Some m /\ In m l /\ forall y, In y l -> m <= y.
Proof.
  intros [|x l] H; [simpl in H; lia | ]. exists (min_from x l). split; [reflexivity | apply min_from_spec].
Qed.
Lemma py_max_spec : forall l, (2 <= List.length l)%nat ->
  exists m, py_max l = Some m /\ In m l /\ forall y, In y l -> y <= m.
Proof.
  intros [|x l] H; [simpl in H; lia | ]. exists (max_from x l). split; [reflexivity | apply max_from_spec].
Qed.

(* ---------------- Gaussian rationals: re, im, conj, modulus, kronecker ---------------- *)
Lemma gconj_involutive : forall z, gconj (gconj z) = z.
Proof. intros [a [n d]]. unfold gconj, Qopp. simpl. rewrite Z.opp_involutive. reflexivity. Qed.

Lemma gconj_parts : forall z, fst (gconj z) = fst z /\ snd (gconj z) = - snd z.
Proof. intros [a b]. split; reflexivity. Qed.

Lemma gmul_conj : forall z, fst (gmul z (gconj z)) == gabs2 z /\ snd (gmul z (gconj z)) == 0.
Proof. intros [a b]. unfold gmul, gconj, gabs2. simpl. split; ring. Qed.

Lemma gconj_mul : forall z w, fst (gconj (gmul z w)) == fst (gmul (gconj z) (gconj w))
                              /\ snd (gconj (gmul z w)) == snd (gmul (gconj z) (gconj w)).
Proof. intros [a b] [c d]. unfold gmul, gconj. simpl. split; ring. Qed.

Lemma gabs2_nonneg : forall z, 0 <= gabs2 z.
Proof. intros [a b]. unfold gabs2. simpl. nra. Qed.

Lemma gabs2_zero : forall z, gabs2 z == 0 -> fst z == 0 /\ snd z == 0.
Proof. intros [a b]. unfold gabs2. simpl. intro H. split; nra. Qed.

Lemma i_squared : gmul (0, 1) (0, 1) = (-1 # 1, 0 # 1) /\ geqb (gmul (0, 1) (0, 1)) (- (1), 0) = true.
Proof. split; reflexivity. Qed.

Lemma geqb_spec : forall z w, geqb z w = true <-> (fst z == fst w /\ snd z == snd w).
Proof. intros z w. unfold geqb. rewrite andb_true_iff, !Qeq_bool_iff. reflexivity. Qed.

Lemma kronecker_exact : forall pi tr x y,
  kronecker (ExactPrims pi tr) x y = if geqb x y then (1, 0) else (0, 0).
Proof. intros. unfold kronecker. cbn. destruct (geqb x y); reflexivity. Qed.

(* ---------------- the value a scalar position receives ---------------- *)
Lemma item_val_number : forall a, shape_ok ShScalar (shape_of_val a) = true -> shape_of_val (item_val a) = ANumber.
Proof. intros [c z | c d data]; simpl; intro H; [reflexivity | rewrite H; reflexivity]. Qed.

Lemma item_val_of_number : forall c z, item_val (VNum c z) = VNum c z.
Proof. reflexivity. Qed.

Lemma item_val_of_singleton : forall c d z, size d = 1%nat -> item_val (VArr c d [z]) = VNum c z.
Proof. intros c d z H. simpl. rewrite H. reflexivity. Qed.
