(* LexerPrint.v -- lexing the text of a token list gives the tokens back, whatever TAB / LF / CR runs are
   put between (before, after) the tokens, provided every number / name token carries a text the lexer
   itself produces (valid_token) and numbers and names are followed by punctuation (which holds for every
   token list the parser accepts, see ParserReject.pair_ok). *)
From Coq Require Import ZArith List Bool Lia.
From Verif.Model Require Import Result Lexer Parser.
From Verif.Proofs Require Import LexerLemmas.
Import ListNotations.
Local Open Scope Z_scope.

(* ---------- spans ---------- *)
Definition stops (p : Z -> bool) (s : str) : bool := match s with [] => true | c :: _ => negb (p c) end.

Lemma span_stop : forall p s, stops p s = true -> span p s = ([], s).
Proof. intros p [|c s] H; [reflexivity|]. simpl in *. destruct (p c); [discriminate|reflexivity]. Qed.

Lemma span_exact : forall p a b, forallb p a = true -> stops p b = true -> span p (a ++ b) = (a, b).
Proof.
  intros p a b Ha Hb. induction a as [|c a IH]; [apply span_stop; assumption|].
  simpl in *. apply andb_true_iff in Ha. destruct Ha as [H1 H2]. rewrite H1, (IH H2). reflexivity.
Qed.

Definition nonempty_s (s : str) : bool := match s with [] => false | _ => true end.

(* ---------- valid texts ---------- *)
(* '_{' ['-'] alnum+ '}' *)
Definition valid_index (lead : Z) (i : str) : bool :=
  match i with
  | c :: b :: r =>
      (c =? lead) && (b =? ch_lbrace) &&
      (let r1 := match r with d :: r' => if d =? ch_minus then r' else r | [] => r end in
       match rev r1 with
       | cl :: w => (cl =? ch_rbrace) && nonempty_s w && forallb is_alnum w
       | [] => false
       end)
  | _ => false
  end.

Inductive name_mid : str -> Prop :=
| mid_none : name_mid []
| mid_sub : forall u, forallb is_sub_char u = true -> name_mid (ch_us :: u)
| mid_lo : forall lo, valid_index ch_us lo = true -> name_mid lo
| mid_up : forall up, valid_index ch_caret up = true -> name_mid up
| mid_both : forall lo up, valid_index ch_us lo = true -> valid_index ch_caret up = true -> name_mid (lo ++ up).

Definition valid_name (n : str) : Prop :=
  exists c front mid pr, n = c :: front ++ mid ++ pr /\ is_alpha c = true /\ forallb is_alnum front = true
                         /\ name_mid mid /\ forallb is_prime pr = true.

Inductive mantissa : str -> Prop :=
| man_int : forall ip, nonempty_s ip = true -> forallb is_digit ip = true -> mantissa ip
| man_dec : forall ip fp, nonempty_s ip = true -> forallb is_digit ip = true -> forallb is_digit fp = true ->
            mantissa (ip ++ ch_dot :: fp)
| man_frac : forall fp, nonempty_s fp = true -> forallb is_digit fp = true -> mantissa (ch_dot :: fp).

Inductive exponent : str -> Prop :=
| exp_none : exponent []
| exp_some : forall sg ds, (sg = [] \/ sg = [ch_plus] \/ sg = [ch_minus]) -> nonempty_s ds = true ->
             forallb is_digit ds = true -> exponent (ch_E :: sg ++ ds).

Definition valid_suffix (u : str) : Prop :=
  nonempty_s u = true /\ forallb is_suffix_char u = true /\
  match u with c :: _ => (c =? ch_e) = false /\ (c =? ch_E) = false | [] => True end.

Definition valid_token (t : token) : Prop :=
  match t with
  | TNum x suf => (exists m e, x = m ++ e /\ mantissa m /\ exponent e)
                  /\ match suf with Some u => valid_suffix u | None => True end
  | TName n => valid_name n
  | _ => True
  end.

(* what may follow a name / a number in the text *)
Definition name_follow (rest : str) : bool :=
  match rest with
  | [] => true
  | c :: r => negb (is_sub_char c) && negb (is_prime c) && negb (c =? ch_lbrace)
              && negb ((c =? ch_caret) && match r with d :: _ => d =? ch_lbrace | [] => false end)
  end.

Definition num_follow (rest : str) : bool :=
  match rest with [] => true | c :: _ => negb (is_digit c) && negb (c =? ch_dot) end
  && stops is_suffix_char (skip_ws rest).

(* ---------- names ---------- *)
Lemma lex_index_none : forall lead s,
  match s with c :: b :: _ => (c =? lead) && (b =? ch_lbrace) | _ => false end = false ->
  lex_index lead s = ([], s).
Proof.
  intros lead s H. unfold lex_index. destruct s as [|c [|b r]]; try reflexivity. rewrite H. reflexivity.
Qed.

Lemma rev_cons_app : forall (A : Type) (l : list A) x w, rev l = x :: w -> l = rev w ++ [x].
Proof. intros A l x w H. rewrite <- (rev_involutive l), H. reflexivity. Qed.

Lemma forallb_rev : forall (A : Type) (f : A -> bool) l, forallb f (rev l) = forallb f l.
Proof.
  intros A f l. induction l as [|x l IH]; [reflexivity|]. simpl. rewrite forallb_app, IH. simpl.
  rewrite andb_true_r. apply andb_comm.
Qed.

Lemma rbrace_not_alnum : is_alnum ch_rbrace = false.
Proof. reflexivity. Qed.

Lemma lex_index_valid : forall lead i rest, valid_index lead i = true -> lex_index lead (i ++ rest) = (i, rest).
Proof.
  intros lead i rest H. unfold valid_index in H.
  destruct i as [|c [|b r]]; try discriminate.
  apply andb_true_iff in H. destruct H as [H H3]. apply andb_true_iff in H. destruct H as [H1 H2].
  set (r1 := match r with d :: r' => if d =? ch_minus then r' else r | [] => r end) in *.
  destruct (rev r1) as [|cl w] eqn:Er; [discriminate|].
  apply andb_true_iff in H3. destruct H3 as [H3 H5]. apply andb_true_iff in H3. destruct H3 as [H3 H4].
  apply rev_cons_app in Er. apply Z.eqb_eq in H3. subst cl.
  assert (Hw : forallb is_alnum (rev w) = true) by (rewrite forallb_rev; assumption).
  assert (Hn : rev w <> []) by (destruct w; [discriminate|simpl; intro K; apply app_eq_nil in K; destruct K; discriminate]).
  assert (Hspan : span is_alnum (r1 ++ rest) = (rev w, ch_rbrace :: rest)).
  { rewrite Er, <- app_assoc. simpl. apply span_exact; [assumption|reflexivity]. }
  change ((c :: b :: r) ++ rest) with (c :: b :: (r ++ rest)). unfold lex_index. rewrite H1, H2. simpl andb. cbv iota.
  assert (Hsg : (match r ++ rest with
                 | d :: r' => if d =? ch_minus then ([ch_minus], r') else ([], r ++ rest)
                 | [] => ([], r ++ rest)
                 end) = (match r with d :: _ => if d =? ch_minus then [ch_minus] else [] | [] => [] end, r1 ++ rest)).
  { subst r1. destruct r as [|d r']; simpl.
    - destruct rest as [|d' rest']; [reflexivity|]. exfalso. simpl in Er. destruct (rev w); discriminate.
    - destruct (d =? ch_minus); reflexivity. }
  rewrite Hsg, Hspan.
  destruct (rev w) as [|w0 w'] eqn:Ew; [contradiction|].
  rewrite Z.eqb_refl. f_equal.
  subst r1. destruct r as [|d r']; simpl in *.
  - destruct w'; discriminate.
  - destruct (d =? ch_minus) eqn:D.
    + apply Z.eqb_eq in D. subst d. rewrite Er. reflexivity.
    + rewrite Er. reflexivity.
Qed.

Lemma alpha_alnum : forall c, is_alpha c = true -> is_alnum c = true.
Proof. intros c H. unfold is_alnum. rewrite H. reflexivity. Qed.

Lemma prime_head : forall pr, forallb is_prime pr = true ->
  match pr with [] => True | c :: _ => c = 39 end.
Proof. intros [|c pr] H; [exact I|]. simpl in H. apply andb_true_iff in H. destruct H as [H _]. apply Z.eqb_eq in H. exact H. Qed.

Lemma valid_index_head : forall lead i, valid_index lead i = true -> exists r, i = lead :: ch_lbrace :: r.
Proof.
  intros lead i H. unfold valid_index in H. destruct i as [|c [|b r]]; try discriminate.
  apply andb_true_iff in H. destruct H as [H _]. apply andb_true_iff in H. destruct H as [H1 H2].
  apply Z.eqb_eq in H1. apply Z.eqb_eq in H2. subst. eauto.
Qed.

(* the tail after the name proper: primes then the follower *)
Lemma tail_props : forall pr rest, forallb is_prime pr = true -> name_follow rest = true ->
  stops is_sub_char (pr ++ rest) = true /\ stops is_alnum (pr ++ rest) = true
  /\ lex_index ch_us (pr ++ rest) = ([], pr ++ rest) /\ lex_index ch_caret (pr ++ rest) = ([], pr ++ rest)
  /\ match pr ++ rest with c :: _ => (c =? ch_lbrace) = false | [] => True end
  /\ span is_prime (pr ++ rest) = (pr, rest).
Proof.
  intros pr rest Hp Hf.
  assert (Hspan : span is_prime (pr ++ rest) = (pr, rest)).
  { apply span_exact; [assumption|]. destruct rest as [|c r]; [reflexivity|]. simpl in *.
    destruct (is_prime c); [|reflexivity]. rewrite andb_false_r in Hf. simpl in Hf. discriminate. }
  destruct pr as [|p pr].
  - simpl app in *. destruct rest as [|c r]; [repeat split; reflexivity|].
    simpl in Hf. repeat (apply andb_true_iff in Hf; destruct Hf as [Hf ?]).
    apply negb_true_iff in Hf, H, H0, H1.
    assert (Ha : is_alnum c = false).
    { unfold is_sub_char in Hf. apply orb_false_iff in Hf. tauto. }
    assert (Hu : (c =? ch_us) = false).
    { unfold is_sub_char in Hf. apply orb_false_iff in Hf. tauto. }
    split; [simpl; rewrite Hf; reflexivity|].
    split; [simpl; rewrite Ha; reflexivity|].
    split; [apply lex_index_none; destruct r; [reflexivity|]; rewrite Hu; reflexivity|].
    split; [apply lex_index_none; destruct r as [|d r]; [reflexivity|exact H]|].
    split; [assumption|assumption].
  - pose proof (prime_head _ Hp) as Hh. simpl in Hh. subst p.
    split; [reflexivity|]. split; [reflexivity|].
    split; [apply lex_index_none; simpl; destruct (pr ++ rest); reflexivity|].
    split; [apply lex_index_none; simpl; destruct (pr ++ rest); reflexivity|].
    split; [reflexivity|assumption].
Qed.

Lemma lex_name_valid : forall n rest, valid_name n -> name_follow rest = true -> lex_name (n ++ rest) = (n, rest).
Proof.
  intros n rest (c & front & mid & pr & En & Hc & Hfront & Hmid & Hpr) Hf. subst n.
  destruct (tail_props pr rest Hpr Hf) as (T1 & T2 & T3 & T4 & T5 & T6).
  assert (Estr : (c :: front ++ mid ++ pr) ++ rest = (c :: front) ++ mid ++ pr ++ rest)
    by (simpl; rewrite <- !app_assoc; reflexivity).
  rewrite Estr. clear Estr.
  assert (Hcf : forallb is_alnum (c :: front) = true) by (simpl; rewrite (alpha_alnum c Hc), Hfront; reflexivity).
  unfold lex_name.
  inversion Hmid as [|u Hu|lo Hlo|up Hup|lo up Hlo Hup]; subst mid.
  - (* no middle part *)
    simpl app at 2. rewrite (span_exact is_alnum (c :: front) (pr ++ rest) Hcf T2).
    rewrite (span_stop is_sub_char (pr ++ rest) T1). rewrite T3, T4. simpl app. rewrite T6. reflexivity.
  - (* subscripts *)
    rewrite (span_exact is_alnum (c :: front) ((ch_us :: u) ++ pr ++ rest) Hcf eq_refl).
    rewrite (span_exact is_sub_char (ch_us :: u) (pr ++ rest)); [|simpl; rewrite Hu; reflexivity|assumption].
    destruct (pr ++ rest) as [|d r] eqn:Et.
    + rewrite T6. reflexivity.
    + rewrite T5, T6. reflexivity.
  - (* lower index only *)
    destruct (valid_index_head _ _ Hlo) as (r & El).
    rewrite (span_exact is_alnum (c :: front) (lo ++ pr ++ rest) Hcf); [|subst lo; reflexivity].
    assert (Hsub : span is_sub_char (lo ++ pr ++ rest) = ([ch_us], ch_lbrace :: r ++ pr ++ rest)).
    { subst lo. reflexivity. }
    rewrite Hsub. simpl (_ =? _). cbv iota.
    rewrite (lex_index_valid ch_us lo (pr ++ rest) Hlo), T4. rewrite T6, app_nil_r. reflexivity.
  - (* upper index only *)
    destruct (valid_index_head _ _ Hup) as (r & El).
    rewrite (span_exact is_alnum (c :: front) (up ++ pr ++ rest) Hcf); [|subst up; reflexivity].
    assert (Hsub : span is_sub_char (up ++ pr ++ rest) = ([], up ++ pr ++ rest)) by (subst up; reflexivity).
    rewrite Hsub.
    assert (Hno : lex_index ch_us (up ++ pr ++ rest) = ([], up ++ pr ++ rest)) by (subst up; reflexivity).
    rewrite Hno, (lex_index_valid ch_caret up (pr ++ rest) Hup), T6. reflexivity.
  - (* both *)
    destruct (valid_index_head _ _ Hlo) as (r & El). destruct (valid_index_head _ _ Hup) as (r' & Eu).
    rewrite <- app_assoc.
    rewrite (span_exact is_alnum (c :: front) (lo ++ up ++ pr ++ rest) Hcf); [|subst lo; reflexivity].
    assert (Hsub : span is_sub_char (lo ++ up ++ pr ++ rest) = ([ch_us], ch_lbrace :: r ++ up ++ pr ++ rest)).
    { subst lo. reflexivity. }
    rewrite Hsub. simpl (_ =? _). cbv iota.
    rewrite (lex_index_valid ch_us lo (up ++ pr ++ rest) Hlo), (lex_index_valid ch_caret up (pr ++ rest) Hup), T6.
    rewrite <- app_assoc. reflexivity.
Qed.

(* ---------- numbers ---------- *)
Definition mstop (tail : str) : bool :=
  match tail with [] => true | c :: _ => negb (is_digit c) && negb (c =? ch_dot) end.
Definition estop (tail : str) : bool :=
  match tail with [] => true | c :: _ => negb (c =? ch_e) && negb (c =? ch_E) end.

Lemma mstop_digit : forall tail, mstop tail = true -> stops is_digit tail = true.
Proof. intros [|c t] H; [reflexivity|]. simpl in *. apply andb_true_iff in H. tauto. Qed.

Lemma lex_mantissa_valid : forall m tail, mantissa m -> mstop tail = true ->
  lex_mantissa (m ++ tail) = Some (m, tail).
Proof.
  intros m tail Hm Ht. pose proof (mstop_digit tail Ht) as Hd. unfold lex_mantissa.
  inversion Hm as [ip N D|ip fp N D F|fp N F]; subst m.
  - rewrite (span_exact is_digit ip tail D Hd). destruct ip as [|d ip]; [discriminate|].
    destruct tail as [|c t]; [reflexivity|]. simpl in Ht. apply andb_true_iff in Ht. destruct Ht as [_ Ht].
    apply negb_true_iff in Ht. rewrite Ht. reflexivity.
  - rewrite <- app_assoc. simpl app.
    rewrite (span_exact is_digit ip (ch_dot :: fp ++ tail) D eq_refl).
    destruct ip as [|d ip]; [discriminate|]. simpl (_ =? _). cbv iota.
    rewrite (span_exact is_digit fp tail F Hd). reflexivity.
  - simpl app. change (span is_digit (ch_dot :: fp ++ tail)) with (@nil Z, ch_dot :: fp ++ tail).
    simpl (_ =? _). cbv iota. rewrite (span_exact is_digit fp tail F Hd).
    destruct fp; [discriminate|reflexivity].
Qed.

Lemma digit_not_sign : forall d, is_digit d = true ->
  (d =? ch_plus) = false /\ (d =? ch_minus) = false /\ (d =? ch_emdash) = false.
Proof.
  intros d H. unfold is_digit in H. apply andb_true_iff in H. destruct H as [H1 H2].
  apply Z.leb_le in H1. apply Z.leb_le in H2. unfold ch_plus, ch_minus, ch_emdash.
  repeat split; apply Z.eqb_neq; lia.
Qed.

Lemma lex_exponent_valid : forall e tail, exponent e -> estop tail = true -> stops is_digit tail = true ->
  lex_exponent (e ++ tail) = (e, tail).
Proof.
  intros e tail He Ht Hd. inversion He as [|sg ds Hsg N D]; subst e.
  - simpl app. unfold lex_exponent. destruct tail as [|c t]; [reflexivity|].
    simpl in Ht. apply andb_true_iff in Ht. destruct Ht as [H1 H2]. apply negb_true_iff in H1, H2.
    rewrite H1, H2. reflexivity.
  - change ((ch_E :: sg ++ ds) ++ tail) with (ch_E :: (sg ++ ds) ++ tail). rewrite <- app_assoc.
    unfold lex_exponent. simpl (_ || _). cbv iota.
    destruct ds as [|d ds]; [discriminate|]. simpl in D. apply andb_true_iff in D. destruct D as [D1 D2].
    destruct (digit_not_sign d D1) as (S1 & S2 & S3).
    assert (Hspan : span is_digit (d :: ds ++ tail) = (d :: ds, tail)).
    { change (d :: ds ++ tail) with ((d :: ds) ++ tail).
      apply span_exact; [simpl; rewrite D1, D2; reflexivity|assumption]. }
    destruct Hsg as [->|[->| ->]]; cbn [app].
    + rewrite S1, S2, S3. cbn [orb]. rewrite Hspan. reflexivity.
    + rewrite Z.eqb_refl. rewrite Hspan. reflexivity.
    + change (ch_minus =? ch_plus) with false. rewrite Z.eqb_refl. cbn [orb]. rewrite Hspan. reflexivity.
Qed.

Lemma suffix_char_not_ws : forall c, is_suffix_char c = true -> is_ws c = false.
Proof.
  intros c H. unfold is_suffix_char, is_alpha, is_upper, is_lower in H. unfold is_ws.
  repeat match goal with
         | H : (_ || _) = true |- _ => apply orb_true_iff in H; destruct H as [H|H]
         | H : (_ && _) = true |- _ => apply andb_true_iff in H; destruct H
         | H : (_ <=? _) = true |- _ => apply Z.leb_le in H
         | H : (_ =? _) = true |- _ => apply Z.eqb_eq in H
         end;
  repeat (apply orb_false_iff; split); apply Z.eqb_neq; lia.
Qed.

Lemma skip_ws_nonws : forall c s, is_ws c = false -> skip_ws (c :: s) = c :: s.
Proof. intros c s H. unfold skip_ws. simpl. rewrite H. reflexivity. Qed.

Lemma lex_suffix_some : forall u rest, valid_suffix u -> stops is_suffix_char rest = true ->
  lex_suffix (u ++ rest) = (Some u, rest).
Proof.
  intros u rest (N & A & _) Hr. destruct u as [|c u]; [discriminate|].
  simpl in A. apply andb_true_iff in A. destruct A as [A1 A2].
  unfold lex_suffix. change ((c :: u) ++ rest) with (c :: u ++ rest).
  rewrite (skip_ws_nonws c (u ++ rest) (suffix_char_not_ws c A1)).
  change (c :: u ++ rest) with ((c :: u) ++ rest).
  rewrite (span_exact is_suffix_char (c :: u) rest); [reflexivity|simpl; rewrite A1, A2; reflexivity|assumption].
Qed.

Lemma lex_suffix_none : forall rest, stops is_suffix_char (skip_ws rest) = true -> lex_suffix rest = (None, rest).
Proof. intros rest H. unfold lex_suffix. rewrite (span_stop _ _ H). reflexivity. Qed.

Lemma stops_skip_ws : forall p rest, (forall c, is_ws c = true -> p c = false) ->
  stops p (skip_ws rest) = true -> stops p rest = true.
Proof.
  intros p rest Hp H. destruct rest as [|c r]; [reflexivity|]. simpl.
  destruct (is_ws c) eqn:W; [rewrite (Hp c W); reflexivity|].
  rewrite (skip_ws_nonws c r W) in H. exact H.
Qed.

Lemma ws_not_suffix : forall c, is_ws c = true -> is_suffix_char c = false.
Proof.
  intros c H. destruct (is_suffix_char c) eqn:S; [|reflexivity].
  rewrite (suffix_char_not_ws c S) in H. discriminate.
Qed.

Definition suffix_text (suf : option str) : str := match suf with Some u => u | None => [] end.

Lemma print_token_num : forall x suf, print_token (TNum x suf) = x ++ suffix_text suf.
Proof. intros x [u|]; simpl; [reflexivity|rewrite app_nil_r; reflexivity]. Qed.

Lemma suffix_head_props : forall u, valid_suffix u ->
  exists c r, u = c :: r /\ is_suffix_char c = true /\ (c =? ch_e) = false /\ (c =? ch_E) = false.
Proof.
  intros [|c r] (N & A & H); [discriminate|]. simpl in A. apply andb_true_iff in A. destruct A as [A _].
  destruct H as [H1 H2]. eauto 8.
Qed.

Lemma suffix_char_props : forall c, is_suffix_char c = true -> is_digit c = false /\ (c =? ch_dot) = false.
Proof.
  intros c H. unfold is_suffix_char, is_alpha, is_upper, is_lower in H. unfold is_digit, ch_dot.
  repeat match goal with
         | H : (_ || _) = true |- _ => apply orb_true_iff in H; destruct H as [H|H]
         | H : (_ && _) = true |- _ => apply andb_true_iff in H; destruct H
         | H : (_ <=? _) = true |- _ => apply Z.leb_le in H
         | H : (_ =? _) = true |- _ => apply Z.eqb_eq in H
         end;
  (split; [apply andb_false_iff; rewrite !Z.leb_gt; lia|apply Z.eqb_neq; lia]).
Qed.

Lemma letter_e_suffix : is_suffix_char ch_e = true /\ is_suffix_char ch_E = true.
Proof. split; reflexivity. Qed.

Lemma lex_number_valid : forall x suf rest, valid_token (TNum x suf) -> num_follow rest = true ->
  lex_number (print_token (TNum x suf) ++ rest) = Some (TNum x suf, rest).
Proof.
  intros x suf rest [(m & e & Ex & Hm & He) Hs] Hf. subst x. rewrite print_token_num.
  unfold num_follow in Hf. apply andb_true_iff in Hf. destruct Hf as [Hf1 Hf2].
  pose proof (stops_skip_ws is_suffix_char rest ws_not_suffix Hf2) as Hf3.
  (* properties of the text after the exponent: suffix then rest *)
  set (tail2 := suffix_text suf ++ rest).
  assert (P2 : mstop tail2 = true /\ estop tail2 = true).
  { subst tail2. destruct suf as [u|]; simpl suffix_text.
    - destruct (suffix_head_props u Hs) as (c & r & -> & Sc & E1 & E2).
      destruct (suffix_char_props c Sc) as [Dg Dt]. simpl. rewrite Dg, Dt, E1, E2. auto.
    - simpl app. split; [exact Hf1|]. destruct rest as [|c r]; [reflexivity|]. simpl.
      simpl in Hf3. apply negb_true_iff in Hf3.
      destruct (c =? ch_e) eqn:A; [apply Z.eqb_eq in A; subst; discriminate|].
      destruct (c =? ch_E) eqn:B; [apply Z.eqb_eq in B; subst; discriminate|]. reflexivity. }
  destruct P2 as [M2 E2].
  assert (M1 : mstop (e ++ tail2) = true).
  { inversion He; subst; [exact M2|reflexivity]. }
  unfold lex_number.
  replace (((m ++ e) ++ suffix_text suf) ++ rest) with (m ++ e ++ tail2) by (subst tail2; rewrite <- !app_assoc; reflexivity).
  rewrite (lex_mantissa_valid m (e ++ tail2) Hm M1).
  rewrite (lex_exponent_valid e tail2 He E2 (mstop_digit tail2 M2)).
  subst tail2. destruct suf as [u|]; simpl suffix_text.
  - rewrite (lex_suffix_some u rest Hs Hf3). reflexivity.
  - simpl app. rewrite (lex_suffix_none rest Hf2). reflexivity.
Qed.

(* ---------- the token stream with separators ---------- *)
Definition is_punct_tok (t : token) : bool := match t with TNum _ _ | TName _ => false | _ => true end.

(* numbers and names are followed by punctuation (true of every token list the parser accepts) *)
Fixpoint sep_ok (ts : list token) : bool :=
  match ts with
  | a :: r => match r with
              | b :: _ => (is_punct_tok a || is_punct_tok b) && sep_ok r
              | [] => true
              end
  | [] => true
  end.

(* seps: the TAB / LF / CR runs before each token and after the last one (missing ones are empty) *)
Fixpoint spaced (seps : list str) (ts : list token) : str :=
  match ts with
  | [] => match seps with w :: _ => w | [] => [] end
  | t :: ts' => match seps with
                | w :: seps' => w ++ print_token t ++ spaced seps' ts'
                | [] => print_token t ++ spaced [] ts'
                end
  end.

Lemma spaced_nil_seps : forall ts, spaced [] ts = print_tokens ts.
Proof. induction ts as [|t ts IH]; [reflexivity|]. simpl. rewrite IH. reflexivity. Qed.

Record sepchar (c : Z) : Prop := {
  sc_digit : is_digit c = false; sc_dot : (c =? ch_dot) = false; sc_alpha : is_alpha c = false;
  sc_sub : is_sub_char c = false; sc_prime : is_prime c = false; sc_lbrace : (c =? ch_lbrace) = false;
  sc_suffix : is_suffix_char c = false }.

Lemma ws_sepchar : forall c, is_ws c = true -> sepchar c /\ (c =? ch_caret) = false.
Proof.
  intros c H. unfold is_ws in H.
  repeat match goal with
         | H : (_ || _) = true |- _ => apply orb_true_iff in H; destruct H as [H|H]
         end; apply Z.eqb_eq in H; subst; (split; [constructor|]); reflexivity.
Qed.

Lemma punct_tok_char : forall t, is_punct_tok t = true ->
  exists c, print_token t = [c] /\ punct c = Some t /\ sepchar c /\ is_ws c = false.
Proof.
  intros t H. destruct t; simpl in H; try discriminate;
    eexists; (split; [reflexivity|]); (split; [reflexivity|]); (split; [constructor; reflexivity|reflexivity]).
Qed.

Definition tok_first_ok (c : Z) : Prop := (c =? ch_lbrace) = false /\ is_ws c = false.

Lemma alpha_props : forall c, is_alpha c = true ->
  is_digit c = false /\ (c =? ch_dot) = false /\ (c =? ch_lbrace) = false /\ is_ws c = false.
Proof.
  intros c H. unfold is_alpha, is_upper, is_lower in H. unfold is_digit, is_ws, ch_dot, ch_lbrace.
  repeat match goal with
         | H : (_ || _) = true |- _ => apply orb_true_iff in H; destruct H as [H|H]
         | H : (_ && _) = true |- _ => apply andb_true_iff in H; destruct H
         | H : (_ <=? _) = true |- _ => apply Z.leb_le in H
         end;
  (repeat split; [apply andb_false_iff; rewrite !Z.leb_gt; lia|apply Z.eqb_neq; lia|apply Z.eqb_neq; lia|
                  repeat (apply orb_false_iff; split); apply Z.eqb_neq; lia]).
Qed.

Lemma digit_props : forall c, is_digit c = true -> (c =? ch_lbrace) = false /\ is_ws c = false.
Proof.
  intros c H. unfold is_digit in H. apply andb_true_iff in H. destruct H as [H1 H2].
  apply Z.leb_le in H1. apply Z.leb_le in H2. unfold is_ws, ch_lbrace.
  split; [apply Z.eqb_neq; lia|repeat (apply orb_false_iff; split); apply Z.eqb_neq; lia].
Qed.

(* first character of the text of a valid token *)
Lemma num_first : forall x suf rest, valid_token (TNum x suf) ->
  exists c r, print_token (TNum x suf) ++ rest = c :: r /\ (is_digit c || (c =? ch_dot)) = true /\ tok_first_ok c.
Proof.
  intros x suf rest [(m & e & -> & Hm & He) _]. rewrite print_token_num.
  inversion Hm as [ip N D|ip fp N D F|fp N F]; subst m.
  - destruct ip as [|c ip]; [discriminate|]. simpl in D. apply andb_true_iff in D. destruct D as [D _].
    exists c. eexists. split; [rewrite <- !app_assoc; reflexivity|]. rewrite D. split; [reflexivity|apply digit_props; assumption].
  - destruct ip as [|c ip]; [discriminate|]. simpl in D. apply andb_true_iff in D. destruct D as [D _].
    exists c. eexists. split; [rewrite <- !app_assoc; reflexivity|]. rewrite D. split; [reflexivity|apply digit_props; assumption].
  - exists ch_dot. eexists. split; [rewrite <- !app_assoc; reflexivity|]. split; [reflexivity|split; reflexivity].
Qed.

Lemma name_first : forall n rest, valid_name n ->
  exists c r, n ++ rest = c :: r /\ is_alpha c = true.
Proof. intros n rest (c & front & mid & pr & -> & Hc & _). exists c. eexists. split; [reflexivity|assumption]. Qed.

Definition head_ok (s : str) : Prop := match s with [] => True | c :: _ => (c =? ch_lbrace) = false end.

Lemma spaced_head : forall ts seps, Forall (fun w => forallb is_ws w = true) seps -> Forall valid_token ts ->
  head_ok (spaced seps ts).
Proof.
  intros ts seps Hs Ht.
  assert (Hw : forall w r, forallb is_ws w = true -> head_ok r -> head_ok (w ++ r)).
  { intros [|c w] r H Hr; [exact Hr|]. simpl in *. apply andb_true_iff in H. destruct H as [H _].
    destruct (ws_sepchar c H) as [[] _]. assumption. }
  assert (Htok : forall t r, valid_token t -> head_ok (print_token t ++ r)).
  { intros t r Hv. destruct (is_punct_tok t) eqn:P.
    - destruct (punct_tok_char t P) as (c & -> & _ & [] & _). simpl. assumption.
    - destruct t; try discriminate.
      + destruct (num_first text suffix r Hv) as (c & r' & -> & _ & [H _]). exact H.
      + destruct (name_first n r Hv) as (c & r' & E & Hc). simpl. rewrite E. simpl. apply (alpha_props c Hc). }
  destruct ts as [|t ts]; simpl.
  - destruct seps as [|w seps]; [exact I|]. inversion Hs; subst.
    rewrite <- (app_nil_r w). apply Hw; [assumption|exact I].
  - inversion Ht; subst. destruct seps as [|w seps].
    + apply Htok. assumption.
    + inversion Hs; subst. apply Hw; [assumption|]. apply Htok. assumption.
Qed.

Lemma skip_ws_all : forall w, forallb is_ws w = true -> skip_ws w = [].
Proof. intros w H. rewrite <- (app_nil_r w). rewrite skip_ws_app by assumption. reflexivity. Qed.

(* what follows a number / name inside a well-separated text satisfies the follow conditions *)
Lemma follow_conditions : forall ts seps,
  Forall (fun w => forallb is_ws w = true) seps -> Forall valid_token ts ->
  match ts with b :: _ => is_punct_tok b = true | [] => True end ->
  num_follow (spaced seps ts) = true /\ name_follow (spaced seps ts) = true.
Proof.
  intros ts seps Hs Ht Hb.
  (* the text is w ++ body where body is empty or starts with a punctuation character followed by a good head *)
  assert (Hform : exists w body, spaced seps ts = w ++ body /\ forallb is_ws w = true /\
            (body = [] \/ exists c r, body = c :: r /\ sepchar c /\ is_ws c = false /\ head_ok r)).
  { destruct ts as [|b ts].
    - simpl. destruct seps as [|w seps]; [exists [], []; auto|]. inversion Hs; subst.
      exists w, []. rewrite app_nil_r. auto.
    - inversion Ht; subst. destruct (punct_tok_char b Hb) as (c & Ep & _ & Sc & Wc).
      simpl. destruct seps as [|w seps].
      + exists [], (print_token b ++ spaced [] ts). split; [reflexivity|]. split; [reflexivity|]. right.
        rewrite Ep. exists c, (spaced [] ts). split; [reflexivity|]. split; [assumption|]. split; [assumption|]. apply spaced_head; [constructor|assumption].
      + inversion Hs; subst. exists w, (print_token b ++ spaced seps ts). split; [reflexivity|]. split; [assumption|]. right.
        rewrite Ep. exists c, (spaced seps ts). split; [reflexivity|]. split; [assumption|]. split; [assumption|]. apply spaced_head; assumption. }
  destruct Hform as (w & body & -> & Hw & Hbody).
  assert (Hskip : skip_ws (w ++ body) = body \/ body = []).
  { destruct Hbody as [->|(c & r & -> & _ & Wc & _)]; [right; reflexivity|left].
    rewrite skip_ws_app by assumption. apply skip_ws_nonws. assumption. }
  split.
  - unfold num_follow. apply andb_true_iff. split.
    + destruct w as [|c w].
      * simpl. destruct Hbody as [->|(c & r & -> & [] & _)]; [reflexivity|]. rewrite sc_digit0, sc_dot0. reflexivity.
      * simpl in *. apply andb_true_iff in Hw. destruct Hw as [Hc _]. destruct (ws_sepchar c Hc) as [[] _].
        rewrite sc_digit0, sc_dot0. reflexivity.
    + destruct Hbody as [->|(c & r & -> & [] & Wc & _)].
      * rewrite app_nil_r, skip_ws_all by assumption. reflexivity.
      * rewrite skip_ws_app by assumption. rewrite skip_ws_nonws by assumption. simpl. rewrite sc_suffix0. reflexivity.
  - unfold name_follow. destruct w as [|c w].
    + simpl app. destruct Hbody as [->|(c & r & -> & [] & Wc & Hr)]; [reflexivity|].
      rewrite sc_sub0, sc_prime0, sc_lbrace0. simpl.
      destruct (c =? ch_caret); [|reflexivity]. simpl. destruct r as [|d r]; [reflexivity|]. simpl in Hr. rewrite Hr. reflexivity.
    + simpl in *. apply andb_true_iff in Hw. destruct Hw as [Hc _]. destruct (ws_sepchar c Hc) as [[] Hcar].
      rewrite sc_sub0, sc_prime0, sc_lbrace0, Hcar. reflexivity.
Qed.

Theorem lex_loop_spaced : forall ts seps f,
  Forall (fun w => forallb is_ws w = true) seps -> Forall valid_token ts -> sep_ok ts = true ->
  (length (spaced seps ts) < f)%nat -> lex_loop f (spaced seps ts) = Some ts.
Proof.
  induction ts as [|t ts IH]; intros seps f Hs Ht Hok Hf.
  - destruct f; [lia|]. simpl. destruct seps as [|w seps]; [reflexivity|]. inversion Hs; subst.
    rewrite skip_ws_all by assumption. reflexivity.
  - inversion Ht as [|? ? Hv Ht']; subst.
    (* normalise: separator w (possibly empty), then the token, then the rest *)
    assert (Hnorm : exists w seps', forallb is_ws w = true /\ Forall (fun w => forallb is_ws w = true) seps' /\
                      spaced seps (t :: ts) = w ++ print_token t ++ spaced seps' ts).
    { destruct seps as [|w seps']; [exists [], []; repeat split; constructor|].
      inversion Hs; subst. exists w, seps'. auto. }
    destruct Hnorm as (w & seps' & Hw & Hs' & E). rewrite E in *. clear E.
    set (R := spaced seps' ts) in *.
    assert (Hok' : sep_ok ts = true) by (simpl in Hok; destruct ts; [reflexivity|apply andb_true_iff in Hok; tauto]).
    assert (Hlen : (length R < length (w ++ print_token t ++ R))%nat -> True) by auto.
    destruct f as [|f]; [lia|].
    assert (HfR : (length R < f)%nat).
    { rewrite !app_length in Hf.
      assert (1 <= length (print_token t))%nat.
      { destruct (is_punct_tok t) eqn:P.
        - destruct (punct_tok_char t P) as (c & -> & _). simpl. lia.
        - destruct t; try discriminate.
          + destruct (num_first text suffix [] Hv) as (c & r & E & _). rewrite app_nil_r in E. rewrite E. simpl. lia.
          + destruct (name_first n [] Hv) as (c & r & E & _). rewrite app_nil_r in E. simpl. rewrite E. simpl. lia. }
      lia. }
    specialize (IH seps' f Hs' Ht' Hok' HfR). fold R in IH.
    cbn [lex_loop]. rewrite skip_ws_app by assumption.
    destruct (is_punct_tok t) eqn:P.
    + destruct (punct_tok_char t P) as (c & Ep & Pc & [] & Wc). rewrite Ep. simpl app.
      rewrite (skip_ws_nonws c R Wc). rewrite sc_digit0, sc_dot0, sc_alpha0. simpl orb. cbv iota.
      rewrite Pc, IH. reflexivity.
    + assert (Hfollow : num_follow R = true /\ name_follow R = true).
      { subst R. apply follow_conditions; try assumption.
        destruct ts as [|b ts']; [exact I|]. simpl in Hok. rewrite P in Hok. simpl in Hok.
        apply andb_true_iff in Hok. tauto. }
      destruct Hfollow as [Fn Fm].
      destruct t; try discriminate.
      * destruct (num_first text suffix R Hv) as (c & r & E & Hc & [_ Wc]).
        rewrite E, (skip_ws_nonws c r Wc), Hc. rewrite <- E.
        rewrite (lex_number_valid text suffix R Hv Fn), IH. reflexivity.
      * destruct (name_first n R Hv) as (c & r & E & Hc).
        destruct (alpha_props c Hc) as (A1 & A2 & _ & A4).
        simpl print_token. rewrite E, (skip_ws_nonws c r A4), A1, A2, Hc. simpl orb. cbv iota. rewrite <- E.
        rewrite (lex_name_valid n R Hv Fm), IH. reflexivity.
Qed.

(* tabs and line breaks between tokens (and before / after them) do not matter *)
Theorem lex_spaced : forall ts seps,
  Forall (fun w => forallb is_ws w = true) seps -> Forall valid_token ts -> sep_ok ts = true ->
  lex (spaced seps ts) = Some ts.
Proof. intros. unfold lex. apply lex_loop_spaced; auto. Qed.

Corollary lex_print_tokens : forall ts, Forall valid_token ts -> sep_ok ts = true -> lex (print_tokens ts) = Some ts.
Proof. intros ts Hv Hs. rewrite <- spaced_nil_seps. apply lex_spaced; auto. Qed.
