(* ParserReject.v -- what the token-level parser rejects, for token lists of any length.
   Every accepted list is the print of a well-formed tree (ParserSound); the print of a well-formed tree
   starts with a token that can start an expression, ends with a token that can end an operand, and every
   adjacent pair of tokens is one the grammar allows.  Hence any list with a forbidden adjacent pair
   (doubled binary operators, juxtaposed operands, empty brackets, empty argument slots), a leading binary
   operator or a trailing operator is rejected. *)
From Coq Require Import ZArith List Bool Lia Arith.
From Verif.Model Require Import Result Lexer Parser.
From Verif.Proofs Require Import ParserRoundTrip ParserSound.
Import ListNotations.

Definition operand_end (k : token) : bool :=
  match k with TNum _ _ | TName _ | TRP | TRB => true | _ => false end.

Definition expr_start (k : token) : bool :=
  operand_start k || match k with TPlus => true | _ => false end.

Definition after_operand (b : token) : bool :=
  match b with TPlus | TMinus | TStar | TSlash | TCaret | TPipe | TRP | TRB | TComma => true | _ => false end.

(* the adjacent pairs that occur in prints of well-formed trees (an over-approximation) *)
Definition pair_ok (a b : token) : bool :=
  match a with
  | TNum _ _ | TRP | TRB => after_operand b
  | TName _ => after_operand b || match b with TLP => true | _ => false end
  | TLP | TLB | TComma => expr_start b
  | TPlus | TMinus | TStar | TSlash | TCaret => operand_start b
  | TPipe => operand_start b || match b with TPipe => true | _ => false end
  end.

(* run through ts starting after token p; the last token seen if every adjacent pair is allowed *)
Fixpoint ok_from (p : token) (ts : list token) : option token :=
  match ts with
  | [] => Some p
  | k :: r => if pair_ok p k then ok_from k r else None
  end.

Lemma ok_from_app : forall a b p,
  ok_from p (a ++ b) = match ok_from p a with Some e => ok_from e b | None => None end.
Proof.
  induction a as [|k a IH]; intros b p; simpl; [reflexivity|].
  destruct (pair_ok p k); [apply IH|reflexivity].
Qed.

Definition tokens_ok (ts : list token) : bool :=
  match ts with
  | [] => false
  | k :: r => expr_start k && match ok_from k r with Some e => operand_end e | None => false end
  end.

(* ---------- first token of any well-formed print ---------- *)
Lemma head0 : forall t, wfb t = true -> exists k r, print t = k :: r /\ expr_start k = true.
Proof.
  intros t W. destruct (Nat.eq_dec (tlevel t) 0) as [E|NE].
  - destruct t; simpl in E; try discriminate.
    rewrite wfb_Sum in W. split_wf W. leb_all. rewrite print_Sum.
    destruct lead; [simpl; eauto|].
    destruct (head1 t W2 W1) as (k & r & Ep & A). rewrite Ep. simpl. exists k. eexists. split; [reflexivity|].
    unfold expr_start. rewrite A. reflexivity.
  - destruct (head1 t ltac:(lia) W) as (k & r & Ep & A). exists k, r. split; [assumption|].
    unfold expr_start. rewrite A. reflexivity.
Qed.

Lemma after_operand_end : forall e b, operand_end e = true -> after_operand b = true -> pair_ok e b = true.
Proof. intros e b He Hb. destruct e; simpl in He; try discriminate; simpl; rewrite Hb; reflexivity. Qed.

Lemma atom_is_operand : forall k, atom_start k = true -> operand_start k = true.
Proof. intros k H. unfold operand_start. rewrite H. reflexivity. Qed.

(* ---------- every print of a well-formed tree is a good run ---------- *)
Definition good_run (ts : list token) : Prop :=
  forall p k r, ts = k :: r -> pair_ok p k = true ->
  exists e, ok_from p ts = Some e /\ operand_end e = true.

Definition good_tree (t : tree) : Prop := good_run (print t).

(* a separator followed by an item whose head the separator admits *)
Lemma run_sep_item : forall (sep : list token) (last_sep : token) (item : list token) e,
  operand_end e = true ->
  ok_from e sep = Some last_sep ->
  good_run item -> (exists k r, item = k :: r /\ pair_ok last_sep k = true) ->
  exists e', ok_from e (sep ++ item) = Some e' /\ operand_end e' = true.
Proof.
  intros sep ls item e He Hs Hg (k & r & Ei & Hp).
  rewrite ok_from_app, Hs. apply (Hg ls k r Ei Hp).
Qed.

Lemma run_items : forall (A : Type) (f : A -> list token) (l : list A) e,
  operand_end e = true ->
  Forall (fun x => forall e0, operand_end e0 = true ->
                   exists e', ok_from e0 (f x) = Some e' /\ operand_end e' = true) l ->
  exists e', ok_from e (flat_map f l) = Some e' /\ operand_end e' = true.
Proof.
  intros A f l. induction l as [|x l IH]; intros e He H.
  - simpl. eauto.
  - inversion H as [|? ? Hx Hl]; subst. simpl. rewrite ok_from_app.
    destruct (Hx e He) as (e1 & E1 & O1). rewrite E1. apply IH; assumption.
Qed.

Lemma good_single : forall k, operand_end k = true -> good_run [k].
Proof.
  intros k Hk p k' r E Hp. inversion E; subst. simpl. rewrite Hp. eauto.
Qed.

Lemma wfb_items_plain : forall lvl l, forallb (fun t => (lvl <=? tlevel t) && wfb t) l = true ->
  Forall (fun t => lvl <= tlevel t /\ wfb t = true) l.
Proof.
  intros lvl l H. rewrite forallb_forall in H. apply Forall_forall. intros x Hx.
  specialize (H x Hx). apply andb_true_iff in H. destruct H as [H1 H2]. apply Nat.leb_le in H1. auto.
Qed.

Lemma wfb_items_pair : forall (A : Type) lvl (l : list (A * tree)),
  forallb (fun p : A * tree => (lvl <=? tlevel (snd p)) && wfb (snd p)) l = true ->
  Forall (fun p => lvl <= tlevel (snd p) /\ wfb (snd p) = true) l.
Proof.
  intros A lvl l H. rewrite forallb_forall in H. apply Forall_forall. intros x Hx.
  specialize (H x Hx). apply andb_true_iff in H. destruct H as [H1 H2]. apply Nat.leb_le in H1. auto.
Qed.

Lemma Forall_and : forall (A : Type) (P Q : A -> Prop) l, Forall P l -> Forall Q l -> Forall (fun x => P x /\ Q x) l.
Proof. intros A P Q l HP HQ. induction HP; inversion HQ; subst; constructor; auto. Qed.

(* comma-separated contents of brackets: opener, first item, { ',' item }, closer *)
Lemma run_bracketed : forall (op cl : token) (a : tree) (l : list tree) p,
  (op = TLP \/ op = TLB) -> (cl = TRP \/ cl = TRB) ->
  pair_ok p op = true ->
  wfb a = true -> good_tree a ->
  Forall (fun t => wfb t = true /\ good_tree t) l ->
  exists e, ok_from p (op :: (print a ++ list_toks l) ++ [cl]) = Some e /\ operand_end e = true.
Proof.
  intros op cl a l p Hop Hcl Hp Wa Ga Hl.
  simpl. rewrite Hp. rewrite ok_from_app, ok_from_app.
  destruct (head0 a Wa) as (k & r & Ea & Sa).
  assert (P1 : pair_ok op k = true) by (destruct Hop; subst; exact Sa).
  destruct (Ga op k r Ea P1) as (e1 & E1 & O1). rewrite E1.
  assert (H2 : exists e2, ok_from e1 (list_toks l) = Some e2 /\ operand_end e2 = true).
  { unfold list_toks. apply run_items; [assumption|].
    eapply Forall_impl; [|exact Hl]. intros t [Wt Gt] e0 He0.
    destruct (head0 t Wt) as (k' & r' & Et & St).
    simpl. rewrite (after_operand_end e0 TComma He0 eq_refl).
    apply (Gt TComma k' r' Et St). }
  destruct H2 as (e2 & E2 & O2). rewrite E2. simpl.
  assert (P2 : pair_ok e2 cl = true) by (apply after_operand_end; [assumption|destruct Hcl; subst; reflexivity]).
  rewrite P2. exists cl. split; [reflexivity|destruct Hcl; subst; reflexivity].
Qed.

Theorem print_good : forall t, wfb t = true -> good_tree t.
Proof.
  induction t using tree_ind'; intro W; unfold good_tree.
  - apply good_single. reflexivity.
  - apply good_single. reflexivity.
  - (* Fun *)
    rewrite wfb_Fun in W. split_wf W. destruct args as [|a l]; [discriminate|].
    simpl in W0. apply andb_true_iff in W0. destruct W0 as [Wa Wl]. inversion H as [|? ? Ha Hl]; subst.
    intros p k r E Hp. rewrite print_Fun in E. inversion E; subst. rewrite print_Fun.
    cbn [ok_from]. rewrite Hp.
    apply (run_bracketed TLP TRP a l (TName n)); auto.
    rewrite forallb_forall in Wl. rewrite Forall_forall in *. intros t Ht. split; auto.
  - (* Paren *)
    simpl in W. intros p k r E Hp. simpl in E. inversion E; subst. simpl. rewrite Hp.
    rewrite ok_from_app. destruct (head0 t W) as (k & r & Et & St).
    destruct (IHt W TLP k r Et St) as (e1 & E1 & O1). rewrite E1. simpl.
    rewrite (after_operand_end e1 TRP O1 eq_refl). eauto.
  - (* Arr *)
    rewrite wfb_Arr in W. split_wf W. destruct items as [|a l]; [discriminate|].
    simpl in W0. apply andb_true_iff in W0. destruct W0 as [Wa Wl]. inversion H as [|? ? Ha Hl]; subst.
    intros p k r E Hp. rewrite print_Arr in E. inversion E; subst. rewrite print_Arr.
    apply (run_bracketed TLB TRB a l p); auto.
    rewrite forallb_forall in Wl. rewrite Forall_forall in *. intros t Ht. split; auto.
  - (* Pow *)
    rewrite wfb_Pow in W. split_wf W. leb_all.
    intros p k r E Hp. rewrite print_Pow in *.
    destruct (head4 t ltac:(lia) W1) as (kb & rb & Eb & Sb). rewrite Eb in E. inversion E; subst k.
    rewrite ok_from_app. destruct (IHt W1 p kb rb Eb Hp) as (e1 & E1 & O1). rewrite E1.
    unfold pow_toks. apply run_items; [assumption|].
    apply wfb_items_pair in W0. eapply Forall_impl; [|exact (Forall_and _ _ _ _ W0 H)].
    intros [sg a] [[La Wa] Ga] e0 He0. cbn [fst snd] in *.
    destruct (head4 a ltac:(lia) Wa) as (ka & ra & Ea & Sa).
    cbn [ok_from]. rewrite (after_operand_end e0 TCaret He0 eq_refl).
    destruct sg.
    + cbn [app ok_from]. change (pair_ok TCaret TMinus) with true. cbv iota.
      apply (Ga Wa TMinus ka ra Ea). simpl. apply atom_is_operand. assumption.
    + cbn [app]. apply (Ga Wa TCaret ka ra Ea). simpl. apply atom_is_operand. assumption.
  - (* Neg *)
    rewrite wfb_Neg in W. split_wf W. leb_all.
    intros p k r E Hp. simpl in E. inversion E; subst. simpl. rewrite Hp.
    destruct (head4 t W W0) as (kb & rb & Eb & Sb).
    apply (IHt W0 TMinus kb rb Eb). simpl. apply atom_is_operand. assumption.
  - (* Par *)
    rewrite wfb_Par in W. split_wf W. leb_all.
    intros p k r E Hp. rewrite print_Par in *.
    destruct (head3 t W2 W1) as (kb & rb & Eb & Sb). rewrite Eb in E. inversion E; subst k.
    rewrite ok_from_app. destruct (IHt W1 p kb rb Eb Hp) as (e1 & E1 & O1). rewrite E1.
    unfold par_toks. apply run_items; [assumption|].
    apply wfb_items_plain in W0. eapply Forall_impl; [|exact (Forall_and _ _ _ _ W0 H)].
    intros a [[La Wa] Ga] e0 He0.
    destruct (head3 a La Wa) as (ka & ra & Ea & Sa).
    cbn [ok_from]. rewrite (after_operand_end e0 TPipe He0 eq_refl).
    change (pair_ok TPipe TPipe) with true. cbv iota.
    apply (Ga Wa TPipe ka ra Ea). simpl. rewrite Sa. reflexivity.
  - (* Prod *)
    rewrite wfb_Prod in W. split_wf W. leb_all.
    intros p k r E Hp. rewrite print_Prod in *.
    destruct (head2 t W2 W1) as (kb & rb & Eb & Sb). rewrite Eb in E. inversion E; subst k.
    rewrite ok_from_app. destruct (IHt W1 p kb rb Eb Hp) as (e1 & E1 & O1). rewrite E1.
    unfold prod_toks. apply run_items; [assumption|].
    apply wfb_items_pair in W0. eapply Forall_impl; [|exact (Forall_and _ _ _ _ W0 H)].
    intros [o a] [[La Wa] Ga] e0 He0. cbn [fst snd] in *.
    destruct (head2 a La Wa) as (ka & ra & Ea & Sa).
    cbn [ok_from].
    assert (P1 : pair_ok e0 (mul_tok o) = true) by (apply after_operand_end; [assumption|destruct o; reflexivity]).
    rewrite P1. apply (Ga Wa (mul_tok o) ka ra Ea). destruct o; exact Sa.
  - (* Sum *)
    rewrite wfb_Sum in W. split_wf W. leb_all.
    intros p k r E Hp. rewrite print_Sum in *.
    destruct (head1 t W2 W1) as (kb & rb & Eb & Sb).
    assert (Hrest : forall e1, operand_end e1 = true ->
              exists e', ok_from e1 (sum_toks rest) = Some e' /\ operand_end e' = true).
    { intros e1 O1. unfold sum_toks. apply run_items; [assumption|].
      apply wfb_items_pair in W0. eapply Forall_impl; [|exact (Forall_and _ _ _ _ W0 H)].
      intros [o a] [[La Wa] Ga] e0 He0. cbn [fst snd] in *.
      destruct (head1 a La Wa) as (ka & ra & Ea & Sa).
      cbn [ok_from].
      assert (P1 : pair_ok e0 (add_tok o) = true) by (apply after_operand_end; [assumption|destruct o; reflexivity]).
      rewrite P1. apply (Ga Wa (add_tok o) ka ra Ea). destruct o; exact Sa. }
    destruct lead.
    + cbn [app] in E. inversion E; subst k. cbn [app ok_from]. rewrite Hp.
      rewrite ok_from_app.
      destruct (IHt W1 TPlus kb rb Eb Sb) as (e1 & E1 & O1). rewrite E1. apply Hrest. assumption.
    + cbn [app] in *. rewrite Eb in E. inversion E; subst k.
      rewrite ok_from_app. destruct (IHt W1 p kb rb Eb Hp) as (e1 & E1 & O1). rewrite E1. apply Hrest. assumption.
Qed.

Theorem accepted_tokens_ok : forall ts t, parse_tokens ts = Some t -> tokens_ok ts = true.
Proof.
  intros ts t H. destruct (parse_tokens_sound ts t H) as [E W]. subst ts.
  destruct (head0 t W) as (k & r & Ep & Sk).
  destruct (print_good t W TLP k r Ep Sk) as (e & Eo & Oe).
  rewrite Ep in *. simpl in Eo. change (pair_ok TLP k) with (expr_start k) in Eo. rewrite Sk in Eo.
  simpl. rewrite Sk, Eo. assumption.
Qed.

(* ---------- rejection lemmas (token lists of any length) ---------- *)
Lemma not_ok_rejected : forall ts, tokens_ok ts = false -> parse_tokens ts = None.
Proof.
  intros ts H. destruct (parse_tokens ts) as [t|] eqn:E; [|reflexivity].
  apply accepted_tokens_ok in E. congruence.
Qed.

Lemma ok_from_pair : forall ts1 a b ts2 p e,
  ok_from p (ts1 ++ a :: b :: ts2) = Some e -> pair_ok a b = true.
Proof.
  induction ts1 as [|k ts1 IH]; intros a b ts2 p e H; simpl in H.
  - destruct (pair_ok p a); [|discriminate]. destruct (pair_ok a b); [reflexivity|discriminate].
  - destruct (pair_ok p k); [|discriminate]. apply (IH _ _ _ _ _ H).
Qed.

Lemma ok_from_last : forall ts k p e, ok_from p (ts ++ [k]) = Some e -> e = k.
Proof.
  induction ts as [|c ts IH]; intros k p e H; simpl in H.
  - destruct (pair_ok p k); inversion H; reflexivity.
  - destruct (pair_ok p c); [|discriminate]. apply (IH _ _ _ H).
Qed.

(* a forbidden adjacent pair anywhere *)
Theorem reject_bad_pair : forall ts1 a b ts2,
  pair_ok a b = false -> parse_tokens (ts1 ++ a :: b :: ts2) = None.
Proof.
  intros ts1 a b ts2 Hp. apply not_ok_rejected.
  destruct ts1 as [|k ts1]; simpl.
  - rewrite Hp. destruct (expr_start a); reflexivity.
  - destruct (ok_from k (ts1 ++ a :: b :: ts2)) as [e|] eqn:E; [|apply andb_false_r].
    apply ok_from_pair in E. congruence.
Qed.

(* a last token that cannot end an operand *)
Theorem reject_bad_end : forall ts k, operand_end k = false -> parse_tokens (ts ++ [k]) = None.
Proof.
  intros ts k Hk. apply not_ok_rejected. destruct ts as [|c ts]; simpl.
  - rewrite Hk. apply andb_false_r.
  - destruct (ok_from c (ts ++ [k])) as [e|] eqn:E; [|apply andb_false_r].
    apply ok_from_last in E. subst. rewrite Hk. apply andb_false_r.
Qed.

(* a first token that cannot start an expression *)
Theorem reject_bad_start : forall k ts, expr_start k = false -> parse_tokens (k :: ts) = None.
Proof. intros k ts Hk. apply not_ok_rejected. simpl. rewrite Hk. reflexivity. Qed.

Theorem reject_empty : parse_tokens [] = None.
Proof. reflexivity. Qed.

Definition is_binop (k : token) : bool :=
  match k with TPlus | TMinus | TStar | TSlash | TCaret | TPipe => true | _ => false end.

(* the named instances *)
Theorem reject_trailing_op : forall ts o, is_binop o = true -> parse_tokens (ts ++ [o]) = None.
Proof. intros ts o H. apply reject_bad_end. destruct o; simpl in H; try discriminate; reflexivity. Qed.

Theorem reject_leading_binop : forall ts o, is_binop o = true -> o <> TMinus -> o <> TPlus ->
  parse_tokens (o :: ts) = None.
Proof.
  intros ts o H N1 N2. apply reject_bad_start. destruct o; simpl in H; try discriminate; try reflexivity; congruence.
Qed.

(* two binary operators in a row, the second not being a minus sign (and not the second half of '||') *)
Theorem reject_double_binop : forall ts1 ts2 o1 o2,
  is_binop o1 = true -> is_binop o2 = true -> o2 <> TMinus -> (o1, o2) <> (TPipe, TPipe) ->
  parse_tokens (ts1 ++ o1 :: o2 :: ts2) = None.
Proof.
  intros ts1 ts2 o1 o2 H1 H2 N1 N2. apply reject_bad_pair.
  destruct o1; simpl in H1; try discriminate; destruct o2; simpl in H2; try discriminate; try reflexivity; congruence.
Qed.

Theorem reject_empty_parens : forall ts1 ts2, parse_tokens (ts1 ++ TLP :: TRP :: ts2) = None.
Proof. intros. apply reject_bad_pair. reflexivity. Qed.

Theorem reject_empty_array : forall ts1 ts2, parse_tokens (ts1 ++ TLB :: TRB :: ts2) = None.
Proof. intros. apply reject_bad_pair. reflexivity. Qed.

(* an empty argument / entry slot:  "(,"  "[,"  ",,"  ",)"  ",]" *)
Theorem reject_empty_args : forall ts1 ts2 a b,
  (a, b) = (TLP, TComma) \/ (a, b) = (TLB, TComma) \/ (a, b) = (TComma, TComma)
  \/ (a, b) = (TComma, TRP) \/ (a, b) = (TComma, TRB) ->
  parse_tokens (ts1 ++ a :: b :: ts2) = None.
Proof.
  intros ts1 ts2 a b H. apply reject_bad_pair.
  destruct H as [H|[H|[H|[H|H]]]]; inversion H; subst; reflexivity.
Qed.

(* two operands next to each other: a token that ends an operand followed by one that starts an atom
   (except NAME '(' which is a function call) *)
Theorem reject_juxtaposition : forall ts1 ts2 a b,
  operand_end a = true -> atom_start b = true ->
  (forall n, (a, b) <> (TName n, TLP)) ->
  parse_tokens (ts1 ++ a :: b :: ts2) = None.
Proof.
  intros ts1 ts2 a b Ha Hb N. apply reject_bad_pair.
  destruct a; simpl in Ha; try discriminate; destruct b; simpl in Hb; try discriminate; try reflexivity.
  exfalso. apply (N n). reflexivity.
Qed.

(* one optional sign per operand position *)
Theorem reject_double_sign_leading : forall ts, parse_tokens (TMinus :: TMinus :: ts) = None.
Proof. intro ts. reflexivity. Qed.

Theorem reject_double_plus_leading : forall ts, parse_tokens (TPlus :: TPlus :: ts) = None.
Proof. intro ts. apply (reject_bad_pair [] TPlus TPlus ts). reflexivity. Qed.

Theorem reject_sign_plus : forall ts1 ts2 o, is_binop o = true ->
  parse_tokens (ts1 ++ o :: TPlus :: ts2) = None.
Proof.
  intros ts1 ts2 o H. apply reject_bad_pair. destruct o; simpl in H; try discriminate; reflexivity.
Qed.

(* a second sign on an exponent *)
Theorem reject_double_sign_exponent_num : forall x s ts,
  parse_tokens (TNum x s :: TCaret :: TMinus :: TMinus :: ts) = None.
Proof. intros. reflexivity. Qed.

Theorem reject_double_sign_exponent_name : forall n ts,
  parse_tokens (TName n :: TCaret :: TMinus :: TMinus :: ts) = None.
Proof. intros. reflexivity. Qed.

