(* Proofs/RestrictGrade.v -- lemmas about the restriction model (C09), part 2: names occurring anywhere in a tree,
   scope checking before evaluation, and what check_math_response can return for Formula/Numerical/Matrix graders,
   ordered lists with sibling references and SumGrader. *)
From Coq Require Import ZArith QArith List Bool Lia.
From Verif.Model Require Import Result Lexer Parser Eval RestrictBase Restrict.
From Verif.Proofs Require Import Restrict.
Import ListNotations.
Local Open Scope Z_scope.

(* ================================================================================================
   names occur wherever a subtree occurs
   ================================================================================================ *)
Definition children (t : tree) : list tree :=
  match t with
  | Num _ _ | Var _ => []
  | Fun _ args => args
  | Paren u => [u]
  | Arr items => items
  | Pow b rest => b :: map snd rest
  | Neg u => [u]
  | Par f rest => f :: rest
  | Prod f rest => f :: map snd rest
  | Sum _ f rest => f :: map snd rest
  end.

(* u occurs in t: at the top, as an operand, inside function arguments, array entries, exponents, parentheses ... *)
Inductive subtree (u : tree) : tree -> Prop :=
| st_here : subtree u u
| st_below : forall t c, In c (children t) -> subtree u c -> subtree u t.

Lemma in_flat_map_snd : forall (A : Type) (g : tree -> list str) (rest : list (A * tree)) c x,
  In c (map snd rest) -> In x (g c) -> In x (flat_map (fun p => g (snd p)) rest).
Proof.
  intros A g rest c x Hc Hx. apply in_map_iff in Hc. destruct Hc as [p [Hp Hin]]. subst.
  apply in_flat_map. exists p. auto.
Qed.

Ltac child_case Hc Hx :=
  destruct Hc as [Hc|Hc]; [subst; apply in_or_app; left; exact Hx | apply in_or_app; right].

Lemma child_vars : forall t c x, In c (children t) -> In x (vars_of c) -> In x (vars_of t).
Proof.
  intros t c x Hc Hx. destruct t; simpl in *; try contradiction.
  - apply in_flat_map. exists c. auto.
  - destruct Hc as [Hc|[]]. subst. exact Hx.
  - apply in_flat_map. exists c. auto.
  - child_case Hc Hx. eapply in_flat_map_snd; eauto.
  - destruct Hc as [Hc|[]]. subst. exact Hx.
  - child_case Hc Hx. apply in_flat_map. exists c. auto.
  - child_case Hc Hx. eapply in_flat_map_snd; eauto.
  - child_case Hc Hx. eapply in_flat_map_snd; eauto.
Qed.

Lemma child_funcs : forall t c x, In c (children t) -> In x (funcs_of c) -> In x (funcs_of t).
Proof.
  intros t c x Hc Hx. destruct t; simpl in *; try contradiction.
  - right. apply in_flat_map. exists c. auto.
  - destruct Hc as [Hc|[]]. subst. exact Hx.
  - apply in_flat_map. exists c. auto.
  - child_case Hc Hx. eapply in_flat_map_snd; eauto.
  - destruct Hc as [Hc|[]]. subst. exact Hx.
  - child_case Hc Hx. apply in_flat_map. exists c. auto.
  - child_case Hc Hx. eapply in_flat_map_snd; eauto.
  - child_case Hc Hx. eapply in_flat_map_snd; eauto.
Qed.

Lemma child_suffixes : forall t c x, In c (children t) -> In x (suffixes_of c) -> In x (suffixes_of t).
Proof.
  intros t c x Hc Hx. destruct t as [tx sf| | | | | | | | |]; simpl in *; try contradiction.
  - apply in_flat_map. exists c. auto.
  - destruct Hc as [Hc|[]]. subst. exact Hx.
  - apply in_flat_map. exists c. auto.
  - child_case Hc Hx. eapply in_flat_map_snd; eauto.
  - destruct Hc as [Hc|[]]. subst. exact Hx.
  - child_case Hc Hx. apply in_flat_map. exists c. auto.
  - child_case Hc Hx. eapply in_flat_map_snd; eauto.
  - child_case Hc Hx. eapply in_flat_map_snd; eauto.
Qed.

Lemma subtree_vars : forall u t x, subtree u t -> In x (vars_of u) -> In x (vars_of t).
Proof. intros u t x H. induction H; intro Hx; [exact Hx | eapply child_vars; eauto]. Qed.

Lemma subtree_funcs : forall u t x, subtree u t -> In x (funcs_of u) -> In x (funcs_of t).
Proof. intros u t x H. induction H; intro Hx; [exact Hx | eapply child_funcs; eauto]. Qed.

Lemma subtree_suffixes : forall u t x, subtree u t -> In x (suffixes_of u) -> In x (suffixes_of t).
Proof. intros u t x H. induction H; intro Hx; [exact Hx | eapply child_suffixes; eauto]. Qed.

Lemma subtree_trans : forall a b c, subtree a b -> subtree b c -> subtree a c.
Proof. intros a b c Hab Hbc. induction Hbc; [exact Hab | eapply st_below; eauto]. Qed.

(* a variable / call / suffixed number occurring anywhere is reported *)
Lemma var_anywhere : forall n t, subtree (Var n) t -> In n (vars_of t).
Proof. intros. eapply subtree_vars; eauto. simpl. auto. Qed.

Lemma call_anywhere : forall f args t, subtree (Fun f args) t -> In f (funcs_of t).
Proof. intros. eapply subtree_funcs; eauto. simpl. auto. Qed.

Lemma suffix_anywhere : forall x u t, subtree (Num x (Some u)) t -> In u (suffixes_of t).
Proof. intros. eapply subtree_suffixes; eauto. simpl. auto. Qed.

(* ================================================================================================
   the scope check precedes evaluation
   ================================================================================================ *)
Definition undef_class (e : everr) : Prop := e = EUndefVar \/ e = EUndefFun \/ e = EUndefSuffix.

Lemma forallb_false_of : forall (A : Type) (f : A -> bool) l x, In x l -> f x = false -> forallb f l = false.
Proof.
  intros A f l x Hx Hf. destruct (forallb f l) eqn:H; [|reflexivity].
  rewrite forallb_forall in H. rewrite (H x Hx) in Hf. discriminate.
Qed.

Lemma check_scope_var : forall E t n, In n (vars_of t) -> venv E n = None -> check_scope E t = Some EUndefVar.
Proof.
  intros E t n Hn Hv. unfold check_scope.
  rewrite (forallb_false_of _ (defined (venv E)) _ n Hn); [reflexivity|]. unfold defined. rewrite Hv. reflexivity.
Qed.

Lemma check_scope_class : forall E t e, check_scope E t = Some e -> undef_class e.
Proof.
  intros E t e. unfold check_scope, undef_class.
  destruct (negb (forallb (defined (venv E)) (vars_of t))); [intro H; inversion H; auto|].
  destruct (negb (forallb (defined (fenv E)) (funcs_of t))); [intro H; inversion H; auto|].
  destruct (negb (forallb (defined (senv E)) (suffixes_of t))); [intro H; inversion H; auto | discriminate].
Qed.

Lemma check_scope_fun : forall E t f, In f (funcs_of t) -> fenv E f = None -> exists e, check_scope E t = Some e.
Proof.
  intros E t f Hf Hv. unfold check_scope.
  destruct (negb (forallb (defined (venv E)) (vars_of t))); [eauto|].
  rewrite (forallb_false_of _ (defined (fenv E)) _ f Hf); [simpl; eauto|]. unfold defined. rewrite Hv. reflexivity.
Qed.

Lemma check_scope_suffix : forall E t u, In u (suffixes_of t) -> senv E u = None -> exists e, check_scope E t = Some e.
Proof.
  intros E t u Hu Hv. unfold check_scope.
  destruct (negb (forallb (defined (venv E)) (vars_of t))); [eauto|].
  destruct (negb (forallb (defined (fenv E)) (funcs_of t))); [eauto|].
  rewrite (forallb_false_of _ (defined (senv E)) _ u Hu); [simpl; eauto|]. unfold defined. rewrite Hv. reflexivity.
Qed.

Lemma evaluator_scope_error : forall E md s t e,
  py_strip s <> [] -> parse_formula (py_strip s) = PTree t -> check_scope E t = Some e ->
  evaluator E md (Some s) = OError e.
Proof.
  intros E md s t e Hne Hp Hc. unfold evaluator. destruct (py_strip s) as [|c r] eqn:Hs; [contradiction|].
  rewrite Hp, Hc. reflexivity.
Qed.

Lemma eval1_scope_error : forall E md s t e,
  py_strip s <> [] -> parse_formula (py_strip s) = PTree t -> check_scope E t = Some e ->
  eval1 E md s = inl (GEvalError e).
Proof. intros. unfold eval1. erewrite evaluator_scope_error; eauto. Qed.

Lemma eval1_not_result : forall E md s g, eval1 E md s = inl g -> is_result g = false.
Proof.
  intros E md s g. unfold eval1. destruct (evaluator E md (Some s)); intro H; inversion H; reflexivity.
Qed.

(* what the theorems need of an evaluation: its errors are errors, and the scope check comes first *)
Definition scope_first (ev : evaluation) : Prop :=
  (forall E md s g, ev E md s = inl g -> is_result g = false)
  /\ (forall E md s t e, py_strip s <> [] -> parse_formula (py_strip s) = PTree t -> check_scope E t = Some e ->
        ev E md s = inl (GEvalError e)).

Lemma eval1_scope_first : scope_first eval1.
Proof. split; [exact eval1_not_result | exact eval1_scope_error]. Qed.

Lemma scope_eval_scope_first : scope_first scope_eval.
Proof.
  split.
  - intros E md s g. unfold scope_eval. destruct (py_strip s); [discriminate|].
    destruct (parse_formula _); try (intro H; inversion H; reflexivity).
    destruct (check_scope E t); intro H; inversion H; reflexivity.
  - intros E md s t e Hne Hp Hc. unfold scope_eval. destruct (py_strip s) eqn:Hs; [contradiction|].
    rewrite Hp, Hc. reflexivity.
Qed.

Section WithEvaluation.
Variable ev : evaluation.
Hypothesis Hev : scope_first ev.

Lemma eval_all_not_result : forall E l g, eval_all ev E l = inl g -> is_result g = false.
Proof.
  induction l as [|s l IH]; intros g; simpl; [discriminate|].
  destruct (ev E None s) eqn:H1.
  - intro H; inversion H; subst. eapply (proj1 Hev); eauto.
  - destruct (eval_all ev E l) eqn:H2; [|discriminate]. intro H; inversion H; subst. apply IH. reflexivity.
Qed.

Lemma used_functions_tree : forall s t, py_strip s <> [] -> parse_formula (py_strip s) = PTree t ->
  forall f, In f (used_functions s) <-> In f (funcs_of t).
Proof.
  intros s t Hne Hp f. unfold used_functions. destruct (py_strip s) eqn:Hs; [contradiction|]. rewrite Hp. apply dedup_In.
Qed.

Lemma used_variables_tree : forall s t, py_strip s <> [] -> parse_formula (py_strip s) = PTree t ->
  forall n, In n (used_variables s) <-> In n (vars_of t).
Proof.
  intros s t Hne Hp n. unfold used_variables. destruct (py_strip s) eqn:Hs; [contradiction|]. rewrite Hp. apply dedup_In.
Qed.

Lemma restrict_env_out : forall scope E n, ~ In n scope -> venv (restrict_env scope E) n = None.
Proof. intros scope E n H. simpl. apply mem_false in H. rewrite H. reflexivity. Qed.

(* ================================================================================================
   FormulaGrader / NumericalGrader / MatrixGrader
   ================================================================================================ *)
Lemma finish_result : forall c P r expr used e,
  finish c P r expr used = GResult e ->
  e = r /\ (e_ok e = OkFalse \/ post_eval_validation expr used (c_forbidden c) (c_required c) P = VPass).
Proof.
  intros c P r expr used e. unfold finish. destruct (runs_post_validation (e_ok r)) eqn:Hg.
  - destruct (post_eval_validation _ _ _ _ _) eqn:Hp; [|discriminate]. intro H; inversion H; subst. auto.
  - intro H; inversion H; subst. split; [reflexivity|]. left.
    unfold runs_post_validation in Hg. destruct (e_ok e); simpl in Hg; try discriminate. reflexivity.
Qed.

Lemma finish_cases : forall c P r expr used,
  (finish c P r expr used = GResult r)
  \/ (exists v, finish c P r expr used = GInvalid v /\ e_ok r <> OkFalse
                /\ post_eval_validation expr used (c_forbidden c) (c_required c) P = VRaise v).
Proof.
  intros. unfold finish. destruct (runs_post_validation (e_ok r)) eqn:Hg; [|left; reflexivity].
  destruct (post_eval_validation _ _ _ _ _) eqn:Hp; [left; reflexivity|]. right. exists e. repeat split; auto.
  intro H. rewrite H in Hg. discriminate.
Qed.

Lemma gen_evaluations_not_result : forall scope md params input Es g,
  gen_evaluations ev scope md params input Es = inl g -> is_result g = false.
Proof.
  intros scope md params input Es. induction Es as [|E r IH]; intros g; simpl; [discriminate|].
  destruct (eval_all ev E params) eqn:H1.
  - intro H; inversion H; subst. eapply eval_all_not_result; eauto.
  - destruct (ev (restrict_env scope E) md input) eqn:H2.
    + intro H; inversion H; subst. eapply (proj1 Hev); eauto.
    + destruct (gen_evaluations ev scope md params input r) eqn:H3; [|discriminate].
      intro H; inversion H; subst. apply IH. reflexivity.
Qed.

Definition restricted (c : rcfg) (P : names) (expr : sinput) (used : names) : Prop :=
  (exists f, In f used /\ ~ In f P)
  \/ (exists r, In r (c_required c) /\ ~ In r used)
  \/ (exists x fs, In x (si_values expr) /\ In fs (c_forbidden c) /\ substr (strip_spaces fs) (strip_spaces x) = true).

Lemma restricted_iff : forall c P expr used,
  restricted c P expr used <-> post_eval_validation expr used (c_forbidden c) (c_required c) P <> VPass.
Proof.
  intros c P expr used. rewrite post_eval_pass. unfold restricted. split.
  - intros [[f [H1 H2]] | [[r [H1 H2]] | [x [fs [H1 [H2 H3]]]]]] [A [B C]].
    + apply H2, C, H1.
    + apply H2, B, H1.
    + rewrite (A x fs H1 H2) in H3. discriminate.
  - intro H.
    destruct (existsb (fun f => negb (mem f P)) used) eqn:E1.
    { apply existsb_exists in E1. destruct E1 as [f [Hf Hn]]. left. exists f. split; [exact Hf|].
      apply mem_false. apply negb_true_iff. exact Hn. }
    destruct (existsb (fun r => negb (mem r used)) (c_required c)) eqn:E2.
    { apply existsb_exists in E2. destruct E2 as [r [Hr Hn]]. right. left. exists r. split; [exact Hr|].
      apply mem_false. apply negb_true_iff. exact Hn. }
    destruct (existsb (fun x => existsb (fun fs => substr (strip_spaces fs) (strip_spaces x)) (c_forbidden c))
                      (si_values expr)) eqn:E3.
    { apply existsb_exists in E3. destruct E3 as [x [Hx E3]]. apply existsb_exists in E3. destruct E3 as [fs [Hfs E3]].
      right. right. exists x, fs. auto. }
    exfalso. apply H. split; [|split].
    + intros x f Hx Hf. destruct (substr (strip_spaces f) (strip_spaces x)) eqn:Hs; [|reflexivity].
      assert (existsb (fun x => existsb (fun fs => substr (strip_spaces fs) (strip_spaces x)) (c_forbidden c))
                      (si_values expr) = true).
      { apply existsb_exists. exists x. split; [exact Hx|]. apply existsb_exists. exists f. auto. }
      congruence.
    + intros r Hr. destruct (mem r used) eqn:Hm; [apply mem_In; exact Hm|].
      assert (existsb (fun r => negb (mem r used)) (c_required c) = true).
      { apply existsb_exists. exists r. split; [exact Hr | rewrite Hm; reflexivity]. }
      congruence.
    + intros f Hf. destruct (mem f P) eqn:Hm; [apply mem_In; exact Hm|].
      assert (existsb (fun f => negb (mem f P)) used = true).
      { apply existsb_exists. exists f. split; [exact Hf | rewrite Hm; reflexivity]. }
      congruence.
Qed.

(* --- a credited answer satisfies every restriction --- *)
Theorem formula_credit_implies : forall c P md params sf Es compare input e,
  formula_check ev c P md params sf Es compare input = GResult e -> e_ok e <> OkFalse ->
  (forall f, In f (used_functions input) -> In f P)
  /\ (forall r, In r (c_required c) -> In r (used_functions input))
  /\ (forall fs, In fs (c_forbidden c) -> substr (strip_spaces fs) (strip_spaces input) = false).
Proof.
  intros c P md params sf Es compare input e H Hok. unfold formula_check in H. cbv zeta in H.
  destruct (gen_evaluations ev _ md params input Es) eqn:Hg.
  - subst. apply gen_evaluations_not_result in Hg. discriminate.
  - apply finish_result in H. destruct H as [_ [H|H]]; [contradiction|].
    apply post_eval_pass in H. destruct H as [A [B C]]. repeat split; auto.
    intros fs Hfs. apply (A input fs); simpl; auto.
Qed.

(* --- the contrapositive, in the words of the property --- *)
Theorem formula_restricted_never_credited : forall c P md params sf Es compare input,
  restricted c P (SIStr input) (used_functions input) ->
  forall e, formula_check ev c P md params sf Es compare input = GResult e -> e_ok e = OkFalse.
Proof.
  intros c P md params sf Es compare input Hr e H.
  destruct (okv_eqb (e_ok e) OkFalse) eqn:Hk; [destruct (e_ok e); try discriminate; reflexivity|].
  exfalso. assert (Hok : e_ok e <> OkFalse) by (intro Hx; rewrite Hx in Hk; discriminate).
  destruct (formula_credit_implies _ _ _ _ _ _ _ _ _ H Hok) as [A [B C]].
  destruct Hr as [[f [H1 H2]] | [[r [H1 H2]] | [x [fs [H1 [H2 H3]]]]]].
  - apply H2, A, H1.
  - apply H2, B, H1.
  - simpl in H1. destruct H1 as [H1|[]]. subst. rewrite (C fs H2) in H3. discriminate.
Qed.

(* a restricted formula that would otherwise earn credit is refused with InvalidInput, and the message is one of
   the three the validators produce *)
Theorem formula_restricted_refused : forall c P md params sf Es compare input evals,
  restricted c P (SIStr input) (used_functions input) ->
  gen_evaluations ev (student_scope formula_blacklist c
                     (sample_names c (used_variables input ++ flat_map (fun p => used_variables (snd p)) sf
                                      ++ flat_map used_variables params) (map fst sf)) (map fst sf))
                  md params input Es = inr evals ->
  e_ok (compare evals) <> OkFalse ->
  exists v, formula_check ev c P md params sf Es compare input = GInvalid v
    /\ (v = VForbidden
        \/ (exists r, v = VRequired r /\ In r (c_required c) /\ ~ In r (used_functions input))
        \/ (exists fs, v = VNotPermitted fs /\ fs <> [] /\
                       forall f, In f fs <-> In f (used_functions input) /\ ~ In f P)).
Proof.
  intros c P md params sf Es compare input evals Hr Hg Hok. unfold formula_check. cbv zeta. rewrite Hg.
  destruct (finish_cases c P (compare evals) (SIStr input) (used_functions input)) as [H | [v [H [_ Hp]]]].
  - exfalso. apply restricted_iff in Hr. apply finish_result in H. destruct H as [_ [H|H]]; contradiction.
  - exists v. split; [exact H|]. eapply post_eval_raise. exact Hp.
Qed.

(* a clean formula is never refused by the restrictions, whatever the author's expressions contain *)
Theorem formula_clean_not_refused : forall c P md params sf Es compare input,
  ~ restricted c P (SIStr input) (used_functions input) ->
  formula_check ev c P md params sf Es compare input =
  match gen_evaluations ev (student_scope formula_blacklist c
                           (sample_names c (used_variables input ++ flat_map (fun p => used_variables (snd p)) sf
                                            ++ flat_map used_variables params) (map fst sf)) (map fst sf))
                        md params input Es with
  | inl g => g
  | inr evals => GResult (compare evals)
  end.
Proof.
  intros c P md params sf Es compare input Hr. unfold formula_check. cbv zeta.
  destruct (gen_evaluations ev _ md params input Es) eqn:Hg; [reflexivity|].
  destruct (finish_cases c P (compare l) (SIStr input) (used_functions input)) as [H | [v [_ [_ Hp]]]]; [exact H|].
  exfalso. apply Hr. apply restricted_iff. rewrite Hp. discriminate.
Qed.

(* --- names outside the student's scope --- *)
Definition env_for (c : rcfg) (E : env) : Prop :=
  (forall f, ~ In f (func_scope c) -> fenv E f = None) /\ (forall u, ~ In u (c_suffixes c) -> senv E u = None).

Definition mentions_undefined (c : rcfg) (sib : names) (t : tree) : Prop :=
  (exists n, In n (vars_of t) /\ ~ allowed c sib n)
  \/ (exists f, In f (funcs_of t) /\ ~ In f (func_scope c))
  \/ (exists u, In u (suffixes_of t) /\ ~ In u (c_suffixes c)).

Lemma student_eval_undefined : forall c sf params md input t E,
  py_strip input <> [] -> parse_formula (py_strip input) = PTree t ->
  mentions_undefined c (map fst sf) t -> env_for c E ->
  let scope := student_scope formula_blacklist c
                 (sample_names c (used_variables input ++ flat_map (fun p => used_variables (snd p)) sf
                                  ++ flat_map used_variables params) (map fst sf)) (map fst sf) in
  exists e, ev (restrict_env scope E) md input = inl (GEvalError e) /\ undef_class e
            /\ ((exists n, In n (vars_of t) /\ ~ allowed c (map fst sf) n) -> e = EUndefVar).
Proof.
  intros c sf params md input t E Hne Hp Hm [Hf Hs] scope.
  assert (Hvar : forall n, In n (vars_of t) -> ~ allowed c (map fst sf) n ->
                 check_scope (restrict_env scope E) t = Some EUndefVar).
  { intros n Hn Ha. apply (check_scope_var _ _ n Hn). apply restrict_env_out. unfold scope.
    rewrite formula_scope_allowed; [exact Ha|]. apply in_or_app. left.
    apply (used_variables_tree _ _ Hne Hp). exact Hn. }
  assert (Hex : exists e, check_scope (restrict_env scope E) t = Some e).
  { destruct Hm as [[n [Hn Ha]] | [[f [Hn Ha]] | [u [Hn Ha]]]].
    - eexists. eapply Hvar; eauto.
    - eapply check_scope_fun; eauto; simpl; auto.
    - eapply check_scope_suffix; eauto; simpl; auto. }
  destruct Hex as [e He]. exists e. split; [eapply (proj2 Hev); eauto|]. split; [eapply check_scope_class; eauto|].
  intros [n [Hn Ha]]. rewrite (Hvar n Hn Ha) in He. inversion He. reflexivity.
Qed.

Theorem formula_undefined_rejected : forall c P md params sf E Es compare input t,
  py_strip input <> [] -> parse_formula (py_strip input) = PTree t ->
  mentions_undefined c (map fst sf) t -> env_for c E ->
  (* never a result, whatever the valuations and the comparison *)
  (forall e, formula_check ev c P md params sf (E :: Es) compare input <> GResult e)
  (* and, when the author's own expressions evaluate, exactly the undefined-name error *)
  /\ (forall pv, eval_all ev E params = inr pv ->
        exists e, formula_check ev c P md params sf (E :: Es) compare input = GEvalError e /\ undef_class e
                  /\ ((exists n, In n (vars_of t) /\ ~ allowed c (map fst sf) n) -> e = EUndefVar)).
Proof.
  intros c P md params sf E Es compare input t Hne Hp Hm Henv.
  destruct (student_eval_undefined c sf params md input t E Hne Hp Hm Henv) as [e [He [Hc Hv]]].
  split.
  - intros e0 H. unfold formula_check in H. cbv zeta in H. simpl in H.
    destruct (eval_all ev E params) eqn:H1.
    + subst. apply eval_all_not_result in H1. discriminate.
    + rewrite He in H. discriminate.
  - intros pv Hpv. exists e. split; [|auto]. unfold formula_check. cbv zeta. simpl. rewrite Hpv, He. reflexivity.
Qed.

End WithEvaluation.

(* instructor-only and sibling names are in the author's scope and outside the student's *)
Lemma reserved_not_allowed : forall c sib n, In n (c_instructor c) \/ In n sib -> ~ allowed c sib n.
Proof. intros c sib n H [_ [H1 H2]]. tauto. Qed.
