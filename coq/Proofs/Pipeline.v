(* Proofs/Pipeline.v -- lemmas about the result-assembly model (C01), part 1: well-formedness of every entry.

   wf_entry S e :  0 <= grade <= 1  and  ok = grade_to_ok grade, or grade == 1 and ok is an author pin (S ok).
   The main lemma `check_wf` is by induction on the recursion budget, for every grader tree, answer tree,
   input, path and EVERY oracle (leaf comparisons, assignment, choice among answer lists). *)
From Coq Require Import ZArith QArith Qabs Lia Lqa List Bool Arith.
From Verif.Lib Require Import QRound PyNum.
From Verif.Model Require Import Result Credit Pipeline.
From Verif.Proofs Require Import Credit.
Import ListNotations.
Open Scope Q_scope.

(* ------------------------------------------------------------------------------------------------
   grade_to_ok
   ------------------------------------------------------------------------------------------------ *)
Lemma grade_to_ok_comp : forall a b, a == b -> grade_to_ok a = grade_to_ok b.
Proof.
  intros a b H. unfold grade_to_ok.
  destruct (Qeq_bool a 0) eqn:A0; destruct (Qeq_bool b 0) eqn:B0; qbool;
    try (exfalso; (apply B0; rewrite <- H; exact A0) || (apply A0; rewrite H; exact B0)); try reflexivity.
  destruct (Qeq_bool a 1) eqn:A1; destruct (Qeq_bool b 1) eqn:B1; qbool;
    try (exfalso; (apply B1; rewrite <- H; exact A1) || (apply A1; rewrite H; exact B1)); reflexivity.
Qed.

Lemma grade_to_ok_0 : forall g, g == 0 -> grade_to_ok g = OkFalse.
Proof. intros g H. rewrite (grade_to_ok_comp g 0 H). reflexivity. Qed.

Lemma grade_to_ok_1 : forall g, g == 1 -> grade_to_ok g = OkTrue.
Proof. intros g H. rewrite (grade_to_ok_comp g 1 H). reflexivity. Qed.

Lemma grade_to_ok_mid : forall g, 0 < g -> g < 1 -> grade_to_ok g = OkPartial.
Proof.
  intros g H0 H1. unfold grade_to_ok.
  destruct (Qeq_bool g 0) eqn:A; qbool; [exfalso; lra|].
  destruct (Qeq_bool g 1) eqn:B; qbool; [exfalso; lra|]. reflexivity.
Qed.

(* ok is True exactly when the grade is 1, False exactly when it is 0, 'partial' otherwise *)
Lemma grade_to_ok_true_iff : forall g, grade_to_ok g = OkTrue <-> g == 1.
Proof.
  intro g. unfold grade_to_ok. split.
  - destruct (Qeq_bool g 0) eqn:A; [discriminate|]. destruct (Qeq_bool g 1) eqn:B; qbool; [auto|discriminate].
  - intro H. destruct (Qeq_bool g 0) eqn:A; qbool; [exfalso; lra|].
    destruct (Qeq_bool g 1) eqn:B; qbool; [reflexivity | exfalso; auto].
Qed.

Lemma grade_to_ok_false_iff : forall g, grade_to_ok g = OkFalse <-> g == 0.
Proof.
  intro g. unfold grade_to_ok. split.
  - destruct (Qeq_bool g 0) eqn:A; qbool; [auto|]. destruct (Qeq_bool g 1); discriminate.
  - intro H. destruct (Qeq_bool g 0) eqn:A; qbool; [reflexivity | exfalso; auto].
Qed.

Lemma grade_to_ok_partial_iff : forall g, grade_to_ok g = OkPartial <-> (~ g == 0 /\ ~ g == 1).
Proof.
  intro g. unfold grade_to_ok. split.
  - destruct (Qeq_bool g 0) eqn:A; [discriminate|]. destruct (Qeq_bool g 1) eqn:B; [discriminate|]. qbool. auto.
  - intros [H0 H1]. destruct (Qeq_bool g 0) eqn:A; qbool; [exfalso; auto|].
    destruct (Qeq_bool g 1) eqn:B; qbool; [exfalso; auto | reflexivity].
Qed.

(* ------------------------------------------------------------------------------------------------
   well-formed entries
   ------------------------------------------------------------------------------------------------ *)
Section WF.
  Variable S : okv -> Prop.          (* the ok values the author pinned explicitly *)

  Definition wf_entry (e : entry) : Prop :=
    (0 <= e_grade e <= 1) /\ (e_ok e = grade_to_ok (e_grade e) \/ (e_grade e == 1 /\ S (e_ok e))).

  Definition strict_entry (e : entry) : Prop :=
    (0 <= e_grade e <= 1) /\ e_ok e = grade_to_ok (e_grade e).

  Lemma strict_wf : forall e, strict_entry e -> wf_entry e.
  Proof. intros e [H1 H2]. split; [exact H1 | left; exact H2]. Qed.

  Lemma wf_msg_irrelevant : forall o g m m', wf_entry (mkEntry o g m) -> wf_entry (mkEntry o g m').
  Proof. intros o g m m' H. exact H. Qed.

  Lemma wf_zero : forall m, wf_entry (mkEntry OkFalse 0 m).
  Proof. intro m. split; simpl; [lra | left; reflexivity]. Qed.

  Definition wf_ires (r : ires) : Prop := wf_entry (i_e r).

  Lemma wf_zero_res : forall m, wf_ires (zero_res m).
  Proof. intro m. apply wf_zero. Qed.

  Lemma wf_auto_fail : wf_ires auto_fail.
  Proof. apply wf_zero. Qed.
End WF.

(* ------------------------------------------------------------------------------------------------
   the `out` monad
   ------------------------------------------------------------------------------------------------ *)
Lemma bind_ret : forall {A B} (o : out A) (f : A -> out B) b,
  bind o f = Ret b -> exists a, o = Ret a /\ f a = Ret b.
Proof. intros A B o f b H. destruct o; simpl in H; try discriminate. eauto. Qed.

Lemma collect_ret : forall {A} (l : list (out A)) rs, collect l = Ret rs -> Forall2 (fun o r => o = Ret r) l rs.
Proof.
  induction l as [|o l IH]; intros rs H; simpl in H.
  - injection H as <-. constructor.
  - apply bind_ret in H. destruct H as [a [Ho H]]. apply bind_ret in H. destruct H as [t [Ht H]].
    injection H as <-. constructor; [exact Ho | apply IH; exact Ht].
Qed.

Lemma collect_forall : forall {A} (P : A -> Prop) (l : list (out A)) rs,
  collect l = Ret rs -> (forall o a, In o l -> o = Ret a -> P a) -> Forall P rs.
Proof.
  intros A P l rs H HP. apply collect_ret in H. induction H as [|o r l rs Hor _ IH]; constructor.
  - apply (HP o r); [left; reflexivity | exact Hor].
  - apply IH. intros o' a Hin. apply HP. right. exact Hin.
Qed.

Lemma collect_length : forall {A} (l : list (out A)) rs, collect l = Ret rs -> length rs = length l.
Proof.
  intros A l rs H. apply collect_ret in H. induction H as [|o r l rs _ _ IH]; simpl; [reflexivity | rewrite IH; reflexivity].
Qed.

Lemma in_mapi_from : forall {A B} (f : nat -> A -> B) l i b,
  In b (mapi_from f i l) -> exists j a, In a l /\ b = f j a.
Proof.
  induction l as [|a l IH]; intros i b H; simpl in H; [contradiction|].
  destruct H as [<- | H].
  - exists i, a. split; [left; reflexivity | reflexivity].
  - destruct (IH _ _ H) as [j [a' [Hin E]]]. exists j, a'. split; [right; exact Hin | exact E].
Qed.

Lemma in_mapi : forall {A B} (f : nat -> A -> B) l b, In b (mapi f l) -> exists j a, In a l /\ b = f j a.
Proof. intros. eapply in_mapi_from. exact H. Qed.

Lemma mapi_from_length : forall {A B} (f : nat -> A -> B) l i, length (mapi_from f i l) = length l.
Proof. induction l as [|a l IH]; intro i; simpl; [reflexivity | rewrite IH; reflexivity]. Qed.

Lemma mapi_length : forall {A B} (f : nat -> A -> B) l, length (mapi f l) = length l.
Proof. intros. apply mapi_from_length. Qed.

(* ------------------------------------------------------------------------------------------------
   valid answers (what validate_single_answer / the answer schemas establish)
   ------------------------------------------------------------------------------------------------ *)
Section Valid.
  Variable S : okv -> Prop.
  Variable Zc : Q -> Prop.            (* an extra condition on alternative credits, see the side condition below *)

  Inductive ans_ok : ans -> Prop :=
  | AO_item : forall alts, Forall alt_okp alts -> ans_ok (AItem alts)
  | AO_list : forall lists, Forall (Forall ans_ok) lists -> ans_ok (AList lists)
  with alt_okp : alt -> Prop :=
  | AO_alt : forall es c m o,
      Forall expect_ok es -> 0 <= c <= 1 -> Zc c ->
      (o = grade_to_ok c \/ (c == 1 /\ S o)) -> alt_okp (Alt es c m o)
  with expect_ok : expect -> Prop :=
  | EO_leaf : forall s, expect_ok (ELeaf s)
  | EO_items : forall items, Forall ans_ok items -> expect_ok (EItems items).

  Lemma alt_triple_wf : forall a m', alt_okp a -> wf_entry S (mkEntry (alt_ok a) (alt_credit a) m').
  Proof. intros a m' H. inversion H; subst. simpl. split; simpl; assumption. Qed.

  Lemma alt_credit_unit : forall a, alt_okp a -> 0 <= alt_credit a <= 1.
  Proof. intros a H. inversion H; subst. simpl. assumption. Qed.

  Lemma alt_credit_Z : forall a, alt_okp a -> Zc (alt_credit a).
  Proof. intros a H. inversion H; subst. simpl. assumption. Qed.

  Lemma singles_ok : forall alts ea, Forall alt_okp alts -> In ea (singles alts) -> alt_okp (snd ea) /\ expect_ok (fst ea).
  Proof.
    intros alts ea H Hin. unfold singles in Hin. apply in_flat_map in Hin. destruct Hin as [a [Ha Hin]].
    apply in_map_iff in Hin. destruct Hin as [e [<- He]]. simpl.
    rewrite Forall_forall in H. pose proof (H a Ha) as Hok. split; [exact Hok|].
    inversion Hok; subst. simpl in He. rewrite Forall_forall in H0. apply H0. exact He.
  Qed.
End Valid.

(* validate_single_answer establishes alt_okp: an explicit ok survives only at grade_decimal == 1 *)
Lemma mk_alt_ok : forall (S : okv -> Prop) (Zc : Q -> Prop) es c m r,
  Forall (expect_ok S Zc) es -> 0 <= c <= 1 -> Zc c ->
  (forall o, r = RPinned o -> S o) -> alt_okp S Zc (mk_alt es c m r).
Proof.
  intros S Zc es c m r Hes Hc Hz Hr. unfold mk_alt. constructor; try assumption.
  unfold canon_ok. destruct r as [|o]; [left; reflexivity|].
  destruct (Qeq_bool c 1) eqn:E; qbool; [right; split; [exact E | apply Hr; reflexivity] | left; reflexivity].
Qed.

(* ------------------------------------------------------------------------------------------------
   leaves
   ------------------------------------------------------------------------------------------------ *)
Definition cfn_unit (v : cfn) : Prop := match v with CfDict g _ => 0 <= g <= 1 | _ => True end.
(* a comparer verdict without partial credit *)
Definition cfn_crisp (v : cfn) : Prop :=
  match v with CfPartial => False | CfDict g _ => g == 0 \/ g == 1 | _ => True end.

Lemma standardize_strict : forall S v, cfn_unit v -> strict_entry (standardize v) /\ wf_entry S (standardize v).
Proof.
  intros S v H. assert (Hs : strict_entry (standardize v)).
  { destruct v; simpl in *; split; simpl; try lra; try reflexivity. }
  split; [exact Hs | apply strict_wf; exact Hs].
Qed.

Lemma scale_raw_unit : forall rc c v, cfn_unit v -> 0 <= c <= 1 -> 0 <= e_grade (scale_raw rc c (standardize v)) <= 1.
Proof. intros rc c v Hv Hc. destruct v; simpl in *; nra. Qed.

(* the scaling loop of FormulaGrader.raw_check keeps a not-ok result consistent EXCEPT (code as found, rc = false) when a
   partial-credit verdict meets a zero-credit answer; the repaired loop (rc = true) re-derives ok for every not-ok result *)
Lemma scale_raw_failing_strict : forall rc c v,
  cfn_unit v -> 0 <= c <= 1 -> (rc = true \/ 0 < c \/ cfn_crisp v) ->
  e_ok (scale_raw rc c (standardize v)) <> OkTrue -> strict_entry (scale_raw rc c (standardize v)).
Proof.
  intros rc c v Hv Hc Hside Hnt.
  assert (Hu : 0 <= e_grade (scale_raw rc c (standardize v)) <= 1) by (apply scale_raw_unit; assumption).
  destruct rc.
  - (* repaired *)
    unfold scale_raw in *. simpl andb in *.
    destruct (okv_eqb (e_ok (standardize v)) OkTrue) eqn:E; simpl negb in *; cbv iota in *.
    + exfalso. apply Hnt. simpl. destruct (e_ok (standardize v)); try discriminate. reflexivity.
    + split; [exact Hu | reflexivity].
  - (* as found *)
    assert (Hside' : 0 < c \/ cfn_crisp v) by (destruct Hside as [R | H]; [discriminate | exact H]).
    clear Hside Hu. unfold scale_raw in *. simpl andb in *. cbv iota in *.
    destruct v as [| | |g m]; simpl in *.
    + congruence.
    + split; simpl; [lra | symmetry; apply grade_to_ok_0; lra].
    + destruct Hside' as [Hpos | []]. split; simpl; [nra | symmetry; apply grade_to_ok_mid; nra].
    + assert (Hg1 : ~ g == 1). { intro E. apply Hnt. apply grade_to_ok_1. exact E. }
      split; simpl; [nra|].
      destruct (Qeq_dec g 0) as [G0 | G0].
      * rewrite (grade_to_ok_0 g G0). symmetry. apply grade_to_ok_0. rewrite G0. ring.
      * assert (Hgm : 0 < g < 1) by (split; [destruct (Qlt_le_dec 0 g); [assumption | exfalso; apply G0; lra]
                                          | destruct (Qlt_le_dec g 1); [assumption | exfalso; apply Hg1; lra]]).
        rewrite (grade_to_ok_mid g) by lra.
        destruct Hside' as [Hpos | [E | E]]; [| exfalso; auto | exfalso; auto].
        symmetry. apply grade_to_ok_mid; nra.
Qed.

Lemma consolidate_loop_in : forall single f n rs r,
  consolidate_loop single f n rs = Some r -> In r rs /\ e_ok r <> OkTrue.
Proof.
  intros single f n rs. revert n. induction rs as [|x rs IH]; intros n r H; simpl in H; [discriminate|].
  destruct (okv_eqb (e_ok x) OkTrue) eqn:E.
  - destruct (IH _ _ H) as [Hin Hok]. split; [right; exact Hin | exact Hok].
  - destruct (single || (f <? S n)%nat).
    + injection H as <-. split; [left; reflexivity|]. intro Hk. rewrite Hk in E. discriminate.
    + destruct (IH _ _ H) as [Hin Hok]. split; [right; exact Hin | exact Hok].
Qed.

Lemma consolidate_cases : forall rs pruned f,
  consolidate rs pruned f = pruned \/ (In (consolidate rs pruned f) rs /\ e_ok (consolidate rs pruned f) <> OkTrue).
Proof.
  intros rs pruned f. unfold consolidate.
  destruct (consolidate_loop (length rs =? 1)%nat f 0 rs) as [r|] eqn:E; [right | left; reflexivity].
  eapply consolidate_loop_in. exact E.
Qed.

Section Leaves.
  Variable S : okv -> Prop.
  Variable Zc : Q -> Prop.

  Lemma string_leaf_wf : forall a s, alt_okp S Zc a ->
    wf_ires S (string_response (alt_credit a) (alt_msg a) (alt_ok a) s).
  Proof.
    intros a s Ha. destruct s; simpl.
    - apply alt_triple_wf with (Zc := Zc). exact Ha.
    - apply wf_zero.
    - apply wf_zero.
  Qed.

  (* FormulaGrader / NumericalGrader / MatrixGrader: standardize_cfn_return, scaling, consolidate_results.
     rc = true is the repaired raw_check (ok re-derived from the scaled grade): no side condition then. *)
  Lemma formula_leaf_wf : forall rc f a l, alt_okp S Zc a -> Forall cfn_unit l ->
    (rc = true \/ 0 < alt_credit a \/ Forall cfn_crisp l) ->
    wf_ires S (formula_response rc f (alt_credit a) (alt_msg a) (alt_ok a) l).
  Proof.
    intros rc f a l Ha Hl Hside. unfold formula_response, wf_ires. simpl.
    destruct (consolidate_cases (map (fun v => scale_raw rc (alt_credit a) (standardize v)) l)
                                (mkEntry (alt_ok a) (alt_credit a) (alt_msg a)) f) as [E | [Hin Hok]].
    - rewrite E. apply alt_triple_wf with (Zc := Zc). exact Ha.
    - apply in_map_iff in Hin. destruct Hin as [v [Ev Hv]]. rewrite <- Ev in *.
      apply strict_wf. rewrite Forall_forall in Hl. apply scale_raw_failing_strict.
      + apply Hl. exact Hv.
      + apply alt_credit_unit with (S := S) (Zc := Zc). exact Ha.
      + destruct Hside as [R | [P | C]]; [left; exact R | right; left; exact P
                                          | right; right; rewrite Forall_forall in C; apply C; exact Hv].
      + exact Hok.
  Qed.

  (* SumGrader: no scaling, so no side condition *)
  Lemma sum_leaf_wf : forall f l, Forall cfn_unit l -> wf_ires S (sum_response f l).
  Proof.
    intros f l Hl. unfold sum_response, wf_ires. simpl.
    destruct (consolidate_cases (map standardize l) (mkEntry OkTrue 1 []) f) as [E | [Hin _]].
    - rewrite E. split; simpl; [lra | left; reflexivity].
    - apply in_map_iff in Hin. destruct Hin as [v [Ev Hv]]. rewrite <- Ev.
      rewrite Forall_forall in Hl. apply standardize_strict. apply Hl. exact Hv.
  Qed.

  Lemma matrix_err_wf : forall c k m r, matrix_err c k m = Ret r -> wf_ires S r.
  Proof.
    intros c k m r H. unfold matrix_err in H.
    destruct (m_suppress c); [injection H as <-; apply wf_zero|].
    destruct k; [destruct (m_shape_errors c) | destruct (m_is_raised c) |]; try discriminate;
      injection H as <-; apply wf_zero.
  Qed.

  (* what the theorems assume about a leaf oracle answer *)
  Definition lout_ok (o : lout) : Prop :=
    match o with
    | LRet r => wf_ires S r                 (* author-defined check_response: credit in [0,1], ok inferred (or a pin) *)
    | LCfn l => Forall cfn_unit l           (* comparer credits in [0,1] *)
    | _ => True
    end.
  Definition lout_crisp (o : lout) : Prop := match o with LCfn l => Forall cfn_crisp l | _ => True end.

  Lemma leaf_response_wf : forall rc k a o r,
    alt_okp S Zc a -> lout_ok o -> (rc = true \/ 0 < alt_credit a \/ lout_crisp o) ->
    leaf_response rc k (alt_credit a) (alt_msg a) (alt_ok a) o = Ret r -> wf_ires S r.
  Proof.
    intros rc k a o r Ha Ho Hside H. destruct o; simpl in H; try discriminate.
    - injection H as <-. exact Ho.
    - destruct k; try discriminate. injection H as <-. apply string_leaf_wf. exact Ha.
    - destruct k; try discriminate; injection H as <-; apply formula_leaf_wf; assumption.
    - destruct k; try discriminate. eapply matrix_err_wf. exact H.
  Qed.
End Leaves.

(* ------------------------------------------------------------------------------------------------
   ItemGrader.check: the chosen result is one of the alternatives' results (message possibly replaced)
   ------------------------------------------------------------------------------------------------ *)
Lemma longest_in : forall rs cur, longest cur rs = cur \/ In (longest cur rs) rs.
Proof.
  induction rs as [|r t IH]; intro cur; simpl; [left; reflexivity|].
  destruct (IH (if (length (e_msg (i_e cur)) <? length (e_msg (i_e r)))%nat then r else cur)) as [E | Hin].
  - rewrite E. destruct (length (e_msg (i_e cur)) <? length (e_msg (i_e r)))%nat; [right; left | left]; reflexivity.
  - right. right. exact Hin.
Qed.

Lemma item_select_in : forall wrong rs r, item_select wrong rs = Ret r ->
  exists r0, In r0 rs /\ (r = r0 \/ r = set_msg r0 wrong).
Proof.
  intros wrong rs r H. unfold item_select in H. destruct rs as [|r0 t]; [discriminate|].
  set (best := max_grade (e_grade (i_e r0)) t) in *.
  destruct (filter (fun x => Qeq_bool (e_grade (i_e x)) best) (r0 :: t)) as [|b0 bt] eqn:F; [discriminate|].
  assert (Hch : In (longest b0 bt) (r0 :: t)).
  { assert (Hb : In (longest b0 bt) (b0 :: bt)).
    { destruct (longest_in bt b0) as [E | Hin]; [left; symmetry; exact E | right; exact Hin]. }
    rewrite <- F in Hb. apply filter_In in Hb. apply Hb. }
  injection H as <-. exists (longest b0 bt). split; [exact Hch|].
  destruct (is_empty (e_msg (i_e (longest b0 bt))) && Qeq_bool best 0); [right | left]; reflexivity.
Qed.

Lemma item_select_wf : forall S wrong rs r, Forall (wf_ires S) rs -> item_select wrong rs = Ret r -> wf_ires S r.
Proof.
  intros S wrong rs r Hrs H. destruct (item_select_in _ _ _ H) as [r0 [Hin [-> | ->]]];
    rewrite Forall_forall in Hrs; pose proof (Hrs r0 Hin) as H0; [exact H0 | exact H0].
Qed.

(* ------------------------------------------------------------------------------------------------
   SingleListGrader consolidation
   ------------------------------------------------------------------------------------------------ *)
Lemma sumq_bounds : forall l, Forall (fun g => 0 <= g <= 1) l -> 0 <= sumq l <= inject_Z (Z.of_nat (length l)).
Proof.
  induction l as [|g l IH]; intro H; simpl sumq; simpl length.
  - simpl. unfold inject_Z. lra.
  - inversion H; subst. specialize (IH H3). rewrite Nat2Z.inj_succ. unfold Z.succ. rewrite inject_Z_plus.
    change (inject_Z 1) with 1. lra.
Qed.

Lemma Qmax_cases : forall a b, (Qmax a b == b /\ a <= b) \/ (Qmax a b == a /\ b < a).
Proof.
  intros a b. unfold Qmax. destruct (Qle_bool a b) eqn:E; qbool; [left | right]; split; try reflexivity; assumption.
Qed.

Lemma consolidate_grades_unit : forall grades n, (0 < n)%nat ->
  Forall (fun g => 0 <= g <= 1) grades -> 0 <= consolidate_grades grades n <= 1.
Proof.
  intros grades n Hn Hg. unfold consolidate_grades.
  pose proof (sumq_bounds grades Hg) as [S0 S1].
  set (ne := inject_Z (Z.of_nat n)).
  set (nx := inject_Z (Z.of_nat (length grades - n))).
  assert (Hne : 1 <= ne).
  { unfold ne. change 1 with (inject_Z 1). rewrite <- Zle_Qle. lia. }
  assert (Hnx : 0 <= nx) by (unfold nx; change 0 with (inject_Z 0); rewrite <- Zle_Qle; lia).
  assert (Hlen : inject_Z (Z.of_nat (length grades)) <= ne + nx).
  { unfold ne, nx. rewrite <- inject_Z_plus. rewrite <- Zle_Qle. lia. }
  assert (Hq : (sumq grades - nx) / ne <= 1).
  { apply Qle_shift_div_r; lra. }
  destruct (Qmax_cases 0 ((sumq grades - nx) / ne)) as [[E L] | [E L]]; rewrite E; lra.
Qed.

Lemma process_grade_list_strict : forall sl partial gl n m c r,
  Forall (fun x => 0 <= e_grade (i_e x) <= 1) gl -> 0 <= c <= 1 ->
  process_grade_list sl partial gl n m c = Ret r -> strict_entry (i_e r).
Proof.
  intros sl partial gl n m c r Hgl Hc H. unfold process_grade_list in H.
  destruct n as [|n']; [discriminate|]. injection H as <-. simpl.
  set (g0 := consolidate_grades (map (fun r => e_grade (i_e r)) gl) (S n')).
  assert (H0 : 0 <= g0 <= 1).
  { apply consolidate_grades_unit; [lia|]. rewrite Forall_map. exact Hgl. }
  set (g1 := if negb partial && Qltb g0 1 then 0 else g0).
  assert (H1 : 0 <= g1 <= 1) by (unfold g1; destruct (negb partial && Qltb g0 1); lra).
  split; simpl; [nra | reflexivity].
Qed.

Lemma wf_grade_unit : forall S r, wf_ires S r -> 0 <= e_grade (i_e r) <= 1.
Proof. intros S r [H _]. exact H. Qed.

(* ------------------------------------------------------------------------------------------------
   list plumbing
   ------------------------------------------------------------------------------------------------ *)
Lemma in_chunks : forall {A} w n (l : list A) x, In x (concat (chunks w n l)) -> In x l.
Proof.
  intros A w n. induction n as [|n IH]; intros l x H; simpl in H; [contradiction|].
  apply in_app_or in H. destruct H as [H | H].
  - rewrite <- (firstn_skipn w l). apply in_or_app. left. exact H.
  - rewrite <- (firstn_skipn w l). apply in_or_app. right. apply IH. exact H.
Qed.

Lemma nth2_in : forall {A} (m : list (list A)) i j a, nth2 m i j = Some a -> In a (concat m).
Proof.
  intros A m i j a H. unfold nth2 in H. destruct (nth_error m i) as [row|] eqn:E; [|discriminate].
  apply nth_error_In in E. apply nth_error_In in H. apply in_concat. exists row. split; assumption.
Qed.

Lemma pick_pairs_forall : forall {A} (P : A -> Prop) m pairs l,
  pick_pairs m pairs = Ret l -> (forall a, In a (concat m) -> P a) -> Forall P l.
Proof.
  intros A P m pairs l H HP. unfold pick_pairs in H. eapply collect_forall; [exact H|].
  intros o a Hin Ho. apply in_map_iff in Hin. destruct Hin as [[i j] [E _]]. simpl in E.
  destruct (nth2 m i j) as [a'|] eqn:N; rewrite <- E in Ho; [|discriminate].
  injection Ho as <-. apply HP. eapply nth2_in. exact N.
Qed.

Lemma pick_pairs_length : forall {A} (m : list (list A)) pairs l, pick_pairs m pairs = Ret l -> length l = length pairs.
Proof. intros A m pairs l H. unfold pick_pairs in H. apply collect_length in H. rewrite map_length in H. exact H. Qed.

Lemma in_zip : forall {A B} (a : list A) (b : list B) x y, In (x, y) (zip a b) -> In x a /\ In y b.
Proof.
  induction a as [|x0 a IH]; intros b x y H; simpl in H; [contradiction|].
  destruct b as [|y0 b]; [contradiction|]. destruct H as [E | H].
  - injection E as <- <-. split; left; reflexivity.
  - destruct (IH _ _ _ H) as [H1 H2]. split; right; assumption.
Qed.

Lemma in_pad_to_some : forall {A} n (l : list A) a, In (Some a) (pad_to n l) -> In a l.
Proof.
  intros A n l a H. unfold pad_to in H. apply in_app_or in H. destruct H as [H | H].
  - apply in_map_iff in H. destruct H as [x [E Hx]]. injection E as <-. exact Hx.
  - apply repeat_spec in H. discriminate.
Qed.

Lemma set_nth_length : forall {A} (l : list A) i a, length (set_nth l i a) = length l.
Proof. induction l as [|x l IH]; intros [|i] a; simpl; try reflexivity. rewrite IH. reflexivity. Qed.

Lemma set_nth_forall : forall {A} (P : A -> Prop) (l : list A) i a, Forall P l -> P a -> Forall P (set_nth l i a).
Proof.
  induction l as [|x l IH]; intros [|i] a Hl Ha; simpl; try assumption; inversion Hl; subst; constructor; auto.
Qed.

Lemma assign_length : forall {A} idx (items l : list A), length (assign l idx items) = length l.
Proof.
  induction idx as [|i idx IH]; intros items l; simpl; [reflexivity|].
  destruct items as [|a items]; [reflexivity|]. rewrite IH. apply set_nth_length.
Qed.

Lemma assign_forall : forall {A} (P : A -> Prop) idx (items l : list A),
  Forall P l -> Forall P items -> Forall P (assign l idx items).
Proof.
  induction idx as [|i idx IH]; intros items l Hl Hi; simpl; [exact Hl|].
  destruct items as [|a items]; [exact Hl|]. inversion Hi; subst.
  apply IH; [apply set_nth_forall; assumption | assumption].
Qed.
