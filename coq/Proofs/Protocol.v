(* Proofs/Protocol.v -- C11: call-history independence of the item-grader protocol (Model/Protocol.v) *)
From Coq Require Import ZArith QArith List Bool Lia.
From Verif.Model Require Import Result Protocol.
Import ListNotations.

Section ProtocolProofs.
Context {E S A L : Type}.
Variable dm : bool.                     (* modified defaults present *)
Variable cfg : config.
Variable O : oracles E S A L.

Notation cp := create_prog_faithful.
Notation callP := (call dm cfg O cp).
Notation runP := (run dm cfg O cp).
Notation specP := (spec dm cfg O cp).
Notation st := (state E S A L).

(* ---------------------------------------------------------------------------------------------- *)
(* validation stages of an expect value                                                           *)
(* ---------------------------------------------------------------------------------------------- *)
Inductive stage := SInfer | SSchema | SPost | SValid.

Definition stage_of (ev : E) : stage :=
  match o_infer O ev with
  | Some _ => SInfer
  | None => match o_schema O ev with
            | inl _ => SSchema
            | inr a0 => match o_post O a0 with inl _ => SPost | inr _ => SValid end
            end
  end.

Definition text_ok (s : S) : bool := match o_text O s with None => true | Some _ => false end.

(* events after which the code AS IT STANDS keeps its promises:
   - an expect value that passes the schema but fails post-validation is never harmless (it is stored half-validated);
   - with debug output on, an expect value failing the schema, and a valid expect value accompanied by a
     non-text input, leave log_created set (the next call shows a stale log) *)
Definition event_clean (ev : event E S) : bool :=
  match ev with
  | (None, _) => true
  | (Some x, s) =>
      match stage_of x with
      | SInfer => true
      | SSchema => negb (c_debug cfg)
      | SPost => false
      | SValid => negb (c_debug cfg) || text_ok s
      end
  end.

Lemma validated_stage : forall ev a, validated O ev = Some a -> stage_of ev = SValid.
Proof.
  intros ev a. unfold validated, stage_of.
  destruct (o_infer O ev); [discriminate|].
  destruct (o_schema O ev) as [x|a0]; [discriminate|].
  destruct (o_post O a0) as [[p x]|a']; [discriminate|]. reflexivity.
Qed.

Lemma stage_valid : forall ev, stage_of ev = SValid ->
  exists a0 a, o_infer O ev = None /\ o_schema O ev = inr a0 /\ o_post O a0 = inr a /\ validated O ev = Some a.
Proof.
  intros ev. unfold stage_of, validated.
  destruct (o_infer O ev); [discriminate|].
  destruct (o_schema O ev) as [x|a0]; [discriminate|].
  destruct (o_post O a0) as [[p x]|a'] eqn:HP; [discriminate|].
  intros _. exists a0, a'. rewrite HP. auto.
Qed.

Lemma is_valid_stage : forall ev, is_valid O ev = true <-> stage_of ev = SValid.
Proof.
  intros ev. unfold is_valid. split.
  - destruct (validated O ev) eqn:V; [intros _; eapply validated_stage; eauto | discriminate].
  - intros H. destruct (stage_valid ev H) as (a0 & a & _ & _ & _ & V). rewrite V. reflexivity.
Qed.

(* ---------------------------------------------------------------------------------------------- *)
(* the invariant linking the instance state to the last successfully supplied expect value         *)
(* ---------------------------------------------------------------------------------------------- *)
Definition answers_track (last : option E) (m : st) : Prop :=
  match last with
  | None => st_answers m = None /\ st_inferring m = false
  | Some ev => exists a, validated O ev = Some a /\ st_answers m = Some a /\ st_inferring m = true
  end.

(* code as it stands: log_created is only known to be clear when it matters (debug) *)
Definition inv_faithful (last : option E) (m : st) : Prop :=
  (c_debug cfg = true -> st_created m = false) /\ answers_track last m.

(* repaired protocol *)
Definition inv_repaired (last : option E) (m : st) : Prop :=
  st_created m = false /\ answers_track last m.

Definition next_last (last : option E) (ev : event E S) : option E :=
  match ev with
  | (Some x, _) => if is_valid O x then Some x else last
  | (None, _) => last
  end.

Lemma last_supplied_step : forall h acc, last_supplied O acc h = fold_left next_last h acc.
Proof.
  induction h as [|[e s] h IH]; intros acc; simpl; [reflexivity|].
  destruct e; simpl; apply IH.
Qed.

Ltac break_state m := destruct m as [ans inf crt lg tmp ifd]; simpl in *.

(* ---------------------------------------------------------------------------------------------- *)
(* one step, code as it stands                                                                    *)
(* ---------------------------------------------------------------------------------------------- *)
Lemma faithful_step : forall last m e s,
  inv_faithful last m -> event_clean (e, s) = true ->
  inv_faithful (next_last last (e, s)) (fst (callP call_prog_faithful m e s)).
Proof.
  intros last m e s [Hc Ht] Hclean. break_state m.
  destruct e as [x|].
  - (* an expect value is given: by the invariant the inference block runs *)
    assert (G : inf || negb (match ans with Some _ => true | None => false end) = true).
    { unfold answers_track in Ht. destruct last; simpl in Ht.
      - destruct Ht as (a & _ & -> & ->). reflexivity.
      - destruct Ht as [-> ->]. reflexivity. }
    unfold call, begin_call; simpl. unfold has_answers; simpl. rewrite G. simpl.
    unfold is_valid. unfold event_clean in Hclean. unfold stage_of in Hclean. unfold validated.
    destruct (o_infer O x) as [xi|] eqn:HI; simpl.
    + split; [exact Hc | exact Ht].
    + destruct (o_schema O x) as [xs|a0] eqn:HS; simpl.
      * (* schema failure: clean only when debug is off *)
        destruct (c_debug cfg) eqn:D; [discriminate|].
        split; [intros; discriminate | exact Ht].
      * unfold run_create; simpl. destruct crt; simpl; rewrite HS; simpl;
        (destruct (o_post O a0) as [[p xp]|a1] eqn:HP; simpl; [discriminate|]);
        (destruct (o_text O s) as [xt|] eqn:HT; simpl;
         [ unfold text_ok in Hclean; rewrite HT in Hclean; simpl in Hclean;
           destruct (c_debug cfg) eqn:D; [discriminate|];
           split; [intros; discriminate | exists a1; unfold validated; rewrite HI, HS, HP; auto]
         | destruct (o_check O (Some a1) s); simpl;
           (split; [intros; reflexivity | exists a1; unfold validated; rewrite HI, HS, HP; auto]) ]).
  - (* no expect value: only AbstractGrader.__call__ runs *)
    unfold call, begin_call; simpl.
    destruct (o_text O s) as [xt|] eqn:HT; simpl.
    + split; [exact Hc | exact Ht].
    + unfold run_create; simpl. destruct crt; simpl; destruct (o_check O ans s); simpl;
        (split; [intros; reflexivity | exact Ht]).
Qed.

Lemma faithful_run : forall h last m,
  inv_faithful last m -> forallb event_clean h = true ->
  inv_faithful (fold_left next_last h last) (runP call_prog_faithful m h).
Proof.
  induction h as [|[e s] h IH]; intros last m Hinv Hcl; simpl in *; [exact Hinv|].
  apply andb_true_iff in Hcl. destruct Hcl as [H1 H2].
  apply IH; [|exact H2]. apply (faithful_step last m e s Hinv H1).
Qed.

(* ---------------------------------------------------------------------------------------------- *)
(* one step, repaired protocol (no side condition on the event)                                    *)
(* ---------------------------------------------------------------------------------------------- *)
Lemma repaired_step : forall last m e s,
  inv_repaired last m ->
  inv_repaired (next_last last (e, s)) (fst (callP call_prog_repaired m e s)).
Proof.
  intros last m e s [Hc Ht]. break_state m. subst crt.
  destruct e as [x|].
  - assert (G : inf || negb (match ans with Some _ => true | None => false end) = true).
    { unfold answers_track in Ht. destruct last; simpl in Ht.
      - destruct Ht as (a & _ & -> & ->). reflexivity.
      - destruct Ht as [-> ->]. reflexivity. }
    unfold call, begin_call; simpl. unfold has_answers; simpl. rewrite G. simpl.
    unfold is_valid, validated.
    destruct (o_infer O x) as [xi|] eqn:HI; simpl.
    + split; [reflexivity | exact Ht].
    + destruct (o_schema O x) as [xs|a0] eqn:HS; simpl.
      * split; [reflexivity | exact Ht].
      * destruct (o_post O a0) as [[p xp]|a1] eqn:HP; simpl.
        -- split; [reflexivity | exact Ht].
        -- unfold run_create; simpl.
           destruct (o_text O s) as [xt|] eqn:HT; simpl.
           ++ split; [reflexivity | exists a1; auto].
           ++ destruct (o_check O (Some a1) s); simpl; (split; [reflexivity | exists a1; auto]).
  - unfold call, begin_call; simpl.
    destruct (o_text O s) as [xt|] eqn:HT; simpl.
    + split; [reflexivity | exact Ht].
    + unfold run_create; simpl. destruct (o_check O ans s); simpl; (split; [reflexivity | exact Ht]).
Qed.

Lemma repaired_run : forall h last m,
  inv_repaired last m ->
  inv_repaired (fold_left next_last h last) (runP call_prog_repaired m h).
Proof.
  induction h as [|[e s] h IH]; intros last m Hinv; simpl in *; [exact Hinv|].
  apply IH. apply (repaired_step last m e s Hinv).
Qed.

(* ---------------------------------------------------------------------------------------------- *)
(* the outcome of a call from a state satisfying the invariant                                     *)
(* ---------------------------------------------------------------------------------------------- *)
Lemma filter_chk : forall ls : list L, filter (@not_inferred E S L) (map (@LChk E S L) ls) = map (@LChk E S L) ls.
Proof. induction ls; simpl; [reflexivity | rewrite IHls; reflexivity]. Qed.

Lemma filter_app' : forall (f : line E S L -> bool) a b, filter f (a ++ b) = filter f a ++ filter f b.
Proof. intros. apply filter_app. Qed.

(* code as it stands *)
Lemma faithful_outcome : forall last m e s,
  inv_faithful last m ->
  snd (callP call_prog_faithful m e s)
  = match e with
    | Some _ => snd (callP call_prog_faithful (init_state None) (effective last e) s)
    | None => strip_inferred (snd (callP call_prog_faithful (init_state None) (effective last e) s))
    end.
Proof.
  intros last m e s [Hc Ht]. break_state m.
  destruct e as [x|].
  - assert (G : inf || negb (match ans with Some _ => true | None => false end) = true).
    { unfold answers_track in Ht. destruct last; simpl in Ht.
      - destruct Ht as (a & _ & -> & ->). reflexivity.
      - destruct Ht as [-> ->]. reflexivity. }
    unfold call, begin_call; simpl. unfold has_answers; simpl. rewrite G. simpl.
    destruct (o_infer O x) as [xi|] eqn:HI; simpl; [reflexivity|].
    destruct (c_debug cfg) eqn:D.
    + (* debug: log_created is clear, so the log is rebuilt exactly as in a fresh grader *)
      rewrite (Hc eq_refl). unfold run_create; simpl.
      destruct (o_schema O x) as [xs|a0] eqn:HS; simpl; [reflexivity|].
      destruct (o_post O a0) as [[p xp]|a1] eqn:HP; simpl; [reflexivity|].
      destruct (o_text O s) as [xt|] eqn:HT; simpl; [reflexivity|].
      destruct (o_check O (Some a1) s); simpl; rewrite ?D; reflexivity.
    + (* no debug output: the log is not observable *)
      unfold run_create; simpl.
      destruct crt; simpl;
      (destruct (o_schema O x) as [xs|a0] eqn:HS; simpl; [reflexivity|]);
      (destruct (o_post O a0) as [[p xp]|a1] eqn:HP; simpl; [reflexivity|]);
      (destruct (o_text O s) as [xt|] eqn:HT; simpl; [reflexivity|]);
      (destruct (o_check O (Some a1) s); simpl; unfold wrap; rewrite ?D; reflexivity).
  - (* no expect value given *)
    destruct last as [y|]; simpl in Ht.
    + destruct Ht as (a & V & -> & ->).
      pose proof (validated_stage y a V) as SV.
      destruct (stage_valid y SV) as (a0 & a' & HI & HS & HP & V').
      rewrite V in V'. inversion V'; subst a'.
      unfold call, begin_call, effective; simpl. unfold has_answers; simpl.
      rewrite HI; simpl.
      destruct (c_debug cfg) eqn:D.
      * rewrite (Hc eq_refl). unfold run_create; simpl. rewrite HS; simpl. rewrite HP; simpl.
        destruct (o_text O s) as [xt|] eqn:HT; simpl; [reflexivity|].
        destruct (o_check O (Some a) s) as [v ls|xc ls]; simpl; rewrite ?D; simpl; [|reflexivity].
        f_equal. f_equal.
        destruct dm; simpl; rewrite ?filter_app'; simpl; rewrite filter_chk; reflexivity.
      * unfold run_create; simpl. rewrite HS; simpl. rewrite HP; simpl.
        destruct crt; simpl;
        (destruct (o_text O s) as [xt|] eqn:HT; simpl; [reflexivity|]);
        (destruct (o_check O (Some a) s) as [v ls|xc ls]; simpl; unfold wrap; rewrite ?D; reflexivity).
    + destruct Ht as [-> ->].
      unfold call, begin_call, effective; simpl.
      destruct (o_text O s) as [xt|] eqn:HT; simpl; [reflexivity|].
      destruct (c_debug cfg) eqn:D.
      * rewrite (Hc eq_refl). unfold run_create; simpl.
        destruct (o_check O None s) as [v ls|xc ls]; simpl; rewrite ?D; simpl; [|reflexivity].
        f_equal. f_equal.
        destruct dm; simpl; rewrite ?filter_app'; simpl; rewrite filter_chk; reflexivity.
      * unfold run_create; simpl.
        destruct crt; simpl;
        (destruct (o_check O None s) as [v ls|xc ls]; simpl; unfold wrap; rewrite ?D; reflexivity).
Qed.

End ProtocolProofs.
