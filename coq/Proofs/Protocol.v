(* Proofs/Protocol.v -- C11: call-history independence of the item-grader protocol (Model/Protocol.v) *)
From Coq Require Import ZArith QArith List Bool Lia.
From Verif.Model Require Import Result Protocol.
Import ListNotations.

Section ProtocolProofs.
Context {E S A L : Type}.
Variable dm : bool.                     (* modified defaults present *)
Variable cfg : config.
Variable O : oracles E S A L.

Notation cp := create_prog_code.
Notation callP := (call dm cfg O cp).
Notation runP := (run dm cfg O cp).
Notation specP := (spec dm cfg O cp).
Notation st := (state E S A L).

(* ---------------------------------------------------------------------------------------------- *)
(* validation stages of an expect value                                                           *)
(* ---------------------------------------------------------------------------------------------- *)
Inductive stage := SInfer | SSchema | SPost | SValid.

Definition stage_of (ev : E) : stage :=
  match o_infer O ev with
  | Some _ => SInfer
  | None => match o_schema O ev with
            | inl _ => SSchema
            | inr a0 => match o_post O a0 with inl _ => SPost | inr _ => SValid end
            end
  end.

Definition text_ok (s : S) : bool := match o_text O s with None => true | Some _ => false end.

(* events after which the code AS IT STANDS keeps its promises:
   - an expect value that passes the schema but fails post-validation is never harmless (it is stored half-validated);
   - with debug output on, an expect value failing the schema, and a valid expect value accompanied by a
     non-text input, leave log_created set (the next call shows a stale log) *)
Definition event_clean (ev : event E S) : bool :=
  match ev with
  | (None, _) => true
  | (Some x, s) =>
      match stage_of x with
      | SInfer => true
      | SSchema => negb (c_debug cfg)
      | SPost => false
      | SValid => negb (c_debug cfg) || text_ok s
      end
  end.

Lemma validated_stage : forall ev a, validated O ev = Some a -> stage_of ev = SValid.
Proof.
  intros ev a. unfold validated, stage_of.
  destruct (o_infer O ev); [discriminate|].
  destruct (o_schema O ev) as [x|a0]; [discriminate|].
  destruct (o_post O a0) as [[p x]|a']; [discriminate|]. reflexivity.
Qed.

Lemma stage_valid : forall ev, stage_of ev = SValid ->
  exists a0 a, o_infer O ev = None /\ o_schema O ev = inr a0 /\ o_post O a0 = inr a /\ validated O ev = Some a.
Proof.
  intros ev. unfold stage_of, validated.
  destruct (o_infer O ev); [discriminate|].
  destruct (o_schema O ev) as [x|a0]; [discriminate|].
  destruct (o_post O a0) as [[p x]|a'] eqn:HP; [discriminate|].
  intros _. exists a0, a'. rewrite HP. auto.
Qed.

Lemma validated_intro : forall ev a0 a,
  o_infer O ev = None -> o_schema O ev = inr a0 -> o_post O a0 = inr a -> validated O ev = Some a.
Proof. intros ev a0 a H1 H2 H3. unfold validated. rewrite H1, H2, H3. reflexivity. Qed.

Lemma is_valid_stage : forall ev, is_valid O ev = true <-> stage_of ev = SValid.
Proof.
  intros ev. unfold is_valid. split.
  - destruct (validated O ev) eqn:V; [intros _; eapply validated_stage; eauto | discriminate].
  - intros H. destruct (stage_valid ev H) as (a0 & a & _ & _ & _ & V). rewrite V. reflexivity.
Qed.

(* ---------------------------------------------------------------------------------------------- *)
(* the invariant linking the instance state to the last successfully supplied expect value         *)
(* ---------------------------------------------------------------------------------------------- *)
Definition answers_track (last : option E) (m : st) : Prop :=
  match last with
  | None => st_answers m = None /\ st_inferring m = false
  | Some ev => exists a, validated O ev = Some a /\ st_answers m = Some a /\ st_inferring m = true
  end.

(* code as it stands: log_created is only known to be clear when it matters (debug) *)
Definition inv_before_fix (last : option E) (m : st) : Prop :=
  (c_debug cfg = true -> st_created m = false) /\ answers_track last m.

(* repaired protocol *)
Definition inv_repaired (last : option E) (m : st) : Prop :=
  st_created m = false /\ answers_track last m.

Definition next_last (last : option E) (ev : event E S) : option E :=
  match ev with
  | (Some x, _) => if is_valid O x then Some x else last
  | (None, _) => last
  end.

Lemma last_supplied_step : forall h acc, last_supplied O acc h = fold_left next_last h acc.
Proof.
  induction h as [|[e s] h IH]; intros acc; simpl; [reflexivity|].
  destruct e; simpl; apply IH.
Qed.

Ltac break_state m := destruct m as [ans inf crt lg tmp ifd]; simpl in *.

(* ---------------------------------------------------------------------------------------------- *)
(* one step, code as it stands                                                                    *)
(* ---------------------------------------------------------------------------------------------- *)
Lemma before_fix_step : forall last m e s,
  inv_before_fix last m -> event_clean (e, s) = true ->
  inv_before_fix (next_last last (e, s)) (fst (callP call_prog_before_fix m e s)).
Proof.
  intros last m e s [Hc Ht] Hclean. break_state m.
  destruct e as [x|].
  - (* an expect value is given: by the invariant the inference block runs *)
    assert (G : inf || negb (match ans with Some _ => true | None => false end) = true).
    { unfold answers_track in Ht. destruct last; simpl in Ht.
      - destruct Ht as (a & _ & -> & ->). reflexivity.
      - destruct Ht as [-> ->]. reflexivity. }
    unfold call, begin_call; simpl. unfold has_answers; simpl. rewrite G. simpl.
    unfold is_valid. unfold event_clean in Hclean. unfold stage_of in Hclean. unfold validated.
    destruct (o_infer O x) as [xi|] eqn:HI; simpl.
    + split; [exact Hc | exact Ht].
    + unfold run_create; simpl.
      destruct (o_schema O x) as [xs|a0] eqn:HS.
      * (* schema failure: clean only when debug is off *)
        destruct (c_debug cfg) eqn:D; [discriminate|].
        destruct crt; simpl; rewrite ?HS; simpl; (split; [intros; congruence | exact Ht]).
      * destruct (o_post O a0) as [[p xp]|a1] eqn:HP; [discriminate|].
        destruct (o_text O s) as [xt|] eqn:HT.
        -- unfold text_ok in Hclean; rewrite HT in Hclean; simpl in Hclean.
           destruct (c_debug cfg) eqn:D; [discriminate|].
           destruct crt; simpl; rewrite ?HS; simpl; rewrite ?HP; simpl; rewrite ?HT; simpl;
           (split; [intros; congruence | exists a1; split; [eapply validated_intro; eauto | split; reflexivity]]).
        -- destruct crt; simpl; rewrite ?HS; simpl; rewrite ?HP; simpl; rewrite ?HT; simpl;
           (destruct (o_check O (Some a1) s); simpl; (split; [intros; reflexivity | exists a1; split; [eapply validated_intro; eauto | split; reflexivity]])).
  - (* no expect value: only AbstractGrader.__call__ runs *)
    unfold call, begin_call; simpl.
    destruct (o_text O s) as [xt|] eqn:HT; simpl.
    + split; [exact Hc | exact Ht].
    + unfold run_create; simpl. destruct crt; simpl; destruct (o_check O ans s); simpl;
        (split; [intros; reflexivity | exact Ht]).
Qed.

Lemma before_fix_run : forall h last m,
  inv_before_fix last m -> forallb event_clean h = true ->
  inv_before_fix (fold_left next_last h last) (runP call_prog_before_fix m h).
Proof.
  induction h as [|[e s] h IH]; intros last m Hinv Hcl; simpl in *; [exact Hinv|].
  apply andb_true_iff in Hcl. destruct Hcl as [H1 H2].
  apply IH; [|exact H2]. apply (before_fix_step last m e s Hinv H1).
Qed.

(* ---------------------------------------------------------------------------------------------- *)
(* one step, repaired protocol (no side condition on the event)                                    *)
(* ---------------------------------------------------------------------------------------------- *)
Lemma repaired_step : forall last m e s,
  inv_repaired last m ->
  inv_repaired (next_last last (e, s)) (fst (callP call_prog_repaired m e s)).
Proof.
  intros last m e s [Hc Ht]. break_state m. subst crt.
  destruct e as [x|].
  - assert (G : inf || negb (match ans with Some _ => true | None => false end) = true).
    { unfold answers_track in Ht. destruct last; simpl in Ht.
      - destruct Ht as (a & _ & -> & ->). reflexivity.
      - destruct Ht as [-> ->]. reflexivity. }
    unfold call, begin_call; simpl. unfold has_answers; simpl. rewrite G. simpl.
    unfold is_valid, validated.
    destruct (o_infer O x) as [xi|] eqn:HI; simpl.
    + split; [reflexivity | exact Ht].
    + destruct (o_schema O x) as [xs|a0] eqn:HS; simpl.
      * split; [reflexivity | exact Ht].
      * destruct (o_post O a0) as [[p xp]|a1] eqn:HP; simpl.
        -- split; [reflexivity | exact Ht].
        -- unfold run_create; simpl.
           destruct (o_text O s) as [xt|] eqn:HT; simpl.
           ++ split; [reflexivity | exists a1; split; [eapply validated_intro; eauto | split; reflexivity]].
           ++ destruct (o_check O (Some a1) s); simpl; (split; [reflexivity | exists a1; split; [eapply validated_intro; eauto | split; reflexivity]]).
  - unfold call, begin_call; simpl.
    destruct (o_text O s) as [xt|] eqn:HT; simpl.
    + split; [reflexivity | exact Ht].
    + unfold run_create; simpl. destruct (o_check O ans s); simpl; (split; [reflexivity | exact Ht]).
Qed.

Lemma repaired_run : forall h last m,
  inv_repaired last m ->
  inv_repaired (fold_left next_last h last) (runP call_prog_repaired m h).
Proof.
  induction h as [|[e s] h IH]; intros last m Hinv; simpl in *; [exact Hinv|].
  apply IH. apply (repaired_step last m e s Hinv).
Qed.

(* ---------------------------------------------------------------------------------------------- *)
(* the outcome of a call from a state satisfying the invariant                                     *)
(* ---------------------------------------------------------------------------------------------- *)
Lemma filter_chk : forall ls : list L, filter (@not_inferred E S L) (map (@LChk E S L) ls) = map (@LChk E S L) ls.
Proof. induction ls; simpl; [reflexivity | rewrite IHls; reflexivity]. Qed.

Lemma filter_app' : forall (f : line E S L -> bool) a b, filter f (a ++ b) = filter f a ++ filter f b.
Proof. intros. apply filter_app. Qed.

(* code as it stands *)
Lemma before_fix_outcome : forall last m e s,
  inv_before_fix last m ->
  snd (callP call_prog_before_fix m e s)
  = match e with
    | Some _ => snd (callP call_prog_before_fix (init_state None) (effective last e) s)
    | None => strip_inferred (snd (callP call_prog_before_fix (init_state None) (effective last e) s))
    end.
Proof.
  intros last m e s [Hc Ht]. break_state m.
  destruct e as [x|].
  - assert (G : inf || negb (match ans with Some _ => true | None => false end) = true).
    { unfold answers_track in Ht. destruct last; simpl in Ht.
      - destruct Ht as (a & _ & -> & ->). reflexivity.
      - destruct Ht as [-> ->]. reflexivity. }
    unfold call, begin_call; simpl. unfold has_answers; simpl. rewrite G. simpl.
    destruct (o_infer O x) as [xi|] eqn:HI; simpl; [reflexivity|].
    destruct (c_debug cfg) eqn:D.
    + (* debug: log_created is clear, so the log is rebuilt exactly as in a fresh grader *)
      rewrite (Hc eq_refl). unfold run_create; simpl.
      destruct (o_schema O x) as [xs|a0] eqn:HS; simpl; [reflexivity|].
      destruct (o_post O a0) as [[p xp]|a1] eqn:HP; simpl; [reflexivity|].
      destruct (o_text O s) as [xt|] eqn:HT; simpl; [reflexivity|].
      destruct (o_check O (Some a1) s); simpl; rewrite ?D; reflexivity.
    + (* no debug output: the log is not observable *)
      unfold run_create; simpl.
      destruct crt; simpl;
      (destruct (o_schema O x) as [xs|a0] eqn:HS; simpl; [reflexivity|]);
      (destruct (o_post O a0) as [[p xp]|a1] eqn:HP; simpl; [reflexivity|]);
      (destruct (o_text O s) as [xt|] eqn:HT; simpl; [reflexivity|]);
      (destruct (o_check O (Some a1) s); simpl; unfold wrap; rewrite ?D; reflexivity).
  - (* no expect value given *)
    destruct last as [y|]; simpl in Ht.
    + destruct Ht as (a & V & -> & ->).
      pose proof (validated_stage y a V) as SV.
      destruct (stage_valid y SV) as (a0 & a' & HI & HS & HP & V').
      rewrite V in V'. inversion V'; subst a'.
      unfold call, begin_call, effective; simpl. unfold has_answers; simpl.
      rewrite HI; simpl.
      destruct (c_debug cfg) eqn:D.
      * rewrite (Hc eq_refl). unfold run_create; simpl. rewrite HS; simpl. rewrite HP; simpl.
        destruct (o_text O s) as [xt|] eqn:HT; simpl; [reflexivity|].
        destruct (o_check O (Some a) s) as [v ls|xc ls]; simpl; rewrite ?D; simpl; [|reflexivity].
        f_equal. f_equal.
        destruct dm; simpl; rewrite ?filter_app'; simpl; rewrite filter_chk; reflexivity.
      * unfold run_create; simpl. rewrite HS; simpl. rewrite HP; simpl.
        destruct crt; simpl;
        (destruct (o_text O s) as [xt|] eqn:HT; simpl; [reflexivity|]);
        (destruct (o_check O (Some a) s) as [v ls|xc ls]; simpl; unfold wrap; rewrite ?D; reflexivity).
    + destruct Ht as [-> ->].
      unfold call, begin_call, effective; simpl.
      destruct (o_text O s) as [xt|] eqn:HT; simpl; [reflexivity|].
      destruct (c_debug cfg) eqn:D.
      * rewrite (Hc eq_refl). unfold run_create; simpl.
        destruct (o_check O None s) as [v ls|xc ls]; simpl; rewrite ?D; simpl; [|reflexivity].
        f_equal. f_equal.
        destruct dm; simpl; rewrite ?filter_app'; simpl; rewrite filter_chk; reflexivity.
      * unfold run_create; simpl.
        destruct crt; simpl;
        (destruct (o_check O None s) as [v ls|xc ls]; simpl; unfold wrap; rewrite ?D; reflexivity).
Qed.

(* repaired protocol *)
Lemma repaired_outcome : forall last m e s,
  inv_repaired last m ->
  snd (callP call_prog_repaired m e s)
  = match e with
    | Some _ => snd (callP call_prog_repaired (init_state None) (effective last e) s)
    | None => strip_inferred (snd (callP call_prog_repaired (init_state None) (effective last e) s))
    end.
Proof.
  intros last m e s [Hc Ht]. break_state m. subst crt.
  destruct e as [x|].
  - assert (G : inf || negb (match ans with Some _ => true | None => false end) = true).
    { unfold answers_track in Ht. destruct last; simpl in Ht.
      - destruct Ht as (a & _ & -> & ->). reflexivity.
      - destruct Ht as [-> ->]. reflexivity. }
    unfold call, begin_call; simpl. unfold has_answers; simpl. rewrite G. simpl.
    destruct (o_infer O x) as [xi|] eqn:HI; simpl; [reflexivity|].
    destruct (o_schema O x) as [xs|a0] eqn:HS; simpl; [reflexivity|].
    destruct (o_post O a0) as [[p xp]|a1] eqn:HP; simpl; [reflexivity|].
    unfold run_create; simpl.
    destruct (o_text O s) as [xt|] eqn:HT; simpl; [reflexivity|].
    destruct (o_check O (Some a1) s); simpl; reflexivity.
  - destruct last as [y|]; simpl in Ht.
    + destruct Ht as (a & V & -> & ->).
      pose proof (validated_stage y a V) as SV.
      destruct (stage_valid y SV) as (a0 & a' & HI & HS & HP & V').
      rewrite V in V'. inversion V'; subst a'.
      unfold call, begin_call, effective; simpl. unfold has_answers; simpl.
      rewrite HI; simpl. rewrite HS; simpl. rewrite HP; simpl.
      unfold run_create; simpl.
      destruct (o_text O s) as [xt|] eqn:HT; simpl; [reflexivity|].
      destruct (o_check O (Some a) s) as [v ls|xc ls]; simpl; [|reflexivity].
      destruct (c_debug cfg); simpl; [|reflexivity].
      f_equal. f_equal.
      destruct dm; simpl; rewrite ?filter_app'; simpl; rewrite filter_chk; reflexivity.
    + destruct Ht as [-> ->].
      unfold call, begin_call, effective; simpl.
      destruct (o_text O s) as [xt|] eqn:HT; simpl; [reflexivity|].
      unfold run_create; simpl.
      destruct (o_check O None s) as [v ls|xc ls]; simpl; [|reflexivity].
      destruct (c_debug cfg); simpl; [|reflexivity].
      f_equal. f_equal.
      destruct dm; simpl; rewrite ?filter_app'; simpl; rewrite filter_chk; reflexivity.
Qed.

(* ---------------------------------------------------------------------------------------------- *)
(* graders with configured answers: expect is ignored, for both programs, all histories            *)
(* ---------------------------------------------------------------------------------------------- *)
Definition inv_configured (a : A) (m : st) : Prop :=
  st_answers m = Some a /\ st_inferring m = false /\ st_created m = false.

Definition known_prog (p : call_program) : Prop := p = call_prog_before_fix \/ p = call_prog_repaired.

Lemma configured_step : forall p a m e s, known_prog p -> inv_configured a m ->
  inv_configured a (fst (callP p m e s))
  /\ snd (callP p m e s) = snd (callP p (init_state (Some a)) None s).
Proof.
  intros p a m e s Hp (Ha & Hi & Hc). break_state m. subst ans inf crt.
  assert (G : forall b, b && (false || negb true) = false) by (intros []; reflexivity).
  destruct Hp as [-> | ->];
  unfold call, begin_call; simpl; unfold has_answers; simpl; rewrite G; simpl;
  (destruct (o_text O s) as [xt|] eqn:HT; simpl;
   [ split; [repeat split | reflexivity]
   | unfold run_create; simpl; destruct (o_check O (Some a) s); simpl; (split; [repeat split | reflexivity]) ]).
Qed.

Lemma configured_run : forall p a h m, known_prog p -> inv_configured a m -> inv_configured a (runP p m h).
Proof.
  intros p a h. induction h as [|[e s] h IH]; intros m Hp Hinv; simpl; [exact Hinv|].
  apply IH; [exact Hp|]. apply (configured_step p a m e s Hp Hinv).
Qed.

(* ---------------------------------------------------------------------------------------------- *)
(* the theorems                                                                                   *)
(* ---------------------------------------------------------------------------------------------- *)
Lemma init_inv_before_fix : inv_before_fix None (init_state None).
Proof. split; [intros; reflexivity | split; reflexivity]. Qed.

Lemma init_inv_repaired : inv_repaired None (init_state None).
Proof. split; [reflexivity | split; reflexivity]. Qed.

(* graders with configured answers -- code as it stands and repaired, every history, debug on or off *)
Theorem configured_history_independent : forall p a h e s, known_prog p ->
  snd (callP p (runP p (init_state (Some a)) h) e s) = specP p (Some a) h e s.
Proof.
  intros p a h e s Hp. unfold spec.
  assert (I0 : inv_configured a (init_state (Some a))) by (repeat split).
  pose proof (configured_run p a h _ Hp I0) as I1.
  apply (configured_step p a _ e s Hp I1).
Qed.

(* graders without configured answers, repaired protocol: every history *)
Theorem repaired_history_independent : forall h e s,
  snd (callP call_prog_repaired (runP call_prog_repaired (init_state None) h) e s)
  = specP call_prog_repaired None h e s.
Proof.
  intros h e s. unfold spec. rewrite last_supplied_step.
  pose proof (repaired_run h None _ init_inv_repaired) as I1.
  rewrite (repaired_outcome _ _ e s I1). destruct e; reflexivity.
Qed.

(* graders without configured answers, code as it stands: histories of clean events *)
Theorem before_fix_history_independent_clean : forall h e s,
  forallb event_clean h = true ->
  snd (callP call_prog_before_fix (runP call_prog_before_fix (init_state None) h) e s)
  = specP call_prog_before_fix None h e s.
Proof.
  intros h e s Hcl. unfold spec. rewrite last_supplied_step.
  pose proof (before_fix_run h None _ init_inv_before_fix Hcl) as I1.
  rewrite (before_fix_outcome _ _ e s I1). destruct e; reflexivity.
Qed.

(* the full statement for the repaired protocol, configured or not *)
Theorem repaired_full : forall configured h e s,
  snd (callP call_prog_repaired (runP call_prog_repaired (init_state configured) h) e s)
  = specP call_prog_repaired configured h e s.
Proof.
  intros [a|] h e s.
  - apply configured_history_independent. right. reflexivity.
  - apply repaired_history_independent.
Qed.

(* the debug log handed back by a call of the repaired protocol speaks of the current call only *)
Definition line_current (e : option E) (s : S) (l : line E S L) : Prop :=
  match l with
  | LResp s' => s' = s
  | LInferred x => e = Some x
  | _ => True
  end.

Ltac solve_forall := repeat match goal with
  | |- Forall _ (_ :: _) => apply Forall_cons; [simpl; auto|]
  | |- Forall _ (_ ++ _) => apply Forall_app; split
  | |- Forall _ [] => apply Forall_nil
  | H : forall ls, Forall _ (map _ ls) |- Forall _ (map _ _) => apply H
  | |- Forall _ (if _ then _ else _) => assumption
  end.

Lemma fresh_log_current : forall p configured e s v lg, known_prog p ->
  snd (callP p (init_state configured) e s) = ORet v (Some lg) -> Forall (line_current e s) lg.
Proof.
  intros p configured e s v lg Hp.
  assert (CH : forall ls : list L, Forall (line_current e s) (map (@LChk E S L) ls)).
  { induction ls; simpl; constructor; simpl; auto. }
  assert (DM : Forall (line_current e s) (if dm then [@LDefaults E S L] else [])).
  { destruct dm; repeat constructor. }
  destruct Hp as [-> | ->]; unfold call, begin_call; simpl; unfold has_answers; simpl.
  - destruct e as [x|]; simpl.
    + destruct configured as [a|]; simpl.
      * destruct (o_text O s); simpl; [discriminate|]. unfold run_create; simpl.
        destruct (o_check O (Some a) s); simpl; [|discriminate].
        destruct (c_debug cfg); [|discriminate]. intros H; inversion H; subst.
        solve_forall.
      * destruct (o_infer O x); simpl; [discriminate|]. unfold run_create; simpl.
        destruct (o_schema O x) as [|a0]; simpl; [discriminate|].
        destruct (o_post O a0) as [[? ?]|a1]; simpl; [discriminate|].
        destruct (o_text O s); simpl; [discriminate|].
        destruct (o_check O (Some a1) s); simpl; [|discriminate].
        destruct (c_debug cfg); [|discriminate]. intros H; inversion H; subst.
        solve_forall.
    + destruct (o_text O s); simpl; [discriminate|]. unfold run_create; simpl.
      destruct (o_check O configured s); simpl; [|discriminate].
      destruct (c_debug cfg); [|discriminate]. intros H; inversion H; subst.
      solve_forall.
  - destruct e as [x|]; simpl.
    + destruct configured as [a|]; simpl.
      * destruct (o_text O s); simpl; [discriminate|]. unfold run_create; simpl.
        destruct (o_check O (Some a) s); simpl; [|discriminate].
        destruct (c_debug cfg); [|discriminate]. intros H; inversion H; subst.
        solve_forall.
      * destruct (o_infer O x); simpl; [discriminate|].
        destruct (o_schema O x) as [|a0]; simpl; [discriminate|].
        destruct (o_post O a0) as [[? ?]|a1]; simpl; [discriminate|].
        unfold run_create; simpl.
        destruct (o_text O s); simpl; [discriminate|].
        destruct (o_check O (Some a1) s); simpl; [|discriminate].
        destruct (c_debug cfg); [|discriminate]. intros H; inversion H; subst.
        solve_forall.
    + destruct (o_text O s); simpl; [discriminate|]. unfold run_create; simpl.
      destruct (o_check O configured s); simpl; [|discriminate].
      destruct (c_debug cfg); [|discriminate]. intros H; inversion H; subst.
      solve_forall.
Qed.

Lemma line_current_weaken : forall e s lg,
  Forall (line_current None s) lg -> Forall (line_current e s) lg.
Proof.
  intros e s lg H. induction H as [|l lg Hl _ IH]; constructor; [|exact IH].
  destruct l; simpl in *; auto. discriminate.
Qed.

Lemma filter_current : forall e s lg,
  Forall (line_current e s) lg -> Forall (line_current None s) (filter (@not_inferred E S L) lg).
Proof.
  intros e s lg H. induction H as [|l lg Hl _ IH]; simpl; [constructor|].
  destruct l; simpl in *; try (constructor; [simpl; auto | exact IH]). exact IH.
Qed.

Theorem repaired_log_current : forall configured h e s v lg,
  snd (callP call_prog_repaired (runP call_prog_repaired (init_state configured) h) e s) = ORet v (Some lg) ->
  Forall (line_current e s) lg.
Proof.
  intros configured h e s v lg. rewrite repaired_full. unfold spec.
  assert (KP : known_prog call_prog_repaired) by (right; reflexivity).
  destruct configured as [a|].
  - intros H. apply line_current_weaken. eapply fresh_log_current; eauto.
  - destruct e as [x|].
    + intros H. eapply fresh_log_current; eauto.
    + simpl effective.
      destruct (snd (callP call_prog_repaired (init_state None) (last_supplied O None h) s)) as [xx|v' [lg'|]] eqn:F;
        simpl; intros H; inversion H; subst.
      eapply filter_current. eapply fresh_log_current; eauto.
Qed.

End ProtocolProofs.

(* ---- the theorems at the program of the code as it stands (call_prog = call_prog_repaired) ---- *)
Lemma code_history_independent :
  forall (E S A L : Type) (dm : bool) (cfg : config) (O : oracles E S A L) (configured : option A)
         (h : list (event E S)) (e : option E) (s : S),
  snd (call dm cfg O create_prog call_prog (run dm cfg O create_prog call_prog (init_state configured) h) e s)
  = spec dm cfg O create_prog call_prog configured h e s.
Proof. intros. apply repaired_full. Qed.

Lemma code_log_current :
  forall (E S A L : Type) (dm : bool) (cfg : config) (O : oracles E S A L) (configured : option A)
         (h : list (event E S)) (e : option E) (s : S) (v : entry) (lg : list (line E S L)),
  snd (call dm cfg O create_prog call_prog (run dm cfg O create_prog call_prog (init_state configured) h) e s)
    = ORet v (Some lg) ->
  Forall (line_current e s) lg.
Proof. intros E S A L dm cfg O configured h e s v lg. apply repaired_log_current. Qed.

(* a raising call leaves the persistent state exactly as a call that was never made, unless its expect value was valid *)
Lemma code_failed_expect_leaves_no_trace :
  forall (E S A L : Type) (dm : bool) (cfg : config) (O : oracles E S A L)
         (h : list (event E S)) (x : E) (s : S),
  is_valid O x = false ->
  let m0 := run dm cfg O create_prog call_prog (init_state None) h in
  let m1 := fst (call dm cfg O create_prog call_prog m0 (Some x) s) in
  st_answers m1 = st_answers m0 /\ st_inferring m1 = st_inferring m0 /\ st_created m1 = false.
Proof.
  intros E S A L dm cfg O h x s Hv. simpl.
  pose proof (repaired_run dm cfg O h None _ (init_inv_repaired O)) as I0.
  set (m0 := run dm cfg O create_prog_code call_prog_repaired (init_state None) h) in *.
  change call_prog with call_prog_repaired. change create_prog with create_prog_code.
  pose proof (repaired_step dm cfg O _ m0 (Some x) s I0) as [C1 T1].
  destruct I0 as [C0 T0]. simpl in T1. rewrite Hv in T1.
  unfold answers_track in *. unfold m0 in *. clear m0.
  destruct (fold_left (next_last O) h None) as [ev|].
  - destruct T0 as (a & V0 & A0 & F0). destruct T1 as (a' & V1 & A1 & F1).
    rewrite V0 in V1. inversion V1; subst a'.
    repeat split; [congruence | congruence | exact C1].
  - destruct T0 as [A0 F0]. destruct T1 as [A1 F1].
    repeat split; [congruence | congruence | exact C1].
Qed.

(* the instance state after ANY history, repaired protocol: determined by the last successfully supplied expect *)
Lemma repaired_state_determined :
  forall (E S A L : Type) (dm : bool) (cfg : config) (O : oracles E S A L) (h : list (event E S)),
  let m := run dm cfg O create_prog call_prog_repaired (init_state None) h in
  st_created m = false /\
  match last_supplied O None h with
  | None => st_answers m = None /\ st_inferring m = false
  | Some ev => exists a, validated O ev = Some a /\ st_answers m = Some a /\ st_inferring m = true
  end.
Proof.
  intros E S A L dm cfg O h. simpl. rewrite last_supplied_step.
  exact (repaired_run dm cfg O h None _ (init_inv_repaired O)).
Qed.

(* code as it stands: configured answers, the inferring flag and log_created are never changed by any history *)
Lemma configured_state_untouched :
  forall (E S A L : Type) (dm : bool) (cfg : config) (O : oracles E S A L) (a : A) (h : list (event E S)),
  let m := run dm cfg O create_prog call_prog (init_state (Some a)) h in
  st_answers m = Some a /\ st_inferring m = false /\ st_created m = false.
Proof.
  intros E S A L dm cfg O a h. simpl.
  apply (configured_run dm cfg O call_prog a h); [right; reflexivity | repeat split].
Qed.

 (* the configured-answers theorem instantiated at the program of the code as it stands *)
Lemma configured_code :
  forall (E S A L : Type) (dm : bool) (cfg : config) (O : oracles E S A L) (a : A)
         (h : list (event E S)) (e : option E) (s : S),
  snd (call dm cfg O create_prog call_prog (run dm cfg O create_prog call_prog (init_state (Some a)) h) e s)
  = spec dm cfg O create_prog call_prog (Some a) h e s.
Proof. intros E S A L dm cfg O a h e s. apply configured_history_independent. right. reflexivity. Qed.

(* ---------------------------------------------------------------------------------------------- *)
(* the negative-powers switch                                                                     *)
(* ---------------------------------------------------------------------------------------------- *)
Section SwitchProofs.
Context {R : Type}.
Notation body_t := (switch -> switch * R * bool).

(* bodies may do anything with the flag (nested graders), but no code writes the default *)
Definition keeps_default (b : body_t) : Prop := forall w, sw_default (fst (fst (b w))) = sw_default w.

Lemma with_switch_before_fix : forall arg (b : body_t) w,
  with_switch cm_prog_code arg b w
  = (let '(w2, r, raised) := b (mkSwitch arg (sw_default w)) in
     (mkSwitch (sw_default w2) (sw_default w2), r, raised)).
Proof.
  intros arg b w. unfold with_switch; simpl.
  destruct (b {| sw_flag := arg; sw_default := sw_default w |}) as [[w2 r] raised].
  rewrite andb_false_r. reflexivity.
Qed.

(* on every exit (normal or exceptional) the flag is back at the default, and the body saw its own setting *)
Theorem switch_restored : forall arg (b : body_t) w, keeps_default b ->
  let '(w', _, _) := with_switch cm_prog_code arg b w in
  sw_flag w' = sw_default w /\ sw_default w' = sw_default w.
Proof.
  intros arg b w K. rewrite with_switch_before_fix.
  pose proof (K (mkSwitch arg (sw_default w))) as K1.
  destruct (b {| sw_flag := arg; sw_default := sw_default w |}) as [[w2 r] raised]. simpl in *. auto.
Qed.

Definition pristine (d : bool) : switch := mkSwitch d d.

(* any sequence of checks by graders with arbitrary settings, raising or not: every check returns what it
   returns when run alone on the pristine switch, and the switch ends pristine *)
Theorem switch_history_independent : forall (calls : list (bool * body_t)) d,
  Forall (fun c => keeps_default (snd c)) calls ->
  run_switch cm_prog_code calls (pristine d)
  = (pristine d,
     map (fun c => let '(_, r, raised) := with_switch cm_prog_code (fst c) (snd c) (pristine d) in (r, raised)) calls).
Proof.
  intros calls d H. induction H as [|[arg b] calls K _ IH]; simpl; [reflexivity|].
  rewrite with_switch_before_fix. simpl in K. pose proof (K (mkSwitch arg d)) as K1. simpl.
  destruct (b {| sw_flag := arg; sw_default := d |}) as [[w2 r] raised] eqn:B. simpl in K1. subst.
  change {| sw_flag := sw_default w2; sw_default := sw_default w2 |} with (pristine (sw_default w2)).
  rewrite IH. reflexivity.
Qed.

End SwitchProofs.

(* a teardown outside `finally` leaves the switch off after an exception *)
Lemma switch_needs_finally :
  let p := mkCm [SwSet SvArg] false [SwSet SvDefault] in
  let raising : switch -> switch * unit * bool := fun w => (w, tt, true) in
  sw_flag (fst (fst (with_switch p false raising (pristine true)))) = false.
Proof. reflexivity. Qed.

(* ---------------------------------------------------------------------------------------------- *)
(* concrete witnesses (expect values, inputs, answers and log lines are numbered)                  *)
(* ---------------------------------------------------------------------------------------------- *)
Module Witness.
Open Scope Z_scope.

Definition config_error : str := [67;111;110;102;105;103;69;114;114;111;114].    (* "ConfigError" *)
Definition multiple_invalid : str := [77;117;108;116;105;112;108;101;73;110;118;97;108;105;100].
Definition ce (n : Z) : exn := mkExn config_error true [n].
Definition ok_entry : entry := mkEntry OkTrue 1%Q [].
Definition bad_entry : entry := mkEntry OkFalse 0%Q [].

(* W1 -- SingleListGrader(subgrader=StringGrader()):  expect 0 = 'a,,b' passes the schema, fails post-validation and
   is left half-validated (answers 20); expect 1 = 'c,d' is valid (answers 11); inputs 0 = 'a,b', 1 = 'c,d' *)
Definition O1 : oracles Z Z Z Z := mkOracles
  (fun _ => None)
  (fun e => inr (30 + e))
  (fun a => if a =? 30 then inl (20, ce 1) else inr (a - 20))
  (fun _ => None)
  (fun a s => match a with
              | None => CRaise (ce 2) []
              | Some 20 => CRaise (ce 3) []
              | Some a' => if a' - 10 =? s then CRet ok_entry [] else CRet bad_entry []
              end)
  (fun _ => []).

Definition reused (dm : bool) (cfg : config) (O : oracles Z Z Z Z) (p : call_program) (configured : option Z)
           (h : list (event Z Z)) (e : option Z) (s : Z) : outcome Z Z Z :=
  snd (call dm cfg O create_prog_code p (run dm cfg O create_prog_code p (init_state configured) h) e s).

Definition demanded (dm : bool) (cfg : config) (O : oracles Z Z Z Z) (p : call_program) (configured : option Z)
           (h : list (event Z Z)) (e : option Z) (s : Z) : outcome Z Z Z :=
  spec dm cfg O create_prog_code p configured h e s.

(* after ('a,,b', 'a,b') the call ('c,d', 'c,d') raises; a fresh grader grades it correct *)
Lemma w1_poison :
  reused false (mkConfig false) O1 call_prog_before_fix None [(Some 0, 0)] (Some 1) 1 = ORaise (ce 3)
  /\ demanded false (mkConfig false) O1 call_prog_before_fix None [(Some 0, 0)] (Some 1) 1 = ORet ok_entry None.
Proof. split; vm_compute; reflexivity. Qed.

(* the poison also displaces a previously supplied valid expect:  ('c,d','c,d'), ('a,,b','a,b'), (none,'c,d') *)
Lemma w1_poison_after_valid :
  reused false (mkConfig false) O1 call_prog_before_fix None [(Some 1, 1); (Some 0, 0)] None 1 = ORaise (ce 3)
  /\ demanded false (mkConfig false) O1 call_prog_before_fix None [(Some 1, 1); (Some 0, 0)] None 1 = ORet ok_entry None.
Proof. split; vm_compute; reflexivity. Qed.

(* the same histories under the repaired protocol *)
Lemma w1_repaired :
  reused false (mkConfig false) O1 call_prog_repaired None [(Some 0, 0)] (Some 1) 1 = ORet ok_entry None
  /\ reused false (mkConfig false) O1 call_prog_repaired None [(Some 1, 1); (Some 0, 0)] None 1 = ORet ok_entry None.
Proof. split; vm_compute; reflexivity. Qed.

(* W2 -- FormulaGrader(debug=True): expect 0 = 5 fails the schema; expect 1 = '1' is valid; inputs 0 = 'x', 1 = '1' *)
Definition O2 : oracles Z Z Z Z := mkOracles
  (fun _ => None)
  (fun e => if e =? 0 then inl (mkExn multiple_invalid false [4]) else inr (30 + e))
  (fun a => inr (a - 20))
  (fun s => if s =? 5 then Some (ce 5) else None)
  (fun a s => match a with
              | None => CRaise (ce 2) []
              | Some a' => if a' - 10 =? s then CRet ok_entry [7] else CRet bad_entry [7]
              end)
  (fun _ => []).

Lemma w2_debuglog :
  reused false (mkConfig true) O2 call_prog_before_fix None [(Some 0, 0)] (Some 1) 1
    = ORet ok_entry (Some [LVersion; LResp 0; LInferred 0; LInferred 1; LChk 7])
  /\ demanded false (mkConfig true) O2 call_prog_before_fix None [(Some 0, 0)] (Some 1) 1
    = ORet ok_entry (Some [LVersion; LResp 1; LInferred 1; LChk 7]).
Proof. split; vm_compute; reflexivity. Qed.

(* W3 -- a valid expect with a non-text input (5) raises in ensure_text_inputs after the log was created *)
Lemma w3_debuglog_nontext :
  reused false (mkConfig true) O2 call_prog_before_fix None [(Some 1, 5)] (Some 1) 1
    = ORet ok_entry (Some [LVersion; LResp 5; LInferred 1; LInferred 1; LChk 7])
  /\ demanded false (mkConfig true) O2 call_prog_before_fix None [(Some 1, 5)] (Some 1) 1
    = ORet ok_entry (Some [LVersion; LResp 1; LInferred 1; LChk 7]).
Proof. split; vm_compute; reflexivity. Qed.

Lemma w2_repaired :
  reused false (mkConfig true) O2 call_prog_repaired None [(Some 0, 0)] (Some 1) 1
    = ORet ok_entry (Some [LVersion; LResp 1; LInferred 1; LChk 7])
  /\ reused false (mkConfig true) O2 call_prog_repaired None [(Some 1, 5)] (Some 1) 1
    = ORet ok_entry (Some [LVersion; LResp 1; LInferred 1; LChk 7]).
Proof. split; vm_compute; reflexivity. Qed.

(* the full statement is false of the code as it stands *)
Lemma before_fix_full_statement_false :
  ~ (forall dm cfg (O : oracles Z Z Z Z) configured h e s,
       reused dm cfg O call_prog_before_fix configured h e s = demanded dm cfg O call_prog_before_fix configured h e s).
Proof.
  intros H. pose proof (H false (mkConfig false) O1 None [(Some 0, 0)] (Some 1) 1) as H1.
  destruct w1_poison as [A B]. rewrite A, B in H1. discriminate H1.
Qed.

Lemma before_fix_full_statement_false_debug :
  ~ (forall dm cfg (O : oracles Z Z Z Z) configured h e s,
       (forall x, match o_schema O x with inl _ => True | inr a0 => match o_post O a0 with inl _ => False | inr _ => True end end) ->
       reused dm cfg O call_prog_before_fix configured h e s = demanded dm cfg O call_prog_before_fix configured h e s).
Proof.
  intros H.
  assert (P : forall x, match o_schema O2 x with inl _ => True | inr a0 => match o_post O2 a0 with inl _ => False | inr _ => True end end).
  { intros x. simpl. destruct (x =? 0); exact I. }
  pose proof (H false (mkConfig true) O2 None [(Some 0, 0)] (Some 1) 1 P) as H1.
  destruct w2_debuglog as [A B]. rewrite A, B in H1. discriminate H1.
Qed.

(* non-vacuity: a clean history on which the code as it stands does what the property demands, and the outcome is a grade *)
Lemma clean_example :
  reused false (mkConfig true) O2 call_prog_before_fix None [(Some 1, 0); (None, 1); (Some 2, 2)] None 2
    = ORet ok_entry (Some [LVersion; LResp 2; LChk 7])
  /\ demanded false (mkConfig true) O2 call_prog_before_fix None [(Some 1, 0); (None, 1); (Some 2, 2)] None 2
    = ORet ok_entry (Some [LVersion; LResp 2; LChk 7])
  /\ forallb (event_clean (mkConfig true) O2) [(Some 1, 0); (None, 1); (Some 2, 2)] = true.
Proof. repeat split; vm_compute; reflexivity. Qed.

Lemma code_example :
  reused false (mkConfig true) O2 call_prog None [(Some 1, 0); (None, 1); (Some 2, 2)] None 2
    = ORet ok_entry (Some [LVersion; LResp 2; LChk 7]).
Proof. vm_compute; reflexivity. Qed.

End Witness.
