(* Proofs/PipelineShape.v -- C01, part 3: the SHAPE of what a call returns (single form / overall_message + one entry
   per input, in input order), the debug clause, and the relation between the debug-on and debug-off results. *)
From Coq Require Import ZArith QArith Qabs Lia Lqa List Bool Arith.
From Verif.Lib Require Import QRound PyNum.
From Verif.Model Require Import Result Credit Pipeline.
From Verif.Proofs Require Import Credit Pipeline PipelineWF.
Import ListNotations.
Open Scope Q_scope.

(* ------------------------------------------------------------------------------------------------
   debug
   ------------------------------------------------------------------------------------------------ *)
(* with debug off the returned value does not depend on the debug log at all *)
Lemma debug_off_hides_log : forall fuel OR cfg g a x attempt log1 log2,
  c_debug cfg = false ->
  call fuel OR cfg g a x attempt log1 = call fuel OR cfg g a x attempt log2.
Proof.
  intros fuel OR cfg g a x attempt log1 log2 Hd. unfold call. rewrite Hd. reflexivity.
Qed.

Definition with_debug (cfg : ccfg) (b : bool) : ccfg := mkC b (c_sched cfg) (c_msgflag cfg).

(* the grades, ok values and per-input messages are the same with debug on and off: debug only touches the top message *)
Definition same_verdicts (r1 r2 : edx) : Prop :=
  match r1, r2 with
  | ESingle e1, ESingle e2 => e_ok e1 = e_ok e2 /\ e_grade e1 = e_grade e2
  | EMulti _ l1, EMulti _ l2 => l1 = l2
  | _, _ => False
  end.

Lemma debug_only_touches_top_message : forall fuel OR cfg g a x attempt log r1,
  call fuel OR (with_debug cfg true) g a x attempt log = Ret r1 ->
  exists r0, call fuel OR (with_debug cfg false) g a x attempt log = Ret r0 /\ same_verdicts r1 r0.
Proof.
  intros fuel OR cfg g a x attempt log r1 H. unfold call in *. simpl c_debug in *. simpl c_sched in *. simpl c_msgflag in *.
  destruct (negb (input_ok g x)); [discriminate|].
  destruct (check OR fuel g a x []) as [r| | |]; simpl in *; try discriminate.
  match type of H with bind ?s _ = _ => destruct s as [[[ov es] multi]| | |] end; simpl in *; try discriminate.
  match type of H with bind ?s _ = _ => destruct s as [[es' note]| | |] end; simpl in *; try discriminate.
  destruct multi.
  - injection H as <-. eexists. split; [reflexivity|]. simpl. reflexivity.
  - destruct es' as [|e [|]]; try discriminate. injection H as <-. eexists. split; [reflexivity|]. simpl. split; reflexivity.
Qed.

(* ------------------------------------------------------------------------------------------------
   item graders return the single form
   ------------------------------------------------------------------------------------------------ *)
Definition is_list (g : grader) : bool := match g with GList _ _ => true | _ => false end.

Lemma check_item_short : forall OR fuel g a x p r,
  is_list g = false -> check OR fuel g a x p = Ret r -> exists d, r = RShort d.
Proof.
  intros OR fuel g a x p r Hg H. destruct fuel as [|f]; [discriminate|]. simpl in H.
  destruct g as [k wrong | c wrong sub | c wrong sub | c subs | failable]; try discriminate.
  - destruct a as [alts|]; [|discriminate]. destruct alts; [discriminate|].
    apply bind_ret in H. destruct H as [rs [_ H]]. apply bind_ret in H. destruct H as [d [_ H]].
    injection H as <-. eexists. reflexivity.
  - destruct a as [alts|]; [|discriminate]. destruct alts; [discriminate|].
    apply bind_ret in H. destruct H as [rs [_ H]]. apply bind_ret in H. destruct H as [d [_ H]].
    injection H as <-. eexists. reflexivity.
  - destruct a as [alts|]; [|discriminate]. destruct alts; [discriminate|].
    apply bind_ret in H. destruct H as [rs [_ H]]. apply bind_ret in H. destruct H as [d [_ H]].
    injection H as <-. eexists. reflexivity.
  - destruct (o_leaf OR p); try discriminate; injection H as <-; eexists; reflexivity.
Qed.

Lemma check_list_long : forall OR fuel c subs a x p r,
  check OR fuel (GList c subs) a x p = Ret r -> exists slots, r = RLong [] slots.
Proof.
  intros OR fuel c subs a x p r H. destruct fuel as [|f]; [discriminate|]. simpl in H.
  destruct a as [|lists]; [discriminate|]. destruct lists; [discriminate|]. destruct x; [discriminate|].
  apply bind_ret in H. destruct H as [? [_ H]]. apply bind_ret in H. destruct H as [? [_ H]].
  apply bind_ret in H. destruct H as [? [_ H]]. injection H as <-. eexists. reflexivity.
Qed.

Lemma call_item_single : forall fuel OR cfg g a x attempt log r,
  is_list g = false -> call fuel OR cfg g a x attempt log = Ret r -> exists e, r = ESingle e.
Proof.
  intros fuel OR cfg g a x attempt log r Hg H. unfold call in H.
  destruct (negb (input_ok g x)); [discriminate|].
  apply bind_ret in H. destruct H as [r0 [Hchk H]].
  destruct (check_item_short _ _ _ _ _ _ _ Hg Hchk) as [d ->].
  apply bind_ret in H. destruct H as [[[ov es] multi] [Hs H]]. injection Hs as <- <- <-.
  apply bind_ret in H. destruct H as [[es' note] [_ H]].
  destruct es' as [|e [|]]; try discriminate. injection H as <-. eexists. reflexivity.
Qed.

(* ------------------------------------------------------------------------------------------------
   list graders: one entry per input
   ------------------------------------------------------------------------------------------------ *)
Lemma zip_length : forall {A B} (a : list A) (b : list B), length (zip a b) = Nat.min (length a) (length b).
Proof.
  induction a as [|x a IH]; intros [|y b]; simpl; try reflexivity. rewrite IH. reflexivity.
Qed.

Lemma zero_unless_perfect_length : forall l l', zero_unless_perfect l = Ret l' -> length l' = length l.
Proof.
  intros l l' H. unfold zero_unless_perfect in H. destruct (negb (all_slots_good l)); [discriminate|].
  match type of H with context [if ?b then _ else _] => destruct b end; injection H as <-;
    [reflexivity | apply map_length].
Qed.

(* the conditions under which every answer list yields exactly one slot per input *)
Definition list_shape_ok (OR : oracles) (c : lcfg) (subs : list grader) (lists : list (list ans)) (n_inputs : nat)
           (p : path) : Prop :=
  l_grouping c <> [] \/
  (l_ordered c = true /\ (l_single c = true \/ Forall (fun al => length subs = length al) lists)) \/
  (l_ordered c = false /\ forall k, length (o_perm OR (p ++ [k])) = n_inputs).

Lemma groupify_none_length : forall inputs, length (groupify None inputs) = length inputs.
Proof. intro inputs. simpl. apply map_length. Qed.

Lemma perform_check_length : forall OR chk c subs answers inputs p off k slots,
  (l_grouping c <> [] \/
   (l_ordered c = true /\ (l_single c = true \/ length subs = length answers)) \/
   (l_ordered c = false /\ length (o_perm OR (p ++ [k])) = length inputs)) ->
  fst (perform_check OR chk c subs answers inputs p off k) = Ret slots -> length slots = length inputs.
Proof.
  intros OR chk c subs answers inputs p off k slots Hshape H. unfold perform_check in H.
  destruct (l_grouping c) as [|g0 grp] eqn:G.
  - destruct (negb (length answers =? length inputs)%nat) eqn:Hb; [discriminate|].
    apply negb_false_iff in Hb. apply Nat.eqb_eq in Hb.
    simpl in H. apply bind_ret in H. destruct H as [rs [Hrs H]]. injection H as <-.
    unfold ungroupify. rewrite map_length. unfold run_groups in Hrs.
    destruct Hshape as [Hg | [[Ho Hs] | [Ho Hp]]]; [congruence | |].
    + rewrite Ho in Hrs. simpl in Hrs. apply collect_length in Hrs. rewrite Hrs. rewrite mapi_length.
      rewrite !zip_length, map_length.
      destruct Hs as [Hs | Hs].
      * rewrite Hs. rewrite repeat_length. lia.
      * destruct (l_single c); [rewrite repeat_length; lia | lia].
    + rewrite Ho in Hrs. simpl in Hrs. apply bind_ret in Hrs. destruct Hrs as [flat [_ Hrs]].
      apply pick_pairs_length in Hrs. rewrite Hrs. exact Hp.
  - destruct (negb (length (g0 :: grp) =? length inputs)%nat); [discriminate|].
    simpl in H. apply bind_ret in H. destruct H as [rs [_ H]]. injection H as <-.
    unfold ungroupify. rewrite ungroup_loop_length. apply repeat_length.
Qed.

Lemma perform_all_length : forall OR chk c subs lists inputs p off k o slots,
  (l_grouping c <> [] \/
   (l_ordered c = true /\ (l_single c = true \/ Forall (fun al => length subs = length al) lists)) \/
   (l_ordered c = false /\ forall k, length (o_perm OR (p ++ [k])) = length inputs)) ->
  In o (perform_all OR chk c subs lists inputs p off k) -> o = Ret slots -> length slots = length inputs.
Proof.
  intros OR chk c subs lists. induction lists as [|al lists IH]; intros inputs p off k o slots Hshape Hin Ho;
    simpl in Hin; [contradiction|].
  destruct Hin as [E | Hin].
  - rewrite Ho in E. eapply perform_check_length; [|exact E].
    destruct Hshape as [Hg | [[Hor Hs] | [Hor Hp]]]; [left; exact Hg | right; left | right; right].
    + split; [exact Hor|]. destruct Hs as [Hs | Hs]; [left; exact Hs | right; inversion Hs; assumption].
    + split; [exact Hor | apply Hp].
  - eapply IH; [| exact Hin | exact Ho].
    destruct Hshape as [Hg | [[Hor Hs] | [Hor Hp]]]; [left; exact Hg | right; left | right; right].
    + split; [exact Hor|]. destruct Hs as [Hs | Hs]; [left; exact Hs | right; inversion Hs; assumption].
    + split; [exact Hor | exact Hp].
Qed.

Lemma check_list_length : forall OR fuel c subs lists inputs p ov slots,
  list_shape_ok OR c subs lists (length inputs) p ->
  check OR fuel (GList c subs) (AList lists) (IList inputs) p = Ret (RLong ov slots) -> length slots = length inputs.
Proof.
  intros OR fuel c subs lists inputs p ov slots Hshape H. destruct fuel as [|f]; [discriminate|]. simpl in H.
  destruct lists as [|l0 lists']; [discriminate|].
  apply bind_ret in H. destruct H as [results [Hres H]]. apply bind_ret in H. destruct H as [sl [Hch H]].
  apply bind_ret in H. destruct H as [sl' [Hz H]]. injection H as _ <-.
  apply choose_best_in in Hch.
  assert (Hlen : length sl = length inputs).
  { apply collect_ret in Hres.
    assert (Hex : exists o, In o (perform_all OR (check OR f) c subs (l0 :: lists') inputs p 0 0) /\ o = Ret sl).
    { clear -Hres Hch. induction Hres as [|o r l rs Hor _ IH]; [contradiction|].
      destruct Hch as [<- | Hch]; [exists o; split; [left; reflexivity | exact Hor]|].
      destruct (IH Hch) as [o' [Hin Ho']]. exists o'. split; [right; exact Hin | exact Ho']. }
    destruct Hex as [o [Hin Ho]]. eapply perform_all_length; [exact Hshape | exact Hin | exact Ho]. }
  destruct (l_partial c); [injection Hz as <-; exact Hlen | apply zero_unless_perfect_length in Hz; lia].
Qed.

Lemma slots_entries_length : forall l es, slots_entries l = Ret es -> length es = length l.
Proof. intros l es H. unfold slots_entries in H. apply collect_length in H. rewrite map_length in H. exact H. Qed.

Lemma call_list_multi : forall fuel OR cfg c subs lists inputs attempt log r,
  list_shape_ok OR c subs lists (length inputs) [] ->
  call fuel OR cfg (GList c subs) (AList lists) (IList inputs) attempt log = Ret r ->
  exists ov l, r = EMulti ov l /\ length l = length inputs.
Proof.
  intros fuel OR cfg c subs lists inputs attempt log r Hshape H. unfold call in H. simpl negb in H. cbv iota in H.
  apply bind_ret in H. destruct H as [r0 [Hchk H]].
  destruct (check_list_long _ _ _ _ _ _ _ _ Hchk) as [slots ->].
  pose proof (check_list_length _ _ _ _ _ _ _ _ _ Hshape Hchk) as Hlen.
  apply bind_ret in H. destruct H as [[[ov es] multi] [Hs H]].
  apply bind_ret in Hs. destruct Hs as [es0 [Hse Hs]]. injection Hs as <- <- <-.
  apply slots_entries_length in Hse.
  apply bind_ret in H. destruct H as [[es' note] [Hcr H]]. injection H as <-.
  exists (replace_nl (if c_debug cfg
                      then append_sep match note with Some n => append_sep [] n | None => [] end log
                      else match note with Some n => append_sep [] n | None => [] end)).
  eexists. split; [reflexivity|]. rewrite map_length.
  destruct (c_sched cfg) as [sched|].
  - destruct (apply_credit sched (c_msgflag cfg) attempt es0) as [cr|] eqn:E; [|discriminate].
    injection Hcr as <- _. destruct attempt as [n|]; [|discriminate].
    rewrite (apply_credit_length _ _ _ _ _ E). lia.
  - injection Hcr as <- _. lia.
Qed.

(* ------------------------------------------------------------------------------------------------
   ... in input order: for an ordered ListGrader without grouping, entry i is the i-th subgrader's verdict on the
   i-th input against the i-th answer (formatted), whatever the other inputs are
   ------------------------------------------------------------------------------------------------ *)
Lemma collect_nth : forall {A} (l : list (out A)) rs i r,
  collect l = Ret rs -> nth_error rs i = Some r -> nth_error l i = Some (Ret r).
Proof.
  intros A l rs i r H. apply collect_ret in H. revert i. induction H as [|o r0 l rs Hor _ IH]; intros i Hi.
  - destruct i; discriminate.
  - destruct i as [|i]; simpl in *; [injection Hi as <-; rewrite Hor; reflexivity | apply IH; exact Hi].
Qed.

Lemma mapi_from_nth : forall {A B} (f : nat -> A -> B) l k i b,
  nth_error (mapi_from f k l) i = Some b -> exists a, nth_error l i = Some a /\ b = f (k + i)%nat a.
Proof.
  induction l as [|a l IH]; intros k i b H; simpl in H; [destruct i; discriminate|].
  destruct i as [|i]; simpl in H.
  - injection H as <-. exists a. split; [reflexivity | rewrite Nat.add_0_r; reflexivity].
  - destruct (IH _ _ _ H) as [a' [Ha' ->]]. exists a'. split; [exact Ha' | f_equal; lia].
Qed.

Lemma zip_nth : forall {A B} (a : list A) (b : list B) i x y,
  nth_error (zip a b) i = Some (x, y) -> nth_error a i = Some x /\ nth_error b i = Some y.
Proof.
  induction a as [|x0 a IH]; intros b i x y H; simpl in H; [destruct i; discriminate|].
  destruct b as [|y0 b]; [destruct i; discriminate|]. destruct i as [|i]; simpl in *.
  - injection H as <- <-. split; reflexivity.
  - apply IH. exact H.
Qed.

Definition fmt (e : entry) : entry := mkEntry (e_ok e) (e_grade e) (replace_nl (e_msg e)).

Lemma ordered_entries_in_input_order : forall f OR cfg c subs answers inputs attempt log ov l,
  l_ordered c = true -> l_grouping c = [] -> l_partial c = true -> c_sched cfg = None ->
  call (S f) OR cfg (GList c subs) (AList [answers]) (IList inputs) attempt log = Ret (EMulti ov l) ->
  forall i e, nth_error l i = Some e ->
    exists g a s d,
      nth_error (if l_single c then repeat (hd (GSum 0) subs) (length answers) else subs) i = Some g /\
      nth_error answers i = Some a /\ nth_error inputs i = Some s /\
      check OR f g a (IStr s) [i] = Ret (RShort d) /\ e = fmt (i_e d).
Proof.
  intros f OR cfg c subs answers inputs attempt log ov l Hord Hgrp Hpart Hsched H i e Hi.
  unfold call in H. simpl negb in H. cbv iota in H.
  apply bind_ret in H. destruct H as [r0 [Hchk H]].
  simpl in Hchk. rewrite Hpart in Hchk.
  apply bind_ret in Hchk. destruct Hchk as [results [Hres Hchk]].
  apply bind_ret in Hchk. destruct Hchk as [sl [Hch Hchk]]. apply bind_ret in Hchk. destruct Hchk as [sl' [Hz Hchk]].
  injection Hz as <-. injection Hchk as <-.
  (* one answer list: results = [slots] *)
  simpl in Hres. apply bind_ret in Hres. destruct Hres as [slots [Hpc Hres]]. injection Hres as <-.
  simpl in Hch. injection Hch as <-.
  unfold perform_check in Hpc. rewrite Hgrp in Hpc.
  destruct (negb (length answers =? length inputs)%nat); [discriminate|]. simpl in Hpc.
  apply bind_ret in Hpc. destruct Hpc as [rs [Hrs Hpc]]. injection Hpc as <-.
  unfold run_groups in Hrs. rewrite Hord in Hrs. simpl in Hrs.
  (* strip / credit / format *)
  apply bind_ret in H. destruct H as [[[ov0 es] multi] [Hs H]].
  apply bind_ret in Hs. destruct Hs as [es0 [Hse Hs]]. injection Hs as <- <- <-.
  rewrite Hsched in H. simpl in H. injection H as _ <-.
  rewrite nth_error_map in Hi. destruct (nth_error es0 i) as [e0|] eqn:Ee0; [|discriminate]. injection Hi as <-.
  unfold slots_entries in Hse. pose proof (collect_nth _ _ _ _ Hse Ee0) as Hn.
  rewrite nth_error_map in Hn. destruct (nth_error (map _ rs) i) as [sl|] eqn:Esl; [|discriminate].
  rewrite nth_error_map in Esl. destruct (nth_error rs i) as [ri|] eqn:Eri; [|discriminate].
  injection Esl as <-. simpl in Hn. destruct ri as [d|]; [|discriminate]. injection Hn as <-.
  pose proof (collect_nth _ _ _ _ Hrs Eri) as Hc.
  destruct (mapi_from_nth _ _ _ _ _ Hc) as [[g [a x]] [Ht Hcall]]. simpl in Hcall.
  apply zip_nth in Ht. destruct Ht as [Hg Ht]. apply zip_nth in Ht. destruct Ht as [Ha Hx].
  rewrite nth_error_map in Hx. destruct (nth_error inputs i) as [s|] eqn:Es; [|discriminate]. injection Hx as <-.
  exists g, a, s, d. repeat split; try assumption; try reflexivity. symmetry. exact Hcall.
Qed.

(* ------------------------------------------------------------------------------------------------
   the property's wording, entry by entry
   ------------------------------------------------------------------------------------------------ *)
Definition entries_of (r : edx) : list entry := match r with ESingle e => [e] | EMulti _ l => l end.

Lemma wf_edx_entries : forall S r, wf_edx S r <-> Forall (wf_entry S) (entries_of r).
Proof.
  intros S r. destruct r as [e|ov l]; simpl; [|tauto].
  split; [intro H; constructor; [exact H | constructor] | intro H; inversion H; assumption].
Qed.

(* no pinned ok anywhere: ok is True exactly when the grade is 1, False exactly when it is 0, 'partial' otherwise *)
Definition consistent (e : entry) : Prop :=
  0 <= e_grade e <= 1 /\
  (e_ok e = OkTrue <-> e_grade e == 1) /\ (e_ok e = OkFalse <-> e_grade e == 0) /\
  (e_ok e = OkPartial <-> (~ e_grade e == 0 /\ ~ e_grade e == 1)).

Lemma wf_unpinned_consistent : forall e, wf_entry (fun _ => False) e -> consistent e.
Proof.
  intros e [Hg [Hok | [_ []]]]. unfold consistent. rewrite Hok. split; [exact Hg|].
  split; [apply grade_to_ok_true_iff|]. split; [apply grade_to_ok_false_iff | apply grade_to_ok_partial_iff].
Qed.

(* with pins: a disagreement between ok and grade can only be an author pin, and only at full credit *)
Lemma wf_pinned_only_at_full_credit : forall S e, wf_entry S e ->
  e_ok e <> grade_to_ok (e_grade e) -> e_grade e == 1 /\ S (e_ok e).
Proof. intros S e [_ [H | H]] Hne; [contradiction | exact H]. Qed.
