(* Proofs/ListGraderGroup.v -- C05, part 1: all_some, create_grouping_map, groupify_list / ungroupify_list.
   Everything here is proved outright for lists of any length. *)
From Coq Require Import ZArith QArith List Bool Arith Lia Permutation.
From Verif.Model Require Import Result ListGrader.
Import ListNotations.
Close Scope Q_scope.
Open Scope nat_scope.

(* ---------- all_some ---------- *)
Lemma all_some_Forall2 : forall {T} (l : list (option T)) r,
  all_some l = Some r <-> Forall2 (fun o x => o = Some x) l r.
Proof.
  induction l as [|o l IH]; intros r; simpl.
  - split; intro H.
    + inversion H; subst. constructor.
    + inversion H; subst. reflexivity.
  - destruct o as [x|].
    + destruct (all_some l) as [r'|] eqn:E.
      * split; intro H.
        -- inversion H; subst. constructor; [reflexivity | apply IH; reflexivity].
        -- inversion H as [|? y ? r2 Hx Hr]; subst. inversion Hx; subst.
           apply IH in Hr. inversion Hr; subst. reflexivity.
      * split; intro H; [discriminate|].
        inversion H as [|? y ? r2 Hx Hr]; subst. apply IH in Hr. discriminate.
    + split; intro H; [discriminate|]. inversion H as [|? y ? r2 Hx Hr]; subst. discriminate.
Qed.

Lemma Forall2_len : forall {A B} (P : A -> B -> Prop) l r, Forall2 P l r -> length l = length r.
Proof. intros A B P l r H. induction H; simpl; congruence. Qed.

Lemma all_some_length : forall {T} (l : list (option T)) r, all_some l = Some r -> length r = length l.
Proof. intros T l r H. apply all_some_Forall2 in H. symmetry. eapply Forall2_len; eauto. Qed.

Lemma Forall2_nth_error_l : forall {A B} (P : A -> B -> Prop) l r i a,
  Forall2 P l r -> nth_error l i = Some a -> exists b, nth_error r i = Some b /\ P a b.
Proof.
  intros A B P l r i a H. revert i. induction H; intros [|i] Hi; simpl in *; try discriminate.
  - inversion Hi; subst. eauto.
  - eauto.
Qed.

Lemma Forall2_nth_error_r : forall {A B} (P : A -> B -> Prop) l r i b,
  Forall2 P l r -> nth_error r i = Some b -> exists a, nth_error l i = Some a /\ P a b.
Proof.
  intros A B P l r i b H. revert i. induction H; intros [|i] Hi; simpl in *; try discriminate.
  - inversion Hi; subst. eauto.
  - eauto.
Qed.

Lemma all_some_nth_error : forall {T} (l : list (option T)) r i x,
  all_some l = Some r -> (nth_error r i = Some x <-> nth_error l i = Some (Some x)).
Proof.
  intros T l r i x H. apply all_some_Forall2 in H. split; intro Hi.
  - destruct (Forall2_nth_error_r _ _ _ _ _ H Hi) as [a [Ha Hp]]. subst. exact Ha.
  - destruct (Forall2_nth_error_l _ _ _ _ _ H Hi) as [b [Hb Hp]]. inversion Hp; subst. exact Hb.
Qed.

Lemma all_some_map_Some : forall {T} (l : list T), all_some (map Some l) = Some l.
Proof. induction l; simpl; [reflexivity | rewrite IHl; reflexivity]. Qed.

Lemma all_some_map : forall {S T} (f : S -> option T) (g : S -> T) l,
  (forall x, In x l -> f x = Some (g x)) -> all_some (map f l) = Some (map g l).
Proof.
  induction l as [|x l IH]; intro H; simpl; [reflexivity|].
  rewrite (H x (or_introl eq_refl)). rewrite IH; [reflexivity|]. intros y Hy. apply H. right. exact Hy.
Qed.

Lemma all_some_total : forall {T} (l : list (option T)),
  (forall o, In o l -> o <> None) -> exists r, all_some l = Some r.
Proof.
  induction l as [|o l IH]; intro H; simpl; [eauto|].
  destruct o as [x|]; [| exfalso; apply (H None); [left; reflexivity | reflexivity]].
  destruct IH as [r Hr]; [intros o Ho; apply H; right; exact Ho|]. rewrite Hr. eauto.
Qed.

Lemma all_some_None_in : forall {T} (l : list (option T)), In None l -> all_some l = None.
Proof.
  induction l as [|o l IH]; intro H; simpl; [contradiction|].
  destruct o; [| reflexivity]. destruct H as [H|H]; [discriminate|]. rewrite IH; auto.
Qed.

(* ---------- lg_upd ---------- *)
Lemma lg_upd_length : forall {T} (l : list T) i v, length (lg_upd l i v) = length l.
Proof. induction l; intros [|i] v; simpl; auto. Qed.

Lemma lg_upd_same : forall {T} (l : list T) i v, i < length l -> nth_error (lg_upd l i v) i = Some v.
Proof. induction l; intros [|i] v H; simpl in *; try lia; auto. apply IHl. lia. Qed.

Lemma lg_upd_other : forall {T} (l : list T) i j v, i <> j -> nth_error (lg_upd l i v) j = nth_error l j.
Proof. induction l; intros [|i] [|j] v H; simpl; auto; try congruence. Qed.

(* ---------- scatter ---------- *)
Section Scatter.
  Variable T : Type.

  Lemma scatter_length : forall (kvs : list (nat * T)) s, length (scatter kvs s) = length s.
  Proof. induction kvs as [|[i e] r IH]; intro s; simpl; [reflexivity|]. rewrite IH. apply lg_upd_length. Qed.

  Lemma scatter_other : forall (kvs : list (nat * T)) s j,
    ~ In j (map fst kvs) -> nth_error (scatter kvs s) j = nth_error s j.
  Proof.
    induction kvs as [|[i e] r IH]; intros s j H; simpl in *; [reflexivity|].
    rewrite IH by tauto. apply lg_upd_other. tauto.
  Qed.

  Lemma scatter_lookup : forall (kvs : list (nat * T)) s i e,
    NoDup (map fst kvs) -> In (i, e) kvs -> i < length s -> nth_error (scatter kvs s) i = Some (Some e).
  Proof.
    induction kvs as [|[i0 e0] r IH]; intros s i e ND Hin Hlt; simpl in *; [contradiction|].
    inversion ND as [|? ? Hni ND']; subst.
    destruct Hin as [Heq|Hin].
    - inversion Heq; subst. rewrite scatter_other by exact Hni. apply lg_upd_same. exact Hlt.
    - apply IH; [exact ND' | exact Hin | rewrite lg_upd_length; exact Hlt].
  Qed.
End Scatter.

(* ---------- create_grouping_map ---------- *)
Lemma positions_from_In : forall g l i j,
  In j (positions_from g l i) <-> exists k, j = i + k /\ nth_error l k = Some g.
Proof.
  intros g l. induction l as [|y r IH]; intros i j; simpl.
  - split; [contradiction | intros [k [_ H]]; destruct k; discriminate].
  - destruct (Nat.eqb_spec y g) as [E|NE].
    + simpl. rewrite IH. split.
      * intros [H|[k [H1 H2]]].
        -- exists 0. split; [lia | simpl; congruence].
        -- exists (S k). split; [lia | exact H2].
      * intros [[|k] [H1 H2]]; [left; lia | right; exists k; split; [lia | exact H2]].
    + rewrite IH. split.
      * intros [k [H1 H2]]. exists (S k). split; [lia | exact H2].
      * intros [[|k] [H1 H2]]; [simpl in H2; congruence | exists k; split; [lia | exact H2]].
Qed.

Lemma positions_from_ge : forall g l i j, In j (positions_from g l i) -> i <= j.
Proof. intros g l i j H. apply positions_from_In in H. destruct H as [k [H _]]. lia. Qed.

Lemma positions_from_NoDup : forall g l i, NoDup (positions_from g l i).
Proof.
  intros g l. induction l as [|y r IH]; intro i; simpl; [constructor|].
  destruct (Nat.eqb y g); [| apply IH].
  constructor; [| apply IH]. intro H. apply positions_from_ge in H. lia.
Qed.

(* membership in the groups *)
Definition in_group (grouping : list nat) (t j : nat) : Prop := nth_error grouping j = Some (S t).

Lemma group_map_length : forall grouping, length (group_map grouping) = list_max grouping.
Proof. intro. unfold group_map. rewrite map_length, seq_length. reflexivity. Qed.

Lemma group_map_nth : forall grouping t, t < list_max grouping ->
  nth_error (group_map grouping) t = Some (positions_from (S t) grouping 0).
Proof.
  intros grouping t H. unfold group_map.
  rewrite nth_error_map. rewrite nth_error_nth' with (d := 0) by (rewrite seq_length; exact H).
  rewrite seq_nth by exact H. reflexivity.
Qed.

Lemma group_map_In : forall grouping t grp j,
  nth_error (group_map grouping) t = Some grp -> (In j grp <-> in_group grouping t j).
Proof.
  intros grouping t grp j H.
  assert (Ht : t < list_max grouping).
  { rewrite <- group_map_length. apply nth_error_Some. congruence. }
  rewrite group_map_nth in H by exact Ht. inversion H; subst.
  rewrite positions_from_In. unfold in_group. split.
  - intros [k [H1 H2]]. simpl in H1. subst. exact H2.
  - intro H2. exists j. split; [reflexivity | exact H2].
Qed.

Lemma NoDup_app_intro : forall {A} (l1 l2 : list A),
  NoDup l1 -> NoDup l2 -> (forall x, In x l1 -> ~ In x l2) -> NoDup (l1 ++ l2).
Proof.
  induction l1 as [|a l1 IH]; intros l2 H1 H2 Hd; simpl; [exact H2|].
  inversion H1; subst. constructor.
  - rewrite in_app_iff. intros [H|H]; [contradiction | apply (Hd a); [left; reflexivity | exact H]].
  - apply IH; auto. intros x Hx. apply Hd. right. exact Hx.
Qed.

Lemma NoDup_app_remove_l : forall {A} (l1 l2 : list A), NoDup (l1 ++ l2) -> NoDup l2.
Proof. induction l1 as [|a l1 IH]; intros l2 H; simpl in *; [exact H|]. inversion H; subst. auto. Qed.

Lemma NoDup_app_remove_r : forall {A} (l1 l2 : list A), NoDup (l1 ++ l2) -> NoDup l1.
Proof.
  induction l1 as [|a l1 IH]; intros l2 H; simpl in *; [constructor|].
  inversion H as [|? ? Hnin ND]; subst. constructor; [| eapply IH; eauto].
  intro Hc. apply Hnin. apply in_app_iff. left. exact Hc.
Qed.

Lemma NoDup_app_disjoint : forall {A} (l1 l2 : list A) x, NoDup (l1 ++ l2) -> In x l1 -> In x l2 -> False.
Proof.
  induction l1 as [|a l1 IH]; intros l2 x ND H1 H2; simpl in *; [contradiction|].
  inversion ND as [|? ? Hnin ND']; subst. destruct H1 as [->|H1].
  - apply Hnin. apply in_app_iff. right. exact H2.
  - eapply IH; eauto.
Qed.

Lemma NoDup_concat_map : forall {A B} (f : A -> list B) (gs : list A),
  NoDup gs -> (forall g, In g gs -> NoDup (f g)) ->
  (forall g g' x, In g gs -> In g' gs -> g <> g' -> In x (f g) -> ~ In x (f g')) ->
  NoDup (concat (map f gs)).
Proof.
  induction gs as [|g gs IH]; intros ND Hf Hd; simpl; [constructor|].
  inversion ND as [|? ? Hnin NDgs]; subst. apply NoDup_app_intro.
  - apply Hf. left. reflexivity.
  - apply IH; auto.
    + intros g' Hg'. apply Hf. right. exact Hg'.
    + intros g1 g2 x Hi1 Hi2. apply Hd; right; assumption.
  - intros x Hx Hc. apply in_concat in Hc. destruct Hc as [l [Hl Hxl]].
    apply in_map_iff in Hl. destruct Hl as [g' [Hg' Hin]]. subst.
    apply (Hd g g' x); [left; reflexivity | right; exact Hin | intro; subst; contradiction | exact Hx | exact Hxl].
Qed.

Lemma group_map_concat_NoDup : forall grouping, NoDup (concat (group_map grouping)).
Proof.
  intro grouping. unfold group_map. apply NoDup_concat_map.
  - apply seq_NoDup.
  - intros g _. apply positions_from_NoDup.
  - intros g g' x _ _ Hne H1 H2.
    apply positions_from_In in H1. apply positions_from_In in H2.
    destruct H1 as [k [E1 N1]]. destruct H2 as [k' [E2 N2]]. simpl in *. subst. congruence.
Qed.

Lemma group_map_concat_In : forall grouping j,
  In j (concat (group_map grouping)) <-> exists t, t < list_max grouping /\ in_group grouping t j.
Proof.
  intros grouping j. rewrite in_concat. split.
  - intros [grp [Hg Hj]]. apply In_nth_error in Hg. destruct Hg as [t Ht].
    exists t. split.
    + rewrite <- group_map_length. apply nth_error_Some. congruence.
    + eapply group_map_In; eauto.
  - intros [t [Ht Hj]]. exists (positions_from (S t) grouping 0). split.
    + eapply nth_error_In. apply group_map_nth. exact Ht.
    + eapply group_map_In; [apply group_map_nth; exact Ht | exact Hj].
Qed.

(* the ConfigError test of create_grouping_map, as a proposition *)
Definition valid_grouping (grouping : list nat) : Prop :=
  grouping <> [] /\ Forall (fun g => 1 <= g) grouping
  /\ forall g, 1 <= g <= list_max grouping -> In g grouping.

Lemma valid_groupingb_spec : forall grouping,
  grouping <> [] -> (valid_groupingb grouping = true <-> valid_grouping grouping).
Proof.
  intros grouping Hne. unfold valid_groupingb, valid_grouping.
  rewrite andb_true_iff, !forallb_forall. split.
  - intros [H1 H2]. split; [exact Hne|]. split.
    + apply Forall_forall. intros g Hg. apply Nat.leb_le. apply H1. exact Hg.
    + intros g Hg. assert (Hs : In g (seq 1 (list_max grouping))) by (apply in_seq; lia).
      apply H2 in Hs. apply existsb_exists in Hs. destruct Hs as [x [Hx E]].
      apply Nat.eqb_eq in E. subst. exact Hx.
  - intros [_ [H1 H2]]. split.
    + intros g Hg. apply Nat.leb_le. rewrite Forall_forall in H1. apply H1. exact Hg.
    + intros g Hg. apply in_seq in Hg. apply existsb_exists. exists g. split; [apply H2; lia | apply Nat.eqb_refl].
Qed.

Lemma list_max_In_le : forall l x, In x l -> x <= list_max l.
Proof.
  intros l x H. pose proof (proj1 (list_max_le l (list_max l)) (le_n _)) as F.
  rewrite Forall_forall in F. apply F. exact H.
Qed.

Lemma list_max_attained : forall l, l <> [] -> In (list_max l) l.
Proof.
  induction l as [|a l IH]; intro H; [congruence|]. simpl.
  destruct l as [|b l'].
  - left. simpl. lia.
  - destruct (Nat.max_spec a (list_max (b :: l'))) as [[_ E]|[_ E]]; rewrite E.
    + right. apply IH. discriminate.
    + left. reflexivity.
Qed.

(* under a valid grouping every box belongs to exactly one group *)
Lemma valid_grouping_group_of : forall grouping j, valid_grouping grouping -> j < length grouping ->
  exists t, t < list_max grouping /\ in_group grouping t j.
Proof.
  intros grouping j [_ [Hpos _]] Hj.
  destruct (nth_error grouping j) as [g|] eqn:E; [| apply nth_error_None in E; lia].
  assert (Hin : In g grouping) by (eapply nth_error_In; eauto).
  rewrite Forall_forall in Hpos. pose proof (Hpos g Hin) as Hg. pose proof (list_max_In_le _ _ Hin) as Hm.
  exists (g - 1). split; [lia|]. unfold in_group. rewrite E. f_equal. lia.
Qed.

Lemma valid_grouping_groups_nonempty : forall grouping t grp, valid_grouping grouping ->
  nth_error (group_map grouping) t = Some grp -> grp <> [].
Proof.
  intros grouping t grp [_ [_ Hall]] H.
  assert (Ht : t < list_max grouping) by (rewrite <- group_map_length; apply nth_error_Some; congruence).
  assert (Hin : In (S t) grouping) by (apply Hall; lia).
  apply In_nth_error in Hin. destruct Hin as [j Hj].
  assert (In j grp) by (eapply group_map_In; eauto).
  intro; subst; contradiction.
Qed.

Lemma group_map_indices_lt : forall grouping j, In j (concat (group_map grouping)) -> j < length grouping.
Proof.
  intros grouping j H. apply group_map_concat_In in H. destruct H as [t [_ H]].
  apply nth_error_Some. unfold in_group in H. congruence.
Qed.

(* ungroupify's  max(index) + 1  is the number of boxes *)
Lemma valid_grouping_slots : forall grouping, valid_grouping grouping ->
  S (list_max (concat (group_map grouping))) = length grouping.
Proof.
  intros grouping V. pose proof V as [Hne _].
  assert (Hlen : 0 < length grouping) by (destruct grouping; [congruence | simpl; lia]).
  apply Nat.le_antisymm.
  - assert (H : list_max (concat (group_map grouping)) <= length grouping - 1); [| lia].
    apply list_max_le. apply Forall_forall. intros j Hj. apply group_map_indices_lt in Hj. lia.
  - assert (Hin : In (length grouping - 1) (concat (group_map grouping))).
    { apply group_map_concat_In. apply valid_grouping_group_of; [exact V | lia]. }
    apply list_max_In_le in Hin. lia.
Qed.

(* ---------- ungroupify_list ---------- *)
Definition entries_of {T} (r : ginput T) : list T := match r with GOne e => [e] | GMany es => es end.

Lemma combine_fst_firstn : forall {A B} (g : list A) (es : list B),
  map fst (combine g es) = firstn (length (combine g es)) g.
Proof. induction g as [|a g IH]; intros [|e es]; simpl; try reflexivity. f_equal. apply IH. Qed.

Lemma combine_In_nth : forall {A B} (g : list A) (es : list B) k i e,
  nth_error g k = Some i -> nth_error es k = Some e -> In (i, e) (combine g es).
Proof.
  induction g as [|a g IH]; intros [|x es] [|k] i e Hi He; simpl in *; try discriminate.
  - inversion Hi; inversion He; subst. left. reflexivity.
  - right. eapply IH; eauto.
Qed.

Lemma combine_key_short : forall {A B} (g : list A) (es : list B) k i,
  NoDup g -> nth_error g k = Some i -> nth_error es k = None -> ~ In i (map fst (combine g es)).
Proof.
  induction g as [|a g IH]; intros [|x es] [|k] i ND Hi He; simpl in *; try discriminate; try tauto.
  inversion ND as [|? ? Hnin ND']; subst. intros [Hc|Hc].
  - subst. apply nth_error_In in Hi. contradiction.
  - eapply IH; eauto.
Qed.

Lemma Some_inj : forall {A} (a b : A), Some a = Some b -> a = b.
Proof. intros A a b H. congruence. Qed.
Ltac unfold_gp H := cbv beta iota delta [group_pairs] in H.

Lemma group_pairs_keys : forall {T} grp (r : ginput T) ps,
  group_pairs grp r = Some ps -> map fst ps = firstn (length ps) grp /\ length ps <= length grp.
Proof.
  intros T grp r ps H. destruct grp as [|i [|i' grp']]; destruct r as [e|es]; unfold_gp H; try discriminate; apply Some_inj in H; subst ps;
    try (simpl; split; [reflexivity | lia]).
  split; [apply combine_fst_firstn | rewrite combine_length; lia].
Qed.

Lemma group_pairs_In : forall {T} grp (r : ginput T) ps k i e,
  group_pairs grp r = Some ps -> nth_error grp k = Some i -> nth_error (entries_of r) k = Some e -> In (i, e) ps.
Proof.
  intros T grp r ps k i e H Hi He.
  destruct grp as [|i0 [|i1 grp']]; destruct r as [e0|es]; unfold_gp H; try discriminate; apply Some_inj in H; subst ps.
  - destruct k; discriminate.
  - destruct k; discriminate.
  - destruct k as [|k]; simpl in *; [| destruct k; discriminate]. inversion Hi; inversion He; subst. left. reflexivity.
  - eapply combine_In_nth; eauto.
Qed.

(* a member of the group whose position lies beyond the group's result is not among the keys *)
Lemma group_pairs_short : forall {T} grp (r : ginput T) ps k i,
  NoDup grp -> group_pairs grp r = Some ps -> nth_error grp k = Some i -> nth_error (entries_of r) k = None ->
  ~ In i (map fst ps).
Proof.
  intros T grp r ps k i ND H Hi He.
  destruct grp as [|i0 [|i1 grp']]; destruct r as [e0|es]; unfold_gp H; try discriminate; apply Some_inj in H; subst ps.
  - destruct k; discriminate.
  - destruct k; discriminate.
  - destruct k as [|k]; simpl in *; [discriminate | destruct k; discriminate].
  - eapply combine_key_short; eauto.
Qed.

Lemma firstn_In : forall {A} n (l : list A) x, In x (firstn n l) -> In x l.
Proof.
  induction n; intros [|a l] x H; simpl in *; try contradiction.
  destruct H; [left; assumption | right; apply IHn; assumption].
Qed.

Lemma group_pairs_fst_in : forall {T} grp (r : ginput T) ps j,
  group_pairs grp r = Some ps -> In j (map fst ps) -> In j grp.
Proof.
  intros T grp r ps j H Hj. destruct (group_pairs_keys _ _ _ H) as [E _]. rewrite E in Hj.
  eapply firstn_In; eauto.
Qed.

Lemma firstn_NoDup : forall {A} n (l : list A), NoDup l -> NoDup (firstn n l).
Proof.
  induction n; intros [|a l] H; simpl; try constructor.
  - inversion H; subst. intro Hc. apply firstn_In in Hc. contradiction.
  - inversion H; subst. apply IHn. assumption.
Qed.

(* keys of all pairs: a sub-multiset of concat gm, without duplicates *)
Lemma pairs_keys_NoDup : forall {T} (gm : list (list nat)) (rs : list (ginput T)) pss,
  NoDup (concat gm) ->
  all_some (map (fun t => group_pairs (fst t) (snd t)) (combine gm rs)) = Some pss ->
  NoDup (map fst (concat pss)) /\ forall j, In j (map fst (concat pss)) -> In j (concat gm).
Proof.
  intros T gm. induction gm as [|grp gm IH]; intros rs pss ND H.
  - simpl in H. inversion H; subst. simpl. split; [constructor | contradiction].
  - destruct rs as [|r rs]; simpl in H.
    + inversion H; subst. simpl. split; [constructor | contradiction].
    + destruct (group_pairs grp r) as [ps|] eqn:Ep; [| discriminate].
      destruct (all_some _) as [pss'|] eqn:Er; [| discriminate]. inversion H; subst. clear H.
      simpl in ND. simpl. rewrite map_app.
      assert (ND1 : NoDup grp) by (eapply NoDup_app_remove_r; eauto).
      assert (ND2 : NoDup (concat gm)) by (eapply NoDup_app_remove_l; eauto).
      destruct (IH rs pss' ND2 Er) as [IH1 IH2].
      destruct (group_pairs_keys _ _ _ Ep) as [Ek _].
      split.
      * apply NoDup_app_intro.
        -- rewrite Ek. apply firstn_NoDup. exact ND1.
        -- exact IH1.
        -- intros x Hx Hc. apply IH2 in Hc. eapply group_pairs_fst_in in Hx; eauto.
           eapply NoDup_app_disjoint; eauto.
      * intros j Hj. apply in_app_iff in Hj. apply in_app_iff. destruct Hj as [Hj|Hj].
        -- left. eapply group_pairs_fst_in; eauto.
        -- right. apply IH2. exact Hj.
Qed.

Lemma pairs_In : forall {T} (gm : list (list nat)) (rs : list (ginput T)) pss t grp r k i e,
  all_some (map (fun t => group_pairs (fst t) (snd t)) (combine gm rs)) = Some pss ->
  nth_error gm t = Some grp -> nth_error rs t = Some r ->
  nth_error grp k = Some i -> nth_error (entries_of r) k = Some e -> In (i, e) (concat pss).
Proof.
  intros T gm. induction gm as [|g gm IH]; intros rs pss t grp r k i e H Hg Hr Hi He.
  - destruct t; discriminate.
  - destruct rs as [|r0 rs]; [destruct t; discriminate|]. simpl in H.
    destruct (group_pairs g r0) as [ps|] eqn:Ep; [| discriminate].
    destruct (all_some _) as [pss'|] eqn:Er; [| discriminate]. inversion H; subst. clear H.
    simpl. apply in_app_iff. destruct t as [|t]; simpl in *.
    + inversion Hg; inversion Hr; subst. left. eapply group_pairs_In; eauto.
    + right. eapply IH; eauto.
Qed.

Lemma pairs_not_key : forall {T} (gm : list (list nat)) (rs : list (ginput T)) pss t grp r k i,
  NoDup (concat gm) ->
  all_some (map (fun t => group_pairs (fst t) (snd t)) (combine gm rs)) = Some pss ->
  nth_error gm t = Some grp -> nth_error rs t = Some r ->
  nth_error grp k = Some i -> nth_error (entries_of r) k = None -> ~ In i (map fst (concat pss)).
Proof.
  intros T gm. induction gm as [|g gm IH]; intros rs pss t grp r k i NDg Ep Hg Hr Hi He Hc;
    [destruct t; discriminate|].
  destruct rs as [|r0 rs]; [destruct t; discriminate|]. simpl in Ep.
  destruct (group_pairs g r0) as [ps|] eqn:Eps; [| discriminate].
  destruct (all_some _) as [pss'|] eqn:Er; [| discriminate].
  apply Some_inj in Ep. subst pss.
  simpl in Hc. rewrite map_app in Hc. apply in_app_iff in Hc. simpl in NDg.
  assert (ND1 : NoDup g) by (eapply NoDup_app_remove_r; eauto).
  assert (ND2 : NoDup (concat gm)) by (eapply NoDup_app_remove_l; eauto).
  destruct (pairs_keys_NoDup _ _ _ ND2 Er) as [_ Hs].
  destruct t as [|t]; simpl in Hg, Hr.
  - apply Some_inj in Hg. apply Some_inj in Hr. subst g r0. destruct Hc as [Hc|Hc].
    + exact (group_pairs_short _ _ _ _ _ ND1 Eps Hi He Hc).
    + apply Hs in Hc. apply nth_error_In in Hi. eapply NoDup_app_disjoint; eauto.
  - destruct Hc as [Hc|Hc].
    + eapply group_pairs_fst_in in Hc; eauto.
      assert (Hi' : In i (concat gm)).
      { apply in_concat. exists grp. split; [eapply nth_error_In; eauto | eapply nth_error_In; eauto]. }
      eapply NoDup_app_disjoint; eauto.
    + eapply (IH rs pss' t grp r k i); eauto.
Qed.

(* results_follow_boxes: whenever ungroupify returns, it returns one entry per box, and the k-th entry of the
   result of group t sits at the box that is the k-th member of group t *)
Theorem ungroupify_follows_boxes : forall {T} grouping (rs : list (ginput T)) es,
  valid_grouping grouping ->
  ungroupify (group_map grouping) rs = Some es ->
  length es = length grouping /\
  forall t grp r k i, nth_error (group_map grouping) t = Some grp -> nth_error rs t = Some r ->
    nth_error grp k = Some i ->
    exists e, nth_error (entries_of r) k = Some e /\ nth_error es i = Some e.
Proof.
  intros T grouping rs es V H. unfold ungroupify in H.
  destruct (all_some (map _ (combine (group_map grouping) rs))) as [pss|] eqn:Ep; [| discriminate].
  rewrite (valid_grouping_slots _ V) in H.
  pose proof (all_some_length _ _ H) as Hlen. rewrite scatter_length, repeat_length in Hlen.
  split; [exact Hlen|].
  destruct (pairs_keys_NoDup _ _ _ (group_map_concat_NoDup grouping) Ep) as [ND Hsub].
  intros t grp r k i Hg Hr Hi.
  assert (Hin : In i (concat (group_map grouping))).
  { apply in_concat. exists grp. split; [eapply nth_error_In; eauto | eapply nth_error_In; eauto]. }
  assert (Hlt : i < length grouping) by (apply group_map_indices_lt; exact Hin).
  destruct (nth_error (entries_of r) k) as [e|] eqn:He.
  - exists e. split; [reflexivity|].
    apply (all_some_nth_error _ _ i e H).
    apply scatter_lookup; [exact ND | eapply pairs_In; eauto | rewrite repeat_length; exact Hlt].
  - (* the group result is too short: box i is never written, so all_some fails *)
    exfalso.
    assert (Hn : nth_error (scatter (concat pss) (repeat None (length grouping))) i = Some None).
    { rewrite scatter_other.
      - apply nth_error_repeat. exact Hlt.
      - eapply pairs_not_key; eauto. apply group_map_concat_NoDup. }
    assert (Hnone : In None (scatter (concat pss) (repeat None (length grouping)))) by (eapply nth_error_In; eauto).
    apply all_some_None_in in Hnone. congruence.
Qed.

(* ---------- ungroupify_list (groupify_list l) = l ---------- *)
Lemma nth_error_ext_eq : forall {A} (a b : list A), (forall j, nth_error a j = nth_error b j) -> a = b.
Proof.
  induction a as [|x a IH]; intros [|y b] H.
  - reflexivity.
  - specialize (H 0). discriminate.
  - specialize (H 0). discriminate.
  - pose proof (H 0) as H0. simpl in H0. apply Some_inj in H0. subst. f_equal.
    apply IH. intro j. exact (H (S j)).
Qed.

Lemma combine_map_self : forall {A B} (f : A -> B) (g : list A),
  combine g (map f g) = map (fun i => (i, f i)) g.
Proof. induction g as [|a g IH]; simpl; [reflexivity | rewrite IH; reflexivity]. Qed.

Lemma group_pairs_groupify : forall {T} (d : T) (l : list T) grp,
  group_pairs grp (match grp with [i] => GOne (nth i l d) | _ => GMany (map (fun i => nth i l d) grp) end)
  = Some (map (fun i => (i, nth i l d)) grp).
Proof.
  intros T d l grp. destruct grp as [|i [|i' grp']]; cbv beta iota delta [group_pairs]; try reflexivity.
  rewrite combine_map_self. reflexivity.
Qed.

Lemma pairs_groupify : forall {T} (d : T) (l : list T) gm,
  all_some (map (fun t => group_pairs (fst t) (snd t)) (combine gm (groupify d gm l)))
  = Some (map (fun grp => map (fun i => (i, nth i l d)) grp) gm).
Proof.
  intros T d l gm. unfold groupify. induction gm as [|grp gm IH]; [reflexivity|].
  cbn [map combine fst snd all_some]. rewrite group_pairs_groupify. rewrite IH. reflexivity.
Qed.

Lemma concat_map_map_fst : forall {T} (f : nat -> T) gm,
  map fst (concat (map (fun grp => map (fun i => (i, f i)) grp) gm)) = concat gm.
Proof.
  intros T f gm. induction gm as [|grp gm IH]; simpl; [reflexivity|].
  rewrite map_app, IH. f_equal. rewrite map_map. simpl. apply map_id.
Qed.

Theorem ungroup_group_id : forall {T} (d : T) grouping (l : list T),
  valid_grouping grouping -> length l = length grouping ->
  ungroupify (group_map grouping) (groupify d (group_map grouping) l) = Some l.
Proof.
  intros T d grouping l V Hlen. unfold ungroupify. rewrite pairs_groupify.
  rewrite (valid_grouping_slots _ V).
  set (pss := map (fun grp => map (fun i => (i, nth i l d)) grp) (group_map grouping)).
  assert (Hs : scatter (concat pss) (repeat None (length grouping)) = map Some l).
  { apply nth_error_ext_eq. intro j. destruct (Nat.lt_ge_cases j (length grouping)) as [Hj|Hj].
    - rewrite nth_error_map. rewrite (nth_error_nth' l d) by lia. simpl.
      apply scatter_lookup.
      + unfold pss. rewrite concat_map_map_fst. apply group_map_concat_NoDup.
      + destruct (valid_grouping_group_of _ _ V Hj) as [t [Ht Hin]].
        unfold pss. apply in_concat. exists (map (fun i => (i, nth i l d)) (positions_from (S t) grouping 0)). split.
        * apply in_map_iff. exists (positions_from (S t) grouping 0). split; [reflexivity|].
          eapply nth_error_In. apply group_map_nth. exact Ht.
        * apply in_map_iff. exists j. split; [reflexivity|].
          eapply group_map_In; [apply group_map_nth; exact Ht | exact Hin].
      + rewrite repeat_length. exact Hj.
    - assert (E1 : nth_error (scatter (concat pss) (repeat None (length grouping))) j = None)
        by (apply nth_error_None; rewrite scatter_length, repeat_length; exact Hj).
      assert (E2 : nth_error (map Some l) j = None) by (apply nth_error_None; rewrite map_length; lia).
      congruence. }
  rewrite Hs. apply all_some_map_Some.
Qed.

(* the grouped inputs are the inputs of the group, in the order of the boxes *)
Lemma groupify_nth : forall {T} (d : T) gm (l : list T) t grp,
  nth_error gm t = Some grp ->
  exists gi, nth_error (groupify d gm l) t = Some gi /\ entries_of gi = map (fun i => nth i l d) grp.
Proof.
  intros T d gm l t grp H. unfold groupify. rewrite nth_error_map, H. simpl.
  eexists. split; [reflexivity|]. destruct grp as [|i [|i' grp']]; reflexivity.
Qed.

Lemma groupify_length : forall {T} (d : T) gm (l : list T), length (groupify d gm l) = length gm.
Proof. intros. unfold groupify. apply map_length. Qed.

Theorem groups_partition : forall grouping, valid_grouping grouping ->
  NoDup (concat (group_map grouping))
  /\ (forall j, j < length grouping -> In j (concat (group_map grouping)))
  /\ (forall j, In j (concat (group_map grouping)) -> j < length grouping).
Proof.
  intros grouping V. split; [apply group_map_concat_NoDup|]. split.
  - intros j Hj. apply group_map_concat_In. apply valid_grouping_group_of; assumption.
  - apply group_map_indices_lt.
Qed.

(* ---------- the reported entries are a rearrangement of the groups' entries ---------- *)
Lemma map_nth_seq : forall {A} (l : list A) d, map (fun i => nth i l d) (seq 0 (length l)) = l.
Proof.
  induction l as [|a l IH]; intro d; simpl; [reflexivity|].
  f_equal. rewrite <- seq_shift, map_map. simpl. apply IH.
Qed.

Lemma Forall2_from_nth : forall {A B} (P : A -> B -> Prop) (a : list A) (b : list B),
  length a = length b ->
  (forall t x y, nth_error a t = Some x -> nth_error b t = Some y -> P x y) -> Forall2 P a b.
Proof.
  induction a as [|x a IH]; intros [|y b] L H; simpl in L; try discriminate; constructor.
  - apply (H 0); reflexivity.
  - apply IH; [lia|]. intros t x' y' Hx Hy. apply (H (S t)); assumption.
Qed.

Theorem ungroupify_permutation : forall {T} grouping (rs : list (ginput T)) es,
  valid_grouping grouping ->
  ungroupify (group_map grouping) rs = Some es ->
  length rs = length (group_map grouping) ->
  (forall t grp r, nth_error (group_map grouping) t = Some grp -> nth_error rs t = Some r ->
                   length (entries_of r) = length grp) ->
  Permutation es (concat (map entries_of rs)).
Proof.
  intros T grouping rs es V H Lrs Hsz.
  destruct (ungroupify_follows_boxes _ _ _ V H) as [Le Hb].
  destruct es as [|d es'] eqn:Ees.
  { destruct V as [Hne _]. destruct grouping; [congruence | simpl in Le; discriminate]. }
  rewrite <- Ees in *. clear Ees es'.
  set (box := fun i => nth i es d).
  destruct (groups_partition _ V) as [ND [Hcov Hlt]].
  assert (P1 : Permutation (seq 0 (length grouping)) (concat (group_map grouping))).
  { apply NoDup_Permutation; [apply seq_NoDup | exact ND |]. intro j. rewrite in_seq. split.
    - intros [_ Hj]. apply Hcov. exact Hj.
    - intro Hj. apply Hlt in Hj. lia. }
  assert (E1 : es = map box (seq 0 (length grouping))) by (rewrite <- Le; symmetry; apply map_nth_seq).
  assert (E2 : map (map box) (group_map grouping) = map entries_of rs).
  { assert (F : Forall2 (fun grp r => map box grp = entries_of r) (group_map grouping) rs).
    { apply Forall2_from_nth; [symmetry; exact Lrs|]. intros t grp r Hg Hr.
      apply nth_error_ext_eq. intro k. rewrite nth_error_map.
      destruct (nth_error grp k) as [i|] eqn:Ei; simpl.
      - destruct (Hb t grp r k i Hg Hr Ei) as [e [He1 He2]]. rewrite He1. f_equal. unfold box.
        apply nth_error_nth. exact He2.
      - symmetry. apply nth_error_None. rewrite (Hsz t grp r Hg Hr). apply nth_error_None. exact Ei. }
    clear -F. induction F; simpl; [reflexivity | f_equal; assumption]. }
  rewrite E1 at 1. rewrite <- E2, <- concat_map. apply Permutation_map. exact P1.
Qed.
