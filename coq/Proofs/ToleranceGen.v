(* Proofs/ToleranceGen.v -- the C04 statements on the definitions REGENERATED from the source (Gen/Tolerance.v),
   through the bridge, plus the closed examples of Props/C04.v *)
From Coq Require Import ZArith QArith Qabs Lia Lqa List Bool.
From Verif.Lib Require Import QRound.
From Verif.Model Require Import Result Tolerance.
From Verif.Gen Require Tolerance.
From Verif.Bridge Require Import Tolerance.
From Verif.Proofs Require Import Credit Tolerance.
Import ListNotations.
Open Scope Q_scope.

Definition gen_within := Gen.Tolerance.gen_within_tolerance.
Definition gen_consolidate := Gen.Tolerance.gen_consolidate_results.
(* FormulaGrader.raw_check after evaluation, assembled from the regenerated pieces *)
Definition gen_raw_check := raw_check_with gen_within gen_consolidate.

Lemma gen_raw_check_model : forall t f a evs, gen_raw_check t f a evs = raw_check t f a evs.
Proof.
  intros. unfold gen_raw_check, raw_check. apply raw_check_with_ext.
  - intros. apply within_tolerance_bridge.
  - intros. apply consolidate_bridge.
Qed.

Lemma gen_sample_oks : forall t evs,
  sample_oks (fun x y => gen_within x y t) evs = sample_oks (fun x y => within_tolerance x y t) evs.
Proof.
  intros t evs. induction evs as [|[ps s] r IH]; simpl; [reflexivity|].
  rewrite IH. destruct ps; simpl; [reflexivity|]. unfold gen_within. rewrite within_tolerance_bridge. reflexivity.
Qed.

(* ---- the tolerance decision ---- *)
Lemma c04_within_abs : forall x y d t, 0 <= t -> v_finite x = true -> v_finite y = true -> v_sub x y = Some d ->
  exists b, gen_within x y (t_abs t) = Some b /\ (b = true <-> v_norm2 d <= t * t).
Proof.
  intros x y d t Ht Fx Fy Hd. eexists. split.
  - unfold gen_within. rewrite within_tolerance_bridge. apply (within_abs_spec x y d t Ht Fx Fy Hd).
  - apply Qle_bool_iff.
Qed.

Lemma c04_within_pct : forall x y d p, 0 <= p -> v_finite x = true -> v_finite y = true -> v_sub x y = Some d ->
  exists b, gen_within x y (XStr p) = Some b
            /\ (b = true <-> v_norm2 d <= (p / 100) * (p / 100) * v_norm2 x).
Proof.
  intros x y d p Hp Fx Fy Hd. eexists. split.
  - unfold gen_within. rewrite within_tolerance_bridge. apply (within_pct_spec x y d p Hp Fx Fy Hd).
  - rewrite Qle_bool_iff.
    setoid_replace (v_norm2 x * (p * p * ((1 # 100) * (1 # 100)))) with (p / 100 * (p / 100) * v_norm2 x) by field.
    reflexivity.
Qed.

Lemma c04_within_abs_real : forall e s t, 0 <= t ->
  exists b, gen_within (vreal e) (vreal s) (t_abs t) = Some b /\ (b = true <-> Qabs (e - s) <= t).
Proof. intros. unfold gen_within. rewrite within_tolerance_bridge. apply within_abs_real. assumption. Qed.

Lemma c04_within_pct_real : forall e s p, 0 <= p ->
  exists b, gen_within (vreal e) (vreal s) (XStr p) = Some b /\ (b = true <-> Qabs (e - s) <= (p / 100) * Qabs e).
Proof. intros. unfold gen_within. rewrite within_tolerance_bridge. apply within_pct_real. assumption. Qed.

Lemma c04_within_inf : forall x y t, v_is_number x = true -> v_finite x = false \/ v_finite y = false ->
  exists b, gen_within x y t = Some b /\ (b = true <-> exists p, x = VInf p /\ y = VInf p).
Proof.
  intros x y t Nx H. destruct (within_inf_spec x y t Nx H) as [E Hiff]. exists (v_eqb x y). split.
  - unfold gen_within. rewrite within_tolerance_bridge. exact E.
  - exact Hiff.
Qed.

Lemma c04_norm_on_squares : forall n2 T r, 0 <= T -> 0 <= r ->
  (r * r == n2 -> (n2 <= T * T <-> r <= T)) /\
  (r * r <= n2 -> n2 <= T * T -> r <= T) /\
  (n2 <= r * r -> r <= T -> n2 <= T * T).
Proof.
  intros n2 T r HT Hr. split; [ | split].
  - intro E. apply norm_exact; assumption.
  - intros. eapply norm_lower_bound; eassumption.
  - intros. eapply norm_upper_bound; eassumption.
Qed.

(* ---- counting ---- *)
Lemma c04_consolidate_counts : forall results answer failable, (0 <= failable)%Z ->
  (enough (zlen results) (zlen (fails results)) failable = true ->
     gen_consolidate results (Some answer) failable = answer) /\
  (enough (zlen results) (zlen (fails results)) failable = false ->
     exists r, In r (fails results) /\ gen_consolidate results (Some answer) failable = r).
Proof.
  intros results answer failable Hf. unfold gen_consolidate. rewrite consolidate_bridge.
  apply consolidate_spec. exact Hf.
Qed.

Lemma c04_verdict_iff_failures : forall t failable answer evs bs, (0 <= failable)%Z ->
  sample_oks (fun x y => gen_within x y t) evs = Some bs ->
  gen_raw_check t failable answer evs =
    Some (if enough (zlen evs) (nfail bs) failable then answer else fail_entry answer).
Proof.
  intros t failable answer evs bs Hf H. rewrite gen_raw_check_model. rewrite gen_sample_oks in H.
  apply verdict_iff_failures; assumption.
Qed.

Lemma c04_verdict_abs_real : forall t failable answer (l : list (Q * Q)), 0 <= t -> (0 <= failable)%Z ->
  gen_raw_check (t_abs t) failable answer (map real_sample l) =
    Some (if enough (zlen l) (misses_abs t l) failable then answer else fail_entry answer).
Proof. intros. rewrite gen_raw_check_model. apply verdict_abs_real; assumption. Qed.

Lemma c04_verdict_pct_real : forall p failable answer (l : list (Q * Q)), 0 <= p -> (0 <= failable)%Z ->
  gen_raw_check (XStr p) failable answer (map real_sample l) =
    Some (if enough (zlen l) (misses_pct p l) failable then answer else fail_entry answer).
Proof. intros. rewrite gen_raw_check_model. apply verdict_pct_real; assumption. Qed.

Lemma c04_identical_rewrite_full_credit : forall t failable answer evs, (0 <= failable)%Z -> tol_wf t ->
  Forall same_value evs -> gen_raw_check t failable answer evs = Some answer.
Proof. intros. rewrite gen_raw_check_model. apply identical_rewrite_full_credit; assumption. Qed.

Definition gen_off_sample (t : tolx) (ev : sample) : Prop :=
  equality_call (fun x y => gen_within x y t) (fst ev) (snd ev) = Some false.

Lemma gen_off_sample_model : forall t ev, gen_off_sample t ev -> off_sample t ev.
Proof.
  intros t [ps s] H. unfold gen_off_sample, off_sample in *. simpl in *. destruct ps; simpl in *; [exact H|].
  unfold gen_within in H. rewrite within_tolerance_bridge in H. exact H.
Qed.

Lemma c04_always_off_no_credit : forall t failable answer evs, (0 <= failable)%Z ->
  evs <> [] -> (zlen evs = 1%Z \/ (failable < zlen evs)%Z) -> Forall (gen_off_sample t) evs ->
  gen_raw_check t failable answer evs = Some (fail_entry answer) /\ e_grade (fail_entry answer) == 0.
Proof.
  intros t failable answer evs Hf Hne Hn H. rewrite gen_raw_check_model.
  apply always_off_no_credit; try assumption.
  eapply Forall_impl; [ | exact H]. intros ev. apply gen_off_sample_model.
Qed.

Lemma c04_budget_not_below_samples_accepts_all : forall t failable answer evs bs,
  (1 < zlen evs <= failable)%Z ->
  sample_oks (fun x y => gen_within x y t) evs = Some bs ->
  gen_raw_check t failable answer evs = Some answer.
Proof.
  intros t failable answer evs bs Hn H. rewrite gen_raw_check_model. rewrite gen_sample_oks in H.
  eapply budget_not_below_samples_accepts_all; eassumption.
Qed.

Lemma c04_verdict_general : forall t failable answer evs, tol_neg t = false -> (0 <= failable)%Z ->
  Forall finite_sample evs ->
  gen_raw_check t failable answer evs =
    Some (if enough (zlen evs) (misses t evs) failable then answer else fail_entry answer).
Proof. intros. rewrite gen_raw_check_model. apply verdict_general; assumption. Qed.

Lemma c04_verdict_total : forall t failable answer evs, (0 <= failable)%Z -> Forall well_shaped evs ->
  exists bs, sample_oks (fun x y => gen_within x y t) evs = Some bs /\ length bs = length evs /\
    gen_raw_check t failable answer evs =
      Some (if enough (zlen evs) (nfail bs) failable then answer else fail_entry answer).
Proof.
  intros t failable answer evs Hf H. destruct (verdict_total t failable answer evs Hf H) as [bs [H1 [H2 H3]]].
  exists bs. rewrite gen_sample_oks, gen_raw_check_model. repeat split; assumption.
Qed.

(* ---- closed examples (non-vacuity, reading notes) ---- *)
Definition q (n : Z) (d : positive) : Q := Qmake n d.
Definition arr22 (a b c d : Q) : value := VArr [2; 2]%Z [(a, 0); (b, 0); (c, 0); (d, 0)].

(* the docstring of within_tolerance *)
Lemma c04_ex_docstring :
  gen_within (vreal 10) (vreal (901 # 100)) (t_abs 1) = Some true /\
  gen_within (vreal 10) (vreal (901 # 100)) (t_abs (1 # 2)) = Some false /\
  gen_within (vreal 10) (vreal (901 # 100)) (XStr 10) = Some true /\
  gen_within (vreal (901 # 100)) (vreal 10) (XStr 10) = Some false /\
  gen_within (arr22 1 2 (-3) 1) (arr22 (11 # 10) 2 (-(28 # 10)) 1) (t_abs (1 # 4)) = Some true /\
  gen_within (arr22 1 2 (-3) 1) (arr22 (11 # 10) 2 (-(28 # 10)) 1) (t_abs (22 # 100)) = Some false /\
  gen_within (VInf true) (VInf true) (t_abs 0) = Some true /\
  gen_within (VInf false) (VInf false) (t_abs 0) = Some true /\
  gen_within (VInf true) (VInf false) (t_abs 0) = Some false /\
  gen_within (vreal 1) (VInf true) (XStr 100) = Some false /\
  gen_within (VInf true) (vreal 1) (XStr 100) = Some false.
Proof. vm_compute. repeat split. Qed.

(* the boundary itself is inside; Frobenius norm (diag(3,4) has norm 5, not 4) *)
Lemma c04_ex_boundary :
  gen_within (vreal 4) (vreal 6) (t_abs 2) = Some true /\
  gen_within (vreal 4) (vreal 6) (XStr 50) = Some true /\
  gen_within (vreal 6) (vreal 4) (XStr 50) = Some true /\
  gen_within (vreal 4) (vreal 2) (XStr 50) = Some true /\
  gen_within (vreal 2) (vreal 4) (XStr 50) = Some false /\
  gen_within (VNum (0, 0)) (VNum (3, 4)) (t_abs 5) = Some true /\
  gen_within (VNum (0, 0)) (VNum (3, 4)) (t_abs (49 # 10)) = Some false /\
  gen_within (arr22 0 0 0 0) (arr22 3 0 0 4) (t_abs 5) = Some true /\
  gen_within (arr22 0 0 0 0) (arr22 3 0 0 4) (t_abs (9 # 2)) = Some false /\
  gen_within (arr22 0 0 0 0) (VArr [4]%Z [(3, 0); (0, 0); (0, 0); (4, 0)]) (t_abs 5) = None.
Proof. vm_compute. repeat split. Qed.

Definition ans_half : entry := mkEntry OkPartial (1 # 2) [104; 105]%Z.
(* five samples, answer x*y+3 against x*y+3+(|x|-x): the student is off by 2|x| where x < 0 *)
Definition five : list (Q * Q) := [(5, 5); (-3, 1); (0, 0); (-5, 3); (23, 23)].

Lemma c04_ex_counting :
  gen_raw_check (t_abs 1) 0 ans_half (map real_sample five) = Some (mkEntry OkFalse (0 * (1 # 2)) []) /\
  gen_raw_check (t_abs 1) 1 ans_half (map real_sample five) = Some (mkEntry OkFalse (0 * (1 # 2)) []) /\
  gen_raw_check (t_abs 1) 2 ans_half (map real_sample five) = Some ans_half /\
  gen_raw_check (t_abs 8) 0 ans_half (map real_sample five) = Some ans_half /\
  (* a single sample tolerates no failure, whatever failable_evals says *)
  gen_raw_check (t_abs 1) 3 ans_half (map real_sample [(-3, 1)]) = Some (mkEntry OkFalse (0 * (1 # 2)) []) /\
  gen_raw_check (t_abs 1) 3 ans_half (map real_sample [(3, 3)]) = Some ans_half.
Proof. vm_compute. repeat split. Qed.

(* the corner the property's last sentence does not cover: failable_evals >= samples > 1 *)
Lemma c04_ex_all_off_credited_when_failable_ge_samples :
  gen_raw_check (t_abs 1) 2 ans_half (map real_sample [(1, 101); (2, 102)]) = Some ans_half /\
  gen_raw_check (t_abs 1) 1 ans_half (map real_sample [(1, 101); (2, 102)]) = Some (mkEntry OkFalse (0 * (1 # 2)) []).
Proof. vm_compute. repeat split. Qed.
