(* Proofs/ComparersLA.v -- linear algebra over Gaussian rationals for the comparers model (C16):
   the Gram-Schmidt residual `cres2 ws v` is the minimum of |v - p|^2 over the complex span of ws,
   it is attained, and the span is exactly the set of explicit complex linear combinations. *)
From Coq Require Import ZArith QArith Qabs Lia Lqa List Bool Setoid Morphisms.
From Verif.Lib Require Import QRound.
From Verif.Model Require Import Result Comparers.
From Verif.Proofs Require Import Credit.
Import ListNotations.
Open Scope Q_scope.

Arguments Qred : simpl never.

(* ---------- components (the model normalises with Qred) ---------- *)
Lemma fst_cadd z w : fst (cadd z w) == fst z + fst w. Proof. apply Qred_correct. Qed.
Lemma snd_cadd z w : snd (cadd z w) == snd z + snd w. Proof. apply Qred_correct. Qed.
Lemma fst_csub z w : fst (csub z w) == fst z - fst w. Proof. apply Qred_correct. Qed.
Lemma snd_csub z w : snd (csub z w) == snd z - snd w. Proof. apply Qred_correct. Qed.
Lemma fst_cmul z w : fst (cmul z w) == fst z * fst w - snd z * snd w. Proof. apply Qred_correct. Qed.
Lemma snd_cmul z w : snd (cmul z w) == fst z * snd w + snd z * fst w. Proof. apply Qred_correct. Qed.
Lemma fst_crs k z : fst (crs k z) == k * fst z. Proof. apply Qred_correct. Qed.
Lemma snd_crs k z : snd (crs k z) == k * snd z. Proof. apply Qred_correct. Qed.
Lemma cabs2_eq z : cabs2 z == fst z * fst z + snd z * snd z. Proof. apply Qred_correct. Qed.

(* ---------- the real inner product ---------- *)
Lemma rdot_nil_r a : rdot a [] = 0.
Proof. destruct a; reflexivity. Qed.

Lemma rdot_cons x a y b : rdot (x :: a) (y :: b) == fst x * fst y + snd x * snd y + rdot a b.
Proof. simpl. apply Qred_correct. Qed.

Lemma rdot_comm a b : rdot a b == rdot b a.
Proof.
  revert b. induction a as [|x a IH]; intros [|y b]; try reflexivity.
  rewrite !rdot_cons, IH. ring.
Qed.

Lemma rdot_vadd_l a b c : rdot (vadd a b) c == rdot a c + rdot b c.
Proof.
  revert b c. induction a as [|x a IH]; intros b c.
  - simpl. ring.
  - destruct b as [|y b].
    + simpl vadd. simpl (rdot [] c). ring.
    + destruct c as [|z c].
      * rewrite !rdot_nil_r. ring.
      * simpl vadd. rewrite !rdot_cons, IH, fst_cadd, snd_cadd. ring.
Qed.

Lemma rdot_vscale_l k a c : rdot (vscale k a) c == k * rdot a c.
Proof.
  revert c. induction a as [|x a IH]; intros c.
  - simpl. ring.
  - destruct c as [|z c].
    + rewrite !rdot_nil_r. ring.
    + unfold vscale in *. simpl map. rewrite !rdot_cons, IH, fst_crs, snd_crs. ring.
Qed.

Lemma rdot_vsub_l a b c : rdot (vsub a b) c == rdot a c - rdot b c.
Proof. unfold vsub. rewrite rdot_vadd_l, rdot_vscale_l. ring. Qed.

Lemma rdot_vadd_r a b c : rdot c (vadd a b) == rdot c a + rdot c b.
Proof. rewrite rdot_comm, rdot_vadd_l, (rdot_comm a c), (rdot_comm b c). reflexivity. Qed.
Lemma rdot_vscale_r k a c : rdot c (vscale k a) == k * rdot c a.
Proof. rewrite rdot_comm, rdot_vscale_l, (rdot_comm a c). reflexivity. Qed.
Lemma rdot_vsub_r a b c : rdot c (vsub a b) == rdot c a - rdot c b.
Proof. rewrite rdot_comm, rdot_vsub_l, (rdot_comm a c), (rdot_comm b c). reflexivity. Qed.

Lemma rdot_vJ_l a b : rdot (vJ a) b == - rdot a (vJ b).
Proof.
  revert b. induction a as [|x a IH]; intros [|y b]; try (simpl; ring).
  unfold vJ in *. simpl map. rewrite !rdot_cons, IH. simpl. ring.
Qed.

Lemma rdot_vJ_vJ a b : rdot (vJ a) (vJ b) == rdot a b.
Proof.
  revert b. induction a as [|x a IH]; intros [|y b]; try reflexivity.
  unfold vJ in *. simpl map. rewrite !rdot_cons, IH. simpl. ring.
Qed.

Lemma rdot_vJ_self a : rdot (vJ a) a == 0.
Proof.
  induction a as [|x a IH]; [reflexivity|].
  unfold vJ in *. simpl map. rewrite rdot_cons, IH. simpl. ring.
Qed.

Lemma rdot_vJ_r a b : rdot a (vJ b) == - rdot (vJ a) b.
Proof. rewrite rdot_vJ_l. ring. Qed.

Lemma norm2_nonneg a : 0 <= norm2 a.
Proof.
  unfold norm2. induction a as [|x a IH]; [simpl; lra|].
  rewrite rdot_cons. nra.
Qed.

Lemma norm2_vJ a : norm2 (vJ a) == norm2 a.
Proof. apply rdot_vJ_vJ. Qed.

Lemma rdot_cvscale_l c w x : rdot (cvscale c w) x == fst c * rdot w x + snd c * rdot (vJ w) x.
Proof.
  revert x. induction w as [|z w IH]; intros [|y x]; try (simpl; ring).
  unfold cvscale, vJ in *. simpl map. rewrite !rdot_cons, IH, fst_cmul, snd_cmul. simpl. ring.
Qed.

(* ---------- extensional equality of vectors (trailing zeros are immaterial) ---------- *)
Definition veq (a b : cvec) : Prop := forall c, rdot a c == rdot b c.

Lemma veq_app a b c : veq a b -> rdot a c == rdot b c.
Proof. intro H. exact (H c). Qed.

Lemma veq_refl a : veq a a. Proof. intro c. reflexivity. Qed.
Lemma veq_sym a b : veq a b -> veq b a. Proof. intros H c. symmetry. apply H. Qed.
Lemma veq_trans a b c : veq a b -> veq b c -> veq a c.
Proof. intros H1 H2 x. rewrite (veq_app _ _ x H1). apply H2. Qed.

Add Parametric Relation : cvec veq
  reflexivity proved by veq_refl symmetry proved by veq_sym transitivity proved by veq_trans as veq_rel.

Lemma veq_rdot_r a b c : veq a b -> rdot c a == rdot c b.
Proof. intro H. rewrite (rdot_comm c a), (rdot_comm c b). apply veq_app. exact H. Qed.

Lemma veq_norm2 a b : veq a b -> norm2 a == norm2 b.
Proof. intro H. unfold norm2. rewrite (veq_app a b a H). rewrite (veq_rdot_r a b b H). reflexivity. Qed.

Lemma veq_vJ a b : veq a b -> veq (vJ a) (vJ b).
Proof. intros H c. rewrite !rdot_vJ_l. rewrite (veq_app a b (vJ c) H). reflexivity. Qed.

Lemma veq_vadd a a' b b' : veq a a' -> veq b b' -> veq (vadd a b) (vadd a' b').
Proof. intros H1 H2 c. rewrite !rdot_vadd_l, (veq_app _ _ c H1), (veq_app _ _ c H2). reflexivity. Qed.

Lemma veq_vscale k a a' : veq a a' -> veq (vscale k a) (vscale k a').
Proof. intros H c. rewrite !rdot_vscale_l, (veq_app _ _ c H). reflexivity. Qed.

Lemma veq_vsub a a' b b' : veq a a' -> veq b b' -> veq (vsub a b) (vsub a' b').
Proof. intros H1 H2 c. rewrite !rdot_vsub_l, (veq_app _ _ c H1), (veq_app _ _ c H2). reflexivity. Qed.

(* rewriting database for inner products of compound vectors *)
Ltac vnorm :=
  repeat (rewrite ?rdot_vadd_l, ?rdot_vsub_l, ?rdot_vscale_l, ?rdot_vadd_r, ?rdot_vsub_r, ?rdot_vscale_r).

Lemma norm2_vadd a b : norm2 (vadd a b) == norm2 a + 2 * rdot a b + norm2 b.
Proof. unfold norm2. vnorm. rewrite (rdot_comm b a). ring. Qed.

Lemma norm2_vsub a b : norm2 (vsub a b) == norm2 a - 2 * rdot a b + norm2 b.
Proof. unfold norm2. vnorm. rewrite (rdot_comm b a). ring. Qed.

Lemma norm2_vscale k a : norm2 (vscale k a) == k * k * norm2 a.
Proof. unfold norm2. vnorm. ring. Qed.

Lemma norm2_cvscale c a : norm2 (cvscale c a) == cabs2 c * norm2 a.
Proof.
  unfold norm2. rewrite rdot_cvscale_l.
  rewrite (rdot_comm a (cvscale c a)), (rdot_comm (vJ a) (cvscale c a)), !rdot_cvscale_l.
  rewrite rdot_vJ_vJ, rdot_vJ_self, (rdot_comm a (vJ a)), rdot_vJ_self, cabs2_eq. ring.
Qed.

Lemma dist2_sym a b : dist2 a b == dist2 b a.
Proof. unfold dist2. rewrite !norm2_vsub, (rdot_comm b a). ring. Qed.

Lemma dist2_nonneg a b : 0 <= dist2 a b.
Proof. apply norm2_nonneg. Qed.

(* ---------- zero vectors ---------- *)
Lemma vzero_rdot a c : vzero a = true -> rdot a c == 0.
Proof.
  revert c. induction a as [|x a IH]; intros c H; [reflexivity|].
  destruct c as [|y c]; [rewrite rdot_nil_r; reflexivity|].
  simpl in H. apply andb_true_iff in H. destruct H as [Hx Ha].
  unfold czero in Hx. apply andb_true_iff in Hx. destruct Hx as [H1 H2]. qbool.
  rewrite rdot_cons, (IH c Ha), H1, H2. ring.
Qed.

Lemma vzero_false_norm2 a : vzero a = false -> 0 < norm2 a.
Proof.
  unfold norm2. induction a as [|x a IH]; intro H; [discriminate|].
  simpl in H. rewrite rdot_cons. pose proof (norm2_nonneg a) as Hn. unfold norm2 in Hn.
  apply andb_false_iff in H. destruct H as [H | H].
  - unfold czero in H. apply andb_false_iff in H. destruct H as [H | H]; qbool; nra.
  - specialize (IH H). nra.
Qed.

Lemma norm2_zero_rdot a c : norm2 a == 0 -> rdot a c == 0.
Proof.
  destruct (vzero a) eqn:E; [intros _; apply vzero_rdot; exact E|].
  intro H. pose proof (vzero_false_norm2 a E). lra.
Qed.

Lemma norm2_zero_veq a : norm2 a == 0 -> veq a [].
Proof. intros H c. rewrite (norm2_zero_rdot a c H). reflexivity. Qed.

(* ---------- hermitian orthogonality ---------- *)
Definition hperp (x y : cvec) : Prop := rdot x y == 0 /\ rdot (vJ x) y == 0.

Lemma hperp_sym x y : hperp x y -> hperp y x.
Proof.
  intros [H1 H2]. split.
  - rewrite rdot_comm. exact H1.
  - rewrite rdot_vJ_l, rdot_comm, H2. ring.
Qed.

Lemma hperp_vJ_r x y : hperp x y -> rdot x (vJ y) == 0.
Proof. intros [H1 H2]. rewrite rdot_vJ_r, H2. ring. Qed.

(* ---------- complex span ---------- *)
Inductive cspan (ws : list cvec) : cvec -> Prop :=
  | cs_zero : cspan ws []
  | cs_gen w : In w ws -> cspan ws w
  | cs_add a b : cspan ws a -> cspan ws b -> cspan ws (vadd a b)
  | cs_scale k a : cspan ws a -> cspan ws (vscale k a)
  | cs_J a : cspan ws a -> cspan ws (vJ a)
  | cs_eq a b : veq a b -> cspan ws a -> cspan ws b.

Lemma cspan_sub ws a b : cspan ws a -> cspan ws b -> cspan ws (vsub a b).
Proof. intros Ha Hb. unfold vsub. apply cs_add; [exact Ha|]. apply cs_scale. exact Hb. Qed.

Lemma cspan_trans ws ws' a : (forall w, In w ws -> cspan ws' w) -> cspan ws a -> cspan ws' a.
Proof.
  intros Hg H. induction H.
  - apply cs_zero.
  - apply Hg. assumption.
  - apply cs_add; assumption.
  - apply cs_scale; assumption.
  - apply cs_J; assumption.
  - eapply cs_eq; eassumption.
Qed.

Lemma cspan_incl ws ws' a : incl ws ws' -> cspan ws a -> cspan ws' a.
Proof. intros Hi. apply cspan_trans. intros w Hw. apply cs_gen. apply Hi. exact Hw. Qed.

Lemma cspan_cvscale ws c a : cspan ws a -> cspan ws (cvscale c a).
Proof.
  intro H. apply cs_eq with (a := vadd (vscale (fst c) a) (vscale (snd c) (vJ a))).
  - intro x. rewrite rdot_cvscale_l. vnorm. reflexivity.
  - apply cs_add; apply cs_scale; [exact H | apply cs_J; exact H].
Qed.

Lemma hperp_span ws r : (forall w, In w ws -> hperp w r) -> forall p, cspan ws p -> hperp p r.
Proof.
  intros Hg p H. induction H.
  - split; reflexivity.
  - apply Hg. assumption.
  - destruct IHcspan1 as [A1 A2]. destruct IHcspan2 as [B1 B2]. split.
    + vnorm. rewrite A1, B1. ring.
    + rewrite rdot_vJ_l. vnorm.
      assert (E1 : rdot a (vJ r) == - rdot (vJ a) r) by apply rdot_vJ_r.
      assert (E2 : rdot b (vJ r) == - rdot (vJ b) r) by apply rdot_vJ_r.
      rewrite E1, E2, A2, B2. ring.
  - destruct IHcspan as [A1 A2]. split.
    + vnorm. rewrite A1. ring.
    + rewrite rdot_vJ_l. vnorm. rewrite (rdot_vJ_r a r), A2. ring.
  - destruct IHcspan as [A1 A2]. split.
    + exact A2.
    + rewrite rdot_vJ_l, rdot_vJ_vJ, A1. ring.
  - destruct IHcspan as [A1 A2]. split.
    + rewrite <- (veq_app _ _ r H). exact A1.
    + rewrite <- (veq_app _ _ r (veq_vJ a b H)). exact A2.
Qed.

(* ---------- one projection step ---------- *)
Lemma rdot_cproj_sub x u v :
  rdot x (cproj_sub u v) ==
  rdot x v - (rdot u v / norm2 u) * rdot x u - (rdot (vJ u) v / norm2 u) * rdot x (vJ u).
Proof. unfold cproj_sub. vnorm. ring. Qed.

Lemma cproj_sub_perp u v : 0 < norm2 u -> hperp u (cproj_sub u v).
Proof.
  intro Hn. split.
  - rewrite rdot_cproj_sub. rewrite (rdot_comm u (vJ u)), rdot_vJ_self. fold (norm2 u). field. lra.
  - rewrite rdot_cproj_sub. rewrite rdot_vJ_self, rdot_vJ_vJ. fold (norm2 u). field. lra.
Qed.

Lemma cproj_sub_keeps x u v : hperp x u -> hperp x v -> hperp x (cproj_sub u v).
Proof.
  intros Hu [V1 V2]. pose proof (hperp_vJ_r x u Hu) as U3. destruct Hu as [U1 U2]. split.
  - rewrite rdot_cproj_sub, V1, U1, U3. ring.
  - rewrite rdot_cproj_sub, V2, U2, rdot_vJ_vJ, U1. ring.
Qed.

Lemma cproj_sub_span ws u v : cspan ws u -> cspan ws (vsub v (cproj_sub u v)).
Proof.
  intro Hu.
  apply cs_eq with (a := vadd (vscale (rdot u v / norm2 u) u) (vscale (rdot (vJ u) v / norm2 u) (vJ u))).
  - intro c. unfold cproj_sub. vnorm. ring.
  - apply cs_add; apply cs_scale; [exact Hu | apply cs_J; exact Hu].
Qed.

(* ---------- orthogonal families and reduction ---------- *)
Inductive ortho : list cvec -> Prop :=
  | o_nil : ortho []
  | o_cons u us : 0 < norm2 u -> (forall w, In w us -> hperp u w) -> ortho us -> ortho (u :: us).

Lemma creduce_keeps us : forall x v, (forall w, In w us -> hperp x w) -> hperp x v -> hperp x (creduce us v).
Proof.
  induction us as [|u us IH]; intros x v Hx Hv; [exact Hv|].
  simpl. apply IH.
  - intros w Hw. apply Hx. right. exact Hw.
  - apply cproj_sub_keeps; [apply Hx; left; reflexivity | exact Hv].
Qed.

Lemma creduce_perp us : ortho us -> forall v u, In u us -> hperp u (creduce us v).
Proof.
  induction 1 as [|u0 us Hn Hp Ho IH]; intros v u Hin; [destruct Hin|].
  simpl. destruct Hin as [-> | Hin].
  - apply creduce_keeps; [exact Hp | apply cproj_sub_perp; exact Hn].
  - apply IH. exact Hin.
Qed.

Lemma creduce_span us : forall v, cspan us (vsub v (creduce us v)).
Proof.
  induction us as [|u us IH]; intro v.
  - simpl. apply cs_eq with (a := []); [|apply cs_zero].
    intro c. vnorm. simpl. ring.
  - simpl.
    apply cs_eq with (a := vadd (vsub v (cproj_sub u v)) (vsub (cproj_sub u v) (creduce us (cproj_sub u v)))).
    + intro c. vnorm. ring.
    + apply cs_add.
      * apply cproj_sub_span. apply cs_gen. left. reflexivity.
      * eapply cspan_incl; [|apply IH]. intros w Hw. right. exact Hw.
Qed.

(* ---------- Gram-Schmidt ---------- *)
Lemma gs_incl ws : forall us u, In u us -> In u (gs ws us).
Proof.
  induction ws as [|w ws IH]; intros us u Hu; [exact Hu|].
  simpl. destruct (vzero (creduce us w)); apply IH; [exact Hu | right; exact Hu].
Qed.

Lemma gs_ortho ws : forall us, ortho us -> ortho (gs ws us).
Proof.
  induction ws as [|w ws IH]; intros us Ho; [exact Ho|].
  simpl. destruct (vzero (creduce us w)) eqn:E; [apply IH; exact Ho|].
  apply IH. constructor; [apply vzero_false_norm2; exact E | | exact Ho].
  intros u Hu. apply hperp_sym. apply creduce_perp; assumption.
Qed.

(* every vector produced lies in the span of the inputs *)
Lemma gs_in_span ws : forall us all, (forall u, In u us -> cspan all u) -> (forall w, In w ws -> cspan all w) ->
  forall u, In u (gs ws us) -> cspan all u.
Proof.
  induction ws as [|w ws IH]; intros us all Hus Hws u Hu; [apply Hus; exact Hu|].
  simpl in Hu. destruct (vzero (creduce us w)) eqn:E.
  - eapply IH; [exact Hus | | exact Hu]. intros w' Hw'. apply Hws. right. exact Hw'.
  - eapply IH; [ | | exact Hu].
    + intros u' [<- | Hu']; [|apply Hus; exact Hu'].
      apply cs_eq with (a := vsub w (vsub w (creduce us w))).
      * intro c. vnorm. ring.
      * apply cspan_sub; [apply Hws; left; reflexivity|].
        eapply cspan_trans; [|apply creduce_span]. exact Hus.
    + intros w' Hw'. apply Hws. right. exact Hw'.
Qed.

(* every input lies in the span of the vectors produced *)
Lemma gs_spans ws : forall us w, In w ws -> cspan (gs ws us) w.
Proof.
  induction ws as [|w0 ws IH]; intros us w Hw; [destruct Hw|].
  simpl. destruct Hw as [<- | Hw].
  - destruct (vzero (creduce us w0)) eqn:E.
    + apply cs_eq with (a := vsub w0 (creduce us w0)).
      * intro c. vnorm. rewrite (vzero_rdot _ c E). ring.
      * eapply cspan_incl; [|apply creduce_span]. intros u Hu. apply gs_incl. exact Hu.
    + apply cs_eq with (a := vadd (creduce us w0) (vsub w0 (creduce us w0))).
      * intro c. vnorm. ring.
      * apply cs_add.
        -- apply cs_gen. apply gs_incl. left. reflexivity.
        -- eapply cspan_incl; [|apply creduce_span]. intros u Hu. apply gs_incl. right. exact Hu.
  - destruct (vzero (creduce us w0)); apply IH; exact Hw.
Qed.

(* ---------- the residual is the distance to the span ---------- *)
Definition gsres (ws : list cvec) (v : cvec) : cvec := creduce (gs ws []) v.

Lemma cres2_gsres ws v : cres2 ws v = norm2 (gsres ws v).
Proof. reflexivity. Qed.

Lemma gsres_perp ws v p : cspan ws p -> hperp p (gsres ws v).
Proof.
  intro Hp. apply hperp_span with (ws := gs ws []).
  - intros u Hu. apply creduce_perp; [apply gs_ortho; constructor | exact Hu].
  - eapply cspan_trans; [|exact Hp]. intros w Hw. apply gs_spans. exact Hw.
Qed.

Lemma gsres_in_span ws v : cspan ws (vsub v (gsres ws v)).
Proof.
  eapply cspan_trans; [|apply creduce_span].
  intros u Hu. eapply gs_in_span; [ | | exact Hu].
  - intros u' [].
  - intros w Hw. apply cs_gen. exact Hw.
Qed.

(* Pythagoras: the distance from v to any point p of the span splits into the residual and a part inside the span *)
Lemma dist2_split ws v p : cspan ws p ->
  dist2 v p == cres2 ws v + dist2 (vsub v (gsres ws v)) p.
Proof.
  intro Hp. rewrite cres2_gsres. unfold dist2.
  set (r := gsres ws v). set (q := vsub (vsub v r) p).
  assert (Hq : cspan ws q) by (apply cspan_sub; [apply gsres_in_span | exact Hp]).
  destruct (gsres_perp ws v q Hq) as [Hperp _]. fold r in Hperp.
  assert (E : veq (vsub v p) (vadd r q)) by (intro c; unfold q; vnorm; ring).
  rewrite (veq_norm2 _ _ E), norm2_vadd, (rdot_comm r q), Hperp. ring.
Qed.

Theorem cres2_lower_bound ws v p : cspan ws p -> cres2 ws v <= dist2 v p.
Proof.
  intro Hp. rewrite (dist2_split ws v p Hp).
  pose proof (dist2_nonneg (vsub v (gsres ws v)) p). lra.
Qed.

Theorem cres2_attained ws v : cspan ws (vsub v (gsres ws v)) /\ dist2 v (vsub v (gsres ws v)) == cres2 ws v.
Proof.
  split; [apply gsres_in_span|].
  rewrite cres2_gsres. unfold dist2. apply veq_norm2. intro c. vnorm. ring.
Qed.

Lemma cres2_nonneg ws v : 0 <= cres2 ws v.
Proof. apply norm2_nonneg. Qed.

Lemma cres2_le_norm2 ws v : cres2 ws v <= norm2 v.
Proof.
  pose proof (cres2_lower_bound ws v [] (cs_zero ws)) as H.
  assert (E : dist2 v [] == norm2 v).
  { unfold dist2. apply veq_norm2. intro c. vnorm. simpl. ring. }
  lra.
Qed.

(* ---------- explicit complex linear combinations are exactly the span ---------- *)
Lemma lincomb_in_span ws : forall cs, cspan ws (lincomb cs ws).
Proof.
  assert (G : forall all ws, incl ws all -> forall cs, cspan all (lincomb cs ws)).
  { intros all ws0. induction ws0 as [|w ws0 IH]; intros Hi cs; destruct cs as [|c cs]; simpl; try apply cs_zero.
    apply cs_add.
    - apply cspan_cvscale. apply cs_gen. apply Hi. left. reflexivity.
    - apply IH. intros x Hx. apply Hi. right. exact Hx. }
  intro cs. apply G. apply incl_refl.
Qed.

Fixpoint cl_add (cs ds : list C) : list C :=
  match cs, ds with
  | [], _ => ds
  | _, [] => cs
  | c :: cs', d :: ds' => cadd c d :: cl_add cs' ds'
  end.

Lemma rdot_cvscale_cadd c d w x :
  rdot (cvscale (cadd c d) w) x == rdot (cvscale c w) x + rdot (cvscale d w) x.
Proof. rewrite !rdot_cvscale_l, fst_cadd, snd_cadd. ring. Qed.

Lemma lincomb_add ws : forall cs ds, veq (lincomb (cl_add cs ds) ws) (vadd (lincomb cs ws) (lincomb ds ws)).
Proof.
  induction ws as [|w ws IH]; intros cs ds x.
  - destruct cs, ds; simpl; ring.
  - destruct cs as [|c cs]; [simpl; ring|].
    destruct ds as [|d ds].
    + simpl cl_add. vnorm. simpl (lincomb [] _). simpl (rdot [] x). ring.
    + simpl cl_add. simpl lincomb. vnorm. rewrite rdot_cvscale_cadd, (IH cs ds x). vnorm. ring.
Qed.

Lemma lincomb_scale k ws : forall cs, veq (lincomb (map (crs k) cs) ws) (vscale k (lincomb cs ws)).
Proof.
  induction ws as [|w ws IH]; intros cs x.
  - destruct cs; simpl; ring.
  - destruct cs as [|c cs]; [simpl; ring|].
    simpl map. simpl lincomb. vnorm. rewrite (IH cs x). vnorm.
    rewrite !rdot_cvscale_l, fst_crs, snd_crs. ring.
Qed.

Lemma lincomb_J ws : forall cs, veq (lincomb (map cJ cs) ws) (vJ (lincomb cs ws)).
Proof.
  induction ws as [|w ws IH]; intros cs x.
  - destruct cs; simpl; ring.
  - destruct cs as [|c cs]; [simpl; ring|].
    change (lincomb (map cJ (c :: cs)) (w :: ws)) with (vadd (cvscale (cJ c) w) (lincomb (map cJ cs) ws)).
    change (lincomb (c :: cs) (w :: ws)) with (vadd (cvscale c w) (lincomb cs ws)).
    rewrite rdot_vadd_l, (veq_app _ _ x (IH cs)).
    rewrite (rdot_vJ_l (vadd (cvscale c w) (lincomb cs ws)) x), rdot_vadd_l.
    rewrite (rdot_vJ_l (lincomb cs ws) x).
    rewrite !rdot_cvscale_l, rdot_vJ_vJ, (rdot_vJ_r w x).
    unfold cJ. simpl fst. simpl snd. ring.
Qed.

Lemma lincomb_unit ws w : In w ws -> exists cs, veq w (lincomb cs ws).
Proof.
  induction ws as [|w0 ws IH]; intros Hin; [destruct Hin|].
  destruct Hin as [<- | Hin].
  - exists [(1, 0)]. intro x. simpl lincomb. vnorm. rewrite rdot_cvscale_l. simpl. ring.
  - destruct (IH Hin) as [cs Hcs]. exists ((0, 0) :: cs). intro x. simpl lincomb. vnorm.
    rewrite rdot_cvscale_l, <- (Hcs x). simpl. ring.
Qed.

Theorem cspan_lincomb ws p : cspan ws p -> exists cs, veq p (lincomb cs ws).
Proof.
  induction 1 as [ | w Hw | a b _ [ca Ha] _ [cb Hb] | k a _ [ca Ha] | a _ [ca Ha] | a b Hab _ [ca Ha] ].
  - exists []. intro x. destruct ws; reflexivity.
  - apply lincomb_unit. exact Hw.
  - exists (cl_add ca cb). rewrite lincomb_add. apply veq_vadd; assumption.
  - exists (map (crs k) ca). rewrite lincomb_scale. apply veq_vscale. exact Ha.
  - exists (map cJ ca). rewrite lincomb_J. apply veq_vJ. exact Ha.
  - exists ca. rewrite <- Hab. exact Ha.
Qed.

(* the two statements in terms of explicit coefficients *)
Theorem cres2_min_lincomb ws v : forall cs, cres2 ws v <= dist2 v (lincomb cs ws).
Proof. intro cs. apply cres2_lower_bound. apply lincomb_in_span. Qed.

Theorem cres2_attained_lincomb ws v : exists cs, dist2 v (lincomb cs ws) == cres2 ws v.
Proof.
  destruct (cres2_attained ws v) as [Hs Hd].
  destruct (cspan_lincomb ws _ Hs) as [cs Hcs]. exists cs.
  rewrite <- Hd. unfold dist2. apply veq_norm2. apply veq_vsub; [reflexivity | symmetry; exact Hcs].
Qed.
