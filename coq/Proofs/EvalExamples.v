(* EvalExamples.v -- concrete strings run through the whole model (lexer, parser, evaluator) by vm_compute:
   non-vacuity of the C03 theorems and a readable record of the documented precedence. *)
From Coq Require Import ZArith QArith List Bool.
From Verif.Model Require Import Result Lexer Parser Eval EvalSpec EvalTables.
Import ListNotations.

(* x = 3, X = 5, z = 1+2i, i = imaginary unit, T_{1}^{2}' = 9; f(3,2) = 7 recorded; default + metric suffixes *)
Definition ex_env : env :=
  env_of_tables (1 # 1000000000)
    [([120]%Z, VS (mkC 3 0)); ([88]%Z, VS (mkC 5 0)); ([122]%Z, VS (mkC 1 2)); ([105]%Z, VS (mkC 0 1)); ([84;95;123;49;125;94;123;50;125;39]%Z, VS (mkC 9 0))]
    [[102]%Z]
    [([102]%Z, [([VS (mkC 3 0); VS (mkC 2 0)], Ok (VS (mkC 7 0)))])]
    (ref_default_suffixes ++ ref_metric_suffixes).

Definition value_of (s : str) : option (Q * Q) :=
  match evaluator ex_env None (Some s) with
  | OVal (VS c) => Some (Qred (re c), Qred (im c))
  | _ => None
  end.

Definition rejected (s : str) : bool :=
  match evaluator ex_env None (Some s) with OParseError _ => true | _ => false end.

(* -2^2 *)
Lemma ex_neg_pow : value_of [45;50;94;50]%Z = Some ((-4)#1, 0).
Proof. vm_compute. reflexivity. Qed.
(* 2^-2^2 *)
Lemma ex_pow_right_assoc_signed : value_of [50;94;45;50;94;50]%Z = Some (1#16, 0).
Proof. vm_compute. reflexivity. Qed.
(* 2^3^2 *)
Lemma ex_pow_right_assoc : value_of [50;94;51;94;50]%Z = Some (512#1, 0).
Proof. vm_compute. reflexivity. Qed.
(* 8/4*2 *)
Lemma ex_product_left_assoc : value_of [56;47;52;42;50]%Z = Some (4#1, 0).
Proof. vm_compute. reflexivity. Qed.
(* 10-4-3 *)
Lemma ex_sum_left_assoc : value_of [49;48;45;52;45;51]%Z = Some (3#1, 0).
Proof. vm_compute. reflexivity. Qed.
(* 1--1 *)
Lemma ex_minus_minus : value_of [49;45;45;49]%Z = Some (2#1, 0).
Proof. vm_compute. reflexivity. Qed.
(* 2*-3^2 *)
Lemma ex_times_neg_pow : value_of [50;42;45;51;94;50]%Z = Some ((-18)#1, 0).
Proof. vm_compute. reflexivity. Qed.
(* 3*2||2 *)
Lemma ex_parallel_binds_tighter_than_product : value_of [51;42;50;124;124;50]%Z = Some (3#1, 0).
Proof. vm_compute. reflexivity. Qed.
(* 4||-2 *)
Lemma ex_parallel_weaker_than_negation : value_of [52;124;124;45;50]%Z = Some ((-4)#1, 0).
Proof. vm_compute. reflexivity. Qed.
(* 0||5 *)
Lemma ex_parallel_zero : value_of [48;124;124;53]%Z = Some (0#1, 0).
Proof. vm_compute. reflexivity. Qed.
(* (1+2)*3 *)
Lemma ex_parens_override : value_of [40;49;43;50;41;42;51]%Z = Some (9#1, 0).
Proof. vm_compute. reflexivity. Qed.
(* 7\u20142 *)
Lemma ex_emdash_is_minus : value_of [55;8212;50]%Z = Some (5#1, 0).
Proof. vm_compute. reflexivity. Qed.
(*  1 0 +\t2\n *)
Lemma ex_spaces_tabs : value_of [32;49;32;48;32;43;9;50;10]%Z = Some (12#1, 0).
Proof. vm_compute. reflexivity. Qed.
(* 1.5e-1+2E1+.5+5. *)
Lemma ex_scientific : value_of [49;46;53;101;45;49;43;50;69;49;43;46;53;43;53;46]%Z = Some (513#20, 0).
Proof. vm_compute. reflexivity. Qed.
(* 50% *)
Lemma ex_percent : value_of [53;48;37]%Z = Some (1#2, 0).
Proof. vm_compute. reflexivity. Qed.
(* 2k+3m *)
Lemma ex_metric : value_of [50;107;43;51;109]%Z = Some (2000003#1000, 0).
Proof. vm_compute. reflexivity. Qed.
(* x+X *)
Lemma ex_names_case : value_of [120;43;88]%Z = Some (8#1, 0).
Proof. vm_compute. reflexivity. Qed.
(* i^2 *)
Lemma ex_complex_unit : value_of [105;94;50]%Z = Some ((-1)#1, 0).
Proof. vm_compute. reflexivity. Qed.
(* z*z *)
Lemma ex_complex_binding : value_of [122;42;122]%Z = Some ((-3)#1, 4#1).
Proof. vm_compute. reflexivity. Qed.
(* f(x,2) *)
Lemma ex_function_call : value_of [102;40;120;44;50;41]%Z = Some (7#1, 0).
Proof. vm_compute. reflexivity. Qed.
(* T_{1}^{2}'+1 *)
Lemma ex_tensor_name : value_of [84;95;123;49;125;94;123;50;125;39;43;49]%Z = Some (10#1, 0).
Proof. vm_compute. reflexivity. Qed.
(* 1++2 *)
Lemma ex_rejected_0 : rejected [49;43;43;50]%Z = true.
Proof. vm_compute. reflexivity. Qed.
(* 1**2 *)
Lemma ex_rejected_1 : rejected [49;42;42;50]%Z = true.
Proof. vm_compute. reflexivity. Qed.
(* 2(3) *)
Lemma ex_rejected_2 : rejected [50;40;51;41]%Z = true.
Proof. vm_compute. reflexivity. Qed.
(* (2)(3) *)
Lemma ex_rejected_3 : rejected [40;50;41;40;51;41]%Z = true.
Proof. vm_compute. reflexivity. Qed.
(* x\ty *)
Lemma ex_rejected_4 : rejected [120;9;121]%Z = true.
Proof. vm_compute. reflexivity. Qed.
(* () *)
Lemma ex_rejected_5 : rejected [40;41]%Z = true.
Proof. vm_compute. reflexivity. Qed.
(* f() *)
Lemma ex_rejected_6 : rejected [102;40;41]%Z = true.
Proof. vm_compute. reflexivity. Qed.
(* f(1,) *)
Lemma ex_rejected_7 : rejected [102;40;49;44;41]%Z = true.
Proof. vm_compute. reflexivity. Qed.
(* [1,,2] *)
Lemma ex_rejected_8 : rejected [91;49;44;44;50;93]%Z = true.
Proof. vm_compute. reflexivity. Qed.
(* 1+ *)
Lemma ex_rejected_9 : rejected [49;43]%Z = true.
Proof. vm_compute. reflexivity. Qed.
(* *1 *)
Lemma ex_rejected_10 : rejected [42;49]%Z = true.
Proof. vm_compute. reflexivity. Qed.
(* --1 *)
Lemma ex_rejected_11 : rejected [45;45;49]%Z = true.
Proof. vm_compute. reflexivity. Qed.
(* 2^--2 *)
Lemma ex_rejected_12 : rejected [50;94;45;45;50]%Z = true.
Proof. vm_compute. reflexivity. Qed.
(* 1#2 *)
Lemma ex_rejected_13 : rejected [49;35;50]%Z = true.
Proof. vm_compute. reflexivity. Qed.
(* 1 $ *)
Lemma ex_rejected_14 : rejected [49;32;36]%Z = true.
Proof. vm_compute. reflexivity. Qed.
(* (1 *)
Lemma ex_rejected_15 : rejected [40;49]%Z = true.
Proof. vm_compute. reflexivity. Qed.
(* 1) *)
Lemma ex_rejected_16 : rejected [49;41]%Z = true.
Proof. vm_compute. reflexivity. Qed.
(* (1] *)
Lemma ex_rejected_17 : rejected [40;49;93]%Z = true.
Proof. vm_compute. reflexivity. Qed.
(* x_{1 *)
Lemma ex_rejected_18 : rejected [120;95;123;49]%Z = true.
Proof. vm_compute. reflexivity. Qed.
(* 1|2 *)
Lemma ex_rejected_19 : rejected [49;124;50]%Z = true.
Proof. vm_compute. reflexivity. Qed.
(* 2\t3 *)
Lemma ex_rejected_20 : rejected [50;9;51]%Z = true.
Proof. vm_compute. reflexivity. Qed.
(* 1.2.3 *)
Lemma ex_rejected_21 : rejected [49;46;50;46;51]%Z = true.
Proof. vm_compute. reflexivity. Qed.
(* \xd72 *)
Lemma ex_rejected_22 : rejected [215;50]%Z = true.
Proof. vm_compute. reflexivity. Qed.

(* an undefined name in another case is an error, not the other binding *)
Lemma ex_case_undefined : evaluator ex_env None (Some [90;43;49]%Z) = OError EUndefVar.
Proof. vm_compute. reflexivity. Qed.
Lemma ex_blank_is_nan : evaluator ex_env None (Some [32;9;32]%Z) = ONan.
Proof. vm_compute. reflexivity. Qed.
Lemma ex_matrix_forbidden : evaluator ex_env (Some 1%nat) (Some [91;91;49;44;50;93;44;91;51;44;52;93;93]%Z) = OParseError PETooManyDims.
Proof. vm_compute. reflexivity. Qed.
Lemma ex_vector_allowed : evaluator ex_env (Some 1%nat) (Some [91;49;44;50;93]%Z) = OVal (VA [VS (mkC 1 0); VS (mkC 2 0)]).
Proof. vm_compute. reflexivity. Qed.
Lemma ex_division_by_zero : evaluator ex_env None (Some [49;47;40;120;45;51;41]%Z) = OError EDivZero.
Proof. vm_compute. reflexivity. Qed.
(* a derivation, its rendering and its flat tree *)
Definition ex_expr : expr :=
  ESub (EMul (ENum [50%Z] None) (ENeg (EPow (EVar [120%Z]) (ENeg (EPow (ENum [50%Z] None) (ENum [51%Z] None))))))
       (EPar [ENum [52%Z] None; EAdd (ENum [49%Z] None) (ENum [51%Z] None)]).
Lemma ex_render : wf_expr ex_expr = true /\ print_tokens (render ex_expr) = [50;42;45;120;94;45;50;94;51;45;52;124;124;40;49;43;51;41]%Z.
Proof. vm_compute. split; reflexivity. Qed.
