(* Proofs/Credit.v -- lemmas about the attempt-credit model (C17) *)
From Coq Require Import ZArith QArith Qround Qabs Qpower Lia Lqa List Bool.
From Verif.Lib Require Import QRound PyNum.
From Verif.Model Require Import Result Credit.
Import ListNotations.
Open Scope Q_scope.

(* ---------- boolean comparison reflection ---------- *)
Lemma Qeq_bool_true : forall a b, Qeq_bool a b = true -> a == b.
Proof. intros a b H. apply Qeq_bool_iff. exact H. Qed.
Lemma Qeq_bool_false : forall a b, Qeq_bool a b = false -> ~ a == b.
Proof. intros a b H E. apply Qeq_bool_iff in E. congruence. Qed.
Lemma Qle_bool_true : forall a b, Qle_bool a b = true -> a <= b.
Proof. intros a b H. apply Qle_bool_iff. exact H. Qed.
Lemma Qle_bool_false : forall a b, Qle_bool a b = false -> b < a.
Proof.
  intros a b H. apply Qnot_le_lt. intro L. apply Qle_bool_iff in L. congruence.
Qed.
Lemma Qltb_true : forall a b, Qltb a b = true -> a < b.
Proof. intros a b H. unfold Qltb in H. apply negb_true_iff in H. apply Qle_bool_false. exact H. Qed.
Lemma Qltb_false : forall a b, Qltb a b = false -> b <= a.
Proof. intros a b H. unfold Qltb in H. apply negb_false_iff in H. apply Qle_bool_true. exact H. Qed.

Ltac qbool :=
  repeat match goal with
  | H : Qeq_bool _ _ = true |- _ => apply Qeq_bool_true in H
  | H : Qeq_bool _ _ = false |- _ => apply Qeq_bool_false in H
  | H : Qle_bool _ _ = true |- _ => apply Qle_bool_true in H
  | H : Qle_bool _ _ = false |- _ => apply Qle_bool_false in H
  | H : Qltb _ _ = true |- _ => apply Qltb_true in H
  | H : Qltb _ _ = false |- _ => apply Qltb_false in H
  end.

(* ---------- linear interpolation ---------- *)
Definition interp (m st s : Q) : Q := 1 + (m - 1) * st / s.

Lemma interp_alt : forall m st s, 0 < s -> interp m st s == 1 - (1 - m) * (st / s).
Proof. intros m st s Hs. unfold interp. field. lra. Qed.

Lemma div_le_compat : forall a b s, 0 < s -> a <= b -> a / s <= b / s.
Proof.
  intros a b s Hs H. unfold Qdiv. apply Qmult_le_compat_r; [exact H|].
  apply Qlt_le_weak. apply Qinv_lt_0_compat. exact Hs.
Qed.

Lemma div_le_1 : forall a s, 0 < s -> a <= s -> a / s <= 1.
Proof.
  intros a s Hs H. setoid_replace 1 with (s / s) by (field; lra). apply div_le_compat; assumption.
Qed.

Lemma div_nonneg : forall a s, 0 < s -> 0 <= a -> 0 <= a / s.
Proof.
  intros a s Hs H. setoid_replace 0 with (0 / s) by (field; lra). apply div_le_compat; assumption.
Qed.

Lemma interp_anti : forall m st st' s, m <= 1 -> 0 < s -> st <= st' -> interp m st' s <= interp m st s.
Proof.
  intros m st st' s Hm Hs H. rewrite !interp_alt by exact Hs.
  pose proof (div_le_compat st st' s Hs H) as D. nra.
Qed.

Lemma interp_lower : forall m st s, m <= 1 -> 0 < s -> st <= s -> m <= interp m st s.
Proof.
  intros m st s Hm Hs H. rewrite interp_alt by exact Hs.
  pose proof (div_le_1 st s Hs H) as D. nra.
Qed.

Lemma interp_upper : forall m st s, m <= 1 -> 0 < s -> 0 <= st -> interp m st s <= 1.
Proof.
  intros m st s Hm Hs H. rewrite interp_alt by exact Hs.
  pose proof (div_nonneg st s Hs H) as D. nra.
Qed.

(* ---------- LinearCredit ---------- *)
Section Linear.
  Variables after steps minc : Q.
  Hypothesis Hafter : 1 <= after.
  Hypothesis Hsteps : 1 <= steps.
  Hypothesis Hminc : 0 <= minc <= 1.

  Lemma linear_first : linear_credit after steps minc 1 == 1.
  Proof. reflexivity. Qed.

  Lemma linear_cases : forall n,
    (linear_credit after steps minc n == 1 /\ (n == 1 \/ n - after <= 0))
    \/ (~ n == 1 /\ 0 < n - after /\ steps <= n - after /\ linear_credit after steps minc n = round4 minc)
    \/ (~ n == 1 /\ 0 < n - after /\ n - after < steps
        /\ linear_credit after steps minc n = round4 (interp minc (n - after) steps)).
  Proof.
    intro n. unfold linear_credit, interp.
    destruct (Qeq_bool n 1) eqn:E1; qbool; [left; split; [reflexivity | left; exact E1] |].
    cbv zeta.
    destruct (Qle_bool (n - after) 0) eqn:E2; qbool; [left; split; [reflexivity | right; exact E2] |].
    destruct (Qle_bool steps (n - after)) eqn:E3; qbool.
    - right; left. repeat split; assumption.
    - right; right. repeat split; assumption.
  Qed.

  Lemma linear_unit : forall n, 0 <= linear_credit after steps minc n <= 1.
  Proof.
    intro n. destruct (linear_cases n) as [[H _] | [(_ & _ & _ & H) | (_ & H0 & H1 & H)]].
    - rewrite H. lra.
    - rewrite H. apply round4_unit. exact Hminc.
    - rewrite H. apply round4_unit. split.
      + apply Qle_trans with minc; [apply Hminc | apply interp_lower; lra].
      + apply interp_upper; lra.
  Qed.

  Lemma linear_floor : forall n, round4 minc <= linear_credit after steps minc n.
  Proof.
    intro n. destruct (linear_cases n) as [[H _] | [(_ & _ & _ & H) | (_ & H0 & H1 & H)]].
    - rewrite H. apply round4_unit. exact Hminc.
    - rewrite H. lra.
    - rewrite H. apply round4_mono. apply interp_lower; lra.
  Qed.

  Lemma linear_nonincreasing : forall n n', 1 <= n -> n <= n' ->
    linear_credit after steps minc n' <= linear_credit after steps minc n.
  Proof.
    intros n n' H1 Hle.
    destruct (linear_cases n) as [[H _] | [(Hn & Hs0 & Hs1 & H) | (Hn & Hs0 & Hs1 & H)]].
    - rewrite H. apply linear_unit.
    - destruct (linear_cases n') as [[_ [E | E]] | [(_ & _ & _ & H') | (_ & _ & Hs1' & _)]].
      + exfalso. apply Hn. lra.
      + exfalso. lra.
      + rewrite H, H'. lra.
      + exfalso. lra.
    - destruct (linear_cases n') as [[_ [E | E]] | [(_ & _ & _ & H') | (_ & Hs0' & Hs1' & H')]].
      + exfalso. apply Hn. lra.
      + exfalso. lra.
      + rewrite H, H'. apply round4_mono. apply interp_lower; lra.
      + rewrite H, H'. apply round4_mono. apply interp_anti; lra.
  Qed.
End Linear.

(* ---------- GeometricCredit ---------- *)
Lemma Qfloor_nonneg : forall q, 0 <= q -> (0 <= Qfloor q)%Z.
Proof. intros q H. change 0%Z with (Qfloor 0). apply Qfloor_resp_le. exact H. Qed.

Lemma Qpowq_nat : forall f e, 0 <= e -> Qpowq f e == qpow_nat f (Z.to_nat (Qfloor e)).
Proof.
  intros f e He. unfold Qpowq. rewrite <- Qpower_nat. rewrite Z2Nat.id by (apply Qfloor_nonneg; exact He).
  reflexivity.
Qed.

Section Geometric.
  Variable factor : Q.
  Hypothesis Hf : 0 <= factor <= 1.

  Lemma geometric_first : geometric_credit factor 1 == 1.
  Proof. reflexivity. Qed.

  Lemma geometric_unit : forall n, 1 <= n -> 0 <= geometric_credit factor n <= 1.
  Proof.
    intros n Hn. unfold geometric_credit. destruct (Qeq_bool n 1); [lra|].
    apply round4_unit. rewrite Qpowq_nat by lra. apply qpow_nat_unit. exact Hf.
  Qed.

  Lemma geometric_nonincreasing : forall n n', 1 <= n -> n <= n' ->
    geometric_credit factor n' <= geometric_credit factor n.
  Proof.
    intros n n' Hn Hle. unfold geometric_credit.
    destruct (Qeq_bool n 1) eqn:E; qbool.
    - destruct (Qeq_bool n' 1); [lra|]. apply round4_unit. rewrite Qpowq_nat by lra. apply qpow_nat_unit. exact Hf.
    - destruct (Qeq_bool n' 1) eqn:E'; qbool; [exfalso; apply E; lra|].
      apply round4_mono. rewrite !Qpowq_nat by lra. apply qpow_nat_anti; [exact Hf|].
      apply Z2Nat.inj_le; try (apply Qfloor_nonneg; lra). apply Qfloor_resp_le. lra.
  Qed.
End Geometric.

(* ---------- ReciprocalCredit ---------- *)
Lemma recip_unit_raw : forall n, 1 <= n -> 0 <= 1 / n <= 1.
Proof.
  intros n Hn. split.
  - apply div_nonneg; lra.
  - apply div_le_1; lra.
Qed.

Lemma recip_anti_raw : forall n n', 1 <= n -> n <= n' -> 1 / n' <= 1 / n.
Proof.
  intros n n' Hn Hle.
  assert (E : 1 / n' == (n / n') * (1 / n)) by (field; split; lra).
  rewrite E. pose proof (div_le_1 n n' ltac:(lra) Hle) as D.
  pose proof (recip_unit_raw n Hn) as [R0 R1].
  pose proof (div_nonneg n n' ltac:(lra) ltac:(lra)) as D0. nra.
Qed.

Lemma reciprocal_first : reciprocal_credit 1 == 1.
Proof. reflexivity. Qed.

Lemma reciprocal_unit : forall n, 1 <= n -> 0 <= reciprocal_credit n <= 1.
Proof.
  intros n Hn. unfold reciprocal_credit. destruct (Qeq_bool n 1); [lra|].
  apply round4_unit. apply recip_unit_raw. exact Hn.
Qed.

Lemma reciprocal_nonincreasing : forall n n', 1 <= n -> n <= n' ->
  reciprocal_credit n' <= reciprocal_credit n.
Proof.
  intros n n' Hn Hle. unfold reciprocal_credit.
  destruct (Qeq_bool n 1) eqn:E; qbool.
  - destruct (Qeq_bool n' 1); [lra|]. apply round4_unit. apply recip_unit_raw. lra.
  - destruct (Qeq_bool n' 1) eqn:E'; qbool; [exfalso; apply E; lra|].
    apply round4_mono. apply recip_anti_raw; assumption.
Qed.

(* ---------- the pipeline ---------- *)
Definition clamp1 (n : Z) : Z := if (n <? 1)%Z then 1%Z else n.

Lemma apply_credit_missing : forall sched flag es, apply_credit sched flag None es = None.
Proof. reflexivity. Qed.

Lemma apply_credit_some : forall sched flag n es, exists r, apply_credit sched flag (Some n) es = Some r
  /\ c_attempt r = clamp1 n /\ c_credit r = round4 (sched (inject_Z (clamp1 n))).
Proof.
  intros sched flag n es. unfold apply_credit, clamp1.
  destruct (Qeq_bool _ 1); eexists; (split; [reflexivity | split; reflexivity]).
Qed.

Lemma apply_credit_clamp : forall sched flag n es, (n < 1)%Z ->
  apply_credit sched flag (Some n) es = apply_credit sched flag (Some 1%Z) es.
Proof.
  intros sched flag n es H. unfold apply_credit.
  assert (E : (n <? 1)%Z = true) by (apply Z.ltb_lt; exact H). rewrite E. reflexivity.
Qed.

Lemma apply_credit_length : forall sched flag n es r,
  apply_credit sched flag (Some n) es = Some r -> length (c_entries r) = length es.
Proof.
  intros sched flag n es r. unfold apply_credit. destruct (Qeq_bool _ 1); intro H; inversion H; subst; simpl.
  - reflexivity.
  - apply map_length.
Qed.

(* entry-wise law: positive grades are multiplied by the credit and ok recomputed, zero (and any
   non-positive) grades and every message are untouched *)
Definition scaled_by (c : Q) (e e' : entry) : Prop :=
  e_msg e' = e_msg e /\
  (0 < e_grade e -> e_grade e' == e_grade e * c /\ e_ok e' = grade_to_ok (e_grade e')) /\
  (e_grade e <= 0 -> e' = e).

Lemma scale_entry_scaled : forall c e, scaled_by c e (scale_entry c e).
Proof.
  intros c e. unfold scaled_by, scale_entry. destruct (Qltb 0 (e_grade e)) eqn:E; qbool; simpl.
  - split; [reflexivity|]. split; [intros _; split; reflexivity | intro L; exfalso; lra].
  - split; [reflexivity|]. split; [intro L; exfalso; lra | intros _; reflexivity].
Qed.

Lemma id_scaled_when_one : forall c e, c == 1 -> e_ok e = grade_to_ok (e_grade e) -> scaled_by c e e.
Proof.
  intros c e Hc Hok. unfold scaled_by. split; [reflexivity|].
  split; [intros _; split; [rewrite Hc; ring | exact Hok] | intros _; reflexivity].
Qed.

Lemma apply_credit_entries : forall sched flag n es r,
  apply_credit sched flag (Some n) es = Some r ->
  (~ c_credit r == 1 -> Forall2 (scaled_by (c_credit r)) es (c_entries r)) /\
  (c_credit r == 1 -> c_entries r = es).
Proof.
  intros sched flag n es r. unfold apply_credit.
  destruct (Qeq_bool _ 1) eqn:E; qbool; intro H; inversion H; subst; simpl; split; intro Hc.
  - exfalso. apply Hc. exact E.
  - reflexivity.
  - clear. induction es as [|e es IH]; simpl; constructor; [apply scale_entry_scaled | exact IH].
  - exfalso. apply E. exact Hc.
Qed.

Lemma existsb_pos : forall es, existsb (fun e => Qltb 0 (e_grade e)) es = true <-> exists e, In e es /\ 0 < e_grade e.
Proof.
  intro es. rewrite existsb_exists. split; intros [e [Hin H]]; exists e; split; try assumption.
  - apply Qltb_true. exact H.
  - unfold Qltb. apply negb_true_iff. destruct (Qle_bool (e_grade e) 0) eqn:E; [|reflexivity].
    apply Qle_bool_true in E. exfalso. lra.
Qed.

Lemma apply_credit_note : forall sched flag n es r,
  apply_credit sched flag (Some n) es = Some r ->
  (c_note r = true <-> (flag = true /\ ~ c_credit r == 1 /\ exists e, In e es /\ 0 < e_grade e)).
Proof.
  intros sched flag n es r. unfold apply_credit.
  destruct (Qeq_bool _ 1) eqn:E; qbool; intro H; inversion H; subst; simpl.
  - split; [discriminate | intros (_ & Hc & _); exfalso; apply Hc; exact E].
  - rewrite andb_true_iff, existsb_pos. split.
    + intros [F X]. repeat split; assumption.
    + intros (F & _ & X). split; assumption.
Qed.

(* zero stays zero, also in the result's ok *)
Lemma scaled_zero_fixed : forall c e e', scaled_by c e e' -> e_grade e == 0 -> e' = e.
Proof. intros c e e' (_ & _ & H) Hz. apply H. lra. Qed.

(* a credit in [0,1] keeps grades in [0,1] and never raises them *)
Lemma scaled_bounds : forall c e e', 0 <= c <= 1 -> 0 <= e_grade e <= 1 -> scaled_by c e e' ->
  0 <= e_grade e' <= e_grade e.
Proof.
  intros c e e' Hc Hg (_ & Hp & Hz).
  destruct (Qlt_le_dec 0 (e_grade e)) as [P | NP].
  - destruct (Hp P) as [Hgr _]. rewrite Hgr. nra.
  - rewrite (Hz NP). lra.
Qed.
