(* Proofs/MunkresInvTerm.v -- vocabulary of the termination proof: cover counts, number of starred columns,
   dual objective, and the strengthened phase invariants T1..T5. *)
From Coq Require Import ZArith List Bool Arith Lia Permutation.
From Verif.Model Require Import Munkres.
From Verif.Proofs Require Import MunkresDuality MunkresInvLib MunkresInvDefs MunkresStep123.
Import ListNotations.
Local Open Scope nat_scope.

(* ---------- counting true entries ---------- *)
Definition cnt (l : list bool) : nat := length (filter (fun b => b) l).

Lemma cnt_le : forall l, cnt l <= length l.
Proof. intro l. apply filter_id_length_le. Qed.

Lemma cnt_upd_true : forall l i, i < length l -> nth i l false = false -> cnt (upd l i true) = S (cnt l).
Proof.
  unfold cnt. induction l as [|x l IH]; intros [|i] H E; simpl in *; try lia.
  - subst x. reflexivity.
  - destruct x; simpl; rewrite IH by (try lia; exact E); reflexivity.
Qed.

Lemma cnt_upd_false : forall l i, i < length l -> nth i l false = true -> S (cnt (upd l i false)) = cnt l.
Proof.
  unfold cnt. induction l as [|x l IH]; intros [|i] H E; simpl in *; try lia.
  - subst x. reflexivity.
  - destruct x; simpl; rewrite <- (IH i) by (try lia; exact E); reflexivity.
Qed.

Lemma cnt_lt : forall l i, i < length l -> nth i l false = false -> cnt l < length l.
Proof.
  unfold cnt. induction l as [|x l IH]; intros [|i] H E; simpl in *; try lia.
  - subst x. pose proof (filter_id_length_le l). lia.
  - specialize (IH i ltac:(lia) E). destruct x; simpl; lia.
Qed.

Lemma cnt_exists_false : forall l, cnt l < length l -> exists i, i < length l /\ nth i l false = false.
Proof.
  unfold cnt. induction l as [|x l IH]; intro H; simpl in *; [lia|].
  destruct x; simpl in H.
  - destruct (IH ltac:(lia)) as [i [Hi E]]. exists (S i). split; [lia | exact E].
  - exists 0. split; [lia | reflexivity].
Qed.

Lemma cnt_all_false : forall l, (forall i, nth i l false = false) -> cnt l = 0.
Proof.
  unfold cnt. induction l as [|x l IH]; intro H; simpl; [reflexivity|].
  pose proof (H 0) as H0. simpl in H0. subst x. apply IH. intro i. exact (H (S i)).
Qed.

Lemma cnt_eq_filter_from : forall l k,
  length (filter (fun j => nth (j - k) l false) (seq k (length l))) = cnt l.
Proof.
  unfold cnt. induction l as [|x l IH]; intro k; simpl; [reflexivity|].
  rewrite Nat.sub_diag.
  rewrite (filter_ext_in (fun j => nth (j - k) (x :: l) false) (fun j => nth (j - S k) l false)).
  - destruct x; simpl; rewrite IH; reflexivity.
  - intros j Hj. apply in_seq in Hj. replace (j - k) with (S (j - S k)) by lia. reflexivity.
Qed.

Lemma cnt_eq_filter : forall l, cnt l = length (filter (fun j => nth j l false) (seq 0 (length l))).
Proof.
  intro l. rewrite <- (cnt_eq_filter_from l 0). f_equal. apply filter_ext. intro j. rewrite Nat.sub_0_r. reflexivity.
Qed.

Lemma filter_negb_length : forall {A} (p : A -> bool) l,
  length (filter p l) + length (filter (fun x => negb (p x)) l) = length l.
Proof. induction l as [|x l IH]; simpl; [reflexivity|]. destruct (p x); simpl; lia. Qed.

Lemma filter_length_lt_exists : forall {A} (p : A -> bool) l, length (filter p l) < length l ->
  exists x, In x l /\ p x = false.
Proof.
  induction l as [|x l IH]; simpl; intro H; [lia|].
  destruct (p x) eqn:E; simpl in H.
  - destruct (IH ltac:(lia)) as [y [Hy Py]]. exists y. auto.
  - exists x. auto.
Qed.

Lemma filter_length_mono_strict : forall {A} (p q : A -> bool) l x0,
  (forall x, In x l -> p x = true -> q x = true) -> In x0 l -> p x0 = false -> q x0 = true ->
  length (filter p l) < length (filter q l).
Proof.
  intros A p q l x0 Hpq.
  assert (Mono : forall l', (forall x, In x l' -> p x = true -> q x = true) -> length (filter p l') <= length (filter q l')).
  { induction l' as [|x l' IH]; intro H; simpl; [lia|].
    assert (IH' : length (filter p l') <= length (filter q l')) by (apply IH; intros; apply H; [right|]; assumption).
    destruct (p x) eqn:Px.
    - rewrite (H x (or_introl eq_refl) Px). simpl. lia.
    - destruct (q x); simpl; lia. }
  induction l as [|x l IH]; intros H0 P0 Q0; simpl; [destruct H0|].
  destruct H0 as [->|H0].
  - rewrite P0, Q0. simpl. assert (length (filter p l) <= length (filter q l)); [|lia].
    apply Mono. intros; apply Hpq; [right|]; assumption.
  - assert (IH' : length (filter p l) < length (filter q l)).
    { apply IH; auto. intros; apply Hpq; [right|]; assumption. }
    destruct (p x) eqn:Px.
    + rewrite (Hpq x (or_introl eq_refl) Px). simpl. lia.
    + destruct (q x); simpl; lia.
Qed.

(* ---------- sums ---------- *)
Local Open Scope Z_scope.

Lemma lsum_indicator : forall {A} (b : A -> bool) (m : Z) l,
  lsum (map (fun x => if b x then m else 0) l) = m * Z.of_nat (length (filter b l)).
Proof.
  induction l as [|x l IH]; simpl; [lia|]. rewrite IH. destruct (b x); simpl length; lia.
Qed.

Lemma lsum_map_sub : forall {A} (f g : A -> Z) l, lsum (map (fun x => f x - g x) l) = lsum (map f l) - lsum (map g l).
Proof. induction l as [|x l IH]; simpl; lia. Qed.

Lemma lsum_nonneg : forall {A} (f : A -> Z) l, (forall x, In x l -> 0 <= f x) -> 0 <= lsum (map f l).
Proof.
  induction l as [|x l IH]; intro H; simpl; [lia|].
  pose proof (H x (or_introl eq_refl)). assert (0 <= lsum (map f l)) by (apply IH; intros; apply H; right; assumption). lia.
Qed.

Lemma lsum_ge_one : forall {A} (f : A -> Z) l x0, (forall x, In x l -> 0 <= f x) -> In x0 l -> 1 <= f x0 ->
  1 <= lsum (map f l).
Proof.
  induction l as [|x l IH]; intros x0 H H0 H1; simpl; [destruct H0|].
  assert (0 <= lsum (map f l)) by (apply lsum_nonneg; intros; apply H; right; assumption).
  pose proof (H x (or_introl eq_refl)).
  destruct H0 as [->|H0]; [lia|].
  assert (1 <= lsum (map f l)) by (apply (IH x0); auto; intros; apply H; right; assumption). lia.
Qed.

Lemma fold_left_add_lsum : forall l a, fold_left Z.add l a = a + lsum l.
Proof. induction l as [|x l IH]; intro a; simpl; [lia|]. rewrite IH. lia. Qed.

Definition dsum (n : nat) (u v : nat -> Z) : Z := lsum (map u (seq 0 n)) + lsum (map v (seq 0 n)).

(* ---------- strengthened invariants ---------- *)
Section TInv.
  Variable n : nat.
  Variable M0 : nat -> nat -> Z.

  Definition kc (s : st) : nat := length (filter (col_has 1 (sM s)) (seq 0 n)).

  Definition shiftedD (s : st) : Prop :=
    exists u v : nat -> Z,
      (forall i j, (i < n)%nat -> (j < n)%nat -> M0 i j = gC s i j + u i + v j) /\ 0 <= dsum n u v.

  Definition cov_prime (s : st) : Prop := forall i, rcov s i = true -> exists j, gM s i j = 2%nat.
  Definition prime_rank (rank : nat -> nat) (s : st) : Prop :=
    forall i j i', gM s i j = 2%nat -> gM s i' j = 1%nat -> (rank i' < rank i)%nat.
  Definition ranked (s : st) : Prop :=
    exists (rank : nat -> nat) (bound : nat),
      (forall i, rcov s i = true -> (rank i < bound)%nat) /\ prime_rank rank s.
  Definition noZero (s : st) : Prop :=
    forall i j, (i < n)%nat -> (j < n)%nat -> uncovered_zero Z 0 Z.eqb s i j = false.

  Definition T1 (s : st) : Prop := P1 n M0 s.
  Definition T2 (s : st) : Prop := P2 n M0 s.
  Definition T3 (s : st) : Prop := P3 n M0 s.
  Definition T4 (s : st) : Prop :=
    P4 n M0 s /\ (kc s < n)%nat /\ (cnt (sRC s) + cnt (sCC s) = kc s)%nat
    /\ cov_prime s /\ ranked s.
  Definition T5 (s : st) : Prop :=
    P5 n M0 s /\ (kc s < n)%nat /\ star_cov s
    /\ (forall i j, gM s i j = 2%nat -> ccov s j = false) /\ cov_prime s
    /\ (exists rank, prime_rank rank s).

  Lemma shiftedD_C : forall s s', sC s' = sC s -> shiftedD s -> shiftedD s'.
  Proof.
    intros s s' E [u [v [H D]]]. exists u, v. split; [|exact D].
    intros i j Hi Hj. unfold gC. rewrite E. apply H; assumption.
  Qed.

  (* kc depends only on where the stars are *)
  Lemma kc_ext : forall s s', wf n s -> wf n s' ->
    (forall i j, gM s' i j = 1%nat <-> gM s i j = 1%nat) -> kc s' = kc s.
  Proof.
    intros s s' [_ [SM _]] [_ [SM' _]] H. unfold kc. f_equal. apply filter_ext_in. intros j _.
    destruct (col_has 1 (sM s) j) eqn:E.
    - apply (col_has_true n 1 _ j SM) in E; [|discriminate]. destruct E as [i [Hi E]].
      apply (col_has_true n 1 _ j SM'); [discriminate|]. exists i. split; [exact Hi | apply H; exact E].
    - destruct (col_has 1 (sM s') j) eqn:E'; [|reflexivity].
      apply (col_has_true n 1 _ j SM') in E'; [|discriminate]. destruct E' as [i [Hi E']].
      assert (X : col_has 1 (sM s) j = true).
      { apply (col_has_true n 1 _ j SM); [discriminate|]. exists i. split; [exact Hi | apply H; exact E']. }
      congruence.
  Qed.
End TInv.
