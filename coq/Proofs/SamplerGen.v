(* Proofs/SamplerGen.v -- the C12 statements on the definitions REGENERATED from the source (Gen.Sampler),
   through the bridge; plus concrete runs of the model that show the oracle contracts are satisfiable. *)
From Coq Require Import ZArith QArith Qabs Lia Lqa List Bool Arith.
From Verif.Lib Require Import QRound PyNum.
From Verif.Model Require Import Sampler SamplerMat.
From Verif.Gen Require Sampler.
From Verif.Bridge Require Import Sampler.
From Verif.Proofs Require Import Credit Sampler SamplerMat SamplerDet SamplerSq.
Import ListNotations.
Open Scope Q_scope.

(* the samplers assembled from the regenerated pieces: constructor, then gen_sample *)
Definition gen_real_interval (a b u : Q) : Q :=
  let r := Gen.Sampler.gen_real_interval_init a b in Gen.Sampler.gen_real_interval_gen (fst r) (snd r) u.
Definition gen_integer_range (randint : Z -> Z -> Z) (a b : Z) : Z :=
  let r := Gen.Sampler.gen_integer_range_init a b in
  let c := Gen.Sampler.gen_integer_range_call (fst r) (snd r) in randint (fst c) (snd c).

Lemma gen_real_interval_eq : forall a b u, gen_real_interval a b u = real_interval a b u.
Proof. reflexivity. Qed.
Lemma gen_integer_range_eq : forall r a b, gen_integer_range r a b = integer_range r a b.
Proof. reflexivity. Qed.

Lemma c12_real_interval_in_range : forall a b u, 0 <= u -> u < 1 ->
  Qmin a b <= gen_real_interval a b u /\ gen_real_interval a b u <= Qmax a b /\
  (~ a == b -> gen_real_interval a b u < Qmax a b).
Proof. intros. rewrite gen_real_interval_eq. apply real_interval_range; assumption. Qed.

Lemma c12_real_interval_order_irrelevant : forall a b u, gen_real_interval a b u == gen_real_interval b a u.
Proof. intros. rewrite !gen_real_interval_eq. apply real_interval_order_irrelevant. Qed.

Lemma c12_real_interval_degenerate : forall a u, gen_real_interval a a u == a.
Proof. intros. rewrite gen_real_interval_eq. apply real_interval_degenerate. Qed.

Lemma c12_real_interval_onto : forall a b v, Qmin a b <= v -> v < Qmax a b ->
  exists u, 0 <= u /\ u < 1 /\ gen_real_interval a b u == v.
Proof. intros a b v H1 H2. destruct (real_interval_onto a b v H1 H2) as (u & U). exists u. exact U. Qed.

Lemma c12_integer_range_in_range : forall r a b, randint_ok r ->
  (Z.min a b <= gen_integer_range r a b <= Z.max a b)%Z.
Proof. intros. rewrite gen_integer_range_eq. apply integer_range_in. assumption. Qed.

Lemma c12_integer_range_attainable : forall a b v, (Z.min a b <= v <= Z.max a b)%Z ->
  exists r, randint_ok r /\ gen_integer_range r a b = v.
Proof. intros a b v H. destruct (integer_range_attainable a b v H) as (r & R). exists r. exact R. Qed.

Lemma c12_integer_range_order_irrelevant : forall r a b, gen_integer_range r a b = gen_integer_range r b a.
Proof. intros. rewrite !gen_integer_range_eq. apply integer_range_order_irrelevant. Qed.

(* RandomFunction coefficient formulas *)
Lemma c12_rf_coefficient_ranges : forall u, 0 <= u < 1 ->
  (1 # 2 <= Gen.Sampler.gen_rf_amp u /\ Gen.Sampler.gen_rf_amp u < 1) /\
  (- pi_f <= Gen.Sampler.gen_rf_freq u /\ Gen.Sampler.gen_rf_freq u < pi_f) /\
  (0 <= Gen.Sampler.gen_rf_shift u /\ Gen.Sampler.gen_rf_shift u < 2 * pi_f).
Proof.
  intros u H. rewrite rf_amp_bridge, rf_freq_bridge, rf_shift_bridge.
  split; [apply rf_amp_range; exact H|]. split; [apply rf_freq_range; exact H | apply rf_shift_range; exact H].
Qed.

(* SquareMatrices.apply_symmetry / GeneralMatrices.apply_symmetry, regenerated *)
Lemma c12_sq_apply_symmetry : forall sym traceless dim array, (0 < dim)%nat ->
  let W := Gen.Sampler.gen_sq_apply_symmetry sym traceless dim array in
  has_symmetry sym dim W /\ (traceless = true -> ceq (mtrace dim W) c0) /\
  (is_real dim dim array -> is_real dim dim W).
Proof.
  intros sym traceless dim array Hd. cbv zeta. rewrite sq_apply_symmetry_bridge.
  split; [apply apply_symmetry_has_symmetry|]. split.
  - intros ->. unfold sq_apply_symmetry. cbv zeta. apply traceless_trace. exact Hd.
  - apply apply_symmetry_real.
Qed.

Lemma c12_tri_apply : forall tri n m array, tri_spec tri n m (Gen.Sampler.gen_tri_apply tri array).
Proof. intros. rewrite tri_apply_bridge. apply tri_apply_spec. Qed.

(* the constructor, regenerated: the complex flag it leaves, and the traceless / zero-determinant exclusion *)
Lemma c12_sqm_init_facts : forall sym traceless det cplx0 dim cplx,
  Gen.Sampler.gen_sqm_init sym traceless det cplx0 dim = Some cplx ->
  (herm_like sym = true -> cplx = true) /\ (herm_like sym = false -> cplx = cplx0) /\
  (traceless = true -> det <> DZero).
Proof.
  intros sym traceless det cplx0 dim cplx. rewrite sqm_init_bridge. intro H.
  destruct (sqm_init_forces _ _ _ _ _ _ H) as [H1 H2]. split; [exact H1|]. split; [exact H2|].
  intros ->. apply (sqm_init_traceless_zero _ _ _ _ _ H).
Qed.

(* the 288 option combinations of dimension 2-5; 214 are accepted *)
Definition all_symm := [SNone; SDiag; SSym; SAnti; SHerm; SAHerm].
Definition all_det := [DNone; DZero; DOne].
Definition all_bool := [false; true].
Definition sq_grid : list (Z * symm * bool * detopt * bool) :=
  flat_map (fun d => flat_map (fun s => flat_map (fun t => flat_map (fun dt => map (fun c => (d, s, t, dt, c)) all_bool)
    all_det) all_bool) all_symm) [2; 3; 4; 5]%Z.
Definition sq_accepts (g : Z * symm * bool * detopt * bool) : bool :=
  match g with (d, s, t, dt, c) =>
    match Gen.Sampler.gen_sqm_init s t dt c d with Some _ => true | None => false end end.

Lemma c12_ex_accepted_count :
  length sq_grid = 288%nat /\ length (filter sq_accepts sq_grid) = 214%nat.
Proof. split; vm_compute; reflexivity. Qed.

(* ------------------------------------------------------------------------------------------ *)
(* non-vacuity: concrete passes whose oracle answers satisfy every contract                   *)
(* ------------------------------------------------------------------------------------------ *)
Definition q_of_rows (l : list (list Q)) : list (list C) := map (map cofQ) l.

(* symmetric, determinant 1, real, 2x2: draws giving working = diag(1/2, 1/2); det 1/4, root 1/2 *)
Definition ex_one : attempt :=
  mkAttempt [[3#4; 1#2]; [1#2; 3#4]] [] (1#4, 0) (1#2, 0) 0 [] 0 0 0.

Lemma ex_one_ok : oracle_ok SSym false DOne false 2 ex_one.
Proof.
  constructor.
  - simpl. lra.
  - intros _. constructor.
    + vm_compute. split; reflexivity.
    + intros [H _]. vm_compute in H. discriminate.
    + vm_compute. split; reflexivity.
    + intros _. reflexivity.
  - discriminate.
  - intros X H. discriminate.
Qed.

Lemma c12_ex_square_det_one :
  oracle_ok SSym false DOne false 2 ex_one /\
  match square_matrices SSym false DOne false 2 1 5 [ex_one] with
  | Some (GDone M passes traces) =>
      to_rows 2 2 M = q_of_rows [[1; 0]; [0; 1]] /\ passes = 1%nat /\ traces = [[ODet; ORoot]]
  | _ => False
  end.
Proof. split; [exact ex_one_ok|]. vm_compute. repeat split. Qed.

(* diagonal, determinant 0, real, 2x2: first pass retries nothing; draws give working = diag(1/4, -1/4);
   det -1/16 (not tiny), index 0 -> diag(0, -1/4); norm 1/4; desired norm 1 + 4*(1/4) = 2 -> diag(0, -2) *)
Definition ex_zero : attempt :=
  mkAttempt [[3#4; 1#8]; [7#8; 1#4]] [] (-1#16, 0) c0 0 [(1#4, 0); (-1#4, 0)] 0 (1#4) (1#4).

Lemma ex_zero_ok : oracle_ok SDiag false DZero false 2 ex_zero.
Proof.
  constructor.
  - simpl. lra.
  - discriminate.
  - intros _. constructor.
    + vm_compute. split; reflexivity.
    + simpl. lia.
    + reflexivity.
    + intros k Hk. destruct k as [|[|k]]; [| | lia]; vm_compute; split; reflexivity.
    + discriminate.
    + intros _ k Hk _. destruct k as [|[|k]]; [| | lia]; reflexivity.
    + intros _. vm_compute. lia.
  - intros X H. vm_compute in H. inversion H; subst X. clear H. split.
    + vm_compute. reflexivity.
    + vm_compute. discriminate.
Qed.

Lemma c12_ex_square_det_zero :
  oracle_ok SDiag false DZero false 2 ex_zero /\
  match square_matrices SDiag false DZero false 2 1 5 [ex_zero] with
  | Some (GDone M passes traces) =>
      to_rows 2 2 M = q_of_rows [[0; 0]; [0; -2]] /\ traces = [[ODet; OIndex; ONorm]]
  | _ => False
  end.
Proof. split; [exact ex_zero_ok|]. vm_compute. repeat split. Qed.

(* a retry: hermitian-free real 2x2 with determinant 1 whose first draw has negative determinant *)
Definition ex_retry : attempt :=
  mkAttempt [[3#4; 1#2]; [1#2; 1#4]] [] (-1#4, 0) c0 0 [] 0 0 0.

Lemma c12_ex_square_retry :
  match square_matrices SSym false DOne false 2 1 5 [ex_retry; ex_one] with
  | Some (GDone M passes traces) => passes = 2%nat /\ traces = [[ODet]; [ODet; ORoot]]
  | _ => False
  end.
Proof. vm_compute. repeat split. Qed.

(* rejected combinations are ConfigErrors; the loop gives up after 100 passes *)
Lemma c12_ex_rejected : square_matrices SAnti false DOne false 3 1 5 [] = None
                        /\ square_matrices SNone true DZero false 2 1 5 [] = None.
Proof. split; reflexivity. Qed.

Lemma c12_ex_exhausted : sq_generate SSym false DOne false 2 1 5 (repeat ex_retry 100) = GExhausted.
Proof. vm_compute. reflexivity. Qed.
