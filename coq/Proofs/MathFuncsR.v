(* Proofs/MathFuncsR.v -- C15 over the reals: the derived functions of mathfuncs.py, read with the numpy primitives as
   the textbook real functions (Model/MathFuncsR.v), agree with their mathematical definitions. *)
From Coq Require Import Reals QArith Qreals List Lra Psatz.
From Verif.Lib Require Import MathFuncsBase.
From Verif.Model Require Import MathFuncs MathFuncsR.
Import ListNotations.
Open Scope R_scope.

Lemma Q2R_one : Q2R (1 # 1) = 1.
Proof. unfold Q2R; simpl; lra. Qed.
Lemma Q2R_zero : Q2R (0 # 1) = 0.
Proof. unfold Q2R; simpl; lra. Qed.
Lemma Q2R_two : Q2R (2 # 1) = 2.
Proof. unfold Q2R; simpl; lra. Qed.

Ltac unf := unfold sec, csc, cot, arcsec, arccsc, arccot, sech, csch, coth, arcsech, arccsch, arccoth, arctan2, kronecker;
            cbn [Rprims p_num p_div p_sub p_neg p_pi p_cos p_sin p_tan p_arccos p_arcsin p_arctan p_cosh p_sinh p_tanh
                 p_arccosh p_arcsinh p_arctanh p_arctan2 p_real p_ltb p_eqb];
            rewrite ?Q2R_one, ?Q2R_zero, ?Q2R_two.

(* ---------------- reciprocal functions: the definitions ---------------- *)
Lemma sec_def : forall x, sec Rprims x = 1 / cos x.
Proof. intro; unf; reflexivity. Qed.
Lemma csc_def : forall x, csc Rprims x = 1 / sin x.
Proof. intro; unf; reflexivity. Qed.
Lemma cot_def : forall x, cot Rprims x = 1 / tan x.
Proof. intro; unf; reflexivity. Qed.
Lemma cot_cos_sin : forall x, sin x <> 0 -> cos x <> 0 -> cot Rprims x = cos x / sin x.
Proof. intros x Hs Hc. rewrite cot_def. unfold tan. field. split; assumption. Qed.
Lemma sec_mul_cos : forall x, cos x <> 0 -> sec Rprims x * cos x = 1.
Proof. intros x H. rewrite sec_def. field. exact H. Qed.
Lemma csc_mul_sin : forall x, sin x <> 0 -> csc Rprims x * sin x = 1.
Proof. intros x H. rewrite csc_def. field. exact H. Qed.
Lemma sec_pythagoras : forall x, cos x <> 0 -> sec Rprims x * sec Rprims x = 1 + tan x * tan x.
Proof.
  intros x H. rewrite sec_def. unfold tan.
  pose proof (sin2_cos2 x) as E. unfold Rsqr in E.
  field_simplify_eq; [ | exact H]. nra.
Qed.

Lemma sech_def : forall x, sech Rprims x = 2 / (exp x + exp (- x)).
Proof. intro; unf. unfold cosh. pose proof (exp_pos x). pose proof (exp_pos (-x)). field. lra. Qed.
Lemma csch_def : forall x, x <> 0 -> csch Rprims x = 2 / (exp x - exp (- x)).
Proof.
  intros x Hx; unf. unfold sinh.
  assert (exp x - exp (- x) <> 0).
  { intro E. apply Hx. assert (exp x = exp (- x)) by lra. apply exp_inv in H. lra. }
  field. exact H.
Qed.
Lemma coth_def : forall x, x <> 0 -> coth Rprims x = (exp x + exp (- x)) / (exp x - exp (- x)).
Proof.
  intros x Hx; unf. unfold tanh, sinh, cosh.
  assert (exp x - exp (- x) <> 0).
  { intro E. apply Hx. assert (exp x = exp (- x)) by lra. apply exp_inv in H. lra. }
  pose proof (exp_pos x). pose proof (exp_pos (-x)).
  field. split; lra.
Qed.

(* ---------------- inverse functions: f (f_inverse x) = x on the real domain, principal ranges ---------------- *)
Lemma inv_ge1 : forall x, 1 <= x -> 0 < 1 / x <= 1.
Proof.
  intros x H. assert (E : x * (1 / x) = 1) by (field; lra).
  assert (0 < 1 / x) by (apply Rdiv_lt_0_compat; lra). split; [assumption | nra].
Qed.

Lemma inv_in_unit : forall x, 1 <= Rabs x -> -1 <= 1 / x <= 1.
Proof.
  intros x H. unfold Rabs in H. destruct (Rcase_abs x) as [Hn | Hp].
  - assert (Hx : 1 <= - x) by lra. pose proof (inv_ge1 _ Hx).
    replace (1 / x) with (- (1 / - x)) by (field; lra). lra.
  - assert (Hx : 1 <= x) by lra. pose proof (inv_ge1 _ Hx). lra.
Qed.

Lemma abs_ge1_nz : forall x, 1 <= Rabs x -> x <> 0.
Proof. intros x H E. subst. rewrite Rabs_R0 in H. lra. Qed.

Lemma arcsec_spec : forall x, 1 <= Rabs x ->
  sec Rprims (arcsec Rprims x) = x /\ 0 <= arcsec Rprims x <= PI.
Proof.
  intros x H. pose proof (inv_in_unit x H) as U. pose proof (abs_ge1_nz x H) as Nz.
  split.
  - rewrite sec_def. unf. rewrite cos_acos by exact U. field. exact Nz.
  - unf. apply acos_bound.
Qed.

Lemma arccsc_spec : forall x, 1 <= Rabs x ->
  csc Rprims (arccsc Rprims x) = x /\ - (PI / 2) <= arccsc Rprims x <= PI / 2.
Proof.
  intros x H. pose proof (inv_in_unit x H) as U. pose proof (abs_ge1_nz x H) as Nz.
  split.
  - rewrite csc_def. unf. rewrite sin_asin by exact U. field. exact Nz.
  - unf. apply asin_bound.
Qed.

(* ---------------- arccot ---------------- *)
Lemma Rltb_true : forall x y, Rltb x y = true <-> x < y.
Proof. intros; unfold Rltb; destruct (Rlt_dec x y); split; intros; try assumption; try reflexivity; try discriminate; contradiction. Qed.
Lemma Rltb_false : forall x y, Rltb x y = false <-> y <= x.
Proof. intros; unfold Rltb; destruct (Rlt_dec x y); split; intros; try reflexivity; try discriminate; lra. Qed.

Lemma arccot_value : forall x,
  arccot Rprims x = if Rlt_dec x 0 then - PI / 2 - atan x else PI / 2 - atan x.
Proof. intro x. unf. unfold Rltb. destruct (Rlt_dec x 0); reflexivity. Qed.

Lemma tan_atan_pos_parts : forall x, cos (atan x) <> 0.
Proof. intro x. pose proof (atan_bound x). apply Rgt_not_eq. apply cos_gt_0; lra. Qed.

Lemma arccot_spec : forall x, x <> 0 ->
  cot Rprims (arccot Rprims x) = x /\ - (PI / 2) < arccot Rprims x <= PI / 2 /\ arccot Rprims x <> 0.
Proof.
  intros x Hx. rewrite arccot_value, cot_def.
  pose proof (atan_bound x) as B. pose proof (tan_atan_pos_parts x) as Hc.
  assert (Ht : tan (atan x) = x) by apply tan_atan.
  assert (Hs : sin (atan x) <> 0).
  { intro E. unfold tan in Ht. rewrite E in Ht. unfold Rdiv in Ht. rewrite Rmult_0_l in Ht. apply Hx. symmetry. exact Ht. }
  destruct (Rlt_dec x 0) as [Hn | Hp].
  - assert (atan x < 0). { rewrite <- atan_0. apply atan_increasing. exact Hn. }
    split; [ | split; lra].
    unfold tan. replace (- PI / 2 - atan x) with (- (PI / 2 + atan x)) by lra.
    rewrite sin_neg, cos_neg.
    rewrite (Rplus_comm (PI / 2)), sin_plus, cos_plus, sin_PI2, cos_PI2.
    unfold tan in Ht. transitivity (sin (atan x) / cos (atan x)); [ | exact Ht].
    field; repeat split; try assumption; nra.
  - assert (0 < x) by lra. assert (0 < atan x). { rewrite <- atan_0. apply atan_increasing. assumption. }
    split; [ | split; lra].
    unfold tan. rewrite sin_minus, cos_minus, sin_PI2, cos_PI2.
    unfold tan in Ht. transitivity (sin (atan x) / cos (atan x)); [ | exact Ht].
    field; repeat split; try assumption; nra.
Qed.

Lemma arccot_zero : arccot Rprims 0 = PI / 2.
Proof. rewrite arccot_value. destruct (Rlt_dec 0 0); [lra | ]. rewrite atan_0. lra. Qed.

(* ---------------- inverse hyperbolic ---------------- *)
Lemma cosh_arccoshR : forall y, 1 <= y -> cosh (arccoshR y) = y /\ 0 <= arccoshR y.
Proof.
  intros y Hy. unfold arccoshR.
  assert (Hs : 0 <= y * y - 1) by nra.
  pose proof (sqrt_pos (y * y - 1)) as Sp.
  pose proof (sqrt_sqrt _ Hs) as Ss.
  set (s := sqrt (y * y - 1)) in *.
  assert (Hu : 0 < y + s) by lra.
  split.
  - unfold cosh. rewrite exp_Ropp, exp_ln by exact Hu.
    assert ((y + s) * (y - s) = 1) by nra.
    replace (/ (y + s)) with (y - s). { lra. }
    apply Rmult_eq_reg_l with (y + s); [ | lra]. rewrite Rinv_r by lra. assumption.
  - rewrite <- ln_1. destruct (Req_dec (y + s) 1) as [E | NE]; [rewrite E; lra | ].
    apply Rlt_le, ln_increasing; lra.
Qed.

Lemma tanh_arctanhR : forall y, -1 < y < 1 -> tanh (arctanhR y) = y.
Proof.
  intros y Hy. unfold arctanhR, tanh, sinh, cosh.
  assert (Hq : 0 < (1 + y) / (1 - y)) by (apply Rdiv_lt_0_compat; lra).
  set (q := (1 + y) / (1 - y)) in *.
  set (t := exp (ln q / 2)).
  assert (Ht : 0 < t) by apply exp_pos.
  assert (Htt : t * t = q).
  { unfold t. rewrite <- exp_plus. replace (ln q / 2 + ln q / 2) with (ln q) by lra. apply exp_ln. exact Hq. }
  rewrite exp_Ropp. fold t.
  assert (Hy' : y = (q - 1) / (q + 1)). { unfold q. field. lra. }
  rewrite Hy' at 1. rewrite <- Htt. field. split; nra.
Qed.

Lemma arcsech_spec : forall x, 0 < x <= 1 ->
  sech Rprims (arcsech Rprims x) = x /\ 0 <= arcsech Rprims x.
Proof.
  intros x Hx. assert (H1 : 1 <= 1 / x).
  { assert (E : x * (1 / x) = 1) by (field; lra). assert (0 < 1 / x) by (apply Rdiv_lt_0_compat; lra). nra. }
  destruct (cosh_arccoshR _ H1) as [E P]. split.
  - unfold sech, arcsech. cbn [Rprims p_num p_div p_cosh p_arccosh]. rewrite Q2R_one, E. field. lra.
  - unfold arcsech. cbn [Rprims p_num p_div p_arccosh]. rewrite Q2R_one. exact P.
Qed.

Lemma arccsch_spec : forall x, x <> 0 -> csch Rprims (arccsch Rprims x) = x.
Proof.
  intros x Hx. unfold csch, arccsch. cbn [Rprims p_num p_div p_sinh p_arcsinh]. rewrite Q2R_one, sinh_arcsinh. field. exact Hx.
Qed.

Lemma arccoth_spec : forall x, 1 < Rabs x -> coth Rprims (arccoth Rprims x) = x.
Proof.
  intros x Hx.
  assert (Nz : x <> 0). { intro E; subst; rewrite Rabs_R0 in Hx; lra. }
  assert (U : -1 < 1 / x < 1).
  { unfold Rabs in Hx. destruct (Rcase_abs x).
    - assert (E : (- x) * (1 / - x) = 1) by (field; lra). assert (0 < 1 / - x) by (apply Rdiv_lt_0_compat; lra).
      replace (1 / x) with (- (1 / - x)) by (field; lra). split; nra.
    - assert (E : x * (1 / x) = 1) by (field; lra). assert (0 < 1 / x) by (apply Rdiv_lt_0_compat; lra). split; nra. }
  unfold coth, arccoth. cbn [Rprims p_num p_div p_tanh p_arctanh]. rewrite Q2R_one, tanh_arctanhR by exact U. field. exact Nz.
Qed.

(* ---------------- arctan2: documented (x, y) argument order, quadrant ---------------- *)
Lemma Reqb_true : forall x y, Reqb x y = true <-> x = y.
Proof. intros; unfold Reqb; destruct (Req_EM_T x y); split; intros; try assumption; try reflexivity; try discriminate; contradiction. Qed.

Lemma arctan2_origin : arctan2 Rprims 0 0 = Raise XFunctionEvalError.
Proof. unf. assert (E : Reqb 0 0 = true) by (apply Reqb_true; reflexivity). rewrite E. reflexivity. Qed.

Lemma arctan2_value : forall x y, ~ (x = 0 /\ y = 0) -> arctan2 Rprims x y = Val (atan2R y x).
Proof.
  intros x y H. unf.
  destruct (Reqb x 0) eqn:Ex; destruct (Reqb y 0) eqn:Ey; try reflexivity.
  apply Reqb_true in Ex. apply Reqb_true in Ey. exfalso. apply H. split; assumption.
Qed.

Lemma sqrt_1_plus_sq_pos : forall t, 0 < sqrt (1 + t * t).
Proof. intro t. apply sqrt_lt_R0. nra. Qed.

Lemma hyp_pos : forall x y, 0 < x -> sqrt (x * x + y * y) = x * sqrt (1 + (y / x) * (y / x)).
Proof.
  intros x y Hx.
  transitivity (sqrt (x * x) * sqrt (1 + (y / x) * (y / x))).
  - rewrite <- sqrt_mult by nra. f_equal. field. lra.
  - rewrite sqrt_square by lra. reflexivity.
Qed.

Lemma hyp_neg : forall x y, x < 0 -> sqrt (x * x + y * y) = - x * sqrt (1 + (y / x) * (y / x)).
Proof.
  intros x y Hx.
  transitivity (sqrt (- x * - x) * sqrt (1 + (y / x) * (y / x))).
  - rewrite <- sqrt_mult by nra. f_equal. field. lra.
  - rewrite sqrt_square by lra. reflexivity.
Qed.

Lemma atan2R_polar : forall x y, ~ (x = 0 /\ y = 0) ->
  let r := sqrt (x * x + y * y) in let th := atan2R y x in
  - PI < th <= PI /\ x = r * cos th /\ y = r * sin th.
Proof.
  intros x y H r th. unfold th, atan2R. pose proof PI_RGT_0 as Pp.
  destruct (Rlt_dec 0 x) as [Hx | Hx].
  - pose proof (atan_bound (y / x)) as B. pose proof (sqrt_1_plus_sq_pos (y / x)) as Sp.
    split; [lra | ]. unfold r. rewrite (hyp_pos x y Hx), cos_atan, sin_atan. unfold Rsqr.
    split; field; repeat split; lra.
  - destruct (Rlt_dec x 0) as [Hx' | Hx'].
    + pose proof (atan_bound (y / x)) as B. pose proof (sqrt_1_plus_sq_pos (y / x)) as Sp.
      assert (Hq : forall a, a <= 0 -> atan a <= 0).
      { intros a Ha. destruct (Req_dec a 0) as [E | NE]; [subst; rewrite atan_0; lra | ].
        rewrite <- atan_0. apply Rlt_le, atan_increasing. lra. }
      assert (Hq' : forall a, 0 < a -> 0 < atan a).
      { intros a Ha. rewrite <- atan_0. apply atan_increasing. lra. }
      destruct (Rle_dec 0 y) as [Hy | Hy].
      * assert (y / x <= 0).
        { unfold Rdiv. assert (/ x < 0) by (apply Rinv_lt_0_compat; lra). nra. }
        pose proof (Hq _ H0).
        split; [lra | ]. unfold r. rewrite (hyp_neg x y Hx'), cos_plus, sin_plus, cos_PI, sin_PI, cos_atan, sin_atan. unfold Rsqr.
        split; field; repeat split; lra.
      * assert (0 < y / x).
        { unfold Rdiv. assert (/ x < 0) by (apply Rinv_lt_0_compat; lra). nra. }
        pose proof (Hq' _ H0).
        split; [lra | ]. unfold r. rewrite (hyp_neg x y Hx'), cos_minus, sin_minus, cos_PI, sin_PI, cos_atan, sin_atan. unfold Rsqr.
        split; field; repeat split; lra.
    + assert (x = 0) by lra. subst x.
      assert (Hr : r = Rabs y). { unfold r. replace (0 * 0 + y * y) with (Rsqr y) by (unfold Rsqr; lra). apply sqrt_Rsqr_abs. }
      destruct (Rlt_dec 0 y) as [Hy | Hy].
      * rewrite Hr, Rabs_right by lra. rewrite cos_PI2, sin_PI2. split; [lra | split; lra].
      * destruct (Rlt_dec y 0) as [Hy' | Hy'].
        -- rewrite Hr, Rabs_left by lra. rewrite cos_neg, sin_neg, cos_PI2, sin_PI2. split; [lra | split; lra].
        -- exfalso. apply H. split; lra.
Qed.

Lemma arctan2_spec : forall x y, ~ (x = 0 /\ y = 0) ->
  exists th, arctan2 Rprims x y = Val th /\ - PI < th <= PI
             /\ x = sqrt (x * x + y * y) * cos th /\ y = sqrt (x * x + y * y) * sin th.
Proof.
  intros x y H. exists (atan2R y x). split; [apply arctan2_value; exact H | ]. apply (atan2R_polar x y H).
Qed.

Lemma kronecker_spec : forall x y, kronecker Rprims x y = if Req_EM_T x y then 1 else 0.
Proof. intros x y. unf. unfold Reqb. destruct (Req_EM_T x y); reflexivity. Qed.
