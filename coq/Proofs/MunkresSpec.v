(* Proofs/MunkresSpec.v -- vocabulary of the C06 statements (definitions only) *)
From Coq Require Import ZArith List Bool Arith Lia Permutation.
From Verif.Model Require Import Munkres.
From Verif.Proofs Require Import MunkresDuality.
Import ListNotations.

Definition rect {A} (r c : nat) (M : list (list A)) : Prop :=
  length M = r /\ Forall (fun row => length row = c) M.

Definition gz (M : list (list Z)) (i j : nat) : Z := get2 0%Z M i j.

(* total cost of a list of (row, column) pairs *)
Definition cost (M : list (list Z)) (m : list (nat * nat)) : Z :=
  lsum (map (fun p => gz M (fst p) (snd p)) m).

(* a matching inside an r x c matrix: rows pairwise distinct, columns pairwise distinct, indices in range *)
Definition is_matching (r c : nat) (m : list (nat * nat)) : Prop :=
  NoDup (map fst m) /\ NoDup (map snd m) /\ Forall (fun p => (fst p < r)%nat /\ (snd p < c)%nat) m.

(* the full-strength statement of C06 for exact integer costs *)
Definition munkres_correct_statement : Prop :=
  forall (r c : nat) (M : list (list Z)) ,
    (1 <= r)%nat -> (1 <= c)%nat -> rect r c M ->
    (forall i j, (i < r)%nat -> (j < c)%nat -> (0 <= gz M i j < zmaxsize)%Z) ->
    exists res, computeZ M = Some res
      /\ is_matching r c res /\ length res = Nat.min r c
      /\ forall m, is_matching r c m -> length m = Nat.min r c -> (cost M res <= cost M m)%Z.

(* partial correctness: whenever the model returns, the result is a complete minimum-cost matching *)
Definition munkres_partial_correct_statement : Prop :=
  forall (r c : nat) (M : list (list Z)) (res : list (nat * nat)),
    (1 <= r)%nat -> (1 <= c)%nat -> rect r c M ->
    computeZ M = Some res ->
    is_matching r c res /\ length res = Nat.min r c
    /\ forall m, is_matching r c m -> length m = Nat.min r c -> (cost M res <= cost M m)%Z.

(* termination: the fuel 4(n+1)^2+8 is never exhausted and no step hits its error branch *)
Definition munkres_terminates_statement : Prop :=
  forall (r c : nat) (M : list (list Z)),
    (1 <= r)%nat -> (1 <= c)%nat -> rect r c M ->
    (forall i j, (i < r)%nat -> (j < c)%nat -> (0 <= gz M i j < zmaxsize)%Z) ->
    computeZ M <> None.
