(* Proofs/SamplerDet.v -- transpose invariance of the Laplace determinant and its consequences (C12):
   determinants of hermitian matrices are real, of antihermitian matrices real (even dimension), and
   antisymmetric matrices of odd dimension have determinant 0. *)
From Coq Require Import ZArith QArith Qabs Lia Lqa List Bool Arith Setoid Ring Field.
From Verif.Lib Require Import QRound.
From Verif.Model Require Import Sampler SamplerMat.
From Verif.Proofs Require Import Credit Sampler SamplerMat.
Import ListNotations.
Open Scope Q_scope.

Add Parametric Morphism (j : nat) : (alt j) with signature ceq ==> ceq as alt_mor.
Proof. intros a b H. apply alt_ext. exact H. Qed.

Definition sgn (j : nat) : C := if Nat.even j then c1 else copp c1.

Lemma alt_sgn : forall j z, ceq (alt j z) (cmul (sgn j) z).
Proof. intros j z. unfold alt, sgn. destruct (Nat.even j); ring. Qed.

Lemma sgn_succ : forall j, ceq (sgn (S j)) (copp (sgn j)).
Proof.
  intro j. unfold sgn. rewrite Nat.even_succ, <- Nat.negb_even. destruct (Nat.even j); simpl; ring.
Qed.

(* peel the first summand *)
Lemma csum_shift : forall n f, ceq (csum (S n) f) (cadd (f O) (csum n (fun j => f (S j)))).
Proof.
  induction n as [|n IH]; intro f.
  - simpl. ring.
  - change (csum (S (S n)) f) with (cadd (csum (S n) f) (f (S n))). rewrite IH.
    change (csum (S n) (fun j => f (S j))) with (cadd (csum n (fun j => f (S j))) (f (S n))). ring.
Qed.

Lemma csum_swap : forall n m (F : nat -> nat -> C),
  ceq (csum n (fun i => csum m (fun j => F i j))) (csum m (fun j => csum n (fun i => F i j))).
Proof.
  induction n as [|n IH]; intros m F.
  - simpl. symmetry. apply csum_zero. intros; reflexivity.
  - simpl. rewrite IH. rewrite <- csum_add. reflexivity.
Qed.

(* removing column 0 and row k *)
Definition cminor (A : fmat) (k : nat) : fmat := fun a b => A (if Nat.ltb a k then a else S a) (S b).

Lemma cminor_meq : forall n A B k, meq (S n) (S n) A B -> meq n n (cminor A k) (cminor B k).
Proof.
  intros n A B k H i j Hi Hj. unfold cminor. apply H; [|lia]. destruct (Nat.ltb i k); lia.
Qed.

Lemma minor_cminor : forall n A i j,
  meq n n (cminor (minor A (S j)) i) (minor (cminor A (S i)) j).
Proof.
  intros n A i j a b _ _. unfold cminor, minor.
  change (Nat.ltb (S b) (S j)) with (Nat.ltb b j). change (Nat.ltb (S a) (S i)) with (Nat.ltb a i).
  destruct (Nat.ltb a i), (Nat.ltb b j); reflexivity.
Qed.

(* Laplace expansion along the first column *)
Lemma mdet_col_expand : forall n A,
  ceq (mdet (S n) A) (csum (S n) (fun i => alt i (cmul (A i O) (mdet n (cminor A i))))).
Proof.
  induction n as [|n IH]; intro A.
  - simpl. reflexivity.
  - (* row expansion, first term apart *)
    change (mdet (S (S n)) A) with (csum (S (S n)) (fun j => alt j (cmul (A O j) (mdet (S n) (minor A j))))).
    rewrite csum_shift. rewrite (csum_shift (S n) (fun i => alt i (cmul (A i O) (mdet (S n) (cminor A i))))).
    assert (E0 : ceq (mdet (S n) (minor A O)) (mdet (S n) (cminor A O))).
    { apply mdet_ext. intros a b _ _. unfold minor, cminor. reflexivity. }
    rewrite E0. apply cadd_mor; [reflexivity|].
    (* left: expand every minor along its first column (IH) *)
    assert (EL : ceq (csum (S n) (fun j => alt (S j) (cmul (A O (S j)) (mdet (S n) (minor A (S j))))))
                     (csum (S n) (fun j => csum (S n) (fun i =>
                        cmul (cmul (copp (sgn j)) (sgn i))
                             (cmul (cmul (A O (S j)) (A (S i) O)) (mdet n (cminor (minor A (S j)) i))))))).
    { apply csum_ext. intros j Hj. rewrite (IH (minor A (S j))). rewrite alt_sgn, sgn_succ.
      rewrite <- csum_scale. rewrite <- csum_scale. apply csum_ext. intros i Hi. rewrite alt_sgn.
      unfold minor at 1. change (Nat.ltb 0 (S j)) with true. cbv iota. ring. }
    (* right: expand every column-minor along its first row *)
    assert (ER : ceq (csum (S n) (fun i => alt (S i) (cmul (A (S i) O) (mdet (S n) (cminor A (S i))))))
                     (csum (S n) (fun i => csum (S n) (fun j =>
                        cmul (cmul (copp (sgn j)) (sgn i))
                             (cmul (cmul (A O (S j)) (A (S i) O)) (mdet n (cminor (minor A (S j)) i))))))).
    { apply csum_ext. intros i Hi.
      change (mdet (S n) (cminor A (S i)))
        with (csum (S n) (fun j => alt j (cmul (cminor A (S i) O j) (mdet n (minor (cminor A (S i)) j))))).
      rewrite alt_sgn, sgn_succ. rewrite <- csum_scale. rewrite <- csum_scale. apply csum_ext. intros j Hj.
      rewrite alt_sgn. rewrite (mdet_ext n _ _ (minor_cminor n A i j)).
      unfold cminor at 1. change (Nat.ltb 0 (S i)) with true. cbv iota. ring. }
    rewrite EL, ER. apply csum_swap.
Qed.

Lemma mdet_transpose : forall n A, ceq (mdet n (mT A)) (mdet n A).
Proof.
  induction n as [|n IH]; intro A; [reflexivity|].
  rewrite (mdet_col_expand n A).
  change (mdet (S n) (mT A)) with (csum (S n) (fun j => alt j (cmul (A j O) (mdet n (mT (cminor A j)))))).
  apply csum_ext. intros j Hj. apply alt_ext. rewrite IH. reflexivity.
Qed.

(* conjugation *)
Lemma csum_conj : forall n f, ceq (cconj (csum n f)) (csum n (fun i => cconj (f i))).
Proof. induction n as [|n IH]; intro f; simpl; [unfold cconj, c0, ceq; simpl; split; ring | rewrite cconj_add, IH; reflexivity]. Qed.

Lemma alt_conj : forall j z, ceq (cconj (alt j z)) (alt j (cconj z)).
Proof. intros j z. unfold alt. destruct (Nat.even j); [reflexivity | apply cconj_opp]. Qed.

Lemma mdet_conj : forall n A, ceq (mdet n (mconj A)) (cconj (mdet n A)).
Proof.
  induction n as [|n IH]; intro A.
  - simpl. unfold cconj, c1, ceq. simpl. split; ring.
  - change (mdet (S n) (mconj A)) with (csum (S n) (fun j => alt j (cmul (cconj (A O j)) (mdet n (mconj (minor A j)))))).
    change (mdet (S n) A) with (csum (S n) (fun j => alt j (cmul (A O j) (mdet n (minor A j))))).
    rewrite csum_conj. apply csum_ext. intros j Hj. rewrite alt_conj. apply alt_ext.
    rewrite cconj_mul, IH. reflexivity.
Qed.

Lemma mdet_opp : forall n A, ceq (mdet n (mopp A)) (cmul (cpow (copp c1) n) (mdet n A)).
Proof. intros n A. rewrite (mdet_ext n _ _ (mopp_meq n n A)). apply mdet_scale. Qed.

Lemma cpow_neg1_even : forall n, Nat.even n = true -> ceq (cpow (copp c1) n) c1.
Proof.
  intro n. induction n as [n IH] using lt_wf_ind. intro H.
  destruct n as [|[|n]]; [reflexivity | discriminate |].
  change (cpow (copp c1) (S (S n))) with (cmul (copp c1) (cmul (copp c1) (cpow (copp c1) n))).
  rewrite IH; [ring | lia |]. rewrite Nat.even_succ_succ in H. exact H.
Qed.

(* ---- consequences for the symmetry classes ---- *)
Lemma herm_det_real : forall n A, has_symmetry SHerm n A -> creal (mdet n A).
Proof.
  intros n A H.
  assert (E : ceq (mdet n A) (cconj (mdet n A))).
  { rewrite <- (mdet_transpose n A) at 2. rewrite <- mdet_conj. apply mdet_ext.
    intros i j Hi Hj. unfold mconj, mT. apply (H i j Hi Hj). }
  destruct (mdet n A) as [x y]. unfold ceq, cconj, creal in *. simpl in *. destruct E. lra.
Qed.

Lemma antiherm_det : forall n A, has_symmetry SAHerm n A ->
  ceq (mdet n A) (cmul (cpow (copp c1) n) (cconj (mdet n A))).
Proof.
  intros n A H. rewrite <- (mdet_transpose n A) at 2. rewrite <- mdet_conj, <- mdet_opp. apply mdet_ext.
  intros i j Hi Hj. unfold mopp, mconj, mT. apply (H i j Hi Hj).
Qed.

Lemma antiherm_even_det_real : forall n A, has_symmetry SAHerm n A -> Nat.even n = true -> creal (mdet n A).
Proof.
  intros n A H He. pose proof (antiherm_det n A H) as E. rewrite (cpow_neg1_even n He) in E.
  destruct (mdet n A) as [x y]. unfold ceq, cconj, cmul, c1, creal in *. simpl in *. destruct E. lra.
Qed.

Lemma antisym_odd_det_zero : forall n A, has_symmetry SAnti n A -> Nat.odd n = true -> ceq (mdet n A) c0.
Proof.
  intros n A H Ho.
  assert (E : ceq (mdet n A) (copp (mdet n A))).
  { rewrite <- (mdet_transpose n A) at 2.
    assert (E1 : ceq (mdet n A) (mdet n (mopp (mT A)))).
    { apply mdet_ext. intros i j Hi Hj. unfold mopp, mT. apply (H i j Hi Hj). }
    rewrite E1, mdet_opp, (cpow_neg1_odd n Ho). ring. }
  destruct (mdet n A) as [x y]. unfold ceq, copp, c0 in *. simpl in *. destruct E. split; lra.
Qed.

(* ------------------------------------------------------------------------------------------ *)
(* the fast determinant used when evaluating cases is the determinant                         *)
(* ------------------------------------------------------------------------------------------ *)
Lemma zc_embed_add : forall a b, ceq (zc_embed (zc_add a b)) (cadd (zc_embed a) (zc_embed b)).
Proof. intros [x y] [z w]. unfold zc_embed, zc_add, cadd, ceq. simpl. rewrite !inject_Z_plus. split; reflexivity. Qed.
Lemma zc_embed_opp : forall a, ceq (zc_embed (zc_opp a)) (copp (zc_embed a)).
Proof. intros [x y]. unfold zc_embed, zc_opp, copp, ceq. simpl. rewrite !inject_Z_opp. split; reflexivity. Qed.
Lemma zc_embed_mul : forall a b, ceq (zc_embed (zc_mul a b)) (cmul (zc_embed a) (zc_embed b)).
Proof.
  intros [x y] [z w]. unfold zc_embed, zc_mul, cmul, ceq. simpl.
  unfold Z.sub. rewrite !inject_Z_plus, !inject_Z_opp, !inject_Z_mult. split; ring.
Qed.

Lemma zsum_embed : forall n f, ceq (zc_embed (zsum n f)) (csum n (fun j => zc_embed (f j))).
Proof. induction n as [|n IH]; intro f; simpl; [reflexivity | rewrite zc_embed_add, IH; reflexivity]. Qed.

Lemma zalt_embed : forall j z, ceq (zc_embed (zalt j z)) (alt j (zc_embed z)).
Proof. intros j z. unfold zalt, alt. destruct (Nat.even j); [reflexivity | apply zc_embed_opp]. Qed.

Lemma zdet_embed : forall n A, ceq (zc_embed (zdet n A)) (mdet n (fun i j => zc_embed (A i j))).
Proof.
  induction n as [|n IH]; intro A; [reflexivity|].
  change (zdet (S n) A) with (zsum (S n) (fun j => zalt j (zc_mul (A O j) (zdet n (zminor A j))))).
  change (mdet (S n) (fun i j => zc_embed (A i j)))
    with (csum (S n) (fun j => alt j (cmul (zc_embed (A O j)) (mdet n (fun a b => zc_embed (zminor A j a b)))))).
  rewrite zsum_embed. apply csum_ext. intros j Hj. rewrite zalt_embed. apply alt_ext.
  rewrite zc_embed_mul, IH. reflexivity.
Qed.

Lemma zdet_of_correct : forall n D Zm W,
  (forall i j, (i < n)%nat -> (j < n)%nat -> ceq (W i j) (cmul (cofQ (1 # D)) (zc_embed (Zm i j)))) ->
  ceq (zdet_of n D Zm) (mdet n W).
Proof.
  intros n D Zm W H. unfold zdet_of. rewrite zdet_embed. rewrite <- mdet_scale. apply mdet_ext.
  intros i j Hi Hj. unfold mscale. symmetry. apply H; assumption.
Qed.

Lemma ceqb_true : forall a b, ceqb a b = true -> ceq a b.
Proof.
  intros a b H. unfold ceqb in H. apply andb_true_iff in H. destruct H as [H1 H2].
  apply Qeq_bool_iff in H1. apply Qeq_bool_iff in H2. split; assumption.
Qed.

Lemma forall2b_spec : forall n m p, forall2b n m p = true ->
  forall i j, (i < n)%nat -> (j < m)%nat -> p i j = true.
Proof.
  intros n m p H i j Hi Hj. unfold forall2b in H. rewrite forallb_forall in H.
  assert (Hin : In i (seq 0 n)) by (apply in_seq; lia). specialize (H i Hin). rewrite forallb_forall in H.
  apply H. apply in_seq. lia.
Qed.

Lemma fast_det_correct : forall n W d, fast_det n W = Some d -> ceq d (mdet n W).
Proof.
  intros n W d. unfold fast_det. cbv zeta.
  destruct (forall2b n n _) eqn:E; [|discriminate]. intro H. inversion H; subst d. rewrite cred_eq.
  apply zdet_of_correct. intros i j Hi Hj. apply ceqb_true.
  apply (forall2b_spec n n _ E i j Hi Hj).
Qed.
