(* Proofs/RestrictGen.v -- the C09 lemmas restated on the definitions REGENERATED from the source (Gen/Restrict.v),
   through the bridge, plus the two lemmas about spaces. *)
From Coq Require Import ZArith List Bool Lia.
From Verif.Model Require Import Result Lexer Parser Eval RestrictBase Restrict.
From Verif.Gen Require Restrict.
From Verif.Bridge Require Import Restrict.
From Verif.Proofs Require Import Restrict RestrictGrade.
Import ListNotations.
Local Open Scope Z_scope.

Lemma gen_permitted_spec : forall D W B U P,
  Gen.Restrict.gen_get_permitted_functions D W B U = Some P ->
  forall f, In f P <->
    (W = [] /\ (In f U \/ In f D) /\ ~ In f B)
    \/ (W = [None] /\ In f U)
    \/ (W <> [] /\ W <> [None] /\ (In f U \/ In (Some f) W)).
Proof. intros D W B U P. rewrite permitted_bridge. apply permitted_spec. Qed.

Lemma gen_blacklisted_not_permitted : forall D W B U P f,
  Gen.Restrict.gen_get_permitted_functions D W B U = Some P -> In f B -> ~ In f U -> ~ In f P.
Proof. intros D W B U P f. rewrite permitted_bridge. apply blacklisted_not_permitted. Qed.

Lemma gen_user_function_permitted : forall D W B U P f,
  Gen.Restrict.gen_get_permitted_functions D W B U = Some P -> In f U -> ~ In f B -> In f P.
Proof. intros D W B U P f. rewrite permitted_bridge. apply user_function_permitted. Qed.

Lemma gen_post_eval_pass : forall e used F R P,
  Gen.Restrict.gen_post_eval_validation e used F R P = VPass <->
  (forall x f, In x (si_values e) -> In f F -> substr (strip_spaces f) (strip_spaces x) = false)
  /\ (forall r, In r R -> In r used) /\ (forall f, In f used -> In f P).
Proof. intros. rewrite post_eval_bridge. apply post_eval_pass. Qed.

Lemma gen_post_eval_raise : forall e used F R P v,
  Gen.Restrict.gen_post_eval_validation e used F R P = VRaise v ->
  v = VForbidden \/ (exists r, v = VRequired r /\ In r R /\ ~ In r used)
  \/ (exists fs, v = VNotPermitted fs /\ fs <> [] /\ forall f, In f fs <-> In f used /\ ~ In f P).
Proof. intros e used F R P v. rewrite post_eval_bridge. apply post_eval_raise. Qed.

Lemma gen_gate : forall ok, Gen.Restrict.gen_runs_post_validation ok = true <-> ok <> OkFalse.
Proof. intro ok. rewrite gate_bridge. destruct ok; simpl; split; intro H; try reflexivity; try discriminate; congruence. Qed.

Lemma substr_exists : forall a b, substr a b = true <-> exists p q, b = p ++ a ++ q.
Proof. exact substr_spec. Qed.

(* the three sampling loops of the source, any number of samples *)
Lemma gen_loop_scopes : forall evs, In evs [Gen.Restrict.gen_formula_loop; Gen.Restrict.gen_sum_loop; Gen.Restrict.gen_integral_loop] ->
  forall sample bl n,
  let l := run_loop evs sample bl n 0 [] in
  length l = n /\
  forall k s, nth_error l k = Some s ->
    exists ba bs, seen_author s = [ba] /\ seen_student s = [bs]
      /\ (forall x j, In (x, j) ba <-> j = k /\ In x sample)
      /\ (forall x j, In (x, j) bs <-> j = k /\ In x sample /\ ~ In x bl).
Proof.
  intros evs Hin sample bl n.
  assert (Hs : source_loop evs).
  { destruct loops_bridge as [H1 [H2 H3]]. simpl in Hin. unfold source_loop.
    destruct Hin as [H|[H|[H|[]]]]; [left | right | left]; congruence. }
  apply (loop_scopes evs Hs sample bl n 0%nat []). intros x j [].
Qed.

Lemma gen_blacklists : forall instr sample sib n,
  (In n (var_blacklist Gen.Restrict.gen_formula_blacklist instr sample sib) <-> (In n instr /\ In n sample) \/ In n sib)
  /\ (In n (var_blacklist Gen.Restrict.gen_sum_blacklist instr sample sib) <-> In n instr /\ In n sample)
  /\ (In n (var_blacklist Gen.Restrict.gen_integral_blacklist instr sample sib) <-> In n instr /\ In n sample).
Proof.
  intros. destruct blacklists_bridge as [H1 [H2 H3]]. rewrite H1, H2, H3.
  split; [apply formula_blacklist_In | split; apply summation_blacklist_In].
Qed.

(* ---------- spaces ---------- *)
Lemma forbidden_input_spaces : forall a b F, strip_spaces a = strip_spaces b ->
  Gen.Restrict.gen_validate_forbidden_strings_not_used (SIStr a) F
  = Gen.Restrict.gen_validate_forbidden_strings_not_used (SIStr b) F.
Proof.
  intros a b F H. rewrite (forbidden_bridge (SIStr a) F), (forbidden_bridge (SIStr b) F). unfold validate_forbidden_strings_not_used. simpl. rewrite H. reflexivity.
Qed.

Lemma for_each_ext : forall (A : Type) (l : list A) (f g : A -> vres),
  (forall x, f x = g x) -> for_each l f = for_each l g.
Proof. induction l as [|x l IH]; intros f g H; simpl; [reflexivity|]. rewrite H. rewrite (IH f g H). reflexivity. Qed.

Lemma for_each_map : forall (A B : Type) (h : A -> B) (l : list A) (f : B -> vres),
  for_each (map h l) f = for_each l (fun x => f (h x)).
Proof. induction l as [|x l IH]; intros f; simpl; [reflexivity|]. rewrite IH. reflexivity. Qed.

Lemma forbidden_list_spaces : forall e F,
  Gen.Restrict.gen_validate_forbidden_strings_not_used e (map strip_spaces F)
  = Gen.Restrict.gen_validate_forbidden_strings_not_used e F.
Proof.
  intros e F. rewrite (forbidden_bridge e (map strip_spaces F)), (forbidden_bridge e F).
  unfold validate_forbidden_strings_not_used. cbv zeta.
  f_equal. apply for_each_ext. intro x. f_equal. rewrite for_each_map. apply for_each_ext. intro f.
  rewrite strip_spaces_idem. reflexivity.
Qed.

Lemma parse_spaces : forall a b, strip_spaces a = strip_spaces b -> parse_formula a = parse_formula b.
Proof. intros a b H. unfold parse_formula. rewrite H. reflexivity. Qed.
