(* Proofs/PipelineWF.v -- C01, part 2: every combinator preserves well-formedness; `check_wf` for every grader tree and
   every oracle; `call_wf` for AbstractGrader.__call__. *)
From Coq Require Import ZArith QArith Qabs Lia Lqa List Bool Arith.
From Verif.Lib Require Import QRound PyNum.
From Verif.Model Require Import Result Credit Pipeline.
From Verif.Proofs Require Import Credit Pipeline.
Import ListNotations.
Open Scope Q_scope.

Section Assembly.
  Variable S : okv -> Prop.
  Variable Zc : Q -> Prop.
  Variable OR : oracles.

  Definition wf_slot (s : option ires) : Prop := match s with Some d => wf_ires S d | None => True end.
  Definition wf_res (r : res) : Prop :=
    match r with RShort d => wf_ires S d | RLong _ slots => Forall wf_slot slots end.

  (* what the recursion hands to the combinators *)
  Definition chk_ok (chk : grader -> ans -> input -> path -> out res) : Prop :=
    forall g a x p r, ans_ok S Zc a -> chk g a x p = Ret r -> wf_res r.

  Lemma as_short_ret : forall o d, as_short o = Ret d -> o = Ret (RShort d).
  Proof.
    intros o d H. unfold as_short in H. apply bind_ret in H. destruct H as [r [Ho H]].
    destruct r; [injection H as <-; exact Ho | discriminate].
  Qed.

  (* --- SingleListGrader ------------------------------------------------------------------------ *)
  Lemma sl_checker_wf : forall chk sub p idx oa os d items,
    chk_ok chk -> Forall (ans_ok S Zc) items -> (forall a', oa = Some a' -> In a' items) ->
    sl_checker chk sub p idx oa os = Ret d -> wf_ires S d.
  Proof.
    intros chk sub p idx oa os d items Hchk Hitems Hoa H. unfold sl_checker in H.
    destruct oa as [a'|]; [destruct os as [x'|]|].
    - apply as_short_ret in H. apply Hchk in H; [exact H|].
      rewrite Forall_forall in Hitems. apply Hitems. apply Hoa. reflexivity.
    - injection H as <-. apply wf_auto_fail.
    - injection H as <-. apply wf_auto_fail.
  Qed.

  Lemma sl_graded_wf : forall chk ordered sub p n items (studs : list str) gl,
    chk_ok chk -> Forall (ans_ok S Zc) items ->
    sl_graded OR chk ordered sub p n (pad_to n items) (pad_to n studs) = Ret gl -> Forall (wf_ires S) gl.
  Proof.
    intros chk ordered sub p n items studs gl Hchk Hitems H. unfold sl_graded in H. destruct ordered.
    - eapply collect_forall; [exact H|]. intros o d Hin Ho.
      apply in_mapi in Hin. destruct Hin as [k [[oa os] [Hz ->]]]. simpl in Ho.
      apply in_zip in Hz. destruct Hz as [Hoa _].
      eapply sl_checker_wf; [exact Hchk | exact Hitems | | exact Ho].
      intros a' ->. eapply in_pad_to_some. exact Hoa.
    - apply bind_ret in H. destruct H as [flat [Hflat H]].
      eapply pick_pairs_forall; [exact H|]. intros d Hd. apply in_chunks in Hd.
      assert (Hall : Forall (wf_ires S) flat).
      { eapply collect_forall; [exact Hflat|]. intros o d' Hin Ho.
        apply in_concat in Hin. destruct Hin as [row [Hrow Hin]].
        apply in_mapi in Hrow. destruct Hrow as [i [os [_ ->]]].
        apply in_mapi in Hin. destruct Hin as [j [oa [Hoa ->]]].
        eapply sl_checker_wf; [exact Hchk | exact Hitems | | exact Ho].
        intros a' ->. eapply in_pad_to_some. exact Hoa. }
      rewrite Forall_forall in Hall. apply Hall. exact Hd.
  Qed.

  Lemma slist_response_wf : forall chk c sub a e x p r gl,
    chk_ok chk -> alt_okp S Zc a -> expect_ok S Zc e ->
    slist_response OR chk c sub a e x p = Ret (r, gl) -> strict_entry (i_e r) /\ Forall (wf_ires S) gl.
  Proof.
    intros chk c sub a e x p r gl Hchk Ha He H. unfold slist_response in H.
    destruct e as [s0|items]; [discriminate|]. destruct x as [s|l]; [|discriminate].
    destruct (split (sl_delim c) s) as [studs|]; [|discriminate].
    destruct (sl_length_error c && negb (length items =? length studs)%nat); [discriminate|].
    destruct (sl_missing_error c && existsb is_blank studs); [discriminate|].
    apply bind_ret in H. destruct H as [gl' [Hgl H]]. apply bind_ret in H. destruct H as [r' [Hr H]].
    injection H as <- <-. inversion He; subst.
    pose proof (sl_graded_wf _ _ _ _ _ _ _ _ Hchk H0 Hgl) as Hwf. split; [|exact Hwf].
    eapply process_grade_list_strict; [| | exact Hr].
    - eapply Forall_impl; [|exact Hwf]. intros d Hd. eapply wf_grade_unit. exact Hd.
    - eapply alt_credit_unit. exact Ha.
  Qed.

  (* --- IntervalGrader -------------------------------------------------------------------------- *)
  Lemma best_bracket_in : forall c alts best b, best_bracket c alts best = Some b -> best = Some b \/ In b alts.
  Proof.
    induction alts as [|a alts IH]; intros best b H; simpl in H; [left; exact H|].
    destruct (expect_has c (alt_expects a)).
    - destruct best as [b0|].
      + apply IH in H. destruct H as [H | H]; [|right; right; exact H].
        destruct (Qltb (alt_credit b0) (alt_credit a)); injection H as <-; [right; left; reflexivity | left; reflexivity].
      + apply IH in H. destruct H as [H | H]; [injection H as <-; right; left; reflexivity | right; right; exact H].
    - apply IH in H. destruct H as [H | H]; [left; exact H | right; right; exact H].
  Qed.

  Lemma grade_bracket_wf : forall a c r r', ans_ok S Zc a -> wf_ires S r -> grade_bracket a c r = Ret r' -> wf_ires S r'.
  Proof.
    intros a c r r' Ha Hr H. unfold grade_bracket in H.
    destruct (Qeq_bool (e_grade (i_e r)) 0); [injection H as <-; exact Hr|].
    destruct a as [alts|]; [|discriminate].
    destruct (best_bracket c alts None) as [b|] eqn:B.
    - injection H as <-. apply best_bracket_in in B. destruct B as [B | B]; [discriminate|].
      inversion Ha; subst. rewrite Forall_forall in H0. pose proof (alt_credit_unit _ _ _ (H0 b B)) as Hb.
      pose proof (wf_grade_unit _ _ Hr) as Hg. apply strict_wf. split; simpl; [nra | reflexivity].
    - injection H as <-. apply wf_zero.
  Qed.

  Lemma interval_response_wf : forall chk c sub a e x p r,
    chk_ok chk -> alt_okp S Zc a -> expect_ok S Zc e ->
    interval_response OR chk c sub a e x p = Ret r -> strict_entry (i_e r).
  Proof.
    intros chk c sub a e x p r Hchk Ha He H. unfold interval_response in H.
    destruct e as [s0|items]; [discriminate|].
    destruct items as [|a_open [|a_lo [|a_hi [|a_close [|]]]]]; try discriminate.
    destruct x as [s0|]; [|discriminate].
    destruct (length (strip s0) <? 5)%nat; [discriminate|].
    destruct (negb (mem_z (hd 0%Z (strip s0)) (iv_open c))); [discriminate|].
    destruct (negb (mem_z (last (strip s0) 0%Z) (iv_close c))); [discriminate|].
    apply bind_ret in H. destruct H as [[r1 gl] [Hsl H]]. cbn [snd] in H.
    inversion He; subst. inversion H1 as [|? ? Hopen T1]; subst. inversion T1 as [|? ? Hlo T2]; subst.
    inversion T2 as [|? ? Hhi T3]; subst. inversion T3 as [|? ? Hclose _]; subst.
    assert (He2 : expect_ok S Zc (EItems [a_lo; a_hi])) by (constructor; repeat constructor; assumption).
    destruct (slist_response_wf _ _ _ _ _ _ _ _ _ Hchk Ha He2 Hsl) as [_ Hgl].
    destruct gl as [|g0 [|g1 [|]]]; try discriminate.
    apply bind_ret in H. destruct H as [g0' [H0 H]]. apply bind_ret in H. destruct H as [g1' [H1' H]].
    inversion Hgl as [|? ? Hg0 T]; subst. inversion T as [|? ? Hg1 _]; subst.
    eapply process_grade_list_strict; [| | exact H].
    - constructor; [eapply wf_grade_unit; eapply grade_bracket_wf; [exact Hopen | exact Hg0 | exact H0]|].
      constructor; [eapply wf_grade_unit; eapply grade_bracket_wf; [exact Hclose | exact Hg1 | exact H1']|]. constructor.
    - eapply alt_credit_unit. exact Ha.
  Qed.

  (* --- ListGrader ------------------------------------------------------------------------------ *)
  Lemma slots_of_group_wf : forall grp r, wf_res r -> Forall wf_slot (slots_of_group grp r).
  Proof.
    intros grp r Hr. unfold slots_of_group.
    assert (Hnone : forall (l : list nat), Forall wf_slot (map (fun _ => None) l)).
    { intro l. apply Forall_forall. intros s Hs. apply in_map_iff in Hs. destruct Hs as [? [<- _]]. exact I. }
    destruct grp as [|i [|j grp]]; destruct r as [d|ov l]; simpl in Hr.
    - apply Hnone.
    - exact Hr.
    - constructor; [exact Hr | constructor].
    - constructor; [exact I | constructor].
    - apply Hnone.
    - exact Hr.
  Qed.

  Lemma ungroup_loop_wf : forall groups rs acc,
    Forall wf_slot acc -> Forall wf_res rs -> Forall wf_slot (ungroup_loop acc groups rs).
  Proof.
    induction groups as [|grp groups IH]; intros rs acc Hacc Hrs; simpl; [exact Hacc|].
    destruct rs as [|r rs]; [exact Hacc|]. inversion Hrs; subst.
    apply IH; [|assumption]. apply assign_forall; [exact Hacc | apply slots_of_group_wf; assumption].
  Qed.

  Lemma ungroup_loop_length : forall groups rs acc, length (ungroup_loop acc groups rs) = length acc.
  Proof.
    induction groups as [|grp groups IH]; intros rs acc; simpl; [reflexivity|].
    destruct rs as [|r rs]; [reflexivity|]. rewrite IH. apply assign_length.
  Qed.

  Lemma ungroupify_wf : forall gm n rs, Forall wf_res rs -> Forall wf_slot (ungroupify gm n rs).
  Proof.
    intros gm n rs Hrs. unfold ungroupify. destruct gm as [groups|].
    - apply ungroup_loop_wf; [|exact Hrs]. apply Forall_forall. intros s Hs. apply repeat_spec in Hs. subst. exact I.
    - apply Forall_forall. intros s Hs. apply in_map_iff in Hs. destruct Hs as [r [<- Hr]].
      rewrite Forall_forall in Hrs. specialize (Hrs r Hr). destruct r; [exact Hrs | exact I].
  Qed.

  Lemma run_groups_wf : forall chk c subs answers grouped p off k rs,
    chk_ok chk -> Forall (ans_ok S Zc) answers ->
    fst (run_groups OR chk c subs answers grouped p off k) = Ret rs -> Forall wf_res rs.
  Proof.
    intros chk c subs answers grouped p off k rs Hchk Hans H. unfold run_groups in H.
    rewrite Forall_forall in Hans. destruct (l_ordered c); simpl in H.
    - eapply collect_forall; [exact H|]. intros o r Hin Ho.
      apply in_mapi in Hin. destruct Hin as [i [[g [a x]] [Hz ->]]]. simpl in Ho.
      apply in_zip in Hz. destruct Hz as [_ Hz]. apply in_zip in Hz. destruct Hz as [Ha _].
      eapply Hchk; [apply Hans; exact Ha | exact Ho].
    - apply bind_ret in H. destruct H as [flat [Hflat H]].
      eapply pick_pairs_forall; [exact H|]. intros r Hr. apply in_chunks in Hr.
      assert (Hall : Forall wf_res flat).
      { eapply collect_forall; [exact Hflat|]. intros o r' Hin Ho.
        apply in_concat in Hin. destruct Hin as [row [Hrow Hin]].
        apply in_mapi in Hrow. destruct Hrow as [i [xi [_ ->]]].
        apply in_mapi in Hin. destruct Hin as [j [aj [Haj ->]]].
        eapply Hchk; [apply Hans; exact Haj | exact Ho]. }
      rewrite Forall_forall in Hall. apply Hall. exact Hr.
  Qed.

  Lemma perform_check_wf : forall chk c subs answers inputs p off k slots,
    chk_ok chk -> Forall (ans_ok S Zc) answers ->
    fst (perform_check OR chk c subs answers inputs p off k) = Ret slots -> Forall wf_slot slots.
  Proof.
    intros chk c subs answers inputs p off k slots Hchk Hans H. unfold perform_check in H.
    match type of H with context [if ?b then _ else _] => destruct b end; [discriminate|].
    simpl in H. apply bind_ret in H. destruct H as [rs [Hrs H]]. injection H as <-.
    apply ungroupify_wf. eapply run_groups_wf; eassumption.
  Qed.

  Lemma perform_all_wf : forall chk c subs lists inputs p off k o slots,
    chk_ok chk -> Forall (Forall (ans_ok S Zc)) lists ->
    In o (perform_all OR chk c subs lists inputs p off k) -> o = Ret slots -> Forall wf_slot slots.
  Proof.
    intros chk c subs lists. induction lists as [|al lists IH]; intros inputs p off k o slots Hchk Hl Hin Ho;
      simpl in Hin; [contradiction|].
    assert (Hal : Forall (ans_ok S Zc) al) by (inversion Hl; assumption).
    assert (Hrest : Forall (Forall (ans_ok S Zc)) lists) by (inversion Hl; assumption).
    destruct Hin as [E | Hin].
    - rewrite Ho in E. eapply perform_check_wf; [exact Hchk | exact Hal | exact E].
    - eapply IH; [exact Hchk | exact Hrest | exact Hin | exact Ho].
  Qed.

  Lemma choose_best_in : forall results best slots, choose_best results best = Ret slots -> In slots results.
  Proof.
    intros results best slots H. unfold choose_best in H.
    assert (Hgen : (if forallb all_slots_good results
                    then match nth_error results best with Some r => Ret r | None => Missing end
                    else Raise) = Ret slots -> In slots results).
    { intro G. destruct (forallb all_slots_good results); [|discriminate].
      destruct (nth_error results best) eqn:E; [|discriminate]. injection G as <-. eapply nth_error_In. exact E. }
    destruct results as [|r [|r' rest]].
    - apply Hgen. exact H.
    - injection H as <-. left. reflexivity.
    - apply Hgen. exact H.
  Qed.

  Lemma zero_unless_perfect_wf : forall l l', Forall wf_slot l -> zero_unless_perfect l = Ret l' -> Forall wf_slot l'.
  Proof.
    intros l l' Hl H. unfold zero_unless_perfect in H. destruct (negb (all_slots_good l)); [discriminate|].
    match type of H with context [if ?b then _ else _] => destruct b end; injection H as <-; [exact Hl|].
    apply Forall_forall. intros s Hs. apply in_map_iff in Hs. destruct Hs as [[d|] [<- _]]; [apply wf_zero | exact I].
  Qed.

  (* --- every grader tree ------------------------------------------------------------------------- *)
  Hypothesis Hleaf : forall p, lout_ok S (o_leaf OR p).
  (* the one place where the code does NOT keep ok and grade in step (see C01_formula_leaf_refuted): a partial-credit
     comparer verdict scaled by an answer worth grade_decimal = 0.  Either raw_check re-derives ok after scaling (the repaired
     code), or no alternative is worth 0 (Zc), or the comparers are crisp. *)
  Hypothesis Hside : o_recompute OR = true \/ (forall c, Zc c -> 0 < c) \/ (forall p, lout_crisp (o_leaf OR p)).

  Lemma side_at : forall a p, alt_okp S Zc a ->
    o_recompute OR = true \/ 0 < alt_credit a \/ lout_crisp (o_leaf OR p).
  Proof.
    intros a p Ha. destruct Hside as [Hr | [Hz | Hc]];
      [left; exact Hr | right; left; apply Hz; eapply alt_credit_Z; exact Ha | right; right; apply Hc].
  Qed.

  Lemma check_wf : forall fuel, chk_ok (check OR fuel).
  Proof.
    induction fuel as [|f IH]; intros g a x p r Ha H; simpl in H; [discriminate|].
    destruct g as [k wrong | c wrong sub | c wrong sub | c subs | failable].
    - (* leaf item grader *)
      destruct a as [alts|]; [|discriminate]. destruct alts as [|a0 alts']; [discriminate|].
      apply bind_ret in H. destruct H as [rs [Hrs H]]. apply bind_ret in H. destruct H as [d [Hd H]].
      injection H as <-. simpl. eapply item_select_wf; [|exact Hd].
      inversion Ha; subst. eapply collect_forall; [exact Hrs|]. intros o d' Hin Ho.
      apply in_mapi in Hin. destruct Hin as [i [ea [Hea ->]]].
      destruct (singles_ok S Zc _ _ H0 Hea) as [Halt _].
      eapply leaf_response_wf; [exact Halt | apply Hleaf | apply side_at; exact Halt | exact Ho].
    - (* SingleListGrader *)
      destruct a as [alts|]; [|discriminate]. destruct alts as [|a0 alts']; [discriminate|].
      apply bind_ret in H. destruct H as [rs [Hrs H]]. apply bind_ret in H. destruct H as [d [Hd H]].
      injection H as <-. simpl. eapply item_select_wf; [|exact Hd].
      inversion Ha; subst. eapply collect_forall; [exact Hrs|]. intros o d' Hin Ho.
      apply in_mapi in Hin. destruct Hin as [i [ea [Hea ->]]].
      destruct (singles_ok S Zc _ _ H0 Hea) as [Halt Hexp].
      apply bind_ret in Ho. destruct Ho as [[r1 gl] [Hsl Ho]]. injection Ho as <-. simpl.
      apply strict_wf. eapply slist_response_wf; [exact IH | exact Halt | exact Hexp | exact Hsl].
    - (* IntervalGrader *)
      destruct a as [alts|]; [|discriminate]. destruct alts as [|a0 alts']; [discriminate|].
      apply bind_ret in H. destruct H as [rs [Hrs H]]. apply bind_ret in H. destruct H as [d [Hd H]].
      injection H as <-. simpl. eapply item_select_wf; [|exact Hd].
      inversion Ha; subst. eapply collect_forall; [exact Hrs|]. intros o d' Hin Ho.
      apply in_mapi in Hin. destruct Hin as [i [ea [Hea ->]]].
      destruct (singles_ok S Zc _ _ H0 Hea) as [Halt Hexp].
      apply strict_wf. eapply interval_response_wf; [exact IH | exact Halt | exact Hexp | exact Ho].
    - (* ListGrader *)
      destruct a as [|lists]; [discriminate|]. destruct lists as [|l0 lists']; [discriminate|].
      destruct x as [|inputs]; [discriminate|].
      apply bind_ret in H. destruct H as [results [Hres H]]. apply bind_ret in H. destruct H as [slots [Hch H]].
      apply bind_ret in H. destruct H as [slots' [Hz H]]. injection H as <-. simpl.
      inversion Ha; subst.
      assert (Hall : Forall (Forall wf_slot) results).
      { eapply collect_forall; [exact Hres|]. intros o sl Hin Ho. eapply perform_all_wf; try eassumption. }
      apply choose_best_in in Hch. rewrite Forall_forall in Hall. pose proof (Hall _ Hch) as Hsl.
      destruct (l_partial c); [injection Hz as <-; exact Hsl | eapply zero_unless_perfect_wf; eassumption].
    - (* SumGrader *)
      pose proof (Hleaf p) as Hl. destruct (o_leaf OR p) eqn:E; try discriminate; injection H as <-; simpl.
      + exact Hl.
      + apply sum_leaf_wf. exact Hl.
  Qed.

  (* --- AbstractGrader.__call__ ------------------------------------------------------------------- *)
  Definition wf_edx (r : edx) : Prop :=
    match r with ESingle e => wf_entry S e | EMulti _ l => Forall (wf_entry S) l end.

  Lemma scaled_wf : forall c e e', 0 <= c <= 1 -> wf_entry S e -> scaled_by c e e' -> wf_entry S e'.
  Proof.
    intros c e e' Hc [Hg Hok] (_ & Hp & Hz).
    destruct (Qlt_le_dec 0 (e_grade e)) as [P | NP].
    - destruct (Hp P) as [Eg Eok]. apply strict_wf. split; [rewrite Eg; nra | exact Eok].
    - rewrite (Hz NP). split; assumption.
  Qed.

  Lemma slots_entries_wf : forall l es, Forall wf_slot l -> slots_entries l = Ret es -> Forall (wf_entry S) es.
  Proof.
    intros l es Hl H. unfold slots_entries in H. eapply collect_forall; [exact H|].
    intros o e Hin Ho. apply in_map_iff in Hin. destruct Hin as [[d|] [<- Hd]]; [|discriminate].
    injection Ho as <-. rewrite Forall_forall in Hl. apply (Hl _ Hd).
  Qed.

  Lemma apply_credit_wf : forall sched flag n es cr,
    (forall q, 0 <= sched q <= 1) -> Forall (wf_entry S) es ->
    apply_credit sched flag n es = Some cr -> Forall (wf_entry S) (c_entries cr).
  Proof.
    intros sched flag n es cr Hs Hes H. destruct n as [n|]; [|discriminate].
    destruct (apply_credit_some sched flag n es) as [cr' [E [_ Ec]]]. rewrite E in H. injection H as <-.
    destruct (apply_credit_entries _ _ _ _ _ E) as [Hne Heq].
    assert (Hc : 0 <= c_credit cr' <= 1) by (rewrite Ec; apply round4_unit; apply Hs).
    destruct (Qeq_dec (c_credit cr') 1) as [E1 | E1].
    - rewrite (Heq E1). exact Hes.
    - specialize (Hne E1). clear -Hne Hes Hc. induction Hne; [constructor|].
      inversion Hes; subst. constructor; [eapply scaled_wf; eassumption | apply IHHne; assumption].
  Qed.

  Lemma call_wf : forall fuel cfg g a x attempt log r,
    ans_ok S Zc a ->
    (forall sched, c_sched cfg = Some sched -> forall q, 0 <= sched q <= 1) ->
    call fuel OR cfg g a x attempt log = Ret r -> wf_edx r.
  Proof.
    intros fuel cfg g a x attempt log r Ha Hs H. unfold call in H.
    destruct (negb (input_ok g x)); [discriminate|].
    apply bind_ret in H. destruct H as [r0 [Hchk H]]. apply check_wf in Hchk; [|exact Ha].
    apply bind_ret in H. destruct H as [[[ov es] multi] [Hstrip H]].
    assert (Hes : Forall (wf_entry S) es).
    { destruct r0 as [d|ov0 slots].
      - injection Hstrip as _ <- _. constructor; [exact Hchk | constructor].
      - apply bind_ret in Hstrip. destruct Hstrip as [es0 [Hse Hstrip]]. injection Hstrip as _ <- _.
        eapply slots_entries_wf; eassumption. }
    apply bind_ret in H. destruct H as [[es' note] [Hcr H]].
    assert (Hes' : Forall (wf_entry S) es').
    { destruct (c_sched cfg) as [sched|] eqn:Esched.
      - destruct (apply_credit sched (c_msgflag cfg) attempt es) as [cr|] eqn:Eac; [|discriminate].
        injection Hcr as <- _. eapply apply_credit_wf; [apply Hs; reflexivity | exact Hes | exact Eac].
      - injection Hcr as <- _. exact Hes. }
    destruct multi.
    - injection H as <-. simpl. apply Forall_forall. intros e He. apply in_map_iff in He.
      destruct He as [e0 [<- He0]]. rewrite Forall_forall in Hes'. apply (Hes' _ He0).
    - destruct es' as [|e [|]]; try discriminate. injection H as <-. simpl.
      inversion Hes'; subst. assumption.
  Qed.
End Assembly.
