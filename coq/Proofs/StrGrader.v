(* Proofs/StrGrader.v -- lemmas about the StringGrader model (C18): the cleaning pipeline. *)
From Coq Require Import ZArith QArith List Bool Lia Arith.
From Verif.Model Require Import Result StrGrader.
Import ListNotations.
Open Scope Z_scope.

(* ============================================================================================== *)
(* 1. str.replace for the patterns the cleaning pipeline uses                                      *)
(* ============================================================================================== *)
Definition subst1 (a b c : Z) : Z := if c =? a then b else c.

Lemma replace1 : forall a b s, py_replace [a] [b] s = map (subst1 a b) s.
Proof.
  intros a b s. unfold py_replace. induction s as [|c r IH]; [reflexivity|].
  cbn [replace_go prefix_eqb length pred map]. rewrite IH. unfold subst1.
  rewrite (Z.eqb_sym c a). destruct (a =? c); reflexivity.
Qed.

Lemma replace_del : forall a s, py_replace [a] [] s = filter (fun c => negb (c =? a)) s.
Proof.
  intros a s. unfold py_replace. induction s as [|c r IH]; [reflexivity|].
  cbn [replace_go prefix_eqb length pred filter]. rewrite IH.
  rewrite (Z.eqb_sym c a). destruct (a =? c); reflexivity.
Qed.

(* replace a two-character pattern a b by one character n *)
Fixpoint pair_replace (a b n : Z) (s : str) : str :=
  match s with
  | [] => []
  | c :: r =>
    match r with
    | d :: r' => if (c =? a) && (d =? b) then n :: pair_replace a b n r' else c :: pair_replace a b n r
    | [] => [c]
    end
  end.

Lemma replace_go_step2 : forall a b n c d r',
  replace_go [a; b] [n] 0 (c :: d :: r') =
  if (c =? a) && (d =? b) then n :: replace_go [a; b] [n] 0 r' else c :: replace_go [a; b] [n] 0 (d :: r').
Proof.
  intros a b n c d r'. set (t := d :: r').
  cbn [replace_go prefix_eqb length pred]. subst t. cbn [prefix_eqb].
  rewrite andb_true_r, (Z.eqb_sym a c), (Z.eqb_sym b d).
  destruct ((c =? a) && (d =? b)); reflexivity.
Qed.

Lemma replace2_aux : forall a b n k s, (length s <= k)%nat ->
  replace_go [a; b] [n] 0 s = pair_replace a b n s.
Proof.
  intros a b n k. induction k as [|k IH]; intros s Hk.
  - destruct s; [reflexivity | simpl in Hk; lia].
  - destruct s as [|c r]; [reflexivity|].
    destruct r as [|d r'].
    + cbn. rewrite andb_false_r. reflexivity.
    + rewrite replace_go_step2. cbn [pair_replace].
      destruct ((c =? a) && (d =? b)) eqn:E.
      * f_equal. apply IH. simpl in Hk. lia.
      * f_equal. apply IH. simpl in Hk |- *. lia.
Qed.

Lemma replace2 : forall a b n s, py_replace [a; b] [n] s = pair_replace a b n s.
Proof. intros. unfold py_replace. apply (replace2_aux a b n (length s)). lia. Qed.

Lemma pair_replace_cons_ne : forall a b n c s, c <> a ->
  pair_replace a b n (c :: s) = c :: pair_replace a b n s.
Proof.
  intros a b n c s H. destruct s as [|d r]; [reflexivity|].
  cbn [pair_replace]. apply Z.eqb_neq in H. rewrite H. reflexivity.
Qed.

Lemma pair_replace_cons2_ne : forall a b n c d s, d <> b ->
  pair_replace a b n (c :: d :: s) = c :: pair_replace a b n (d :: s).
Proof.
  intros a b n c d s H. cbn [pair_replace]. apply Z.eqb_neq in H. rewrite H, andb_false_r. reflexivity.
Qed.

Lemma pair_replace_hit : forall a b n s, pair_replace a b n (a :: b :: s) = n :: pair_replace a b n s.
Proof. intros. cbn [pair_replace]. rewrite !Z.eqb_refl. reflexivity. Qed.

(* ============================================================================================== *)
(* 2. tabs and line breaks: the five replacements are one left-to-right pass                        *)
(* ============================================================================================== *)
Definition is_brk (c : Z) : bool := (c =? 9) || (c =? 10) || (c =? 13).
Definition brk1 (c : Z) : Z := if is_brk c then 32 else c.

(* one pass: CRLF and LFCR become one space, a lone tab / CR / LF becomes a space; in "LF CR LF" the
   CR belongs to the CRLF that follows (str.replace('\r\n') runs first) *)
Fixpoint breaks (s : str) : str :=
  match s with
  | [] => []
  | c :: r =>
    match r with
    | d :: r' =>
        if (c =? 13) && (d =? 10) then 32 :: breaks r'
        else if (c =? 10) && (d =? 13) then
          match r' with
          | e :: _ => if e =? 10 then 32 :: breaks r else 32 :: breaks r'
          | [] => 32 :: breaks r'
          end
        else brk1 c :: breaks r
    | [] => [brk1 c]
    end
  end.

(* the first five statements of clean_input *)
Definition replace5 (s : str) : str :=
  py_replace [10] [32] (py_replace [13] [32] (py_replace [10; 13] [32] (py_replace [13; 10] [32]
    (py_replace [9] [32] s)))).

Definition crlf := pair_replace 13 10 32.
Definition lfcr := pair_replace 10 13 32.

Lemma pair_replace_step : forall a b n c d r',
  pair_replace a b n (c :: d :: r') =
  if (c =? a) && (d =? b) then n :: pair_replace a b n r' else c :: pair_replace a b n (d :: r').
Proof. reflexivity. Qed.

Lemma pair_replace_map : forall (f : Z -> Z) a b n,
  (forall c, (f c =? a) = (c =? a)) -> (forall c, (f c =? b) = (c =? b)) -> f n = n ->
  forall k s, (length s <= k)%nat -> pair_replace a b n (map f s) = map f (pair_replace a b n s).
Proof.
  intros f a b n Ha Hb Hn. induction k as [|k IH]; intros s Hk.
  - destruct s; [reflexivity | simpl in Hk; lia].
  - destruct s as [|c r]; [reflexivity|]. destruct r as [|d r']; [reflexivity|].
    change (map f (c :: d :: r')) with (f c :: f d :: map f r').
    rewrite !pair_replace_step, Ha, Hb.
    destruct ((c =? a) && (d =? b)).
    + cbn [map]. rewrite Hn. f_equal. apply IH. simpl in Hk. lia.
    + cbn [map]. f_equal. change (f d :: map f r') with (map f (d :: r')).
      apply IH. simpl in Hk |- *. lia.
Qed.

Lemma subst9_eqb : forall c x, x <> 9 -> x <> 32 -> (subst1 9 32 c =? x) = (c =? x).
Proof.
  intros c x H9 H32. unfold subst1. destruct (Z.eqb_spec c 9) as [->|]; [|reflexivity].
  apply Z.eqb_neq in H9, H32. rewrite (Z.eqb_sym 32 x), (Z.eqb_sym 9 x), H9, H32. reflexivity.
Qed.

Lemma crlf_map9 : forall s, crlf (map (subst1 9 32) s) = map (subst1 9 32) (crlf s).
Proof.
  intro s. unfold crlf. apply (pair_replace_map (subst1 9 32) 13 10 32) with (k := length s); try lia.
  - intro c. apply subst9_eqb; lia.
  - intro c. apply subst9_eqb; lia.
  - reflexivity.
Qed.

Lemma lfcr_map9 : forall s, lfcr (map (subst1 9 32) s) = map (subst1 9 32) (lfcr s).
Proof.
  intro s. unfold lfcr. apply (pair_replace_map (subst1 9 32) 10 13 32) with (k := length s); try lia.
  - intro c. apply subst9_eqb; lia.
  - intro c. apply subst9_eqb; lia.
  - reflexivity.
Qed.

Lemma brk1_maps : forall c, subst1 10 32 (subst1 13 32 (subst1 9 32 c)) = brk1 c.
Proof.
  intro c. unfold subst1, brk1, is_brk.
  destruct (Z.eqb_spec c 9); [subst; reflexivity|].
  destruct (Z.eqb_spec c 13); [subst; reflexivity|].
  destruct (Z.eqb_spec c 10); [subst; reflexivity|]. reflexivity.
Qed.

Lemma replace5_maps : forall s, replace5 s = map brk1 (lfcr (crlf s)).
Proof.
  intro s. unfold replace5. rewrite !replace1, !replace2.
  fold crlf lfcr. rewrite crlf_map9, lfcr_map9.
  rewrite !map_map. apply map_ext. intro c. apply brk1_maps.
Qed.

Lemma crlf_head13 : forall d r h t, crlf (d :: r) = h :: t -> h = 13 -> d = 13.
Proof.
  intros d r h t H Hh. unfold crlf in H. destruct r as [|e r'].
  - cbn in H. inversion H. congruence.
  - cbn [pair_replace] in H. destruct ((d =? 13) && (e =? 10)); inversion H; subst; [discriminate | reflexivity].
Qed.

Lemma crlf_nonempty : forall d r, crlf (d :: r) <> [].
Proof.
  intros d r. unfold crlf. destruct r as [|e r']; cbn [pair_replace]; [discriminate|].
  destruct ((d =? 13) && (e =? 10)); discriminate.
Qed.

Lemma breaks_step : forall c d r', breaks (c :: d :: r') =
  if (c =? 13) && (d =? 10) then 32 :: breaks r'
  else if (c =? 10) && (d =? 13) then
    match r' with
    | e :: _ => if e =? 10 then 32 :: breaks (d :: r') else 32 :: breaks r'
    | [] => 32 :: breaks r'
    end
  else brk1 c :: breaks (d :: r').
Proof. reflexivity. Qed.

Lemma replace5_breaks_aux : forall k s, (length s <= k)%nat -> map brk1 (lfcr (crlf s)) = breaks s.
Proof.
  induction k as [|k IH]; intros s Hk.
  - destruct s; [reflexivity | simpl in Hk; lia].
  - destruct s as [|c r]; [reflexivity|]. destruct r as [|d r']; [reflexivity|].
    rewrite breaks_step.
    destruct (Z.eqb_spec c 13) as [Hc13|Hc13]; destruct (Z.eqb_spec d 10) as [Hd10|Hd10]; cbn [andb].
    + (* CR LF *)
      subst. unfold crlf at 1. rewrite pair_replace_hit. fold crlf.
      unfold lfcr. rewrite pair_replace_cons_ne by lia. fold lfcr.
      cbn [map]. f_equal. apply IH. simpl in Hk. lia.
    + (* CR, not followed by LF *)
      subst c. replace ((13 =? 10) && (d =? 13)) with false by reflexivity.
      unfold crlf at 1. rewrite pair_replace_cons2_ne by assumption. fold crlf.
      unfold lfcr. rewrite pair_replace_cons_ne by lia. fold lfcr.
      cbn [map]. f_equal. apply IH. simpl in Hk |- *. lia.
    + (* c <> CR, d = LF: no CRLF and no LFCR starts at c *)
      subst d. replace ((c =? 10) && (10 =? 13)) with false by (rewrite andb_false_r; reflexivity).
      unfold crlf at 1. rewrite pair_replace_cons_ne by assumption. fold crlf.
      destruct (crlf (10 :: r')) as [|h t] eqn:E; [exfalso; eapply crlf_nonempty; eassumption|].
      assert (Hh : h <> 13). { intro Hh. pose proof (crlf_head13 _ _ _ _ E Hh). lia. }
      unfold lfcr. rewrite pair_replace_cons2_ne by assumption. fold lfcr.
      cbn [map]. f_equal. rewrite <- E. apply IH. simpl in Hk |- *. lia.
    + destruct (Z.eqb_spec c 10) as [Hc10|Hc10]; destruct (Z.eqb_spec d 13) as [Hd13|Hd13]; cbn [andb].
      * (* LF CR ... *)
        subst c d. destruct r' as [|e r''].
        -- cbn. reflexivity.
        -- destruct (Z.eqb_spec e 10) as [He|He].
           ++ (* LF CR LF: the CR LF is replaced first *)
              subst e. unfold crlf at 1. rewrite pair_replace_cons_ne by lia. rewrite pair_replace_hit. fold crlf.
              unfold lfcr. rewrite pair_replace_cons2_ne by lia. rewrite pair_replace_cons_ne by lia. fold lfcr.
              cbn [map]. rewrite breaks_step. replace ((13 =? 13) && (10 =? 10)) with true by reflexivity.
              change (brk1 10) with 32. change (brk1 32) with 32. f_equal. f_equal. apply IH. simpl in Hk. lia.
           ++ unfold crlf at 1. rewrite pair_replace_cons_ne by lia.
              rewrite pair_replace_cons2_ne by assumption. fold crlf.
              unfold lfcr. rewrite pair_replace_hit. fold lfcr.
              cbn [map]. f_equal. apply IH. simpl in Hk |- *. lia.
      * (* LF, not followed by CR *)
        subst c. unfold crlf at 1. rewrite pair_replace_cons_ne by lia. fold crlf.
        destruct (crlf (d :: r')) as [|h t] eqn:E; [exfalso; eapply crlf_nonempty; eassumption|].
        assert (Hh : h <> 13). { intro Hh. pose proof (crlf_head13 _ _ _ _ E Hh). lia. }
        unfold lfcr. rewrite pair_replace_cons2_ne by assumption. fold lfcr.
        cbn [map]. f_equal. rewrite <- E. apply IH. simpl in Hk |- *. lia.
      * unfold crlf at 1. rewrite pair_replace_cons_ne by assumption. fold crlf.
        unfold lfcr. rewrite pair_replace_cons_ne by assumption. fold lfcr.
        cbn [map]. f_equal. apply IH. simpl in Hk |- *. lia.
      * unfold crlf at 1. rewrite pair_replace_cons_ne by assumption. fold crlf.
        unfold lfcr. rewrite pair_replace_cons_ne by assumption. fold lfcr.
        cbn [map]. f_equal. apply IH. simpl in Hk |- *. lia.
Qed.

Theorem replace5_breaks : forall s, replace5 s = breaks s.
Proof. intro s. rewrite replace5_maps. apply (replace5_breaks_aux (length s)). lia. Qed.

(* ---------------------------------------------------------------------------------------------- *)
(* what the pass does, declaratively: the string is read as a sequence of symbols -- CRLF, LFCR, a  *)
(* lone tab / CR / LF, any other character -- every line break or tab symbol becomes ONE space,     *)
(* every other character is copied.  The reading never leaves a CR next to an LF as two separate    *)
(* line breaks (p = the lone CR / LF just before, if any).                                          *)
(* ---------------------------------------------------------------------------------------------- *)
Inductive reading : option Z -> str -> str -> Prop :=
| rd_nil  : forall p, reading p [] []
| rd_crlf : forall p r o, reading None r o -> reading p (13 :: 10 :: r) (32 :: o)
| rd_lfcr : forall p r o, reading None r o -> reading p (10 :: 13 :: r) (32 :: o)
| rd_tab  : forall p r o, reading None r o -> reading p (9 :: r) (32 :: o)
| rd_lone : forall p c r o, (c = 10 \/ c = 13) -> (p = None \/ p = Some c) ->
            reading (Some c) r o -> reading p (c :: r) (32 :: o)
| rd_chr  : forall p c r o, is_brk c = false -> reading None r o -> reading p (c :: r) (c :: o).

(* may a reading continue with s after a lone p? *)
Definition lone_ok (p : option Z) (s : str) : Prop :=
  match p with
  | None => True
  | Some q => (q = 13 -> forall r, s <> 10 :: r)
              /\ (q = 10 -> forall r, s = 13 :: r -> exists r', r = 10 :: r')
              /\ (q = 10 \/ q = 13)
  end.

Lemma is_brk_cases : forall c, is_brk c = true -> c = 9 \/ c = 10 \/ c = 13.
Proof.
  intros c H. unfold is_brk in H.
  destruct (Z.eqb_spec c 9); [auto|]. destruct (Z.eqb_spec c 10); [auto|].
  destruct (Z.eqb_spec c 13); [auto|]. discriminate.
Qed.

Lemma lone_first : forall p c s, lone_ok p (c :: s) -> (c = 10 \/ c = 13) ->
  (c = 13 -> forall r, s <> 10 :: r) -> p = None \/ p = Some c.
Proof.
  intros p c s H Hc Hn. destruct p as [q|]; [|auto]. right.
  destruct H as (H13 & H10 & [Hq|Hq]); subst q.
  - destruct Hc as [->| ->]; [reflexivity|].
    destruct (H10 eq_refl s eq_refl) as [r' ->]. exfalso. eapply Hn; reflexivity.
  - destruct Hc as [->| ->]; [|reflexivity]. exfalso. eapply H13; reflexivity.
Qed.

Lemma breaks_reading_aux : forall k s p, (length s <= k)%nat -> lone_ok p s -> reading p s (breaks s).
Proof.
  induction k as [|k IH]; intros s p Hk Hp.
  - destruct s; [constructor | simpl in Hk; lia].
  - destruct s as [|c r]; [constructor|]. destruct r as [|d r'].
    + (* one character *)
      cbn [breaks]. unfold brk1. destruct (is_brk c) eqn:Eb.
      * destruct (is_brk_cases c Eb) as [->|Hc].
        -- apply rd_tab. constructor.
        -- apply rd_lone; [exact Hc | | constructor].
           apply (lone_first p c [] Hp Hc). intros _ r. discriminate.
      * apply rd_chr; [exact Eb | constructor].
    + rewrite breaks_step.
      destruct (Z.eqb_spec c 13) as [Hc13|Hc13]; destruct (Z.eqb_spec d 10) as [Hd10|Hd10]; cbn [andb].
      * subst. apply rd_crlf. apply IH; [simpl in Hk; lia | exact I].
      * subst c. replace ((13 =? 10) && (d =? 13)) with false by reflexivity.
        change (brk1 13) with 32. apply rd_lone; [auto | | ].
        -- apply (lone_first p 13 (d :: r') Hp); [auto|]. intros _ r E. inversion E. contradiction.
        -- apply IH; [simpl in Hk |- *; lia|]. repeat split; [| discriminate | auto].
           intros _ r E. inversion E. contradiction.
      * subst d. replace ((c =? 10) && (10 =? 13)) with false by (rewrite andb_false_r; reflexivity).
        unfold brk1. destruct (is_brk c) eqn:Eb.
        -- destruct (is_brk_cases c Eb) as [->|[->|Hc]]; [| | contradiction].
           ++ apply rd_tab. apply IH; [simpl in Hk |- *; lia | exact I].
           ++ apply rd_lone; [auto | | ].
              ** apply (lone_first p 10 (10 :: r') Hp); [auto|]. intro E; discriminate.
              ** apply IH; [simpl in Hk |- *; lia|]. repeat split; [discriminate | | auto].
                 intros _ r E. discriminate.
        -- apply rd_chr; [exact Eb|]. apply IH; [simpl in Hk |- *; lia | exact I].
      * destruct (Z.eqb_spec c 10) as [Hc10|Hc10]; destruct (Z.eqb_spec d 13) as [Hd13|Hd13]; cbn [andb].
        -- subst c d. destruct r' as [|e r''].
           ++ apply rd_lfcr. constructor.
           ++ destruct (Z.eqb_spec e 10) as [He|He].
              ** subst e. apply rd_lone; [auto | | ].
                 --- apply (lone_first p 10 (13 :: 10 :: r'') Hp); [auto|]. intro E; discriminate.
                 --- apply IH; [simpl in Hk |- *; lia|]. repeat split; [discriminate | | auto].
                     intros _ r E. inversion E. eauto.
              ** apply rd_lfcr. apply IH; [simpl in Hk |- *; lia | exact I].
        -- subst c. change (brk1 10) with 32. apply rd_lone; [auto | | ].
           ++ apply (lone_first p 10 (d :: r') Hp); [auto|]. intro E; discriminate.
           ++ apply IH; [simpl in Hk |- *; lia|]. repeat split; [discriminate | | auto].
              intros _ r E. inversion E. contradiction.
        -- unfold brk1. destruct (is_brk c) eqn:Eb.
           ++ destruct (is_brk_cases c Eb) as [->|[->| ->]]; [| contradiction | contradiction].
              apply rd_tab. apply IH; [simpl in Hk |- *; lia | exact I].
           ++ apply rd_chr; [exact Eb|]. apply IH; [simpl in Hk |- *; lia | exact I].
        -- unfold brk1. destruct (is_brk c) eqn:Eb.
           ++ destruct (is_brk_cases c Eb) as [->|[->| ->]]; [| contradiction | contradiction].
              apply rd_tab. apply IH; [simpl in Hk |- *; lia | exact I].
           ++ apply rd_chr; [exact Eb|]. apply IH; [simpl in Hk |- *; lia | exact I].
Qed.

Theorem breaks_reading : forall s, reading None s (breaks s).
Proof. intro s. apply (breaks_reading_aux (length s)); [lia | exact I]. Qed.

(* a reading produces no tab / CR / LF and keeps the length of everything but the paired breaks *)
Lemma reading_no_brk : forall p s o, reading p s o -> Forall (fun c => is_brk c = false) o.
Proof.
  intros p s o H. induction H; constructor; auto.
Qed.

Lemma breaks_no_brk : forall s, Forall (fun c => is_brk c = false) (breaks s).
Proof. intro s. eapply reading_no_brk. apply breaks_reading. Qed.

(* a string without tab / CR / LF is left alone *)
Lemma breaks_fix : forall s, Forall (fun c => is_brk c = false) s -> breaks s = s.
Proof.
  induction s as [|c r IH]; intro H; [reflexivity|].
  inversion H as [|? ? Hc Hr]; subst. specialize (IH Hr).
  assert (Hc13 : (c =? 13) = false).
  { unfold is_brk in Hc. destruct (c =? 13); [rewrite !orb_true_r in Hc; discriminate | reflexivity]. }
  assert (Hc10 : (c =? 10) = false).
  { unfold is_brk in Hc. destruct (c =? 10); [rewrite orb_true_r in Hc; discriminate | reflexivity]. }
  destruct r as [|d r'].
  - cbn [breaks]. unfold brk1. rewrite Hc. reflexivity.
  - rewrite breaks_step, Hc13, Hc10. cbn [andb]. unfold brk1. rewrite Hc, IH. reflexivity.
Qed.

(* ============================================================================================== *)
(* 3. strip, delete spaces, squeeze                                                                *)
(* ============================================================================================== *)
Definition all_ws (T : tables) (s : str) : Prop := Forall (fun c => t_space T c = true) s.
Definition starts_nonws (T : tables) (s : str) : Prop :=
  match s with [] => True | c :: _ => t_space T c = false end.
(* neither the first nor the last character is whitespace *)
Definition trimmed (T : tables) (s : str) : Prop := starts_nonws T s /\ starts_nonws T (rev s).

Lemma drop_ws_spec : forall T s,
  exists l, s = l ++ drop_ws T s /\ all_ws T l /\ starts_nonws T (drop_ws T s).
Proof.
  intros T s. induction s as [|c r (l & E & Hl & Hs)].
  - exists []. repeat split; constructor.
  - cbn [drop_ws]. destruct (t_space T c) eqn:Ec.
    + exists (c :: l). repeat split; [cbn; f_equal; exact E | constructor; assumption | exact Hs].
    + exists []. repeat split; [constructor | exact Ec].
Qed.

Lemma drop_ws_fix : forall T s, starts_nonws T s -> drop_ws T s = s.
Proof. intros T [|c r] H; [reflexivity|]. cbn in *. rewrite H. reflexivity. Qed.

Lemma drop_ws_all : forall T l s, all_ws T l -> drop_ws T (l ++ s) = drop_ws T s.
Proof.
  intros T l s H. induction H as [|c l Hc Hl IH]; [reflexivity|]. cbn. rewrite Hc. exact IH.
Qed.

Lemma all_ws_rev : forall T l, all_ws T l -> all_ws T (rev l).
Proof. intros T l H. apply Forall_rev. exact H. Qed.

(* s.strip() is s without a whitespace prefix and a whitespace suffix, and it is trimmed *)
Theorem strip_spec : forall T s,
  exists l r, s = l ++ py_strip T s ++ r /\ all_ws T l /\ all_ws T r /\ trimmed T (py_strip T s).
Proof.
  intros T s. unfold py_strip.
  destruct (drop_ws_spec T s) as (l & E1 & Hl & H1).
  set (m := drop_ws T s) in *.
  destruct (drop_ws_spec T (rev m)) as (l2 & E2 & Hl2 & H2).
  set (x := drop_ws T (rev m)) in *.
  assert (Em : m = rev x ++ rev l2).
  { rewrite <- rev_app_distr, <- E2, rev_involutive. reflexivity. }
  exists l, (rev l2). repeat split.
  - rewrite E1 at 1. rewrite Em. reflexivity.
  - exact Hl.
  - apply all_ws_rev. exact Hl2.
  - destruct (rev x) as [|c t] eqn:Ex; [exact I|]. rewrite Em in H1. exact H1.
  - rewrite rev_involutive. exact H2.
Qed.

Lemma strip_fix : forall T s, trimmed T s -> py_strip T s = s.
Proof.
  intros T s [H1 H2]. unfold py_strip. rewrite (drop_ws_fix T s H1), (drop_ws_fix T (rev s) H2).
  apply rev_involutive.
Qed.

Lemma strip_ws_ends : forall T l s r, all_ws T l -> all_ws T r -> py_strip T (l ++ s ++ r) = py_strip T s.
Proof.
  intros T l s r Hl Hr. unfold py_strip. rewrite drop_ws_all by assumption.
  destruct (drop_ws_spec T s) as (l1 & E1 & Hl1 & H1).
  destruct (drop_ws T s) as [|c m] eqn:Em.
  - (* s is all whitespace *)
    rewrite app_nil_r in E1. subst l1.
    assert (Hall : all_ws T (s ++ r)) by (apply Forall_app; split; assumption).
    assert (Hd : forall x, all_ws T x -> drop_ws T x = []).
    { intros x Hx. rewrite <- (app_nil_r x). rewrite drop_ws_all by assumption. reflexivity. }
    rewrite (Hd _ Hall). reflexivity.
  - assert (Es : drop_ws T (s ++ r) = (c :: m) ++ r).
    { rewrite E1 at 1. rewrite <- app_assoc. rewrite drop_ws_all by assumption.
      cbn in H1. cbn. rewrite H1. reflexivity. }
    rewrite Es. rewrite rev_app_distr. rewrite drop_ws_all by (apply all_ws_rev; assumption). reflexivity.
Qed.

Lemma strip_all_ws : forall T x, all_ws T x -> py_strip T x = [].
Proof.
  intros T x H. pose proof (strip_ws_ends T x [] [] H (Forall_nil _)) as E.
  cbn [app] in E. rewrite app_nil_r in E. exact E.
Qed.

Definition no_space (c : Z) : bool := negb (c =? 32).
Definition delete_spaces (s : str) : str := filter no_space s.

(* re.sub(' +', ' ', s): every maximal run of spaces is replaced by one space *)
Inductive squeezed : str -> str -> Prop :=
| sq_nil  : squeezed [] []
| sq_chr  : forall c r o, c <> 32 -> squeezed r o -> squeezed (c :: r) (c :: o)
| sq_drop : forall r o, squeezed (32 :: r) o -> squeezed (32 :: 32 :: r) o
| sq_keep : forall r o, (forall r', r <> 32 :: r') -> squeezed r o -> squeezed (32 :: r) (32 :: o).

Lemma squeeze_go_true_false : forall s, (forall r', s <> 32 :: r') -> squeeze_go true s = squeeze_go false s.
Proof.
  intros [|c r] H; [reflexivity|]. cbn [squeeze_go].
  destruct (Z.eqb_spec c 32); [subst; exfalso; eapply H; reflexivity | reflexivity].
Qed.

Theorem squeeze_spec : forall s, squeezed s (re_sub_spaces s).
Proof.
  unfold re_sub_spaces. induction s as [|c r IH]; [constructor|].
  cbn [squeeze_go]. destruct (Z.eqb_spec c 32) as [->|Hc].
  - destruct r as [|d r'].
    + apply sq_keep; [intros r' E; discriminate | constructor].
    + destruct (Z.eqb_spec d 32) as [->|Hd].
      * apply sq_drop. cbn [squeeze_go] in IH |- *. rewrite Z.eqb_refl in *. exact IH.
      * rewrite squeeze_go_true_false by (intros r'' E; inversion E; contradiction).
        apply sq_keep; [intros r'' E; inversion E; contradiction | exact IH].
  - apply sq_chr; assumption.
Qed.

Fixpoint no_double_space (s : str) : Prop :=
  match s with
  | c :: ((d :: _) as r) => ~ (c = 32 /\ d = 32) /\ no_double_space r
  | _ => True
  end.

Lemma squeeze_go_no_double : forall s b,
  no_double_space (squeeze_go b s) /\ (b = true -> forall r', squeeze_go b s <> 32 :: r').
Proof.
  induction s as [|c r IH]; intro b.
  - split; [exact I | intros _ r' E; discriminate].
  - cbn [squeeze_go]. destruct (Z.eqb_spec c 32) as [->|Hc].
    + destruct b.
      * destruct (IH true) as [H1 H2]. split; [exact H1 | intros _; apply H2; reflexivity].
      * destruct (IH true) as [H1 H2]. split; [|intros E; discriminate].
        destruct (squeeze_go true r) as [|d t] eqn:E; [exact I|].
        split; [|exact H1]. intros [_ ->]. eapply (H2 eq_refl). reflexivity.
    + destruct (IH false) as [H1 _]. split.
      * destruct (squeeze_go false r) as [|d t] eqn:E; [exact I|]. split; [|exact H1]. intros [? _]. contradiction.
      * intros _ r' E. inversion E. contradiction.
Qed.

Theorem squeeze_no_double : forall s, no_double_space (re_sub_spaces s).
Proof. intro s. apply (squeeze_go_no_double s false). Qed.

Lemma squeeze_go_fix : forall s b, no_double_space s -> (b = true -> forall r', s <> 32 :: r') -> squeeze_go b s = s.
Proof.
  induction s as [|c r IH]; intros b Hn Hb; [reflexivity|].
  cbn [squeeze_go]. destruct (Z.eqb_spec c 32) as [->|Hc].
  - destruct b; [exfalso; eapply Hb; reflexivity|]. f_equal.
    destruct r as [|d t]; [reflexivity|]. destruct Hn as [Hcd Hn]. apply IH; [exact Hn|].
    intros _ r' E. inversion E; subst. apply Hcd. split; reflexivity.
  - f_equal. apply IH; [|intro; discriminate]. destruct r; [exact I | apply Hn].
Qed.

Lemma squeeze_fix : forall s, no_double_space s -> re_sub_spaces s = s.
Proof. intros s H. apply squeeze_go_fix; [exact H | intro; discriminate]. Qed.

Lemma squeeze_idem : forall s, re_sub_spaces (re_sub_spaces s) = re_sub_spaces s.
Proof. intro s. apply squeeze_fix. apply squeeze_no_double. Qed.

(* ============================================================================================== *)
(* 4. the declarative normaliser and  clean_input = norm                                           *)
(* ============================================================================================== *)
Definition norm (T : tables) (cfg : config) (s : str) : str :=
  let x := breaks s in                                                 (* tabs, line breaks -> one space each *)
  let x := if cfg_case_sensitive cfg then x else py_lower T x in     (* fold iff not case_sensitive *)
  let x := if cfg_strip cfg then py_strip T x else x in              (* trim iff strip *)
  let x := if cfg_strip_all cfg then delete_spaces x else x in       (* delete every space iff strip_all *)
  if cfg_clean_spaces cfg then re_sub_spaces x else x.               (* squeeze runs of spaces iff clean_spaces *)

Theorem clean_spec : forall T cfg s, clean_input T cfg s = norm T cfg s.
Proof.
  intros T cfg s. unfold clean_input, norm. cbv zeta.
  change (py_replace [10] [32] (py_replace [13] [32] (py_replace [10; 13] [32] (py_replace [13; 10] [32]
            (py_replace [9] [32] s))))) with (replace5 s).
  rewrite replace5_breaks.
  destruct (cfg_case_sensitive cfg), (cfg_strip cfg), (cfg_strip_all cfg), (cfg_clean_spaces cfg);
    cbn [negb]; rewrite ?replace_del; reflexivity.
Qed.

(* ============================================================================================== *)
(* 5. hypotheses on the character tables (checked by the harness over all of Unicode on every run)  *)
(* ============================================================================================== *)
Record tables_ok (T : tables) : Prop := mkTablesOk {
  ok_tab : t_space T 9 = true;
  ok_lf : t_space T 10 = true;
  ok_cr : t_space T 13 = true;
  ok_sp : t_space T 32 = true;
  ok_lower_ws : forall c, t_space T c = true -> t_lower T c = [c];
  ok_lower_nonws : forall c, t_space T c = false -> Forall (fun d => t_space T d = false) (t_lower T c);
  ok_lower_idem : forall c d, In d (t_lower T c) -> t_lower T d = [d]
}.

Definition nonws (T : tables) (c : Z) : bool := negb (t_space T c).
(* the characters that are not whitespace, in order *)
Definition content (T : tables) (s : str) : str := filter (nonws T) s.

Lemma brk_is_ws : forall T c, tables_ok T -> is_brk c = true -> t_space T c = true.
Proof.
  intros T c H Hc. destruct (is_brk_cases c Hc) as [->|[->| ->]]; [apply ok_tab | apply ok_lf | apply ok_cr]; exact H.
Qed.

Lemma reading_content : forall T p s o, tables_ok T -> reading p s o -> content T o = content T s.
Proof.
  intros T p s o H R. unfold content, nonws.
  induction R; cbn [filter]; rewrite ?(ok_sp T H), ?(ok_cr T H), ?(ok_lf T H), ?(ok_tab T H); cbn [negb]; auto.
  - destruct H0 as [->| ->]; rewrite ?(ok_cr T H), ?(ok_lf T H); cbn [negb]; exact IHR.
  - rewrite IHR. reflexivity.
Qed.

Lemma content_breaks : forall T s, tables_ok T -> content T (breaks s) = content T s.
Proof. intros T s H. eapply reading_content; [exact H | apply breaks_reading]. Qed.

Lemma filter_all : forall (f : Z -> bool) l, Forall (fun c => f c = true) l -> filter f l = l.
Proof. intros f l H. induction H as [|c l Hc Hl IH]; [reflexivity|]. cbn. rewrite Hc, IH. reflexivity. Qed.

Lemma filter_none : forall (f : Z -> bool) l, Forall (fun c => f c = false) l -> filter f l = [].
Proof. intros f l H. induction H as [|c l Hc Hl IH]; [reflexivity|]. cbn. rewrite Hc. exact IH. Qed.

Lemma content_lower : forall T s, tables_ok T -> content T (py_lower T s) = py_lower T (content T s).
Proof.
  intros T s H. unfold content, py_lower. induction s as [|c r IH]; [reflexivity|].
  cbn [flat_map filter]. rewrite filter_app, IH. destruct (t_space T c) eqn:Ec.
  - assert (En : nonws T c = false) by (unfold nonws; rewrite Ec; reflexivity).
    rewrite En, (ok_lower_ws T H c Ec). cbn [filter]. rewrite En. reflexivity.
  - assert (En : nonws T c = true) by (unfold nonws; rewrite Ec; reflexivity).
    rewrite En. cbn [flat_map]. f_equal. apply filter_all.
    eapply Forall_impl; [|apply (ok_lower_nonws T H c Ec)]. intros d Hd. unfold nonws. rewrite Hd. reflexivity.
Qed.

Lemma content_ws : forall T l, all_ws T l -> content T l = [].
Proof.
  intros T l H. apply filter_none. eapply Forall_impl; [|exact H]. intros c Hc. unfold nonws. rewrite Hc. reflexivity.
Qed.

Lemma content_strip : forall T s, content T (py_strip T s) = content T s.
Proof.
  intros T s. destruct (strip_spec T s) as (l & r & E & Hl & Hr & _).
  rewrite E at 2. unfold content. rewrite !filter_app. fold (content T l) (content T r).
  rewrite (content_ws T l Hl), (content_ws T r Hr), app_nil_r. reflexivity.
Qed.

Lemma nonws_space : forall T, tables_ok T -> nonws T 32 = false.
Proof. intros T H. unfold nonws. rewrite (ok_sp T H). reflexivity. Qed.

Lemma content_delete : forall T s, tables_ok T -> content T (delete_spaces s) = content T s.
Proof.
  intros T s H. unfold content, delete_spaces. induction s as [|c r IH]; [reflexivity|].
  cbn [filter]. unfold no_space at 1. destruct (Z.eqb_spec c 32) as [->|Hc]; cbn [negb].
  - rewrite (nonws_space T H). exact IH.
  - cbn [filter]. rewrite IH. reflexivity.
Qed.

Lemma content_squeeze_go : forall T s b, tables_ok T -> content T (squeeze_go b s) = content T s.
Proof.
  intros T s b H. unfold content. revert b. induction s as [|c r IH]; intro b; [reflexivity|].
  cbn [squeeze_go]. destruct (Z.eqb_spec c 32) as [->|Hc].
  - cbn [filter]. rewrite (nonws_space T H).
    destruct b; [apply IH|]. cbn [filter]. rewrite (nonws_space T H). apply IH.
  - cbn [filter]. rewrite IH. reflexivity.
Qed.

(* "no other character is ever ignored or altered": the non-whitespace characters of the cleaned string are exactly
   those of the input (folded iff case_sensitive is off), in the same order *)
Theorem nonspace_preserved : forall T cfg s, tables_ok T ->
  content T (clean_input T cfg s) = content T (if cfg_case_sensitive cfg then s else py_lower T s).
Proof.
  intros T cfg s H. rewrite clean_spec. unfold norm. cbv zeta.
  assert (E : content T (if cfg_case_sensitive cfg then breaks s else py_lower T (breaks s))
              = content T (if cfg_case_sensitive cfg then s else py_lower T s)).
  { destruct (cfg_case_sensitive cfg); [apply content_breaks; exact H|].
    rewrite !content_lower by exact H. rewrite content_breaks by exact H. reflexivity. }
  rewrite <- E.
  destruct (cfg_clean_spaces cfg); [unfold re_sub_spaces; rewrite content_squeeze_go by exact H|];
    (destruct (cfg_strip_all cfg); [rewrite content_delete by exact H|]);
    (destruct (cfg_strip cfg); [rewrite content_strip|]); reflexivity.
Qed.

(* ============================================================================================== *)
(* 6. cleaning is idempotent                                                                       *)
(* ============================================================================================== *)
Definition nobrk (s : str) : Prop := Forall (fun c => is_brk c = false) s.
Definition lowered (T : tables) (s : str) : Prop := Forall (fun c => t_lower T c = [c]) s.
Definition nospace (s : str) : Prop := Forall (fun c => no_space c = true) s.

Lemma Forall_strip : forall T (P : Z -> Prop) s, Forall P s -> Forall P (py_strip T s).
Proof.
  intros T P s H. destruct (strip_spec T s) as (l & r & E & _). rewrite E in H.
  apply Forall_app in H. destruct H as [_ H]. apply Forall_app in H. apply H.
Qed.

Lemma Forall_filter : forall (P : Z -> Prop) f s, Forall P s -> Forall P (filter f s).
Proof.
  intros P f s H. induction H as [|c l Hc Hl IH]; [constructor|]. cbn. destruct (f c); [constructor|]; assumption.
Qed.

Lemma Forall_squeeze_go : forall (P : Z -> Prop) s b, Forall P s -> Forall P (squeeze_go b s).
Proof.
  intros P s b H. revert b. induction H as [|c l Hc Hl IH]; intro b; [constructor|].
  cbn [squeeze_go]. destruct (c =? 32) eqn:E.
  - apply Z.eqb_eq in E. subst c. destruct b; [apply IH | constructor; [exact Hc | apply IH]].
  - constructor; [exact Hc | apply IH].
Qed.

Lemma Forall_flat_map : forall (P : Z -> Prop) (f : Z -> str) s,
  Forall (fun c => Forall P (f c)) s -> Forall P (flat_map f s).
Proof.
  intros P f s H. induction H as [|c l Hc Hl IH]; [constructor|]. cbn. apply Forall_app. split; assumption.
Qed.

Lemma lower_nobrk : forall T s, tables_ok T -> nobrk s -> nobrk (py_lower T s).
Proof.
  intros T s H Hs. unfold nobrk, py_lower. apply Forall_flat_map.
  eapply Forall_impl; [|exact Hs]. intros c Hc. cbn beta.
  destruct (t_space T c) eqn:Ec.
  - rewrite (ok_lower_ws T H c Ec). constructor; [exact Hc | constructor].
  - eapply Forall_impl; [|apply (ok_lower_nonws T H c Ec)]. intros d Hd. cbn beta in Hd.
    destruct (is_brk d) eqn:Ed; [|reflexivity]. rewrite (brk_is_ws T d H Ed) in Hd. discriminate.
Qed.

Lemma lower_lowered : forall T s, tables_ok T -> lowered T (py_lower T s).
Proof.
  intros T s H. unfold lowered, py_lower. apply Forall_flat_map.
  apply Forall_forall. intros c _. apply Forall_forall. intros d Hd. eapply (ok_lower_idem T H); exact Hd.
Qed.

Lemma lower_fix : forall T s, lowered T s -> py_lower T s = s.
Proof.
  intros T s H. unfold py_lower. induction H as [|c l Hc Hl IH]; [reflexivity|]. cbn. rewrite Hc, IH. reflexivity.
Qed.

Lemma filter_rev' : forall (f : Z -> bool) l, filter f (rev l) = rev (filter f l).
Proof.
  intros f l. induction l as [|c r IH]; [reflexivity|]. cbn [rev filter]. rewrite filter_app, IH. cbn [filter].
  destruct (f c); [reflexivity | rewrite app_nil_r; reflexivity].
Qed.

Lemma nonws_not_space : forall T c, tables_ok T -> t_space T c = false -> c <> 32.
Proof. intros T c H Hc E. subst c. rewrite (ok_sp T H) in Hc. discriminate. Qed.

Lemma starts_nonws_delete : forall T s, tables_ok T -> starts_nonws T s -> starts_nonws T (delete_spaces s).
Proof.
  intros T [|c r] H Hs; [exact I|]. cbn in Hs. unfold delete_spaces. cbn [filter]. unfold no_space at 1.
  pose proof (nonws_not_space T c H Hs) as Hc. apply Z.eqb_neq in Hc. rewrite Hc. cbn. exact Hs.
Qed.

Lemma trimmed_delete : forall T s, tables_ok T -> trimmed T s -> trimmed T (delete_spaces s).
Proof.
  intros T s H [H1 H2]. split; [apply starts_nonws_delete; assumption|].
  unfold delete_spaces. rewrite <- filter_rev'. apply (starts_nonws_delete T (rev s)); assumption.
Qed.

Lemma squeeze_go_snoc : forall s b d, d <> 32 -> squeeze_go b (s ++ [d]) = squeeze_go b s ++ [d].
Proof.
  induction s as [|c r IH]; intros b d Hd.
  - cbn. apply Z.eqb_neq in Hd. rewrite Hd. reflexivity.
  - cbn [app squeeze_go]. destruct (c =? 32); [destruct b|]; rewrite IH by exact Hd; reflexivity.
Qed.

Lemma trimmed_squeeze : forall T s, tables_ok T -> trimmed T s -> trimmed T (re_sub_spaces s).
Proof.
  intros T s H [H1 H2]. unfold re_sub_spaces. split.
  - destruct s as [|c r]; [exact I|]. cbn in H1. cbn [squeeze_go].
    pose proof (nonws_not_space T c H H1) as Hc. apply Z.eqb_neq in Hc. rewrite Hc. exact H1.
  - destruct (rev s) as [|d t] eqn:E; [|].
    + assert (s = []) by (rewrite <- (rev_involutive s), E; reflexivity). subst s. exact I.
    + assert (Es : s = rev t ++ [d]) by (rewrite <- (rev_involutive s), E; reflexivity).
      cbn in H2. rewrite Es, squeeze_go_snoc by (eapply nonws_not_space; eassumption).
      rewrite rev_app_distr. exact H2.
Qed.

Lemma delete_nospace : forall s, nospace (delete_spaces s).
Proof.
  intro s. unfold nospace, delete_spaces. apply Forall_forall. intros c Hc. apply filter_In in Hc. apply Hc.
Qed.

Lemma nospace_no_double : forall s, nospace s -> no_double_space s.
Proof.
  induction s as [|c r IH]; intro H; [exact I|]. inversion H as [|? ? Hc Hr]; subst.
  destruct r as [|d t]; [exact I|]. split; [|apply IH; exact Hr].
  intros [-> _]. discriminate.
Qed.

Lemma delete_fix : forall s, nospace s -> delete_spaces s = s.
Proof. intros s H. apply filter_all. exact H. Qed.

(* what the cleaned string looks like *)
Record cleaned (T : tables) (cfg : config) (x : str) : Prop := mkCleaned {
  cl_nobrk : nobrk x;
  cl_lower : cfg_case_sensitive cfg = false -> lowered T x;
  cl_trim : cfg_strip cfg = true -> trimmed T x;
  cl_nospace : cfg_strip_all cfg = true -> nospace x;
  cl_single : cfg_clean_spaces cfg = true -> no_double_space x
}.

Lemma norm_cleaned : forall T cfg s, tables_ok T -> cleaned T cfg (norm T cfg s).
Proof.
  intros T cfg s H. unfold norm. cbv zeta.
  set (x1 := if cfg_case_sensitive cfg then breaks s else py_lower T (breaks s)).
  set (x2 := if cfg_strip cfg then py_strip T x1 else x1).
  set (x3 := if cfg_strip_all cfg then delete_spaces x2 else x2).
  assert (N1 : nobrk x1).
  { subst x1. destruct (cfg_case_sensitive cfg); [apply breaks_no_brk | apply lower_nobrk; [exact H | apply breaks_no_brk]]. }
  assert (N2 : nobrk x2) by (subst x2; destruct (cfg_strip cfg); [apply Forall_strip|]; exact N1).
  assert (N3 : nobrk x3) by (subst x3; destruct (cfg_strip_all cfg); [apply Forall_filter|]; exact N2).
  assert (L1 : cfg_case_sensitive cfg = false -> lowered T x1).
  { intro E. subst x1. rewrite E. apply lower_lowered. exact H. }
  assert (L2 : cfg_case_sensitive cfg = false -> lowered T x2).
  { intro E. subst x2. destruct (cfg_strip cfg); [apply Forall_strip|]; apply L1; exact E. }
  assert (L3 : cfg_case_sensitive cfg = false -> lowered T x3).
  { intro E. subst x3. destruct (cfg_strip_all cfg); [apply Forall_filter|]; apply L2; exact E. }
  assert (T2 : cfg_strip cfg = true -> trimmed T x2).
  { intro E. subst x2. rewrite E. destruct (strip_spec T x1) as (? & ? & _ & _ & _ & Ht). exact Ht. }
  assert (T3 : cfg_strip cfg = true -> trimmed T x3).
  { intro E. subst x3. destruct (cfg_strip_all cfg); [apply trimmed_delete; [exact H|]|]; apply T2; exact E. }
  assert (S3 : cfg_strip_all cfg = true -> nospace x3).
  { intro E. subst x3. rewrite E. apply delete_nospace. }
  destruct (cfg_clean_spaces cfg) eqn:Ec.
  - constructor.
    + apply Forall_squeeze_go. exact N3.
    + intro E. apply Forall_squeeze_go. apply L3. exact E.
    + intro E. apply trimmed_squeeze; [exact H | apply T3; exact E].
    + intro E. apply Forall_squeeze_go. apply S3. exact E.
    + intros _. apply squeeze_no_double.
  - constructor; auto. intro E. rewrite Ec in E. discriminate.
Qed.

Lemma norm_fix : forall T cfg x, cleaned T cfg x -> norm T cfg x = x.
Proof.
  intros T cfg x [N L Tr S D]. unfold norm. cbv zeta.
  rewrite (breaks_fix x N).
  assert (E1 : (if cfg_case_sensitive cfg then x else py_lower T x) = x).
  { destruct (cfg_case_sensitive cfg); [reflexivity | apply lower_fix; apply L; reflexivity]. }
  rewrite E1.
  assert (E2 : (if cfg_strip cfg then py_strip T x else x) = x).
  { destruct (cfg_strip cfg); [apply strip_fix; apply Tr; reflexivity | reflexivity]. }
  rewrite E2.
  assert (E3 : (if cfg_strip_all cfg then delete_spaces x else x) = x).
  { destruct (cfg_strip_all cfg); [apply delete_fix; apply S; reflexivity | reflexivity]. }
  rewrite E3.
  destruct (cfg_clean_spaces cfg); [apply squeeze_fix; apply D; reflexivity | reflexivity].
Qed.

Theorem clean_idempotent : forall T cfg s, tables_ok T ->
  clean_input T cfg (clean_input T cfg s) = clean_input T cfg s.
Proof.
  intros T cfg s H. rewrite !clean_spec. apply norm_fix. apply norm_cleaned. exact H.
Qed.

(* the cleaned string never contains a newline (so `$` in a validation pattern means "end of the string") *)
Lemma clean_no_newline : forall T cfg s, tables_ok T -> ~ In 10 (clean_input T cfg s).
Proof.
  intros T cfg s H Hin. rewrite clean_spec in Hin.
  pose proof (cl_nobrk T cfg _ (norm_cleaned T cfg s H)) as N.
  unfold nobrk in N. rewrite Forall_forall in N. specialize (N 10 Hin). discriminate.
Qed.

(* ============================================================================================== *)
(* 7. whitespace at the ends is ignored when strip is on                                           *)
(* ============================================================================================== *)
Lemma nonbrk_ne : forall c, is_brk c = false -> c <> 10 /\ c <> 13 /\ c <> 9.
Proof.
  intros c H. unfold is_brk in H. repeat split; intro E; subst c; discriminate.
Qed.

Lemma breaks_single : forall c, breaks [c] = [brk1 c].
Proof. reflexivity. Qed.

(* a character that is not a tab / CR / LF separates the pass: on its left ... *)
Lemma breaks_app_left : forall k L c t, (length L <= k)%nat -> is_brk c = false ->
  breaks (L ++ c :: t) = breaks L ++ breaks (c :: t).
Proof.
  induction k as [|k IH]; intros L c t Hk Hc.
  - destruct L; [reflexivity | simpl in Hk; lia].
  - destruct (nonbrk_ne c Hc) as (C10 & C13 & _).
    destruct L as [|x L]; [reflexivity|]. destruct L as [|y L'].
    + cbn [app]. rewrite breaks_step, breaks_single.
      apply Z.eqb_neq in C10, C13. rewrite C10, C13, !andb_false_r. reflexivity.
    + cbn [app]. rewrite !breaks_step.
      destruct ((x =? 13) && (y =? 10)).
      * cbn [app]. f_equal. apply IH; [simpl in Hk; lia | exact Hc].
      * destruct ((x =? 10) && (y =? 13)).
        -- destruct L' as [|e L''].
           ++ cbn [app]. apply Z.eqb_neq in C10. rewrite C10. reflexivity.
           ++ cbn [app]. destruct (e =? 10).
              ** cbn [app]. f_equal. change (y :: e :: L'' ++ c :: t) with ((y :: e :: L'') ++ c :: t).
                 apply IH; [simpl in Hk |- *; lia | exact Hc].
              ** cbn [app]. f_equal. change (e :: L'' ++ c :: t) with ((e :: L'') ++ c :: t).
                 apply IH; [simpl in Hk |- *; lia | exact Hc].
        -- cbn [app]. f_equal. change (y :: L' ++ c :: t) with ((y :: L') ++ c :: t).
           apply IH; [simpl in Hk |- *; lia | exact Hc].
Qed.

(* ... and on its right *)
Lemma breaks_app_right : forall k t c R, (length t <= k)%nat -> is_brk c = false ->
  breaks (t ++ c :: R) = breaks (t ++ [c]) ++ breaks R.
Proof.
  induction k as [|k IH]; intros t c R Hk Hc; destruct (nonbrk_ne c Hc) as (C10 & C13 & _).
  - destruct t; [|simpl in Hk; lia]. cbn [app]. destruct R as [|d R']; [rewrite app_nil_r; reflexivity|].
    rewrite breaks_step, breaks_single. apply Z.eqb_neq in C10, C13. rewrite C10, C13. reflexivity.
  - destruct t as [|x t].
    + cbn [app]. destruct R as [|d R']; [rewrite app_nil_r; reflexivity|].
      rewrite breaks_step, breaks_single. apply Z.eqb_neq in C10, C13. rewrite C10, C13. reflexivity.
    + destruct t as [|y t'].
      * cbn [app]. rewrite !breaks_step. pose proof C10 as D10. pose proof C13 as D13.
        apply Z.eqb_neq in D10, D13. rewrite D10, D13, !andb_false_r.
        cbn [app]. f_equal. apply (IH [] c R); [simpl; lia | exact Hc].
      * cbn [app]. rewrite !breaks_step.
        destruct ((x =? 13) && (y =? 10)).
        -- cbn [app]. f_equal. apply IH; [simpl in Hk; lia | exact Hc].
        -- destruct ((x =? 10) && (y =? 13)).
           ++ destruct t' as [|e t''].
              ** cbn [app]. apply Z.eqb_neq in C10. rewrite C10. cbn [app]. f_equal.
                 apply (IH [] c R); [simpl; lia | exact Hc].
              ** cbn [app]. destruct (e =? 10).
                 --- cbn [app]. f_equal. change (y :: e :: t'' ++ c :: R) with ((y :: e :: t'') ++ c :: R).
                     change (y :: e :: t'' ++ [c]) with ((y :: e :: t'') ++ [c]).
                     apply IH; [simpl in Hk |- *; lia | exact Hc].
                 --- cbn [app]. f_equal. change (e :: t'' ++ c :: R) with ((e :: t'') ++ c :: R).
                     change (e :: t'' ++ [c]) with ((e :: t'') ++ [c]).
                     apply IH; [simpl in Hk |- *; lia | exact Hc].
           ++ cbn [app]. f_equal. change (y :: t' ++ c :: R) with ((y :: t') ++ c :: R).
              change (y :: t' ++ [c]) with ((y :: t') ++ [c]).
              apply IH; [simpl in Hk |- *; lia | exact Hc].
Qed.

Lemma reading_all_ws : forall T p s o, tables_ok T -> reading p s o -> all_ws T s -> all_ws T o.
Proof.
  intros T p s o H R. unfold all_ws. induction R; intro Hs.
  - constructor.
  - inversion Hs as [|? ? _ Hs']; subst. inversion Hs' as [|? ? _ Hs'']; subst.
    constructor; [apply ok_sp; exact H | apply IHR; exact Hs''].
  - inversion Hs as [|? ? _ Hs']; subst. inversion Hs' as [|? ? _ Hs'']; subst.
    constructor; [apply ok_sp; exact H | apply IHR; exact Hs''].
  - inversion Hs as [|? ? _ Hs']; subst. constructor; [apply ok_sp; exact H | apply IHR; exact Hs'].
  - inversion Hs as [|? ? _ Hs']; subst. constructor; [apply ok_sp; exact H | apply IHR; exact Hs'].
  - inversion Hs as [|? ? Hc Hs']; subst. constructor; [exact Hc | apply IHR; exact Hs'].
Qed.

Lemma breaks_all_ws : forall T s, tables_ok T -> all_ws T s -> all_ws T (breaks s).
Proof. intros T s H. eapply reading_all_ws; [exact H | apply breaks_reading]. Qed.

Lemma lower_all_ws : forall T s, tables_ok T -> all_ws T s -> py_lower T s = s.
Proof.
  intros T s H Hs. apply lower_fix. eapply Forall_impl; [|exact Hs]. intros c Hc. apply ok_lower_ws; assumption.
Qed.

Lemma lower_app : forall T a b, py_lower T (a ++ b) = py_lower T a ++ py_lower T b.
Proof. intros. unfold py_lower. apply flat_map_app. Qed.

Lemma nonws_nonbrk : forall T c, tables_ok T -> t_space T c = false -> is_brk c = false.
Proof.
  intros T c H Hc. destruct (is_brk c) eqn:E; [|reflexivity]. rewrite (brk_is_ws T c H E) in Hc. discriminate.
Qed.

(* the part of the pipeline up to and including strip, on a string with whitespace around a trimmed core *)
Definition upto_strip (T : tables) (cs : bool) (s : str) : str :=
  py_strip T (if cs then breaks s else py_lower T (breaks s)).

Lemma upto_strip_core : forall T cs L m R, tables_ok T -> all_ws T L -> all_ws T R -> trimmed T m ->
  upto_strip T cs (L ++ m ++ R) = upto_strip T cs m.
Proof.
  intros T cs L m R H HL HR [Hm1 Hm2]. unfold upto_strip.
  assert (Hws : forall x, all_ws T x -> all_ws T (if cs then breaks x else py_lower T (breaks x))).
  { intros x Hx. pose proof (breaks_all_ws T x H Hx) as Hb. destruct cs; [exact Hb|].
    rewrite lower_all_ws; assumption. }
  destruct m as [|c t].
  - (* nothing but whitespace *)
    cbn [app]. assert (HLR : all_ws T (L ++ R)) by (apply Forall_app; split; assumption).
    rewrite (strip_all_ws T _ (Hws _ HLR)). destruct cs; reflexivity.
  - cbn in Hm1. pose proof (nonws_nonbrk T c H Hm1) as Hc.
    destruct (rev (c :: t)) as [|d u] eqn:Er.
    { exfalso. apply (f_equal (@length Z)) in Er. rewrite rev_length in Er. simpl in Er. lia. }
    cbn in Hm2. pose proof (nonws_nonbrk T d H Hm2) as Hd.
    assert (Em : c :: t = rev u ++ [d]) by (rewrite <- (rev_involutive (c :: t)), Er; reflexivity).
    assert (E : breaks (L ++ (c :: t) ++ R) = breaks L ++ breaks (c :: t) ++ breaks R).
    { change ((c :: t) ++ R) with (c :: (t ++ R)).
      rewrite (breaks_app_left (length L) L c (t ++ R)) by (auto; lia).
      f_equal. change (c :: t ++ R) with ((c :: t) ++ R). rewrite Em, <- app_assoc. cbn [app].
      apply (breaks_app_right (length (rev u))); [lia | exact Hd]. }
    rewrite E. pose proof (Hws L HL) as WL. pose proof (Hws R HR) as WR.
    destruct cs.
    + apply strip_ws_ends; assumption.
    + rewrite !lower_app. apply strip_ws_ends; assumption.
Qed.

(* every string is whitespace + trimmed core + whitespace *)
Lemma ws_core_ws : forall T s, exists a m b, s = a ++ m ++ b /\ all_ws T a /\ all_ws T b /\ trimmed T m.
Proof.
  intros T s. destruct (strip_spec T s) as (l & r & E & Hl & Hr & Ht). exists l, (py_strip T s), r. auto.
Qed.

Theorem clean_ignores_outer_whitespace : forall T cfg l s r, tables_ok T -> cfg_strip cfg = true ->
  all_ws T l -> all_ws T r -> clean_input T cfg (l ++ s ++ r) = clean_input T cfg s.
Proof.
  intros T cfg l s r H Hst Hl Hr. rewrite !clean_spec. unfold norm. cbv zeta. rewrite Hst.
  fold (upto_strip T (cfg_case_sensitive cfg) (l ++ s ++ r)). fold (upto_strip T (cfg_case_sensitive cfg) s).
  destruct (ws_core_ws T s) as (a & m & b & E & Ha & Hb & Hm).
  assert (E1 : upto_strip T (cfg_case_sensitive cfg) (l ++ s ++ r) = upto_strip T (cfg_case_sensitive cfg) m).
  { rewrite E. replace (l ++ (a ++ m ++ b) ++ r) with ((l ++ a) ++ m ++ (b ++ r)) by (rewrite !app_assoc; reflexivity).
    apply upto_strip_core; [exact H | apply Forall_app; split; assumption | apply Forall_app; split; assumption | exact Hm]. }
  assert (E2 : upto_strip T (cfg_case_sensitive cfg) s = upto_strip T (cfg_case_sensitive cfg) m).
  { rewrite E. apply upto_strip_core; assumption. }
  rewrite E1, E2. reflexivity.
Qed.

(* ============================================================================================== *)
(* 8. check_response: comparison, accept_any minimums, validation                                  *)
(* ============================================================================================== *)
(* the three ways of refusing a response ('err' / 'msg' / None); debug=True turns None into 'msg' *)
Definition refusal (cfg : config) (how : explain) (m : str) : outcome :=
  match how with
  | ExErr => RaiseInvalid m
  | ExMsg => Ret (mkEntry OkFalse (0 # 1)%Q m)
  | ExNone => Ret (mkEntry OkFalse (0 # 1)%Q (if cfg_debug cfg then m else []))
  end.

Lemma construct_message_spec : forall cfg m how, construct_message cfg m how = refusal cfg how m.
Proof.
  intros cfg m how. unfold construct_message, refusal. destruct how; cbn; [reflexivity | reflexivity|].
  destruct (cfg_debug cfg); reflexivity.
Qed.

Lemma str_eqb_refl : forall s, str_eqb s s = true.
Proof. intro s. apply str_eqb_eq. reflexivity. Qed.

Lemma str_eqb_neq : forall a b, a <> b -> str_eqb a b = false.
Proof. intros a b H. destruct (str_eqb a b) eqn:E; [apply str_eqb_eq in E; contradiction | reflexivity]. Qed.

(* normal mode, no validation pattern: credited iff equal after cleaning *)
Theorem match_iff_equal_clean : forall T rm rf cfg a e s,
  cfg_validation_pattern cfg = None -> accept_any_mode cfg = false ->
  (clean_input T cfg s = clean_input T cfg e -> check_response T rm rf cfg a e s = Ret (credit_of a)) /\
  (clean_input T cfg s <> clean_input T cfg e -> check_response T rm rf cfg a e s = Ret zero_entry).
Proof.
  intros T rm rf cfg a e s Hp Ha. unfold check_response. cbv zeta. rewrite Hp, Ha. unfold grade_part. cbn [negb].
  split; intro H.
  - rewrite H, str_eqb_refl. reflexivity.
  - rewrite (str_eqb_neq _ _ H). reflexivity.
Qed.

(* the minimum length in force *)
Definition min_len (cfg : config) : Z :=
  if cfg_accept_nonempty cfg then Z.max 1 (cfg_min_length cfg) else cfg_min_length cfg.

Lemma effective_min_length_spec : forall cfg, 0 <= cfg_min_length cfg -> effective_min_length cfg = min_len cfg.
Proof.
  intros cfg H. unfold effective_min_length, min_len. cbv zeta.
  destruct (cfg_accept_nonempty cfg); cbn [andb]; [|reflexivity].
  destruct (Z.eqb_spec (cfg_min_length cfg) 0) as [E|E]; [rewrite E; reflexivity | lia].
Qed.

(* words of a string: places where a non-whitespace character follows whitespace or the start *)
Fixpoint word_starts (T : tables) (after_ws : bool) (s : str) : nat :=
  match s with
  | [] => O
  | c :: r => if t_space T c then word_starts T true r
              else ((if after_ws then 1 else 0) + word_starts T false r)%nat
  end.

Lemma split_go_count : forall T s cur,
  length (split_go T cur s) =
  ((match cur with [] => 0 | _ => 1 end) + word_starts T (match cur with [] => true | _ => false end) s)%nat.
Proof.
  intros T s. induction s as [|c r IH]; intro cur.
  - destruct cur; reflexivity.
  - cbn [split_go word_starts]. destruct (t_space T c).
    + destruct cur; [rewrite IH; reflexivity | cbn [length]; rewrite IH; reflexivity].
    + rewrite IH. destruct cur; cbn; lia.
Qed.

Theorem split_count : forall T s, length (py_split T s) = word_starts T true s.
Proof. intros T s. unfold py_split. rewrite split_go_count. reflexivity. Qed.

Definition meets_minimums (T : tables) (cfg : config) (x : str) : Prop :=
  min_len cfg <= Z.of_nat (length x) /\ cfg_min_words cfg <= Z.of_nat (word_starts T true x).

Lemma too_short_nonempty : forall a b suf, opt_truthy (Some (too_short a b suf)) = true.
Proof. reflexivity. Qed.

(* accept_any / accept_nonempty, no validation pattern *)
Theorem accept_any_spec : forall T rm rf cfg a e s,
  cfg_validation_pattern cfg = None -> accept_any_mode cfg = true -> 0 <= cfg_min_length cfg ->
  let x := clean_input T cfg s in
  (meets_minimums T cfg x -> check_response T rm rf cfg a e s = Ret (credit_of a)) /\
  (~ meets_minimums T cfg x ->
     exists m, m <> [] /\ check_response T rm rf cfg a e s = refusal cfg (cfg_explain_minimums cfg) m).
Proof.
  intros T rm rf cfg a e s Hp Ha Hl x. unfold check_response. cbv zeta. rewrite Hp, Ha. unfold grade_part. cbn [negb].
  fold x. rewrite (effective_min_length_spec cfg Hl). unfold minimums_msg. cbv zeta. rewrite split_count.
  unfold meets_minimums.
  destruct (Z.ltb_spec (Z.of_nat (length x)) (min_len cfg)) as [H1|H1];
    destruct (Z.ltb_spec (Z.of_nat (word_starts T true x)) (cfg_min_words cfg)) as [H2|H2].
  - split; [intros [? ?]; lia|]. intros _. eexists. split; [|rewrite too_short_nonempty, construct_message_spec; reflexivity].
    discriminate.
  - split; [intros [? ?]; lia|]. intros _. eexists. split; [|rewrite too_short_nonempty, construct_message_spec; reflexivity].
    discriminate.
  - split; [intros [? ?]; lia|]. intros _. eexists. split; [|rewrite too_short_nonempty, construct_message_spec; reflexivity].
    discriminate.
  - split; [intros _; reflexivity|]. intros H. exfalso. apply H. split; lia.
Qed.

(* the same configuration without a validation pattern *)
Definition without_pattern (cfg : config) : config :=
  mkConfig (cfg_debug cfg) (cfg_case_sensitive cfg) (cfg_strip cfg) (cfg_strip_all cfg) (cfg_clean_spaces cfg)
           (cfg_accept_any cfg) (cfg_accept_nonempty cfg) (cfg_min_length cfg) (cfg_min_words cfg)
           (cfg_explain_minimums cfg) None (cfg_explain_validation cfg) (cfg_invalid_msg cfg).

Section Validation.
  Variable T : tables.
  Variables rm rf : str -> str -> bool.        (* re.match / re.fullmatch as oracles: any functions *)
  Variable cfg : config.
  Variable p : str.
  Hypothesis Hp : cfg_validation_pattern cfg = Some p.

  (* a submission that fails the validation test re.fullmatch(p, cleaned) is refused as explain_validation says -- in
     accept_any mode, in accept_nonempty mode and in normal mode (where the author's expect passes the test) *)
  Theorem validation_refusal : forall a e s,
    rf p (clean_input T cfg s) = false ->
    (accept_any_mode cfg = true \/ rf p (clean_input T cfg e) = true) ->
    check_response T rm rf cfg a e s = refusal cfg (cfg_explain_validation cfg) (cfg_invalid_msg cfg).
  Proof.
    intros a e s Hs Hm. unfold check_response. cbv zeta. rewrite Hp, Hs. cbn [negb].
    rewrite construct_message_spec.
    destruct (accept_any_mode cfg); cbn [negb]; [reflexivity|].
    destruct Hm as [Hm|Hm]; [discriminate|]. rewrite Hm. reflexivity.
  Qed.

  (* a submission that passes the test is graded exactly as if there were no pattern *)
  Theorem validation_pass : forall a e s,
    rf p (clean_input T cfg s) = true ->
    (accept_any_mode cfg = true \/ rf p (clean_input T cfg e) = true) ->
    check_response T rm rf cfg a e s = check_response T rm rf (without_pattern cfg) a e s.
  Proof.
    intros a e s Hs Hm.
    assert (E : check_response T rm rf (without_pattern cfg) a e s
                = grade_part T cfg a (clean_input T cfg e) (clean_input T cfg s) (accept_any_mode cfg)
                    (effective_min_length cfg)) by reflexivity.
    rewrite E. unfold check_response. cbv zeta. rewrite Hp, Hs. cbn [negb].
    destruct (accept_any_mode cfg) eqn:Ea; cbn [negb].
    - reflexivity.
    - destruct Hm as [Hm|Hm]; [discriminate|]. rewrite Hm. reflexivity.
  Qed.

  (* normal mode: an expected answer that can never pass the test is an author error *)
  Theorem validation_expect_config_error : forall a e s,
    accept_any_mode cfg = false -> rf p (clean_input T cfg e) = false ->
    check_response T rm rf cfg a e s = RaiseConfig.
  Proof.
    intros a e s Ha He. unfold check_response. cbv zeta. rewrite Hp, Ha, He. reflexivity.
  Qed.

  (* the re.match oracle plays no part any more *)
  Theorem rematch_irrelevant : forall rm' a e s,
    check_response T rm rf cfg a e s = check_response T rm' rf cfg a e s.
  Proof. reflexivity. Qed.
End Validation.

(* the call path: grader(None, s) *)
Theorem call_accept_any_supplies_empty_expect : forall T rm rf cfg s,
  accept_any_mode cfg = true ->
  call T rm rf cfg None None s = check_response T rm rf cfg inferred_answer [] s.
Proof.
  intros T rm rf cfg s H. unfold call, call_expect. cbv zeta. unfold accept_any_mode in H. rewrite H. reflexivity.
Qed.

Theorem call_configured_answer : forall T rm rf cfg e a s,
  call T rm rf cfg (Some (e, a)) None s = check_response T rm rf cfg a e s.
Proof.
  intros T rm rf cfg e a s. unfold call, call_expect. cbv zeta.
  destruct (is_none (@None str) && (cfg_accept_any cfg || cfg_accept_nonempty cfg)); reflexivity.
Qed.

(* ============================================================================================== *)
(* 9. strip_all: every space (hence every tab and line break) is ignored, wherever it is            *)
(* ============================================================================================== *)
Definition core_char (c : Z) : bool := negb (is_brk c) && no_space c.
(* the string without tabs, CR, LF and spaces *)
Definition core (s : str) : str := filter core_char s.

Lemma reading_despace : forall p s o, reading p s o -> delete_spaces o = core s.
Proof.
  intros p s o R. unfold delete_spaces, core. induction R; cbn [filter]; try exact IHR.
  - reflexivity.
  - destruct H as [->| ->]; cbn; exact IHR.
  - unfold core_char. rewrite H. cbn [negb andb]. destruct (no_space c); rewrite IHR; reflexivity.
Qed.

Lemma despace_breaks : forall s, delete_spaces (breaks s) = core s.
Proof. intro s. eapply reading_despace. apply breaks_reading. Qed.

Lemma despace_lower : forall T x, tables_ok T -> delete_spaces (py_lower T x) = py_lower T (delete_spaces x).
Proof.
  intros T x H. unfold delete_spaces, py_lower. induction x as [|c r IH]; [reflexivity|].
  cbn [flat_map filter]. rewrite filter_app, IH.
  destruct (Z.eqb_spec c 32) as [->|Hc].
  - change (no_space 32) with false. cbv iota. rewrite (ok_lower_ws T H 32 (ok_sp T H)). reflexivity.
  - assert (En : no_space c = true) by (unfold no_space; apply Z.eqb_neq in Hc; rewrite Hc; reflexivity).
    rewrite En. cbn [flat_map]. f_equal. apply filter_all. destruct (t_space T c) eqn:Ec.
    + rewrite (ok_lower_ws T H c Ec). constructor; [exact En | constructor].
    + eapply Forall_impl; [|apply (ok_lower_nonws T H c Ec)]. intros d Hd. cbn beta in Hd.
      unfold no_space. pose proof (nonws_not_space T d H Hd) as Hn. apply Z.eqb_neq in Hn. rewrite Hn. reflexivity.
Qed.

Lemma despace_strip : forall T y, tables_ok T -> delete_spaces (py_strip T y) = py_strip T (delete_spaces y).
Proof.
  intros T y H. destruct (strip_spec T y) as (l & r & E & Hl & Hr & Ht).
  rewrite E at 2. unfold delete_spaces at 2. rewrite !filter_app. fold (delete_spaces l) (delete_spaces (py_strip T y)) (delete_spaces r).
  rewrite strip_ws_ends by (apply Forall_filter; assumption).
  symmetry. apply strip_fix. apply trimmed_delete; assumption.
Qed.

Theorem strip_all_depends_only_on_core : forall T cfg s, tables_ok T -> cfg_strip_all cfg = true ->
  clean_input T cfg s =
  (let x := core s in
   let x := if cfg_case_sensitive cfg then x else py_lower T x in
   if cfg_strip cfg then py_strip T x else x).
Proof.
  intros T cfg s H Hsa. rewrite clean_spec. unfold norm. cbv zeta. rewrite Hsa.
  set (y1 := if cfg_case_sensitive cfg then breaks s else py_lower T (breaks s)).
  set (y2 := if cfg_strip cfg then py_strip T y1 else y1).
  assert (E : (if cfg_clean_spaces cfg then re_sub_spaces (delete_spaces y2) else delete_spaces y2) = delete_spaces y2).
  { destruct (cfg_clean_spaces cfg); [|reflexivity]. apply squeeze_fix. apply nospace_no_double. apply delete_nospace. }
  rewrite E. subst y2 y1.
  destruct (cfg_strip cfg); [rewrite despace_strip by exact H|];
    (destruct (cfg_case_sensitive cfg); [|rewrite despace_lower by exact H]); rewrite despace_breaks; reflexivity.
Qed.

Corollary strip_all_ignores_spaces_anywhere : forall T cfg a b, tables_ok T -> cfg_strip_all cfg = true ->
  clean_input T cfg (a ++ 32 :: b) = clean_input T cfg (a ++ b).
Proof.
  intros T cfg a b H Hsa. rewrite !(strip_all_depends_only_on_core T cfg) by assumption.
  assert (E : core (a ++ 32 :: b) = core (a ++ b)) by (unfold core; rewrite !filter_app; reflexivity).
  rewrite E. reflexivity.
Qed.

(* ============================================================================================== *)
(* 10. clean_spaces: repeating a space changes nothing                                             *)
(* ============================================================================================== *)
Lemma squeeze_go_double : forall U f V, squeeze_go f (U ++ 32 :: 32 :: V) = squeeze_go f (U ++ 32 :: V).
Proof.
  induction U as [|c U IH]; intros f V.
  - cbn [app squeeze_go]. rewrite !Z.eqb_refl. destruct f; reflexivity.
  - cbn [app squeeze_go]. destruct (c =? 32); [destruct f|]; rewrite IH; reflexivity.
Qed.

Lemma squeeze_go_left : forall l f c X, c <> 32 ->
  squeeze_go f (l ++ c :: X) = squeeze_go f l ++ squeeze_go false (c :: X).
Proof.
  induction l as [|x l IH]; intros f c X Hc.
  - cbn [app squeeze_go]. apply Z.eqb_neq in Hc. rewrite Hc. reflexivity.
  - cbn [app squeeze_go]. destruct (x =? 32); [destruct f|]; rewrite IH by exact Hc; reflexivity.
Qed.

Lemma squeeze_go_right : forall u f d R, d <> 32 ->
  squeeze_go f (u ++ d :: R) = squeeze_go f (u ++ [d]) ++ squeeze_go false R.
Proof.
  induction u as [|x u IH]; intros f d R Hd.
  - cbn [app squeeze_go]. apply Z.eqb_neq in Hd. rewrite Hd. reflexivity.
  - cbn [app squeeze_go]. destruct (x =? 32); [destruct f|]; rewrite IH by exact Hd; reflexivity.
Qed.

Lemma squeeze_strip_comm : forall T y, tables_ok T -> re_sub_spaces (py_strip T y) = py_strip T (re_sub_spaces y).
Proof.
  intros T y H. destruct (strip_spec T y) as (l & r & E & Hl & Hr & Ht).
  set (m := py_strip T y) in *. destruct m as [|c t] eqn:Em.
  - (* y is all whitespace *)
    cbn [app] in E. assert (Hy : all_ws T y) by (rewrite E; apply Forall_app; split; assumption).
    symmetry. unfold re_sub_spaces at 2. cbn [squeeze_go]. apply strip_all_ws. apply Forall_squeeze_go. exact Hy.
  - destruct Ht as [Hc Hd]. cbn in Hc.
    destruct (rev (c :: t)) as [|d u] eqn:Er.
    { exfalso. apply (f_equal (@length Z)) in Er. rewrite rev_length in Er. simpl in Er. lia. }
    cbn in Hd.
    assert (Ect : c :: t = rev u ++ [d]) by (rewrite <- (rev_involutive (c :: t)), Er; reflexivity).
    pose proof (nonws_not_space T c H Hc) as Nc. pose proof (nonws_not_space T d H Hd) as Nd.
    assert (Es : re_sub_spaces y = squeeze_go false l ++ re_sub_spaces (c :: t) ++ squeeze_go false r).
    { unfold re_sub_spaces. rewrite E. change ((c :: t) ++ r) with (c :: (t ++ r)).
      rewrite squeeze_go_left by exact Nc. f_equal.
      change (c :: t ++ r) with ((c :: t) ++ r). rewrite Ect, <- app_assoc. cbn [app].
      apply squeeze_go_right. exact Nd. }
    rewrite Es. rewrite strip_ws_ends by (apply Forall_squeeze_go; assumption).
    symmetry. apply strip_fix. apply trimmed_squeeze; [exact H|]. split; [exact Hc|]. rewrite Er. exact Hd.
Qed.

Lemma breaks_space_cons : forall b, breaks (32 :: b) = 32 :: breaks b.
Proof.
  intro b. pose proof (breaks_app_right 0 [] 32 b (le_n 0) eq_refl) as E.
  cbn [app] in E. rewrite breaks_single in E. exact E.
Qed.

Lemma lower_space_cons : forall T Q, tables_ok T -> py_lower T (32 :: Q) = 32 :: py_lower T Q.
Proof.
  intros T Q H. unfold py_lower. cbn [flat_map]. rewrite (ok_lower_ws T H 32 (ok_sp T H)). reflexivity.
Qed.

Theorem clean_spaces_ignores_repeated_space : forall T cfg a b, tables_ok T -> cfg_clean_spaces cfg = true ->
  clean_input T cfg (a ++ 32 :: 32 :: b) = clean_input T cfg (a ++ 32 :: b).
Proof.
  intros T cfg a b H Hcs. destruct (cfg_strip_all cfg) eqn:Hsa.
  - rewrite !(strip_all_depends_only_on_core T cfg) by assumption.
    assert (E : core (a ++ 32 :: 32 :: b) = core (a ++ 32 :: b)) by (unfold core; rewrite !filter_app; reflexivity).
    rewrite E. reflexivity.
  - rewrite !clean_spec. unfold norm. cbv zeta. rewrite Hcs, Hsa.
    assert (B2 : breaks (a ++ 32 :: 32 :: b) = breaks a ++ 32 :: 32 :: breaks b).
    { rewrite (breaks_app_left (length a)) by (auto; lia). rewrite !breaks_space_cons. reflexivity. }
    assert (B1 : breaks (a ++ 32 :: b) = breaks a ++ 32 :: breaks b).
    { rewrite (breaks_app_left (length a)) by (auto; lia). rewrite breaks_space_cons. reflexivity. }
    rewrite B1, B2.
    generalize (breaks a) as P, (breaks b) as Q. intros P Q.
    assert (Fin : forall P' Q' : str,
               re_sub_spaces (if cfg_strip cfg then py_strip T (P' ++ 32 :: 32 :: Q') else P' ++ 32 :: 32 :: Q')
               = re_sub_spaces (if cfg_strip cfg then py_strip T (P' ++ 32 :: Q') else P' ++ 32 :: Q')).
    { intros P' Q'. destruct (cfg_strip cfg).
      - rewrite !squeeze_strip_comm by exact H. unfold re_sub_spaces. rewrite squeeze_go_double. reflexivity.
      - unfold re_sub_spaces. rewrite squeeze_go_double. reflexivity. }
    destruct (cfg_case_sensitive cfg).
    + apply Fin.
    + rewrite !lower_app, !lower_space_cons by exact H. apply Fin.
Qed.
