(* Proofs/PipelineEx.v -- C01: worked examples (non-vacuity) and the witnesses of the refuted clause. *)
From Coq Require Import ZArith QArith Lqa List Bool.
From Verif.Lib Require Import QRound PyNum.
From Verif.Model Require Import Result Credit Pipeline PipelineTables.
From Verif.Proofs Require Import Credit Pipeline PipelineWF PipelineShape.
Import ListNotations.
Open Scope Q_scope.

(* ------------------------------------------------------------------------------------------------
   REFUTED on the unchanged code: FormulaGrader.raw_check multiplies a comparer's partial-credit result by the
   answer's grade_decimal without recomputing ok; with grade_decimal = 0 the result is ok='partial' at grade 0.
   ------------------------------------------------------------------------------------------------ *)
Definition zero_alt : alt := mk_alt [ELeaf []] 0 [] RComputed.       (* {'expect': ..., 'grade_decimal': 0} *)

Lemma zero_alt_valid : alt_okp (fun _ => False) (fun _ => True) zero_alt.
Proof. apply mk_alt_ok; [repeat constructor | lra | exact I | intros o H; discriminate]. Qed.

Lemma formula_leaf_refuted : forall S,
  alt_okp (fun _ => False) (fun _ => True) zero_alt /\ Forall cfn_unit [CfPartial] /\
  i_e (formula_response false 0 (alt_credit zero_alt) (alt_msg zero_alt) (alt_ok zero_alt) [CfPartial])
    = mkEntry OkPartial ((1 # 2) * 0) [] /\
  ~ wf_ires S (formula_response false 0 (alt_credit zero_alt) (alt_msg zero_alt) (alt_ok zero_alt) [CfPartial]).
Proof.
  intro S. split; [exact zero_alt_valid|]. split; [repeat constructor|]. split; [reflexivity|].
  intros [_ [H | [H _]]]; [discriminate | vm_compute in H; discriminate].
Qed.

Definition refuting_oracles : oracles :=
  table_oracles [([0%nat], LCfn [CfPartial])] [] [].
Definition refuting_cfg : ccfg := mkC false None true.

Lemma call_refuted :
  exists OR cfg g a x,
    ans_ok (fun _ => False) (fun _ => True) a /\
    (forall p, lout_ok (fun _ => False) (o_leaf OR p)) /\ o_recompute OR = false /\
    (forall sched, c_sched cfg = Some sched -> forall q, 0 <= sched q <= 1) /\
    call 3 OR cfg g a x None [] = Ret (ESingle (mkEntry OkPartial ((1 # 2) * 0) [])) /\
    ~ wf_edx (fun _ => False) (ESingle (mkEntry OkPartial ((1 # 2) * 0) [])).
Proof.
  exists refuting_oracles, refuting_cfg, (GItem (KFormula 0) []), (AItem [zero_alt]), (IStr []).
  split; [constructor; constructor; [exact zero_alt_valid | constructor]|].
  split.
  { intro p. unfold refuting_oracles, table_oracles. simpl o_leaf. simpl.
    destruct (path_eqb p [0%nat]); simpl; [repeat constructor | exact I]. }
  split; [reflexivity|].
  split; [intros sched H; discriminate|].
  split; [reflexivity|].
  intros [_ [H | [H _]]]; [discriminate | vm_compute in H; discriminate].
Qed.

(* the same call under the repaired raw_check (ok re-derived from the scaled grade) *)
Lemma call_repaired_example :
  call 3 (table_oracles_v true [([0%nat], LCfn [CfPartial])] [] []) refuting_cfg (GItem (KFormula 0) []) (AItem [zero_alt])
       (IStr []) None [] = Ret (ESingle (mkEntry OkFalse ((1 # 2) * 0) [])).
Proof. reflexivity. Qed.

(* the full-strength statement holds of the repaired version *)
Lemma call_wf_repaired : forall (S : okv -> Prop) (OR : oracles),
  (forall p, lout_ok S (o_leaf OR p)) -> o_recompute OR = true ->
  forall fuel cfg g a x attempt log r,
    ans_ok S (fun _ => True) a ->
    (forall sched, c_sched cfg = Some sched -> forall q, 0 <= sched q <= 1) ->
    call fuel OR cfg g a x attempt log = Ret r -> wf_edx S r.
Proof. intros S OR Hl Hr. apply call_wf; [exact Hl | left; exact Hr]. Qed.

(* ------------------------------------------------------------------------------------------------
   examples
   ------------------------------------------------------------------------------------------------ *)
(* a grouped, nested, unordered ListGrader over string graders with attempt credit; inputs d c b a *)
Definition sA (c : Z) : ans := AItem [Alt [ELeaf [c]] 1 [] OkTrue].
Definition g_inner := GList (mkL false true [] true) [GItem KString []].
Definition g_outer := GList (mkL false true [1;1;2;2]%nat true) [g_inner].
Definition a_outer := AList [[AList [[sA 97; sA 98]]; AList [[sA 99; sA 100]]]].
Definition leafs1 : list (path * lout) :=
  [ ([0;0;0]%nat, LStr SReject); ([0;1;0]%nat, LStr SReject); ([0;2;0]%nat, LStr SReject); ([0;3;0]%nat, LStr SReject);
    ([1;0;0]%nat, LStr SReject); ([1;1;0]%nat, LStr SAccept); ([1;2;0]%nat, LStr SAccept); ([1;3;0]%nat, LStr SReject);
    ([2;0;0]%nat, LStr SReject); ([2;1;0]%nat, LStr SAccept); ([2;2;0]%nat, LStr SAccept); ([2;3;0]%nat, LStr SReject);
    ([3;0;0]%nat, LStr SReject); ([3;1;0]%nat, LStr SReject); ([3;2;0]%nat, LStr SReject); ([3;3;0]%nat, LStr SReject) ].
Definition perms1 : list (path * list (nat * nat)) :=
  [ ([0]%nat, [(0,1);(1,0)]%nat); ([0;0]%nat, [(0,0);(1,1)]%nat); ([1;0]%nat, [(0,1);(1,0)]%nat);
    ([2;0]%nat, [(0,1);(1,0)]%nat); ([3;0]%nat, [(0,0);(1,1)]%nat) ].

Lemma ex_grouped_list :
  match call 6 (table_oracles leafs1 perms1 []) (mkC false (Some (fun _ => 1 # 2)) true) g_outer a_outer
             (IList [[100]; [99]; [98]; [97]]%Z) (Some 2%Z) [] with
  | Ret (EMulti ov l) =>
      ov = s_note1 ++ [50%Z] ++ s_note2 ++ [53; 48]%Z ++ s_note3      (* "Maximum credit for attempt #2 is 50%." *)
      /\ map e_ok l = [OkPartial; OkPartial; OkPartial; OkPartial]
      /\ map (fun e => Qred (e_grade e)) l = [1 # 2; 1 # 2; 1 # 2; 1 # 2]
  | _ => False
  end.
Proof. vm_compute. repeat split. Qed.

(* SingleListGrader: answers a,b,c (unordered), student "c,a,x,y": two correct, one missing item replaced by a wrong one
   plus one extra -> (2 - 1)/3, message of the answer withheld; then the debug log is appended and formatted *)
Definition slg := GSList (mkSL false true false true [44%Z]) [] (GItem KString []).
Definition slg_ans := AItem [Alt [EItems [sA 97; sA 98; sA 99]] 1 [110; 105; 99; 101]%Z OkTrue].
Definition slg_leafs : list (path * lout) :=
  (* 4x4 padded matrix, rows = student items c a x y, columns = answers a b c (pad); index i*4+j *)
  [ ([0;0;0]%nat, LStr SReject); ([0;1;0]%nat, LStr SReject); ([0;2;0]%nat, LStr SAccept);
    ([0;4;0]%nat, LStr SAccept); ([0;5;0]%nat, LStr SReject); ([0;6;0]%nat, LStr SReject);
    ([0;8;0]%nat, LStr SReject); ([0;9;0]%nat, LStr SReject); ([0;10;0]%nat, LStr SReject);
    ([0;12;0]%nat, LStr SReject); ([0;13;0]%nat, LStr SReject); ([0;14;0]%nat, LStr SReject) ].
Definition slg_perms : list (path * list (nat * nat)) := [ ([0]%nat, [(0,2);(1,0);(2,1);(3,3)]%nat) ].

Lemma ex_single_list_debug :
  call 6 (table_oracles slg_leafs slg_perms []) (mkC true None true) slg slg_ans
       (IStr [99; 44; 97; 44; 120; 44; 121]%Z) None [76; 10; 71]%Z
  = Ret (ESingle (mkEntry OkPartial (Qmax 0 ((1 + (1 + (0 + (0 + 0))) - 1) / 3) * 1)
                          [76; 60; 98; 114; 47; 62; 10; 71]%Z)).        (* "L<br/>\nG" *)
Proof. vm_compute. reflexivity. Qed.

(* an author-pinned ok survives only at full credit, and attempt credit recomputes it *)
Lemma ex_pinned :
  let a := AItem [mk_alt [ELeaf []] 1 [] (RPinned OkPartial); mk_alt [ELeaf []] (1 # 2) [] (RPinned OkTrue)] in
  let o1 := table_oracles [([0%nat], LStr SAccept); ([1%nat], LStr SReject)] [] [] in
  let o2 := table_oracles [([0%nat], LStr SReject); ([1%nat], LStr SAccept)] [] [] in
  call 3 o1 (mkC false None true) (GItem KString []) a (IStr []) None [] = Ret (ESingle (mkEntry OkPartial 1 []))
  /\ call 3 o2 (mkC false None true) (GItem KString []) a (IStr []) None [] = Ret (ESingle (mkEntry OkPartial (1 # 2) []))
  /\ match call 3 o1 (mkC false (Some (fun _ => 1 # 2)) false) (GItem KString []) a (IStr []) (Some 3%Z) [] with
     | Ret (ESingle e) => e_ok e = OkPartial /\ e_grade e == 1 # 2
     | _ => False
     end.
Proof. vm_compute. repeat split; intro; discriminate. Qed.

(* MatrixGrader's suppression branches and IntervalGrader's bracket credit *)
Lemma ex_matrix_suppressed :
  let a := AItem [Alt [ELeaf []] 1 [] OkTrue] in
  let o := table_oracles [([0%nat], LMatErr MShape [33%Z])] [] [] in
  call 3 o (mkC false None true) (GItem (KMatrix 0 (mkM false false true)) [119%Z]) a (IStr []) None []
    = Ret (ESingle (mkEntry OkFalse 0 [33%Z]))
  /\ call 3 o (mkC false None true) (GItem (KMatrix 0 (mkM true true true)) [119%Z]) a (IStr []) None []
    = Ret (ESingle (mkEntry OkFalse 0 [119%Z]))
  /\ call 3 o (mkC false None true) (GItem (KMatrix 0 (mkM false true true)) [119%Z]) a (IStr []) None [] = Raise.
Proof. vm_compute. repeat split. Qed.

Definition iv := GInterval (mkIV true [44%Z] [91; 40]%Z [93; 41]%Z) [] (GItem (KFormula 0) []).
Definition iv_ans := AItem [Alt [EItems [AItem [Alt [ELeaf [91%Z]] 1 [] OkTrue; Alt [ELeaf [40%Z]] (1 # 2) [104%Z] OkPartial];
                                         sA 0; sA 0; AItem [Alt [ELeaf [41%Z]] 1 [] OkTrue]]] 1 [] OkTrue].
Lemma ex_interval :
  (* student "(1,2)": both numbers right, the opening bracket is the half-credit alternative with message "h" *)
  match call 6 (table_oracles [([0;0;0;0]%nat, LCfn [CfTrue]); ([0;0;1;0]%nat, LCfn [CfTrue])] [] []) (mkC false None true)
             iv iv_ans (IStr [40; 49; 44; 50; 41]%Z) None [] with
  | Ret (ESingle e) => e_ok e = OkPartial /\ e_grade e == 3 # 4 /\ e_msg e = [104%Z]
  | _ => False
  end.
Proof. vm_compute. repeat split; intro; discriminate. Qed.
