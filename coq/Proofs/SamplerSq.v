(* Proofs/SamplerSq.v -- the SquareMatrices pipeline (C12): every matrix the model returns satisfies the
   requested symmetry, tracelessness, determinant and norm, for every dimension and every accepted option
   combination, given the contracts of the numerical oracles (PRNG range, det, n-th root, eigenvalues, norm). *)
From Coq Require Import ZArith QArith Qabs Lia Lqa List Bool Arith Setoid Ring Field.
From Verif.Lib Require Import QRound.
From Verif.Model Require Import Sampler SamplerMat.
From Verif.Proofs Require Import Credit Sampler SamplerMat SamplerDet.
Import ListNotations.
Open Scope Q_scope.

(* the matrix handed to normalize in one pass *)
Definition sq_working (sym : symm) (traceless cplx : bool) (dim : nat) (a : attempt) : fmat :=
  materialize dim dim (sq_apply_symmetry sym traceless dim (raw_array cplx (a_re a) (a_im a))).

Lemma sq_working_spec : forall sym traceless cplx dim a,
  let W := sq_working sym traceless cplx dim a in
  has_symmetry sym dim W /\
  (traceless = true -> (0 < dim)%nat -> ceq (mtrace dim W) c0) /\
  (cplx = false -> is_real dim dim W).
Proof.
  intros sym traceless cplx dim a. cbv zeta. unfold sq_working. split; [|split].
  - apply (has_symmetry_ext sym dim _ _ (materialize_meq dim dim _)). apply apply_symmetry_has_symmetry.
  - intros -> Hd. rewrite (mtrace_ext dim _ _ (materialize_meq dim dim _)).
    unfold sq_apply_symmetry. cbv zeta. apply traceless_trace. exact Hd.
  - intros ->. apply (is_real_ext dim dim _ _ (materialize_meq dim dim _)).
    apply apply_symmetry_real. apply raw_array_real.
Qed.

Lemma cabs_lt_zero : forall z, ceq z c0 -> cabs_lt z tiny = true.
Proof.
  intros z H. unfold cabs_lt, Qltb. apply negb_true_iff. apply not_true_is_false. intro L.
  apply Qle_bool_iff in L. rewrite H in L. unfold cnormsq, c0, tiny in L. simpl in L. lra.
Qed.

Lemma cabs_lt_ext : forall z z' t, ceq z z' -> cabs_lt z t = cabs_lt z' t.
Proof.
  intros z z' t H. unfold cabs_lt, Qltb. f_equal.
  destruct (Qle_bool (t * t) (cnormsq z)) eqn:E1; destruct (Qle_bool (t * t) (cnormsq z')) eqn:E2; try reflexivity.
  - apply Qle_bool_iff in E1. rewrite H in E1. apply Qle_bool_iff in E1. congruence.
  - apply Qle_bool_iff in E2. rewrite <- H in E2. apply Qle_bool_iff in E2. congruence.
Qed.

(* ------------------------------------------------------------------------------------------ *)
(* determinant 1                                                                              *)
(* ------------------------------------------------------------------------------------------ *)
Definition real_det_branch (sym : symm) (cplx : bool) : bool :=
  negb cplx || symm_eqb sym SHerm || symm_eqb sym SAHerm.
Definition herm_like (sym : symm) : bool := symm_eqb sym SHerm || symm_eqb sym SAHerm.

(* the value handed to np.power(., 1/dimension) *)
Definition root_target (sym : symm) (cplx : bool) (a : attempt) : C :=
  if real_det_branch sym cplx
  then (if Qltb 0 (cre (a_det a)) then cofQ (cre (a_det a)) else cofQ (- cre (a_det a)))
  else a_det a.

Record det_one_contract (sym : symm) (cplx : bool) (dim : nat) (a : attempt) (W : fmat) : Prop := {
  d1_det : ceq (a_det a) (mdet dim W);                         (* np.linalg.det is the determinant *)
  d1_root_nz : ~ ceq (a_root a) c0;
  d1_root : ceq (cpow (a_root a) dim) (root_target sym cplx a); (* np.power(x, 1/n) is an n-th root of x *)
  d1_root_real : real_det_branch sym cplx = true -> creal (a_root a)   (* a real root of a positive real *)
}.

Lemma mdet_divc : forall n W r, ~ ceq r c0 -> ceq (cpow r n) (mdet n W) -> ceq (mdet n (mdivc W r)) c1.
Proof.
  intros n W r Hr Hp. rewrite (mdet_ext n _ _ (mdivc_meq n n W r)). rewrite mdet_scale, <- Hp.
  apply cpow_inv. exact Hr.
Qed.

Lemma mdet_opp_odd : forall n W, Nat.odd n = true -> ceq (mdet n (mopp W)) (copp (mdet n W)).
Proof.
  intros n W Ho. rewrite (mdet_ext n _ _ (mopp_meq n n W)). rewrite mdet_scale, (cpow_neg1_odd n Ho). ring.
Qed.

Lemma divc_trace : forall n W r, ceq (mtrace n W) c0 -> ceq (mtrace n (mdivc W r)) c0.
Proof. intros n W r H. rewrite (mtrace_ext n _ _ (mdivc_meq n n W r)). apply trace_zero_scale. exact H. Qed.
Lemma opp_trace : forall n W, ceq (mtrace n W) c0 -> ceq (mtrace n (mopp W)) c0.
Proof. intros n W H. rewrite (mtrace_ext n _ _ (mopp_meq n n W)). apply trace_zero_scale. exact H. Qed.
Lemma divc_real : forall n W r, is_real n n W -> creal r -> is_real n n (mdivc W r).
Proof.
  intros n W r H Hr. apply (is_real_ext n n _ _ (mdivc_meq n n W r)). apply scale_real; [exact H | apply creal_cinv; exact Hr].
Qed.
Lemma opp_real : forall n W, is_real n n W -> is_real n n (mopp W).
Proof.
  intros n W H. apply (is_real_ext n n _ _ (mopp_meq n n W)). apply scale_real; [exact H | reflexivity].
Qed.

Lemma real_branch_k_ok : forall sym cplx r, (real_det_branch sym cplx = true -> creal r) ->
  real_det_branch sym cplx = true \/ herm_like sym = false -> k_ok sym r.
Proof.
  intros sym cplx r Hr [H | H].
  - apply k_ok_real. apply Hr. exact H.
  - destruct sym; simpl in *; try exact I; discriminate.
Qed.

Lemma make_det_one_sound : forall sym cplx dim a W M tr,
  has_symmetry sym dim W -> (cplx = false -> is_real dim dim W) ->
  det_one_contract sym cplx dim a W ->
  make_det_one sym cplx dim a W = Done M tr ->
  has_symmetry sym dim M /\ (ceq (mtrace dim W) c0 -> ceq (mtrace dim M) c0) /\
  ceq (mdet dim M) c1 /\ (cplx = false -> is_real dim dim M).
Proof.
  intros sym cplx dim a W M tr Hsym Hreal [Hdet Hnz Hroot Hrr]. unfold make_det_one.
  destruct ((symm_eqb sym SAnti || symm_eqb sym SAHerm) && Nat.odd dim) eqn:Eassert; [discriminate|]. cbv zeta.
  unfold root_target in Hroot. fold (real_det_branch sym cplx). fold (real_det_branch sym cplx) in Hroot.
  destruct (real_det_branch sym cplx) eqn:Hb.
  - (* the determinant is real *)
    assert (Hdreal : creal (a_det a)).
    { apply (creal_ceq (mdet dim W)); [symmetry; exact Hdet|]. unfold real_det_branch in Hb. destruct cplx.
      - (* (anti)hermitian: the determinant is real by transpose invariance *)
        simpl in Hb. destruct sym; simpl in Hb; try discriminate.
        + apply herm_det_real. exact Hsym.
        + apply antiherm_even_det_real; [exact Hsym|]. simpl in Eassert.
          rewrite <- Nat.negb_odd. rewrite Eassert. reflexivity.
      - apply mdet_real. apply Hreal. reflexivity. }
    pose proof (creal_cofQ_cre _ Hdreal) as Ecof. specialize (Hrr eq_refl).
    assert (Hk : k_ok sym (a_root a)) by (apply k_ok_real; exact Hrr).
    destruct (Qltb 0 (cre (a_det a))) eqn:Hpos.
    + intro E. inversion E; subst M tr. clear E. split; [|split; [|split]].
      * apply sym_divc; assumption.
      * apply divc_trace.
      * apply mdet_divc; [exact Hnz|]. rewrite Hroot, Ecof. exact Hdet.
      * intro Hc. apply divc_real; [apply Hreal; exact Hc | exact Hrr].
    + destruct (Nat.odd dim && Qltb (cre (a_det a)) 0) eqn:Hneg; [|discriminate].
      apply andb_true_iff in Hneg. destruct Hneg as [Hodd _].
      intro E. inversion E; subst M tr. clear E. split; [|split; [|split]].
      * apply sym_divc; [apply sym_opp; exact Hsym | exact Hk].
      * intro Ht. apply divc_trace. apply opp_trace. exact Ht.
      * apply mdet_divc; [exact Hnz|]. rewrite Hroot, (mdet_opp_odd dim W Hodd), <- Hdet.
        clear - Hdreal. destruct (a_det a) as [x y]. unfold creal, cofQ, copp, cre, ceq in *. simpl in *.
        split; [reflexivity | rewrite Hdreal; ring].
      * intro Hc. apply divc_real; [apply opp_real; apply Hreal; exact Hc | exact Hrr].
  - (* complex determinant *)
    assert (Hc : cplx = true). { unfold real_det_branch in Hb. destruct cplx; [reflexivity | discriminate]. }
    assert (Hh : herm_like sym = false).
    { unfold real_det_branch in Hb. unfold herm_like. destruct (symm_eqb sym SHerm), (symm_eqb sym SAHerm), cplx; simpl in *; congruence. }
    destruct ((symm_eqb sym SNone || symm_eqb sym SDiag || symm_eqb sym SSym || symm_eqb sym SAnti) && cplx); [|discriminate].
    destruct (cabs_lt (a_det a) tiny); [discriminate|].
    intro E. inversion E; subst M tr. clear E.
    assert (Hk : k_ok sym (a_root a)) by (destruct sym; simpl in *; try exact I; discriminate).
    split; [|split; [|split]].
    + apply sym_divc; assumption.
    + apply divc_trace.
    + apply mdet_divc; [exact Hnz|]. rewrite Hroot. exact Hdet.
    + intro Hf. congruence.
Qed.

(* ------------------------------------------------------------------------------------------ *)
(* determinant 0                                                                              *)
(* ------------------------------------------------------------------------------------------ *)
Definition eig_matrix (sym : symm) (W : fmat) : fmat := if symm_eqb sym SAHerm then mscale ci W else W.
Definition is_eig (dim : nat) (X : fmat) (e : C) : Prop := ceq (mdet dim (msub X (mscale e meye))) c0.
Definition eigh_branch (sym : symm) (cplx : bool) : bool :=
  (symm_eqb sym SSym && negb cplx) || symm_eqb sym SHerm || symm_eqb sym SAHerm.

Record det_zero_contract (sym : symm) (cplx : bool) (dim : nat) (a : attempt) (W : fmat) : Prop := {
  d0_det : ceq (a_det a) (mdet dim W);
  d0_index : (a_index a < dim)%nat;                               (* np.random.randint(dimension) *)
  d0_len : length (a_eigs a) = dim;
  (* eigvals / eigvalsh return roots of the characteristic polynomial (of 1j*array for antihermitian) *)
  d0_eig : forall k, (k < dim)%nat -> is_eig dim (eig_matrix sym W) (nth k (a_eigs a) c0);
  d0_eigh_real : eigh_branch sym cplx = true -> forall k, (k < dim)%nat -> creal (nth k (a_eigs a) c0);
  (* real matrices: an eigenvalue reported with |imaginary part| < 5e-13 is real *)
  d0_real_sel : cplx = false -> forall k, (k < dim)%nat ->
                Qltb (Qabs (cim (nth k (a_eigs a) c0))) tiny = true -> creal (nth k (a_eigs a) c0);
  d0_take : real_idxs (a_eigs a) <> [] -> (a_take a < length (real_idxs (a_eigs a)))%nat
}.

Lemma combine_seq_in : forall (l : list C) s k e, In (k, e) (combine (seq s (length l)) l) ->
  (s <= k < s + length l)%nat /\ e = nth (k - s) l c0.
Proof.
  induction l as [|x l IH]; intros s k e H; simpl in H; [contradiction|].
  destruct H as [H | H].
  - inversion H; subst. split; [simpl; lia|]. rewrite Nat.sub_diag. reflexivity.
  - apply IH in H. destruct H as [H1 H2]. split; [simpl; lia|].
    replace (k - s)%nat with (S (k - S s)) by lia. simpl. exact H2.
Qed.

Lemma real_idxs_spec : forall l k, In k (real_idxs l) ->
  (k < length l)%nat /\ Qltb (Qabs (cim (nth k l c0))) tiny = true.
Proof.
  intros l k H. unfold real_idxs in H. apply in_map_iff in H. destruct H as ([k' e] & Ek & Hin). simpl in Ek. subst k'.
  apply filter_In in Hin. destruct Hin as [Hin Hf]. simpl in Hf.
  apply combine_seq_in in Hin. destruct Hin as [Hr He]. rewrite Nat.sub_0_r in He. subst e. split; [lia | exact Hf].
Qed.

Lemma shift_meq : forall n W e e', ceq e e' -> meq n n (msub W (mscale e meye)) (msub W (mscale e' meye)).
Proof. intros n W e e' H i j _ _. unfold msub, mscale. rewrite H. reflexivity. Qed.

Lemma antiherm_shift_meq : forall n W e e', ceq e' e ->
  meq n n (msub W (mscale (cmul (copp ci) e') meye)) (mscale (copp ci) (msub (mscale ci W) (mscale e meye))).
Proof.
  intros n W e e' H i j _ _. unfold msub, mscale. rewrite H.
  generalize (W i j) (meye i j). intros w d. destruct w, d, e. unfold ceq, csub, cmul, copp, ci. simpl. split; ring.
Qed.

Lemma mset_diag_zero : forall n W t, has_symmetry SDiag n W -> (t < n)%nat -> ceq (mdet n (mset W t t c0)) c0.
Proof.
  intros n W t H Ht. apply (mdet_diag_zero n _ t).
  - intros i j Hi Hj Hne. apply (sym_mset_diag n W t H i j Hi Hj Hne).
  - exact Ht.
  - unfold mset. rewrite Nat.eqb_refl. reflexivity.
Qed.

Lemma mset_real : forall n W t, is_real n n W -> is_real n n (mset W t t c0).
Proof.
  intros n W t H i j Hi Hj. unfold mset. destruct (Nat.eqb i t && Nat.eqb j t); [apply creal_c0 | apply H; assumption].
Qed.

Lemma make_det_zero_sound : forall sym cplx dim a W Z tr,
  has_symmetry sym dim W -> (cplx = false -> is_real dim dim W) ->
  (herm_like sym = true -> cplx = true) ->         (* the constructor forces complex for (anti)hermitian *)
  (sym = SAnti -> Nat.odd dim = true) ->           (* the constructor admits antisymmetric + det 0 in odd dimensions only *)
  det_zero_contract sym cplx dim a W ->
  make_det_zero sym cplx dim a W = Done Z tr ->
  has_symmetry sym dim Z /\ (cplx = false -> is_real dim dim Z) /\
  ((cabs_lt (a_det a) tiny = true /\ Z = W) \/ (cabs_lt (a_det a) tiny = false /\ ceq (mdet dim Z) c0)).
Proof.
  intros sym cplx dim a W Z tr Hsym Hreal Hforce Hodd [Hdet Hidx Hlen Heig Hhr Hsel Htake]. unfold make_det_zero.
  (* antisymmetric matrices of odd dimension have determinant 0: the early return is always taken *)
  assert (Hanti : sym = SAnti -> cabs_lt (a_det a) tiny = true).
  { intro Es. rewrite (cabs_lt_ext _ _ tiny Hdet). apply cabs_lt_zero. subst sym.
    apply antisym_odd_det_zero; [exact Hsym | apply Hodd; reflexivity]. }
  destruct (cabs_lt (a_det a) tiny) eqn:Htiny.
  { intro E. inversion E; subst. split; [exact Hsym|]. split; [exact Hreal|]. left. split; reflexivity. }
  cbv zeta. destruct (symm_eqb sym SDiag) eqn:Ediag.
  { assert (sym = SDiag) by (destruct sym; simpl in Ediag; congruence). subst sym.
    intro E. inversion E; subst Z tr. clear E. split; [apply sym_mset_diag; exact Hsym|]. split.
    - intro Hc. apply mset_real. apply Hreal. exact Hc.
    - right. split; [reflexivity|]. apply mset_diag_zero; assumption. }
  destruct ((symm_eqb sym SSym && negb cplx) || symm_eqb sym SHerm) eqn:Eh.
  { (* eigvalsh on a real symmetric or hermitian matrix *)
    assert (Hb : eigh_branch sym cplx = true) by (unfold eigh_branch; rewrite Eh; reflexivity).
    assert (Hnot : symm_eqb sym SAHerm = false) by (destruct sym, cplx; simpl in *; congruence).
    pose proof (Hhr Hb _ Hidx) as Hre. pose proof (Heig _ Hidx) as He. unfold eig_matrix in He. rewrite Hnot in He.
    intro E. inversion E; subst Z tr. clear E. split; [|split].
    - apply sym_shift; [exact Hsym|]. destruct sym; simpl in *; try exact I; try discriminate. reflexivity.
    - intro Hc. apply shift_real; [apply Hreal; exact Hc | apply creal_cofQ].
    - right. split; [reflexivity|]. unfold is_eig in He.
      rewrite (mdet_ext dim _ _ (shift_meq dim W _ _ (creal_cofQ_cre _ Hre))). exact He. }
  destruct (symm_eqb sym SAHerm) eqn:Eah.
  { assert (sym = SAHerm) by (destruct sym; simpl in Eah; congruence). subst sym.
    assert (Hb : eigh_branch SAHerm cplx = true) by (unfold eigh_branch; simpl; destruct cplx; reflexivity).
    pose proof (Hhr Hb _ Hidx) as Hre. pose proof (Heig _ Hidx) as He. unfold eig_matrix in He. simpl in He.
    intro E. inversion E; subst Z tr. clear E. split; [|split].
    - apply sym_shift; [exact Hsym|]. simpl. unfold cre, cmul, copp, ci, cofQ. simpl. ring.
    - intro Hc. specialize (Hforce eq_refl). congruence.
    - right. split; [reflexivity|]. unfold is_eig in He.
      rewrite (mdet_ext dim _ _ (antiherm_shift_meq dim W _ _ (creal_cofQ_cre _ Hre))).
      rewrite mdet_scale, He. ring. }
  destruct (negb cplx) eqn:Ec.
  { (* real matrix without usable symmetry: pick a real eigenvalue *)
    assert (Hcf : cplx = false) by (destruct cplx; simpl in Ec; congruence).
    destruct (real_idxs (a_eigs a)) as [|k0 ks] eqn:Eidx; [discriminate|].
    intro E. inversion E; subst Z tr. clear E.
    assert (Hin : In (nth (a_take a) (k0 :: ks) O) (real_idxs (a_eigs a))).
    { rewrite Eidx. apply nth_In. apply Htake. discriminate. }
    apply real_idxs_spec in Hin. destruct Hin as [Hk Hf]. rewrite Hlen in Hk.
    pose proof (Hsel Hcf _ Hk Hf) as Hre. pose proof (Heig _ Hk) as He. unfold eig_matrix in He. rewrite Eah in He.
    split; [|split].
    - apply sym_shift; [exact Hsym|]. destruct sym; simpl in *; try exact I; try discriminate.
      specialize (Hanti eq_refl). congruence.
    - intro Hc. apply shift_real; [apply Hreal; exact Hc | apply creal_cofQ].
    - right. split; [reflexivity|]. unfold is_eig in He.
      rewrite (mdet_ext dim _ _ (shift_meq dim W _ _ (creal_cofQ_cre _ Hre))). exact He. }
  { (* complex matrix: any eigenvalue *)
    assert (Hct : cplx = true) by (destruct cplx; simpl in Ec; congruence).
    pose proof (Heig _ Hidx) as He. unfold eig_matrix in He. rewrite Eah in He.
    intro E. inversion E; subst Z tr. clear E. split; [|split].
    - apply sym_shift; [exact Hsym|]. destruct sym; simpl in *; try exact I; try discriminate.
      specialize (Hanti eq_refl). congruence.
    - intro Hc. congruence.
    - right. split; [reflexivity|]. exact He. }
Qed.

(* ------------------------------------------------------------------------------------------ *)
(* one pass, the retry loop, the whole sampler                                                *)
(* ------------------------------------------------------------------------------------------ *)
(* the array np.linalg.norm is applied to *)
Definition norm_input (sym : symm) (cplx : bool) (det : detopt) (dim : nat) (a : attempt) (W : fmat) : option fmat :=
  match det with
  | DNone => Some W
  | DZero => match make_det_zero sym cplx dim a W with Done Z _ => Some (materialize dim dim Z) | _ => None end
  | DOne => None
  end.

(* contracts of the oracles consulted in one pass *)
Record oracle_ok (sym : symm) (traceless : bool) (det : detopt) (cplx : bool) (dim : nat) (a : attempt) : Prop := {
  ok_u : 0 <= a_u a < 1;                                              (* np.random.random_sample() in [0,1) *)
  ok_one : det = DOne -> det_one_contract sym cplx dim a (sq_working sym traceless cplx dim a);
  ok_zero : det = DZero -> det_zero_contract sym cplx dim a (sq_working sym traceless cplx dim a);
  ok_norm : forall X, norm_input sym cplx det dim a (sq_working sym traceless cplx dim a) = Some X ->
            a_norm a * a_norm a == mnormsq dim dim X /\ ~ a_norm a == 0   (* np.linalg.norm *)
}.

(* what the property demands of a returned matrix *)
Definition sq_spec (sym : symm) (traceless : bool) (det : detopt) (cplx : bool) (dim : nat) (lo hi : Q) (M : fmat) : Prop :=
  has_symmetry sym dim M /\
  (traceless = true -> ceq (mtrace dim M) c0) /\
  (det = DOne -> ceq (mdet dim M) c1) /\
  (* determinant 0 to numerical precision: M is a real multiple of a matrix whose determinant is 0, or below
     5e-13 in modulus when the code's own "close enough to zero" early return was taken *)
  (det = DZero -> exists (k : Q) (Z : fmat), meq dim dim M (mscale (cofQ k) Z) /\ cabs_lt (mdet dim Z) tiny = true) /\
  (det <> DOne -> exists d, Qmin lo hi <= d <= Qmax lo hi /\ mnormsq dim dim M == d * d) /\
  (cplx = false -> is_real dim dim M).


Lemma sq_attempt_sound : forall sym traceless det cplx dim lo hi a M tr,
  (0 < dim)%nat ->
  (herm_like sym = true -> cplx = true) ->
  (traceless = true -> det <> DZero) ->
  (det = DZero -> sym = SAnti -> Nat.odd dim = true) ->
  oracle_ok sym traceless det cplx dim a ->
  sq_attempt sym traceless det cplx dim lo hi a = Done M tr ->
  sq_spec sym traceless det cplx dim lo hi M.
Proof.
  intros sym traceless det cplx dim lo hi a M tr Hdim Hforce Hexcl Hodd [[Hu0 Hu1] Hone Hzero Hnorm].
  unfold sq_attempt. cbv zeta. fold (sq_working sym traceless cplx dim a).
  set (W := sq_working sym traceless cplx dim a) in *.
  destruct (sq_working_spec sym traceless cplx dim a) as (Wsym & Wtr & Wreal). fold W in Wsym, Wtr, Wreal.
  destruct (real_interval_range lo hi (a_u a) Hu0 Hu1) as (R1 & R2 & _).
  unfold sq_normalize. destruct det.
  - (* determinant None: normalise *)
    intro E. inversion E; subst M tr. clear E.
    destruct (Hnorm W eq_refl) as [Hn Hz].
    split; [apply base_normalize_sym; exact Wsym|]. split.
    { intro Ht. apply base_normalize_trace. apply Wtr; assumption. }
    split; [discriminate|]. split; [discriminate|]. split.
    { intros _. exists (real_interval lo hi (a_u a)). split; [split; assumption|]. apply base_normalize_norm; assumption. }
    intro Hc. apply base_normalize_real. apply Wreal. exact Hc.
  - (* determinant 0 *)
    specialize (Hzero eq_refl).
    destruct (make_det_zero sym cplx dim a W) as [Z tz | tz |] eqn:Ez; try discriminate.
    intro E. inversion E; subst M tr. clear E.
    destruct (make_det_zero_sound sym cplx dim a W Z tz Wsym Wreal Hforce (Hodd eq_refl) Hzero Ez) as (Zsym & Zreal & Zdet).
    assert (Hni : norm_input sym cplx DZero dim a W = Some (materialize dim dim Z)) by (simpl; rewrite Ez; reflexivity).
    destruct (Hnorm _ Hni) as [Hn Hz].
    assert (Msym : has_symmetry sym dim (materialize dim dim Z))
      by (apply (has_symmetry_ext sym dim _ _ (materialize_meq dim dim Z)); exact Zsym).
    split; [apply base_normalize_sym; exact Msym|]. split.
    { intro Ht. exfalso. apply (Hexcl Ht). reflexivity. }
    split; [discriminate|]. split.
    { intros _. exists (norm_factor lo hi a), (materialize dim dim Z). split; [apply base_normalize_meq|].
      rewrite (cabs_lt_ext _ _ tiny (mdet_ext dim _ _ (materialize_meq dim dim Z))).
      destruct Zdet as [[Ht ->] | [_ Hd0]].
      - rewrite <- (cabs_lt_ext _ _ tiny (d0_det _ _ _ _ _ Hzero)). exact Ht.
      - apply cabs_lt_zero. exact Hd0. }
    split.
    { intros _. exists (real_interval lo hi (a_u a)). split; [split; assumption|]. apply base_normalize_norm; assumption. }
    intro Hc. apply base_normalize_real. apply (is_real_ext dim dim _ _ (materialize_meq dim dim Z)). apply Zreal. exact Hc.
  - (* determinant 1 *)
    specialize (Hone eq_refl). intro E.
    destruct (make_det_one_sound sym cplx dim a W M tr Wsym Wreal Hone E) as (Msym & Mtr & Mdet & Mreal).
    split; [exact Msym|]. split.
    { intro Ht. apply Mtr. apply Wtr; assumption. }
    split; [intros _; exact Mdet|]. split; [discriminate|]. split; [intro H; exfalso; apply H; reflexivity|]. exact Mreal.
Qed.

(* exact zero determinant when the early return was not taken *)
Lemma sq_attempt_det_zero_exact : forall sym traceless cplx dim lo hi a M tr,
  (herm_like sym = true -> cplx = true) ->
  (sym = SAnti -> Nat.odd dim = true) ->
  oracle_ok sym traceless DZero cplx dim a ->
  cabs_lt (a_det a) tiny = false ->
  sq_attempt sym traceless DZero cplx dim lo hi a = Done M tr ->
  ceq (mdet dim M) c0.
Proof.
  intros sym traceless cplx dim lo hi a M tr Hforce Hodd [_ _ Hzero _] Hnt.
  unfold sq_attempt. cbv zeta. fold (sq_working sym traceless cplx dim a).
  set (W := sq_working sym traceless cplx dim a) in *.
  destruct (sq_working_spec sym traceless cplx dim a) as (Wsym & _ & Wreal). fold W in Wsym, Wreal.
  specialize (Hzero eq_refl). unfold sq_normalize.
  destruct (make_det_zero sym cplx dim a W) as [Z tz | tz |] eqn:Ez; try discriminate.
  intro E. inversion E; subst M tr. clear E.
  destruct (make_det_zero_sound sym cplx dim a W Z tz Wsym Wreal Hforce Hodd Hzero Ez) as (_ & _ & [[Ht _] | [_ Hd0]]);
    [congruence|].
  rewrite base_normalize_det, (mdet_ext dim _ _ (materialize_meq dim dim Z)), Hd0. ring.
Qed.

(* the retry loop returns the result of one of the passes *)
Lemma generate_loop_done : forall step fuel atts p t M passes traces,
  generate_loop step fuel atts p t = GDone M passes traces ->
  exists a tr, In a atts /\ step a = Done M tr.
Proof.
  intros step fuel. induction fuel as [|fuel IH]; intros atts p t M passes traces H; simpl in H; [discriminate|].
  destruct atts as [|a rest]; [discriminate|]. destruct (step a) as [M' tr | tr |] eqn:Es.
  - inversion H; subst. exists a, tr. split; [left; reflexivity | exact Es].
  - apply IH in H. destruct H as (a' & tr' & Hin & Hs). exists a', tr'. split; [right; exact Hin | exact Hs].
  - discriminate.
Qed.

Lemma generate_loop_unknown : forall step fuel atts p t,
  generate_loop step fuel atts p t = GUnknown -> exists a, In a atts /\ step a = Unknown.
Proof.
  intros step fuel. induction fuel as [|fuel IH]; intros atts p t H; simpl in H; [discriminate|].
  destruct atts as [|a rest]; [discriminate|]. destruct (step a) as [M' tr | tr |] eqn:Es.
  - discriminate.
  - apply IH in H. destruct H as (a' & Hin & Hs). exists a'. split; [right; exact Hin | exact Hs].
  - exists a. split; [left; reflexivity | exact Es].
Qed.

(* at most 100 passes *)
Lemma generate_loop_passes : forall step fuel atts p t M passes traces,
  generate_loop step fuel atts p t = GDone M passes traces ->
  (p < passes <= p + fuel)%nat /\ length traces = (length t + (passes - p))%nat.
Proof.
  intros step fuel. induction fuel as [|fuel IH]; intros atts p t M passes traces H; simpl in H; [discriminate|].
  destruct atts as [|a rest]; [discriminate|]. destruct (step a) as [M' tr | tr |] eqn:Es.
  - inversion H; subst. rewrite app_length. cbn [length]. split; lia.
  - apply IH in H. rewrite app_length in H. cbn [length] in H. destruct H as [H1 H2]. split; lia.
  - discriminate.
Qed.

(* ---- the constructor ---- *)
Lemma sqm_init_forces : forall sym traceless det cplx0 dim cplx,
  sqm_init sym traceless det cplx0 dim = Some cplx ->
  (herm_like sym = true -> cplx = true) /\ (herm_like sym = false -> cplx = cplx0).
Proof.
  intros sym traceless det cplx0 dim cplx. unfold sqm_init, herm_like. cbv zeta.
  destruct (symm_eqb sym SHerm || symm_eqb sym SAHerm);
    match goal with |- (if ?b then _ else _) = _ -> _ => destruct b end; try discriminate;
    match goal with |- (if ?b then _ else _) = _ -> _ => destruct b end; try discriminate;
    intro H; inversion H; split; congruence.
Qed.

Lemma sqm_init_traceless_zero : forall sym det cplx0 dim cplx,
  sqm_init sym true det cplx0 dim = Some cplx -> det <> DZero.
Proof.
  intros sym det cplx0 dim cplx H ->. unfold sqm_init in H. cbv zeta in H. simpl in H. discriminate.
Qed.

Lemma odd_mod2 : forall n, Nat.odd n = true -> (Z.of_nat n mod 2 =? 1)%Z = true.
Proof.
  intros n H. apply Z.eqb_eq. rewrite <- Nat.negb_even in H. apply negb_true_iff in H.
  destruct (Nat.Even_or_Odd n) as [[k Hk] | [k Hk]].
  - subst. rewrite Nat.even_mul in H. simpl in H. discriminate.
  - subst. rewrite Nat2Z.inj_add, Nat2Z.inj_mul. simpl Z.of_nat. rewrite Z.add_comm, Z.mul_comm. apply Z.mod_add. lia.
Qed.

Lemma even_mod2 : forall n, (Z.of_nat n mod 2 =? 0)%Z = false -> Nat.odd n = true.
Proof.
  intros n H. destruct (Nat.odd n) eqn:E; [reflexivity|]. exfalso.
  rewrite <- Nat.negb_even in E. apply negb_false_iff in E. apply Nat.even_spec in E. destruct E as [k Hk]. subst.
  rewrite Nat2Z.inj_mul, Z.mul_comm, Z.mod_mul in H by lia. discriminate.
Qed.

Lemma sqm_init_anti_zero_odd : forall traceless cplx0 dim cplx,
  sqm_init SAnti traceless DZero cplx0 (Z.of_nat dim) = Some cplx -> Nat.odd dim = true.
Proof.
  intros traceless cplx0 dim cplx H. unfold sqm_init in H. cbv zeta in H. simpl in H.
  destruct traceless; [discriminate|]. simpl in H. destruct cplx0; [discriminate|]. simpl in H.
  destruct (Z.of_nat dim mod 2 =? 0)%Z eqn:E; [discriminate|]. apply even_mod2. exact E.
Qed.

(* every accepted configuration can be realised by the pipeline: neither the assert nor
   "Unknown class configuration" is reachable *)
Lemma sqm_accepted_total : forall sym traceless det cplx0 dim cplx lo hi a,
  sqm_init sym traceless det cplx0 (Z.of_nat dim) = Some cplx ->
  sq_attempt sym traceless det cplx dim lo hi a <> Unknown.
Proof.
  intros sym traceless det cplx0 dim cplx lo hi a Hinit.
  unfold sq_attempt. cbv zeta. generalize (materialize dim dim
    (sq_apply_symmetry sym traceless dim (raw_array cplx (a_re a) (a_im a)))). intro W.
  unfold sq_normalize. destruct det.
  - discriminate.
  - unfold make_det_zero. destruct (cabs_lt (a_det a) tiny); [discriminate|]. cbv zeta.
    repeat match goal with |- context [if ?b then _ else _] => destruct b end; try discriminate.
  - destruct (sqm_init_forces _ _ _ _ _ _ Hinit) as [Hf1 Hf2].
    unfold make_det_one. cbv zeta.
    destruct ((symm_eqb sym SAnti || symm_eqb sym SAHerm) && Nat.odd dim) eqn:Eassert.
    { exfalso. apply andb_true_iff in Eassert. destruct Eassert as [Es Eo]. apply odd_mod2 in Eo.
      unfold sqm_init in Hinit. cbv zeta in Hinit. simpl detopt_eqb in Hinit. rewrite Eo, Es in Hinit.
      simpl in Hinit. rewrite orb_true_r in Hinit. discriminate. }
    destruct (negb cplx || symm_eqb sym SHerm || symm_eqb sym SAHerm) eqn:Eb.
    { destruct (Qltb 0 (cre (a_det a))); [discriminate|].
      destruct (Nat.odd dim && Qltb (cre (a_det a)) 0); discriminate. }
    assert (cplx = true) by (destruct cplx; simpl in Eb; congruence). subst cplx.
    assert (E4 : (symm_eqb sym SNone || symm_eqb sym SDiag || symm_eqb sym SSym || symm_eqb sym SAnti) = true)
      by (destruct sym; simpl in *; congruence).
    rewrite E4. simpl. destruct (cabs_lt (a_det a) tiny); discriminate.
Qed.

(* the whole sampler *)
Lemma square_matrices_sound : forall sym traceless det cplx0 dim lo hi atts r,
  (0 < dim)%nat ->
  square_matrices sym traceless det cplx0 dim lo hi atts = Some r ->
  exists cplx, sqm_init sym traceless det cplx0 (Z.of_nat dim) = Some cplx /\
    r <> GUnknown /\
    forall M passes traces, r = GDone M passes traces ->
      (passes <= 100)%nat /\
      ((forall a, In a atts -> oracle_ok sym traceless det cplx dim a) ->
       sq_spec sym traceless det cplx dim lo hi M).
Proof.
  intros sym traceless det cplx0 dim lo hi atts r Hdim. unfold square_matrices.
  destruct (sqm_init sym traceless det cplx0 (Z.of_nat dim)) as [cplx|] eqn:Hinit; [|discriminate].
  intro E. inversion E; subst r. clear E. exists cplx. split; [reflexivity|]. split.
  - intro H. unfold sq_generate in H. apply generate_loop_unknown in H. destruct H as (a & _ & Hs).
    apply (sqm_accepted_total _ _ _ _ _ _ lo hi a Hinit). exact Hs.
  - intros M passes traces H. unfold sq_generate in H. split.
    + apply generate_loop_passes in H. lia.
    + intro Hok. apply generate_loop_done in H. destruct H as (a & tr & Hin & Hs).
      destruct (sqm_init_forces _ _ _ _ _ _ Hinit) as [Hf _].
      apply (sq_attempt_sound sym traceless det cplx dim lo hi a M tr Hdim Hf); [| | apply Hok; exact Hin | exact Hs].
      * intro Ht. subst traceless. apply (sqm_init_traceless_zero _ _ _ _ _ Hinit).
      * intros -> ->. apply (sqm_init_anti_zero_odd _ _ _ _ Hinit).
Qed.
