(* Proofs/RestrictSum.v -- lemmas about the restriction model (C09), part 3: ordered lists whose answers reference
   sibling inputs, and SumGrader. *)
From Coq Require Import ZArith QArith List Bool Lia.
From Verif.Model Require Import Result Lexer Parser Eval RestrictBase Restrict.
From Verif.Proofs Require Import Restrict RestrictGrade.
Import ListNotations.
Local Open Scope Z_scope.

(* ================================================================================================
   ordered ListGrader
   ================================================================================================ *)
Section WithEvaluation.
Variable ev : evaluation.
Hypothesis Hev : scope_first ev.

Lemma not_result_false : forall g, (forall e, g <> GResult e) -> is_result g = false.
Proof. intros g H. destruct g; try reflexivity. exfalso. eapply H. reflexivity. Qed.

Lemma ordered_go_refuses : forall all todo b,
  In b todo -> (forall e, box_check ev all b <> GResult e) ->
  exists g, ordered_go ev all todo = inl g /\ is_result g = false.
Proof.
  intros all todo b. induction todo as [|x r IH]; intros Hin Hb; [contradiction|]. simpl.
  destruct (box_check ev all x) eqn:Hx; try (eexists; split; [reflexivity | reflexivity]).
  destruct Hin as [Hin|Hin].
  - subst. exfalso. eapply Hb. exact Hx.
  - destruct (IH Hin Hb) as [g [Hg Hr]]. rewrite Hg. exists g. auto.
Qed.

Lemma box_check_formula : forall all b e,
  box_check ev all b = GResult e ->
  exists P, cfg_permitted (b_cfg b) = Some P /\
    formula_check ev (b_cfg b) P (b_maxdim b) (b_params b) (sibling_formulas_of all b) (b_envs b) (b_compare b) (b_input b)
    = GResult e.
Proof.
  intros all b e. unfold box_check. cbv zeta.
  repeat match goal with |- (if ?x then _ else _) = _ -> _ => destruct x; [discriminate|] end.
  destruct (cfg_permitted (b_cfg b)) as [P|]; [|discriminate]. intro H. exists P. auto.
Qed.

(* a box whose input mentions a name outside its scope -- in particular a sibling key or an instructor variable --
   is never graded, and neither is the list *)
Theorem box_undefined_never_graded : forall all b t E Es,
  py_strip (b_input b) <> [] -> parse_formula (py_strip (b_input b)) = PTree t ->
  mentions_undefined (b_cfg b) (map fst (sibling_formulas_of all b)) t ->
  b_envs b = E :: Es -> env_for (b_cfg b) E ->
  forall e, box_check ev all b <> GResult e.
Proof.
  intros all b t E Es Hne Hp Hm Henvs Henv e H. apply box_check_formula in H. destruct H as [P [_ H]].
  rewrite Henvs in H.
  destruct (formula_undefined_rejected ev Hev (b_cfg b) P (b_maxdim b) (b_params b) (sibling_formulas_of all b) E Es
              (b_compare b) (b_input b) t Hne Hp Hm Henv) as [Hnever _].
  eapply Hnever. exact H.
Qed.

Theorem ordered_list_undefined_never_graded : forall boxes b t E Es,
  In b boxes ->
  py_strip (b_input b) <> [] -> parse_formula (py_strip (b_input b)) = PTree t ->
  mentions_undefined (b_cfg b) (map fst (sibling_formulas_of boxes b)) t ->
  b_envs b = E :: Es -> env_for (b_cfg b) E ->
  exists g, ordered_list_check ev boxes = inl g /\ is_result g = false.
Proof.
  intros boxes b t E Es Hin Hne Hp Hm Henvs Henv. unfold ordered_list_check.
  eapply ordered_go_refuses; [exact Hin|]. eapply box_undefined_never_graded; eauto.
Qed.

Lemma ordered_go_entries : forall all todo es,
  ordered_go ev all todo = inr es -> Forall2 (fun b e => box_check ev all b = GResult e) todo es.
Proof.
  intros all todo. induction todo as [|x r IH]; intros es; simpl.
  - intro H; inversion H. constructor.
  - destruct (box_check ev all x) eqn:Hx; try discriminate.
    destruct (ordered_go ev all r) eqn:Hr; [discriminate|]. intro H; inversion H; subst. constructor; auto.
Qed.

(* every credited entry of a graded list satisfies the restrictions of its box *)
Theorem ordered_list_credit_implies : forall boxes es,
  ordered_list_check ev boxes = inr es ->
  Forall2 (fun b e => e_ok e <> OkFalse ->
             exists P, cfg_permitted (b_cfg b) = Some P
               /\ (forall f, In f (used_functions (b_input b)) -> In f P)
               /\ (forall r, In r (c_required (b_cfg b)) -> In r (used_functions (b_input b)))
               /\ (forall fs, In fs (c_forbidden (b_cfg b)) ->
                              substr (strip_spaces fs) (strip_spaces (b_input b)) = false)) boxes es.
Proof.
  intros boxes es H. unfold ordered_list_check in H. apply ordered_go_entries in H.
  induction H as [|b e bs es' Hb Hrest IH]; constructor; [|exact IH]. intro Hok.
  apply box_check_formula in Hb. destruct Hb as [P [HP Hf]]. exists P. split; [exact HP|].
  eapply (formula_credit_implies ev Hev); eauto.
Qed.

(* ================================================================================================
   SumGrader
   ================================================================================================ *)
Definition sum_used (f : sumfields) : names :=
  dedup (used_functions (s_lower f) ++ used_functions (s_upper f)
         ++ match parse_formula (s_summand f) with PTree t => funcs_of t | _ => [] end).

Lemma eval_terms_not_result : forall E x s idx g, eval_terms ev E x s idx = inl g -> is_result g = false.
Proof.
  intros E x s idx. induction idx as [|i r IH]; intros g; simpl; [discriminate|].
  destruct (ev (bind_var E x i) None s) eqn:H1.
  - intro H; inversion H; subst. eapply (proj1 Hev); eauto.
  - destruct (eval_terms ev E x s r) eqn:H2; [|discriminate]. intro H; inversion H; subst. apply IH. reflexivity.
Qed.

Lemma evaluate_sum_not_result : forall O E f g, evaluate_sum ev O E f = inl g -> is_result g = false.
Proof.
  intros O E f g. unfold evaluate_sum.
  destruct (defined (venv E) (s_variable f)); [intro H; inversion H; reflexivity|].
  destruct (ev E None (s_lower f)) eqn:H1; [intro H; inversion H; subst; eapply (proj1 Hev); eauto|].
  destruct (ev E None (s_upper f)) eqn:H2; [intro H; inversion H; subst; eapply (proj1 Hev); eauto|].
  destruct (parse_formula (s_summand f)); try (intro H; inversion H; reflexivity).
  destruct (so_range O o o0); [|intro H; inversion H; reflexivity].
  destruct (check_scope _ t); [intro H; inversion H; reflexivity|].
  destruct (eval_terms ev E (s_variable f) (s_summand f) l) eqn:H3; [|discriminate].
  intro H; inversion H; subst. eapply eval_terms_not_result; eauto.
Qed.

Lemma evaluate_sum_used : forall O E f v used, evaluate_sum ev O E f = inr (v, used) -> used = sum_used f.
Proof.
  intros O E f v used. unfold evaluate_sum, sum_used.
  destruct (defined (venv E) (s_variable f)); [discriminate|].
  destruct (ev E None (s_lower f)); [discriminate|].
  destruct (ev E None (s_upper f)); [discriminate|].
  destruct (parse_formula (s_summand f)); try discriminate.
  destruct (so_range O o o0); [|discriminate].
  destruct (check_scope _ t); [discriminate|].
  destruct (eval_terms ev E (s_variable f) (s_summand f) l); [discriminate|].
  intro H; inversion H; reflexivity.
Qed.

Lemma sum_evaluations_not_result : forall O scope bl author student Es g,
  sum_evaluations ev O scope bl author student Es = inl g -> is_result g = false.
Proof.
  intros O scope bl author student Es. induction Es as [|E r IH]; intros g; simpl; [discriminate|].
  destruct (evaluate_sum ev O E author) as [ga|[av ua]]; [intro H; inversion H; reflexivity|].
  destruct (mem (s_variable student) bl); [intro H; inversion H; reflexivity|].
  destruct (evaluate_sum ev O (restrict_env scope E) student) as [gs|[sv us]] eqn:H2.
  - intro H; inversion H; subst. eapply evaluate_sum_not_result; eauto.
  - destruct (sum_evaluations ev O scope bl author student r) as [g'|[l u]] eqn:H3; [|discriminate].
    intro H; inversion H; subst. apply IH. reflexivity.
Qed.

Lemma sum_evaluations_used : forall O scope bl author student E r evals used,
  sum_evaluations ev O scope bl author student (E :: r) = inr (evals, used) -> used = sum_used student.
Proof.
  intros O scope bl author student E r evals used. simpl.
  destruct (evaluate_sum ev O E author) as [ga|[av ua]]; [discriminate|].
  destruct (mem (s_variable student) bl); [discriminate|].
  destruct (evaluate_sum ev O (restrict_env scope E) student) as [gs|[sv us]] eqn:H2; [discriminate|].
  destruct (sum_evaluations ev O scope bl author student r) as [g'|[l u]]; [discriminate|].
  intro H; inversion H; subst. eapply evaluate_sum_used; eauto.
Qed.

(* the first sample's student evaluation failing means the whole check fails *)
Lemma sum_evaluations_student_fails : forall O scope bl author student E r,
  (mem (s_variable student) bl = true \/ exists g, evaluate_sum ev O (restrict_env scope E) student = inl g) ->
  exists g, sum_evaluations ev O scope bl author student (E :: r) = inl g.
Proof.
  intros O scope bl author student E r H. simpl.
  destruct (evaluate_sum ev O E author) as [ga|[av ua]]; [eauto|].
  destruct (mem (s_variable student) bl); [eauto|].
  destruct H as [H|[g H]]; [discriminate|]. rewrite H. eauto.
Qed.

Ltac open_sum_check H inp :=
  unfold sum_check in H; cbv zeta in H; fold inp in H;
  destruct (is_empty_str (s_lower inp) || is_empty_str (s_upper inp) || is_empty_str (s_summand inp)
            || is_empty_str (s_variable inp)); [discriminate|];
  destruct (mem (s_variable inp) (func_scope _) || mem (s_variable inp) (c_constants _)); [discriminate|].

(* a credited summation satisfies every restriction -- on all four fields of the structured input *)
Theorem sum_credit_implies : forall c P O en author student E Es compare e,
  sum_check ev c P O en author student (E :: Es) compare = GResult e -> e_ok e <> OkFalse ->
  let inp := structure_input en author student in
  (forall f, In f (sum_used inp) -> In f P)
  /\ (forall r, In r (c_required c) -> In r (sum_used inp))
  /\ (forall x fs, In x [s_lower inp; s_upper inp; s_summand inp; s_variable inp] -> In fs (c_forbidden c) ->
                   substr (strip_spaces fs) (strip_spaces x) = false).
Proof.
  intros c P O en author student E Es compare e H Hok inp. open_sum_check H inp.
  destruct (sum_evaluations ev O _ _ author inp (E :: Es)) as [g|[evals used]] eqn:Hs.
  - subst. apply sum_evaluations_not_result in Hs. discriminate.
  - apply sum_evaluations_used in Hs. subst used. apply finish_result in H. destruct H as [_ [H|H]]; [contradiction|].
    apply post_eval_pass in H. destruct H as [A [B C]]. repeat split; auto.
Qed.

Lemma bind_var_other : forall E x v n, n <> x -> venv (bind_var E x v) n = venv E n.
Proof.
  intros E x v n H. simpl. destruct (str_eqb n x) eqn:He; [apply str_eqb_eq in He; contradiction | reflexivity].
Qed.

(* a name in the student's scope is an allowed name (whatever expressions were scanned for numbered instances) *)
Lemma summation_scope_sound : forall c used n,
  In n (student_scope summation_blacklist c (sample_names c used []) []) -> allowed c [] n.
Proof.
  intros c used n. rewrite summation_scope_In, sample_names_In, variable_list_In. unfold allowed. simpl. tauto.
Qed.

(* the names of the summand are checked before any term is evaluated: no condition on the index range *)
Lemma evaluate_sum_summand_undefined : forall O E f t n,
  parse_formula (s_summand f) = PTree t ->
  In n (vars_of t) -> n <> s_variable f -> venv E n = None ->
  exists g, evaluate_sum ev O E f = inl g.
Proof.
  intros O E f t n Hp Hn Hx Hv. unfold evaluate_sum.
  destruct (defined (venv E) (s_variable f)); [eauto|].
  destruct (ev E None (s_lower f)); [eauto|].
  destruct (ev E None (s_upper f)); [eauto|].
  rewrite Hp. destruct (so_range O o o0) as [idx|]; [|eauto].
  rewrite (check_scope_var _ t n Hn); [eauto|]. rewrite bind_var_other; auto.
Qed.

Theorem sum_summand_undefined_never_graded : forall c P O en author student E Es compare t n,
  let inp := structure_input en author student in
  parse_formula (s_summand inp) = PTree t ->
  In n (vars_of t) -> n <> s_variable inp -> ~ allowed c [] n ->
  forall e, sum_check ev c P O en author student (E :: Es) compare <> GResult e.
Proof.
  intros c P O en author student E Es compare t n inp Hp Hn Hx Ha e H. open_sum_check H inp.
  match type of H with context [sum_evaluations ev O ?sc ?b author inp (E :: Es)] => set (scope := sc) in H; set (bl := b) in H end.
  assert (Hout : venv (restrict_env scope E) n = None).
  { apply restrict_env_out. intro Hin. apply Ha. eapply summation_scope_sound. exact Hin. }
  destruct (sum_evaluations_student_fails O scope bl author inp E Es
              (or_intror (evaluate_sum_summand_undefined O (restrict_env scope E) inp t n Hp Hn Hx Hout))) as [g Hg].
  rewrite Hg in H. apply sum_evaluations_not_result in Hg. subst. discriminate.
Qed.

(* names in the limits are always rejected *)
Theorem sum_limit_undefined_never_graded : forall c P O en author student E Es compare t n,
  let inp := structure_input en author student in
  (py_strip (s_lower inp) <> [] /\ parse_formula (py_strip (s_lower inp)) = PTree t
   \/ py_strip (s_upper inp) <> [] /\ parse_formula (py_strip (s_upper inp)) = PTree t) ->
  In n (vars_of t) -> ~ allowed c [] n ->
  forall e, sum_check ev c P O en author student (E :: Es) compare <> GResult e.
Proof.
  intros c P O en author student E Es compare t n inp Hl Hn Ha e H. open_sum_check H inp.
  match type of H with context [sum_evaluations ev O ?sc ?b author inp (E :: Es)] => set (scope := sc) in H; set (bl := b) in H end.
  assert (Hout : venv (restrict_env scope E) n = None).
  { apply restrict_env_out. intro Hin. apply Ha. eapply summation_scope_sound. exact Hin. }
  assert (Hg : exists g, evaluate_sum ev O (restrict_env scope E) inp = inl g).
  { unfold evaluate_sum. destruct (defined (venv (restrict_env scope E)) (s_variable inp)); [eauto|].
    destruct Hl as [[Hne Hp]|[Hne Hp]].
    - erewrite (proj2 Hev _ _ (s_lower inp)); eauto. eapply check_scope_var; eauto.
    - destruct (ev (restrict_env scope E) None (s_lower inp)); [eauto|].
      erewrite (proj2 Hev _ _ (s_upper inp)); eauto. eapply check_scope_var; eauto. }
  destruct (sum_evaluations_student_fails O scope bl author inp E Es (or_intror Hg)) as [g Hg'].
  rewrite Hg' in H. apply sum_evaluations_not_result in Hg'. subst. discriminate.
Qed.

(* an instructor variable that is sampled cannot serve as the student's summation variable *)
Theorem sum_instructor_variable_not_a_dummy : forall c P O en author student E Es compare,
  let inp := structure_input en author student in
  In (s_variable inp) (c_instructor c) ->
  In (s_variable inp) (c_variables c) \/ In (s_variable inp) (c_constants c) ->
  forall e, sum_check ev c P O en author student (E :: Es) compare <> GResult e.
Proof.
  intros c P O en author student E Es compare inp Hi Hd e H. open_sum_check H inp.
  match type of H with context [sum_evaluations ev O ?sc ?b author inp (E :: Es)] => set (scope := sc) in H; set (bl := b) in H end.
  assert (Hm : mem (s_variable inp) bl = true).
  { apply mem_In. unfold bl. apply summation_blacklist_In. split; [exact Hi|].
    apply sample_names_In. rewrite variable_list_In. tauto. }
  destruct (sum_evaluations_student_fails O scope bl author inp E Es (or_introl Hm)) as [g Hg].
  rewrite Hg in H. apply sum_evaluations_not_result in Hg. subst. discriminate.
Qed.

End WithEvaluation.
