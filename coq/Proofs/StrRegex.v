(* Proofs/StrRegex.v -- the regex model (C18): the executable matcher computes exactly the inductive match relation;
   what appending "$" to a pattern TEXT does; when `re.match(pattern + "$", s)` is a full match and when it is not. *)
From Coq Require Import ZArith List Bool Arith Lia.
From Verif.Model Require Import Result StrGrader StrRegex.
From Verif.Proofs Require Import StrGrader.
Import ListNotations.
Open Scope Z_scope.

(* ============================================================================================== *)
(* 1. the match relation:  Match T s r i j  <->  r matches s[i..j)                                  *)
(* ============================================================================================== *)
Inductive Match (T : tables) (s : str) : re -> nat -> nat -> Prop :=
| MEps  : forall i, Match T s Eps i i
| MChr  : forall cs i c, nth_error s i = Some c -> cset_mem T cs c = true -> Match T s (Chr cs) i (S i)
| MCat  : forall a b i j k, Match T s a i j -> Match T s b j k -> Match T s (Cat a b) i k
| MAltL : forall a b i j, Match T s a i j -> Match T s (Alt a b) i j
| MAltR : forall a b i j, Match T s b i j -> Match T s (Alt a b) i j
| MStar0 : forall a i, Match T s (Star a) i i
| MStarS : forall a i j k, Match T s a i j -> Match T s (Star a) j k -> Match T s (Star a) i k
| MBol  : Match T s Bol O O
| MEol  : forall i, at_end s i = true \/ before_final_newline s i = true -> Match T s Eol i i
| MEndZ : forall i, at_end s i = true -> Match T s EndZ i i.

(* the language of r: the strings it matches from the first to the last character *)
Definition in_language (T : tables) (r : re) (s : str) : Prop := Match T s r O (length s).

Lemma Match_bounds : forall T s r i j, Match T s r i j -> (i <= j)%nat /\ ((i <= length s)%nat -> (j <= length s)%nat).
Proof.
  intros T s r i j H. induction H; try (split; lia).
  - split; [lia|]. intros _. apply nth_error_Some. congruence.
Qed.

Lemma Match_star_right : forall T s a i j k,
  Match T s (Star a) i j -> Match T s a j k -> Match T s (Star a) i k.
Proof.
  intros T s a i j k H. remember (Star a) as r eqn:Er. revert Er k.
  induction H; intros Er k0 Hk; try discriminate; inversion Er; subst.
  - eapply MStarS; [exact Hk | apply MStar0].
  - eapply MStarS; [exact H | apply IHMatch2; [reflexivity | exact Hk]].
Qed.

(* ============================================================================================== *)
(* 2. sets of positions as lists                                                                   *)
(* ============================================================================================== *)
Lemma mem_nat_In : forall x l, mem_nat x l = true <-> In x l.
Proof.
  intros x l. induction l as [|y r IH]; cbn; [split; [discriminate | tauto]|].
  rewrite orb_true_iff, IH, Nat.eqb_eq. split; intros [H|H]; auto.
Qed.

Lemma dedup_In : forall x l, In x (dedup l) <-> In x l.
Proof.
  intros x l. induction l as [|y r IH]; cbn; [tauto|].
  destruct (mem_nat y r) eqn:E.
  - rewrite IH. split; [auto|]. intros [->|H]; [apply -> mem_nat_In; exact E | exact H].
  - cbn. rewrite IH. tauto.
Qed.

(* ============================================================================================== *)
(* 3. star_scan computes the reflexive-transitive closure of a forward-moving step                 *)
(* ============================================================================================== *)
Section Scan.
  Variable f : nat -> list nat.
  Variable bound : nat.
  Hypothesis f_forward : forall k x, In x (f k) -> (k <= x)%nat.
  Hypothesis f_bounded : forall k x, (k <= bound)%nat -> In x (f k) -> (x <= bound)%nat.

  Definition closed_below (k : nat) (reach : list nat) : Prop :=
    forall y, In y reach -> (y < k)%nat -> forall x, In x (f y) -> In x reach.

  Lemma scan_grows : forall n k reach x, In x reach -> In x (star_scan f n k reach).
  Proof.
    induction n as [|n IH]; intros k reach x H; [exact H|]. cbn [star_scan]. apply IH.
    destruct (mem_nat k reach); [apply in_or_app; left|]; exact H.
  Qed.

  Lemma scan_closed : forall n k reach, closed_below k reach -> closed_below (k + n) (star_scan f n k reach).
  Proof.
    induction n as [|n IH]; intros k reach H.
    - rewrite Nat.add_0_r. exact H.
    - cbn [star_scan]. replace (k + S n)%nat with (S k + n)%nat by lia. apply IH.
      intros y Hy Hlt x Hx. destruct (mem_nat k reach) eqn:Ek.
      + apply in_app_or in Hy. destruct Hy as [Hy|Hy].
        * destruct (Nat.eq_dec y k) as [->|Hne].
          -- apply in_or_app. right. exact Hx.
          -- apply in_or_app. left. apply (H y Hy); [lia | exact Hx].
        * (* y is new: y >= k, so y = k, which was reached already *)
          pose proof (f_forward k y Hy). assert (y = k) by lia. subst y.
          apply in_or_app. right. exact Hx.
      + destruct (Nat.eq_dec y k) as [->|Hne].
        * apply <- mem_nat_In in Hy. congruence.
        * apply (H y Hy); [lia | exact Hx].
  Qed.

  (* everything the scan returns was obtained from the initial set by steps of f *)
  Lemma scan_sound : forall (P : nat -> Prop), (forall k x, P k -> In x (f k) -> P x) ->
    forall n k reach, (forall x, In x reach -> P x) -> forall x, In x (star_scan f n k reach) -> P x.
  Proof.
    intros P HP. induction n as [|n IH]; intros k reach H x Hx; [apply H; exact Hx|].
    cbn [star_scan] in Hx. apply (IH (S k) _) in Hx; [exact Hx|].
    intros y Hy. destruct (mem_nat k reach) eqn:Ek; [|apply H; exact Hy].
    apply in_app_or in Hy. destruct Hy as [Hy|Hy]; [apply H; exact Hy|].
    apply (HP k y); [apply H; apply -> mem_nat_In; exact Ek | exact Hy].
  Qed.

  Lemma scan_bounded : forall n k reach, (k <= bound)%nat \/ n = O -> (forall x, In x reach -> (x <= bound)%nat) ->
    (k + n <= S bound)%nat -> forall x, In x (star_scan f n k reach) -> (x <= bound)%nat.
  Proof.
    induction n as [|n IH]; intros k reach Hk H Hn x Hx; [apply H; exact Hx|].
    cbn [star_scan] in Hx. apply (IH (S k)) in Hx; [exact Hx | destruct n; [right; reflexivity | left; lia] | | lia].
    intros y Hy. destruct (mem_nat k reach); [|apply H; exact Hy].
    apply in_app_or in Hy. destruct Hy as [Hy|Hy]; [apply H; exact Hy|].
    apply (f_bounded k y); [lia | exact Hy].
  Qed.
End Scan.

(* ============================================================================================== *)
(* 4. the matcher is correct                                                                       *)
(* ============================================================================================== *)
Lemma ends_forward_bounded : forall T s r i x, In x (ends T s r i) ->
  (i <= x)%nat /\ ((i <= length s)%nat -> (x <= length s)%nat).
Proof.
  intros T s r. induction r as [|cs|a IHa b IHb|a IHa b IHb|a IHa| | |]; intros i x H; cbn [ends] in H.
  - destruct H as [<-|[]]. lia.
  - destruct (nth_error s i) as [c|] eqn:E; [|destruct H].
    destruct (cset_mem T cs c); [|destruct H]. destruct H as [<-|[]].
    split; [lia|]. intros _. apply nth_error_Some. congruence.
  - apply -> dedup_In in H. apply -> in_flat_map in H. destruct H as (j & Hj & Hx).
    destruct (IHa i j Hj) as [A1 A2]. destruct (IHb j x Hx) as [B1 B2]. split; [lia|]. intro Hi. apply B2, A2, Hi.
  - apply -> dedup_In in H. apply in_app_or in H. destruct H as [H|H]; [apply IHa | apply IHb]; exact H.
  - apply -> dedup_In in H.
    assert (P : forall y, In y (star_scan (ends T s a) (S (length s) - i) i [i]) ->
                (i <= y)%nat /\ ((i <= length s)%nat -> (y <= length s)%nat)).
    { apply (scan_sound (ends T s a) (fun y => (i <= y)%nat /\ ((i <= length s)%nat -> (y <= length s)%nat))).
      - intros k y [K1 K2] Hy. destruct (IHa k y Hy) as [Y1 Y2]. split; [lia|]. intro Hi. apply Y2, K2, Hi.
      - intros y [<-|[]]. lia. }
    apply P. exact H.
  - destruct (Nat.eqb i 0); [|destruct H]. destruct H as [<-|[]]. lia.
  - destruct (at_end s i || before_final_newline s i); [|destruct H]. destruct H as [<-|[]]. lia.
  - destruct (at_end s i); [|destruct H]. destruct H as [<-|[]]. lia.
Qed.

Theorem ends_sound : forall T s r i j, In j (ends T s r i) -> Match T s r i j.
Proof.
  intros T s r. induction r as [|cs|a IHa b IHb|a IHa b IHb|a IHa| | |]; intros i j H; cbn [ends] in H.
  - destruct H as [<-|[]]. constructor.
  - destruct (nth_error s i) as [c|] eqn:E; [|destruct H].
    destruct (cset_mem T cs c) eqn:Ec; [|destruct H]. destruct H as [<-|[]]. econstructor; eassumption.
  - apply -> dedup_In in H. apply -> in_flat_map in H. destruct H as (k & Hk & Hj).
    econstructor; [apply IHa; exact Hk | apply IHb; exact Hj].
  - apply -> dedup_In in H. apply in_app_or in H. destruct H as [H|H]; [apply MAltL, IHa | apply MAltR, IHb]; exact H.
  - apply -> dedup_In in H.
    apply (scan_sound (ends T s a) (fun y => Match T s (Star a) i y)) with (n := (S (length s) - i)%nat) (k := i) (reach := [i]).
    + intros k y Hk Hy. eapply Match_star_right; [exact Hk | apply IHa; exact Hy].
    + intros y [<-|[]]. apply MStar0.
    + exact H.
  - destruct (Nat.eqb i 0) eqn:E; [|destruct H]. destruct H as [<-|[]]. apply Nat.eqb_eq in E. subst. constructor.
  - destruct (at_end s i || before_final_newline s i) eqn:E; [|destruct H]. destruct H as [<-|[]].
    constructor. apply orb_true_iff. exact E.
  - destruct (at_end s i) eqn:E; [|destruct H]. destruct H as [<-|[]]. constructor. exact E.
Qed.

Theorem ends_complete : forall T s r i j, Match T s r i j -> (i <= length s)%nat -> In j (ends T s r i).
Proof.
  intros T s r. induction r as [|cs|a IHa b IHb|a IHa b IHb|a IHa| | |]; intros i j H Hi.
  - inversion H; subst. left. reflexivity.
  - inversion H; subst. cbn [ends].
    repeat match goal with
           | E : nth_error _ _ = Some _ |- _ => rewrite E; clear E
           | E : cset_mem _ _ _ = true |- _ => rewrite E; clear E
           end. left. reflexivity.
  - inversion H; subst. cbn [ends]. apply <- dedup_In. apply <- in_flat_map.
    match goal with
    | Ha : Match _ _ a i ?k, Hb : Match _ _ b ?k j |- _ =>
        exists k; split; [apply IHa; assumption | apply IHb; [assumption | apply (Match_bounds _ _ _ _ _ Ha); exact Hi]]
    end.
  - cbn [ends]. apply <- dedup_In. apply in_or_app. inversion H; subst; [left; apply IHa | right; apply IHb]; assumption.
  - cbn [ends]. apply <- dedup_In.
    set (f := ends T s a). set (n := (S (length s) - i)%nat).
    set (R := star_scan f n i [i]).
    assert (Hfwd : forall k x, In x (f k) -> (k <= x)%nat).
    { intros k x Hx. apply (ends_forward_bounded T s a k x Hx). }
    assert (Hbnd : forall k x, (k <= length s)%nat -> In x (f k) -> (x <= length s)%nat).
    { intros k x Hk Hx. apply (ends_forward_bounded T s a k x Hx). exact Hk. }
    assert (Hcl : closed_below f (i + n) R).
    { apply scan_closed; [exact Hfwd|]. intros y [<-|[]] Hlt. lia. }
    assert (HRb : forall x, In x R -> (x <= length s)%nat).
    { apply (scan_bounded f (length s) Hbnd n i [i]); [left; exact Hi | intros x [<-|[]]; exact Hi | unfold n; lia]. }
    assert (Hall : forall x y, In x R -> Match T s (Star a) x y -> In y R).
    { clear H. intros x y Hx Hm. remember (Star a) as r eqn:Er. revert Er Hx.
      induction Hm; intro Er; try discriminate; inversion Er; subst; intro Hx; [exact Hx|].
      apply IHHm2; [reflexivity|].
      apply (Hcl i0 Hx); [pose proof (HRb i0 Hx); unfold n; lia|].
      apply IHa; [exact Hm1 | apply HRb; exact Hx]. }
    apply (Hall i j); [apply scan_grows; left; reflexivity | exact H].
  - inversion H; subst. left. reflexivity.
  - inversion H; subst. cbn [ends].
    match goal with E : _ \/ _ |- _ => destruct E as [E|E]; rewrite E, ?orb_true_r end; left; reflexivity.
  - inversion H; subst. cbn [ends].
    match goal with E : at_end _ _ = true |- _ => rewrite E end. left. reflexivity.
Qed.

Theorem ends_correct : forall T s r j, In j (ends T s r O) <-> Match T s r O j.
Proof. intros. split; [apply ends_sound | intro H; apply ends_complete; [exact H | lia]]. Qed.

(* re.fullmatch(r, s) is not None  <->  s is in the language of r *)
Theorem re_fullmatch_spec : forall T r s, re_fullmatch T r s = true <-> in_language T r s.
Proof. intros. unfold re_fullmatch, in_language. rewrite mem_nat_In. apply ends_correct. Qed.

(* re.match(r, s) is not None  <->  r matches some prefix of s *)
Theorem re_match_spec : forall T r s, re_match T r s = true <-> exists j, Match T s r O j.
Proof.
  intros. unfold re_match. destruct (ends T s r 0) as [|j l] eqn:E; cbn.
  - split; [discriminate|]. intros [j Hj]. apply ends_correct in Hj. rewrite E in Hj. destruct Hj.
  - split; [|reflexivity]. intros _. exists j. apply ends_correct. rewrite E. left. reflexivity.
Qed.

(* ============================================================================================== *)
(* 5. an end anchor after the WHOLE expression makes the prefix match a full match                  *)
(* ============================================================================================== *)
Lemma at_end_eq : forall s i, at_end s i = true <-> i = length s.
Proof. intros. unfold at_end. apply Nat.eqb_eq. Qed.

Lemma no_final_newline : forall s i, ~ In 10 s -> before_final_newline s i = false.
Proof.
  intros s i H. unfold before_final_newline. destruct (nth_error s i) as [c|] eqn:E; [|apply andb_false_r].
  destruct (Z.eqb_spec c 10) as [->|]; [|apply andb_false_r]. exfalso. apply H. eapply nth_error_In. exact E.
Qed.

Theorem anchored_match_is_fullmatch : forall T r s, ~ In 10 s ->
  (re_match T (Cat r Eol) s = true <-> in_language T r s).
Proof.
  intros T r s Hn. rewrite re_match_spec. unfold in_language. split.
  - intros [j H]. inversion H as [| |a' b' i' k j' Hr He| | | | | | |]; subst.
    inversion He as [| | | | | | | |i' E|]; subst.
    destruct E as [E|E]; [apply -> at_end_eq in E; subst; exact Hr | rewrite (no_final_newline s j Hn) in E; discriminate].
  - intro H. exists (length s). econstructor; [exact H|]. constructor. left. apply <- at_end_eq. reflexivity.
Qed.

(* ============================================================================================== *)
(* 6. the parser is a left fold: appending a character is one more step                            *)
(* ============================================================================================== *)
Lemma run_snoc : forall p c, run (p ++ [c]) = step_opt (run p) c.
Proof. intros. unfold run. rewrite fold_left_app. reflexivity. Qed.

Lemma parse_run : forall p r, parse p = Some r ->
  exists st, run p = Some st /\ p_mode st = MNormal /\ p_stack st = [] /\ r = frame_re (p_cur st).
Proof.
  intros p r H. unfold parse in H. destruct (run p) as [st|]; [|discriminate].
  exists st. unfold finish in H. destruct (p_mode st); try discriminate.
  destruct (p_stack st); [|discriminate]. inversion H. auto.
Qed.

(* the branches of the top level after reading p, and the same with an end anchor appended to the last one *)
Definition branches (f : frame) : list re := f_alts f ++ [flush f].
Definition branches_anchored (f : frame) : list re := f_alts f ++ [Cat (flush f) Eol].

Definition alt_of (l : list re) : re := match l with [] => Eps | x :: rest => mkalt x rest end.

Lemma frame_re_branches : forall f, frame_re f = alt_of (branches f).
Proof. reflexivity. Qed.

(* what `pattern + "$"` parses to *)
Theorem parse_dollar : forall p st, run p = Some st -> p_mode st = MNormal -> p_stack st = [] ->
  parse (p ++ [36]) = Some (alt_of (branches_anchored (p_cur st))).
Proof.
  intros p st Hr Hm Hs. unfold parse. rewrite run_snoc, Hr. cbn [step_opt]. unfold step. rewrite Hm.
  unfold step_normal. cbn [Z.eqb Pos.eqb]. unfold with_item. unfold finish. cbn [p_mode p_stack p_cur]. rewrite Hs.
  f_equal.
Qed.

Lemma Match_mkalt : forall T s x rest i j,
  Match T s (mkalt x rest) i j <-> exists b, In b (x :: rest) /\ Match T s b i j.
Proof.
  intros T s x rest. revert x. induction rest as [|y rest IH]; intros x i j; cbn [mkalt].
  - split; [intro H; exists x; split; [left; reflexivity | exact H]|]. intros (b & [<-|[]] & H). exact H.
  - split.
    + intro H. inversion H as [| | |a' b' i' j' Ha|a' b' i' j' Hb| | | | |]; subst.
      * exists x. split; [left; reflexivity | assumption].
      * apply -> IH in Hb. destruct Hb as (b & Hb & Hm). exists b. split; [right; exact Hb | exact Hm].
    + intros (b & [<-|Hb] & Hm); [apply MAltL; exact Hm|]. apply MAltR. apply <- IH. exists b. split; assumption.
Qed.

Lemma Match_alt_of : forall T s l i j, l <> [] ->
  (Match T s (alt_of l) i j <-> exists b, In b l /\ Match T s b i j).
Proof. intros T s [|x rest] i j H; [contradiction|]. apply Match_mkalt. Qed.

(* no top-level bar: the anchor is appended to the whole pattern *)
Theorem parse_dollar_no_alternation : forall p r,
  parse p = Some r -> top_level_alternation p = false -> parse (p ++ [36]) = Some (Cat r Eol).
Proof.
  intros p r H Ht. destruct (parse_run p r H) as (st & Hr & Hm & Hs & ->).
  rewrite (parse_dollar p st Hr Hm Hs). unfold top_level_alternation in Ht. rewrite Hr, Hs in Ht.
  unfold branches_anchored, frame_re. destruct (f_alts (p_cur st)); [reflexivity | discriminate].
Qed.

(* ============================================================================================== *)
(* 7. validation_pattern: the test re.fullmatch(p, x) is membership in the language of p           *)
(* ============================================================================================== *)
Theorem fullmatch_text_is_language : forall T p r x, parse p = Some r ->
  (re_fullmatch_text T p x = true <-> in_language T r x).
Proof. intros T p r x Hp. unfold re_fullmatch_text. rewrite Hp. apply re_fullmatch_spec. Qed.

Lemma not_true_false : forall b, b <> true -> b = false.
Proof. intros [|] H; [contradiction H; reflexivity | reflexivity]. Qed.

Lemma not_in_language : forall T r s, re_fullmatch T r s = false -> ~ in_language T r s.
Proof. intros T r s H Hl. apply re_fullmatch_spec in Hl. congruence. Qed.

(* the sentence of the property about validation, in full: for EVERY pattern of the subset (top-level alternation and
   anchors included) and in every mode -- accept_any, accept_nonempty, normal mode with an expect that is itself in the
   language (otherwise the author gets a ConfigError, validation_expect_config_error) -- the submission is refused as
   explain_validation prescribes when the pattern does not match the ENTIRE cleaned submission, and is otherwise graded
   exactly as if there were no pattern *)
Theorem validation_fullmatch : forall T rm cfg p r a e s,
  cfg_validation_pattern cfg = Some p -> parse p = Some r ->
  (accept_any_mode cfg = true \/ in_language T r (clean_input T cfg e)) ->
  (~ in_language T r (clean_input T cfg s) ->
     check_response T rm (re_fullmatch_text T) cfg a e s
     = refusal cfg (cfg_explain_validation cfg) (cfg_invalid_msg cfg)) /\
  (in_language T r (clean_input T cfg s) ->
     check_response T rm (re_fullmatch_text T) cfg a e s
     = check_response T rm (re_fullmatch_text T) (without_pattern cfg) a e s).
Proof.
  intros T rm cfg p r a e s Hc Hp He.
  assert (Hexp : accept_any_mode cfg = true \/ re_fullmatch_text T p (clean_input T cfg e) = true).
  { destruct He as [He|He]; [left; exact He | right; apply (fullmatch_text_is_language T p r _ Hp); exact He]. }
  split; intro Hs.
  - apply (validation_refusal T rm (re_fullmatch_text T) cfg p Hc); [|exact Hexp].
    apply not_true_false. intro H. apply Hs. apply (fullmatch_text_is_language T p r _ Hp). exact H.
  - apply (validation_pass T rm (re_fullmatch_text T) cfg p Hc); [|exact Hexp].
    apply (fullmatch_text_is_language T p r _ Hp). exact Hs.
Qed.

(* normal mode, expect outside the language: ConfigError *)
Theorem validation_expect_outside_language : forall T rm cfg p r a e s,
  cfg_validation_pattern cfg = Some p -> parse p = Some r -> accept_any_mode cfg = false ->
  ~ in_language T r (clean_input T cfg e) ->
  check_response T rm (re_fullmatch_text T) cfg a e s = RaiseConfig.
Proof.
  intros T rm cfg p r a e s Hc Hp Ha He. apply (validation_expect_config_error T rm (re_fullmatch_text T) cfg p Hc); [exact Ha|].
  apply not_true_false. intro H. apply He. apply (fullmatch_text_is_language T p r _ Hp). exact H.
Qed.

(* ============================================================================================== *)
(* 8. regression: the inputs that refuted the full-match claim before /repo commit 976ea10          *)
(*    (the code then tested re.match(pattern + "$", x), pattern unchanged when it ended in "^")     *)
(* ============================================================================================== *)
(* a concrete table instance: no case folding, whitespace = tab, LF, CR, space *)
Definition T_plain : tables :=
  mkTables (fun c => [c]) (fun c => (c =? 9) || (c =? 10) || (c =? 13) || (c =? 32))
           (fun c => (48 <=? c) && (c <=? 57))
           (fun c => ((48 <=? c) && (c <=? 57)) || ((65 <=? c) && (c <=? 90)) || ((97 <=? c) && (c <=? 122)) || (c =? 95)).

Lemma T_plain_ok : tables_ok T_plain.
Proof.
  constructor; try reflexivity.
  intros c Hc. cbn. constructor; [exact Hc | constructor].
Qed.

Definition cfg_any (p : str) : config :=
  mkConfig false true true false true true false 0 0 ExErr (Some p) ExErr [98; 97; 100].
Definition cfg_normal (p : str) : config :=
  mkConfig false true true false true false false 0 0 ExErr (Some p) ExErr [98; 97; 100].

(* the old test accepted these: "ab" passes re.match("a|b$"), "x" passes re.match("^") *)
Lemma old_test_was_not_a_fullmatch :
  re_match_text T_plain [97; 124; 98; 36] [97; 98] = true /\ re_fullmatch_text T_plain [97; 124; 98] [97; 98] = false /\
  re_match_text T_plain [94] [120] = true /\ re_fullmatch_text T_plain [94] [120] = false.
Proof. vm_compute. auto. Qed.

(* now: pattern "a|b", accept_any, submission "ab" -> InvalidInput *)
Lemma regression_alternation :
  check_response T_plain (re_match_text T_plain) (re_fullmatch_text T_plain) (cfg_any [97; 124; 98]) inferred_answer [] [97; 98]
  = RaiseInvalid [98; 97; 100].
Proof. vm_compute. reflexivity. Qed.

(* pattern "^", accept_any, submission "x" -> InvalidInput *)
Lemma regression_trailing_caret :
  check_response T_plain (re_match_text T_plain) (re_fullmatch_text T_plain) (cfg_any [94]) inferred_answer [] [120]
  = RaiseInvalid [98; 97; 100].
Proof. vm_compute. reflexivity. Qed.

(* normal mode, pattern "a|b", expect "a", submission "ax", explain_validation = 'err' -> InvalidInput (was: silently wrong);
   the submissions "a" and "b" themselves are still graded: credited / wrong *)
Lemma regression_normal_mode :
  check_response T_plain (re_match_text T_plain) (re_fullmatch_text T_plain) (cfg_normal [97; 124; 98]) inferred_answer [97] [97; 120]
  = RaiseInvalid [98; 97; 100]
  /\ check_response T_plain (re_match_text T_plain) (re_fullmatch_text T_plain) (cfg_normal [97; 124; 98]) inferred_answer [97] [97]
  = Ret (credit_of inferred_answer)
  /\ check_response T_plain (re_match_text T_plain) (re_fullmatch_text T_plain) (cfg_normal [97; 124; 98]) inferred_answer [97] [98]
  = Ret zero_entry.
Proof. vm_compute. auto. Qed.
