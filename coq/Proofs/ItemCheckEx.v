(* Proofs/ItemCheckEx.v -- closed examples for C08 (non-vacuity, ties, what is left open), by computation *)
From Coq Require Import ZArith QArith List Bool Permutation.
From Verif.Lib Require Import QRound.
From Verif.Model Require Import Result ItemCheck ItemCheckAgree.
From Verif.Proofs Require Import ItemCheck.
Import ListNotations.
Open Scope Q_scope.

Definition s_ok_ : str := [111; 107]%Z.                          (* "ok" *)
Definition s_nicely : str := [110; 105; 99; 101; 108; 121]%Z.     (* "nicely" *)
Definition s_ab : str := [97; 98]%Z.                              (* "ab" *)
Definition s_cd : str := [99; 100]%Z.                             (* "cd" *)
Definition s_hint : str := [104; 105; 110; 116]%Z.                (* "hint" *)
Definition s_wrong : str := [116; 114; 121; 32; 97; 103; 97; 105; 110]%Z.   (* "try again" *)

(* the oracle of the examples: what check_response returns for the alternative whose expect value is id *)
Definition miss : entry + exc := inl (mkEntry OkFalse 0 []).
Definition hit (a : answer Z) : entry + exc := inl (mkEntry (a_ok a) (a_credit a) (a_msg a)).

Definition alt1 := mkAnswer [1%Z] (1#2) s_ok_ OkPartial.
Definition alt2 := mkAnswer [2%Z] (1#2) s_nicely OkPartial.
Definition alt3 := mkAnswer [3%Z] 1 [] OkTrue.
(* the input matches alternatives 1 and 2 (both worth 1/2) but not 3 *)
Definition tbl12 : tbl := [(1%Z, hit alt1); (2%Z, hit alt2); (3%Z, miss)].

Definition orders3 {A} (a b c : A) : list (list A) :=
  [[a; b; c]; [a; c; b]; [b; a; c]; [b; c; a]; [c; a; b]; [c; b; a]].

Definition ret_is (o : outcome exc) (g : Q) (m : str) : bool :=
  match o with Ret e => Qeq_bool (e_grade e) g && str_eqb (e_msg e) m | _ => false end.

Lemma c08_ex_tie_longest_every_order :
  forallb (fun l => ret_is (check (table_cr tbl12) s_wrong l tt) (1#2) s_nicely) (orders3 alt1 alt2 alt3) = true.
Proof. vm_compute. reflexivity. Qed.

(* the same three alternatives when the input matches all of them: the full-credit one wins *)
Definition tbl123 : tbl := [(1%Z, hit alt1); (2%Z, hit alt2); (3%Z, hit alt3)].
Lemma c08_ex_best_wins_every_order :
  forallb (fun l => ret_is (check (table_cr tbl123) s_wrong l tt) 1 []) (orders3 alt1 alt2 alt3) = true.
Proof. vm_compute. reflexivity. Qed.

(* two best alternatives with different messages of EQUAL length: the property does not say which is
   reported; the code reports the first listed, so the text (not its length) depends on the order *)
Definition alt_ab := mkAnswer [1%Z] 1 s_ab OkTrue.
Definition alt_cd := mkAnswer [2%Z] 1 s_cd OkTrue.
Definition tbl_abcd : tbl := [(1%Z, hit alt_ab); (2%Z, hit alt_cd)].
Lemma c08_ex_equal_length_tie_follows_listing_order :
  check (table_cr tbl_abcd) [] [alt_ab; alt_cd] tt = Ret (mkEntry OkTrue 1 s_ab) /\
  check (table_cr tbl_abcd) [] [alt_cd; alt_ab] tt = Ret (mkEntry OkTrue 1 s_cd).
Proof. split; vm_compute; reflexivity. Qed.

(* wrong_msg: shown when nothing matches; not shown when a zero-credit alternative with its own message
   matches; not shown when the best grade is positive, even with an empty message *)
Definition alt_zero := mkAnswer [2%Z] 0 s_hint OkFalse.
Lemma c08_ex_wrong_msg :
  check (table_cr [(3%Z, miss); (2%Z, miss)]) s_wrong [alt3; alt_zero] tt = Ret (mkEntry OkFalse 0 s_wrong) /\
  check (table_cr [(3%Z, miss); (2%Z, hit alt_zero)]) s_wrong [alt3; alt_zero] tt = Ret (mkEntry OkFalse 0 s_hint) /\
  check (table_cr [(3%Z, hit alt3); (2%Z, miss)]) s_wrong [alt3; alt_zero] tt = Ret (mkEntry OkTrue 1 []).
Proof. repeat split; vm_compute; reflexivity. Qed.


Lemma c08_ex_errors :
  check (table_cr []) s_wrong [] tt = NoAnswers /\
  check (table_cr []) s_wrong [mkAnswer [] 1 [] OkTrue] tt = NoResults /\
  check (table_cr [(1%Z, hit alt1); (2%Z, inr (true, 7%Z)); (3%Z, inr (false, 9%Z))]) s_wrong [alt1; alt2; alt3] tt
    = Raised (true, 7%Z) /\
  check (table_cr [(1%Z, hit alt1); (2%Z, inr (true, 7%Z)); (3%Z, inr (false, 9%Z))]) s_wrong [alt3; alt2; alt1] tt
    = Raised (false, 9%Z).
Proof. repeat split; vm_compute; reflexivity. Qed.

(* canonicalisation: 'a'  |  ('a', 'b') as the whole answers  |  a dictionary with a tuple of values, credit
   1/2 (ok computed)  |  ok pinned at credit 1  |  credit outside [0,1] is refused *)
Lemma c08_ex_canon :
  canon (RSingle (RBare (ROne 1%Z))) = Some [mkAnswer [1%Z] 1 [] OkTrue] /\
  canon (RSingle (RBare (RMany [1%Z; 2%Z]))) = Some [mkAnswer [1%Z] 1 [] OkTrue; mkAnswer [2%Z] 1 [] OkTrue] /\
  canon (RTuple [RDict (RMany [1%Z; 2%Z]) (Some (1#2)) (Some s_ok_) None; RBare (RMany [3%Z; 4%Z])])
    = Some [mkAnswer [1%Z; 2%Z] (1#2) s_ok_ OkPartial; mkAnswer [3%Z; 4%Z] 1 [] OkTrue] /\
  canon (RSingle (RDict (ROne 1%Z) None None (Some RFalse))) = Some [mkAnswer [1%Z] 1 [] OkFalse] /\
  canon (RSingle (RDict (ROne 1%Z) (Some (1#2)) None (Some RTrue))) = Some [mkAnswer [1%Z] (1#2) [] OkPartial] /\
  canon (RTuple [RBare (ROne 1%Z); RDict (ROne 2%Z) (Some (3#2)) None None]) = None.
Proof. repeat split; vm_compute; reflexivity. Qed.

(* a reordering in the sense of the theorems: alternatives permuted and the values of a tuple permuted *)
Lemma c08_ex_reordered :
  raw_reordered (TE:=Z)
    [RDict (RMany [1%Z; 2%Z]) (Some (1#2)) (Some s_ok_) None; RBare (ROne 3%Z)]
    [RBare (ROne 3%Z); RDict (RMany [2%Z; 1%Z]) (Some (1#2)) (Some s_ok_) None].
Proof.
  eexists. split; [apply perm_swap|].
  constructor; [apply rvp_same|]. constructor; [|constructor].
  apply rvp_dict. apply perm_swap.
Qed.
