(* Proofs/SchemaInit.v -- the cross-option rules of the constructors (Model/SchemaInit.v) characterised. *)
From Coq Require Import ZArith QArith List Bool String Lia.
From Verif.Model Require Import Result Schema SchemaInit.
From Verif.Proofs Require Import Schema SchemaIdem SchemaIdem2.
Import ListNotations.
Open Scope list_scope.

(* ------------------------------------------------------------------------------------------------ *)
(* keyword / dictionary forms                                                                        *)
(* ------------------------------------------------------------------------------------------------ *)
Lemma kwargs_dict_equiv : forall orc s chain kw,
  init_config orc s chain None kw = init_config orc s chain (Some (PDict kw)) [].
Proof. reflexivity. Qed.

(* a configuration dictionary given positionally wins over keyword arguments (which are then ignored) *)
Lemma config_wins_over_kwargs : forall orc s chain c kw,
  init_config orc s chain (Some c) kw = init_config orc s chain (Some c) [].
Proof. reflexivity. Qed.

(* ------------------------------------------------------------------------------------------------ *)
(* whitelist / blacklist                                                                             *)
(* ------------------------------------------------------------------------------------------------ *)
Lemma whitelist_blacklist_spec : forall dfuncs bl wl,
  whitelist_blacklist_ok dfuncs bl wl = true <->
  (~ (truthy bl = true /\ truthy wl = true))
  /\ (forall f, In f (names_of bl) -> name_in f dfuncs = true)
  /\ (py_eqb wl (PList [PNone]) = true \/ forall f, In f (names_of wl) -> name_in f dfuncs = true).
Proof.
  intros dfuncs bl wl. unfold whitelist_blacklist_ok. rewrite !andb_true_iff, negb_true_iff, orb_true_iff, !forallb_forall.
  split.
  - intros [[H1 H2] H3]. split; [|split; assumption].
    intros [Hb Hw]. rewrite Hb, Hw in H1. discriminate.
  - intros [H1 [H2 H3]]. split; [split|]; try assumption.
    destruct (truthy bl) eqn:Hb; [|reflexivity]. destruct (truthy wl) eqn:Hw; [|reflexivity]. exfalso. apply H1. auto.
Qed.

Lemma override_spec : forall suppress entries defaults,
  override_ok suppress entries defaults = true <->
  (suppress = true \/ forall d, In d defaults -> name_in d (names_of entries) = false).
Proof.
  intros suppress entries defaults. unfold override_ok. rewrite orb_true_iff, negb_true_iff. split.
  - intros [H|H]; [left; exact H | right]. intros d Hd.
    destruct (name_in d (names_of entries)) eqn:E; [|reflexivity].
    assert (existsb (fun d0 => name_in d0 (names_of entries)) defaults = true) by (apply existsb_exists; exists d; auto).
    congruence.
  - intros [H|H]; [left; exact H | right].
    destruct (existsb _ defaults) eqn:E; [|reflexivity]. apply existsb_exists in E. destruct E as [d [Hd Hn]].
    rewrite (H d Hd) in Hn. discriminate.
Qed.

Lemma no_collision_spec : forall a b,
  no_collision a b = true <-> forall x, In x (names_of a) -> name_in x (names_of b) = false.
Proof.
  intros a b. unfold no_collision. rewrite negb_true_iff. split.
  - intros H x Hx. destruct (name_in x (names_of b)) eqn:E; [|reflexivity].
    assert (existsb (fun x0 => name_in x0 (names_of b)) (names_of a) = true) by (apply existsb_exists; exists x; auto).
    congruence.
  - intro H. destruct (existsb _ (names_of a)) eqn:E; [|reflexivity]. apply existsb_exists in E. destruct E as [x [Hx Hn]].
    rewrite (H x Hx) in Hn. discriminate.
Qed.

Section Math.
  Variable orc : Z -> pyval -> outcome pyval.
  Variables dfuncs dvars : list pyval.
  Variable sf_default : pyval.
  Variable sf_value : schema.

  (* validate_math_config accepts EXACTLY WHEN: not both lists, only known function names, no unsuppressed
     override of a (not deleted) default, no variable/constant collision, and sample_from validates *)
  Theorem math_rules_accept_iff : forall c uc out dvars' c1 sup,
    cfg_get "user_constants" c = PDict uc ->
    dvars' = filter (fun d => negb (name_in d (removed_constants uc))) dvars ->
    c1 = dict_set (zs "user_constants") (PDict (kept_constants uc)) c ->
    sup = truthy (cfg_get "suppress_warnings" c1) ->
    (math_rules orc dfuncs dvars sf_default sf_value (PDict c) = Ret out <->
     whitelist_blacklist_ok dfuncs (cfg_get "blacklist" c) (cfg_get "whitelist" c) = true
     /\ override_ok sup (cfg_get "variables" c1) dvars' = true
     /\ override_ok sup (cfg_get "numbered_vars" c1) dvars' = true
     /\ override_ok sup (cfg_get "user_constants" c1) dvars' = true
     /\ override_ok sup (cfg_get "user_functions" c1) dfuncs = true
     /\ no_collision (cfg_get "variables" c1) (cfg_get "user_constants" c1) = true
     /\ exists sf, validate orc (sample_from_schema sf_default sf_value
                                   (names_of (cfg_get "variables" c1) ++ names_of (cfg_get "numbered_vars" c1)))
                            (cfg_get "sample_from" c1) = Ret sf
                   /\ out = PDict (dict_set (zs "sample_from") sf c1)).
  Proof.
    intros c uc out dvars' c1 sup Huc Hd Hc Hs. unfold math_rules. rewrite Huc. cbv zeta.
    rewrite <- Hd, <- Hc, <- Hs.
    destruct (whitelist_blacklist_ok dfuncs (cfg_get "blacklist" c) (cfg_get "whitelist" c)) eqn:W; cbn [negb].
    2: { split. intro H0. inversion H0. intros [H0 _]. discriminate H0. }
    destruct (override_ok sup (cfg_get "variables" c1) dvars') eqn:O1; cbn [negb andb].
    2: { split. intro H0. inversion H0. intros [_ [H0 _]]. discriminate H0. }
    destruct (override_ok sup (cfg_get "numbered_vars" c1) dvars') eqn:O2; cbn [negb andb].
    2: { split. intro H0. inversion H0. intros [_ [_ [H0 _]]]. discriminate H0. }
    destruct (override_ok sup (cfg_get "user_constants" c1) dvars') eqn:O3; cbn [negb andb].
    2: { split. intro H0. inversion H0. intros [_ [_ [_ [H0 _]]]]. discriminate H0. }
    destruct (override_ok sup (cfg_get "user_functions" c1) dfuncs) eqn:O4; cbn [negb andb].
    2: { split. intro H0. inversion H0. intros [_ [_ [_ [_ [H0 _]]]]]. discriminate H0. }
    destruct (no_collision (cfg_get "variables" c1) (cfg_get "user_constants" c1)) eqn:N; cbn [negb].
    2: { split. intro H0. inversion H0. intros [_ [_ [_ [_ [_ [H0 _]]]]]]. discriminate H0. }
    destruct (validate orc _ (cfg_get "sample_from" c1)) as [sf|e] eqn:S.
    - split.
      + intro H. inversion H. repeat split; try reflexivity. exists sf. split; reflexivity.
      + intros [_ [_ [_ [_ [_ [_ [sf' [Hs' Ho]]]]]]]]. inversion Hs'; subst. reflexivity.
    - split. intro H0. inversion H0. intros [_ [_ [_ [_ [_ [_ [sf' [Hs' _]]]]]]]]. discriminate Hs'.
  Qed.

  (* the exposed configuration never carries a None-valued user constant, whatever name it has: the entry only
     deletes the default constant of that name (if there is one) *)
  Theorem math_rules_prunes_none_constants : forall c uc out,
    cfg_get "user_constants" c = PDict uc ->
    math_rules orc dfuncs dvars sf_default sf_value (PDict c) = Ret out ->
    exists c', out = PDict c' /\ cfg_get "user_constants" c' = PDict (kept_constants uc)
               /\ forall k v, In (k, v) (kept_constants uc) -> v <> PNone /\ In (k, v) uc.
  Proof.
    intros c uc out Huc H.
    apply (math_rules_accept_iff c uc out _ _ _ Huc eq_refl eq_refl eq_refl) in H.
    destruct H as [_ [_ [_ [_ [_ [_ [sf [_ ->]]]]]]]].
    eexists. split; [reflexivity|]. split.
    - unfold cfg_get. rewrite (dict_get_set_other (zs "sample_from") (zs "user_constants")) by reflexivity.
      rewrite dict_get_set_same. reflexivity.
    - intros k v Hin. unfold kept_constants in Hin. apply filter_In in Hin. destruct Hin as [Hin Hv]. simpl in Hv.
      split; [intro Hn; subst v; discriminate Hv | exact Hin].
  Qed.

  (* no simultaneous whitelist and blacklist *)
  Corollary whitelist_blacklist_exclusive : forall c out,
    math_rules orc dfuncs dvars sf_default sf_value (PDict c) = Ret out ->
    ~ (truthy (cfg_get "blacklist" c) = true /\ truthy (cfg_get "whitelist" c) = true).
  Proof.
    intros c out H. unfold math_rules in H.
    destruct (whitelist_blacklist_ok dfuncs (cfg_get "blacklist" c) (cfg_get "whitelist" c)) eqn:W; [|discriminate].
    apply whitelist_blacklist_spec in W. tauto.
  Qed.

  (* a violated cross rule is reported as a ConfigError (when the earlier ones hold) *)
  Corollary both_lists_is_config_error : forall c,
    truthy (cfg_get "blacklist" c) = true -> truthy (cfg_get "whitelist" c) = true ->
    math_rules orc dfuncs dvars sf_default sf_value (PDict c) = Raise EConfig.
  Proof.
    intros c Hb Hw. unfold math_rules, whitelist_blacklist_ok. rewrite Hb, Hw. reflexivity.
  Qed.
End Math.

(* ------------------------------------------------------------------------------------------------ *)
(* grouping                                                                                          *)
(* ------------------------------------------------------------------------------------------------ *)
Lemma zmax_list_ge : forall g z, In z g -> (z <= zmax_list g)%Z.
Proof.
  induction g as [|a r IH]; intros z H; [contradiction|]. simpl. destruct H as [->|H]; [lia|]. specialize (IH z H). lia.
Qed.

(* set(grouping) == {1, ..., max(grouping)} *)
Theorem grouping_contiguous_spec : forall g,
  grouping_contiguous g = true <->
  (forall z, In z g -> (1 <= z)%Z) /\ (forall k, (1 <= k <= zmax_list g)%Z -> In k g).
Proof.
  intro g. unfold grouping_contiguous. rewrite andb_true_iff, !forallb_forall. split.
  - intros [H1 H2]. split.
    + intros z Hz. specialize (H2 z Hz). apply andb_true_iff in H2. destruct H2 as [H2 _]. lia.
    + intros k Hk. assert (Hin : In k (map Z.of_nat (seq 1 (Z.to_nat (zmax_list g))))).
      { apply in_map_iff. exists (Z.to_nat k). split; [lia|]. apply in_seq. lia. }
      specialize (H1 k Hin). apply existsb_exists in H1. destruct H1 as [x [Hx Hk']]. apply Z.eqb_eq in Hk'. subst. exact Hx.
  - intros [H1 H2]. split.
    + intros k Hin. apply in_map_iff in Hin. destruct Hin as [n [Hn Hs]]. apply in_seq in Hs. subst k.
      apply existsb_exists. exists (Z.of_nat n). split; [apply H2; lia | apply Z.eqb_refl].
    + intros z Hz. apply andb_true_iff. pose proof (H1 z Hz). pose proof (zmax_list_ge g z Hz). lia.
Qed.

Section Lists.
  Variable cl : Z.

  Lemma list_rules_unordered_single_subgrader : forall c norm out first rest sl,
    list_rules cl (PDict c) norm = Ret out ->
    shape_of_answers (cfg_get "answers" c) = ALists (first :: rest) ->
    cfg_get "subgraders" c = PList sl ->
    truthy (cfg_get "ordered" c) = true /\ List.length sl = py_length first
    /\ forall l, In l rest -> py_length l = py_length first.
  Proof.
    intros c norm out first rest sl H Hs Hsub. unfold list_rules in H. rewrite Hs, Hsub in H.
    destruct (forallb (fun l => Nat.eqb (py_length l) (py_length first)) rest) eqn:F; simpl in H.
    2: { discriminate. }
    destruct (Nat.eqb (List.length sl) (py_length first)) eqn:L; simpl in H; [|discriminate].
    destruct (truthy (cfg_get "ordered" c)) eqn:O; simpl in H; [|discriminate].
    split; [reflexivity|]. split; [apply Nat.eqb_eq; exact L|].
    intros l Hl. rewrite forallb_forall in F. apply Nat.eqb_eq. apply F. exact Hl.
  Qed.

  Lemma list_rules_single_answer_refused : forall c norm a,
    cfg_get "answers" c = PList [a] -> list_rules cl (PDict c) norm = Raise EConfig.
  Proof. intros c norm a H. unfold list_rules. rewrite H. reflexivity. Qed.

  Lemma list_rules_grouping : forall c norm out g0 g,
    list_rules cl (PDict c) norm = Ret out ->
    cfg_get "grouping" c = PList (g0 :: g) ->
    grouping_ok cl (truthy (cfg_get "ordered" c)) (cfg_get "subgraders" c) (group_numbers (g0 :: g)) = true.
  Proof.
    intros c norm out g0 g H Hg. unfold list_rules in H. rewrite Hg in H.
    match type of H with (match ?X with _ => _ end) = _ => destruct X as [a|e]; [|discriminate] end.
    destruct (grouping_ok cl (truthy (cfg_get "ordered" c)) (cfg_get "subgraders" c) (group_numbers (g0 :: g))); [reflexivity | discriminate].
  Qed.

  (* what grouping_ok demands: contiguous group numbers from 1; a ListGrader behind every multi-item group;
     as many groups as subgraders; equal group sizes when unordered *)
  Lemma grouping_ok_spec : forall ordered subs g,
    grouping_ok cl ordered subs g = true ->
    grouping_contiguous g = true
    /\ (ordered = false -> all_same_nat (group_sizes g) = true)
    /\ match subs with
       | PList sl => List.length (group_sizes g) = List.length sl
                     /\ forall n s, In (n, s) (combine (group_sizes g) sl) -> (n <= 1)%nat \/ has_tag cl s = true
       | s => has_tag cl s = true
       end.
  Proof.
    intros ordered subs g H. unfold grouping_ok in H. rewrite !andb_true_iff in H. destruct H as [[[H1 H2] H3] H4].
    split; [exact H1|]. split.
    - intro Ho. subst ordered. exact H3.
    - destruct subs; try exact H2.
      apply andb_true_iff in H4. destruct H4 as [H4 H5]. split; [apply Nat.eqb_eq; exact H4|].
      intros n s Hin. rewrite forallb_forall in H5. specialize (H5 (n, s) Hin). simpl in H5.
      apply orb_true_iff in H5. destruct H5 as [H5|H5]; [left; apply Nat.leb_le; exact H5 | right; exact H5].
  Qed.
End Lists.

(* ------------------------------------------------------------------------------------------------ *)
(* nested delimiters                                                                                 *)
(* ------------------------------------------------------------------------------------------------ *)
(* accepted exactly when no delimiter of the chain equals one that comes before it (its own or an outer one) *)
Theorem delimiters_distinct_spec : forall chain seen,
  delimiters_distinct seen chain = true <->
  forall pre d post, chain = pre ++ d :: post -> name_in d (seen ++ pre) = false.
Proof.
  induction chain as [|d r IH]; intro seen; simpl.
  - split; [intros _ pre d post H; destruct pre; discriminate | reflexivity].
  - destruct (name_in d seen) eqn:E.
    + split; [discriminate|]. intro H. specialize (H [] d r eq_refl). rewrite app_nil_r in H. congruence.
    + rewrite IH. split.
      * intros H pre d' post Heq. destruct pre as [|p pre'].
        -- simpl in Heq. inversion Heq; subst. rewrite app_nil_r. exact E.
        -- simpl in Heq. inversion Heq; subst. specialize (H pre' d' post eq_refl).
           rewrite <- app_assoc in H. exact H.
      * intros H pre d' post Heq. specialize (H (d :: pre) d' post). rewrite <- app_assoc. apply H. simpl. rewrite Heq. reflexivity.
Qed.

Corollary single_list_rules_accept : forall cl c out,
  single_list_rules cl (PDict c) = Ret out ->
  out = PDict c /\
  forall pre d post, delimiter_chain 64 cl (cfg_get "subgrader" c) = pre ++ d :: post ->
                     name_in d (cfg_get "delimiter" c :: pre) = false.
Proof.
  intros cl c out H. unfold single_list_rules in H.
  destruct (delimiters_distinct _ _) eqn:D; [|discriminate]. inversion H. split; [reflexivity|].
  intros pre d post Hc. rewrite delimiters_distinct_spec in D. exact (D pre d post Hc).
Qed.

Corollary same_delimiter_refused : forall cl c tags sc,
  cfg_get "subgrader" c = PObj tags (PDict sc) -> existsb (Z.eqb cl) tags = true ->
  py_eqb (cfg_get "delimiter" sc) (cfg_get "delimiter" c) = true ->
  single_list_rules cl (PDict c) = Raise EConfig.
Proof.
  intros cl c tags sc Hs Ht He. unfold single_list_rules. rewrite Hs.
  change 64%nat with (S 63). cbn [delimiter_chain]. rewrite Ht.
  cbn [delimiters_distinct name_in existsb]. rewrite He. reflexivity.
Qed.
