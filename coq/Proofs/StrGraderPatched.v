(* Proofs/StrGraderPatched.v -- the repair proposed for the validation defect (C18), proved in the model.

   check_response_patched is check_response with the two tests
       re.match(pattern + "$", x) is None        (pattern + "$" unless the pattern ends with "^")
   replaced by
       re.fullmatch(pattern, x) is None.
   For this definition the sentence of the property about validation holds in full strength, for every pattern of the
   modelled subset and in every mode.  (Not part of the obligations of C18: the code in /repo is the unpatched one.) *)
From Coq Require Import ZArith QArith List Bool.
From Verif.Model Require Import Result StrGrader StrRegex.
From Verif.Proofs Require Import StrGrader StrRegex.
Import ListNotations.
Open Scope Z_scope.

Definition check_response_patched (T : tables) (refull : str -> str -> bool) (cfg : config)
    (v_answer : entry) (a_expect : str) (v_student_input : str) : outcome :=
  let v_expect := clean_input T cfg a_expect in
  let v_student := clean_input T cfg v_student_input in
  let v_accept_any := accept_any_mode cfg in
  let v_min_length := effective_min_length cfg in
  let validate_student s_pattern :=
    if negb (refull s_pattern v_student)
    then construct_message cfg (cfg_invalid_msg cfg) (cfg_explain_validation cfg)
    else grade_part T cfg v_answer v_expect v_student v_accept_any v_min_length in
  match cfg_validation_pattern cfg with
  | Some s_pattern =>
      if negb v_accept_any then
        if negb (refull s_pattern v_expect) then RaiseConfig
        else validate_student s_pattern
      else validate_student s_pattern
  | None => grade_part T cfg v_answer v_expect v_student v_accept_any v_min_length
  end.

(* without a pattern nothing changes *)
Lemma patched_same_without_pattern : forall T rm rf cfg a e s, cfg_validation_pattern cfg = None ->
  check_response_patched T rf cfg a e s = check_response T rm rf cfg a e s.
Proof. intros T rm rf cfg a e s H. unfold check_response_patched, check_response. cbv zeta. rewrite H. reflexivity. Qed.

(* the validation sentence of the property, in full: for EVERY pattern of the subset (alternation included), in accept_any,
   accept_nonempty and normal mode (expect itself in the language): the submission is refused as explain_validation says
   iff the pattern does not match the entire cleaned submission, and is otherwise graded as if there were no pattern *)
Theorem patched_validation_fullmatch : forall T cfg p r a e s,
  cfg_validation_pattern cfg = Some p -> parse p = Some r ->
  (accept_any_mode cfg = true \/ in_language T r (clean_input T cfg e)) ->
  (~ in_language T r (clean_input T cfg s) ->
     check_response_patched T (re_fullmatch_text T) cfg a e s
     = refusal cfg (cfg_explain_validation cfg) (cfg_invalid_msg cfg)) /\
  (in_language T r (clean_input T cfg s) ->
     check_response_patched T (re_fullmatch_text T) cfg a e s
     = check_response_patched T (re_fullmatch_text T) (without_pattern cfg) a e s).
Proof.
  intros T cfg p r a e s Hc Hp He.
  assert (Hexp : accept_any_mode cfg = false -> re_fullmatch_text T p (clean_input T cfg e) = true).
  { intro Ha. destruct He as [He|He]; [congruence|]. apply (fullmatch_text_is_language T p r _ Hp). exact He. }
  assert (E : check_response_patched T (re_fullmatch_text T) (without_pattern cfg) a e s
              = grade_part T cfg a (clean_input T cfg e) (clean_input T cfg s) (accept_any_mode cfg)
                  (effective_min_length cfg)) by reflexivity.
  split; intro Hs.
  - assert (Hf : re_fullmatch_text T p (clean_input T cfg s) = false).
    { apply not_true_false. intro H. apply Hs. apply (fullmatch_text_is_language T p r _ Hp). exact H. }
    unfold check_response_patched. cbv zeta. rewrite Hc, Hf. cbn [negb]. rewrite construct_message_spec.
    destruct (accept_any_mode cfg) eqn:Ea; cbn [negb]; [reflexivity|]. rewrite (Hexp eq_refl). reflexivity.
  - assert (Hf : re_fullmatch_text T p (clean_input T cfg s) = true).
    { apply (fullmatch_text_is_language T p r _ Hp). exact Hs. }
    rewrite E. unfold check_response_patched. cbv zeta. rewrite Hc, Hf. cbn [negb].
    destruct (accept_any_mode cfg) eqn:Ea; cbn [negb]; [reflexivity|]. rewrite (Hexp eq_refl). reflexivity.
Qed.

(* the witnesses that refute the unpatched code are handled correctly *)
Example patched_refuses_ab_for_a_bar_b :
  check_response_patched T_plain (re_fullmatch_text T_plain) (cfg_any [97; 124; 98]) inferred_answer [] [97; 98]
  = RaiseInvalid [98; 97; 100].
Proof. vm_compute. reflexivity. Qed.

Example patched_refuses_x_for_caret :
  check_response_patched T_plain (re_fullmatch_text T_plain) (cfg_any [94]) inferred_answer [] [120]
  = RaiseInvalid [98; 97; 100].
Proof. vm_compute. reflexivity. Qed.
