(* Proofs/SingleListStr.v -- the string layer of the SingleListGrader model (C07):
   split inverts join for every non-empty delimiter; for a one-character delimiter join also inverts split
   on items that do not contain it; the whitespace table is empty above U+3000. *)
From Coq Require Import ZArith List Bool Arith Lia.
From Verif.Model Require Import Result SingleList.
Import ListNotations.

(* ---------- prefixb ---------- *)
Lemma prefixb_app : forall d s, prefixb d s = true -> s = d ++ skipn (length d) s.
Proof.
  induction d as [|x d IH]; intros s H; simpl in *.
  - reflexivity.
  - destruct s as [|y s]; [discriminate|].
    apply andb_true_iff in H. destruct H as [H1 H2]. apply Z.eqb_eq in H1. subst y.
    simpl. f_equal. apply IH. exact H2.
Qed.

Lemma prefixb_refl_app : forall d s, prefixb d (d ++ s) = true.
Proof. induction d as [|x d IH]; intro s; simpl; [reflexivity | rewrite Z.eqb_refl, IH; reflexivity]. Qed.

(* ---------- split / join ---------- *)
Lemma split_fuel_nonempty : forall fuel d s cur, split_fuel fuel d s cur <> [].
Proof.
  induction fuel as [|f IH]; intros d s cur; simpl; [discriminate|].
  destruct s as [|c s']; [discriminate|]. destruct (prefixb d (c :: s')); [discriminate | apply IH].
Qed.

Lemma join_cons : forall d x r, r <> [] -> join d (x :: r) = x ++ d ++ join d r.
Proof. intros d x r H. destruct r as [|y r]; [congruence | reflexivity]. Qed.

Lemma split_fuel_join : forall d, d <> [] -> forall fuel s cur, (length s <= fuel)%nat ->
  join d (split_fuel fuel d s cur) = rev cur ++ s.
Proof.
  intros d Hd. induction fuel as [|f IH]; intros s cur Hlen.
  - destruct s; [|simpl in Hlen; lia]. reflexivity.
  - destruct s as [|c s']; [simpl; rewrite app_nil_r; reflexivity|].
    simpl split_fuel. destruct (prefixb d (c :: s')) eqn:P.
    + rewrite join_cons by apply split_fuel_nonempty.
      rewrite IH.
      * simpl rev. simpl app at 2. rewrite <- (prefixb_app d (c :: s') P). reflexivity.
      * rewrite skipn_length. destruct d as [|x d]; [congruence|]. simpl in *. lia.
    + rewrite IH by (simpl in Hlen; lia). simpl. rewrite <- app_assoc. reflexivity.
Qed.

Lemma split_nonempty : forall d s, split d s <> [].
Proof. intros d s. unfold split. destruct d; [discriminate | apply split_fuel_nonempty]. Qed.

(* Python:  d.join(s.split(d)) == s  for every non-empty d *)
Theorem join_split : forall d s, d <> [] -> join d (split d s) = s.
Proof.
  intros d s Hd. unfold split. destruct d as [|x d]; [congruence|].
  rewrite split_fuel_join; [reflexivity | discriminate | lia].
Qed.

Lemma split_length_pos : forall d s, (1 <= length (split d s))%nat.
Proof. intros d s. pose proof (split_nonempty d s). destruct (split d s); [congruence | simpl; lia]. Qed.

(* ---------- a one-character delimiter: a structural characterisation ---------- *)
Fixpoint split1 (c : Z) (s cur : str) : list str :=
  match s with
  | [] => [rev cur]
  | x :: s' => if Z.eqb c x then rev cur :: split1 c s' [] else split1 c s' (x :: cur)
  end.

Lemma split_fuel_single : forall c fuel s cur, (length s <= fuel)%nat -> split_fuel fuel [c] s cur = split1 c s cur.
Proof.
  intros c. induction fuel as [|f IH]; intros s cur H.
  - destruct s; [|simpl in H; lia]. simpl. rewrite app_nil_r. reflexivity.
  - destruct s as [|x s']; [reflexivity|]. simpl. rewrite andb_true_r.
    destruct (Z.eqb c x); rewrite IH by (simpl in H; lia); reflexivity.
Qed.

Lemma split_single : forall c s, split [c] s = split1 c s [].
Proof. intros c s. unfold split. apply split_fuel_single. lia. Qed.

Lemma split1_skip : forall c x s cur, ~ In c x -> split1 c (x ++ s) cur = split1 c s (rev x ++ cur).
Proof.
  intros c x. induction x as [|y x IH]; intros s cur H; [reflexivity|].
  simpl. destruct (Z.eqb_spec c y) as [E|NE]; [exfalso; apply H; left; congruence|].
  rewrite IH by (intro K; apply H; right; exact K). rewrite <- app_assoc. reflexivity.
Qed.

(* Python:  d.join(items).split(d) == items  when d is one character that occurs in no item *)
Theorem split_join_single : forall c items, items <> [] -> Forall (fun it => ~ In c it) items ->
  split [c] (join [c] items) = items.
Proof.
  intros c items Hne Hall. rewrite split_single.
  induction items as [|x r IH]; [congruence|].
  inversion Hall as [|? ? Hx Hr]; subst.
  destruct r as [|y r'].
  - simpl. rewrite <- (app_nil_r x) at 1. rewrite split1_skip by exact Hx. simpl.
    rewrite app_nil_r, rev_involutive. reflexivity.
  - change (join [c] (x :: y :: r')) with (x ++ [c] ++ join [c] (y :: r')).
    rewrite split1_skip by exact Hx. simpl. rewrite Z.eqb_refl. rewrite app_nil_r, rev_involutive.
    f_equal. apply IH; [discriminate | exact Hr].
Qed.

(* ---------- blank items ---------- *)
Lemma is_space_bounded : forall c, (12288 < c)%Z -> is_space c = false.
Proof.
  intros c H. unfold is_space.
  repeat match goal with
  | |- context [(c <=? ?b)%Z] => rewrite (proj2 (Z.leb_gt c b)) by lia
  | |- context [(c =? ?b)%Z] => rewrite (proj2 (Z.eqb_neq c b)) by lia
  end.
  rewrite ?andb_false_r. reflexivity.
Qed.

Lemma is_space_negative : forall c, (c < 0)%Z -> is_space c = false.
Proof.
  intros c H. unfold is_space.
  repeat match goal with
  | |- context [(?a <=? c)%Z] => rewrite (proj2 (Z.leb_gt a c)) by lia
  | |- context [(c =? ?b)%Z] => rewrite (proj2 (Z.eqb_neq c b)) by lia
  end.
  reflexivity.
Qed.

Lemma blank_positions_from_spec : forall items k p,
  In p (blank_positions_from k items) <->
  exists i, (i < length items)%nat /\ p = (k + i)%nat /\ is_blank (nth i items []) = true.
Proof.
  induction items as [|it r IH]; intros k p; simpl.
  - split; [tauto | intros (i & Hi & _); lia].
  - destruct (is_blank it) eqn:B; simpl; rewrite IH.
    + split.
      * intros [E | (i & Hi & Hp & Hb)].
        { exists 0%nat. subst p. repeat split; [lia | lia | exact B]. }
        { exists (S i). repeat split; [lia | lia | exact Hb]. }
      * intros (i & Hi & Hp & Hb). destruct i as [|i].
        { left. lia. }
        { right. exists i. repeat split; [lia | lia | exact Hb]. }
    + split.
      * intros (i & Hi & Hp & Hb). exists (S i). repeat split; [lia | lia | exact Hb].
      * intros (i & Hi & Hp & Hb). destruct i as [|i]; [simpl in Hb; congruence|].
        exists i. repeat split; [lia | lia | exact Hb].
Qed.

(* the reported positions are exactly the 1-based positions of the blank items *)
Lemma blank_positions_spec : forall items p,
  In p (blank_positions items) <-> exists i, (i < length items)%nat /\ p = S i /\ is_blank (nth i items []) = true.
Proof. intros items p. unfold blank_positions. rewrite blank_positions_from_spec. reflexivity. Qed.

Lemma blank_positions_nil : forall items, blank_positions items = [] <-> Forall (fun it => is_blank it = false) items.
Proof.
  intros items. unfold blank_positions. generalize 1%nat.
  induction items as [|it r IH]; intro k; simpl.
  - split; [constructor | reflexivity].
  - destruct (is_blank it) eqn:B.
    + split; [discriminate | intro H; inversion H; congruence].
    + rewrite IH. split; [intro H; constructor; assumption | intro H; inversion H; assumption].
Qed.
