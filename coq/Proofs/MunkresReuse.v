(* Proofs/MunkresReuse.v -- a solve on a reused instance equals a solve on a fresh one, for every history *)
From Coq Require Import ZArith List Bool Arith.
From Verif.Model Require Import Munkres MunkresReuse.
Import ListNotations.

Lemma compute_on_result : forall old m, snd (compute_on old m) = computeZ m.
Proof.
  intros old m. unfold compute_on, computeZ, compute, compute_full, init, reinit. cbn [iC i_n i_olen i_owid i_rc i_cc i_z0 i_path i_marked].
  destruct (drive Z 0%Z Z.add Z.sub Z.ltb Z.eqb zmaxsize _ _ _ 1 []) as [[s tr]|]; reflexivity.
Qed.

Lemma reuse_independent : forall old m, snd (compute_on old m) = snd (compute_on fresh_inst m).
Proof. intros. rewrite !compute_on_result. reflexivity. Qed.

Lemma solve_all_fresh : forall ms i, solve_all i ms = map computeZ ms.
Proof.
  induction ms as [|m ms IH]; intro i; simpl; [reflexivity|].
  pose proof (compute_on_result i m) as H. destruct (compute_on i m) as [i' r]. simpl in H. subst r.
  rewrite IH. reflexivity.
Qed.
