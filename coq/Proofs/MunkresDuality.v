(* Proofs/MunkresDuality.v -- weak duality: potentials + a zero-cost perfect matching certify optimality.
   Pure list/Z facts, independent of the solver model. *)
From Coq Require Import ZArith List Bool Arith Lia Permutation.
Import ListNotations.
Open Scope Z_scope.

Definition lsum (l : list Z) : Z := fold_right Z.add 0 l.

Lemma lsum_app : forall a b, lsum (a ++ b) = lsum a + lsum b.
Proof. induction a as [|x a IH]; intro b; simpl; [reflexivity | rewrite IH; lia]. Qed.

Lemma lsum_perm : forall a b, Permutation a b -> lsum a = lsum b.
Proof. induction 1; simpl; lia. Qed.

Lemma lsum_map_add : forall {A} (f g : A -> Z) l, lsum (map (fun x => f x + g x) l) = lsum (map f l) + lsum (map g l).
Proof. induction l as [|x l IH]; simpl; lia. Qed.

Lemma lsum_map_le : forall {A} (f g : A -> Z) l, (forall x, In x l -> f x <= g x) -> lsum (map f l) <= lsum (map g l).
Proof.
  induction l as [|x l IH]; intro H; simpl; [lia|].
  pose proof (H x (or_introl eq_refl)). assert (lsum (map f l) <= lsum (map g l)) by (apply IH; intros; apply H; right; assumption). lia.
Qed.

Lemma lsum_map_ext : forall {A} (f g : A -> Z) l, (forall x, In x l -> f x = g x) -> lsum (map f l) = lsum (map g l).
Proof.
  induction l as [|x l IH]; intro H; simpl; [reflexivity|].
  rewrite (H x (or_introl eq_refl)). rewrite IH; [reflexivity | intros; apply H; right; assumption].
Qed.

Lemma map_nth_seq : forall {A} (l : list A) d, map (fun i => nth i l d) (seq 0 (length l)) = l.
Proof.
  induction l as [|x l IH]; intro d; simpl; [reflexivity|].
  f_equal. rewrite <- seq_shift, map_map. apply IH.
Qed.

(* sum over rows i < n of f i (sigma i), sigma given as the list of chosen columns *)
Definition asg_sum (f : nat -> nat -> Z) (sigma : list nat) : Z :=
  lsum (map (fun i => f i (nth i sigma 0%nat)) (seq 0 (length sigma))).

Lemma sum_cols_perm : forall (v : nat -> Z) sigma n, Permutation sigma (seq 0 n) ->
  lsum (map (fun i => v (nth i sigma 0%nat)) (seq 0 (length sigma))) = lsum (map v (seq 0 n)).
Proof.
  intros v sigma n P.
  replace (map (fun i => v (nth i sigma 0%nat)) (seq 0 (length sigma))) with (map v sigma).
  - apply lsum_perm. apply Permutation_map. exact P.
  - rewrite <- (map_nth_seq sigma 0%nat) at 1. rewrite map_map. reflexivity.
Qed.

Lemma perm_seq_bound : forall sigma n i, Permutation sigma (seq 0 n) -> (i < length sigma)%nat -> (nth i sigma 0 < n)%nat.
Proof.
  intros sigma n i P Hi.
  assert (In (nth i sigma 0%nat) (seq 0 n)) by (eapply Permutation_in; [exact P | apply nth_In; exact Hi]).
  apply in_seq in H. lia.
Qed.

(* Weak duality.  M = C + u + v on the n x n square, C >= 0 there, star is a perfect matching on zeros of C:
   then star is a minimum-cost perfect matching of M. *)
Theorem weak_duality : forall (n : nat) (M C : nat -> nat -> Z) (u v : nat -> Z) (star tau : list nat),
  (forall i j, (i < n)%nat -> (j < n)%nat -> M i j = C i j + u i + v j) ->
  (forall i j, (i < n)%nat -> (j < n)%nat -> 0 <= C i j) ->
  Permutation star (seq 0 n) -> Permutation tau (seq 0 n) ->
  (forall i, (i < n)%nat -> C i (nth i star 0%nat) = 0) ->
  asg_sum M star <= asg_sum M tau.
Proof.
  intros n M C u v star tau HM HC Ps Pt Hz.
  assert (Ls : length star = n) by (rewrite (Permutation_length Ps); apply seq_length).
  assert (Lt : length tau = n) by (rewrite (Permutation_length Pt); apply seq_length).
  assert (decomp : forall sg, Permutation sg (seq 0 n) ->
            asg_sum M sg = asg_sum C sg + lsum (map u (seq 0 n)) + lsum (map v (seq 0 n))).
  { intros sg P. assert (L : length sg = n) by (rewrite (Permutation_length P); apply seq_length).
    unfold asg_sum. rewrite <- (sum_cols_perm v sg n P). rewrite L.
    rewrite <- !lsum_map_add. apply lsum_map_ext. intros i Hi. apply in_seq in Hi.
    rewrite HM; [lia | lia | apply perm_seq_bound; [exact P | lia]]. }
  rewrite (decomp star Ps), (decomp tau Pt).
  assert (Z0 : asg_sum C star = 0).
  { unfold asg_sum. rewrite Ls. rewrite (lsum_map_ext _ (fun _ => 0)).
    - clear. induction (seq 0 n); simpl; lia.
    - intros i Hi. apply in_seq in Hi. apply Hz. lia. }
  assert (P0 : 0 <= asg_sum C tau).
  { unfold asg_sum. rewrite Lt. replace 0 with (lsum (map (fun _ : nat => 0) (seq 0 n))) at 1
      by (clear; induction (seq 0 n); simpl; lia).
    apply lsum_map_le. intros i Hi. apply in_seq in Hi. apply HC; [lia | apply perm_seq_bound; [exact Pt | lia]]. }
  lia.
Qed.
