(* Proofs/ProtocolEffects.v -- finite checks over the regenerated write-site inventory (C11 frame conditions) *)
From Coq Require Import List Bool String.
From Verif.Lib Require Import ProtocolSyntax.
From Verif.Gen Require Protocol.
From Verif.Model Require Import ProtocolEffects.
Import ListNotations.

Notation rows := Verif.Gen.Protocol.gen_rows.

(* every write site of mitxgraders/ is own instance state or has been reviewed, with a reason that fits the site *)
Lemma all_accounted : forallb accounted rows = true.
Proof. vm_compute. reflexivity. Qed.

Lemma all_accounted_In : forall r, In r rows -> accounted r = true.
Proof. intros r H. exact (proj1 (forallb_forall accounted rows) all_accounted r H). Qed.

(* process-wide settings are written only by their designated writers *)
Lemma settings_writers : forallb setting_writer_ok rows = true.
Proof. vm_compute. reflexivity. Qed.

Lemma settings_writers_In : forall r, In r rows -> setting_writer_ok r = true.
Proof. intros r H. exact (proj1 (forallb_forall setting_writer_ok rows) settings_writers r H). Qed.

(* no class-level table is modified in place through an instance *)
Lemma no_shared_class_attr_write :
  forallb (fun r => match r_flag r with FShared => false | _ => true end) rows = true.
Proof. vm_compute. reflexivity. Qed.

(* no reviewed site is a defect: nothing writes into an author-supplied object *)
Lemma defects_none : defects rows = [].
Proof. vm_compute. reflexivity. Qed.

Lemma all_harmless : forallb harmless rows = true.
Proof. vm_compute. reflexivity. Qed.

Lemma all_harmless_In : forall r, In r rows -> harmless r = true.
Proof. intros r H. exact (proj1 (forallb_forall harmless rows) all_harmless r H). Qed.

(* the review table can tell: a row like the one IntervalGrader.__init__ had before ff4d9d4 is not accounted for *)
Lemma old_interval_row_rejected :
  accounted (mkRow "mitxgraders/formulagrader/intervalgrader.py" "IntervalGrader.__init__" RParam "config" "use_config"
                   "use_config['subgrader']" "assign" FPlain ShItem SNone 1) = false.
Proof. vm_compute. reflexivity. Qed.
