(* Proofs/CreditGen.v -- the C17 schedule statements on the regenerated definitions, via the bridge *)
From Coq Require Import ZArith QArith List Bool Lia.
From Verif.Lib Require Import QRound PyNum.
From Verif.Model Require Import Result Credit.
From Verif.Gen Require Credit.
From Verif.Bridge Require Import Credit.
From Verif.Proofs Require Import Credit.
Import ListNotations.
Open Scope Q_scope.

Lemma c17_linear_first_attempt_one : forall after steps minc,
  Gen.Credit.gen_linear_credit after steps minc 1 == 1.
Proof. intros. rewrite linear_bridge. apply linear_first. Qed.

Lemma c17_linear_in_unit_interval_and_above_minimum : forall (after steps : positive) minc (n : Z),
  0 <= minc <= 1 ->
  let c := Gen.Credit.gen_linear_credit (inject_Z (Zpos after)) (inject_Z (Zpos steps)) minc (inject_Z n) in
  0 <= c <= 1 /\ round4 minc <= c.
Proof.
  intros after steps minc n Hm. cbv zeta. rewrite linear_bridge.
  assert (Ha : 1 <= inject_Z (Zpos after)) by (rewrite <- (Zle_Qle 1); lia).
  assert (Hs : 1 <= inject_Z (Zpos steps)) by (rewrite <- (Zle_Qle 1); lia).
  split; [apply linear_unit | apply linear_floor]; assumption.
Qed.

Lemma c17_linear_nonincreasing : forall (after steps : positive) minc (n m : Z),
  0 <= minc <= 1 -> (1 <= n <= m)%Z ->
  Gen.Credit.gen_linear_credit (inject_Z (Zpos after)) (inject_Z (Zpos steps)) minc (inject_Z m)
  <= Gen.Credit.gen_linear_credit (inject_Z (Zpos after)) (inject_Z (Zpos steps)) minc (inject_Z n).
Proof.
  intros after steps minc n m Hm [H1 H2]. rewrite !linear_bridge.
  apply linear_nonincreasing; try assumption; try (rewrite <- (Zle_Qle 1); lia).
  rewrite <- Zle_Qle. exact H2.
Qed.

Lemma c17_geometric_first_attempt_one : forall f, Gen.Credit.gen_geometric_credit f 1 == 1.
Proof. intros. rewrite geometric_bridge. apply geometric_first. Qed.

Lemma c17_geometric_in_unit_interval : forall f (n : Z), 0 <= f <= 1 -> (1 <= n)%Z ->
  0 <= Gen.Credit.gen_geometric_credit f (inject_Z n) <= 1.
Proof.
  intros f n Hf Hn. rewrite geometric_bridge. apply geometric_unit; [exact Hf|].
  rewrite <- (Zle_Qle 1). exact Hn.
Qed.

Lemma c17_geometric_nonincreasing : forall f (n m : Z), 0 <= f <= 1 -> (1 <= n <= m)%Z ->
  Gen.Credit.gen_geometric_credit f (inject_Z m) <= Gen.Credit.gen_geometric_credit f (inject_Z n).
Proof.
  intros f n m Hf [H1 H2]. rewrite !geometric_bridge. apply geometric_nonincreasing; [exact Hf | |].
  - rewrite <- (Zle_Qle 1). exact H1.
  - rewrite <- Zle_Qle. exact H2.
Qed.

Lemma c17_reciprocal_first_attempt_one : Gen.Credit.gen_reciprocal_credit 1 == 1.
Proof. rewrite reciprocal_bridge. apply reciprocal_first. Qed.

Lemma c17_reciprocal_in_unit_interval : forall n : Z, (1 <= n)%Z ->
  0 <= Gen.Credit.gen_reciprocal_credit (inject_Z n) <= 1.
Proof. intros n Hn. rewrite reciprocal_bridge. apply reciprocal_unit. rewrite <- (Zle_Qle 1). exact Hn. Qed.

Lemma c17_reciprocal_nonincreasing : forall n m : Z, (1 <= n <= m)%Z ->
  Gen.Credit.gen_reciprocal_credit (inject_Z m) <= Gen.Credit.gen_reciprocal_credit (inject_Z n).
Proof.
  intros n m [H1 H2]. rewrite !reciprocal_bridge. apply reciprocal_nonincreasing.
  - rewrite <- (Zle_Qle 1). exact H1.
  - rewrite <- Zle_Qle. exact H2.
Qed.

Lemma c17_scaled_grades : forall sched flag n es r,
  apply_credit sched flag (Some n) es = Some r ->
  length (c_entries r) = length es /\
  (~ c_credit r == 1 -> Forall2 (scaled_by (c_credit r)) es (c_entries r)) /\
  (c_credit r == 1 -> c_entries r = es).
Proof.
  intros sched flag n es r H. split; [eapply apply_credit_length; exact H | eapply apply_credit_entries; exact H].
Qed.

Lemma c17_ex_linear_default :
  map (fun n => Qred (Gen.Credit.gen_linear_credit 1 4 (1#5) (inject_Z n))) [1;2;3;4;5;6]%Z
  = [1; 4#5; 3#5; 2#5; 1#5; 1#5].
Proof. vm_compute. reflexivity. Qed.

Lemma c17_ex_pipeline :
  match apply_credit (Gen.Credit.gen_geometric_credit (1#2)) true (Some 3%Z)
          [mkEntry OkTrue 1 []; mkEntry OkFalse 0 []; mkEntry OkPartial (1#2) []] with
  | Some r => c_note r = true /\ map (fun e => Qred (e_grade e)) (c_entries r) = [1#4; 0; 1#8]
              /\ map e_ok (c_entries r) = [OkPartial; OkFalse; OkPartial] /\ c_pct10 r = 250%Z
  | None => False
  end.
Proof. vm_compute. repeat split. Qed.

Lemma c17_ex_raw_geometric_at_zero : Qred (Gen.Credit.gen_geometric_credit (1#2) 0) = 2.
Proof. vm_compute. reflexivity. Qed.
