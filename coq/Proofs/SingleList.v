(* Proofs/SingleList.v -- lemmas about the SingleListGrader model (C07).
   Everything here is about Model/SingleList.v with the subgrader `cr` and the solver `solve` as arbitrary
   functions; the solver enters the unordered theorems only through the hypothesis `solver_optimal solve`
   (Proofs/SingleListMatch.v), which `solveZ_optimal` derives from C06's integer statement. *)
From Coq Require Import ZArith QArith Qabs List Bool Arith Lia Lqa Permutation FinFun.
From Verif.Lib Require Import QRound.
From Verif.Model Require Import Result Munkres SingleList.
From Verif.Proofs Require Import Credit MunkresDuality MunkresSpec SingleListStr SingleListMatch.
Import ListNotations.
Open Scope Q_scope.

(* ---------- small facts about Q helpers ---------- *)
Lemma Qmax_comp : forall a b a' b', a == a' -> b == b' -> Qmax a b == Qmax a' b'.
Proof.
  intros a b a' b' Ha Hb. unfold Qmax.
  destruct (Qle_bool a b) eqn:E1; destruct (Qle_bool a' b') eqn:E2; qbool; lra.
Qed.

Lemma Qmax_0_nonneg : forall x, 0 <= Qmax 0 x.
Proof. intro x. unfold Qmax. destruct (Qle_bool 0 x) eqn:E; qbool; lra. Qed.

Lemma Qmax_0_le : forall x y, x <= y -> 0 <= y -> Qmax 0 x <= y.
Proof. intros x y H H0. unfold Qmax. destruct (Qle_bool 0 x) eqn:E; qbool; lra. Qed.

Lemma Qmax_0_mono : forall x y, x <= y -> Qmax 0 x <= Qmax 0 y.
Proof. intros x y H. unfold Qmax. destruct (Qle_bool 0 x) eqn:E1; destruct (Qle_bool 0 y) eqn:E2; qbool; lra. Qed.

Lemma Qltb_comp : forall a b a' b', a == a' -> b == b' -> Qltb a b = Qltb a' b'.
Proof.
  intros a b a' b' Ha Hb. destruct (Qltb a b) eqn:E1; destruct (Qltb a' b') eqn:E2; try reflexivity; qbool; exfalso; lra.
Qed.

Lemma inject_nat_pos : forall n, (1 <= n)%nat -> 0 < inject_Z (Z.of_nat n).
Proof. intros n H. rewrite <- (Zlt_Qlt 0). lia. Qed.

Lemma Qdiv_le_compat_pos : forall a b d, 0 < d -> a <= b -> a / d <= b / d.
Proof.
  intros a b d Hd H. unfold Qdiv. apply Qmult_le_compat_r; [exact H|].
  apply Qlt_le_weak. apply Qinv_lt_0_compat. exact Hd.
Qed.

Lemma Qdiv_comp_l : forall a b d, a == b -> a / d == b / d.
Proof. intros a b d H. rewrite H. reflexivity. Qed.

(* ---------- mapM ---------- *)
Lemma mapM_Forall2 : forall {X Y} (f : X -> res Y) l ys, mapM f l = inl ys -> Forall2 (fun x y => f x = inl y) l ys.
Proof.
  intros X Y f. induction l as [|x l IH]; intros ys H; simpl in H.
  - inversion H. constructor.
  - destruct (f x) as [y|e] eqn:Fx; [|discriminate].
    destruct (mapM f l) as [ys'|e] eqn:Fl; [|discriminate]. inversion H; subst.
    constructor; [exact Fx | apply IH; reflexivity].
Qed.

Lemma Forall2_len : forall {X Y} (R : X -> Y -> Prop) l l', Forall2 R l l' -> length l = length l'.
Proof. induction 1; simpl; congruence. Qed.

Lemma mapM_length : forall {X Y} (f : X -> res Y) l ys, mapM f l = inl ys -> length ys = length l.
Proof. intros X Y f l ys H. apply mapM_Forall2 in H. symmetry. eapply Forall2_len. exact H. Qed.

Lemma mapM_inr : forall {X Y} (f : X -> res Y) l e, mapM f l = inr e -> exists x, In x l /\ f x = inr e.
Proof.
  intros X Y f. induction l as [|x l IH]; intros e H; simpl in H; [discriminate|].
  destruct (f x) as [y|e'] eqn:Fx.
  - destruct (mapM f l) as [ys'|e''] eqn:Fl; [discriminate|]. inversion H; subst.
    destruct (IH e eq_refl) as (z & Hz & Fz). exists z. split; [right; exact Hz | exact Fz].
  - inversion H; subst. exists x. split; [left; reflexivity | exact Fx].
Qed.

Lemma mapM_total : forall {X Y} (f : X -> res Y) l, (forall x, In x l -> exists y, f x = inl y) -> exists ys, mapM f l = inl ys.
Proof.
  intros X Y f. induction l as [|x l IH]; intro H; simpl; [eexists; reflexivity|].
  destruct (H x (or_introl eq_refl)) as (y & Fy). rewrite Fy.
  destruct IH as (ys & Fl); [intros z Hz; apply H; right; exact Hz|]. rewrite Fl. eexists; reflexivity.
Qed.

Lemma mapM_ext : forall {X Y} (f f' : X -> res Y) l, (forall x, In x l -> f x = f' x) -> mapM f l = mapM f' l.
Proof.
  intros X Y f f'. induction l as [|x l IH]; intro H; simpl; [reflexivity|].
  rewrite (H x (or_introl eq_refl)). rewrite IH; [reflexivity | intros z Hz; apply H; right; exact Hz].
Qed.

Lemma Forall2_nth : forall {X Y} (R : X -> Y -> Prop) l l' dx dy k, Forall2 R l l' -> (k < length l)%nat -> R (nth k l dx) (nth k l' dy).
Proof.
  intros X Y R l l' dx dy k H. revert k. induction H as [|x y l l' Hxy H IH]; intros k Hk; simpl in *; [lia|].
  destruct k as [|k]; [exact Hxy | apply IH; lia].
Qed.

Lemma Forall2_in_r : forall {X Y} (R : X -> Y -> Prop) l l', Forall2 R l l' -> forall y, In y l' -> exists x, In x l /\ R x y.
Proof.
  intros X Y R l l' H. induction H as [|x y l l' Hxy H IH]; intros z Hz; [destruct Hz|].
  destruct Hz as [<- | Hz]; [exists x; split; [left; reflexivity | exact Hxy]|].
  destruct (IH z Hz) as (x' & Hx' & Rx'). exists x'. split; [right; exact Hx' | exact Rx'].
Qed.

Lemma Forall2_in_l : forall {X Y} (R : X -> Y -> Prop) l l', Forall2 R l l' -> forall x, In x l -> exists y, In y l' /\ R x y.
Proof.
  intros X Y R l l' H. induction H as [|x y l l' Hxy H IH]; intros z Hz; [destruct Hz|].
  destruct Hz as [<- | Hz]; [exists y; split; [left; reflexivity | exact Hxy]|].
  destruct (IH z Hz) as (y' & Hy' & Ry'). exists y'. split; [right; exact Hy' | exact Ry'].
Qed.

(* ---------- pad ---------- *)
Lemma pad_nil : forall {T} n, pad n (@nil T) = repeat None n.
Proof. intros T n. unfold pad. simpl. rewrite Nat.sub_0_r. reflexivity. Qed.

Lemma pad_cons : forall {T} n (x : T) l, pad n (x :: l) = Some x :: pad (n - 1) l.
Proof. intros T n x l. unfold pad. simpl. replace (n - S (length l))%nat with (n - 1 - length l)%nat by lia. reflexivity. Qed.

Lemma pad_length : forall {T} n (l : list T), (length l <= n)%nat -> length (pad n l) = n.
Proof. intros T n l H. unfold pad. rewrite app_length, map_length, repeat_length. lia. Qed.

Lemma nth_repeat_None : forall {T} n k, nth k (repeat (@None T) n) None = None.
Proof. intros T n. induction n as [|n IH]; intro k; destruct k; simpl; auto. Qed.

Lemma nth_pad : forall {T} (l : list T) n k, nth k (pad n l) None = nth_error l k.
Proof.
  intros T. induction l as [|x l IH]; intros n k.
  - rewrite pad_nil, nth_repeat_None. destruct k; reflexivity.
  - rewrite pad_cons. destruct k as [|k]; simpl; [reflexivity | apply IH].
Qed.

Section Oracle.
  Variable A : Type.
  Variable cr : A -> str -> res sres.
  Variable solve : list (list Q) -> option (list (nat * nat)).

  Notation checker := (checker cr).

  (* the credit of item `it` against expected item `a` (0 where the subgrader raises: then no grade is returned at all) *)
  Definition g (a : A) (it : str) : Q := match cr a it with inl r => sr_grade r | inr _ => 0 end.

  (* rows = submitted items, columns = expected items; zero outside the lists (missing / surplus items) *)
  Definition credit_at (la : list A) (li : list str) (i j : nat) : Q :=
    match nth_error li i, nth_error la j with
    | Some it, Some a => g a it
    | _, _ => 0
    end.

  Definition pos_total (la : list A) (li : list str) : Q := qsum (map (fun p => g (fst p) (snd p)) (combine la li)).

  (* the credits of the expected items in la lie in [0,1] *)
  Definition unit_on (la : list A) : Prop := forall a it r, In a la -> cr a it = inl r -> 0 <= sr_grade r <= 1.

  Lemma g_unit : forall la, unit_on la -> forall a it, In a la -> 0 <= g a it <= 1.
  Proof. intros la U a it Ha. unfold g. destruct (cr a it) as [r|e] eqn:E; [apply (U a it r Ha E) | lra]. Qed.

  Lemma credit_at_unit : forall la, unit_on la -> forall li i j, 0 <= credit_at la li i j <= 1.
  Proof.
    intros la U li i j. unfold credit_at. destruct (nth_error li i); [|lra]. destruct (nth_error la j) eqn:E; [|lra].
    apply (g_unit la U). eapply nth_error_In. exact E.
  Qed.

  Lemma credit_at_vanishes : forall la li, vanishes_outside (credit_at la li) (length li) (length la).
  Proof.
    intros la li i j H. unfold credit_at.
    destruct (nth_error li i) eqn:Ei; [|reflexivity]. destruct (nth_error la j) eqn:Ej; [|reflexivity].
    exfalso. apply H. split; [apply nth_error_Some; congruence | apply nth_error_Some; congruence].
  Qed.

  (* what the padded check returns on a pair of padded positions *)
  Lemma checker_grade : forall oa oi r, checker oa oi = inl r ->
    sr_grade r == match oi, oa with Some it, Some a => g a it | _, _ => 0 end.
  Proof.
    intros oa oi r H. unfold SingleList.checker in H. destruct oa as [a|]; destruct oi as [it|]; try (inversion H; subst; reflexivity).
    unfold g. rewrite H. reflexivity.
  Qed.

  (* ------------------------------------------------------------------------------------------
     ordered: the zip of the padded lists
     ------------------------------------------------------------------------------------------ *)
  Definition zipped (la : list A) (li : list str) (n : nat) := combine (pad n la) (pad n li).
  Definition chk (p : option A * option str) : res sres := checker (fst p) (snd p).

  Lemma zipped_cons_cons : forall a la it li n, zipped (a :: la) (it :: li) n = (Some a, Some it) :: zipped la li (n - 1).
  Proof. intros. unfold zipped. rewrite !pad_cons. reflexivity. Qed.

  Lemma repeat_S_cons : forall {T} (x : T) n, (1 <= n)%nat -> repeat x n = x :: repeat x (n - 1).
  Proof. intros T x n H. destruct n; [lia|]. simpl. rewrite Nat.sub_0_r. reflexivity. Qed.

  Lemma zipped_nil_cons : forall it li n, (1 <= n)%nat -> zipped [] (it :: li) n = (None, Some it) :: zipped [] li (n - 1).
  Proof. intros. unfold zipped. rewrite pad_cons, !pad_nil. rewrite (repeat_S_cons None n) by assumption. reflexivity. Qed.

  Lemma zipped_cons_nil : forall a la n, (1 <= n)%nat -> zipped (a :: la) [] n = (Some a, None) :: zipped la [] (n - 1).
  Proof. intros. unfold zipped. rewrite pad_cons, !pad_nil. rewrite (repeat_S_cons None n) by assumption. reflexivity. Qed.

  Lemma zipped_nil_nil : forall n, zipped [] [] n = repeat (None, None) n.
  Proof. intro n. unfold zipped. rewrite !pad_nil. induction n; simpl; [reflexivity | rewrite IHn; reflexivity]. Qed.

  (* P is any test that the automatic failure does not pass (credit > 0, or all_awarded of a nested grader) *)
  Definition passes (P : sres -> bool) (p : A * str) : Prop := exists r, cr (fst p) (snd p) = inl r /\ P r = true.

  Lemma ordered_results : forall P, P auto_fail = false ->
    forall la li n rs, n = Nat.max (length la) (length li) -> mapM chk (zipped la li n) = inl rs ->
      length rs = n /\ qsum (map sr_grade rs) == pos_total la li /\
      (forallb P rs = true <-> (length la = length li /\ Forall (passes P) (combine la li))).
  Proof.
    intros P HP. induction la as [|a la IH]; intros li n rs Hn H.
    - (* no expected item left *)
      revert n rs Hn H. induction li as [|it li IHli]; intros n rs Hn H.
      + simpl in Hn. subst n. simpl in H. inversion H; subst. simpl. split; [reflexivity | split; [reflexivity|]].
        split; intros _; [split; [reflexivity | constructor] | reflexivity].
      + simpl in Hn. rewrite zipped_nil_cons in H by lia. simpl in H.
        destruct (mapM chk (zipped [] li (n - 1))) as [rs'|e] eqn:E; [|discriminate]. inversion H; subst rs.
        destruct (IHli (n - 1)%nat rs') as (L & S & _); [simpl; lia | exact E|].
        split; [simpl; lia | split].
        * simpl. rewrite S. unfold pos_total. simpl. ring.
        * split; [|intros [K _]; discriminate].
          intro K. change (P auto_fail && forallb P rs' = true) in K. rewrite HP in K. discriminate.
    - destruct li as [|it li].
      + simpl in Hn. rewrite zipped_cons_nil in H by lia. simpl in H.
        destruct (mapM chk (zipped la [] (n - 1))) as [rs'|e] eqn:E; [|discriminate]. inversion H; subst rs.
        destruct (IH [] (n - 1)%nat rs') as (L & S & _); [simpl; lia | exact E|].
        split; [simpl; lia | split].
        * simpl. rewrite S. unfold pos_total. destruct la; simpl; ring.
        * split; [|intros [K _]; discriminate].
          intro K. change (P auto_fail && forallb P rs' = true) in K. rewrite HP in K. discriminate.
      + simpl in Hn. rewrite zipped_cons_cons in H. simpl in H. unfold chk at 1 in H. simpl in H.
        destruct (cr a it) as [r|e] eqn:Cr; [|discriminate].
        destruct (mapM chk (zipped la li (n - 1))) as [rs'|e] eqn:E; [|discriminate]. inversion H; subst rs.
        destruct (IH li (n - 1)%nat rs') as (L & S & Q); [lia | exact E|].
        split; [simpl; lia | split; [|split]].
        * simpl. rewrite S. unfold pos_total. simpl. unfold g at 2. simpl. rewrite Cr. ring.
        * intro K. simpl in K. apply andb_true_iff in K. destruct K as [K1 K2]. apply Q in K2. destruct K2 as [K2 K3].
          split; [simpl; lia|]. constructor; [exists r; split; assumption | exact K3].
        * intros [K1 K2]. simpl in K2. inversion K2 as [|? ? (r' & Cr' & Pr') K4]; subst. simpl in Cr'. rewrite Cr in Cr'. inversion Cr'; subst r'.
          simpl. rewrite Pr'. simpl. apply Q. split; [simpl in K1; lia | exact K4].
  Qed.

  (* ------------------------------------------------------------------------------------------
     unordered: the result matrix, its cost matrix, the solver's assignment
     ------------------------------------------------------------------------------------------ *)
  Lemma matrix_rows : forall pa ps mat, result_matrix cr pa ps = inl mat ->
    Forall2 (fun oi row => mapM (fun a => checker a oi) pa = inl row) ps mat.
  Proof. intros pa ps mat H. unfold result_matrix in H. apply mapM_Forall2 in H. exact H. Qed.

  Lemma matrix_shape : forall pa ps mat, result_matrix cr pa ps = inl mat ->
    length mat = length ps /\ Forall (fun row => length row = length pa) mat.
  Proof.
    intros pa ps mat H. pose proof (matrix_rows pa ps mat H) as F. split.
    - symmetry. eapply Forall2_len. exact F.
    - clear H. induction F as [|oi row ps' mat' Hrow F IH]; constructor; [|exact IH].
      eapply mapM_length. exact Hrow.
  Qed.

  Lemma matrix_entry : forall pa ps mat i j, result_matrix cr pa ps = inl mat ->
    (i < length ps)%nat -> (j < length pa)%nat ->
    checker (nth j pa None) (nth i ps None) = inl (pick mat (i, j)).
  Proof.
    intros pa ps mat i j H Hi Hj. pose proof (matrix_rows pa ps mat H) as F.
    pose proof (Forall2_nth _ ps mat None [] i F Hi) as Hrow. simpl in Hrow.
    apply mapM_Forall2 in Hrow.
    pose proof (Forall2_nth _ pa (nth i mat []) None auto_fail j Hrow Hj) as He. exact He.
  Qed.

  Section Padded.
    Variables (la : list A) (li : list str) (n : nat) (mat : list (list sres)).
    Hypothesis Hn : n = Nat.max (length la) (length li).
    Hypothesis Hmat : result_matrix cr (pad n la) (pad n li) = inl mat.

    Let Lpa : length (pad n la) = n. Proof. apply pad_length. lia. Qed.
    Let Lps : length (pad n li) = n. Proof. apply pad_length. lia. Qed.

    Lemma padded_entry : forall i j, (i < n)%nat -> (j < n)%nat ->
      checker (nth_error la j) (nth_error li i) = inl (pick mat (i, j)).
    Proof.
      intros i j Hi Hj. rewrite <- (nth_pad la n j), <- (nth_pad li n i).
      apply matrix_entry; [exact Hmat | rewrite Lps; exact Hi | rewrite Lpa; exact Hj].
    Qed.

    Lemma padded_grade : forall i j, (i < n)%nat -> (j < n)%nat -> sr_grade (pick mat (i, j)) == credit_at la li i j.
    Proof. intros i j Hi Hj. unfold credit_at. apply checker_grade. apply padded_entry; assumption. Qed.

    Lemma padded_shape : length mat = n /\ Forall (fun row => length row = n) mat.
    Proof. destruct (matrix_shape _ _ _ Hmat) as [L F]. rewrite Lps in L. rewrite Lpa in F. split; assumption. Qed.

    Lemma cost_entry : forall i j, (i < n)%nat -> (j < n)%nat -> qget (cost_matrix mat) i j == 1 - credit_at la li i j.
    Proof.
      intros i j Hi Hj. destruct padded_shape as [L F]. unfold qget, cost_matrix.
      change (@nil Q) with (map (fun r : sres => 1 - sr_grade r) []).
      rewrite (map_nth (map (fun r : sres => 1 - sr_grade r)) mat [] i).
      assert (Lr : length (nth i mat []) = n).
      { rewrite Forall_forall in F. apply F. apply nth_In. lia. }
      rewrite (nth_indep _ 0 ((fun r : sres => 1 - sr_grade r) auto_fail)) by (rewrite map_length; lia).
      rewrite (map_nth (fun r : sres => 1 - sr_grade r) (nth i mat []) auto_fail j).
      rewrite <- (padded_grade i j Hi Hj). unfold pick. simpl. reflexivity.
    Qed.

    Lemma cost_total : forall m, is_matching n n m ->
      qcost (cost_matrix mat) m == inject_Z (Z.of_nat (length m)) - total (credit_at la li) m.
    Proof.
      intros m (_ & _ & B). unfold qcost, total. rewrite <- qsum_map_const_minus.
      apply qsum_map_ext. intros p Hp. rewrite Forall_forall in B. destruct (B p Hp) as [B1 B2].
      apply cost_entry; assumption.
    Qed.

    Lemma picked_sum : forall m, is_matching n n m -> qsum (map sr_grade (map (pick mat) m)) == total (credit_at la li) m.
    Proof.
      intros m (_ & _ & B). unfold total. rewrite map_map. apply qsum_map_ext. intros p Hp.
      rewrite Forall_forall in B. destruct (B p Hp) as [B1 B2]. destruct p as [i j]. apply padded_grade; assumption.
    Qed.

    (* the pair at matrix position p is a real (item, answer) pair whose result passes P *)
    Definition passes_at (P : sres -> bool) (p : nat * nat) : Prop :=
      exists it a r, nth_error li (fst p) = Some it /\ nth_error la (snd p) = Some a /\ cr a it = inl r /\ P r = true.

    Lemma picked_passes : forall P, P auto_fail = false -> forall i j, (i < n)%nat -> (j < n)%nat ->
      (P (pick mat (i, j)) = true <-> passes_at P (i, j)).
    Proof.
      intros P HP i j Hi Hj. pose proof (padded_entry i j Hi Hj) as E. unfold passes_at. simpl.
      unfold SingleList.checker in E.
      destruct (nth_error la j) as [a|] eqn:Ea; destruct (nth_error li i) as [it|] eqn:Ei;
        try (inversion E as [E']; rewrite HP; split; [discriminate | intros (? & ? & ? & K1 & K2 & _); congruence]).
      split.
      - intro K. exists it, a, (pick mat (i, j)). auto.
      - intros (it' & a' & r & K1 & K2 & K3 & K4). inversion K1; inversion K2; subst. rewrite E in K3. inversion K3; subst. exact K4.
    Qed.
  End Padded.

  (* what find_optimal_order returns when the solver is optimal: the results along an assignment of maximum total credit *)
  Lemma unordered_results : solver_optimal solve ->
    forall la li n rs, unit_on la -> n = Nat.max (length la) (length li) -> (1 <= n)%nat ->
      optimal_order cr solve (pad n la) (pad n li) = inl rs ->
      exists res, is_matching n n res /\ length res = n /\ length rs = n /\
        qsum (map sr_grade rs) == total (credit_at la li) res /\
        max_total (credit_at la li) (length li) (length la) (total (credit_at la li) res) /\
        (forall P, P auto_fail = false -> (forallb P rs = true <-> Forall (passes_at la li P) res)).
  Proof.
    intros Hs la li n rs U Hn H1 H. unfold optimal_order in H.
    destruct (result_matrix cr (pad n la) (pad n li)) as [mat|e] eqn:Hmat; [|discriminate].
    destruct (solve (cost_matrix mat)) as [res|] eqn:Hsol; [|discriminate]. inversion H; subst rs. clear H.
    destruct (padded_shape la li n mat Hn Hmat) as [L F].
    assert (Lc : length (cost_matrix mat) = n) by (unfold cost_matrix; rewrite map_length; exact L).
    assert (Fc : Forall (fun row => length row = n) (cost_matrix mat)).
    { unfold cost_matrix. apply Forall_forall. intros row Hrow. apply in_map_iff in Hrow. destruct Hrow as (r0 & <- & H0).
      rewrite map_length. rewrite Forall_forall in F. apply F. exact H0. }
    destruct (Hs n (cost_matrix mat) res H1 Lc Fc Hsol) as (Mres & Lres & Opt).
    exists res. split; [exact Mres|]. split; [exact Lres|]. split; [rewrite map_length; exact Lres|].
    split; [apply (picked_sum la li n mat Hn Hmat); exact Mres|]. split.
    - apply (max_total_from_complete (credit_at la li) (length li) (length la) n res); try lia; try assumption.
      + apply credit_at_vanishes.
      + intros i j. apply (credit_at_unit la U).
      + intros m Mm Lm. pose proof (Opt m Mm Lm) as O.
        rewrite (cost_total la li n mat Hn Hmat res Mres), (cost_total la li n mat Hn Hmat m Mm) in O. rewrite Lres, Lm in O. lra.
    - intros P HP. rewrite forallb_forall. rewrite Forall_forall. destruct Mres as (_ & _ & B). rewrite Forall_forall in B. split.
      + intros K p Hp. destruct (B p Hp) as [B1 B2]. destruct p as [i j].
        apply (picked_passes la li n mat Hn Hmat P HP i j B1 B2). apply K. apply in_map. exact Hp.
      + intros K r Hr. apply in_map_iff in Hr. destruct Hr as (p & <- & Hp). destruct (B p Hp) as [B1 B2]. destruct p as [i j].
        apply (picked_passes la li n mat Hn Hmat P HP i j B1 B2). apply K. exact Hp.
  Qed.

  (* ------------------------------------------------------------------------------------------
     consolidation and the grade formula
     ------------------------------------------------------------------------------------------ *)
  Definition surplus (ne ns : nat) : Q := inject_Z (Z.of_nat (ns - ne)).

  Lemma consolidate_formula : forall gs ne ns, length gs = Nat.max ne ns ->
    consolidate_grades gs ne == Qmax 0 ((qsum gs - surplus ne ns) / inject_Z (Z.of_nat ne)).
  Proof.
    intros gs ne ns L. unfold consolidate_grades, surplus.
    destruct (Z.ltb_spec 0 (Z.of_nat (length gs) - Z.of_nat ne)) as [H|H].
    - apply Qmax_comp; [reflexivity|]. apply Qdiv_comp_l. rewrite qsum_app, qsum_repeat.
      replace (Z.to_nat (Z.of_nat (length gs) - Z.of_nat ne)) with (ns - ne)%nat by lia. ring.
    - destruct (Z.ltb_spec (Z.of_nat (length gs) - Z.of_nat ne) 0) as [H'|H']; [lia|].
      apply Qmax_comp; [reflexivity|]. apply Qdiv_comp_l.
      replace (ns - ne)%nat with 0%nat by lia. simpl. ring.
  Qed.

  (* max(0, x), then the partial_credit switch *)
  Definition score (partial : bool) (x : Q) : Q :=
    let y := Qmax 0 x in if negb partial && Qltb y 1 then 0 else y.

  Lemma score_comp : forall p x x', x == x' -> score p x == score p x'.
  Proof.
    intros p x x' E. unfold score. cbv zeta.
    assert (Em : Qmax 0 x == Qmax 0 x') by (apply Qmax_comp; [reflexivity | exact E]).
    rewrite (Qltb_comp (Qmax 0 x) 1 (Qmax 0 x') 1 Em (Qeq_refl 1)).
    destruct (negb p && Qltb (Qmax 0 x') 1); [reflexivity | exact Em].
  Qed.

  Lemma score_nonneg : forall p x, 0 <= score p x.
  Proof. intros p x. unfold score. cbv zeta. destruct (negb p && Qltb (Qmax 0 x) 1); [lra | apply Qmax_0_nonneg]. Qed.

  Lemma score_le_1 : forall p x, x <= 1 -> score p x <= 1.
  Proof. intros p x H. unfold score. cbv zeta. destruct (negb p && Qltb (Qmax 0 x) 1); [lra | apply Qmax_0_le; lra]. Qed.

  Lemma score_partial : forall x, score true x = Qmax 0 x.
  Proof. reflexivity. Qed.

  (* partial_credit = False: anything short of 1 scores zero *)
  Lemma score_no_partial : forall x, x <= 1 -> (x == 1 -> score false x == 1) /\ (~ x == 1 -> score false x == 0).
  Proof.
    intros x H. unfold score. cbv zeta. simpl negb. simpl andb. unfold Qmax.
    destruct (Qle_bool 0 x) eqn:E; destruct (Qltb _ 1) eqn:E2; qbool; split; intro K; lra.
  Qed.

  Lemma process_grade : forall c rs ne ns msg credit, length rs = Nat.max ne ns ->
    sr_grade (process c rs ne msg credit) ==
    credit * score (c_partial c) ((qsum (map sr_grade rs) - surplus ne ns) / inject_Z (Z.of_nat ne)).
  Proof.
    intros c rs ne ns msg credit L. unfold process, consolidate_single. simpl.
    assert (E : consolidate_grades (map sr_grade rs) ne == Qmax 0 ((qsum (map sr_grade rs) - surplus ne ns) / inject_Z (Z.of_nat ne)))
      by (apply consolidate_formula; rewrite map_length; exact L).
    unfold score. cbv zeta.
    rewrite (Qltb_comp _ 1 _ 1 E (Qeq_refl 1)).
    destruct (negb (c_partial c) && Qltb (Qmax 0 _) 1); [ring | rewrite E; ring].
  Qed.

  Lemma process_all : forall c rs ne msg credit, sr_all (process c rs ne msg credit) = all_awarded (c_nested c) rs.
  Proof. reflexivity. Qed.

  (* the answer-level message is appended exactly when all_awarded holds and there is a message *)
  Lemma process_msg : forall c rs ne msg credit,
    sr_msg (process c rs ne msg credit) =
    if all_awarded (c_nested c) rs && negb (is_empty msg) then add_msg (join_msgs (map sr_msg rs)) msg
    else join_msgs (map sr_msg rs).
  Proof. reflexivity. Qed.

  Lemma check_items_inl : forall c a li r, check_items cr solve c a li = inl r ->
    exists rs, grade_list cr solve c a li = inl rs /\ r = process c rs (length (al_items a)) (al_msg a) (al_credit a).
  Proof.
    intros c a li r H. unfold check_items in H.
    destruct (c_length_error c && negb (length (al_items a) =? length li)%nat); [discriminate|].
    destruct (c_missing_error c && negb match blank_positions li with [] => true | _ :: _ => false end); [discriminate|].
    destruct (grade_list cr solve c a li) as [rs|e]; [|discriminate]. inversion H. exists rs. split; reflexivity.
  Qed.

  (* "best total item credit under the applicable matching" *)
  Definition best_total (c : cfg) (la : list A) (li : list str) (best : Q) : Prop :=
    if c_ordered c then best == pos_total la li
    else max_total (credit_at la li) (length li) (length la) best.

  (* q = credit_a * max(0, (best - surplus) / n_expect), zeroed below 1 when partial_credit is off *)
  Definition formula (c : cfg) (a : alt A) (li : list str) (q : Q) : Prop :=
    exists best, best_total c (al_items a) li best /\
      q == al_credit a * score (c_partial c)
             ((best - surplus (length (al_items a)) (length li)) / inject_Z (Z.of_nat (length (al_items a)))).

  Lemma best_total_unique : forall c la li b1 b2, best_total c la li b1 -> best_total c la li b2 -> b1 == b2.
  Proof.
    intros c la li b1 b2. unfold best_total. destruct (c_ordered c).
    - intros H1 H2. rewrite H1, H2. reflexivity.
    - apply max_total_unique.
  Qed.

  Lemma formula_unique : forall c a li q1 q2, formula c a li q1 -> formula c a li q2 -> q1 == q2.
  Proof.
    intros c a li q1 q2 (b1 & B1 & E1) (b2 & B2 & E2). rewrite E1, E2.
    assert (E : b1 == b2) by (eapply best_total_unique; eassumption).
    rewrite (score_comp (c_partial c) _ ((b2 - surplus (length (al_items a)) (length li)) / inject_Z (Z.of_nat (length (al_items a))))).
    - reflexivity.
    - apply Qdiv_comp_l. rewrite E. reflexivity.
  Qed.

  (* the list of item results, in both modes: its length, its sum, and which tests it passes *)
  Definition used_pairs_pass (c : cfg) (la : list A) (li : list str) (P : sres -> bool) : Prop :=
    if c_ordered c then length la = length li /\ Forall (passes P) (combine la li)
    else exists res, is_matching (length li) (length la) res /\ length res = Nat.max (length la) (length li) /\
                     max_total (credit_at la li) (length li) (length la) (total (credit_at la li) res) /\
                     Forall (passes_at la li P) res.

  Lemma grade_list_facts : solver_optimal solve ->
    forall c a li rs, unit_on (al_items a) -> (1 <= Nat.max (length (al_items a)) (length li))%nat ->
      grade_list cr solve c a li = inl rs ->
      length rs = Nat.max (length (al_items a)) (length li) /\
      (exists best, best_total c (al_items a) li best /\ qsum (map sr_grade rs) == best) /\
      (forall P, P auto_fail = false -> forallb P rs = true -> used_pairs_pass c (al_items a) li P).
  Proof.
    intros Hs c a li rs U Hn H. unfold grade_list in H. unfold best_total, used_pairs_pass.
    destruct (c_ordered c).
    - split; [|split].
      + destruct (ordered_results (fun _ => false) eq_refl (al_items a) li _ rs eq_refl H) as (L & _). exact L.
      + destruct (ordered_results (fun _ => false) eq_refl (al_items a) li _ rs eq_refl H) as (_ & S & _).
        exists (pos_total (al_items a) li). split; [reflexivity | exact S].
      + intros P HP K. destruct (ordered_results P HP (al_items a) li _ rs eq_refl H) as (_ & _ & Q). apply Q. exact K.
    - destruct (unordered_results Hs (al_items a) li _ rs U eq_refl Hn H) as (res & Mres & Lres & Lrs & S & Mx & Q).
      split; [exact Lrs | split].
      + eexists. split; [exact Mx | exact S].
      + intros P HP K. exists res. apply (Q P HP) in K.
        assert (Mreal : is_matching (length li) (length (al_items a)) res).
        { destruct Mres as (N1 & N2 & _). repeat split; [exact N1 | exact N2|].
          eapply Forall_impl; [|exact K]. intros p (it & a0 & r & E1 & E2 & _). split; apply nth_error_Some; congruence. }
        split; [exact Mreal | split; [exact Lres | split; [exact Mx | exact K]]].
  Qed.

  (* C07, first sentence: the grade of one list of expected items *)
  Theorem slg_grade_formula : solver_optimal solve ->
    forall c a li r, unit_on (al_items a) -> al_items a <> [] ->
      check_items cr solve c a li = inl r -> formula c a li (sr_grade r).
  Proof.
    intros Hs c a li r U Hne H. apply check_items_inl in H. destruct H as (rs & Hg & ->).
    assert (Hn : (1 <= Nat.max (length (al_items a)) (length li))%nat).
    { destruct (al_items a) as [|x l]; [congruence | simpl length; lia]. }
    destruct (grade_list_facts Hs c a li rs U Hn Hg) as (L & (best & B & S) & _).
    exists best. split; [exact B|].
    rewrite (process_grade c rs (length (al_items a)) (length li) _ _ L).
    rewrite (score_comp (c_partial c) _ ((best - surplus (length (al_items a)) (length li)) / inject_Z (Z.of_nat (length (al_items a))))).
    - reflexivity.
    - apply Qdiv_comp_l. rewrite S. reflexivity.
  Qed.

  (* ------------------------------------------------------------------------------------------
     bounds, partial_credit = False, the unit interval
     ------------------------------------------------------------------------------------------ *)
  Lemma nat_Q_le : forall a b, (a <= b)%nat -> inject_Z (Z.of_nat a) <= inject_Z (Z.of_nat b).
  Proof. intros a b H. rewrite <- Zle_Qle. lia. Qed.

  Lemma nat_Q_le_inv : forall a b, inject_Z (Z.of_nat a) <= inject_Z (Z.of_nat b) -> (a <= b)%nat.
  Proof. intros a b H. rewrite <- Zle_Qle in H. lia. Qed.

  Lemma best_total_bounds : forall c la li best, unit_on la -> best_total c la li best ->
    0 <= best <= inject_Z (Z.of_nat (Nat.min (length la) (length li))).
  Proof.
    intros c la li best U H. unfold best_total in H. destruct (c_ordered c).
    - rewrite H. unfold pos_total.
      assert (F : forall p, In p (combine la li) -> 0 <= g (fst p) (snd p) <= 1).
      { intros p Hp. apply (g_unit la U). destruct p as [a it]. eapply in_combine_l. exact Hp. }
      split.
      + apply qsum_map_nonneg. intros p Hp. apply F. exact Hp.
      + rewrite <- combine_length, <- (map_length (fun p => g (fst p) (snd p))). apply qsum_upper.
        apply Forall_forall. intros q Hq. apply in_map_iff in Hq. destruct Hq as (p & <- & Hp). apply F. exact Hp.
    - destruct H as [(m & Mm & Em) _]. rewrite <- Em. split.
      + apply total_nonneg. intros i j. apply (credit_at_unit la U).
      + destruct (matching_length _ _ m Mm) as [L1 L2].
        apply Qle_trans with (inject_Z (Z.of_nat (length m))); [|apply nat_Q_le; lia].
        unfold total. rewrite <- (map_length (fun p => credit_at la li (fst p) (snd p)) m). apply qsum_upper.
        apply Forall_forall. intros q Hq. apply in_map_iff in Hq. destruct Hq as (p & <- & Hp). apply (credit_at_unit la U).
  Qed.

  Lemma div_eq_1 : forall a d, 0 < d -> (a / d == 1 <-> a == d).
  Proof.
    intros a d Hd. split; intro H.
    - assert (E : a == (a / d) * d) by (field; lra). rewrite E, H. ring.
    - rewrite H. field. lra.
  Qed.

  Lemma ratio_le_1 : forall ne ns best, (1 <= ne)%nat -> 0 <= best <= inject_Z (Z.of_nat (Nat.min ne ns)) ->
    (best - surplus ne ns) / inject_Z (Z.of_nat ne) <= 1.
  Proof.
    intros ne ns best Hne [B0 B1]. pose proof (inject_nat_pos ne Hne) as P.
    assert (S0 : 0 <= surplus ne ns) by (unfold surplus; apply (nat_Q_le 0); lia).
    pose proof (nat_Q_le (Nat.min ne ns) ne (Nat.le_min_l _ _)) as M.
    setoid_replace 1 with (inject_Z (Z.of_nat ne) / inject_Z (Z.of_nat ne)) by (field; lra).
    apply Qdiv_le_compat_pos; [exact P | lra].
  Qed.

  (* (best - surplus)/n_expect = 1  iff  the counts agree and every expected item is matched at full credit *)
  Lemma ratio_eq_1 : forall ne ns best, (1 <= ne)%nat -> 0 <= best <= inject_Z (Z.of_nat (Nat.min ne ns)) ->
    ((best - surplus ne ns) / inject_Z (Z.of_nat ne) == 1 <-> (ns = ne /\ best == inject_Z (Z.of_nat ne))).
  Proof.
    intros ne ns best Hne [B0 B1]. pose proof (inject_nat_pos ne Hne) as P. rewrite (div_eq_1 _ _ P). unfold surplus.
    destruct (Nat.le_gt_cases ns ne) as [L|G].
    - replace (ns - ne)%nat with 0%nat by lia. rewrite Nat.min_r in B1 by exact L. change (inject_Z (Z.of_nat 0)) with 0. split.
      + intro E. assert (E' : best == inject_Z (Z.of_nat ne)) by lra. split; [|exact E'].
        rewrite E' in B1. apply nat_Q_le_inv in B1. lia.
      + intros [_ E]. lra.
    - rewrite Nat.min_l in B1 by lia.
      assert (S1 : 1 <= inject_Z (Z.of_nat (ns - ne))) by (apply (nat_Q_le 1); lia).
      split; [intro E; exfalso; lra | intros [E _]; lia].
  Qed.

  (* C07: with partial_credit = False anything short of full item credit scores zero *)
  Theorem slg_no_partial : solver_optimal solve ->
    forall c a li r, unit_on (al_items a) -> al_items a <> [] -> c_partial c = false ->
      check_items cr solve c a li = inl r ->
      exists best, best_total c (al_items a) li best /\
        ((length li = length (al_items a) /\ best == inject_Z (Z.of_nat (length (al_items a))) /\ sr_grade r == al_credit a)
         \/ (~ (length li = length (al_items a) /\ best == inject_Z (Z.of_nat (length (al_items a)))) /\ sr_grade r == 0)).
  Proof.
    intros Hs c a li r U Hne Hp H. destruct (slg_grade_formula Hs c a li r U Hne H) as (best & B & E).
    exists best. split; [exact B|]. rewrite Hp in E.
    assert (L1 : (1 <= length (al_items a))%nat) by (destruct (al_items a); [congruence | simpl; lia]).
    pose proof (best_total_bounds c _ li best U B) as Bd.
    pose proof (ratio_le_1 _ (length li) best L1 Bd) as R1.
    pose proof (ratio_eq_1 _ (length li) best L1 Bd) as R2.
    destruct (score_no_partial _ R1) as [S1 S0].
    destruct (Qeq_dec ((best - surplus (length (al_items a)) (length li)) / inject_Z (Z.of_nat (length (al_items a)))) 1) as [Q1|Q1].
    - left. apply R2 in Q1 as [K1 K2]. split; [exact K1 | split; [exact K2|]]. rewrite E, (S1 (proj2 R2 (conj K1 K2))). ring.
    - right. split; [intro K; apply Q1; apply R2; exact K|]. rewrite E, (S0 Q1). ring.
  Qed.

  Theorem slg_grade_in_unit_interval : solver_optimal solve ->
    forall c a li r, unit_on (al_items a) -> al_items a <> [] -> 0 <= al_credit a <= 1 ->
      check_items cr solve c a li = inl r -> 0 <= sr_grade r <= 1.
  Proof.
    intros Hs c a li r U Hne Hc H. destruct (slg_grade_formula Hs c a li r U Hne H) as (best & B & E).
    assert (L1 : (1 <= length (al_items a))%nat) by (destruct (al_items a); [congruence | simpl; lia]).
    pose proof (ratio_le_1 _ (length li) best L1 (best_total_bounds c _ li best U B)) as R1.
    pose proof (score_nonneg (c_partial c) ((best - surplus (length (al_items a)) (length li)) / inject_Z (Z.of_nat (length (al_items a))))) as S0.
    pose proof (score_le_1 (c_partial c) _ R1) as S1.
    rewrite E. split; nra.
  Qed.

  (* the grade is never negative, whatever the credits *)
  Lemma check_items_nonneg : forall c a li r, 0 <= al_credit a -> check_items cr solve c a li = inl r -> 0 <= sr_grade r.
  Proof.
    intros c a li r Hc H. apply check_items_inl in H. destruct H as (rs & _ & ->). unfold process, consolidate_single. simpl.
    apply Qmult_le_0_compat; [|exact Hc].
    destruct (negb (c_partial c) && Qltb _ 1); [lra | unfold consolidate_grades; apply Qmax_0_nonneg].
  Qed.

  (* ------------------------------------------------------------------------------------------
     the answer-level message
     ------------------------------------------------------------------------------------------ *)
  Definition earned_test (c : cfg) : sres -> bool := if c_nested c then sr_all else fun r => Qltb 0 (sr_grade r).

  Lemma earned_test_auto_fail : forall c, earned_test c auto_fail = false.
  Proof. intro c. unfold earned_test. destruct (c_nested c); reflexivity. Qed.

  Lemma all_awarded_test : forall c rs, all_awarded (c_nested c) rs = forallb (earned_test c) rs.
  Proof. intros c rs. unfold all_awarded, earned_test. destruct (c_nested c); reflexivity. Qed.

  Lemma used_pairs_counts : forall c la li P, used_pairs_pass c la li P -> length li = length la.
  Proof.
    intros c la li P H. unfold used_pairs_pass in H. destruct (c_ordered c).
    - destruct H as [H _]. congruence.
    - destruct H as (res & M & L & _). destruct (matching_length _ _ res M) as [L1 L2]. lia.
  Qed.

  (* C07: the answer-level message is shown only when every submitted and expected item earned credit
     (for a nested grader: only when every inner list reported all_awarded) *)
  Theorem slg_msg_rule : solver_optimal solve ->
    forall c a li r, unit_on (al_items a) -> al_items a <> [] -> check_items cr solve c a li = inl r ->
      exists rs, grade_list cr solve c a li = inl rs /\
        sr_msg r = (if sr_all r && negb (is_empty (al_msg a)) then add_msg (join_msgs (map sr_msg rs)) (al_msg a)
                    else join_msgs (map sr_msg rs)) /\
        sr_all r = forallb (earned_test c) rs /\
        (sr_all r = true -> length li = length (al_items a) /\ used_pairs_pass c (al_items a) li (earned_test c)).
  Proof.
    intros Hs c a li r U Hne H. apply check_items_inl in H. destruct H as (rs & Hg & ->).
    exists rs. split; [exact Hg|]. rewrite process_msg, process_all, all_awarded_test.
    split; [reflexivity | split; [reflexivity|]]. intro K.
    assert (Hn : (1 <= Nat.max (length (al_items a)) (length li))%nat) by (destruct (al_items a); [congruence | simpl length; lia]).
    destruct (grade_list_facts Hs c a li rs U Hn Hg) as (_ & _ & Q).
    pose proof (Q (earned_test c) (earned_test_auto_fail c) K) as UP. split; [|exact UP].
    eapply used_pairs_counts. exact UP.
  Qed.

  (* ordered lists: the condition is also sufficient (positional pairs) *)
  Theorem slg_msg_rule_ordered : forall c a li r, c_ordered c = true -> check_items cr solve c a li = inl r ->
    (sr_all r = true <-> (length (al_items a) = length li /\ Forall (passes (earned_test c)) (combine (al_items a) li))).
  Proof.
    intros c a li r Ho H. apply check_items_inl in H. destruct H as (rs & Hg & ->).
    rewrite process_all, all_awarded_test. unfold grade_list in Hg. rewrite Ho in Hg.
    destruct (ordered_results (earned_test c) (earned_test_auto_fail c) (al_items a) li _ rs eq_refl Hg) as (_ & _ & Q). exact Q.
  Qed.

  (* ------------------------------------------------------------------------------------------
     the two student-facing errors
     ------------------------------------------------------------------------------------------ *)
  Theorem slg_length_error : forall c (a : alt A) (li : list str), c_length_error c = true -> length (al_items a) <> length li ->
    check_items cr solve c a li = inr (ErrLength (length (al_items a)) (length li)).
  Proof.
    intros c a li H1 H2. unfold check_items. rewrite H1. apply Nat.eqb_neq in H2. rewrite H2. reflexivity.
  Qed.

  Lemma no_length_error : forall c (a : alt A) (li : list str), (c_length_error c = false \/ length (al_items a) = length li) ->
    c_length_error c && negb (length (al_items a) =? length li)%nat = false.
  Proof. intros c a li [H|H]; [rewrite H; reflexivity | apply Nat.eqb_eq in H; rewrite H; apply andb_false_r]. Qed.

  Theorem slg_missing_error : forall c (a : alt A) (li : list str), (c_length_error c = false \/ length (al_items a) = length li) ->
    c_missing_error c = true -> (exists it, In it li /\ is_blank it = true) ->
    check_items cr solve c a li = inr (ErrMissing (blank_positions li)) /\ blank_positions li <> [].
  Proof.
    intros c a li HL HM (it & Hin & Hb). unfold check_items. rewrite (no_length_error c a li HL), HM.
    assert (NE : blank_positions li <> []).
    { intro E. apply blank_positions_nil in E. rewrite Forall_forall in E. specialize (E it Hin). congruence. }
    destruct (blank_positions li); [congruence|]. split; [reflexivity | discriminate].
  Qed.

  Theorem slg_graded_otherwise : forall c (a : alt A) (li : list str), (c_length_error c = false \/ length (al_items a) = length li) ->
    (c_missing_error c = false \/ Forall (fun it => is_blank it = false) li) ->
    check_items cr solve c a li =
    match grade_list cr solve c a li with
    | inl rs => inl (process c rs (length (al_items a)) (al_msg a) (al_credit a))
    | inr e => inr e
    end.
  Proof.
    intros c a li HL HM. unfold check_items. rewrite (no_length_error c a li HL).
    destruct HM as [HM|HM]; [rewrite HM; reflexivity|].
    apply blank_positions_nil in HM. rewrite HM. rewrite andb_false_r. reflexivity.
  Qed.

  (* when the subgrader answers every pair, the only way not to get a grade is one of the two errors (or the solver) *)
  Lemma chk_total : (forall a it, exists r, cr a it = inl r) -> forall p, exists r, chk p = inl r.
  Proof.
    intros T [oa oi]. unfold chk, SingleList.checker. simpl. destruct oa as [a|]; destruct oi as [it|]; try (eexists; reflexivity). apply T.
  Qed.

  Theorem slg_graded_or_solver : (forall a it, exists r, cr a it = inl r) ->
    forall c (a : alt A) (li : list str), (c_length_error c = false \/ length (al_items a) = length li) ->
      (c_missing_error c = false \/ Forall (fun it => is_blank it = false) li) ->
      (exists r, check_items cr solve c a li = inl r) \/ (c_ordered c = false /\ check_items cr solve c a li = inr ErrSolver).
  Proof.
    intros T c a li HL HM. rewrite (slg_graded_otherwise c a li HL HM). unfold grade_list.
    destruct (c_ordered c).
    - left. destruct (mapM_total chk (zipped (al_items a) li (Nat.max (length (al_items a)) (length li)))) as (rs & E);
        [intros p _; apply chk_total; exact T|].
      unfold zipped, chk in E. rewrite E. eexists; reflexivity.
    - unfold optimal_order, result_matrix.
      destruct (mapM_total (fun i => mapM (fun a0 => checker a0 i) (pad (Nat.max (length (al_items a)) (length li)) (al_items a)))
                  (pad (Nat.max (length (al_items a)) (length li)) li)) as (mat & E).
      { intros oi _. apply mapM_total. intros oa _. apply (chk_total T (oa, oi)). }
      rewrite E. destruct (solve (cost_matrix mat)); [left; eexists; reflexivity | right; split; reflexivity].
  Qed.

  (* ------------------------------------------------------------------------------------------
     unordered lists: invariance under permuting the submitted items
     ------------------------------------------------------------------------------------------ *)
  Lemma credit_at_reindex : forall la li li' (f : nat -> nat), (forall n, nth_error li' n = nth_error li (f n)) ->
    forall i j, credit_at la li' i j == credit_at la li (f i) j.
  Proof. intros la li li' f H i j. unfold credit_at. rewrite H. reflexivity. Qed.

  Lemma reindex_bound : forall (li li' : list str) (f : nat -> nat), length li = length li' ->
    (forall n, nth_error li' n = nth_error li (f n)) -> forall i, (i < length li)%nat -> (f i < length li)%nat.
  Proof.
    intros li li' f E H i Hi. apply nth_error_Some. rewrite <- H. apply nth_error_Some. lia.
  Qed.

  Lemma max_total_perm : forall la li li' best, Permutation li li' ->
    max_total (credit_at la li) (length li) (length la) best -> max_total (credit_at la li') (length li') (length la) best.
  Proof.
    intros la li li' best HP H.
    destruct (proj1 (Permutation_nth_error li li') HP) as (E & f & If & Hf).
    destruct (proj1 (Permutation_nth_error li' li) (Permutation_sym HP)) as (_ & f' & If' & Hf').
    rewrite <- E.
    apply (max_total_reindex (credit_at la li) (credit_at la li') (length li) (length la) f f' best); try assumption.
    - apply (reindex_bound li li' f E Hf).
    - intros i j _. apply credit_at_reindex. exact Hf.
    - intros i Hi. rewrite E. apply (reindex_bound li' li f' (eq_sym E) Hf'). lia.
    - intros i j _. apply credit_at_reindex. exact Hf'.
  Qed.

  Lemma formula_perm : forall c a li li' q, c_ordered c = false -> Permutation li li' -> formula c a li q -> formula c a li' q.
  Proof.
    intros c a li li' q Ho HP (best & B & E). exists best. rewrite <- (Permutation_length HP). split; [|exact E].
    unfold best_total in *. rewrite Ho in *. apply max_total_perm with li; assumption.
  Qed.

  (* C07: for unordered lists the grade is invariant under permuting the submitted items *)
  Theorem slg_perm_invariant : solver_optimal solve ->
    forall c a li li' r r', unit_on (al_items a) -> al_items a <> [] -> c_ordered c = false -> Permutation li li' ->
      check_items cr solve c a li = inl r -> check_items cr solve c a li' = inl r' -> sr_grade r == sr_grade r'.
  Proof.
    intros Hs c a li li' r r' U Hne Ho HP H H'.
    pose proof (slg_grade_formula Hs c a li r U Hne H) as F.
    pose proof (slg_grade_formula Hs c a li' r' U Hne H') as F'.
    apply (formula_unique c a li'); [apply formula_perm with li; assumption | exact F'].
  Qed.

  (* ... and so is the decision to raise one of the two input errors *)
  Definition input_error (c : cfg) (a : alt A) (li : list str) : Prop :=
    (c_length_error c = true /\ length (al_items a) <> length li) \/
    (c_missing_error c = true /\ exists it, In it li /\ is_blank it = true).

  Lemma input_error_perm : forall c a li li', Permutation li li' -> input_error c a li -> input_error c a li'.
  Proof.
    intros c a li li' HP [[H1 H2] | [H1 (it & Hin & Hb)]].
    - left. split; [exact H1 | rewrite <- (Permutation_length HP); exact H2].
    - right. split; [exact H1|]. exists it. split; [eapply Permutation_in; eassumption | exact Hb].
  Qed.

  Lemma input_error_raises : forall c a li, input_error c a li ->
    check_items cr solve c a li = inr (ErrLength (length (al_items a)) (length li)) \/
    check_items cr solve c a li = inr (ErrMissing (blank_positions li)).
  Proof.
    intros c a li H.
    destruct (c_length_error c) eqn:EL.
    - destruct (Nat.eq_dec (length (al_items a)) (length li)) as [E|NE].
      + destruct H as [[_ H] | [HM HB]]; [contradiction|]. right. apply slg_missing_error; [right; exact E | exact HM | exact HB].
      + left. apply slg_length_error; assumption.
    - destruct H as [[H _] | [HM HB]]; [congruence|]. right. apply slg_missing_error; [left; exact EL | exact HM | exact HB].
  Qed.

  (* ------------------------------------------------------------------------------------------
     ItemGrader.check over the alternative lists: the best-scoring one is reported
     ------------------------------------------------------------------------------------------ *)
  Lemma best_grade_spec : forall rs cur, cur <= best_grade cur rs /\ (forall r, In r rs -> sr_grade r <= best_grade cur rs) /\
    (best_grade cur rs = cur \/ exists r, In r rs /\ best_grade cur rs = sr_grade r).
  Proof.
    induction rs as [|x rs IH]; intro cur; simpl.
    - split; [lra | split; [intros r [] | left; reflexivity]].
    - destruct (Qltb cur (sr_grade x)) eqn:E; qbool.
      + destruct (IH (sr_grade x)) as (I1 & I2 & I3). split; [lra | split].
        * intros r [<- | Hr]; [exact I1 | apply I2; exact Hr].
        * right. destruct I3 as [I3 | (r & Hr & I3)]; [exists x; split; [left; reflexivity | exact I3] | exists r; split; [right; exact Hr | exact I3]].
      + destruct (IH cur) as (I1 & I2 & I3). split; [exact I1 | split].
        * intros r [<- | Hr]; [lra | apply I2; exact Hr].
        * destruct I3 as [I3 | (r & Hr & I3)]; [left; exact I3 | right; exists r; split; [right; exact Hr | exact I3]].
  Qed.

  Lemma longest_in : forall rs cur, longest cur rs = cur \/ In (longest cur rs) rs.
  Proof.
    induction rs as [|x rs IH]; intro cur; simpl; [left; reflexivity|].
    destruct (length (sr_msg cur) <? length (sr_msg x))%nat.
    - destruct (IH x) as [E | I]; [right; left; congruence | right; right; exact I].
    - destruct (IH cur) as [E | I]; [left; exact E | right; right; exact I].
  Qed.

  Lemma select_spec : forall rs r, select rs = Some r -> In r rs /\ forall r', In r' rs -> sr_grade r' <= sr_grade r.
  Proof.
    intros rs r H. unfold select in H. destruct rs as [|r0 t]; [discriminate|].
    set (best := best_grade (sr_grade r0) t) in *.
    destruct (filter (fun x => Qeq_bool (sr_grade x) best) (r0 :: t)) as [|b0 bt] eqn:F; [discriminate|]. inversion H; subst r. clear H.
    assert (Hin : In (longest b0 bt) (b0 :: bt)) by (destruct (longest_in bt b0) as [E | I]; [left; congruence | right; exact I]).
    rewrite <- F in Hin. apply filter_In in Hin. destruct Hin as [Hin Hb]. qbool. split; [exact Hin|].
    intros r' Hr'. rewrite Hb. destruct (best_grade_spec t (sr_grade r0)) as (I1 & I2 & _). fold best in I1, I2.
    destruct Hr' as [<- | Hr']; [exact I1 | apply I2; exact Hr'].
  Qed.

  Lemma with_wrong_msg_grade : forall c r, sr_grade (with_wrong_msg c r) = sr_grade r /\ sr_all (with_wrong_msg c r) = sr_all r.
  Proof. intros c r. unfold with_wrong_msg. destruct (is_empty (sr_msg r) && Qeq_bool (sr_grade r) 0); split; reflexivity. Qed.

  Lemma with_wrong_msg_msg : forall c r, sr_msg (with_wrong_msg c r) = sr_msg r \/
    (sr_msg r = [] /\ sr_grade r == 0 /\ sr_msg (with_wrong_msg c r) = c_wrong_msg c).
  Proof.
    intros c r. unfold with_wrong_msg. destruct (is_empty (sr_msg r)) eqn:E1; [|left; reflexivity].
    destruct (Qeq_bool (sr_grade r) 0) eqn:E2; [|left; reflexivity]. right. qbool.
    destruct (sr_msg r); [|discriminate]. split; [reflexivity | split; [exact E2 | reflexivity]].
  Qed.

  (* the result of check is the result of one alternative list (wrong_msg aside), and no alternative scores higher *)
  Theorem slg_check_best : forall c answers s r, check cr solve c answers s = inl r ->
    (exists a r0, In a (all_alts answers) /\ check_response cr solve c a s = inl r0 /\
        sr_grade r = sr_grade r0 /\ sr_all r = sr_all r0 /\
        (sr_msg r = sr_msg r0 \/ (sr_msg r0 = [] /\ sr_grade r0 == 0 /\ sr_msg r = c_wrong_msg c))) /\
    (forall a', In a' (all_alts answers) -> exists r', check_response cr solve c a' s = inl r' /\ sr_grade r' <= sr_grade r).
  Proof.
    intros c answers s r H. unfold check in H. destruct answers as [|a0 rest]; [discriminate|].
    set (alts := all_alts (a0 :: rest)) in *.
    destruct (mapM (fun a => check_response cr solve c a s) alts) as [rs|e] eqn:M; [|discriminate].
    destruct (select rs) as [r1|] eqn:S; [|discriminate]. inversion H; subst r. clear H.
    destruct (select_spec rs r1 S) as [Hin Hmax]. pose proof (mapM_Forall2 _ _ _ M) as F.
    destruct (with_wrong_msg_grade c r1) as [G1 G2]. split.
    - destruct (Forall2_in_r _ _ _ F r1 Hin) as (a & Ha & Ea).
      exists a, r1. split; [exact Ha | split; [exact Ea | split; [exact G1 | split; [exact G2 | apply with_wrong_msg_msg]]]].
    - intros a' Ha'. destruct (Forall2_in_l _ _ _ F a' Ha') as (r' & Hr' & Ea').
      exists r'. split; [exact Ea' | rewrite G1; apply Hmax; exact Hr'].
  Qed.
End Oracle.

Arguments unit_on {A}. Arguments formula {A}. Arguments best_total {A}. Arguments used_pairs_pass {A}.
Arguments passes {A}. Arguments passes_at {A}. Arguments credit_at {A}. Arguments pos_total {A}. Arguments g {A}.
Arguments input_error {A}.

(* ------------------------------------------------------------------------------------------------
   the whole check: every alternative list of every answer, through the string
   ------------------------------------------------------------------------------------------------ *)
Section Whole.
  Variable A : Type.
  Variable cr : A -> str -> res sres.
  Variable solve : list (list Q) -> option (list (nat * nat)).
  Hypothesis Hsolve : solver_optimal solve.

  (* a configuration the schema accepts: no empty list of expected items, credits in [0,1] *)
  Definition valid_alt (a : alt A) : Prop := al_items a <> [] /\ unit_on cr (al_items a) /\ 0 <= al_credit a <= 1.
  Definition valid_answers (answers : list (answer A)) : Prop := Forall valid_alt (all_alts answers).

  Definition items_of (c : cfg) (s : str) : list str := split (c_delim c) s.

  (* C07, whole statement for the grade: the reported grade is given by the formula for one of the alternative
     lists, no alternative list's formula value exceeds it, and it lies in [0,1] *)
  Theorem slg_check_formula : forall c answers s r, valid_answers answers -> check cr solve c answers s = inl r ->
    (exists a, In a (all_alts answers) /\ formula cr c a (items_of c s) (sr_grade r)) /\
    (forall a q, In a (all_alts answers) -> formula cr c a (items_of c s) q -> q <= sr_grade r) /\
    0 <= sr_grade r <= 1.
  Proof.
    intros c answers s r V H. destruct (slg_check_best A cr solve c answers s r H) as ((a & r0 & Ha & E0 & G & _) & Hmax).
    unfold valid_answers in V. rewrite Forall_forall in V.
    destruct (V a Ha) as (N & U & Cu). unfold check_response in E0.
    split; [|split].
    - exists a. split; [exact Ha|]. rewrite G. apply (slg_grade_formula A cr solve Hsolve c a _ r0 U N E0).
    - intros a' q Ha' F. destruct (Hmax a' Ha') as (r' & E' & L). destruct (V a' Ha') as (N' & U' & _).
      unfold check_response in E'.
      pose proof (slg_grade_formula A cr solve Hsolve c a' _ r' U' N' E') as F'.
      rewrite (formula_unique A cr c a' _ q (sr_grade r') F F'). exact L.
    - rewrite G. apply (slg_grade_in_unit_interval A cr solve Hsolve c a _ r0 U N Cu E0).
  Qed.

  (* the message part, through check: all_awarded of the reported result is that of the chosen alternative *)
  Theorem slg_check_msg_rule : forall c answers s r, valid_answers answers -> check cr solve c answers s = inl r ->
    sr_all r = true ->
    exists a, In a (all_alts answers) /\ length (items_of c s) = length (al_items a) /\
              used_pairs_pass cr c (al_items a) (items_of c s) (earned_test c).
  Proof.
    intros c answers s r V H K. destruct (slg_check_best A cr solve c answers s r H) as ((a & r0 & Ha & E0 & _ & G2 & _) & _).
    unfold valid_answers in V. rewrite Forall_forall in V. destruct (V a Ha) as (N & U & _). unfold check_response in E0.
    destruct (slg_msg_rule A cr solve Hsolve c a _ r0 U N E0) as (rs & _ & _ & _ & Q).
    exists a. split; [exact Ha|]. apply Q. congruence.
  Qed.

  (* errors through check: the first alternative list decides (all lists of a configuration have the same length) *)
  Theorem slg_check_input_error : forall c answers s a rest, all_alts answers = a :: rest -> input_error c a (items_of c s) ->
    check cr solve c answers s = inr (ErrLength (length (al_items a)) (length (items_of c s))) \/
    check cr solve c answers s = inr (ErrMissing (blank_positions (items_of c s))).
  Proof.
    intros c answers s a rest E H. unfold check. destruct answers as [|a0 t]; [discriminate|]. rewrite E. simpl mapM.
    change (check_response cr solve c a s) with (check_items cr solve c a (items_of c s)).
    destruct (input_error_raises A cr solve c a (items_of c s) H) as [K|K]; rewrite K; [left | right]; reflexivity.
  Qed.
End Whole.

Arguments valid_alt {A}. Arguments valid_answers {A}. 

(* ------------------------------------------------------------------------------------------------
   one level of nesting: the outer subgrader is the inner SingleListGrader's check
   ------------------------------------------------------------------------------------------------ *)
Section Nested.
  Variable A : Type.
  Variable cr : A -> str -> res sres.
  Variable solve : list (list Q) -> option (list (nat * nat)).
  Hypothesis Hsolve : solver_optimal solve.
  Variables co ci : cfg.

  Definition inner_cr : inner_answers A -> str -> res sres := fun ia it => check cr solve ci ia it.

  (* every inner configuration is valid *)
  Definition valid_nested (answers : list (answer (inner_answers A))) : Prop :=
    Forall (fun a => al_items a <> [] /\ 0 <= al_credit a <= 1 /\ Forall (valid_answers cr) (al_items a)) (all_alts answers).

  Lemma inner_unit : forall la, Forall (valid_answers cr) la -> unit_on inner_cr la.
  Proof.
    intros la V ia it r Hin H. rewrite Forall_forall in V. unfold inner_cr in H.
    apply (slg_check_formula A cr solve Hsolve ci ia it r (V ia Hin) H).
  Qed.

  Lemma valid_nested_valid : forall answers, valid_nested answers -> valid_answers inner_cr answers.
  Proof.
    intros answers V. unfold valid_nested in V. unfold valid_answers. eapply Forall_impl; [|exact V].
    intros a (N & C & F). split; [exact N | split; [apply inner_unit; exact F | exact C]].
  Qed.

  (* the formula at the outer level, with the inner grader's grades as item credits *)
  Theorem slg_nested_formula : forall answers s r, valid_nested answers -> nested_check cr solve co ci answers s = inl r ->
    (exists a, In a (all_alts answers) /\ formula inner_cr co a (items_of co s) (sr_grade r)) /\
    (forall a q, In a (all_alts answers) -> formula inner_cr co a (items_of co s) q -> q <= sr_grade r) /\
    0 <= sr_grade r <= 1.
  Proof.
    intros answers s r V H. unfold nested_check in H.
    apply (slg_check_formula (inner_answers A) inner_cr solve Hsolve co answers s r (valid_nested_valid answers V) H).
  Qed.

  (* an inner result with all_awarded comes from an inner list with as many items as submitted, each of which earned credit *)
  Lemma inner_all_awarded : forall ia it r, c_nested ci = false -> valid_answers cr ia -> inner_cr ia it = inl r -> sr_all r = true ->
    exists a, In a (all_alts ia) /\ length (items_of ci it) = length (al_items a) /\
              used_pairs_pass cr ci (al_items a) (items_of ci it) (fun x => Qltb 0 (sr_grade x)).
  Proof.
    intros ia it r Hn V H K. unfold inner_cr in H.
    destruct (slg_check_msg_rule A cr solve Hsolve ci ia it r V H K) as (a & Ha & L & UP).
    exists a. split; [exact Ha | split; [exact L|]]. unfold earned_test in UP. rewrite Hn in UP. exact UP.
  Qed.

  (* C07, message rule with nesting: the outer answer-level message requires equal counts at the outer level and
     all_awarded from every inner list that was used *)
  Theorem slg_nested_msg_rule : forall answers s r, c_nested co = true -> valid_nested answers ->
    nested_check cr solve co ci answers s = inl r -> sr_all r = true ->
    exists a, In a (all_alts answers) /\ length (items_of co s) = length (al_items a) /\
              used_pairs_pass inner_cr co (al_items a) (items_of co s) sr_all.
  Proof.
    intros answers s r Hn V H K. unfold nested_check in H.
    destruct (slg_check_msg_rule (inner_answers A) inner_cr solve Hsolve co answers s r (valid_nested_valid answers V) H K)
      as (a & Ha & L & UP).
    exists a. split; [exact Ha | split; [exact L|]]. unfold earned_test in UP. rewrite Hn in UP. exact UP.
  Qed.
End Nested.

(* ------------------------------------------------------------------------------------------------
   through the string: permutation invariance for a one-character delimiter
   ------------------------------------------------------------------------------------------------ *)
Theorem slg_perm_invariant_string : forall A (cr : A -> str -> res sres) solve, solver_optimal solve ->
  forall c a d items items' r r', c_delim c = [d] -> items <> [] -> Forall (fun it => ~ In d it) items ->
    unit_on cr (al_items a) -> al_items a <> [] -> c_ordered c = false -> Permutation items items' ->
    check_response cr solve c a (join [d] items) = inl r -> check_response cr solve c a (join [d] items') = inl r' ->
    sr_grade r == sr_grade r'.
Proof.
  intros A cr solve Hs c a d items items' r r' Hd Hne Hno U Ha Ho HP H H'.
  unfold check_response in H, H'. rewrite Hd in H, H'.
  assert (Hne' : items' <> []) by (intro E; subst items'; apply Permutation_sym, Permutation_nil in HP; congruence).
  assert (Hno' : Forall (fun it => ~ In d it) items') by (eapply Permutation_Forall; eassumption).
  rewrite split_join_single in H by assumption. rewrite split_join_single in H' by assumption.
  apply (slg_perm_invariant A cr solve Hs c a items items' r r' U Ha Ho HP H H').
Qed.

(* the wrong-count error speaks about the number of pieces of the split *)
Theorem slg_length_error_string : forall A (cr : A -> str -> res sres) solve c (a : alt A) s,
  c_length_error c = true -> length (al_items a) <> length (split (c_delim c) s) ->
  check_response cr solve c a s = inr (ErrLength (length (al_items a)) (length (split (c_delim c) s))).
Proof. intros. unfold check_response. apply slg_length_error; assumption. Qed.

(* ------------------------------------------------------------------------------------------------
   the executable model (solver = Munkres.computeZ on integer-scaled costs): optimality is C06's theorem, and so is
   termination (for arbitrary integer costs): the model ALWAYS returns a grade when no input error is due
   ------------------------------------------------------------------------------------------------ *)
Section Returns.
  Variable A : Type.
  Variable cr : A -> str -> res sres.

  Theorem slg_returns : (forall a it, exists r, cr a it = inl r) ->
    forall c (a : alt A) (li : list str),
      (1 <= Nat.max (length (al_items a)) (length li))%nat ->
      (c_length_error c = false \/ length (al_items a) = length li) ->
      (c_missing_error c = false \/ Forall (fun it => is_blank it = false) li) ->
      exists r, check_items cr solveZ c a li = inl r.
  Proof.
    intros T c a li Hn HL HM.
    destruct (slg_graded_or_solver A cr solveZ T c a li HL HM) as [K | [Ho K]]; [exact K|]. exfalso.
    rewrite (slg_graded_otherwise A cr solveZ c a li HL HM) in K. unfold grade_list in K. rewrite Ho in K.
    unfold optimal_order in K. set (n := Nat.max (length (al_items a)) (length li)) in *.
    destruct (result_matrix cr (pad n (al_items a)) (pad n li)) as [mat|e] eqn:Hmat.
    - destruct (solveZ (cost_matrix mat)) eqn:S; [discriminate|].
      destruct (padded_shape A cr (al_items a) li n mat eq_refl Hmat) as [L F].
      apply (solveZ_returns n (cost_matrix mat) Hn); try assumption.
      + unfold cost_matrix. rewrite map_length. exact L.
      + unfold cost_matrix. apply Forall_forall. intros row Hrow. apply in_map_iff in Hrow. destruct Hrow as (r0 & <- & H0).
        rewrite map_length. rewrite Forall_forall in F. apply F. exact H0.
    - destruct (mapM_inr _ _ e Hmat) as (oi & _ & Erow). destruct (mapM_inr _ _ e Erow) as (oa & _ & E).
      destruct (chk_total A cr T (oa, oi)) as (r & Er). unfold chk in Er. simpl in Er. congruence.
  Qed.

  (* through the string: a split never yields the empty list, so the size condition is automatic *)
  Theorem slg_returns_string : (forall a it, exists r, cr a it = inl r) ->
    forall c (a : alt A) (s : str),
      (c_length_error c = false \/ length (al_items a) = length (split (c_delim c) s)) ->
      (c_missing_error c = false \/ Forall (fun it => is_blank it = false) (split (c_delim c) s)) ->
      exists r, check_response cr solveZ c a s = inl r.
  Proof.
    intros T c a s HL HM. unfold check_response. apply slg_returns; try assumption.
    pose proof (split_length_pos (c_delim c) s). lia.
  Qed.
End Returns.

(* ------------------------------------------------------------------------------------------------
   permutation invariance of the whole check (all alternative lists), one-character delimiter
   ------------------------------------------------------------------------------------------------ *)
Theorem slg_check_perm_invariant : forall A (cr : A -> str -> res sres) solve, solver_optimal solve ->
  forall c answers d items items' r r', c_delim c = [d] -> items <> [] -> Forall (fun it => ~ In d it) items ->
    valid_answers cr answers -> c_ordered c = false -> Permutation items items' ->
    check cr solve c answers (join [d] items) = inl r -> check cr solve c answers (join [d] items') = inl r' ->
    sr_grade r == sr_grade r'.
Proof.
  intros A cr solve Hs c answers d items items' r r' Hd Hne Hno V Ho HP H H'.
  assert (Hne' : items' <> []) by (intro E; subst items'; apply Permutation_sym, Permutation_nil in HP; congruence).
  assert (Hno' : Forall (fun it => ~ In d it) items') by (eapply Permutation_Forall; eassumption).
  destruct (slg_check_formula A cr solve Hs c answers _ r V H) as ((a & Ha & F) & U & _).
  destruct (slg_check_formula A cr solve Hs c answers _ r' V H') as ((a' & Ha' & F') & U' & _).
  unfold items_of in *. rewrite Hd in *. rewrite split_join_single in F, U by assumption. rewrite split_join_single in F', U' by assumption.
  assert (L1 : sr_grade r <= sr_grade r') by (apply (U' a _ Ha); apply (formula_perm A cr c a items items' _ Ho HP F)).
  assert (L2 : sr_grade r' <= sr_grade r) by (apply (U a' _ Ha'); apply (formula_perm A cr c a' items' items _ Ho (Permutation_sym HP) F')).
  lra.
Qed.

(* what the caller of grader(expect, input) sees of a result *)
Lemma to_entry_spec : forall r, e_grade (to_entry r) = sr_grade r /\ e_ok (to_entry r) = grade_to_ok (sr_grade r) /\
  e_msg (to_entry r) = format_msg (sr_msg r).
Proof. intro r. repeat split. Qed.

(* ------------------------------------------------------------------------------------------------
   answers given as a string (answers='a, b' or inferred from the expect argument)
   ------------------------------------------------------------------------------------------------ *)
Theorem infer_flat_spec : forall c s,
  (c_missing_error c = true /\ (exists it, In it (split (c_delim c) s) /\ is_blank it = true) /\ infer_flat c s = inr ErrConfig)
  \/ ((c_missing_error c = false \/ Forall (fun it => is_blank it = false) (split (c_delim c) s))
      /\ infer_flat c s = inl [mkAnswer [split (c_delim c) s] 1 []]).
Proof.
  intros c s. unfold infer_flat. destruct (c_missing_error c) eqn:M; simpl andb.
  - destruct (existsb is_blank (split (c_delim c) s)) eqn:E.
    + left. apply existsb_exists in E. auto.
    + right. split; [|reflexivity]. right. apply Forall_forall. intros it Hit.
      destruct (is_blank it) eqn:B; [|reflexivity].
      assert (existsb is_blank (split (c_delim c) s) = true) by (apply existsb_exists; exists it; auto). congruence.
  - right. split; [left; reflexivity | reflexivity].
Qed.

(* the inferred configuration has exactly one list: the pieces of the string, at full credit, without message; it is never empty *)
Theorem infer_flat_alts : forall c s answers, infer_flat c s = inl answers ->
  all_alts answers = [mkAlt (split (c_delim c) s) 1 []] /\ split (c_delim c) s <> [].
Proof.
  intros c s answers H. destruct (infer_flat_spec c s) as [(_ & _ & E) | (_ & E)]; rewrite E in H; [discriminate|].
  inversion H; subst. split; [reflexivity | apply split_nonempty].
Qed.
