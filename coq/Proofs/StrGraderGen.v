(* Proofs/StrGraderGen.v -- the C18 theorems restated on the definitions REGENERATED from mitxgraders/stringgrader.py
   (Gen/StrGrader.v), through the bridge lemmas. *)
From Coq Require Import ZArith QArith List Bool Lia.
From Verif.Model Require Import Result StrGrader StrRegex.
From Verif.Gen Require StrGrader.
From Verif.Bridge Require Import StrGrader.
From Verif.Proofs Require Import StrGrader StrRegex.
Import ListNotations.
Open Scope Z_scope.

Notation gclean := Gen.StrGrader.gen_clean_input.
Notation gcheck := Gen.StrGrader.gen_check_response.
Notation gmessage := Gen.StrGrader.gen_construct_message.
Notation gexpect := Gen.StrGrader.gen_call_expect.

Lemma g_clean_spec : forall T cfg s, gclean T cfg s = norm T cfg s.
Proof. intros. rewrite clean_input_bridge. apply clean_spec. Qed.

Lemma g_clean_idempotent : forall T cfg s, tables_ok T -> gclean T cfg (gclean T cfg s) = gclean T cfg s.
Proof. intros. rewrite !clean_input_bridge. apply clean_idempotent. assumption. Qed.

Lemma g_nonspace_preserved : forall T cfg s, tables_ok T ->
  content T (gclean T cfg s) = content T (if cfg_case_sensitive cfg then s else py_lower T s).
Proof. intros. rewrite clean_input_bridge. apply nonspace_preserved. assumption. Qed.

Lemma g_outer_whitespace : forall T cfg l s r, tables_ok T -> cfg_strip cfg = true ->
  all_ws T l -> all_ws T r -> gclean T cfg (l ++ s ++ r) = gclean T cfg s.
Proof. intros. rewrite !clean_input_bridge. apply clean_ignores_outer_whitespace; assumption. Qed.

Lemma g_strip_all_core : forall T cfg s, tables_ok T -> cfg_strip_all cfg = true ->
  gclean T cfg s =
  (let x := core s in
   let x := if cfg_case_sensitive cfg then x else py_lower T x in
   if cfg_strip cfg then py_strip T x else x).
Proof. intros. rewrite clean_input_bridge. apply strip_all_depends_only_on_core; assumption. Qed.

Lemma g_strip_all_spaces : forall T cfg a b, tables_ok T -> cfg_strip_all cfg = true ->
  gclean T cfg (a ++ 32 :: b) = gclean T cfg (a ++ b).
Proof. intros. rewrite !clean_input_bridge. apply strip_all_ignores_spaces_anywhere; assumption. Qed.

Lemma g_repeated_space : forall T cfg a b, tables_ok T -> cfg_clean_spaces cfg = true ->
  gclean T cfg (a ++ 32 :: 32 :: b) = gclean T cfg (a ++ 32 :: b).
Proof. intros. rewrite !clean_input_bridge. apply clean_spaces_ignores_repeated_space; assumption. Qed.

Lemma g_match_iff : forall T rm rf cfg a e s,
  cfg_validation_pattern cfg = None -> accept_any_mode cfg = false ->
  (norm T cfg s = norm T cfg e -> gcheck T rm rf cfg a e s = Ret (credit_of a)) /\
  (norm T cfg s <> norm T cfg e -> gcheck T rm rf cfg a e s = Ret zero_entry).
Proof.
  intros T rm rf cfg a e s Hp Ha. rewrite check_response_bridge, <- !clean_spec.
  apply match_iff_equal_clean; assumption.
Qed.

(* a credited submission has the same non-whitespace characters as the expected string, up to the configured folding *)
Lemma g_match_same_characters : forall T rm rf cfg a e s, tables_ok T ->
  cfg_validation_pattern cfg = None -> accept_any_mode cfg = false ->
  gcheck T rm rf cfg a e s <> Ret zero_entry ->
  content T (if cfg_case_sensitive cfg then s else py_lower T s)
  = content T (if cfg_case_sensitive cfg then e else py_lower T e).
Proof.
  intros T rm rf cfg a e s HT Hp Ha Hne. rewrite check_response_bridge in Hne.
  destruct (match_iff_equal_clean T rm rf cfg a e s Hp Ha) as [_ H2].
  assert (E : clean_input T cfg s = clean_input T cfg e).
  { destruct (list_eq_dec Z.eq_dec (clean_input T cfg s) (clean_input T cfg e)) as [E|E]; [exact E|].
    exfalso. apply Hne. apply H2. exact E. }
  rewrite <- !(nonspace_preserved T cfg) by exact HT. rewrite E. reflexivity.
Qed.

Lemma g_accept_any : forall T rm rf cfg a e s,
  cfg_validation_pattern cfg = None -> accept_any_mode cfg = true -> 0 <= cfg_min_length cfg ->
  (meets_minimums T cfg (norm T cfg s) -> gcheck T rm rf cfg a e s = Ret (credit_of a)) /\
  (~ meets_minimums T cfg (norm T cfg s) ->
     exists m, m <> [] /\ gcheck T rm rf cfg a e s = refusal cfg (cfg_explain_minimums cfg) m).
Proof.
  intros T rm rf cfg a e s Hp Ha Hl. rewrite check_response_bridge, <- clean_spec.
  apply (accept_any_spec T rm rf cfg a e s Hp Ha Hl).
Qed.

Lemma g_message : forall cfg m how, gmessage cfg m how = refusal cfg how m.
Proof. intros. rewrite construct_message_bridge. apply construct_message_spec. Qed.

Lemma g_validation_refusal : forall T rm rf cfg p a e s,
  cfg_validation_pattern cfg = Some p ->
  rf p (norm T cfg s) = false ->
  (accept_any_mode cfg = true \/ rf p (norm T cfg e) = true) ->
  gcheck T rm rf cfg a e s = refusal cfg (cfg_explain_validation cfg) (cfg_invalid_msg cfg).
Proof.
  intros T rm rf cfg p a e s Hc Hs He. rewrite check_response_bridge. rewrite <- !clean_spec in *.
  apply (validation_refusal T rm rf cfg p Hc); assumption.
Qed.

Lemma g_validation_pass : forall T rm rf cfg p a e s,
  cfg_validation_pattern cfg = Some p ->
  rf p (norm T cfg s) = true ->
  (accept_any_mode cfg = true \/ rf p (norm T cfg e) = true) ->
  gcheck T rm rf cfg a e s = gcheck T rm rf (without_pattern cfg) a e s.
Proof.
  intros T rm rf cfg p a e s Hc Hs He. rewrite !check_response_bridge. rewrite <- !clean_spec in *.
  apply (validation_pass T rm rf cfg p Hc); assumption.
Qed.

(* the full-strength sentence of the property about validation, on the regenerated code *)
Lemma g_validation_fullmatch : forall T rm cfg p r a e s,
  cfg_validation_pattern cfg = Some p -> parse p = Some r ->
  (accept_any_mode cfg = true \/ in_language T r (norm T cfg e)) ->
  (~ in_language T r (norm T cfg s) ->
     gcheck T rm (re_fullmatch_text T) cfg a e s = refusal cfg (cfg_explain_validation cfg) (cfg_invalid_msg cfg)) /\
  (in_language T r (norm T cfg s) ->
     gcheck T rm (re_fullmatch_text T) cfg a e s = gcheck T rm (re_fullmatch_text T) (without_pattern cfg) a e s).
Proof.
  intros T rm cfg p r a e s Hc Hp He. rewrite !check_response_bridge. rewrite <- !clean_spec in *.
  apply (validation_fullmatch T rm cfg p r); assumption.
Qed.

Lemma g_validation_expect_outside_language : forall T rm cfg p r a e s,
  cfg_validation_pattern cfg = Some p -> parse p = Some r -> accept_any_mode cfg = false ->
  ~ in_language T r (norm T cfg e) ->
  gcheck T rm (re_fullmatch_text T) cfg a e s = RaiseConfig.
Proof.
  intros T rm cfg p r a e s Hc Hp Ha He. rewrite check_response_bridge. rewrite <- !clean_spec in *.
  apply (validation_expect_outside_language T rm cfg p r); assumption.
Qed.

(* the inputs that refuted the claim before the repair are now refused *)
Lemma g_regression_alternation :
  gcheck T_plain (re_match_text T_plain) (re_fullmatch_text T_plain) (cfg_any [97; 124; 98]) inferred_answer [] [97; 98]
  = RaiseInvalid [98; 97; 100].
Proof. rewrite check_response_bridge. exact regression_alternation. Qed.

Lemma g_regression_trailing_caret :
  gcheck T_plain (re_match_text T_plain) (re_fullmatch_text T_plain) (cfg_any [94]) inferred_answer [] [120]
  = RaiseInvalid [98; 97; 100].
Proof. rewrite check_response_bridge. exact regression_trailing_caret. Qed.

Lemma g_regression_normal_mode :
  gcheck T_plain (re_match_text T_plain) (re_fullmatch_text T_plain) (cfg_normal [97; 124; 98]) inferred_answer [97] [97; 120]
  = RaiseInvalid [98; 97; 100]
  /\ gcheck T_plain (re_match_text T_plain) (re_fullmatch_text T_plain) (cfg_normal [97; 124; 98]) inferred_answer [97] [97]
  = Ret (credit_of inferred_answer)
  /\ gcheck T_plain (re_match_text T_plain) (re_fullmatch_text T_plain) (cfg_normal [97; 124; 98]) inferred_answer [97] [98]
  = Ret zero_entry.
Proof. rewrite !check_response_bridge. exact regression_normal_mode. Qed.

Lemma g_call_expect : forall cfg,
  gexpect cfg None = if accept_any_mode cfg then Some [] else None.
Proof. intro cfg. rewrite call_expect_bridge. unfold call_expect, accept_any_mode. cbv zeta. cbn [is_none andb]. reflexivity. Qed.

(* ---- examples (non-vacuity and reading notes) ---- *)
Definition cfg_flags (cs st sa csp : bool) : config :=
  mkConfig false cs st sa csp false false 0 0 ExErr None ExErr [].

(* "  Hello\tWorld\r\n" with the default flags -> "Hello World" *)
Lemma ex_clean_default :
  gclean T_plain (cfg_flags true true false true) [32; 32; 72; 101; 108; 108; 111; 9; 87; 111; 114; 108; 100; 13; 10]
  = [72; 101; 108; 108; 111; 32; 87; 111; 114; 108; 100].
Proof. vm_compute. reflexivity. Qed.

(* strip off: a leading space is NOT ignored *)
Lemma ex_strip_off_keeps_space :
  gclean T_plain (cfg_flags true false false true) [32; 97] <> gclean T_plain (cfg_flags true false false true) [97].
Proof. vm_compute. discriminate. Qed.

(* clean_spaces off: two spaces differ from one; CRLF is ONE space, CR CR is two *)
Lemma ex_runs_kept :
  gclean T_plain (cfg_flags true true false false) [97; 13; 10; 98] = [97; 32; 98] /\
  gclean T_plain (cfg_flags true true false false) [97; 13; 13; 98] = [97; 32; 32; 98] /\
  gclean T_plain (cfg_flags true true false false) [97; 10; 13; 10; 13; 98] = [97; 32; 32; 32; 98].
Proof. vm_compute. auto. Qed.

(* strip_all off: a space inside matters; clean_spaces off: a repeated space matters *)
Lemma ex_inner_space_matters :
  gclean T_plain (cfg_flags true true false true) [97; 32; 98] <> gclean T_plain (cfg_flags true true false true) [97; 98]
  /\ gclean T_plain (cfg_flags true true false false) [97; 32; 32; 98] <> gclean T_plain (cfg_flags true true false false) [97; 32; 98].
Proof. split; vm_compute; discriminate. Qed.

(* accept_nonempty with min_length 0: the empty submission is refused with an error, "x" is accepted *)
Definition cfg_nonempty : config := mkConfig false true true false true false true 0 0 ExErr None ExErr [].
Lemma ex_accept_nonempty :
  (exists m, gcheck T_plain (re_match_text T_plain) (re_fullmatch_text T_plain) cfg_nonempty inferred_answer [] [32] = RaiseInvalid m)
  /\ gcheck T_plain (re_match_text T_plain) (re_fullmatch_text T_plain) cfg_nonempty inferred_answer [] [120] = Ret (credit_of inferred_answer).
Proof. split; [eexists|]; vm_compute; reflexivity. Qed.

(* a documented pattern of the subset: "\([0-9]+\)" *)
Lemma ex_documented_pattern :
  exists r, parse [92; 40; 91; 48; 45; 57; 93; 43; 92; 41] = Some r
            /\ re_fullmatch T_plain r [40; 52; 50; 41] = true /\ re_fullmatch T_plain r [40; 52; 50; 41; 120] = false.
Proof. eexists. repeat split; vm_compute; reflexivity. Qed.

(* where a "$" appended to the TEXT "a|b" would go: on the last alternative only (why the repaired code does not do that) *)
Lemma ex_dollar_binds_to_last_alternative :
  parse [97; 124; 98; 36] = Some (Alt (Cat Eps (lit 97)) (Cat (Cat Eps (lit 98)) Eol))
  /\ top_level_alternation [97; 124; 98] = true.
Proof. split; vm_compute; reflexivity. Qed.
