(* Proofs/ListGrader.v -- C05, part 3: get_ordered_input_list, perform_check, get_best_result, the
   partial_credit=False zeroing, check; nesting.  Lists of any length, arbitrary subgrader oracle. *)
From Coq Require Import ZArith QArith Qabs List Bool Arith Lia Lqa Permutation Sorted.
From Verif.Lib Require Import QRound.
From Verif.Model Require Import Result Munkres ListGrader.
From Verif.Proofs Require Import Credit MunkresDuality MunkresSpec ListGraderGroup ListGraderAssign.
Import ListNotations.
Close Scope Q_scope.
Open Scope nat_scope.

(* ---------- generic ---------- *)
Lemma all_some_map_Forall2 : forall {S T} (f : S -> option T) l rs,
  all_some (map f l) = Some rs -> Forall2 (fun t r => f t = Some r) l rs.
Proof.
  intros S T f l. induction l as [|t l IH]; intros rs H; simpl in H.
  - apply Some_inj in H. subst. constructor.
  - destruct (f t) as [r|] eqn:E; [| discriminate].
    destruct (all_some (map f l)) as [rs'|] eqn:E'; [| discriminate].
    apply Some_inj in H. subst. constructor; [exact E | apply IH; reflexivity].
Qed.

Lemma nth_error_combine : forall {A B} (l1 : list A) (l2 : list B) p,
  nth_error (combine l1 l2) p =
  match nth_error l1 p, nth_error l2 p with Some a, Some b => Some (a, b) | _, _ => None end.
Proof.
  induction l1 as [|a l1 IH]; intros [|b l2] [|p]; simpl; try reflexivity.
  - destruct (nth_error l1 p); reflexivity.
  - apply IH.
Qed.

Lemma nth_error_seq : forall a n p, p < n -> nth_error (seq a n) p = Some (a + p).
Proof.
  intros a n. revert a. induction n as [|n IH]; intros a [|p] H; simpl; try lia.
  - f_equal. lia.
  - rewrite IH by lia. f_equal. lia.
Qed.

(* ---------- get_ordered_input_list ---------- *)
Section Ordered.
  Variables X A : Type.
  Variable check : nat -> A -> ginput X -> option (list (nat * ginput X)) -> option result.

  Definition n_graders (c : lgcfg) (answers : list A) : nat :=
    if lg_sublist c then lg_nsubs c else length answers.

  (* the siblings argument: one (grader index, input) per compared position, in order *)
  Definition ordered_siblings (c : lgcfg) (answers : list A) (gin : list (ginput X)) : list (nat * ginput X) :=
    map (fun t => (gidx c (fst t), snd (snd t))) (combine (seq 0 (n_graders c answers)) (combine answers gin)).

  Lemma compare_nth : forall c (answers : list A) (gin : list (ginput X)) p a x,
    p < n_graders c answers -> nth_error answers p = Some a -> nth_error gin p = Some x ->
    nth_error (combine (seq 0 (n_graders c answers)) (combine answers gin)) p = Some (p, (a, x)).
  Proof.
    intros c answers gin p a x Hp Ha Hx. rewrite !nth_error_combine, nth_error_seq by exact Hp.
    rewrite Ha, Hx. reflexivity.
  Qed.

  (* ordered_pointwise: the p-th result is what the p-th subgrader returns for the p-th answer and the
     p-th (grouped) input, given the unchanged list of siblings *)
  Theorem ordered_pointwise : forall c answers gin rs,
    ordered_results X A check c answers gin = Some rs ->
    length rs = Nat.min (n_graders c answers) (Nat.min (length answers) (length gin))
    /\ forall p a x, p < n_graders c answers -> nth_error answers p = Some a -> nth_error gin p = Some x ->
         exists r, nth_error rs p = Some r
                   /\ check (gidx c p) a x (Some (ordered_siblings c answers gin)) = Some r.
  Proof.
    intros c answers gin rs H. unfold ordered_results in H. fold (n_graders c answers) in H.
    fold (ordered_siblings c answers gin) in H.
    split.
    - rewrite (all_some_length _ _ H), map_length, !combine_length, seq_length. reflexivity.
    - intros p a x Hp Ha Hx. apply all_some_map_Forall2 in H.
      destruct (Forall2_nth_error_l _ _ _ _ _ H (compare_nth c answers gin p a x Hp Ha Hx)) as [r [Hr Hc]].
      exists r. split; [exact Hr | exact Hc].
  Qed.

  Lemma ordered_siblings_nth : forall c answers gin p a x,
    p < n_graders c answers -> nth_error answers p = Some a -> nth_error gin p = Some x ->
    nth_error (ordered_siblings c answers gin) p = Some (gidx c p, x).
  Proof.
    intros c answers gin p a x Hp Ha Hx. unfold ordered_siblings.
    rewrite nth_error_map, (compare_nth c answers gin p a x Hp Ha Hx). reflexivity.
  Qed.

  Lemma ordered_siblings_length : forall c answers gin,
    length (ordered_siblings c answers gin) = Nat.min (n_graders c answers) (Nat.min (length answers) (length gin)).
  Proof. intros. unfold ordered_siblings. rewrite map_length, !combine_length, seq_length. reflexivity. Qed.
End Ordered.

(* ---------- flatten (no grouping) ---------- *)
Lemma flatten_plain_spec : forall rs es, flatten_plain rs = Some es -> rs = map GOne es.
Proof.
  induction rs as [|r rs IH]; intros es H; unfold flatten_plain in *; simpl in H.
  - apply Some_inj in H. subst. reflexivity.
  - destruct r as [e|es0]; [| discriminate].
    destruct (all_some _) as [es'|] eqn:E; [| discriminate].
    apply Some_inj in H. subst. simpl. f_equal. apply IH. reflexivity.
Qed.

(* ---------- perform_check ---------- *)
Section Perform.
  Variables X A : Type.
  Variable dX : X.
  Variable check : nat -> A -> ginput X -> option (list (nat * ginput X)) -> option result.
  Variable solve : list (list Q) -> option (list (nat * nat)).

  Notation perform := (perform_check X A dX check solve).
  Notation subres := (sub_results X A check solve).

  (* what ListGrader.schema_answers enforces at construction: as many subgraders as answers *)
  Definition cfg_matches (c : lgcfg) (answers : list A) : Prop :=
    lg_sublist c = true -> lg_nsubs c = length answers.

  Lemma cfg_matches_graders : forall c answers, cfg_matches c answers -> n_graders A c answers = length answers.
  Proof. intros c answers H. unfold n_graders. destruct (lg_sublist c) eqn:E; [apply H; exact E | reflexivity]. Qed.

  (* validate_submission + shape of the result, no grouping *)
  Lemma perform_flat : forall c answers xs es,
    lg_grouping c = [] -> perform c answers xs = Some es ->
    length answers = length xs /\ subres c answers (map GOne xs) = Some (map GOne es).
  Proof.
    intros c answers xs es Hg H. unfold perform_check in H. rewrite Hg in H.
    destruct (Nat.eqb_spec (length answers) (length xs)) as [E|NE]; [| discriminate].
    destruct (subres c answers (map GOne xs)) as [rs|] eqn:Es; [| discriminate].
    pose proof (flatten_plain_spec _ _ H) as Hrs. subst rs. split; [exact E | reflexivity].
  Qed.

  (* with a grouping *)
  Lemma perform_grouped : forall c answers xs es,
    lg_grouping c <> [] -> perform c answers xs = Some es ->
    length (lg_grouping c) = length xs
    /\ exists rs, subres c answers (groupify dX (group_map (lg_grouping c)) xs) = Some rs
                  /\ ungroupify (group_map (lg_grouping c)) rs = Some es.
  Proof.
    intros c answers xs es Hg H. unfold perform_check in H.
    destruct (lg_grouping c) as [|g0 gr] eqn:Eg; [congruence|].
    destruct (Nat.eqb_spec (length (g0 :: gr)) (length xs)) as [E|NE]; [| discriminate].
    split; [exact E|].
    destruct (subres c answers (groupify dX (group_map (g0 :: gr)) xs)) as [rs|] eqn:Es; [| discriminate].
    exists rs. split; [reflexivity | exact H].
  Qed.

  (* ----- ordered, no grouping: entry p is exactly what subgrader p returns for answer p and input p ----- *)
  Theorem ordered_flat_pointwise : forall c answers xs es,
    lg_ordered c = true -> lg_grouping c = [] -> cfg_matches c answers ->
    perform c answers xs = Some es ->
    length es = length xs /\ length answers = length xs
    /\ forall p a x, nth_error answers p = Some a -> nth_error xs p = Some x ->
         exists e, nth_error es p = Some e
                   /\ check (gidx c p) a (GOne x) (Some (ordered_siblings X A c answers (map GOne xs))) = Some (GOne e).
  Proof.
    intros c answers xs es Ho Hg Hm H.
    destruct (perform_flat c answers xs es Hg H) as [L Hs]. unfold sub_results in Hs. rewrite Ho in Hs.
    destruct (ordered_pointwise _ _ _ _ _ _ _ Hs) as [Lr Hp].
    rewrite (cfg_matches_graders _ _ Hm), !map_length in Lr.
    split; [lia|]. split; [exact L|].
    intros p a x Ha Hx.
    assert (Hpn : p < n_graders A c answers).
    { rewrite (cfg_matches_graders _ _ Hm). apply nth_error_Some. congruence. }
    destruct (Hp p a (GOne x) Hpn Ha) as [r [Hr Hc]].
    { rewrite nth_error_map, Hx. reflexivity. }
    rewrite nth_error_map in Hr. destruct (nth_error es p) as [e|] eqn:Ee; [| discriminate].
    simpl in Hr. apply Some_inj in Hr. subst r. exists e. split; [reflexivity | exact Hc].
  Qed.

  (* ----- ordered, grouped: group t is graded by subgrader t against answer t; the k-th entry of its result
     sits at the box of the k-th input of the group ----- *)
  Theorem ordered_grouped_boxes : forall c answers xs es,
    lg_ordered c = true -> valid_grouping (lg_grouping c) -> cfg_matches c answers ->
    perform c answers xs = Some es ->
    let gm := group_map (lg_grouping c) in
    let gin := groupify dX gm xs in
    length es = length xs
    /\ forall t grp a, nth_error gm t = Some grp -> nth_error answers t = Some a ->
         exists gi r,
           nth_error gin t = Some gi
           /\ entries_of gi = map (fun i => nth i xs dX) grp
           /\ check (gidx c t) a gi (Some (ordered_siblings X A c answers gin)) = Some r
           /\ forall k i, nth_error grp k = Some i ->
                exists e, nth_error (entries_of r) k = Some e /\ nth_error es i = Some e.
  Proof.
    intros c answers xs es Ho V Hm H gm gin.
    destruct V as [Hne V']. pose proof (conj Hne V') as V.
    destruct (perform_grouped c answers xs es Hne H) as [L [rs [Hs Hu]]].
    unfold sub_results in Hs. rewrite Ho in Hs.
    destruct (ungroupify_follows_boxes _ _ _ V Hu) as [Le Hb].
    split; [lia|].
    intros t grp a Hg Ha.
    destruct (groupify_nth dX gm xs t grp Hg) as [gi [Hgi Hen]].
    destruct (ordered_pointwise _ _ _ _ _ _ _ Hs) as [_ Hp].
    assert (Hpn : t < n_graders A c answers).
    { rewrite (cfg_matches_graders _ _ Hm). apply nth_error_Some. congruence. }
    destruct (Hp t a gi Hpn Ha Hgi) as [r [Hr Hc]].
    exists gi, r. split; [exact Hgi|]. split; [exact Hen|]. split; [exact Hc|].
    intros k i Hi. exact (Hb t grp r k i Hg Hr Hi).
  Qed.

  (* ----- unordered ----- *)
  Hypothesis Hopt : solver_optimal solve.
  Hypothesis Hrow : solver_row_major solve.

  Lemma credit_map_GOne : forall es, credit (map GOne es) = total es.
  Proof. intro es. unfold credit, total. rewrite map_map. reflexivity. Qed.

  (* no grouping: the entries are those of a one-to-one assignment of inputs to answers, each at the box of its
     input, and no one-to-one assignment has a larger total credit *)
  Theorem unordered_flat_optimal : forall c answers xs es,
    lg_ordered c = false -> lg_grouping c = [] -> 1 <= length xs ->
    perform c answers xs = Some es ->
    let n := length xs in
    length es = n /\ length answers = n
    /\ exists R sigma,
         result_matrix X A check answers (map GOne xs) = Some R
         /\ Permutation sigma (seq 0 n)
         /\ all_some (map (pick R) (combine (seq 0 n) sigma)) = Some (map GOne es)
         /\ forall tau rs', Permutation tau (seq 0 n) ->
              all_some (map (pick R) (combine (seq 0 n) tau)) = Some rs' -> (credit rs' <= total es)%Q.
  Proof.
    intros c answers xs es Ho Hg Hn H n.
    destruct (perform_flat c answers xs es Hg H) as [L Hs]. unfold sub_results in Hs. rewrite Ho in Hs.
    destruct (unordered_optimal X A check solve Hopt Hrow n answers (map GOne xs) (map GOne es) Hn L
                (map_length _ _) Hs) as [R [sigma [HR [Hp [Hsel [Hl Hmax]]]]]].
    rewrite map_length in Hl. split; [exact Hl|]. split; [exact L|].
    exists R, sigma. split; [exact HR|]. split; [exact Hp|]. split; [exact Hsel|].
    intros tau rs' Pt Hrs'. rewrite <- credit_map_GOne. exact (Hmax tau rs' Pt Hrs').
  Qed.

  (* grouped: the groups are assigned one-to-one to the answers with maximal total (consolidated) credit, and
     the k-th entry of the result chosen for group t sits at the box of the k-th input of group t *)
  Theorem unordered_grouped_optimal : forall c answers xs es,
    lg_ordered c = false -> valid_grouping (lg_grouping c) ->
    length answers = list_max (lg_grouping c) ->
    perform c answers xs = Some es ->
    let gm := group_map (lg_grouping c) in
    let gin := groupify dX gm xs in
    let n := length gm in
    length es = length xs
    /\ exists R sigma rs,
         result_matrix X A check answers gin = Some R
         /\ Permutation sigma (seq 0 n)
         /\ all_some (map (pick R) (combine (seq 0 n) sigma)) = Some rs
         /\ ungroupify gm rs = Some es
         /\ (forall t grp r k i, nth_error gm t = Some grp -> nth_error rs t = Some r -> nth_error grp k = Some i ->
               exists e, nth_error (entries_of r) k = Some e /\ nth_error es i = Some e)
         /\ forall tau rs', Permutation tau (seq 0 n) ->
              all_some (map (pick R) (combine (seq 0 n) tau)) = Some rs' -> (credit rs' <= credit rs)%Q.
  Proof.
    intros c answers xs es Ho V La H gm gin n.
    destruct V as [Hne V']. pose proof (conj Hne V') as V.
    destruct (perform_grouped c answers xs es Hne H) as [L [rs [Hs Hu]]].
    unfold sub_results in Hs. rewrite Ho in Hs.
    destruct (ungroupify_follows_boxes _ _ _ V Hu) as [Le Hb].
    split; [lia|].
    assert (Hn : 1 <= n).
    { unfold n, gm. rewrite group_map_length.
      destruct (lg_grouping c) as [|g0 gr] eqn:Eg; [congruence|].
      destruct V' as [Hpos _]. inversion Hpos; subst. simpl. lia. }
    assert (La' : length answers = n) by (unfold n, gm; rewrite group_map_length; exact La).
    assert (Lg : length gin = n) by (unfold gin; apply groupify_length).
    destruct (unordered_optimal X A check solve Hopt Hrow n answers gin rs Hn La' Lg Hs)
      as [R [sigma [HR [Hp [Hsel [Hl Hmax]]]]]].
    exists R, sigma, rs. split; [exact HR|]. split; [exact Hp|]. split; [exact Hsel|]. split; [exact Hu|]. split; [| exact Hmax].
    intros t grp r k i Hg Hr Hi. exact (Hb t grp r k i Hg Hr Hi).
  Qed.
End Perform.

(* ---------- get_best_result ---------- *)
Lemma Qmax_cases : forall a b, (Qmax a b = a \/ Qmax a b = b) /\ (a <= Qmax a b)%Q /\ (b <= Qmax a b)%Q.
Proof.
  intros a b. unfold Qmax. destruct (Qle_bool a b) eqn:E.
  - apply Qle_bool_iff in E. repeat split; auto; lra.
  - assert (b < a)%Q by (apply Qnot_le_lt; intro L; apply Qle_bool_iff in L; congruence).
    repeat split; auto; lra.
Qed.

Lemma fold_Qmax_spec : forall l d,
  (fold_left Qmax l d = d \/ In (fold_left Qmax l d) l)
  /\ (d <= fold_left Qmax l d)%Q /\ forall x, In x l -> (x <= fold_left Qmax l d)%Q.
Proof.
  induction l as [|y l IH]; intro d; simpl.
  - split; [left; reflexivity|]. split; [lra | contradiction].
  - destruct (IH (Qmax d y)) as [I1 [I2 I3]]. destruct (Qmax_cases d y) as [C1 [C2 C3]].
    split; [| split].
    + destruct I1 as [E|Hin]; [| right; right; exact Hin].
      rewrite E. destruct C1 as [C|C]; rewrite C; [left; reflexivity | right; left; reflexivity].
    + lra.
    + intros x [->|Hx]; [lra | apply I3; exact Hx].
Qed.

Lemma first_true_spec : forall l k i, first_true l k = Some i -> k <= i /\ nth_error l (i - k) = Some true.
Proof.
  induction l as [|b l IH]; intros k i H; simpl in H; [discriminate|].
  destruct b.
  - apply Some_inj in H. subst. rewrite Nat.sub_diag. split; [lia | reflexivity].
  - apply IH in H. destruct H as [H1 H2]. split; [lia|].
    replace (i - k) with (S (i - S k)) by lia. exact H2.
Qed.

Lemma first_true_total : forall l k, existsb (fun b => b) l = true -> exists i, first_true l k = Some i /\ i - k < length l.
Proof.
  induction l as [|b l IH]; intros k H; simpl in *; [discriminate|].
  destruct b.
  - exists k. split; [reflexivity | lia].
  - simpl in H. destruct (IH (S k) H) as [i [Hi Hl]]. exists i. split; [exact Hi|].
    apply first_true_spec in Hi. lia.
Qed.

Lemma cull_step_inv : forall best run q,
  length run = length best -> existsb (fun b => b) run = true ->
  length (cull_step best run q) = length best /\ existsb (fun b => b) (cull_step best run q) = true.
Proof.
  intros best run q L E. unfold cull_step.
  destruct (existsb (fun b => b) (map _ (combine run best))) eqn:Et.
  - split; [| exact Et]. rewrite map_length, combine_length. lia.
  - split; assumption.
Qed.

Lemma cull_fold_inv : forall best qs run,
  length run = length best -> existsb (fun b => b) run = true ->
  length (fold_left (cull_step best) qs run) = length best
  /\ existsb (fun b => b) (fold_left (cull_step best) qs run) = true.
Proof.
  intros best qs. induction qs as [|q qs IH]; intros run L E; simpl; [split; assumption|].
  destruct (cull_step_inv best run q L E) as [L' E']. apply IH; assumption.
Qed.

Lemma existsb_repeat_true : forall n, 1 <= n -> existsb (fun b => b) (repeat true n) = true.
Proof. intros [|n] H; [lia | reflexivity]. Qed.

Lemma filter_In_total : forall (rs : list (list entry)) mx b,
  In b (filter (fun r => Qeq_bool (total r) mx) rs) -> In b rs /\ (total b == mx)%Q.
Proof. intros rs mx b H. apply filter_In in H. destruct H as [H1 H2]. split; [exact H1 | apply Qeq_bool_iff; exact H2]. Qed.

(* best_list_max_total: the reported list is one of the given results and no result has a larger total *)
Theorem get_best_max : forall rs b, get_best rs = Some b ->
  In b rs /\ forall r, In r rs -> (total r <= total b)%Q.
Proof.
  intros rs b H. unfold get_best in H.
  destruct rs as [|r0 [|r1 rs']]; [discriminate | |].
  - apply Some_inj in H. subst. split; [left; reflexivity|]. intros r [<-|[]]. lra.
  - set (all := r0 :: r1 :: rs') in *.
    set (mx := fold_left Qmax (map total all) (total r0)) in *.
    destruct (fold_Qmax_spec (map total all) (total r0)) as [_ [_ Hge]]. fold mx in Hge.
    assert (Hbest : forall x, In x (filter (fun r => Qeq_bool (total r) mx) all) ->
                              In x all /\ forall r, In r all -> (total r <= total x)%Q).
    { intros x Hx. apply filter_In_total in Hx. destruct Hx as [Hin Heq]. split; [exact Hin|].
      intros r Hr. rewrite Heq. apply Hge. apply in_map. exact Hr. }
    destruct (filter (fun r => Qeq_bool (total r) mx) all) as [|b0 [|b1 best']] eqn:Ef.
    + destruct (first_true _ 0) as [i|]; [destruct i|]; discriminate.
    + apply Some_inj in H. subst. apply Hbest. left. reflexivity.
    + destruct (first_true _ 0) as [i|]; [| discriminate].
      apply nth_error_In in H. apply Hbest. exact H.
Qed.

(* ... and whenever there is at least one answer list, one is reported *)
Theorem get_best_total : forall rs, rs <> [] -> exists b, get_best rs = Some b.
Proof.
  intros rs Hne. unfold get_best.
  destruct rs as [|r0 [|r1 rs']]; [congruence | eauto |].
  set (all := r0 :: r1 :: rs') in *.
  set (mx := fold_left Qmax (map total all) (total r0)) in *.
  assert (Hne' : filter (fun r => Qeq_bool (total r) mx) all <> []).
  { destruct (fold_Qmax_spec (map total all) (total r0)) as [Hatt _]. fold mx in Hatt.
    assert (Hin : exists r, In r all /\ total r = mx).
    { destruct Hatt as [E|Hin].
      - exists r0. split; [left; reflexivity | symmetry; exact E].
      - apply in_map_iff in Hin. destruct Hin as [r [E Hr]]. exists r. split; assumption. }
    destruct Hin as [r [Hr E]]. intro Hc.
    assert (Hf : In r (filter (fun r => Qeq_bool (total r) mx) all)).
    { apply filter_In. split; [exact Hr|]. apply Qeq_bool_iff. rewrite E. reflexivity. }
    rewrite Hc in Hf. contradiction. }
  destruct (filter (fun r => Qeq_bool (total r) mx) all) as [|b0 [|b1 best']] eqn:Ef; [congruence | eauto |].
  set (best := b0 :: b1 :: best') in *.
  destruct (cull_fold_inv best (seq 0 (length r0)) (repeat true (length best))) as [L E].
  { apply repeat_length. }
  { apply existsb_repeat_true. simpl. lia. }
  destruct (first_true_total _ 0 E) as [i [Hi Hl]]. rewrite Hi.
  rewrite Nat.sub_0_r, L in Hl.
  destruct (nth_error best i) as [b|] eqn:Eb; [eauto|].
  apply nth_error_None in Eb. lia.
Qed.

(* ---------- partial_credit = False ---------- *)
Lemma all_ok_true_spec : forall es, all_ok_true es = true <-> Forall (fun e => e_ok e = OkTrue) es.
Proof.
  intro es. unfold all_ok_true. rewrite forallb_forall, Forall_forall. split; intros H e He; specialize (H e He).
  - destruct (e_ok e); simpl in H; try discriminate; reflexivity.
  - rewrite H. reflexivity.
Qed.

(* no_partial_zeroing: either every entry is fully correct and nothing changes, or every entry becomes
   (False, 0) with its message kept *)
Theorem apply_partial_spec : forall partial es,
  (partial = true -> apply_partial partial es = es)
  /\ (partial = false ->
        (Forall (fun e => e_ok e = OkTrue) es /\ apply_partial partial es = es)
        \/ (~ Forall (fun e => e_ok e = OkTrue) es
            /\ apply_partial partial es = map zero_entry es)).
Proof.
  intros partial es. split; intro Hp; subst; unfold apply_partial; [reflexivity|].
  destruct (all_ok_true es) eqn:E.
  - left. split; [apply all_ok_true_spec; exact E | reflexivity].
  - right. split; [| reflexivity]. intro Hc. apply all_ok_true_spec in Hc. congruence.
Qed.

Lemma zero_entry_spec : forall e, e_ok (zero_entry e) = OkFalse /\ e_grade (zero_entry e) = 0%Q /\ e_msg (zero_entry e) = e_msg e.
Proof. intro e. repeat split. Qed.

Lemma apply_partial_length : forall partial es, length (apply_partial partial es) = length es.
Proof.
  intros partial es. unfold apply_partial. destruct partial; [reflexivity|].
  destruct (all_ok_true es); [reflexivity | apply map_length].
Qed.

(* ---------- check ---------- *)
Section Check.
  Variables X A : Type.
  Variable dX : X.
  Variable check : nat -> A -> ginput X -> option (list (nat * ginput X)) -> option result.
  Variable solve : list (list Q) -> option (list (nat * nat)).

  (* the whole of ListGrader.check: every alternative list is graded by perform_check, a result of maximal
     total is selected, and the zeroing rule is applied to it *)
  Theorem check_level_sound : forall c alts xs out,
    check_level X A dX check solve c alts xs = Some out ->
    exists rs b,
      Forall2 (fun al r => perform_check X A dX check solve c al xs = Some r) alts rs
      /\ In b rs /\ (forall r, In r rs -> (total r <= total b)%Q)
      /\ out = apply_partial (lg_partial c) b.
  Proof.
    intros c alts xs out H. unfold check_level in H.
    destruct alts as [|al0 alts']; [discriminate|].
    destruct (all_some (map (fun al => perform_check X A dX check solve c al xs) (al0 :: alts'))) as [rs|] eqn:Er;
      [| discriminate].
    destruct (get_best rs) as [b|] eqn:Eb; [| discriminate].
    apply Some_inj in H. subst out.
    destruct (get_best_max _ _ Eb) as [Hin Hmax].
    exists rs, b. split; [apply all_some_map_Forall2; exact Er|]. split; [exact Hin|]. split; [exact Hmax | reflexivity].
  Qed.

  (* conversely: if every alternative list can be graded, check returns *)
  Theorem check_level_total : forall c alts xs rs,
    alts <> [] -> Forall2 (fun al r => perform_check X A dX check solve c al xs = Some r) alts rs ->
    exists out, check_level X A dX check solve c alts xs = Some out.
  Proof.
    intros c alts xs rs Hne F. unfold check_level.
    destruct alts as [|al0 alts']; [congruence|].
    assert (Er : all_some (map (fun al => perform_check X A dX check solve c al xs) (al0 :: alts')) = Some rs).
    { apply all_some_Forall2. clear Hne. induction F; simpl; constructor; auto. }
    rewrite Er.
    assert (Hrs : rs <> []) by (inversion F; discriminate).
    destruct (get_best_total rs Hrs) as [b Hb]. rewrite Hb. eauto.
  Qed.

  Theorem check_level_length : forall c alts xs out n,
    check_level X A dX check solve c alts xs = Some out ->
    (forall al es, In al alts -> perform_check X A dX check solve c al xs = Some es -> length es = n) ->
    length out = n.
  Proof.
    intros c alts xs out n H Hl.
    destruct (check_level_sound _ _ _ _ H) as [rs [b [F [Hin [_ ->]]]]].
    rewrite apply_partial_length.
    apply In_nth_error in Hin. destruct Hin as [i Hi].
    destruct (Forall2_nth_error_r _ _ _ _ _ F Hi) as [al [Hal Hp]].
    eapply Hl; [eapply nth_error_In; eauto | exact Hp].
  Qed.
End Check.

(* ---------- nesting ---------- *)
(* a nested ListGrader is the same function one level down: every theorem above, being about an arbitrary
   subgrader oracle, holds at every depth *)
Theorem run_list_unfold : forall item solve f id c subs alts xs sibs,
  run item solve (S f) (TList id c subs) (AAlts alts) (GMany xs) sibs
  = match check_level Z atree 0%Z (sub_closure (run item solve f) subs) solve c alts xs with
    | Some es => Some (GMany es)
    | None => None
    end.
Proof. reflexivity. Qed.

Theorem run_item_unfold : forall item solve f id aid x sibs,
  run item solve (S f) (TItem id) (AItem aid) x sibs
  = match item id aid x sibs with Some e => Some (GOne e) | None => None end.
Proof. reflexivity. Qed.

(* the siblings a subgrader sees are the siblings of its own level, with the sibling graders named by their
   node identifiers *)
Theorem sub_closure_spec : forall rec subs k a x s,
  sub_closure rec subs k a x s
  = rec (nth k subs (TItem 0)) a x (option_map (map (fun t => (tid (nth (fst t) subs (TItem 0)), snd t))) s).
Proof. reflexivity. Qed.

Lemma fmt_entry_spec : forall e, e_ok (fmt_entry e) = e_ok e /\ e_grade (fmt_entry e) = e_grade e.
Proof. intro e. split; reflexivity. Qed.

Theorem lg_call_spec : forall item solve f g a xs out,
  lg_call item solve f g a xs = Some out ->
  exists es, run item solve f g a (GMany xs) None = Some (GMany es) /\ out = map fmt_entry es.
Proof.
  intros item solve f g a xs out H. unfold lg_call in H.
  destruct (run item solve f g a (GMany xs) None) as [[e|es]|]; try discriminate.
  apply Some_inj in H. subst. eauto.
Qed.

Theorem lg_call_spec' : forall item solve f g a xs out,
  lg_call item solve f g a xs = Some out ->
  exists es, run item solve f g a (GMany xs) None = Some (GMany es) /\ out = map fmt_entry es
             /\ forall e, e_ok (fmt_entry e) = e_ok e /\ e_grade (fmt_entry e) = e_grade e.
Proof.
  intros item solve f g a xs out H. destruct (lg_call_spec _ _ _ _ _ _ _ H) as [es [H1 H2]].
  exists es. split; [exact H1|]. split; [exact H2 | exact fmt_entry_spec].
Qed.
