(* Proofs/ListGraderHeadline.v -- C05, part 6: the statement of the property for the whole of ListGrader.check,
   in one theorem per mode (no grouping), obtained by chaining the parts. *)
From Coq Require Import ZArith QArith Qabs List Bool Arith Lia Lqa Permutation Sorted.
From Verif.Lib Require Import QRound.
From Verif.Model Require Import Result Munkres ListGrader.
From Verif.Proofs Require Import Credit MunkresDuality MunkresSpec ListGraderGroup ListGraderAssign ListGrader ListGraderTotal
                                 ListGraderFinal.
Import ListNotations.
Close Scope Q_scope.
Open Scope nat_scope.

Lemma Forall2_In_l : forall {A B} (P : A -> B -> Prop) l r a, Forall2 P l r -> In a l -> exists b, In b r /\ P a b.
Proof.
  intros A B P l r a F. induction F as [|x y l r Hxy F IH]; intro H; [contradiction|].
  destruct H as [->|H]; [exists y; split; [left; reflexivity | exact Hxy]|].
  destruct (IH H) as [b [Hb Hp]]. exists b. split; [right; exact Hb | exact Hp].
Qed.

Lemma Forall2_In_r : forall {A B} (P : A -> B -> Prop) l r b, Forall2 P l r -> In b r -> exists a, In a l /\ P a b.
Proof.
  intros A B P l r b F. induction F as [|x y l r Hxy F IH]; intro H; [contradiction|].
  destruct H as [<-|H]; [exists x; split; [left; reflexivity | exact Hxy]|].
  destruct (IH H) as [a [Ha Hp]]. exists a. split; [right; exact Ha | exact Hp].
Qed.

Section Headline.
  Variables X A : Type.
  Variable dX : X.
  Variable check : nat -> A -> ginput X -> option (list (nat * ginput X)) -> option result.

  (* ORDERED.  What grader.check returns is, up to the partial_credit=False rule, the list es of one of the
     alternative answer lists al: entry p of es is exactly what subgrader p returns for answer p of al and input
     p (siblings unchanged), and no alternative list totals more. *)
  Theorem ordered_check : forall solve c alts xs out,
    lg_ordered c = true -> lg_grouping c = [] -> (forall al, In al alts -> cfg_matches A c al) ->
    check_level X A dX check solve c alts xs = Some out ->
    exists al es,
      In al alts /\ length es = length xs /\ length al = length xs
      /\ (forall p a x, nth_error al p = Some a -> nth_error xs p = Some x ->
            exists e, nth_error es p = Some e
                      /\ check (gidx c p) a (GOne x) (Some (ordered_siblings X A c al (map GOne xs))) = Some (GOne e))
      /\ (forall al' es', In al' alts -> perform_check X A dX check solve c al' xs = Some es' ->
            (total es' <= total es)%Q)
      /\ out = apply_partial (lg_partial c) es
      /\ length out = length xs.
  Proof.
    intros solve c alts xs out Ho Hg Hm H.
    destruct (check_level_sound X A dX check solve c alts xs out H) as [rs [es [F [Hin [Hmax Hout]]]]].
    destruct (Forall2_In_r _ _ _ _ F Hin) as [al [Hal Hp]].
    destruct (ordered_flat_pointwise X A dX check solve c al xs es Ho Hg (Hm al Hal) Hp) as [L1 [L2 Hpt]].
    exists al, es. split; [exact Hal|]. split; [exact L1|]. split; [exact L2|]. split; [exact Hpt|].
    split; [| split; [exact Hout | subst out; rewrite apply_partial_length; exact L1]].
    intros al' es' Hal' Hp'. destruct (Forall2_In_l _ _ _ _ F Hal') as [r [Hr Hpr]].
    rewrite Hp' in Hpr. apply Some_inj in Hpr. subst r. apply Hmax. exact Hr.
  Qed.

  (* UNORDERED.  What grader.check returns is, up to the partial_credit=False rule, the list es obtained from
     one alternative answer list al by a one-to-one assignment sigma of inputs to answers (entry i = what the
     subgrader returns for input i and answer sigma(i)), and NO one-to-one assignment of NO alternative list has a
     larger total credit. *)
  Theorem unordered_check : forall c alts xs out,
    lg_ordered c = false -> lg_grouping c = [] -> 1 <= length xs ->
    check_level X A dX check solveZ c alts xs = Some out ->
    let n := length xs in
    exists al es R sigma,
      In al alts /\ length es = n /\ length al = n
      /\ result_matrix X A check al (map GOne xs) = Some R
      /\ Permutation sigma (seq 0 n)
      /\ all_some (map (pick R) (combine (seq 0 n) sigma)) = Some (map GOne es)
      /\ (forall al' R' tau rs', In al' alts -> result_matrix X A check al' (map GOne xs) = Some R' ->
            Permutation tau (seq 0 n) ->
            all_some (map (pick R') (combine (seq 0 n) tau)) = Some rs' -> (credit rs' <= total es)%Q)
      /\ out = apply_partial (lg_partial c) es
      /\ length out = n.
  Proof.
    intros c alts xs out Ho Hg Hn H n.
    destruct (check_level_sound X A dX check solveZ c alts xs out H) as [rs [es [F [Hin [Hmax Hout]]]]].
    destruct (Forall2_In_r _ _ _ _ F Hin) as [al [Hal Hp]].
    destruct (unordered_flat_optimal_Z X A dX check c al xs es Ho Hg Hn Hp)
      as [L1 [L2 [R [sigma [HR [Ps [Hsel Hopt]]]]]]].
    exists al, es, R, sigma. split; [exact Hal|]. split; [exact L1|]. split; [exact L2|].
    split; [exact HR|]. split; [exact Ps|]. split; [exact Hsel|].
    split; [| split; [exact Hout | subst out; rewrite apply_partial_length; exact L1]].
    intros al' R' tau rs' Hal' HR' Pt Hrs'.
    destruct (Forall2_In_l _ _ _ _ F Hal') as [es' [Hr' Hp']].
    destruct (unordered_flat_optimal_Z X A dX check c al' xs es' Ho Hg Hn Hp')
      as [_ [_ [R'' [sigma' [HR'' [_ [_ Hopt']]]]]]].
    rewrite HR' in HR''. apply Some_inj in HR''. subst R''.
    pose proof (Hopt' tau rs' Pt Hrs') as H1. pose proof (Hmax es' Hr') as H2. lra.
  Qed.
End Headline.

(* ---------- the same with a grouping ---------- *)
Section HeadlineGrouped.
  Variables X A : Type.
  Variable dX : X.
  Variable check : nat -> A -> ginput X -> option (list (nat * ginput X)) -> option result.

  (* ORDERED, GROUPED.  The reported list belongs to one alternative answer list al; group t was graded by
     subgrader t against answer t of al, and the k-th entry of that result is reported at the box of the k-th input
     of group t; no alternative list totals more. *)
  Theorem ordered_check_grouped : forall solve c alts xs out,
    lg_ordered c = true -> valid_grouping (lg_grouping c) -> (forall al, In al alts -> cfg_matches A c al) ->
    check_level X A dX check solve c alts xs = Some out ->
    let gm := group_map (lg_grouping c) in
    let gin := groupify dX gm xs in
    exists al es,
      In al alts /\ length es = length xs
      /\ (forall t grp a, nth_error gm t = Some grp -> nth_error al t = Some a ->
            exists gi r,
              nth_error gin t = Some gi
              /\ entries_of gi = map (fun i => nth i xs dX) grp
              /\ check (gidx c t) a gi (Some (ordered_siblings X A c al gin)) = Some r
              /\ forall k i, nth_error grp k = Some i ->
                   exists e, nth_error (entries_of r) k = Some e /\ nth_error es i = Some e)
      /\ (forall al' es', In al' alts -> perform_check X A dX check solve c al' xs = Some es' ->
            (total es' <= total es)%Q)
      /\ out = apply_partial (lg_partial c) es
      /\ length out = length xs.
  Proof.
    intros solve c alts xs out Ho V Hm H gm gin.
    destruct (check_level_sound X A dX check solve c alts xs out H) as [rs [es [F [Hin [Hmax Hout]]]]].
    destruct (Forall2_In_r _ _ _ _ F Hin) as [al [Hal Hp]].
    destruct (ordered_grouped_boxes X A dX check solve c al xs es Ho V (Hm al Hal) Hp) as [L1 Hb].
    exists al, es. split; [exact Hal|]. split; [exact L1|]. split; [exact Hb|].
    split; [| split; [exact Hout | subst out; rewrite apply_partial_length; exact L1]].
    intros al' es' Hal' Hp'. destruct (Forall2_In_l _ _ _ _ F Hal') as [r [Hr Hpr]].
    rewrite Hp' in Hpr. apply Some_inj in Hpr. subst r. apply Hmax. exact Hr.
  Qed.

  (* UNORDERED, GROUPED (groups of k boxes, every subgrader result with one non-negative entry per box).  The
     reported entries are those of a one-to-one assignment of groups to the answers of one alternative list, each
     at the box of the input it grades, and their SUM is at least the sum of the entries of ANY one-to-one
     assignment of ANY alternative list. *)
  Theorem unordered_check_grouped : forall c alts xs out k,
    lg_ordered c = false -> valid_grouping (lg_grouping c) ->
    (forall al, In al alts -> length al = list_max (lg_grouping c)) ->
    1 <= k -> (forall grp, In grp (group_map (lg_grouping c)) -> length grp = k) ->
    (forall al R, In al alts ->
       result_matrix X A check al (groupify dX (group_map (lg_grouping c)) xs) = Some R ->
       forall p r, pick R p = Some r -> well_shaped k r) ->
    check_level X A dX check solveZ c alts xs = Some out ->
    let gm := group_map (lg_grouping c) in
    let gin := groupify dX gm xs in
    let n := length gm in
    exists al es R sigma rs,
      In al alts /\ length es = length xs
      /\ result_matrix X A check al gin = Some R
      /\ Permutation sigma (seq 0 n)
      /\ all_some (map (pick R) (combine (seq 0 n) sigma)) = Some rs
      /\ ungroupify gm rs = Some es
      /\ (forall t grp r j i, nth_error gm t = Some grp -> nth_error rs t = Some r -> nth_error grp j = Some i ->
            exists e, nth_error (entries_of r) j = Some e /\ nth_error es i = Some e)
      /\ (forall al' R' tau rs', In al' alts -> result_matrix X A check al' gin = Some R' ->
            Permutation tau (seq 0 n) ->
            all_some (map (pick R') (combine (seq 0 n) tau)) = Some rs' ->
            (total (concat (map entries_of rs')) <= total es)%Q)
      /\ out = apply_partial (lg_partial c) es
      /\ length out = length xs.
  Proof.
    intros c alts xs out k Ho V La Hk Hsz Hws H gm gin n.
    destruct (check_level_sound X A dX check solveZ c alts xs out H) as [rss [es [F [Hin [Hmax Hout]]]]].
    destruct (Forall2_In_r _ _ _ _ F Hin) as [al [Hal Hp]].
    destruct (unordered_grouped_optimal_Z X A dX check c al xs es Ho V (La al Hal) Hp)
      as [L1 [R [sigma [rs [HR [Ps [Hsel [Hu [Hbox _]]]]]]]]].
    exists al, es, R, sigma, rs. split; [exact Hal|]. split; [exact L1|]. split; [exact HR|].
    split; [exact Ps|]. split; [exact Hsel|]. split; [exact Hu|]. split; [exact Hbox|].
    split; [| split; [exact Hout | subst out; rewrite apply_partial_length; exact L1]].
    intros al' R' tau rs' Hal' HR' Pt Hrs'.
    destruct (Forall2_In_l _ _ _ _ F Hal') as [es' [Hr' Hp']].
    destruct (unordered_grouped_total_max X A dX check c al' xs es' k Ho V (La al' Hal') Hk Hsz
                (fun R0 HR0 => Hws al' R0 Hal' HR0) Hp')
      as [R'' [s'' [rs'' [HR'' [_ [_ [_ Hopt']]]]]]].
    fold gm gin n in HR'', Hopt'.
    rewrite HR' in HR''. apply Some_inj in HR''. subst R''.
    pose proof (Hopt' tau rs' Pt Hrs') as H1. pose proof (Hmax es' Hr') as H2. lra.
  Qed.
End HeadlineGrouped.
