(* Proofs/ListGraderAssign.v -- C05, part 2: find_optimal_order.
   - the solver used by the model (solveZ: munkres.py's integer instance on the costs scaled by a common
     denominator) returns a complete minimum-total-cost one-to-one assignment on rational matrices, GIVEN the
     C06 statement munkres_partial_correct_statement (explicit hypothesis, no transfer left unproved);
   - its result lists the rows in order (proved outright from read_result);
   - hence unordered_results is a one-to-one assignment of inputs to answers of maximal total credit. *)
From Coq Require Import ZArith QArith Qabs List Bool Arith Lia Lqa Permutation Sorted.
From Verif.Lib Require Import QRound.
From Verif.Model Require Import Result Munkres ListGrader.
From Verif.Proofs Require Import MunkresDuality MunkresSpec ListGraderGroup.
Import ListNotations.
Close Scope Q_scope.
Open Scope nat_scope.

(* ---------- sums over Q ---------- *)
Lemma sumQ_app : forall a b, (sumQ (a ++ b) == sumQ a + sumQ b)%Q.
Proof. induction a as [|x a IH]; intro b; simpl; [lra | rewrite IH; lra]. Qed.

Lemma sumQ_perm : forall a b, Permutation a b -> (sumQ a == sumQ b)%Q.
Proof. intros a b P. induction P; simpl; try lra. Qed.

Lemma sumQ_nonneg : forall l, Forall (fun q => (0 <= q)%Q) l -> (0 <= sumQ l)%Q.
Proof. intros l H. induction H; simpl; lra. Qed.

(* ---------- costs of assignments in rational matrices ---------- *)
Definition qget (M : list (list Q)) (i j : nat) : Q := nth j (nth i M []) 0%Q.
Definition qcost (M : list (list Q)) (m : list (nat * nat)) : Q :=
  sumQ (map (fun p => qget M (fst p) (snd p)) m).

(* what the unordered theorems need from a solver; same shape as C06's munkres_partial_correct_statement *)
Definition solver_optimal (solve : list (list Q) -> option (list (nat * nat))) : Prop :=
  forall (r c : nat) (M : list (list Q)) (res : list (nat * nat)),
    1 <= r -> 1 <= c -> rect r c M -> solve M = Some res ->
    is_matching r c res /\ length res = Nat.min r c
    /\ forall m, is_matching r c m -> length m = Nat.min r c -> (qcost M res <= qcost M m)%Q.

Definition solver_row_major (solve : list (list Q) -> option (list (nat * nat))) : Prop :=
  forall M res, solve M = Some res -> StronglySorted le (map fst res).

(* ---------- the scaling ---------- *)
Lemma lcm_fold_pos : forall (l : list Q),
  (0 < fold_right (fun q acc => Z.lcm (Zpos (Qden (Qred q))) acc) 1 l)%Z.
Proof.
  induction l as [|q l IH]; simpl; [lia|].
  pose proof (Z.lcm_nonneg (Zpos (Qden (Qred q))) (fold_right (fun q acc => Z.lcm (Zpos (Qden (Qred q))) acc) 1%Z l)) as Hn.
  destruct (Z.eq_dec (Z.lcm (Zpos (Qden (Qred q))) (fold_right (fun q acc => Z.lcm (Zpos (Qden (Qred q))) acc) 1%Z l)) 0) as [E|NE]; [| lia].
  apply Z.lcm_eq_0 in E. destruct E as [E|E]; [discriminate | lia].
Qed.

Lemma lcm_fold_divide : forall (l : list Q) q, In q l ->
  (Zpos (Qden (Qred q)) | fold_right (fun q acc => Z.lcm (Zpos (Qden (Qred q))) acc) 1 l)%Z.
Proof.
  induction l as [|x l IH]; intros q H; simpl in *; [contradiction|].
  destruct H as [->|H].
  - apply Z.divide_lcm_l.
  - eapply Z.divide_trans; [apply IH; exact H | apply Z.divide_lcm_r].
Qed.

Lemma common_den_pos : forall M, (0 < common_den M)%Z.
Proof. intro M. apply lcm_fold_pos. Qed.

Lemma scale_cost_zero : forall D, scale_cost D 0%Q = 0%Z.
Proof. intro D. reflexivity. Qed.

Lemma scale_cost_correct : forall D q, (Zpos (Qden (Qred q)) | D)%Z ->
  (inject_Z (scale_cost D q) == inject_Z D * q)%Q.
Proof.
  intros D q [k Hk]. unfold scale_cost.
  apply Qeq_trans with (inject_Z D * Qred q)%Q; [| apply Qmult_comp; [reflexivity | apply Qred_correct]].
  destruct (Qred q) as [n d]. simpl in *. subst D.
  rewrite Z.div_mul by discriminate.
  unfold Qeq, Qmult, inject_Z. simpl. ring.
Qed.

Lemma scaled_get : forall M i j,
  (inject_Z (gz (scaled_matrix M) i j) == inject_Z (common_den M) * qget M i j)%Q.
Proof.
  intros M i j. unfold gz, get2, scaled_matrix, qget.
  set (D := common_den M). set (f := scale_cost D).
  change (@nil Z) with (map f []). rewrite map_nth.
  destruct (Nat.lt_ge_cases i (length M)) as [Hi|Hi].
  - set (row := nth i M []).
    destruct (Nat.lt_ge_cases j (length row)) as [Hj|Hj].
    + rewrite <- (scale_cost_zero D). fold f. rewrite map_nth.
      apply scale_cost_correct. apply lcm_fold_divide.
      apply in_concat. exists row. split; [apply nth_In; exact Hi | apply nth_In; exact Hj].
    + rewrite !nth_overflow by (try rewrite map_length; exact Hj). simpl. ring.
  - rewrite (nth_overflow M) by exact Hi. simpl. destruct j; simpl; ring.
Qed.

Lemma scaled_cost : forall M m,
  (inject_Z (cost (scaled_matrix M) m) == inject_Z (common_den M) * qcost M m)%Q.
Proof.
  intros M m. unfold cost, qcost. induction m as [|p m IH]; simpl.
  - ring.
  - rewrite inject_Z_plus, IH, scaled_get. ring.
Qed.

Lemma rect_scaled : forall r c M, rect r c M -> rect r c (scaled_matrix M).
Proof.
  intros r c M [H1 H2]. unfold rect, scaled_matrix. rewrite map_length. split; [exact H1|].
  apply Forall_forall. intros row Hrow. apply in_map_iff in Hrow. destruct Hrow as [row' [<- Hin]].
  rewrite map_length. rewrite Forall_forall in H2. apply H2. exact Hin.
Qed.

(* from C06's statement about integer matrices to the solver the model calls *)
Theorem solveZ_optimal : munkres_partial_correct_statement -> solver_optimal solveZ.
Proof.
  intros HC r c M res Hr Hc HR H. unfold solveZ in H.
  destruct (HC r c (scaled_matrix M) res Hr Hc (rect_scaled _ _ _ HR) H) as [A1 [A2 A3]].
  split; [exact A1|]. split; [exact A2|].
  intros m Hm Hl. specialize (A3 m Hm Hl).
  pose proof (common_den_pos M) as HD.
  assert (HDq : (0 < inject_Z (common_den M))%Q) by (change 0%Q with (inject_Z 0); rewrite <- Zlt_Qlt; exact HD).
  rewrite Zle_Qle in A3. rewrite !scaled_cost in A3.
  apply Qmult_le_l in A3; assumption.
Qed.

(* ---------- rows in order ---------- *)
Lemma SSorted_app : forall (l1 l2 : list nat),
  StronglySorted le l1 -> StronglySorted le l2 -> (forall x y, In x l1 -> In y l2 -> x <= y) ->
  StronglySorted le (l1 ++ l2).
Proof.
  induction l1 as [|a l1 IH]; intros l2 H1 H2 H; simpl; [exact H2|].
  inversion H1 as [|? ? S1 F1]; subst. constructor.
  - apply IH; auto. intros x y Hx Hy. apply H; [right; exact Hx | exact Hy].
  - apply Forall_app. split; [exact F1|]. apply Forall_forall. intros y Hy. apply H; [left; reflexivity | exact Hy].
Qed.

Lemma SSorted_const : forall (a : nat) l, Forall (fun x => x = a) l -> StronglySorted le l.
Proof.
  intros a l H. induction H as [|x l Hx Hl IH]; constructor; [exact IH|].
  subst. eapply Forall_impl; [| exact Hl]. intros y Hy. simpl in Hy. lia.
Qed.

Lemma flat_rows_sorted : forall (F : nat -> list (nat * nat)),
  (forall i p, In p (F i) -> fst p = i) ->
  forall r a, StronglySorted le (map fst (flat_map F (seq a r)))
              /\ Forall (fun x => a <= x) (map fst (flat_map F (seq a r))).
Proof.
  intros F HF. induction r as [|r IH]; intro a; simpl; [split; constructor|].
  destruct (IH (S a)) as [S1 B1]. rewrite map_app.
  assert (Hc : Forall (fun x => x = a) (map fst (F a))).
  { apply Forall_forall. intros x Hx. apply in_map_iff in Hx. destruct Hx as [p [<- Hp]]. apply HF. exact Hp. }
  split.
  - apply SSorted_app; [eapply SSorted_const; exact Hc | exact S1 |].
    intros x y Hx Hy. rewrite Forall_forall in Hc, B1. specialize (Hc x Hx). specialize (B1 y Hy). lia.
  - apply Forall_app. split.
    + eapply Forall_impl; [| exact Hc]. intros x Hx. simpl in Hx. lia.
    + eapply Forall_impl; [| exact B1]. intros x Hx. simpl in Hx. lia.
Qed.

Lemma read_result_sorted : forall r c mk, StronglySorted le (map fst (read_result r c mk)).
Proof.
  intros r c mk. unfold read_result.
  apply (flat_rows_sorted (fun i => flat_map (fun j => if Nat.eqb (get2 0 mk i j) 1 then [(i, j)] else []) (seq 0 c))).
  intros i p Hp. apply in_flat_map in Hp. destruct Hp as [j [_ Hp]].
  destruct (Nat.eqb (get2 0 mk i j) 1); simpl in Hp; [| contradiction].
  destruct Hp as [<-|[]]. reflexivity.
Qed.

Lemma computeZ_row_major : forall M res, computeZ M = Some res -> StronglySorted le (map fst res).
Proof.
  intros M res H. unfold computeZ, compute, compute_full in H.
  destruct (drive _ _ _ _ _ _ _ _ _ _ _ _) as [[s tr]|]; [| discriminate].
  apply Some_inj in H. subst res. apply read_result_sorted.
Qed.

Theorem solveZ_row_major : solver_row_major solveZ.
Proof. intros M res H. unfold solveZ in H. eapply computeZ_row_major; eauto. Qed.

(* a sorted duplicate-free list of n naturals below a + n, all at least a, is a, a+1, ... *)
Lemma sorted_nodup_seq : forall l a,
  StronglySorted le l -> NoDup l -> Forall (fun x => a <= x < a + length l) l -> l = seq a (length l).
Proof.
  induction l as [|x l IH]; intros a Hs ND B; [reflexivity|].
  inversion Hs as [|? ? S' F']; subst. inversion ND as [|? ? Hnin ND']; subst.
  inversion B as [|? ? Bx B']; subst. simpl in *.
  assert (Hgt : Forall (fun y => x < y) l).
  { apply Forall_forall. intros y Hy. rewrite Forall_forall in F'. specialize (F' y Hy).
    destruct (Nat.eq_dec x y); [subst; contradiction | lia]. }
  assert (Hx : x = a).
  { destruct (Nat.eq_dec x a) as [|NE]; [assumption|]. exfalso.
    (* l is a duplicate-free list inside [x+1, a+1+|l|), an interval with fewer than |l| elements *)
    assert (Hincl : incl l (seq (S x) (a + length l - x))).
    { intros y Hy. apply in_seq. rewrite Forall_forall in Hgt, B'. specialize (Hgt y Hy). specialize (B' y Hy). lia. }
    pose proof (NoDup_incl_length ND' Hincl) as Hl. rewrite seq_length in Hl. lia. }
  subst x. f_equal. apply IH; [exact S' | exact ND' |].
  apply Forall_forall. intros y Hy. rewrite Forall_forall in Hgt, B'. specialize (Hgt y Hy). specialize (B' y Hy). lia.
Qed.

Lemma matching_rows_in_order : forall n res,
  is_matching n n res -> length res = n -> StronglySorted le (map fst res) -> map fst res = seq 0 n.
Proof.
  intros n res [ND1 [_ B]] L Hs.
  assert (E : n = length (map fst res)) by (rewrite map_length; symmetry; exact L).
  rewrite E. apply sorted_nodup_seq; [exact Hs | exact ND1 |].
  rewrite map_length. apply Forall_forall. intros x Hx. apply in_map_iff in Hx. destruct Hx as [p [<- Hp]].
  rewrite Forall_forall in B. specialize (B p Hp). lia.
Qed.

(* ---------- permutations of 0..n-1 and matchings ---------- *)
Lemma nodup_bounded_perm : forall n l, NoDup l -> length l = n -> Forall (fun x => x < n) l -> Permutation l (seq 0 n).
Proof.
  intros n l ND L B. apply NoDup_Permutation; [exact ND | apply seq_NoDup |].
  assert (Hincl : incl l (seq 0 n)).
  { intros x Hx. apply in_seq. rewrite Forall_forall in B. specialize (B x Hx). lia. }
  intro x. split; [apply Hincl|].
  apply (NoDup_length_incl ND); [rewrite seq_length; lia | exact Hincl].
Qed.

Lemma combine_fst_snd : forall {A B} (l : list (A * B)), combine (map fst l) (map snd l) = l.
Proof. induction l as [|[a b] l IH]; simpl; [reflexivity | rewrite IH; reflexivity]. Qed.

Lemma perm_matching : forall n tau, Permutation tau (seq 0 n) ->
  is_matching n n (combine (seq 0 n) tau) /\ length (combine (seq 0 n) tau) = n.
Proof.
  intros n tau P.
  assert (L : length tau = n) by (rewrite (Permutation_length P); apply seq_length).
  assert (E1 : map fst (combine (seq 0 n) tau) = seq 0 n).
  { rewrite <- (firstn_all (seq 0 n)) at 2. rewrite seq_length. rewrite <- L at 2.
    clear. revert tau. generalize 0. induction n as [|n IH]; intros a [|t tau]; simpl; try reflexivity.
    f_equal. apply IH. }
  assert (E2 : map snd (combine (seq 0 n) tau) = tau).
  { rewrite <- (firstn_all tau) at 2. rewrite L. rewrite <- (seq_length n 0) at 2.
    clear. revert tau. generalize 0. induction n as [|n IH]; intros a [|t tau]; simpl; try reflexivity.
    f_equal. apply IH. }
  split; [| rewrite combine_length, seq_length, L; lia].
  unfold is_matching. rewrite E1, E2. split; [apply seq_NoDup|]. split.
  - eapply Permutation_NoDup; [apply Permutation_sym; exact P | apply seq_NoDup].
  - apply Forall_forall. intros [i j] Hp. simpl. split.
    + apply in_combine_l in Hp. apply in_seq in Hp. lia.
    + apply in_combine_r in Hp. apply (Permutation_in _ P) in Hp. apply in_seq in Hp. lia.
Qed.

(* ---------- credit of an assignment ---------- *)
Definition credit (rs : list result) : Q := sumQ (map result_grade rs).

Lemma pick_cost : forall R p r, pick R p = Some r ->
  qget (cost_matrix R) (fst p) (snd p) = (1 - result_grade r)%Q.
Proof.
  intros R [i j] r H. unfold pick in H. simpl in *.
  destruct (nth_error R i) as [row|] eqn:Ei; [| discriminate].
  unfold qget, cost_matrix.
  rewrite (nth_error_nth _ _ _ (map_nth_error _ _ _ Ei)).
  rewrite (nth_error_nth _ _ _ (map_nth_error _ _ _ H)). reflexivity.
Qed.

Lemma picks_cost : forall R m rs, all_some (map (pick R) m) = Some rs ->
  (qcost (cost_matrix R) m == inject_Z (Z.of_nat (length m)) - credit rs)%Q.
Proof.
  intros R m. induction m as [|p m IH]; intros rs H; simpl in H.
  - apply Some_inj in H. subst. unfold qcost, credit. simpl. ring.
  - destruct (pick R p) as [r|] eqn:Ep; [| discriminate].
    destruct (all_some (map (pick R) m)) as [rs'|] eqn:Er; [| discriminate].
    apply Some_inj in H. subst rs. specialize (IH rs' eq_refl).
    unfold qcost, credit in *. cbn [map sumQ fold_right length].
    rewrite (pick_cost _ _ _ Ep). fold (sumQ (map (fun p0 => qget (cost_matrix R) (fst p0) (snd p0)) m)).
    fold (sumQ (map result_grade rs')). rewrite IH.
    rewrite Nat2Z.inj_succ. unfold Z.succ. rewrite inject_Z_plus. ring.
Qed.

(* the result matrix: R[i][j] is what the subgrader returns for answer j and input i *)
Section Unordered.
  Variables X A : Type.
  Variable check : nat -> A -> ginput X -> option (list (nat * ginput X)) -> option result.
  Variable solve : list (list Q) -> option (list (nat * nat)).
  Hypothesis Hopt : solver_optimal solve.
  Hypothesis Hrow : solver_row_major solve.

  Lemma result_matrix_spec : forall answers gin R,
    result_matrix X A check answers gin = Some R ->
    rect (length gin) (length answers) R /\
    forall i j x a, nth_error gin i = Some x -> nth_error answers j = Some a ->
      exists r, check 0 a x None = Some r /\ pick R (i, j) = Some r.
  Proof.
    intros answers gin R H. unfold result_matrix in H.
    pose proof (proj1 (all_some_Forall2 _ _) H) as F. split.
    - split.
      + rewrite (all_some_length _ _ H), map_length. reflexivity.
      + apply Forall_forall. intros row Hrow'. apply In_nth_error in Hrow'. destruct Hrow' as [i Hi].
        destruct (Forall2_nth_error_r _ _ _ _ _ F Hi) as [o [Ho Hs]].
        rewrite nth_error_map in Ho. destruct (nth_error gin i) as [x|]; [| discriminate].
        simpl in Ho. apply Some_inj in Ho. subst o.
        rewrite (all_some_length _ _ Hs), map_length. reflexivity.
    - intros i j x a Hx Ha.
      assert (Ho : nth_error (map (fun x => all_some (map (fun a => check 0 a x None) answers)) gin) i
                   = Some (all_some (map (fun a => check 0 a x None) answers))) by (rewrite nth_error_map, Hx; reflexivity).
      destruct (Forall2_nth_error_l _ _ _ _ _ F Ho) as [row [Hrow' Hs]].
      pose proof (proj1 (all_some_Forall2 _ _) Hs) as F2.
      assert (Hc : nth_error (map (fun a => check 0 a x None) answers) j = Some (check 0 a x None))
        by (rewrite nth_error_map, Ha; reflexivity).
      destruct (Forall2_nth_error_l _ _ _ _ _ F2 Hc) as [r [Hr Hcr]].
      exists r. split; [exact Hcr|]. unfold pick. simpl. rewrite Hrow'. exact Hr.
  Qed.

  (* unordered_is_matching + unordered_max_total *)
  Theorem unordered_optimal : forall n answers gin rs,
    1 <= n -> length answers = n -> length gin = n ->
    unordered_results X A check solve answers gin = Some rs ->
    exists R sigma,
      result_matrix X A check answers gin = Some R
      /\ Permutation sigma (seq 0 n)
      /\ all_some (map (pick R) (combine (seq 0 n) sigma)) = Some rs
      /\ length rs = n
      /\ forall tau rs', Permutation tau (seq 0 n) ->
           all_some (map (pick R) (combine (seq 0 n) tau)) = Some rs' -> (credit rs' <= credit rs)%Q.
  Proof.
    intros n answers gin rs Hn La Lg H. unfold unordered_results in H.
    destruct (result_matrix X A check answers gin) as [R|] eqn:ER; [| discriminate].
    destruct (solve (cost_matrix R)) as [idx|] eqn:ES; [| discriminate].
    destruct (result_matrix_spec _ _ _ ER) as [HR _]. rewrite La, Lg in HR.
    assert (HRC : rect n n (cost_matrix R)).
    { destruct HR as [H1 H2]. unfold rect, cost_matrix. rewrite map_length. split; [exact H1|].
      apply Forall_forall. intros row Hr. apply in_map_iff in Hr. destruct Hr as [row' [<- Hin]].
      rewrite map_length. rewrite Forall_forall in H2. apply H2. exact Hin. }
    destruct (Hopt n n (cost_matrix R) idx Hn Hn HRC ES) as [Hm [Hl Hmin]]. rewrite Nat.min_id in *.
    pose proof (matching_rows_in_order n idx Hm Hl (Hrow _ _ ES)) as Hfst.
    set (sigma := map snd idx).
    assert (Hidx : idx = combine (seq 0 n) sigma).
    { rewrite <- Hfst. unfold sigma. symmetry. apply combine_fst_snd. }
    assert (Hperm : Permutation sigma (seq 0 n)).
    { destruct Hm as [_ [ND2 B]]. apply nodup_bounded_perm; [exact ND2 | unfold sigma; rewrite map_length; exact Hl |].
      apply Forall_forall. intros x Hx. unfold sigma in Hx. apply in_map_iff in Hx. destruct Hx as [p [<- Hp]].
      rewrite Forall_forall in B. apply B. exact Hp. }
    exists R, sigma. split; [reflexivity|]. split; [exact Hperm|]. rewrite <- Hidx. split; [exact H|].
    split; [rewrite (all_some_length _ _ H), map_length; exact Hl|].
    intros tau rs' Pt Hrs'.
    destruct (perm_matching n tau Pt) as [Mt Lt].
    specialize (Hmin _ Mt Lt).
    rewrite (picks_cost _ _ _ H), (picks_cost _ _ _ Hrs'), Hl, Lt in Hmin. lra.
  Qed.
End Unordered.

(* ---------- total credit of the reported entries under grouping (equal-size groups) ---------- *)
Lemma inject_nat_pos : forall k, 1 <= k -> (0 < inject_Z (Z.of_nat k))%Q.
Proof. intros k H. change 0%Q with (inject_Z 0). rewrite <- Zlt_Qlt. lia. Qed.

Lemma consolidate_avg : forall gs, gs <> [] -> Forall (fun q => (0 <= q)%Q) gs ->
  (consolidate gs == sumQ gs / inject_Z (Z.of_nat (length gs)))%Q.
Proof.
  intros gs Hne Hnn. unfold consolidate, Qmax.
  destruct (Qle_bool 0 (sumQ gs / inject_Z (Z.of_nat (length gs)))) eqn:E; [reflexivity|].
  exfalso. assert (Hle : (0 <= sumQ gs / inject_Z (Z.of_nat (length gs)))%Q).
  { apply Qle_shift_div_l.
    - apply inject_nat_pos. destruct gs; [congruence | simpl; lia].
    - pose proof (sumQ_nonneg _ Hnn). lra. }
  apply Qle_bool_iff in Hle. congruence.
Qed.

Definition well_shaped (k : nat) (r : result) : Prop :=
  length (entries_of r) = k /\ Forall (fun e => (0 <= e_grade e)%Q) (entries_of r).

Lemma result_grade_avg : forall k r, 1 <= k -> well_shaped k r ->
  (result_grade r * inject_Z (Z.of_nat k) == total (entries_of r))%Q.
Proof.
  intros k r Hk [L NN]. pose proof (inject_nat_pos k Hk) as Hkq.
  destruct r as [e|es]; simpl in *.
  - subst k. unfold total. simpl. ring.
  - unfold total. rewrite consolidate_avg.
    + rewrite map_length, L. field. lra.
    + destruct es; [simpl in L; lia | discriminate].
    + apply Forall_forall. intros q Hq. apply in_map_iff in Hq. destruct Hq as [e [<- He]].
      rewrite Forall_forall in NN. apply NN. exact He.
Qed.

Lemma total_app : forall a b, (total (a ++ b) == total a + total b)%Q.
Proof. intros. unfold total. rewrite map_app. apply sumQ_app. Qed.

Theorem credit_grouped : forall k rs, 1 <= k -> Forall (well_shaped k) rs ->
  (credit rs * inject_Z (Z.of_nat k) == total (concat (map entries_of rs)))%Q.
Proof.
  intros k rs Hk H. induction H as [|r rs Hr Hrs IH]; unfold credit in *; simpl.
  - unfold total. simpl. ring.
  - rewrite total_app, <- IH, <- (result_grade_avg k r Hk Hr). ring.
Qed.
