(* EvalFlatten.v -- the flat tree of a derivation is well formed (hence parse (render e) = flatten e),
   and evaluating it gives the documented recursive semantics. *)
From Coq Require Import ZArith QArith List Bool Lia Arith.
From Verif.Model Require Import Result Lexer Parser Eval EvalSpec.
From Verif.Proofs Require Import ParserRoundTrip.
Import ListNotations.
Local Open Scope nat_scope.

(* ---------- induction principle for expr ---------- *)
Section expr_ind'.
  Variable P : expr -> Prop.
  Hypothesis HNum : forall x s, P (ENum x s).
  Hypothesis HVar : forall n, P (EVar n).
  Hypothesis HApp : forall f args, Forall P args -> P (EApp f args).
  Hypothesis HArr : forall items, Forall P items -> P (EArr items).
  Hypothesis HParen : forall e, P e -> P (EParen e).
  Hypothesis HAdd : forall a b, P a -> P b -> P (EAdd a b).
  Hypothesis HSub : forall a b, P a -> P b -> P (ESub a b).
  Hypothesis HMul : forall a b, P a -> P b -> P (EMul a b).
  Hypothesis HDiv : forall a b, P a -> P b -> P (EDiv a b).
  Hypothesis HPar : forall l, Forall P l -> P (EPar l).
  Hypothesis HNeg : forall a, P a -> P (ENeg a).
  Hypothesis HPos : forall a, P a -> P (EPos a).
  Hypothesis HPow : forall a b, P a -> P b -> P (EPow a b).

  Fixpoint expr_ind' (e : expr) : P e :=
    let go := fix go (l : list expr) : Forall P l :=
                match l with [] => Forall_nil _ | x :: r => Forall_cons _ (expr_ind' x) (go r) end in
    match e with
    | ENum x s => HNum x s
    | EVar n => HVar n
    | EApp f args => HApp f args (go args)
    | EArr items => HArr items (go items)
    | EParen e => HParen e (expr_ind' e)
    | EAdd a b => HAdd a b (expr_ind' a) (expr_ind' b)
    | ESub a b => HSub a b (expr_ind' a) (expr_ind' b)
    | EMul a b => HMul a b (expr_ind' a) (expr_ind' b)
    | EDiv a b => HDiv a b (expr_ind' a) (expr_ind' b)
    | EPar l => HPar l (go l)
    | ENeg a => HNeg a (expr_ind' a)
    | EPos a => HPos a (expr_ind' a)
    | EPow a b => HPow a b (expr_ind' a) (expr_ind' b)
    end.
End expr_ind'.

(* ---------- flatten produces well-formed trees of the documented level ---------- *)
Definition good (need : nat) (t : tree) : Prop := wfb t = true /\ need <= tlevel t.

Lemma wrap_good : forall need e, need <= 5 ->
  wfb (flatten e) = true -> tlevel (flatten e) = elevel e -> good need (wrap need e (flatten e)).
Proof.
  intros need e H5 W L. unfold wrap. destruct (need <=? elevel e) eqn:C.
  - apply Nat.leb_le in C. split; [assumption|lia].
  - split; [simpl; assumption|simpl; assumption].
Qed.

Lemma forallb_app1 : forall (A : Type) (f : A -> bool) l x,
  forallb f l = true -> f x = true -> forallb f (l ++ [x]) = true.
Proof. intros. rewrite forallb_app. simpl. rewrite H, H0. reflexivity. Qed.

Lemma forallb_single : forall (A : Type) (f : A -> bool) x, f x = true -> forallb f [x] = true.
Proof. intros. simpl. rewrite H. reflexivity. Qed.

Lemma item_true : forall (A : Type) lvl (o : A) u, (lvl <=? tlevel u) = true -> wfb u = true ->
  (fun p : A * tree => (lvl <=? tlevel (snd p)) && wfb (snd p)) (o, u) = true.
Proof. intros. cbn [snd]. rewrite H, H0. reflexivity. Qed.

Lemma forallb_item1 : forall (A : Type) lvl (o : A) u, (lvl <=? tlevel u) = true -> wfb u = true ->
  forallb (fun p : A * tree => (lvl <=? tlevel (snd p)) && wfb (snd p)) [(o, u)] = true.
Proof. intros. cbn [forallb snd]. rewrite H, H0. reflexivity. Qed.

Lemma forallb_item_snoc : forall (A : Type) lvl (o : A) u l, (lvl <=? tlevel u) = true -> wfb u = true ->
  forallb (fun p : A * tree => (lvl <=? tlevel (snd p)) && wfb (snd p)) l = true ->
  forallb (fun p : A * tree => (lvl <=? tlevel (snd p)) && wfb (snd p)) (l ++ [(o, u)]) = true.
Proof. intros. rewrite forallb_app, H1. apply forallb_item1; assumption. Qed.

Ltac split_goal := apply andb_true_iff; split; [apply andb_true_iff; split; [apply andb_true_iff; split|]|].

Lemma sum_snoc_wf : forall t o u, wfb t = true -> good 1 u ->
  wfb (sum_snoc t o u) = true /\ tlevel (sum_snoc t o u) = 0.
Proof.
  intros t o u W [Wu Lu]. apply Nat.leb_le in Lu.
  destruct t; simpl sum_snoc; (split; [|reflexivity]); rewrite wfb_Sum;
    try (split_goal; first [reflexivity | assumption | apply forallb_item1; assumption]).
  rewrite wfb_Sum in W. split_wf W. split_goal; try assumption.
  - destruct rest; simpl; rewrite ?orb_true_r; reflexivity.
  - apply forallb_item_snoc; assumption.
Qed.

Lemma prod_snoc_wf : forall t o u, good 1 t -> good 2 u ->
  wfb (prod_snoc t o u) = true /\ tlevel (prod_snoc t o u) = 1.
Proof.
  intros t o u [W L] [Wu Lu]. apply Nat.leb_le in Lu.
  destruct t; simpl prod_snoc; (split; [|reflexivity]); rewrite wfb_Prod;
    try (simpl in L; lia);
    try (split_goal; first [reflexivity | assumption | apply forallb_item1; assumption]).
  rewrite wfb_Prod in W. split_wf W. split_goal; try assumption.
  - destruct rest; reflexivity.
  - apply forallb_item_snoc; assumption.
Qed.

Lemma pow_cons_wf : forall b sg u, good 5 b -> good 4 u ->
  wfb (pow_cons b sg u) = true /\ tlevel (pow_cons b sg u) = 4.
Proof.
  intros b sg u [Wb Lb] [Wu Lu]. apply Nat.leb_le in Lb.
  destruct u; simpl pow_cons; (split; [|reflexivity]); rewrite wfb_Pow;
    try (simpl in Lu; lia);
    try (split_goal; first [reflexivity | assumption | apply forallb_item1; [reflexivity|assumption]]).
  rewrite wfb_Pow in Wu. split_wf Wu. split_goal; try assumption; try reflexivity.
  cbn [forallb snd]. rewrite W1, W0, W. reflexivity.
Qed.

Lemma flatten_EPow_neg : forall a b',
  flatten (EPow a (ENeg b')) =
  if 4 <=? elevel b' then pow_cons (wrap 5 a (flatten a)) true (flatten b')
  else pow_cons (wrap 5 a (flatten a)) false (wrap 4 (ENeg b') (flatten (ENeg b'))).
Proof. reflexivity. Qed.

Lemma flatten_EPow_other : forall a b, match b with ENeg _ => False | _ => True end ->
  flatten (EPow a b) = pow_cons (wrap 5 a (flatten a)) false (wrap 4 b (flatten b)).
Proof. intros a b H. destruct b; try reflexivity. contradiction. Qed.

Lemma flatten_good : forall e, wf_expr e = true ->
  wfb (flatten e) = true /\ tlevel (flatten e) = elevel e.
Proof.
  induction e using expr_ind'; intro Wf; simpl in Wf.
  - split; reflexivity.
  - split; reflexivity.
  - apply andb_true_iff in Wf. destruct Wf as [Wn Wa]. split; [|reflexivity].
    simpl flatten. rewrite wfb_Fun. apply andb_true_iff. split.
    + destruct args; [discriminate|reflexivity].
    + rewrite forallb_forall in *. intros t Ht. apply in_map_iff in Ht. destruct Ht as (e & <- & He).
      rewrite Forall_forall in H. apply H; auto.
  - apply andb_true_iff in Wf. destruct Wf as [Wn Wa]. split; [|reflexivity].
    simpl flatten. rewrite wfb_Arr. apply andb_true_iff. split.
    + destruct items; [discriminate|reflexivity].
    + rewrite forallb_forall in *. intros t Ht. apply in_map_iff in Ht. destruct Ht as (e & <- & He).
      rewrite Forall_forall in H. apply H; auto.
  - destruct (IHe Wf). split; [assumption|reflexivity].
  - apply andb_true_iff in Wf. destruct Wf as [Wa Wb].
    destruct (IHe1 Wa) as [A1 A2]. destruct (IHe2 Wb) as [B1 B2].
    simpl flatten. apply sum_snoc_wf; [assumption|apply wrap_good; auto].
  - apply andb_true_iff in Wf. destruct Wf as [Wa Wb].
    destruct (IHe1 Wa) as [A1 A2]. destruct (IHe2 Wb) as [B1 B2].
    simpl flatten. apply sum_snoc_wf; [assumption|apply wrap_good; auto].
  - apply andb_true_iff in Wf. destruct Wf as [Wa Wb].
    destruct (IHe1 Wa) as [A1 A2]. destruct (IHe2 Wb) as [B1 B2].
    simpl flatten. apply prod_snoc_wf; apply wrap_good; auto.
  - apply andb_true_iff in Wf. destruct Wf as [Wa Wb].
    destruct (IHe1 Wa) as [A1 A2]. destruct (IHe2 Wb) as [B1 B2].
    simpl flatten. apply prod_snoc_wf; apply wrap_good; auto.
  - apply andb_true_iff in Wf. destruct Wf as [Wn Wa].
    assert (G : Forall (good 3) (map (fun e => wrap 3 e (flatten e)) l)).
    { rewrite Forall_forall in *. intros t Ht. apply in_map_iff in Ht. destruct Ht as (e & <- & He).
      rewrite forallb_forall in Wa. destruct (H e He (Wa e He)). apply wrap_good; auto. }
    simpl flatten. destruct l as [|a [|b l]]; simpl in Wn; try discriminate.
    simpl map in *. inversion G as [|? ? [Ga1 Ga2] G']; subst.
    simpl mk_par. split; [|reflexivity]. rewrite wfb_Par.
    apply Nat.leb_le in Ga2. split_goal; [reflexivity|assumption|assumption|].
    apply forallb_forall. intros t Ht. rewrite Forall_forall in G'. destruct (G' t Ht) as [G1 G2].
    apply Nat.leb_le in G2. rewrite G1, G2. reflexivity.
  - destruct (IHe Wf) as [A1 A2]. split; [|reflexivity]. simpl flatten. rewrite wfb_Neg.
    destruct (wrap_good 4 e ltac:(lia) A1 A2) as [G1 G2]. apply Nat.leb_le in G2. rewrite G1, G2. reflexivity.
  - destruct (IHe Wf) as [A1 A2]. split; [|reflexivity]. simpl flatten. rewrite wfb_Sum.
    destruct (wrap_good 1 e ltac:(lia) A1 A2) as [G1 G2]. apply Nat.leb_le in G2. rewrite G1, G2. reflexivity.
  - apply andb_true_iff in Wf. destruct Wf as [Wa Wb].
    destruct (IHe1 Wa) as [A1 A2]. destruct (IHe2 Wb) as [B1 B2].
    assert (Gb : good 5 (wrap 5 e1 (flatten e1))) by (apply wrap_good; auto).
    assert (Gw : good 4 (wrap 4 e2 (flatten e2))) by (apply wrap_good; auto).
    change (elevel (EPow e1 e2)) with 4.
    destruct e2; try (rewrite flatten_EPow_other by exact I; apply pow_cons_wf; assumption).
    rewrite flatten_EPow_neg.
    destruct (4 <=? elevel e2) eqn:C; [|apply pow_cons_wf; assumption].
    apply Nat.leb_le in C. apply pow_cons_wf; [assumption|].
    (* the exponent -b' with b' a power or an atom: the sign is absorbed by the power node *)
    change (flatten (ENeg e2)) with (Neg (wrap 4 e2 (flatten e2))) in B1.
    rewrite wfb_Neg in B1. split_wf B1. leb_all.
    unfold wrap in B1, W. apply Nat.leb_le in C. rewrite C in B1, W. split; assumption.
Qed.

Theorem flatten_wf : forall e, wf_expr e = true -> wfb (flatten e) = true.
Proof. intros e H. apply flatten_good. assumption. Qed.

(* parsing the rendering of any derivation gives back exactly its flat tree *)
Theorem parse_render : forall e, wf_expr e = true -> parse_tokens (render e) = Some (flatten e).
Proof. intros e H. apply parse_print, flatten_wf, H. Qed.

(* ============================================================================================== *)
(* evaluation of the flat tree = documented recursive semantics                                     *)
(* ============================================================================================== *)
(* same successful results (which error is reported first may differ: the implementation evaluates all
   operands of a flat node before combining any of them) *)
Definition okeq {A : Type} (r1 r2 : res A) : Prop := forall v, r1 = Ok v <-> r2 = Ok v.

Lemma okeq_refl : forall (A : Type) (r : res A), okeq r r.
Proof. intros A r v. reflexivity. Qed.

Lemma okeq_of_eq : forall (A : Type) (r1 r2 : res A), r1 = r2 -> okeq r1 r2.
Proof. intros; subst; apply okeq_refl. Qed.

Lemma okeq_trans : forall (A : Type) (r1 r2 r3 : res A), okeq r1 r2 -> okeq r2 r3 -> okeq r1 r3.
Proof. intros A r1 r2 r3 H1 H2 v. rewrite (H1 v). apply H2. Qed.

Lemma bind_ok : forall (A B : Type) (r : res A) (f : A -> res B) v,
  bind r f = Ok v <-> exists a, r = Ok a /\ f a = Ok v.
Proof.
  intros A B r f v. destruct r as [a|e]; simpl; split.
  - intro H. exists a. auto.
  - intros (a' & Ha & Hf). inversion Ha; subst. assumption.
  - discriminate.
  - intros (a' & Ha & _). discriminate.
Qed.

Lemma okeq_bind : forall (A B : Type) (r1 r2 : res A) (f g : A -> res B),
  okeq r1 r2 -> (forall a, okeq (f a) (g a)) -> okeq (bind r1 f) (bind r2 g).
Proof.
  intros A B r1 r2 f g H Hf v. rewrite !bind_ok. split; intros (a & Ha & Hv); exists a; split.
  - apply H; assumption.
  - apply Hf; assumption.
  - apply H; assumption.
  - apply Hf; assumption.
Qed.

Lemma bind_assoc : forall (A B C : Type) (r : res A) (f : A -> res B) (g : B -> res C),
  bind (bind r f) g = bind r (fun a => bind (f a) g).
Proof. intros. destruct r; reflexivity. Qed.

(* independent computations commute as far as successful results are concerned *)
Lemma okeq_swap : forall (A B C : Type) (ra : res A) (rb : res B) (k : A -> B -> res C),
  okeq (bind rb (fun b => bind ra (fun a => k a b))) (bind ra (fun a => bind rb (fun b => k a b))).
Proof. intros. destruct ra, rb; simpl; try apply okeq_refl; intro v; split; discriminate. Qed.

Lemma mapM_okeq : forall (A B : Type) (f g : A -> res B) (l : list A),
  Forall (fun x => okeq (f x) (g x)) l -> okeq (mapM f l) (mapM g l).
Proof.
  intros A B f g l H. induction H as [|x l Hx Hl IH]; [apply okeq_refl|].
  simpl. apply okeq_bind; [assumption|]. intro y. apply okeq_bind; [assumption|]. intro; apply okeq_refl.
Qed.

Lemma mapM_map : forall (A B C : Type) (h : A -> B) (f : B -> res C) (l : list A),
  mapM f (map h l) = mapM (fun x => f (h x)) l.
Proof. intros. induction l as [|x l IH]; [reflexivity|]. simpl. rewrite IH. reflexivity. Qed.

Lemma mapM_app1 : forall (A B : Type) (f : A -> res B) (l : list A) (x : A),
  mapM f (l ++ [x]) = bind (mapM f l) (fun ys => bind (f x) (fun y => Ok (ys ++ [y]))).
Proof.
  intros A B f l x. induction l as [|a l IH]; simpl.
  - destruct (f x); reflexivity.
  - rewrite IH. destruct (f a); simpl; [|reflexivity].
    destruct (mapM f l); simpl; [|reflexivity]. destruct (f x); reflexivity.
Qed.

Section EvalFlatten.
  Variable E : env.

  Definition aop (o : addop) : val -> val -> res val := match o with OpAdd => vadd | OpSub => vsub end.
  Definition mop (o : mulop) : val -> val -> res val := match o with OpMul => vmul | OpDiv => vdiv end.

  Lemma eval_wrap : forall need e t, eval E (wrap need e t) = eval E t.
  Proof. intros. unfold wrap. destruct (need <=? elevel e); reflexivity. Qed.

  Lemma sum_fold_snoc : forall vr acc o b,
    sum_fold acc (vr ++ [(o, b)]) = bind (sum_fold acc vr) (fun a => aop o a b).
  Proof.
    induction vr as [|[o' v] vr IH]; intros acc o b; simpl.
    - destruct o; simpl; destruct (_ acc b); reflexivity.
    - destruct o'; simpl; [destruct (vadd acc v)|destruct (vsub acc v)]; simpl; auto.
  Qed.

  Lemma prod_fold_snoc : forall vr acc o b,
    prod_fold acc (vr ++ [(o, b)]) = bind (prod_fold acc vr) (fun a => mop o a b).
  Proof.
    induction vr as [|[o' v] vr IH]; intros acc o b; simpl.
    - destruct o; simpl; destruct (_ acc b); reflexivity.
    - destruct o'; simpl; [destruct (vmul acc v)|destruct (vdiv acc v)]; simpl; auto.
  Qed.

  Lemma eval_sum_snoc : forall t o u,
    okeq (eval E (sum_snoc t o u))
         (bind (eval E t) (fun a => bind (eval E u) (fun b => aop o a b))).
  Proof.
    intros t o u.
    assert (Hgen : eval E (Sum false t [(o, u)]) = bind (eval E t) (fun a => bind (eval E u) (fun b => aop o a b))).
    { simpl. destruct (eval E t) as [a|]; [|reflexivity]. simpl. destruct (eval E u) as [b|]; [|reflexivity].
      simpl. destruct o; simpl; destruct (_ a b); reflexivity. }
    destruct t; try (apply okeq_of_eq; exact Hgen).
    (* t is itself a flat sum: the new operand is appended *)
    clear Hgen. cbn [sum_snoc].
    change (eval E (Sum lead t (rest ++ [(o, u)]))) with
      (bind (eval E t) (fun vf =>
       bind (mapM (fun p : addop * tree => bind (eval E (snd p)) (fun v => Ok (fst p, v))) (rest ++ [(o, u)]))
            (fun vr => sum_fold vf vr))).
    change (eval E (Sum lead t rest)) with
      (bind (eval E t) (fun vf =>
       bind (mapM (fun p : addop * tree => bind (eval E (snd p)) (fun v => Ok (fst p, v))) rest)
            (fun vr => sum_fold vf vr))).
    rewrite mapM_app1. cbn [fst snd].
    destruct (eval E t) as [vf|]; [|apply okeq_refl]. cbn [bind].
    destruct (mapM _ rest) as [vr|]; cbn [bind].
    - destruct (eval E u) as [b|]; cbn [bind].
      + rewrite sum_fold_snoc. apply okeq_refl.
      + destruct (sum_fold vf vr); cbn [bind]; intro v; split; discriminate.
    - apply okeq_refl.
  Qed.

  Lemma eval_prod_snoc : forall t o u,
    okeq (eval E (prod_snoc t o u))
         (bind (eval E t) (fun a => bind (eval E u) (fun b => mop o a b))).
  Proof.
    intros t o u.
    assert (Hgen : eval E (Prod t [(o, u)]) = bind (eval E t) (fun a => bind (eval E u) (fun b => mop o a b))).
    { simpl. destruct (eval E t) as [a|]; [|reflexivity]. simpl. destruct (eval E u) as [b|]; [|reflexivity].
      simpl. destruct o; simpl; destruct (_ a b); reflexivity. }
    destruct t; try (apply okeq_of_eq; exact Hgen).
    clear Hgen. cbn [prod_snoc].
    change (eval E (Prod t (rest ++ [(o, u)]))) with
      (bind (eval E t) (fun vf =>
       bind (mapM (fun p : mulop * tree => bind (eval E (snd p)) (fun v => Ok (fst p, v))) (rest ++ [(o, u)]))
            (fun vr => prod_fold vf vr))).
    change (eval E (Prod t rest)) with
      (bind (eval E t) (fun vf =>
       bind (mapM (fun p : mulop * tree => bind (eval E (snd p)) (fun v => Ok (fst p, v))) rest)
            (fun vr => prod_fold vf vr))).
    rewrite mapM_app1. cbn [fst snd].
    destruct (eval E t) as [vf|]; [|apply okeq_refl]. cbn [bind].
    destruct (mapM _ rest) as [vr|]; cbn [bind].
    - destruct (eval E u) as [b|]; cbn [bind].
      + rewrite prod_fold_snoc. apply okeq_refl.
      + destruct (prod_fold vf vr); cbn [bind]; intro v; split; discriminate.
    - apply okeq_refl.
  Qed.

  Lemma eval_pow_cons : forall b sg u,
    eval E (pow_cons b sg u) =
    bind (eval E b) (fun vb => bind (eval E u) (fun ve =>
    bind (if sg then vneg ve else Ok ve) (fun e' => vpow vb e'))).
  Proof.
    intros b sg u.
    assert (Hgen : eval E (Pow b [(sg, u)]) =
                   bind (eval E b) (fun vb => bind (eval E u) (fun ve =>
                   bind (if sg then vneg ve else Ok ve) (fun e' => vpow vb e')))).
    { simpl. destruct (eval E b) as [vb|]; [|reflexivity]. simpl. destruct (eval E u) as [ve|]; reflexivity. }
    destruct u; try exact Hgen.
    clear Hgen. cbn [pow_cons].
    change (eval E (Pow b ((sg, u) :: rest))) with
      (bind (eval E b) (fun vb =>
       bind (mapM (fun p : bool * tree => bind (eval E (snd p)) (fun v => Ok (fst p, v))) ((sg, u) :: rest))
            (fun vr => pow_tower vb vr))).
    change (eval E (Pow u rest)) with
      (bind (eval E u) (fun vb =>
       bind (mapM (fun p : bool * tree => bind (eval E (snd p)) (fun v => Ok (fst p, v))) rest)
            (fun vr => pow_tower vb vr))).
    cbn [mapM fst snd].
    destruct (eval E b) as [vb|]; [|reflexivity]. cbn [bind].
    destruct (eval E u) as [v2|]; [|reflexivity]. cbn [bind].
    destruct (mapM _ rest) as [vr2|]; reflexivity.
  Qed.

  Lemma eval_flatten_pow : forall a b,
    eval E (flatten (EPow a b)) =
    bind (eval E (flatten a)) (fun x => bind (eval E (flatten b)) (fun y => vpow x y)).
  Proof.
    intros a b.
    assert (Hother : eval E (pow_cons (wrap 5 a (flatten a)) false (wrap 4 b (flatten b))) =
                     bind (eval E (flatten a)) (fun x => bind (eval E (flatten b)) (fun y => vpow x y))).
    { rewrite eval_pow_cons, !eval_wrap.
      destruct (eval E (flatten a)); [|reflexivity]. simpl. destruct (eval E (flatten b)); reflexivity. }
    destruct b; try (rewrite flatten_EPow_other by exact I; exact Hother).
    rewrite flatten_EPow_neg. destruct (4 <=? elevel b) eqn:C; [|exact Hother].
    rewrite eval_pow_cons, eval_wrap.
    change (eval E (flatten (ENeg b))) with (bind (eval E (wrap 4 b (flatten b))) vneg).
    rewrite eval_wrap.
    destruct (eval E (flatten a)); [|reflexivity]. simpl. destruct (eval E (flatten b)); [|reflexivity].
    simpl. destruct (vneg a1); reflexivity.
  Qed.

  Theorem eval_flatten : forall e, wf_expr e = true -> okeq (eval E (flatten e)) (denote E e).
  Proof.
    induction e using expr_ind'; intro Wf; simpl in Wf.
    - apply okeq_refl.
    - apply okeq_refl.
    - apply andb_true_iff in Wf. destruct Wf as [_ Wa].
      simpl. rewrite mapM_map. apply okeq_bind; [|intro; apply okeq_refl].
      apply mapM_okeq. rewrite Forall_forall in *. rewrite forallb_forall in Wa. intros x Hx. apply H; auto.
    - apply andb_true_iff in Wf. destruct Wf as [_ Wa].
      simpl. rewrite mapM_map. apply okeq_bind; [|intro; apply okeq_refl].
      apply mapM_okeq. rewrite Forall_forall in *. rewrite forallb_forall in Wa. intros x Hx. apply H; auto.
    - simpl. apply IHe. assumption.
    - apply andb_true_iff in Wf. destruct Wf as [Wa Wb]. simpl flatten.
      eapply okeq_trans; [apply eval_sum_snoc|]. rewrite eval_wrap. simpl denote.
      apply okeq_bind; [apply IHe1; assumption|]. intro x. apply okeq_bind; [apply IHe2; assumption|].
      intro; apply okeq_refl.
    - apply andb_true_iff in Wf. destruct Wf as [Wa Wb]. simpl flatten.
      eapply okeq_trans; [apply eval_sum_snoc|]. rewrite eval_wrap. simpl denote.
      apply okeq_bind; [apply IHe1; assumption|]. intro x. apply okeq_bind; [apply IHe2; assumption|].
      intro; apply okeq_refl.
    - apply andb_true_iff in Wf. destruct Wf as [Wa Wb]. simpl flatten.
      eapply okeq_trans; [apply eval_prod_snoc|]. rewrite !eval_wrap. simpl denote.
      apply okeq_bind; [apply IHe1; assumption|]. intro x. apply okeq_bind; [apply IHe2; assumption|].
      intro; apply okeq_refl.
    - apply andb_true_iff in Wf. destruct Wf as [Wa Wb]. simpl flatten.
      eapply okeq_trans; [apply eval_prod_snoc|]. rewrite !eval_wrap. simpl denote.
      apply okeq_bind; [apply IHe1; assumption|]. intro x. apply okeq_bind; [apply IHe2; assumption|].
      intro; apply okeq_refl.
    - apply andb_true_iff in Wf. destruct Wf as [Wn Wa].
      destruct l as [|a [|b l]]; simpl in Wn; try discriminate.
      assert (Hall : Forall (fun e => okeq (eval E (wrap 3 e (flatten e))) (denote E e)) (a :: b :: l)).
      { rewrite Forall_forall in *. rewrite forallb_forall in Wa. intros x Hx. rewrite eval_wrap. apply H; auto. }
      inversion Hall as [|? ? Ha Hall']; subst.
      simpl flatten. cbn [mk_par].
      change (eval E (Par (wrap 3 a (flatten a)) (wrap 3 b (flatten b) :: map (fun e => wrap 3 e (flatten e)) l)))
        with (bind (eval E (wrap 3 a (flatten a))) (fun vf =>
              bind (mapM (eval E) (map (fun e => wrap 3 e (flatten e)) (b :: l))) (fun vr => vpar (vf :: vr)))).
      rewrite mapM_map.
      change (denote E (EPar (a :: b :: l))) with
        (bind (bind (denote E a) (fun y => bind (mapM (denote E) (b :: l)) (fun ys => Ok (y :: ys)))) vpar).
      rewrite bind_assoc. apply okeq_bind; [assumption|]. intro y.
      rewrite bind_assoc. apply okeq_bind; [apply mapM_okeq; assumption|]. intro ys. apply okeq_refl.
    - simpl. rewrite eval_wrap. apply okeq_bind; [apply IHe; assumption|intro; apply okeq_refl].
    - simpl flatten.
      change (eval E (Sum true (wrap 1 e (flatten e)) [])) with
        (bind (eval E (wrap 1 e (flatten e))) (fun vf => Ok vf)).
      rewrite eval_wrap. simpl denote. intro v. rewrite <- (IHe Wf v).
      destruct (eval E (flatten e)); simpl; reflexivity.
    - apply andb_true_iff in Wf. destruct Wf as [Wa Wb].
      rewrite eval_flatten_pow. simpl denote.
      apply okeq_bind; [apply IHe1; assumption|]. intro x. apply okeq_bind; [apply IHe2; assumption|].
      intro; apply okeq_refl.
  Qed.

  (* the composed statement: parse the rendering, evaluate, get the documented value *)
  Theorem eval_parse_render : forall e v, wf_expr e = true ->
    (exists t, parse_tokens (render e) = Some t /\ eval E t = Ok v) <-> denote E e = Ok v.
  Proof.
    intros e v Wf. rewrite <- (eval_flatten e Wf v). split.
    - intros (t & Hp & Hv). rewrite (parse_render e Wf) in Hp. inversion Hp; subst. assumption.
    - intro Hv. exists (flatten e). split; [apply parse_render; assumption|assumption].
  Qed.

  (* redundant parentheses never change the value *)
  Lemma mapM_map_ext : forall (A B C : Type) (h : A -> B) (f : B -> res C) (g : A -> res C) (l : list A),
    Forall (fun x => f (h x) = g x) l -> mapM f (map h l) = mapM g l.
  Proof.
    intros A B C h f g l H. induction H as [|x l Hx Hl IH]; [reflexivity|].
    cbn [map]. change (mapM f (h x :: map h l)) with (bind (f (h x)) (fun y => bind (mapM f (map h l)) (fun ys => Ok (y :: ys)))).
    rewrite Hx, IH. reflexivity.
  Qed.

  Theorem denote_strip_parens : forall e, denote E (strip_parens e) = denote E e.
  Proof.
    induction e using expr_ind'; cbn [strip_parens denote]; rewrite ?IHe, ?IHe1, ?IHe2; try reflexivity.
    - rewrite (mapM_map_ext _ _ _ strip_parens (denote E) (denote E) _ H). reflexivity.
    - rewrite (mapM_map_ext _ _ _ strip_parens (denote E) (denote E) _ H). reflexivity.
    - rewrite (mapM_map_ext _ _ _ strip_parens (denote E) (denote E) _ H). reflexivity.
  Qed.
End EvalFlatten.
