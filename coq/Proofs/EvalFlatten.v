(* EvalFlatten.v -- the flat tree of a derivation is well formed (hence parse (render e) = flatten e),
   and evaluating it gives the documented recursive semantics. *)
From Coq Require Import ZArith QArith List Bool Lia Arith.
From Verif.Model Require Import Result Lexer Parser Eval EvalSpec.
From Verif.Proofs Require Import ParserRoundTrip.
Import ListNotations.
Local Open Scope nat_scope.

(* ---------- induction principle for expr ---------- *)
Section expr_ind'.
  Variable P : expr -> Prop.
  Hypothesis HNum : forall x s, P (ENum x s).
  Hypothesis HVar : forall n, P (EVar n).
  Hypothesis HApp : forall f args, Forall P args -> P (EApp f args).
  Hypothesis HArr : forall items, Forall P items -> P (EArr items).
  Hypothesis HParen : forall e, P e -> P (EParen e).
  Hypothesis HAdd : forall a b, P a -> P b -> P (EAdd a b).
  Hypothesis HSub : forall a b, P a -> P b -> P (ESub a b).
  Hypothesis HMul : forall a b, P a -> P b -> P (EMul a b).
  Hypothesis HDiv : forall a b, P a -> P b -> P (EDiv a b).
  Hypothesis HPar : forall l, Forall P l -> P (EPar l).
  Hypothesis HNeg : forall a, P a -> P (ENeg a).
  Hypothesis HPos : forall a, P a -> P (EPos a).
  Hypothesis HPow : forall a b, P a -> P b -> P (EPow a b).

  Fixpoint expr_ind' (e : expr) : P e :=
    let go := fix go (l : list expr) : Forall P l :=
                match l with [] => Forall_nil _ | x :: r => Forall_cons _ (expr_ind' x) (go r) end in
    match e with
    | ENum x s => HNum x s
    | EVar n => HVar n
    | EApp f args => HApp f args (go args)
    | EArr items => HArr items (go items)
    | EParen e => HParen e (expr_ind' e)
    | EAdd a b => HAdd a b (expr_ind' a) (expr_ind' b)
    | ESub a b => HSub a b (expr_ind' a) (expr_ind' b)
    | EMul a b => HMul a b (expr_ind' a) (expr_ind' b)
    | EDiv a b => HDiv a b (expr_ind' a) (expr_ind' b)
    | EPar l => HPar l (go l)
    | ENeg a => HNeg a (expr_ind' a)
    | EPos a => HPos a (expr_ind' a)
    | EPow a b => HPow a b (expr_ind' a) (expr_ind' b)
    end.
End expr_ind'.

(* ---------- flatten produces well-formed trees of the documented level ---------- *)
Definition good (need : nat) (t : tree) : Prop := wfb t = true /\ need <= tlevel t.

Lemma wrap_good : forall need e, need <= 5 ->
  wfb (flatten e) = true -> tlevel (flatten e) = elevel e -> good need (wrap need e (flatten e)).
Proof.
  intros need e H5 W L. unfold wrap. destruct (need <=? elevel e) eqn:C.
  - apply Nat.leb_le in C. split; [assumption|lia].
  - split; [simpl; assumption|simpl; assumption].
Qed.

Lemma forallb_app1 : forall (A : Type) (f : A -> bool) l x,
  forallb f l = true -> f x = true -> forallb f (l ++ [x]) = true.
Proof. intros. rewrite forallb_app. simpl. rewrite H, H0. reflexivity. Qed.

Lemma forallb_single : forall (A : Type) (f : A -> bool) x, f x = true -> forallb f [x] = true.
Proof. intros. simpl. rewrite H. reflexivity. Qed.

Lemma item_true : forall (A : Type) lvl (o : A) u, (lvl <=? tlevel u) = true -> wfb u = true ->
  (fun p : A * tree => (lvl <=? tlevel (snd p)) && wfb (snd p)) (o, u) = true.
Proof. intros. cbn [snd]. rewrite H, H0. reflexivity. Qed.

Lemma forallb_item1 : forall (A : Type) lvl (o : A) u, (lvl <=? tlevel u) = true -> wfb u = true ->
  forallb (fun p : A * tree => (lvl <=? tlevel (snd p)) && wfb (snd p)) [(o, u)] = true.
Proof. intros. cbn [forallb snd]. rewrite H, H0. reflexivity. Qed.

Lemma forallb_item_snoc : forall (A : Type) lvl (o : A) u l, (lvl <=? tlevel u) = true -> wfb u = true ->
  forallb (fun p : A * tree => (lvl <=? tlevel (snd p)) && wfb (snd p)) l = true ->
  forallb (fun p : A * tree => (lvl <=? tlevel (snd p)) && wfb (snd p)) (l ++ [(o, u)]) = true.
Proof. intros. rewrite forallb_app, H1. apply forallb_item1; assumption. Qed.

Ltac split_goal := apply andb_true_iff; split; [apply andb_true_iff; split; [apply andb_true_iff; split|]|].

Lemma sum_snoc_wf : forall t o u, wfb t = true -> good 1 u ->
  wfb (sum_snoc t o u) = true /\ tlevel (sum_snoc t o u) = 0.
Proof.
  intros t o u W [Wu Lu]. apply Nat.leb_le in Lu.
  destruct t; simpl sum_snoc; (split; [|reflexivity]); rewrite wfb_Sum;
    try (split_goal; first [reflexivity | assumption | apply forallb_item1; assumption]).
  rewrite wfb_Sum in W. split_wf W. split_goal; try assumption.
  - destruct rest; simpl; rewrite ?orb_true_r; reflexivity.
  - apply forallb_item_snoc; assumption.
Qed.

Lemma prod_snoc_wf : forall t o u, good 1 t -> good 2 u ->
  wfb (prod_snoc t o u) = true /\ tlevel (prod_snoc t o u) = 1.
Proof.
  intros t o u [W L] [Wu Lu]. apply Nat.leb_le in Lu.
  destruct t; simpl prod_snoc; (split; [|reflexivity]); rewrite wfb_Prod;
    try (simpl in L; lia);
    try (split_goal; first [reflexivity | assumption | apply forallb_item1; assumption]).
  rewrite wfb_Prod in W. split_wf W. split_goal; try assumption.
  - destruct rest; reflexivity.
  - apply forallb_item_snoc; assumption.
Qed.

Lemma pow_cons_wf : forall b sg u, good 5 b -> good 4 u ->
  wfb (pow_cons b sg u) = true /\ tlevel (pow_cons b sg u) = 4.
Proof.
  intros b sg u [Wb Lb] [Wu Lu]. apply Nat.leb_le in Lb.
  destruct u; simpl pow_cons; (split; [|reflexivity]); rewrite wfb_Pow;
    try (simpl in Lu; lia);
    try (split_goal; first [reflexivity | assumption | apply forallb_item1; [reflexivity|assumption]]).
  rewrite wfb_Pow in Wu. split_wf Wu. split_goal; try assumption; try reflexivity.
  simpl forallb. cbn [snd]. rewrite W1, W0, W. reflexivity.
Qed.

Lemma flatten_good : forall e, wf_expr e = true ->
  wfb (flatten e) = true /\ tlevel (flatten e) = elevel e.
Proof.
  induction e using expr_ind'; intro Wf; simpl in Wf.
  - split; reflexivity.
  - split; reflexivity.
  - apply andb_true_iff in Wf. destruct Wf as [Wn Wa]. split; [|reflexivity].
    simpl flatten. rewrite wfb_Fun. apply andb_true_iff. split.
    + destruct args; [discriminate|reflexivity].
    + rewrite forallb_forall in *. intros t Ht. apply in_map_iff in Ht. destruct Ht as (e & <- & He).
      rewrite Forall_forall in H. apply H; auto.
  - apply andb_true_iff in Wf. destruct Wf as [Wn Wa]. split; [|reflexivity].
    simpl flatten. rewrite wfb_Arr. apply andb_true_iff. split.
    + destruct items; [discriminate|reflexivity].
    + rewrite forallb_forall in *. intros t Ht. apply in_map_iff in Ht. destruct Ht as (e & <- & He).
      rewrite Forall_forall in H. apply H; auto.
  - destruct (IHe Wf). split; [assumption|reflexivity].
  - apply andb_true_iff in Wf. destruct Wf as [Wa Wb].
    destruct (IHe1 Wa) as [A1 A2]. destruct (IHe2 Wb) as [B1 B2].
    simpl flatten. apply sum_snoc_wf; [assumption|apply wrap_good; auto].
  - apply andb_true_iff in Wf. destruct Wf as [Wa Wb].
    destruct (IHe1 Wa) as [A1 A2]. destruct (IHe2 Wb) as [B1 B2].
    simpl flatten. apply sum_snoc_wf; [assumption|apply wrap_good; auto].
  - apply andb_true_iff in Wf. destruct Wf as [Wa Wb].
    destruct (IHe1 Wa) as [A1 A2]. destruct (IHe2 Wb) as [B1 B2].
    simpl flatten. apply prod_snoc_wf; apply wrap_good; auto.
  - apply andb_true_iff in Wf. destruct Wf as [Wa Wb].
    destruct (IHe1 Wa) as [A1 A2]. destruct (IHe2 Wb) as [B1 B2].
    simpl flatten. apply prod_snoc_wf; apply wrap_good; auto.
  - apply andb_true_iff in Wf. destruct Wf as [Wn Wa]. apply Nat.leb_le in Wn.
    assert (G : Forall (good 3) (map (fun e => wrap 3 e (flatten e)) l)).
    { rewrite Forall_forall in *. intros t Ht. apply in_map_iff in Ht. destruct Ht as (e & <- & He).
      rewrite forallb_forall in Wa. destruct (H e He (Wa e He)). apply wrap_good; auto. }
    simpl flatten. destruct l as [|a [|b l]]; simpl in Wn; try lia.
    simpl map in *. inversion G as [|? ? [Ga1 Ga2] G']; subst.
    simpl mk_par. split; [|reflexivity]. rewrite wfb_Par.
    apply Nat.leb_le in Ga2. rewrite Ga1, Ga2. simpl nonempty. simpl andb.
    rewrite forallb_forall. intros t Ht. rewrite Forall_forall in G'. destruct (G' t Ht) as [G1 G2].
    apply Nat.leb_le in G2. rewrite G1, G2. reflexivity.
  - destruct (IHe Wf) as [A1 A2]. split; [|reflexivity]. simpl flatten. rewrite wfb_Neg.
    destruct (wrap_good 4 e ltac:(lia) A1 A2) as [G1 G2]. apply Nat.leb_le in G2. rewrite G1, G2. reflexivity.
  - destruct (IHe Wf) as [A1 A2]. split; [|reflexivity]. simpl flatten. rewrite wfb_Sum.
    destruct (wrap_good 1 e ltac:(lia) A1 A2) as [G1 G2]. apply Nat.leb_le in G2. rewrite G1, G2. reflexivity.
  - apply andb_true_iff in Wf. destruct Wf as [Wa Wb].
    destruct (IHe1 Wa) as [A1 A2]. destruct (IHe2 Wb) as [B1 B2].
    assert (Gb : good 5 (wrap 5 e1 (flatten e1))) by (apply wrap_good; auto).
    assert (Gw : good 4 (wrap 4 e2 (flatten e2))) by (apply wrap_good; auto).
    simpl flatten. destruct e2; try (apply pow_cons_wf; assumption).
    destruct (4 <=? elevel e2) eqn:C; [|apply pow_cons_wf; assumption].
    apply Nat.leb_le in C. apply pow_cons_wf; [assumption|].
    (* the exponent -b' with b' a power or an atom: the sign is absorbed by the power node *)
    simpl in B1. rewrite wfb_Neg in B1. split_wf B1.
    unfold wrap in B0. destruct (4 <=? elevel e2) eqn:C'; [|apply Nat.leb_nle in C'; lia].
    split; [assumption|]. simpl in Wb.
    unfold wrap in B1. rewrite C' in B1. apply Nat.leb_le in B1. assumption.
Qed.

Theorem flatten_wf : forall e, wf_expr e = true -> wfb (flatten e) = true.
Proof. intros e H. apply flatten_good. assumption. Qed.

(* parsing the rendering of any derivation gives back exactly its flat tree *)
Theorem parse_render : forall e, wf_expr e = true -> parse_tokens (render e) = Some (flatten e).
Proof. intros e H. apply parse_print, flatten_wf, H. Qed.
