(* Proofs/ItemCheck.v -- lemmas about the ItemGrader.check model (C08).
   Everything is proved for an arbitrary check_response oracle `cr`, arbitrary types of expect values,
   inputs and exceptions, and lists of alternatives of any length. *)
From Coq Require Import ZArith QArith Lia Lqa List Bool Permutation Arith.
From Verif.Lib Require Import QRound.
From Verif.Model Require Import Result ItemCheck.
From Verif.Proofs Require Import Credit.
Import ListNotations.
Open Scope Q_scope.

(* ---------------------------------------------------------------------------------------------
   the two max() scans
   --------------------------------------------------------------------------------------------- *)
Lemma max_grade_ge_cur : forall rs cur, cur <= max_grade cur rs.
Proof.
  induction rs as [|r t IH]; intro cur; simpl; [lra|].
  destruct (Qltb cur (e_grade r)) eqn:C; qbool.
  - specialize (IH (e_grade r)). lra.
  - apply IH.
Qed.

Lemma max_grade_ge_all : forall rs cur r, In r rs -> e_grade r <= max_grade cur rs.
Proof.
  induction rs as [|r0 t IH]; intros cur r H; simpl in *; [contradiction|].
  destruct H as [<- | H].
  - destruct (Qltb cur (e_grade r0)) eqn:C; qbool.
    + apply max_grade_ge_cur.
    + pose proof (max_grade_ge_cur t cur). lra.
  - apply IH. exact H.
Qed.

Lemma max_grade_in : forall rs cur,
  max_grade cur rs = cur \/ exists r, In r rs /\ max_grade cur rs = e_grade r.
Proof.
  induction rs as [|r0 t IH]; intro cur; simpl; [left; reflexivity|].
  destruct (Qltb cur (e_grade r0)) eqn:C.
  - right. destruct (IH (e_grade r0)) as [E | [r [Hin E]]].
    + exists r0. split; [left; reflexivity | exact E].
    + exists r. split; [right; exact Hin | exact E].
  - destruct (IH cur) as [E | [r [Hin E]]].
    + left. exact E.
    + right. exists r. split; [right; exact Hin | exact E].
Qed.

Lemma longest_ge_cur : forall rs cur, (length (e_msg cur) <= length (e_msg (longest cur rs)))%nat.
Proof.
  induction rs as [|r t IH]; intro cur; simpl; [lia|].
  destruct (length (e_msg cur) <? length (e_msg r))%nat eqn:C.
  - apply Nat.ltb_lt in C. specialize (IH r). lia.
  - apply IH.
Qed.

Lemma longest_ge_all : forall rs cur r, In r rs -> (length (e_msg r) <= length (e_msg (longest cur rs)))%nat.
Proof.
  induction rs as [|r0 t IH]; intros cur r H; simpl in *; [contradiction|].
  destruct H as [<- | H].
  - destruct (length (e_msg cur) <? length (e_msg r0))%nat eqn:C.
    + apply longest_ge_cur.
    + apply Nat.ltb_ge in C. pose proof (longest_ge_cur t cur). lia.
  - apply IH. exact H.
Qed.

Lemma longest_in : forall rs cur, longest cur rs = cur \/ In (longest cur rs) rs.
Proof.
  induction rs as [|r0 t IH]; intro cur; simpl; [left; reflexivity|].
  destruct (length (e_msg cur) <? length (e_msg r0))%nat.
  - right. destruct (IH r0) as [E | H]; [left; symmetry; exact E | right; exact H].
  - destruct (IH cur) as [E | H]; [left; exact E | right; right; exact H].
Qed.

(* Python's max returns the FIRST item of maximal key: everything listed before the chosen one is
   strictly shorter.  (The property leaves the choice among equally long messages open; the code
   resolves it by listing order, and this lemma says exactly how.) *)
Lemma longest_first : forall rs cur,
  exists pre post, cur :: rs = pre ++ longest cur rs :: post /\
    forall r, In r pre -> (length (e_msg r) < length (e_msg (longest cur rs)))%nat.
Proof.
  induction rs as [|r0 t IH]; intro cur; simpl.
  - exists [], []. split; [reflexivity | intros r []].
  - destruct (length (e_msg cur) <? length (e_msg r0))%nat eqn:C.
    + destruct (IH r0) as [pre [post [E H]]]. exists (cur :: pre), post. split.
      * simpl. rewrite <- E. reflexivity.
      * intros r [<- | Hin]; [| apply H; exact Hin].
        apply Nat.ltb_lt in C. pose proof (longest_ge_cur t r0). lia.
    + destruct (IH cur) as [pre [post [E H]]].
      destruct pre as [|p pre'].
      * simpl in E. injection E as E1 E2. exists [], (r0 :: post). split.
        -- simpl. rewrite <- E1. rewrite <- E2. reflexivity.
        -- intros r [].
      * simpl in E. injection E as E1 E2. subst p.
        apply Nat.ltb_ge in C.
        assert (Hc : (length (e_msg cur) < length (e_msg (longest cur t)))%nat) by (apply H; left; reflexivity).
        exists (cur :: r0 :: pre'), post. split.
        -- simpl. f_equal. f_equal. exact E2.
        -- intros r [<- | [<- | Hin]]; [exact Hc | lia | apply H; right; exact Hin].
Qed.

(* ---------------------------------------------------------------------------------------------
   select
   --------------------------------------------------------------------------------------------- *)
Lemma Qeq_bool_refl' : forall q, Qeq_bool q q = true.
Proof. intro q. apply Qeq_bool_iff. reflexivity. Qed.

Lemma Qeq_bool_comp0 : forall a b, a == b -> Qeq_bool a 0 = Qeq_bool b 0.
Proof.
  intros a b H. destruct (Qeq_bool a 0) eqn:A; destruct (Qeq_bool b 0) eqn:B; try reflexivity; qbool; exfalso.
  - apply B. rewrite <- H. exact A.
  - apply A. rewrite H. exact B.
Qed.

Lemma select_some : forall rs, rs <> [] -> exists s, select rs = Some s.
Proof.
  intros [|r0 t] H; [congruence|]. unfold select.
  set (best := max_grade (e_grade r0) t).
  destruct (filter (fun r => Qeq_bool (e_grade r) best) (r0 :: t)) as [|b0 bt] eqn:F.
  - exfalso. destruct (max_grade_in t (e_grade r0)) as [E | [r [Hin E]]]; fold best in E.
    + assert (Hf : In r0 (filter (fun r => Qeq_bool (e_grade r) best) (r0 :: t))).
      { apply filter_In. split; [left; reflexivity | rewrite E; apply Qeq_bool_refl']. }
      rewrite F in Hf. exact Hf.
    + assert (Hf : In r (filter (fun r => Qeq_bool (e_grade r) best) (r0 :: t))).
      { apply filter_In. split; [right; exact Hin | rewrite E; apply Qeq_bool_refl']. }
      rewrite F in Hf. exact Hf.
  - eexists. reflexivity.
Qed.

Lemma select_none : forall rs, select rs = None -> rs = [].
Proof.
  intros rs H. destruct rs as [|r0 t]; [reflexivity|].
  destruct (select_some (r0 :: t)) as [s Hs]; [discriminate | congruence].
Qed.

Lemma select_spec : forall rs s, select rs = Some s ->
  In (sel_chosen s) rs /\
  e_grade (sel_chosen s) == sel_best s /\
  (forall r, In r rs -> e_grade r <= sel_best s) /\
  (forall r, In r rs -> e_grade r == sel_best s ->
             (length (e_msg r) <= length (e_msg (sel_chosen s)))%nat) /\
  sel_subst s = is_empty (e_msg (sel_chosen s)) && Qeq_bool (sel_best s) 0.
Proof.
  intros [|r0 t] s H; [discriminate|]. unfold select in H.
  set (best := max_grade (e_grade r0) t) in *.
  destruct (filter (fun r => Qeq_bool (e_grade r) best) (r0 :: t)) as [|b0 bt] eqn:F; [discriminate|].
  injection H as <-. simpl sel_best. simpl sel_chosen. simpl sel_subst.
  assert (Hch : In (longest b0 bt) (b0 :: bt)).
  { destruct (longest_in bt b0) as [E | Hin]; [left; symmetry; exact E | right; exact Hin]. }
  rewrite <- F in Hch. apply filter_In in Hch. destruct Hch as [Hin Hq].
  split; [exact Hin|]. split; [qbool; exact Hq|]. split; [|split; [|reflexivity]].
  - intros r [<- | Hr].
    + apply max_grade_ge_cur.
    + apply max_grade_ge_all. exact Hr.
  - intros r Hr Hb.
    assert (Hf : In r (b0 :: bt)).
    { rewrite <- F. apply filter_In. split; [exact Hr | apply Qeq_bool_iff; exact Hb]. }
    destruct Hf as [<- | Hf]; [apply longest_ge_cur | apply longest_ge_all; exact Hf].
Qed.

(* the chosen result is the first, in listing order, among the best results of maximal message length *)
Lemma select_first : forall rs s, select rs = Some s ->
  exists pre post, filter (fun r => Qeq_bool (e_grade r) (sel_best s)) rs = pre ++ sel_chosen s :: post /\
    forall r, In r pre -> (length (e_msg r) < length (e_msg (sel_chosen s)))%nat.
Proof.
  intros [|r0 t] s H; [discriminate|]. unfold select in H.
  set (best := max_grade (e_grade r0) t) in *.
  destruct (filter (fun r => Qeq_bool (e_grade r) best) (r0 :: t)) as [|b0 bt] eqn:F; [discriminate|].
  injection H as <-. simpl sel_best. simpl sel_chosen. fold best. rewrite F. apply longest_first.
Qed.

(* ---------------------------------------------------------------------------------------------
   collect / check, for an arbitrary oracle
   --------------------------------------------------------------------------------------------- *)
Section Check.
  Variables TE TI TX : Type.
  Variable cr : single TE -> TI -> entry + TX.

  Lemma collect_inl : forall ss x rs, collect cr ss x = inl rs -> Forall2 (fun s r => cr s x = inl r) ss rs.
  Proof.
    induction ss as [|s t IH]; intros x rs H; simpl in H.
    - injection H as <-. constructor.
    - destruct (cr s x) as [r|e] eqn:C; [|discriminate].
      destruct (collect cr t x) as [rs'|e] eqn:C'; [|discriminate].
      injection H as <-. constructor; [exact C | apply IH; exact C'].
  Qed.

  Lemma collect_all_return : forall ss x,
    (forall s, In s ss -> exists r, cr s x = inl r) -> exists rs, collect cr ss x = inl rs.
  Proof.
    induction ss as [|s t IH]; intros x H; simpl.
    - eexists. reflexivity.
    - destruct (H s (or_introl eq_refl)) as [r Hr]. rewrite Hr.
      destruct (IH x) as [rs Hrs]; [intros s' Hs'; apply H; right; exact Hs'|].
      rewrite Hrs. eexists. reflexivity.
  Qed.

  Lemma collect_inr : forall ss x e, collect cr ss x = inr e ->
    exists pre s post, ss = pre ++ s :: post /\ cr s x = inr e /\
      forall s', In s' pre -> exists r, cr s' x = inl r.
  Proof.
    induction ss as [|s t IH]; intros x e H; simpl in H; [discriminate|].
    destruct (cr s x) as [r|e'] eqn:C.
    - destruct (collect cr t x) as [rs'|e''] eqn:C'; [discriminate|]. injection H as ->.
      destruct (IH x e C') as [pre [s0 [post [E [Hs0 Hpre]]]]].
      exists (s :: pre), s0, post. split; [simpl; rewrite E; reflexivity|]. split; [exact Hs0|].
      intros s' [<- | Hin]; [eexists; exact C | apply Hpre; exact Hin].
    - injection H as ->. exists [], s, t. split; [reflexivity|]. split; [exact C|]. intros s' [].
  Qed.

  Lemma Forall2_in_l : forall (A B : Type) (P : A -> B -> Prop) l l' a,
    Forall2 P l l' -> In a l -> exists b, In b l' /\ P a b.
  Proof.
    intros A B P l l' a H. induction H as [|a0 b0 l l' H0 H IH]; intros Hin; [contradiction|].
    destruct Hin as [<- | Hin].
    - exists b0. split; [left; reflexivity | exact H0].
    - destruct (IH Hin) as [b [Hb Pb]]. exists b. split; [right; exact Hb | exact Pb].
  Qed.

  Lemma Forall2_in_r : forall (A B : Type) (P : A -> B -> Prop) l l' b,
    Forall2 P l l' -> In b l' -> exists a, In a l /\ P a b.
  Proof.
    intros A B P l l' b H. induction H as [|a0 b0 l l' H0 H IH]; intros Hin; [contradiction|].
    destruct Hin as [<- | Hin].
    - exists a0. split; [left; reflexivity | exact H0].
    - destruct (IH Hin) as [a [Ha Pa]]. exists a. split; [right; exact Ha | exact Pa].
  Qed.

  (* "the input earns result r against the single alternative s of the configured answers l" *)
  Definition earns (l : list (answer TE)) (x : TI) (s : single TE) (r : entry) : Prop :=
    In s (flatten l) /\ cr s x = inl r.

  (* r is a best result over the relation S, with wrong_msg wm applied *)
  Definition best_of (S : single TE -> entry -> Prop) (wm : str) (r : entry) : Prop :=
    exists s0 r0, S s0 r0 /\
      (forall s' r', S s' r' -> e_grade r' <= e_grade r0) /\
      (forall s' r', S s' r' -> e_grade r' == e_grade r0 ->
                     (length (e_msg r') <= length (e_msg r0))%nat) /\
      e_ok r = e_ok r0 /\ e_grade r = e_grade r0 /\
      e_msg r = if is_empty (e_msg r0) && Qeq_bool (e_grade r0) 0 then wm else e_msg r0.

  Theorem check_spec : forall wm l x r, check cr wm l x = Ret r -> best_of (earns l x) wm r.
  Proof.
    intros wm l x r H. unfold check in H.
    destruct l as [|a l']; [discriminate|].
    destruct (collect cr (flatten (a :: l')) x) as [rs|e] eqn:C; [|discriminate].
    destruct (select rs) as [s|] eqn:S; [|discriminate].
    injection H as <-.
    pose proof (collect_inl _ _ _ C) as F2.
    destruct (select_spec _ _ S) as [Hin [Hg [Hmax [Hlen Hsub]]]].
    destruct (Forall2_in_r _ _ _ _ _ _ F2 Hin) as [s0 [Hs0 Hcr]].
    exists s0, (sel_chosen s). split; [split; assumption|].
    split; [|split].
    - intros s' r' [Hs' Hr']. destruct (Forall2_in_l _ _ _ _ _ _ F2 Hs') as [r'' [Hr'' E]].
      rewrite Hr' in E. injection E as <-. rewrite Hg. apply Hmax. exact Hr''.
    - intros s' r' [Hs' Hr'] Hb. destruct (Forall2_in_l _ _ _ _ _ _ F2 Hs') as [r'' [Hr'' E]].
      rewrite Hr' in E. injection E as <-. apply Hlen; [exact Hr''|]. rewrite Hb. exact Hg.
    - unfold final. rewrite Hsub. rewrite (Qeq_bool_comp0 (sel_best s) (e_grade (sel_chosen s))) by (symmetry; exact Hg).
      destruct (is_empty (e_msg (sel_chosen s)) && Qeq_bool (e_grade (sel_chosen s)) 0); simpl; repeat split; reflexivity.
  Qed.

  (* when does check return at all *)
  Theorem check_returns_iff : forall wm l x,
    (exists r, check cr wm l x = Ret r) <->
    (flatten l <> [] /\ forall s, In s (flatten l) -> exists r, cr s x = inl r).
  Proof.
    intros wm l x. split.
    - intros [r H]. unfold check in H. destruct l as [|a l']; [discriminate|].
      destruct (collect cr (flatten (a :: l')) x) as [rs|e] eqn:C; [|discriminate].
      destruct (select rs) as [s|] eqn:S; [|discriminate].
      pose proof (collect_inl _ _ _ C) as F2. split.
      + intro E. rewrite E in F2. inversion F2; subst. discriminate.
      + intros s' Hs'. destruct (Forall2_in_l _ _ _ _ _ _ F2 Hs') as [r' [_ Hr']]. exists r'. exact Hr'.
    - intros [Hne Hall]. unfold check. destruct l as [|a l']; [exfalso; apply Hne; reflexivity|].
      destruct (collect_all_return _ x Hall) as [rs Hrs]. rewrite Hrs.
      destruct (select rs) as [s|] eqn:S; [eexists; reflexivity|].
      exfalso. apply select_none in S. subst rs. apply collect_inl in Hrs. inversion Hrs as [E|]. apply Hne. symmetry. exact E.
  Qed.

  Theorem check_no_answers : forall wm x, check cr wm [] x = NoAnswers.
  Proof. reflexivity. Qed.

  Theorem check_no_answers_iff : forall wm l x, check cr wm l x = NoAnswers <-> l = [].
  Proof.
    intros wm l x. split; [|intros ->; reflexivity].
    destruct l as [|a l']; [reflexivity|]. unfold check.
    destruct (collect cr (flatten (a :: l')) x); [destruct (select l)|]; discriminate.
  Qed.

  (* an exception escapes exactly when some alternative raises; it is the first one in listing order *)
  Theorem check_raised : forall wm l x e, check cr wm l x = Raised e ->
    exists pre s post, flatten l = pre ++ s :: post /\ cr s x = inr e /\
      forall s', In s' pre -> exists r, cr s' x = inl r.
  Proof.
    intros wm l x e H. unfold check in H. destruct l as [|a l']; [discriminate|].
    destruct (collect cr (flatten (a :: l')) x) as [rs|e'] eqn:C.
    - destruct (select rs); discriminate.
    - injection H as ->. apply collect_inr. exact C.
  Qed.

  Theorem check_raises_iff : forall wm l x,
    (exists e, check cr wm l x = Raised e) <-> (exists s e, In s (flatten l) /\ cr s x = inr e).
  Proof.
    intros wm l x. split.
    - intros [e H]. destruct (check_raised _ _ _ _ H) as [pre [s [post [E [Hs _]]]]].
      exists s, e. split; [rewrite E; apply in_or_app; right; left; reflexivity | exact Hs].
    - intros [s [e [Hin Hs]]]. unfold check. destruct l as [|a l']; [contradiction|].
      destruct (collect cr (flatten (a :: l')) x) as [rs|e'] eqn:C; [|eexists; reflexivity].
      exfalso. apply collect_inl in C. destruct (Forall2_in_l _ _ _ _ _ _ C Hin) as [r [_ Hr]]. congruence.
  Qed.

  (* ---------- the statement of the property, in the words of its text ---------- *)

  (* the returned grade is the maximum credit the input earns against any single alternative *)
  Theorem check_grade_is_max : forall wm l x r, check cr wm l x = Ret r ->
    (exists s r0, earns l x s r0 /\ e_grade r = e_grade r0) /\
    (forall s r', earns l x s r' -> e_grade r' <= e_grade r).
  Proof.
    intros wm l x r H. destruct (check_spec _ _ _ _ H) as [s0 [r0 [He [Hmax [_ [_ [Hg _]]]]]]].
    split; [exists s0, r0; split; assumption|]. intros s r' Hs. rewrite Hg. eapply Hmax. exact Hs.
  Qed.

  (* among the alternatives tied at that maximum, the one reported has the longest message *)
  Theorem check_msg_longest_among_best : forall wm l x r, check cr wm l x = Ret r ->
    exists s0 r0, earns l x s0 r0 /\ e_grade r0 = e_grade r /\ e_ok r0 = e_ok r /\
      (forall s r', earns l x s r' -> e_grade r' == e_grade r ->
                    (length (e_msg r') <= length (e_msg r0))%nat) /\
      (e_msg r = e_msg r0 \/ (e_msg r0 = [] /\ e_grade r == 0 /\ e_msg r = wm)).
  Proof.
    intros wm l x r H. destruct (check_spec _ _ _ _ H) as [s0 [r0 [He [_ [Hlen [Hok [Hg Hm]]]]]]].
    exists s0, r0. split; [exact He|]. split; [symmetry; exact Hg|]. split; [symmetry; exact Hok|]. split.
    - intros s r' Hs Hb. eapply Hlen; [exact Hs|]. rewrite Hb. rewrite Hg. reflexivity.
    - destruct (is_empty (e_msg r0) && Qeq_bool (e_grade r0) 0) eqn:C; [right | left; exact Hm].
      apply andb_true_iff in C. destruct C as [C1 C2]. qbool.
      split; [destruct (e_msg r0); [reflexivity | discriminate]|]. split; [rewrite Hg; exact C2 | exact Hm].
  Qed.

  (* "no specific feedback message applies": every result tied at the best grade has an empty message *)
  Definition no_specific_feedback (l : list (answer TE)) (x : TI) (best : Q) : Prop :=
    forall s r', earns l x s r' -> e_grade r' == best -> e_msg r' = [].

  Lemma is_empty_true : forall s : str, is_empty s = true <-> s = [].
  Proof. intros [|c s]; simpl; split; intro H; congruence. Qed.

  (* wrong_msg is substituted exactly when the best grade is zero and no specific feedback applies;
     otherwise the message is that of a best alternative, untouched *)
  Theorem check_wrong_msg_iff : forall wm l x r, check cr wm l x = Ret r ->
    ((e_grade r == 0 /\ no_specific_feedback l x (e_grade r)) -> e_msg r = wm) /\
    (~ (e_grade r == 0 /\ no_specific_feedback l x (e_grade r)) ->
       exists s0 r0, earns l x s0 r0 /\ e_grade r0 = e_grade r /\ e_msg r = e_msg r0 /\
                     (e_grade r == 0 -> e_msg r <> [])).
  Proof.
    intros wm l x r H. destruct (check_spec _ _ _ _ H) as [s0 [r0 [He [_ [Hlen [_ [Hg Hm]]]]]]].
    split.
    - intros [Hz Hns]. assert (E0 : e_msg r0 = []) by (eapply Hns; [exact He | rewrite Hg; reflexivity]).
      rewrite E0 in Hm. simpl in Hm. rewrite <- Hg in Hm.
      assert (Q0 : Qeq_bool (e_grade r) 0 = true) by (apply Qeq_bool_iff; exact Hz). rewrite Q0 in Hm. exact Hm.
    - intro Hn. destruct (is_empty (e_msg r0) && Qeq_bool (e_grade r0) 0) eqn:C.
      + exfalso. apply Hn. apply andb_true_iff in C. destruct C as [C1 C2]. qbool. apply is_empty_true in C1.
        split; [rewrite Hg; exact C2|]. intros s r' Hs Hb.
        assert (L : (length (e_msg r') <= length (e_msg r0))%nat) by (eapply Hlen; [exact Hs | rewrite Hb, Hg; reflexivity]).
        rewrite C1 in L. destruct (e_msg r'); [reflexivity | simpl in L; lia].
      + exists s0, r0. split; [exact He|]. split; [symmetry; exact Hg|]. split; [exact Hm|].
        intros Hz E. rewrite Hm in E. apply andb_false_iff in C. destruct C as [C | C].
        * rewrite E in C. discriminate.
        * qbool. apply C. rewrite <- Hg. exact Hz.
  Qed.

  (* the same, as an equivalence on the displayed message, when wrong_msg is distinguishable from every
     specific message (in particular non-empty) *)
  Theorem check_wrong_msg_shown_iff : forall wm l x r, check cr wm l x = Ret r ->
    (forall s r', earns l x s r' -> e_msg r' <> wm) ->
    (e_msg r = wm <-> (e_grade r == 0 /\ no_specific_feedback l x (e_grade r))).
  Proof.
    intros wm l x r H Hd. destruct (check_wrong_msg_iff _ _ _ _ H) as [A B]. split; [|exact A].
    intro Em. destruct (check_spec _ _ _ _ H) as [s0 [r0 [He [_ [Hlen [_ [Hg Hm]]]]]]].
    destruct (is_empty (e_msg r0) && Qeq_bool (e_grade r0) 0) eqn:C.
    - apply andb_true_iff in C. destruct C as [C1 C2]. qbool. apply is_empty_true in C1.
      split; [rewrite Hg; exact C2|]. intros s r' Hs Hb.
      assert (L : (length (e_msg r') <= length (e_msg r0))%nat) by (eapply Hlen; [exact Hs | rewrite Hb, Hg; reflexivity]).
      rewrite C1 in L. destruct (e_msg r'); [reflexivity | simpl in L; lia].
    - exfalso. apply (Hd s0 r0 He). rewrite <- Hm. exact Em.
  Qed.

  (* ---------- uniqueness of what best_of determines: basis of order independence ---------- *)
  Lemma best_of_unique : forall (S S' : single TE -> entry -> Prop) wm r r',
    (forall s q, S s q <-> S' s q) -> best_of S wm r -> best_of S' wm r' ->
    e_grade r == e_grade r' /\ length (e_msg r) = length (e_msg r') /\
    ((exists s0 r0, S s0 r0 /\ e_grade r0 == e_grade r /\ e_msg r = e_msg r0) <->
     (exists s0 r0, S' s0 r0 /\ e_grade r0 == e_grade r' /\ e_msg r' = e_msg r0)) /\
    ((forall s1 q1 s2 q2, S s1 q1 -> S s2 q2 -> e_grade q1 == e_grade r -> e_grade q2 == e_grade r ->
                          length (e_msg q1) = length (e_msg q2) -> e_msg q1 = e_msg q2) ->
     e_msg r = e_msg r').
  Proof.
    intros S S' wm r r' HS [s0 [r0 [H0 [Hmax [Hlen [_ [Hg Hm]]]]]]] [s0' [r0' [H0' [Hmax' [Hlen' [_ [Hg' Hm']]]]]]].
    assert (G : e_grade r0 == e_grade r0').
    { apply Qle_antisym; [eapply Hmax'; apply HS; exact H0 | eapply Hmax; apply HS; exact H0']. }
    assert (L : length (e_msg r0) = length (e_msg r0')).
    { apply Nat.le_antisymm.
      - eapply Hlen'; [apply HS; exact H0 | exact G].
      - eapply Hlen; [apply HS; exact H0' | symmetry; exact G]. }
    assert (Z : is_empty (e_msg r0) && Qeq_bool (e_grade r0) 0 = is_empty (e_msg r0') && Qeq_bool (e_grade r0') 0).
    { rewrite (Qeq_bool_comp0 _ _ G). f_equal. destruct (e_msg r0), (e_msg r0'); simpl in *; try reflexivity; discriminate. }
    split; [rewrite Hg, Hg'; exact G|]. split; [|split].
    - rewrite Hm, Hm', <- Z. destruct (is_empty (e_msg r0) && Qeq_bool (e_grade r0) 0); [reflexivity | exact L].
    - rewrite Hm, Hm', <- Z. destruct (is_empty (e_msg r0) && Qeq_bool (e_grade r0) 0) eqn:C.
      + split.
        * intros [s1 [r1 [H1 [G1 M1]]]]. exists s1, r1. split; [apply HS; exact H1|]. split; [|exact M1].
          rewrite G1, Hg, Hg'. exact G.
        * intros [s1 [r1 [H1 [G1 M1]]]]. exists s1, r1. split; [apply HS; exact H1|]. split; [|exact M1].
          rewrite G1, Hg, Hg'. symmetry. exact G.
      + split; intros _.
        * exists s0', r0'. split; [exact H0'|]. split; [rewrite Hg'; reflexivity | reflexivity].
        * exists s0, r0. split; [exact H0|]. split; [rewrite Hg; reflexivity | reflexivity].
    - intro U. rewrite Hm, Hm', <- Z. destruct (is_empty (e_msg r0) && Qeq_bool (e_grade r0) 0); [reflexivity|].
      apply (U s0 r0 s0' r0'); [exact H0 | apply HS; exact H0' | rewrite Hg; reflexivity | rewrite Hg; symmetry; exact G | exact L].
  Qed.

  (* Two configurations offering the same SET of single alternatives (any order, any grouping into
     expect tuples, any repetition) behave alike: same decision to return, same grade, same message
     length, and the same message whenever the longest best message is unique. *)
  Definition same_alternatives (l l' : list (answer TE)) : Prop :=
    forall s, In s (flatten l) <-> In s (flatten l').

  Theorem check_set_invariant : forall wm l l' x, same_alternatives l l' ->
    ((exists r, check cr wm l x = Ret r) <-> (exists r', check cr wm l' x = Ret r')) /\
    forall r r', check cr wm l x = Ret r -> check cr wm l' x = Ret r' ->
      e_grade r == e_grade r' /\ length (e_msg r) = length (e_msg r') /\
      ((forall s1 q1 s2 q2, earns l x s1 q1 -> earns l x s2 q2 ->
          e_grade q1 == e_grade r -> e_grade q2 == e_grade r ->
          length (e_msg q1) = length (e_msg q2) -> e_msg q1 = e_msg q2) -> e_msg r = e_msg r').
  Proof.
    intros wm l l' x HS. split.
    - rewrite !check_returns_iff. split; intros [Hne Hall]; split.
      + intro E. destruct (flatten l) as [|s t] eqn:F; [apply Hne; reflexivity|].
        assert (In s (flatten l')) as Hin by (apply HS; rewrite F; left; reflexivity). rewrite E in Hin. exact Hin.
      + intros s Hs. apply Hall. apply HS. exact Hs.
      + intro E. destruct (flatten l') as [|s t] eqn:F; [apply Hne; reflexivity|].
        assert (In s (flatten l)) as Hin by (apply HS; rewrite F; left; reflexivity). rewrite E in Hin. exact Hin.
      + intros s Hs. apply Hall. apply HS. exact Hs.
    - intros r r' H H'. apply check_spec in H. apply check_spec in H'.
      assert (HE : forall s q, earns l x s q <-> earns l' x s q).
      { intros s q. unfold earns. rewrite (HS s). reflexivity. }
      destruct (best_of_unique _ _ wm r r' HE H H') as [A [B [_ D]]]. split; [exact A|]. split; [exact B | exact D].
  Qed.

  (* ---------- reorderings the property speaks about are instances of same_alternatives ---------- *)
  Lemma flatten_perm : forall l l' : list (answer TE), Permutation l l' -> Permutation (flatten l) (flatten l').
  Proof.
    intros l l' H. unfold flatten. induction H; simpl.
    - constructor.
    - apply Permutation_app_head. exact IHPermutation.
    - rewrite !app_assoc. apply Permutation_app_tail. apply Permutation_app_comm.
    - eapply Permutation_trans; eassumption.
  Qed.

  (* the values inside an expect tuple reordered, everything else equal *)
  Definition same_but_values (a a' : answer TE) : Prop :=
    Permutation (a_expects a) (a_expects a') /\ a_credit a = a_credit a' /\ a_msg a = a_msg a' /\ a_ok a = a_ok a'.

  Definition reordered (l l' : list (answer TE)) : Prop :=
    exists m, Permutation l m /\ Forall2 same_but_values m l'.

  Lemma singles_of_values : forall a a', same_but_values a a' -> Permutation (singles_of a) (singles_of a').
  Proof.
    intros a a' [P [C [M O]]]. unfold singles_of. rewrite C, M, O. apply Permutation_map. exact P.
  Qed.

  Lemma reordered_perm : forall l l', reordered l l' -> Permutation (flatten l) (flatten l').
  Proof.
    intros l l' [m [P F]]. eapply Permutation_trans; [apply flatten_perm; exact P|].
    clear P l. unfold flatten. induction F as [|a a' m l' Ha F IH]; simpl; [constructor|].
    apply Permutation_app; [apply singles_of_values; exact Ha | exact IH].
  Qed.

  Lemma reordered_same : forall l l', reordered l l' -> same_alternatives l l'.
  Proof.
    intros l l' H s. pose proof (reordered_perm _ _ H) as P. split; intro Hs.
    - eapply Permutation_in; [exact P | exact Hs].
    - eapply Permutation_in; [apply Permutation_sym; exact P | exact Hs].
  Qed.

  Lemma reordered_refl_perm : forall l l', Permutation l l' -> reordered l l'.
  Proof.
    intros l l' P. exists l'. split; [exact P|]. clear P. induction l' as [|a t IH]; constructor; [|exact IH].
    repeat split; reflexivity || apply Permutation_refl.
  Qed.

  (* what "independent of the listing order" means for two outcomes *)
  Definition same_verdict (o o' : outcome TX) : Prop :=
    match o, o' with
    | Ret r, Ret r' => e_grade r == e_grade r' /\ length (e_msg r) = length (e_msg r')
    | Ret _, _ | _, Ret _ => False
    | _, _ => True
    end.

  Theorem check_order_independent : forall wm l l' x, reordered l l' ->
    same_verdict (check cr wm l x) (check cr wm l' x).
  Proof.
    intros wm l l' x H. apply reordered_same in H.
    destruct (check_set_invariant wm l l' x H) as [Hret Heq].
    destruct (check cr wm l x) as [r| | |e] eqn:C; destruct (check cr wm l' x) as [r'| | |e'] eqn:C'; simpl; try exact I;
      try (destruct Hret as [Hr _]; destruct Hr as [? Hr]; [eexists; reflexivity | discriminate]);
      try (destruct Hret as [_ Hr]; destruct Hr as [? Hr]; [eexists; reflexivity | discriminate]).
    destruct (Heq r r' eq_refl eq_refl) as [A [B _]]. split; [exact A | exact B].
  Qed.

  (* the wrong_msg decision itself (the branch taken), and its order independence *)
  Lemma check_ret_select : forall wm l x r, check cr wm l x = Ret r <->
    exists s, l <> [] /\ check_select cr l x = Some s /\ r = final wm s.
  Proof.
    intros wm l x r. unfold check, check_select. split.
    - intro H. destruct l as [|a l']; [discriminate|].
      destruct (collect cr (flatten (a :: l')) x) as [rs|e]; [|discriminate].
      destruct (select rs) as [s|]; [|discriminate]. injection H as <-. exists s. repeat split; discriminate || reflexivity.
    - intros [s [Hne [Hs ->]]]. destruct l as [|a l']; [congruence|].
      destruct (collect cr (flatten (a :: l')) x) as [rs|e]; [|discriminate]. rewrite Hs. reflexivity.
  Qed.

  Theorem subst_iff : forall l x s, check_select cr l x = Some s ->
    (sel_subst s = true <-> (sel_best s == 0 /\ no_specific_feedback l x (sel_best s))).
  Proof.
    intros l x s H. unfold check_select in H.
    destruct (collect cr (flatten l) x) as [rs|e] eqn:C; [|discriminate].
    pose proof (collect_inl _ _ _ C) as F2.
    destruct (select_spec _ _ H) as [Hin [Hg [Hmax [Hlen Hsub]]]]. rewrite Hsub. split.
    - intro A. apply andb_true_iff in A. destruct A as [A1 A2]. qbool. apply is_empty_true in A1.
      split; [exact A2|]. intros s' r' [Hs' Hr'] Hb.
      destruct (Forall2_in_l _ _ _ _ _ _ F2 Hs') as [r'' [Hr'' Eq]]. rewrite Hr' in Eq. injection Eq as <-.
      pose proof (Hlen _ Hr'' Hb) as L. rewrite A1 in L. destruct (e_msg r'); [reflexivity | simpl in L; lia].
    - intros [Hz Hns]. apply andb_true_iff. split; [|apply Qeq_bool_iff; exact Hz].
      apply is_empty_true. destruct (Forall2_in_r _ _ _ _ _ _ F2 Hin) as [s0 [Hs0 Hcr]].
      eapply Hns; [split; eassumption | exact Hg].
  Qed.

  Theorem subst_order_independent : forall l l' x s s', same_alternatives l l' ->
    check_select cr l x = Some s -> check_select cr l' x = Some s' ->
    sel_best s == sel_best s' /\ sel_subst s = sel_subst s'.
  Proof.
    intros l l' x s s' HS H H'.
    assert (HE : forall z q, earns l x z q <-> earns l' x z q).
    { intros z q. unfold earns. rewrite (HS z). reflexivity. }
    assert (G : sel_best s == sel_best s').
    { unfold check_select in H, H'.
      destruct (collect cr (flatten l) x) as [rs|e] eqn:C; [|discriminate].
      destruct (collect cr (flatten l') x) as [rs'|e'] eqn:C'; [|discriminate].
      pose proof (collect_inl _ _ _ C) as F2. pose proof (collect_inl _ _ _ C') as F2'.
      destruct (select_spec _ _ H) as [Hin [Hg [Hmax _]]]. destruct (select_spec _ _ H') as [Hin' [Hg' [Hmax' _]]].
      destruct (Forall2_in_r _ _ _ _ _ _ F2 Hin) as [s0 [Hs0 Hcr]].
      destruct (Forall2_in_r _ _ _ _ _ _ F2' Hin') as [s0' [Hs0' Hcr']].
      apply Qle_antisym.
      - rewrite <- Hg. apply Hmax'. apply HS in Hs0.
        destruct (Forall2_in_l _ _ _ _ _ _ F2' Hs0) as [q [Hq Eq]]. rewrite Hcr in Eq. injection Eq as <-. exact Hq.
      - rewrite <- Hg'. apply Hmax. apply HS in Hs0'.
        destruct (Forall2_in_l _ _ _ _ _ _ F2 Hs0') as [q [Hq Eq]]. rewrite Hcr' in Eq. injection Eq as <-. exact Hq. }
    split; [exact G|].
    pose proof (subst_iff _ _ _ H) as A. pose proof (subst_iff _ _ _ H') as A'.
    assert (B : (sel_best s == 0 /\ no_specific_feedback l x (sel_best s)) <->
                (sel_best s' == 0 /\ no_specific_feedback l' x (sel_best s'))).
    { unfold no_specific_feedback. split; intros [Hz Hns]; (split; [rewrite <- Hz; rewrite G; reflexivity|]).
      - intros z q Hzq Hb. eapply Hns; [apply HE; exact Hzq | rewrite Hb; symmetry; exact G].
      - intros z q Hzq Hb. eapply Hns; [apply HE; exact Hzq | rewrite Hb; exact G]. }
    destruct (sel_subst s), (sel_subst s'); try reflexivity.
    - symmetry. apply A'. apply B. apply A. reflexivity.
    - apply A. apply B. apply A'. reflexivity.
  Qed.

  (* ---------- "the maximum credit the input earns against any single alternative", read as the
     grade given by the grader configured with that one alternative alone ---------- *)
  Definition alone (s : single TE) : list (answer TE) := [mkAnswer [s_expect s] (s_credit s) (s_msg s) (s_ok s)].

  Lemma single_eta : forall s : single TE, mkSingle (s_expect s) (s_credit s) (s_msg s) (s_ok s) = s.
  Proof. intros []. reflexivity. Qed.

  Lemma check_alone : forall s x,
    check cr [] (alone s) x = match cr s x with inl r => Ret r | inr e => Raised e end.
  Proof.
    intros s x. unfold check, alone, flatten, singles_of. simpl. rewrite single_eta.
    destruct (cr s x) as [r|e]; [|reflexivity]. simpl.
    rewrite Qeq_bool_refl'. unfold final. simpl.
    destruct r as [o g m]. simpl. destruct m as [|c m]; simpl; [|reflexivity].
    destruct (Qeq_bool g 0); reflexivity.
  Qed.

  Theorem check_is_max_of_single_graders : forall wm l x r, check cr wm l x = Ret r ->
    (forall s, In s (flatten l) -> exists rs, check cr [] (alone s) x = Ret rs /\ e_grade rs <= e_grade r) /\
    (exists s rs, In s (flatten l) /\ check cr [] (alone s) x = Ret rs /\ e_grade rs = e_grade r /\
       (forall s' rs', In s' (flatten l) -> check cr [] (alone s') x = Ret rs' -> e_grade rs' == e_grade r ->
                       (length (e_msg rs') <= length (e_msg rs))%nat) /\
       e_msg r = if is_empty (e_msg rs) && Qeq_bool (e_grade rs) 0 then wm else e_msg rs).
  Proof.
    intros wm l x r H. pose proof (check_spec _ _ _ _ H) as [s0 [r0 [[Hs0 Hc0] [Hmax [Hlen [_ [Hg Hm]]]]]]].
    assert (Hall : forall s, In s (flatten l) -> exists q, cr s x = inl q).
    { apply (check_returns_iff wm l x). eexists. exact H. }
    split.
    - intros s Hs. destruct (Hall s Hs) as [q Hq]. exists q. rewrite check_alone, Hq. split; [reflexivity|].
      rewrite Hg. eapply Hmax. split; eassumption.
    - exists s0, r0. split; [exact Hs0|]. split; [rewrite check_alone, Hc0; reflexivity|]. split; [symmetry; exact Hg|].
      split; [|exact Hm].
      intros s' rs' Hs' Hc' Hb. rewrite check_alone in Hc'. destruct (cr s' x) as [q|e] eqn:Cq; [|discriminate].
      injection Hc' as <-. eapply Hlen; [split; eassumption|]. rewrite Hb, Hg. reflexivity.
  Qed.
End Check.

Arguments earns {TE TI TX}. Arguments best_of {TE}. Arguments no_specific_feedback {TE TI TX}.
Arguments same_alternatives {TE}. Arguments same_but_values {TE}. Arguments reordered {TE}.
Arguments same_verdict {TX}. Arguments alone {TE}.

(* ---------------------------------------------------------------------------------------------
   canonicalisation (schema_answers / validate_single_answer / validate_expect_tuple)
   --------------------------------------------------------------------------------------------- *)
Section Canon.
  Variable TE : Type.

  Lemma canon_ok_rule : forall c o, ~ c == 1 -> canon_ok c o = grade_to_ok c.
  Proof.
    intros c o H. assert (Qeq_bool c 1 = false) as F.
    { destruct (Qeq_bool c 1) eqn:B; [qbool; contradiction | reflexivity]. }
    destruct o as [[| | |]|]; simpl; rewrite ?F; reflexivity.
  Qed.

  Lemma canon_answer_some : forall (a : raw_answer TE) a', canon_answer a = Some a' ->
    0 <= a_credit a' <= 1 /\
    a_expects a' = expects_of (match a with RBare e => e | RDict e _ _ _ => e end) /\
    (~ a_credit a' == 1 -> a_ok a' = grade_to_ok (a_credit a')).
  Proof.
    intros [e | e c m o] a' H; simpl in H.
    - injection H as <-. simpl. split; [lra|]. split; [reflexivity|]. intro N. exfalso. apply N. reflexivity.
    - set (c' := match c with Some q => q | None => 1 end) in *.
      destruct (Qle_bool 0 c' && Qle_bool c' 1) eqn:R; [|discriminate]. injection H as <-. simpl.
      apply andb_true_iff in R. destruct R as [R1 R2]. qbool.
      split; [split; assumption|]. split; [reflexivity|]. apply canon_ok_rule.
  Qed.

  Lemma canon_list_some : forall (l : list (raw_answer TE)) a, canon_list l = Some a ->
    Forall2 (fun r a' => canon_answer r = Some a') l a.
  Proof.
    induction l as [|r t IH]; intros a H; simpl in H.
    - injection H as <-. constructor.
    - destruct (canon_answer r) as [r'|] eqn:C; [|discriminate].
      destruct (canon_list t) as [t'|] eqn:C'; [|discriminate]. injection H as <-.
      constructor; [exact C | apply IH; reflexivity].
  Qed.

  Lemma canon_list_of_Forall2 : forall (l : list (raw_answer TE)) a,
    Forall2 (fun r a' => canon_answer r = Some a') l a -> canon_list l = Some a.
  Proof.
    intros l a H. induction H as [|r a' l a Hr H IH]; simpl; [reflexivity|]. rewrite Hr, IH. reflexivity.
  Qed.

  (* every canonical alternative carries a credit in [0,1], its values in the order written, and an
     `ok` determined by the credit unless the credit is 1 *)
  Definition canonical (a : answer TE) : Prop :=
    0 <= a_credit a <= 1 /\ (~ a_credit a == 1 -> a_ok a = grade_to_ok (a_credit a)).

  Lemma canon_list_sound : forall (rl : list (raw_answer TE)) l, canon_list rl = Some l -> Forall canonical l.
  Proof.
    intros rl l Hl. apply canon_list_some in Hl. induction Hl as [|r0 a0 rl l Hr Hl IH]; constructor.
    - destruct (canon_answer_some _ _ Hr) as [A [_ B]]. split; assumption.
    - exact IH.
  Qed.

  Theorem canon_sound : forall (r : raw_answers TE) l, canon r = Some l -> Forall canonical l.
  Proof.
    intros r l H. destruct r as [[[e | es] | e c m o] | rl]; unfold canon in H; eapply canon_list_sound; exact H.
  Qed.

  Theorem canon_tuple_length : forall (rl : list (raw_answer TE)) l, canon (RTuple rl) = Some l -> length l = length rl.
  Proof.
    intros rl l H. simpl in H. apply canon_list_some in H. induction H; simpl; [reflexivity | f_equal; assumption].
  Qed.

  Theorem canon_tuple_listing : forall (rl : list (raw_answer TE)) l, canon (RTuple rl) = Some l ->
    Forall2 (fun r a => canon_answer r = Some a /\
                        a_expects a = expects_of (match r with RBare e => e | RDict e _ _ _ => e end)) rl l.
  Proof.
    intros rl l H. simpl in H. apply canon_list_some in H.
    induction H as [|r a rl l Hr H IH]; constructor; [|exact IH].
    split; [exact Hr|]. destruct (canon_answer_some _ _ Hr) as [_ [Ex _]]. exact Ex.
  Qed.

  (* re-validating an already validated configuration changes nothing (the library re-validates answers
     when they are inferred, and when an item grader is used as a subgrader) *)
  Definition raw_of_ok (o : okv) : raw_ok := match o with OkTrue => RTrue | OkFalse => RFalse | OkPartial => RPartial end.
  Definition embed (a : answer TE) : raw_answer TE :=
    RDict (RMany (a_expects a)) (Some (a_credit a)) (Some (a_msg a)) (Some (raw_of_ok (a_ok a))).

  Lemma grade_to_ok_not1 : forall c, Qeq_bool c 1 = false -> grade_to_ok c <> OkTrue.
  Proof.
    intros c H. unfold grade_to_ok. destruct (Qeq_bool c 0); [discriminate|]. rewrite H. discriminate.
  Qed.

  Lemma canon_embed : forall (r : raw_answer TE) a, canon_answer r = Some a -> canon_answer (embed a) = Some a.
  Proof.
    intros r a H. destruct (canon_answer_some _ _ H) as [[C0 C1] [_ Hok]].
    unfold embed, canon_answer.
    assert (Qle_bool 0 (a_credit a) && Qle_bool (a_credit a) 1 = true) as ->.
    { apply andb_true_iff. split; apply Qle_bool_iff; assumption. }
    destruct a as [es c m o]. simpl in *. f_equal. f_equal.
    destruct (Qeq_bool c 1) eqn:B.
    - destruct o; simpl; rewrite ?B; reflexivity.
    - assert (N : ~ c == 1) by (qbool; exact B). rewrite (Hok N). destruct (raw_of_ok (grade_to_ok c)); reflexivity.
  Qed.

  Lemma canon_list_idempotent : forall (rl : list (raw_answer TE)) l,
    canon_list rl = Some l -> canon_list (map embed l) = Some l.
  Proof.
    intros rl l Hl. apply canon_list_some in Hl. apply canon_list_of_Forall2.
    induction Hl as [|r0 a0 rl l Hr Hl IH]; simpl; constructor; [eapply canon_embed; exact Hr | exact IH].
  Qed.

  Theorem canon_idempotent : forall (r : raw_answers TE) l, canon r = Some l -> canon (RTuple (map embed l)) = Some l.
  Proof.
    intros r l H. unfold canon at 1.
    destruct r as [[[e | es] | e c m o] | rl]; unfold canon in H; eapply canon_list_idempotent; exact H.
  Qed.

  (* ---------- reorderings at the level of what the author writes ---------- *)
  Inductive raw_values_perm : raw_answer TE -> raw_answer TE -> Prop :=
  | rvp_same : forall a, raw_values_perm a a
  | rvp_bare : forall es es', Permutation es es' -> raw_values_perm (RBare (RMany es)) (RBare (RMany es'))
  | rvp_dict : forall es es' c m o, Permutation es es' ->
                 raw_values_perm (RDict (RMany es) c m o) (RDict (RMany es') c m o).

  Definition raw_reordered (l l' : list (raw_answer TE)) : Prop :=
    exists m, Permutation l m /\ Forall2 raw_values_perm m l'.

  Lemma canon_answer_values : forall a a', raw_values_perm a a' ->
    match canon_answer a, canon_answer a' with
    | Some c, Some c' => same_but_values c c'
    | None, None => True
    | _, _ => False
    end.
  Proof.
    intros a a' H. destruct H as [a | es es' P | es es' c m o P].
    - destruct (canon_answer a) as [c|]; [|exact I]. repeat split; reflexivity || apply Permutation_refl.
    - simpl. repeat split; try reflexivity. exact P.
    - simpl. destruct (Qle_bool 0 match c with Some q => q | None => 1 end && Qle_bool match c with Some q => q | None => 1 end 1); [|exact I].
      repeat split; try reflexivity. exact P.
  Qed.

  Lemma canon_list_perm : forall l l' : list (raw_answer TE), Permutation l l' ->
    match canon_list l, canon_list l' with
    | Some a, Some a' => Permutation a a'
    | None, None => True
    | _, _ => False
    end.
  Proof.
    intros l l' P. induction P as [| x l l' P IH | x y l | l l' l'' P1 IH1 P2 IH2]; simpl.
    - constructor.
    - destruct (canon_answer x); [|exact I].
      destruct (canon_list l), (canon_list l'); try exact IH. constructor. exact IH.
    - destruct (canon_answer x), (canon_answer y), (canon_list l); try exact I. apply perm_swap.
    - destruct (canon_list l), (canon_list l'), (canon_list l''); try contradiction; try exact I.
      eapply Permutation_trans; eassumption.
  Qed.

  Lemma canon_list_values : forall m l', Forall2 raw_values_perm m l' ->
    match canon_list m, canon_list l' with
    | Some a, Some a' => Forall2 same_but_values a a'
    | None, None => True
    | _, _ => False
    end.
  Proof.
    intros m l' F. induction F as [|a a' m l' Ha F IH]; simpl; [constructor|].
    pose proof (canon_answer_values _ _ Ha) as Hc.
    destruct (canon_answer a), (canon_answer a'); try contradiction; try exact I.
    destruct (canon_list m), (canon_list l'); try contradiction; try exact I. constructor; assumption.
  Qed.

  Theorem canon_reordered : forall l l', raw_reordered l l' ->
    match canon (RTuple l), canon (RTuple l') with
    | Some a, Some a' => reordered a a'
    | None, None => True
    | _, _ => False
    end.
  Proof.
    intros l l' [m [P F]]. simpl.
    pose proof (canon_list_perm _ _ P) as H1. pose proof (canon_list_values _ _ F) as H2.
    destruct (canon_list l), (canon_list m), (canon_list l'); try contradiction; try exact I.
    eexists. split; eassumption.
  Qed.
End Canon.

Arguments canonical {TE}. Arguments embed {TE}. Arguments raw_values_perm {TE}. Arguments raw_reordered {TE}.

(* end to end: the grader as configured by the author, alternatives and tuple values in any order *)
Section EndToEnd.
  Variables TE TI TX : Type.
  Variable cr : single TE -> TI -> entry + TX.

  Theorem grade_raw_order_independent : forall wm (l l' : list (raw_answer TE)) x, raw_reordered l l' ->
    match grade_raw cr wm (RTuple l) x, grade_raw cr wm (RTuple l') x with
    | ConfigInvalid, ConfigInvalid => True
    | Out o, Out o' => same_verdict o o'
    | _, _ => False
    end.
  Proof.
    intros wm l l' x H. unfold grade_raw. pose proof (canon_reordered TE _ _ H) as C.
    destruct (canon (RTuple l)), (canon (RTuple l')); try contradiction; try exact I.
    apply check_order_independent. exact C.
  Qed.

  (* every value of every alternative, written as an alternative of its own (what the harness's differential
     oracle builds: one grader per single alternative) *)
  Definition raw_singles (a : raw_answer TE) : list (raw_answer TE) :=
    match a with
    | RBare re => map (fun e => RBare (ROne e)) (expects_of re)
    | RDict re c m o => map (fun e => RDict (ROne e) c m o) (expects_of re)
    end.

  Lemma raw_singles_fwd : forall a a' rs, canon_answer a = Some a' -> In rs (raw_singles a) ->
    exists s, In s (singles_of a') /\ canon (RTuple [rs]) = Some (alone s).
  Proof.
    intros [re | re c m o] a' rs H Hin; simpl in H, Hin.
    - injection H as <-. apply in_map_iff in Hin. destruct Hin as [e [<- He]].
      exists (mkSingle e 1 [] OkTrue). split; [|reflexivity].
      unfold singles_of. simpl. apply in_map_iff. exists e. split; [reflexivity | exact He].
    - set (c' := match c with Some q => q | None => 1 end) in *.
      destruct (Qle_bool 0 c' && Qle_bool c' 1) eqn:R; [|discriminate]. injection H as <-.
      apply in_map_iff in Hin. destruct Hin as [e [<- He]].
      exists (mkSingle e c' (match m with Some s => s | None => [] end) (canon_ok c' o)). split.
      + unfold singles_of. simpl. apply in_map_iff. exists e. split; [reflexivity | exact He].
      + simpl. fold c'. rewrite R. reflexivity.
  Qed.

  Lemma raw_singles_bwd : forall a a' s, canon_answer a = Some a' -> In s (singles_of a') ->
    exists rs, In rs (raw_singles a) /\ canon (RTuple [rs]) = Some (alone s).
  Proof.
    intros [re | re c m o] a' s H Hin; simpl in H.
    - injection H as <-. unfold singles_of in Hin. simpl in Hin. apply in_map_iff in Hin. destruct Hin as [e [<- He]].
      exists (RBare (ROne e)). split; [|reflexivity]. simpl. apply in_map_iff. exists e. split; [reflexivity | exact He].
    - set (c' := match c with Some q => q | None => 1 end) in *.
      destruct (Qle_bool 0 c' && Qle_bool c' 1) eqn:R; [|discriminate]. injection H as <-.
      unfold singles_of in Hin. simpl in Hin. apply in_map_iff in Hin. destruct Hin as [e [<- He]].
      exists (RDict (ROne e) c m o). split.
      + simpl. apply in_map_iff. exists e. split; [reflexivity | exact He].
      + simpl. fold c'. rewrite R. reflexivity.
  Qed.

  Lemma in_flatten : forall (l : list (answer TE)) s, In s (flatten l) <-> exists a, In a l /\ In s (singles_of a).
  Proof. intros l s. unfold flatten. apply in_flat_map. Qed.

  Theorem grade_raw_is_max_of_single_graders : forall wm (l : list (raw_answer TE)) x r,
    grade_raw cr wm (RTuple l) x = Out (Ret r) ->
    (forall a rs, In a l -> In rs (raw_singles a) ->
       exists r', grade_raw cr [] (RTuple [rs]) x = Out (Ret r') /\ e_grade r' <= e_grade r) /\
    (exists a rs r', In a l /\ In rs (raw_singles a) /\ grade_raw cr [] (RTuple [rs]) x = Out (Ret r') /\
       e_grade r' = e_grade r /\
       (forall b rs' r'', In b l -> In rs' (raw_singles b) -> grade_raw cr [] (RTuple [rs']) x = Out (Ret r'') ->
          e_grade r'' == e_grade r -> (length (e_msg r'') <= length (e_msg r'))%nat) /\
       e_msg r = if is_empty (e_msg r') && Qeq_bool (e_grade r') 0 then wm else e_msg r').
  Proof.
    intros wm l x r H. unfold grade_raw in H.
    destruct (canon (RTuple l)) as [l'|] eqn:C; [|discriminate]. injection H as H.
    simpl in C. pose proof (canon_list_some TE _ _ C) as F2.
    destruct (check_is_max_of_single_graders TE TI TX cr wm l' x r H) as [Hall [s0 [r0 [Hs0 [Hc0 [Hg0 [Hlen Hmsg]]]]]]].
    split.
    - intros a rs Ha Hrs. destruct (Forall2_in_l _ _ _ _ _ _ F2 Ha) as [a' [Ha' Hca]].
      destruct (raw_singles_fwd _ _ _ Hca Hrs) as [s [Hs Hcs]].
      destruct (Hall s) as [q [Hq Hle]]; [apply in_flatten; exists a'; split; assumption|].
      exists q. unfold grade_raw. rewrite Hcs, Hq. split; [reflexivity | exact Hle].
    - apply in_flatten in Hs0. destruct Hs0 as [a' [Ha' Hs0]].
      destruct (Forall2_in_r _ _ _ _ _ _ F2 Ha') as [a [Ha Hca]].
      destruct (raw_singles_bwd _ _ _ Hca Hs0) as [rs [Hrs Hcs]].
      exists a, rs, r0. split; [exact Ha|]. split; [exact Hrs|]. split; [unfold grade_raw; rewrite Hcs, Hc0; reflexivity|].
      split; [exact Hg0|]. split; [|exact Hmsg].
      intros b rs' r'' Hb Hrs' Hgr Heq.
      destruct (Forall2_in_l _ _ _ _ _ _ F2 Hb) as [b' [Hb' Hcb]].
      destruct (raw_singles_fwd _ _ _ Hcb Hrs') as [s' [Hs' Hcs']].
      unfold grade_raw in Hgr. rewrite Hcs' in Hgr. injection Hgr as Hgr.
      eapply Hlen; [apply in_flatten; exists b'; split; eassumption | exact Hgr | exact Heq].
  Qed.
End EndToEnd.
