(* Proofs/Comparers.v -- lemmas about the comparers model (C16): tolerance on squares, between, congruence,
   eigenvector, span, phase.  (Entry/linear/shape-policy lemmas are in Proofs/ComparersCredit.v.) *)
From Coq Require Import ZArith QArith Qround Qabs Lia Lqa List Bool Setoid Morphisms.
From Verif.Lib Require Import QRound.
From Verif.Model Require Import Result Comparers.
From Verif.Proofs Require Import Credit ComparersLA.
Import ListNotations.
Open Scope Q_scope.

Arguments Qred : simpl never.

(* =========================================================================================== *)
(* tolerance on squares                                                                          *)
(* =========================================================================================== *)
Lemma norm_le_iff tl ref2 d2 : norm_le tl ref2 d2 = true <-> tol_ok tl = true /\ d2 <= tol2 tl ref2.
Proof.
  unfold norm_le. rewrite andb_true_iff, Qle_bool_iff. reflexivity.
Qed.

Lemma tol_ok_abs t : tol_ok (TAbs t) = true <-> 0 <= t.
Proof. simpl. apply Qle_bool_iff. Qed.
Lemma tol_ok_pct p : tol_ok (TPct p) = true <-> 0 <= p.
Proof. simpl. apply Qle_bool_iff. Qed.

Lemma tol2_nonneg tl ref2 : 0 <= ref2 -> 0 <= tol2 tl ref2.
Proof. intro H. destruct tl as [t|p]; simpl; nra. Qed.

(* why squares are enough: for the non-negative root x of d2 (and n of ref2) the comparison is the documented one *)
Lemma sq_le_iff x t : 0 <= x -> 0 <= t -> (x * x <= t * t <-> x <= t).
Proof. intros Hx Ht. split; intro H; nra. Qed.

Theorem norm_le_abs_root x t ref2 : 0 <= x ->
  (norm_le (TAbs t) ref2 (x * x) = true <-> 0 <= t /\ x <= t).
Proof.
  intro Hx. rewrite norm_le_iff, tol_ok_abs. simpl. split; intros [Ht H]; split; try exact Ht; nra.
Qed.

Theorem norm_le_pct_root x n p : 0 <= x -> 0 <= n ->
  (norm_le (TPct p) (n * n) (x * x) = true <-> 0 <= p /\ x <= n * p).
Proof.
  intros Hx Hn. rewrite norm_le_iff, tol_ok_pct. simpl. split; intros [Hp H]; split; try exact Hp.
  - assert (E : x * x <= (n * p) * (n * p)) by nra. assert (0 <= n * p) by nra. nra.
  - assert (0 <= n * p) by nra. nra.
Qed.

Lemma abs_le_of_sq a t : 0 <= t -> a * a <= t * t -> Qabs a <= t.
Proof. intros Ht H. apply Qabs_case; intros; nra. Qed.

Theorem mag_close_root x y t : 0 <= x -> 0 <= y -> 0 <= t ->
  (mag_close (x * x) (y * y) (t * t) = true <-> Qabs (x - y) <= t).
Proof.
  intros Hx Hy Ht. unfold mag_close. rewrite orb_true_iff, !Qle_bool_iff.
  assert (Hxy : 0 <= x * y) by nra. assert (Hxy2 : 0 <= 2 * (x * y)) by lra. split.
  - intros H. apply abs_le_of_sq; [exact Ht|].
    destruct (Qlt_le_dec 0 (x * x + y * y - t * t)) as [P | P]; [|nra].
    destruct H as [H | H]; [lra|].
    assert (S : x * x + y * y - t * t <= 2 * (x * y)).
    { apply (proj1 (sq_le_iff _ _ (Qlt_le_weak _ _ P) Hxy2)).
      setoid_replace (2 * (x * y) * (2 * (x * y))) with (4 * (x * x) * (y * y)) by ring. exact H. }
    nra.
  - intro H. assert (H1 : x - y <= t /\ y - x <= t).
    { revert H. apply Qabs_case; intros; split; lra. }
    destruct H1 as [H1 H2].
    destruct (Qlt_le_dec 0 (x * x + y * y - t * t)) as [P | P]; [right | left; exact P].
    assert (D : (x - y) * (x - y) <= t * t) by nra.
    assert (S : x * x + y * y - t * t <= 2 * (x * y)) by nra.
    assert (G : (x * x + y * y - t * t) * (x * x + y * y - t * t) <= (2 * (x * y)) * (2 * (x * y))).
    { apply (proj2 (sq_le_iff _ _ (Qlt_le_weak _ _ P) Hxy2)). exact S. }
    setoid_replace (4 * (x * x) * (y * y)) with (2 * (x * y) * (2 * (x * y))) by ring. exact G.
Qed.

Lemma mag_close_refl a tau2 : 0 <= a -> 0 <= tau2 -> mag_close a a tau2 = true.
Proof.
  intros Ha Ht. unfold mag_close. rewrite orb_true_iff, !Qle_bool_iff.
  destruct (Qlt_le_dec 0 (a + a - tau2)) as [P | P]; [right; nra | left; exact P].
Qed.

Lemma mag_close_comp a a' b b' t t' : a == a' -> b == b' -> t == t' -> mag_close a b t = mag_close a' b' t'.
Proof. intros Ha Hb Ht. unfold mag_close. rewrite Ha, Hb, Ht. reflexivity. Qed.

Lemma norm_le_comp tl r r' d d' : r == r' -> d == d' -> norm_le tl r d = norm_le tl r' d'.
Proof.
  intros Hr Hd. unfold norm_le. destruct tl; simpl; [rewrite Hd | rewrite Hr, Hd]; reflexivity.
Qed.

(* a larger tolerance accepts more *)
Lemma norm_le_mono_abs t t' ref2 d2 : t <= t' -> norm_le (TAbs t) ref2 d2 = true -> norm_le (TAbs t') ref2 d2 = true.
Proof. intros H. rewrite !norm_le_iff, !tol_ok_abs. simpl. intros [H0 H1]. split; nra. Qed.

(* =========================================================================================== *)
(* between_comparer                                                                              *)
(* =========================================================================================== *)
Theorem between_iff_float lo hi n :
  between_cmp lo hi n = CBool true <-> exists x, n = NReal x /\ lo <= x <= hi.
Proof.
  destruct n as [x | a b]; simpl.
  - split.
    + intro H. injection H as H. apply andb_true_iff in H. destruct H as [H1 H2]. qbool. exists x. auto.
    + intros [y [E [H1 H2]]]. injection E as <-. f_equal. apply andb_true_iff.
      split; apply Qle_bool_iff; assumption.
  - split.
    + destruct (Qeq_bool b 0); discriminate.
    + intros [y [E _]]. discriminate.
Qed.

Theorem between_sound lo hi n :
  between_cmp lo hi n = CBool true -> snd (num_c n) == 0 /\ lo <= fst (num_c n) <= hi.
Proof.
  intro H. apply between_iff_float in H. destruct H as [x [-> H]]. simpl. split; [reflexivity | exact H].
Qed.

(* a non-real input is never accepted (it raises "Input must be real.") *)
Theorem between_nonreal lo hi a b : ~ b == 0 -> between_cmp lo hi (NCplx a b) = CRaise (XInputType MsgMustBeReal).
Proof.
  intro H. simpl. destruct (Qeq_bool b 0) eqn:E; [apply Qeq_bool_iff in E; contradiction | reflexivity].
Qed.

(* the full statement fails on complex-typed values with zero imaginary part: the comparison raises TypeError *)
Theorem between_iff_refuted :
  ~ (forall lo hi n, between_cmp lo hi n = CBool true <-> (snd (num_c n) == 0 /\ lo <= fst (num_c n) <= hi)).
Proof.
  intro H. specialize (H 1 3 (NCplx 2 0)). destruct H as [_ H].
  assert (E : between_cmp 1 3 (NCplx 2 0) = CBool true).
  { apply H. simpl. split; [reflexivity | split; discriminate]. }
  discriminate E.
Qed.

(* =========================================================================================== *)
(* congruence_comparer                                                                           *)
(* =========================================================================================== *)
Lemma Qfloor_unique q z : inject_Z z <= q -> q < inject_Z (z + 1) -> Qfloor q = z.
Proof.
  intros H1 H2. pose proof (Qfloor_le q) as F1. pose proof (Qlt_floor q) as F2.
  assert (A : inject_Z z < inject_Z (Qfloor q + 1)) by lra.
  assert (B : inject_Z (Qfloor q) < inject_Z (z + 1)) by lra.
  rewrite <- Zlt_Qlt in A, B. lia.
Qed.

Lemma Qfloor_shift q k : Qfloor (q + inject_Z k) = (Qfloor q + k)%Z.
Proof.
  apply Qfloor_unique.
  - rewrite inject_Z_plus. pose proof (Qfloor_le q). lra.
  - pose proof (Qlt_floor q) as H. rewrite !inject_Z_plus in *. lra.
Qed.

Lemma qmod_shift x m k : ~ m == 0 -> qmod (x + inject_Z k * m) m == qmod x m.
Proof.
  intro Hm. unfold qmod.
  assert (E : (x + inject_Z k * m) / m == x / m + inject_Z k) by (field; exact Hm).
  rewrite (Qfloor_comp _ _ E), Qfloor_shift, inject_Z_plus. ring.
Qed.

Lemma qmod_decomp x m : ~ m == 0 -> x == m * inject_Z (Qfloor (x / m)) + qmod x m.
Proof. intros _. unfold qmod. ring. Qed.

Definition in_residues (m r : Q) : Prop := (0 < m /\ 0 <= r < m) \/ (m < 0 /\ m < r <= 0).

Lemma in_residues_comp m r r' : r == r' -> in_residues m r -> in_residues m r'.
Proof. intros E [[P R] | [P R]]; [left | right]; split; try exact P; lra. Qed.

Lemma qmod_range x m : ~ m == 0 -> in_residues m (qmod x m).
Proof.
  intro Hm. unfold in_residues, qmod.
  pose proof (Qfloor_le (x / m)) as F1. pose proof (Qlt_floor (x / m)) as F2.
  rewrite inject_Z_plus in F2. change (inject_Z 1) with 1 in F2.
  set (f := inject_Z (Qfloor (x / m))) in *.
  assert (E : x == (x / m) * m) by (field; exact Hm).
  destruct (Qlt_le_dec 0 m) as [P | P].
  - left. split; [exact P|]. split; nra.
  - right. assert (m < 0) by (destruct (Qeq_dec m 0); [contradiction | lra]). split; [assumption|]. split; nra.
Qed.

(* uniqueness of the reduced representative *)
Lemma qmod_unique x m z r : ~ m == 0 -> x == m * inject_Z z + r -> in_residues m r -> qmod x m == r.
Proof.
  intros Hm E Hr. unfold qmod.
  assert (F : Qfloor (x / m) = z).
  { apply Qfloor_unique.
    - assert (x / m == inject_Z z + r / m) by (rewrite E; field; exact Hm).
      destruct Hr as [[P [R1 R2]] | [P [R1 R2]]].
      + assert (0 <= r / m) by (apply div_nonneg; assumption). lra.
      + assert (0 <= r / m).
        { setoid_replace (r / m) with ((- r) / (- m)) by (field; exact Hm). apply div_nonneg; lra. }
        lra.
    - rewrite inject_Z_plus. change (inject_Z 1) with 1.
      assert (x / m == inject_Z z + r / m) by (rewrite E; field; exact Hm).
      destruct Hr as [[P [R1 R2]] | [P [R1 R2]]].
      + assert (r / m < 1).
        { apply Qlt_shift_div_r; lra. }
        lra.
      + assert (r / m < 1).
        { setoid_replace (r / m) with ((- r) / (- m)) by (field; exact Hm). apply Qlt_shift_div_r; lra. }
        lra. }
  rewrite F, E. ring.
Qed.

Definition cong_accept (tl : tol) (t m x : Q) : Prop := congruence_cmp tl t m (NReal x) = CBool true.

Lemma cong_accept_iff tl t m x : ~ m == 0 ->
  (cong_accept tl t m x <->
   tol_ok tl = true /\ (qmod t m - qmod x m) * (qmod t m - qmod x m) <= tol2 tl (qmod t m * qmod t m)).
Proof.
  intro Hm. unfold cong_accept, congruence_cmp.
  destruct (Qeq_bool m 0) eqn:E; [apply Qeq_bool_iff in E; contradiction|].
  split.
  - intro H. injection H as H. apply norm_le_iff in H. exact H.
  - intro H. f_equal. apply norm_le_iff. exact H.
Qed.

(* soundness: whatever is accepted is congruent to the target within the effective tolerance *)
Theorem congruence_sound tl t m x : ~ m == 0 -> cong_accept tl t m x ->
  tol_ok tl = true /\
  exists k : Z, (x - (t + inject_Z k * m)) * (x - (t + inject_Z k * m)) <= tol2 tl (qmod t m * qmod t m).
Proof.
  intros Hm H. apply cong_accept_iff in H; [|exact Hm]. destruct H as [Hok H]. split; [exact Hok|].
  exists (Qfloor (x / m) - Qfloor (t / m))%Z.
  assert (E : x - (t + inject_Z (Qfloor (x / m) - Qfloor (t / m)) * m) == - (qmod t m - qmod x m)).
  { unfold qmod. unfold Zminus. rewrite inject_Z_plus, inject_Z_opp. ring. }
  rewrite E. nra.
Qed.

(* shifting the input by whole multiples of the modulus never changes the verdict *)
Theorem congruence_shift_invariant tl t m x k : ~ m == 0 ->
  (cong_accept tl t m (x + inject_Z k * m) <-> cong_accept tl t m x).
Proof.
  intro Hm. rewrite !cong_accept_iff by exact Hm. rewrite (qmod_shift x m k Hm). reflexivity.
Qed.

(* the defining transformation: target + k * modulus is accepted for every k and every tolerance *)
Theorem congruence_exact_members tl t m k : ~ m == 0 -> tol_ok tl = true -> cong_accept tl t m (t + inject_Z k * m).
Proof.
  intros Hm Hok. apply congruence_shift_invariant; [exact Hm|].
  apply cong_accept_iff; [exact Hm|]. split; [exact Hok|].
  setoid_replace ((qmod t m - qmod t m) * (qmod t m - qmod t m)) with 0 by ring.
  apply tol2_nonneg. nra.
Qed.

(* exact characterisation: accepted iff congruent within tolerance by a perturbation that does not
   cross the end of the residue interval *)
Theorem congruence_iff_no_wrap tl t m x : ~ m == 0 ->
  (cong_accept tl t m x <->
   tol_ok tl = true /\
   exists (k : Z) (e : Q), x == t + inject_Z k * m + e /\ e * e <= tol2 tl (qmod t m * qmod t m)
                           /\ in_residues m (qmod t m + e)).
Proof.
  intro Hm. rewrite cong_accept_iff by exact Hm. split.
  - intros [Hok H]. split; [exact Hok|].
    exists (Qfloor (x / m) - Qfloor (t / m))%Z, (qmod x m - qmod t m). repeat split.
    + unfold qmod. unfold Zminus. rewrite inject_Z_plus, inject_Z_opp. ring.
    + nra.
    + apply in_residues_comp with (r := qmod x m); [ring | apply qmod_range; exact Hm].
  - intros [Hok [k [e [Ex [He Hr]]]]]. split; [exact Hok|].
    assert (Q1 : qmod x m == qmod t m + e).
    { apply qmod_unique with (z := (Qfloor (t / m) + k)%Z); [exact Hm | | exact Hr].
      rewrite Ex, inject_Z_plus. unfold qmod. ring. }
    rewrite Q1. nra.
Qed.

(* completeness away from the wrap (absolute tolerance, positive modulus) *)
Theorem congruence_complete_away_from_wrap tau t m x k : 0 < m -> 0 <= tau ->
  Qabs (x - (t + inject_Z k * m)) <= tau -> tau <= qmod t m -> qmod t m + tau < m ->
  cong_accept (TAbs tau) t m x.
Proof.
  intros Hm Ht Hx H1 H2. assert (Hm' : ~ m == 0) by lra.
  apply congruence_iff_no_wrap; [exact Hm'|]. split; [apply tol_ok_abs; exact Ht|].
  exists k, (x - (t + inject_Z k * m)).
  assert (B : - tau <= x - (t + inject_Z k * m) <= tau).
  { revert Hx. apply Qabs_case; intros; lra. }
  repeat split.
  - ring.
  - simpl. nra.
  - left. split; [exact Hm|]. lra.
Qed.

(* the full "iff" fails across the wrap: target 0, modulus 1, tolerance 1/10, input -1/100 *)
Theorem congruence_iff_refuted :
  ~ (forall tau t m x, ~ m == 0 -> 0 <= tau ->
       (cong_accept (TAbs tau) t m x <-> exists k : Z, Qabs (x - (t + inject_Z k * m)) <= tau)).
Proof.
  intro H. specialize (H (1 # 10) 0 1 (- (1 # 100))).
  destruct H as [_ H]; [discriminate | discriminate |].
  assert (A : cong_accept (TAbs (1 # 10)) 0 1 (- (1 # 100))).
  { apply H. exists 0%Z. vm_compute. discriminate. }
  vm_compute in A. discriminate A.
Qed.

(* =========================================================================================== *)
(* pointwise equality of complex vectors                                                         *)
(* =========================================================================================== *)
Definition ceq (z w : C) : Prop := fst z == fst w /\ snd z == snd w.

Lemma Forall2_ceq_veq a b : Forall2 ceq a b -> veq a b.
Proof.
  induction 1 as [|x y a b [H1 H2] _ IH]; intro c; [reflexivity|].
  destruct c as [|z c]; [rewrite !rdot_nil_r; reflexivity|].
  rewrite !rdot_cons, (IH c), H1, H2. reflexivity.
Qed.

Lemma dist2_zero_veq a b : dist2 a b == 0 -> veq a b.
Proof.
  intros H c. pose proof (norm2_zero_rdot (vsub a b) c H) as E. rewrite rdot_vsub_l in E. lra.
Qed.

Lemma veq_dist2_zero a b : veq a b -> dist2 a b == 0.
Proof.
  intro H. unfold dist2, norm2. rewrite rdot_vsub_l.
  rewrite (veq_app a b (vsub a b) H). ring.
Qed.

Lemma veq_dist2 a a' b b' : veq a a' -> veq b b' -> dist2 a b == dist2 a' b'.
Proof. intros H1 H2. unfold dist2. apply veq_norm2. apply veq_vsub; assumption. Qed.

(* complex scalars *)
Lemma veq_cvscale c a b : veq a b -> veq (cvscale c a) (cvscale c b).
Proof.
  intros H x. rewrite !rdot_cvscale_l, (veq_app a b x H), (veq_app _ _ x (veq_vJ a b H)). reflexivity.
Qed.

Lemma cvscale_vsub c a b : veq (cvscale c (vsub a b)) (vsub (cvscale c a) (cvscale c b)).
Proof.
  intro x. rewrite rdot_vsub_l, !rdot_cvscale_l, rdot_vsub_l.
  rewrite (rdot_vJ_l (vsub a b) x), rdot_vsub_l, (rdot_vJ_l a x), (rdot_vJ_l b x). ring.
Qed.

Lemma dist2_cvscale c a b : dist2 (cvscale c a) (cvscale c b) == cabs2 c * dist2 a b.
Proof.
  unfold dist2. rewrite <- norm2_cvscale. apply veq_norm2. symmetry. apply cvscale_vsub.
Qed.

Lemma cvscale_cvscale c d a : veq (cvscale c (cvscale d a)) (cvscale d (cvscale c a)).
Proof.
  apply Forall2_ceq_veq. unfold cvscale. rewrite !map_map.
  induction a as [|z a IH]; constructor; [|exact IH].
  split; rewrite ?fst_cmul, ?snd_cmul, ?fst_cmul, ?snd_cmul; ring.
Qed.

Lemma cdotu_cvscale c row v : ceq (cdotu row (cvscale c v)) (cmul c (cdotu row v)).
Proof.
  revert v. induction row as [|r row IH]; intros v.
  - simpl. split; rewrite ?fst_cmul, ?snd_cmul; simpl; ring.
  - destruct v as [|z v].
    + simpl. split; rewrite ?fst_cmul, ?snd_cmul; simpl; ring.
    + unfold cvscale in *. simpl map. simpl cdotu. destruct (IH v) as [I1 I2].
      split; rewrite ?fst_cadd, ?snd_cadd, ?fst_cmul, ?snd_cmul, ?fst_cadd, ?snd_cadd, ?fst_cmul, ?snd_cmul, ?I1, ?I2,
             ?fst_cmul, ?snd_cmul; ring.
Qed.

Lemma matvec_cvscale c m v : veq (matvec m (cvscale c v)) (cvscale c (matvec m v)).
Proof.
  apply Forall2_ceq_veq. unfold matvec, cvscale at 2. rewrite map_map.
  induction m as [|row m IH]; constructor; [apply cdotu_cvscale | exact IH].
Qed.

(* =========================================================================================== *)
(* eigenvector_comparer                                                                          *)
(* =========================================================================================== *)
Definition eigen_accept (tl : tol) (m : list cvec) (lam : C) (v : cvec) : Prop :=
  eigen_core tl m lam v = CBool true.

Theorem eigenvector_iff tl m lam v :
  eigen_accept tl m lam v <->
  norm_le tl 0 (norm2 v) = false /\ tol_ok tl = true /\
  dist2 (matvec m v) (cvscale lam v) <= tol2 tl (norm2 (matvec m v)).
Proof.
  unfold eigen_accept, eigen_core, within. destruct (norm_le tl 0 (norm2 v)).
  - split; [discriminate | intros [H _]; discriminate].
  - split.
    + intro H. injection H as H. apply norm_le_iff in H. split; [reflexivity | exact H].
    + intros [_ H]. f_equal. apply norm_le_iff. exact H.
Qed.

Lemma eigen_residual_scale c m lam v :
  dist2 (matvec m (cvscale c v)) (cvscale lam (cvscale c v)) == cabs2 c * dist2 (matvec m v) (cvscale lam v).
Proof.
  rewrite <- dist2_cvscale. apply veq_dist2; [apply matvec_cvscale | apply cvscale_cvscale].
Qed.

(* members generated by the defining transformation: every rescaling of an exact eigenvector that is not
   "zero within tolerance" is accepted, whatever the tolerance *)
Theorem eigenvector_exact_members tl m lam v c : tol_ok tl = true ->
  dist2 (matvec m v) (cvscale lam v) == 0 ->
  norm_le tl 0 (norm2 (cvscale c v)) = false ->
  eigen_accept tl m lam (cvscale c v).
Proof.
  intros Hok He Hz. apply eigenvector_iff. split; [exact Hz|]. split; [exact Hok|].
  rewrite eigen_residual_scale, He. setoid_replace (cabs2 c * 0) with 0 by ring.
  apply tol2_nonneg. apply norm2_nonneg.
Qed.

(* with a percentage tolerance the verdict is invariant under every nonzero complex rescaling *)
Theorem eigenvector_scale_invariant_pct p m lam v c : 0 < cabs2 c ->
  (eigen_accept (TPct p) m lam (cvscale c v) <-> eigen_accept (TPct p) m lam v).
Proof.
  intro Hc. rewrite !eigenvector_iff. simpl tol2.
  assert (N1 : norm2 (cvscale c v) == cabs2 c * norm2 v) by apply norm2_cvscale.
  assert (N2 : norm2 (matvec m (cvscale c v)) == cabs2 c * norm2 (matvec m v)).
  { rewrite (veq_norm2 _ _ (matvec_cvscale c m v)). apply norm2_cvscale. }
  assert (Z : norm_le (TPct p) 0 (norm2 (cvscale c v)) = norm_le (TPct p) 0 (norm2 v)).
  { unfold norm_le. simpl. destruct (Qle_bool 0 p); [|reflexivity]. simpl.
    pose proof (norm2_nonneg v) as Hv.
    destruct (Qle_bool (norm2 v) (0 * (p * p))) eqn:E.
    - apply Qle_bool_iff. apply Qle_bool_iff in E. rewrite N1. nra.
    - destruct (Qle_bool (norm2 (cvscale c v)) (0 * (p * p))) eqn:E'; [|reflexivity].
      apply Qle_bool_iff in E'. rewrite N1 in E'.
      assert (norm2 v <= 0 * (p * p)) by nra. apply Qle_bool_iff in H. congruence. }
  rewrite Z, eigen_residual_scale, N2.
  pose proof (dist2_nonneg (matvec m v) (cvscale lam v)) as D.
  split; intros [H1 [H2 H3]]; (split; [exact H1|]; split; [exact H2|]).
  - apply Qmult_le_l with (z := cabs2 c); [exact Hc|]. nra.
  - nra.
Qed.

(* at zero tolerance the accepted class is exactly the nonzero solutions of M v = lambda v *)
Theorem eigenvector_iff_exact m lam v :
  eigen_accept (TAbs 0) m lam v <-> 0 < norm2 v /\ veq (matvec m v) (cvscale lam v).
Proof.
  rewrite eigenvector_iff. simpl tol2. pose proof (norm2_nonneg v) as Hv.
  pose proof (dist2_nonneg (matvec m v) (cvscale lam v)) as D. split.
  - intros [H1 [_ H3]]. split.
    + destruct (Qlt_le_dec 0 (norm2 v)) as [P | P]; [exact P|].
      assert (X : norm_le (TAbs 0) 0 (norm2 v) = true) by (apply norm_le_iff; split; [reflexivity | simpl; lra]).
      congruence.
    + apply dist2_zero_veq. lra.
  - intros [H1 H2]. split; [| split; [reflexivity|]].
    + destruct (norm_le (TAbs 0) 0 (norm2 v)) eqn:E; [|reflexivity].
      apply norm_le_iff in E. destruct E as [_ E]. simpl in E. lra.
    + rewrite (veq_dist2_zero _ _ H2). lra.
Qed.

(* =========================================================================================== *)
(* vector_span_comparer  (lstsq = its documented specification)                                   *)
(* =========================================================================================== *)
Definition span_accept (tl : tol) (ws : list cvec) (v : cvec) : Prop :=
  span_core tl (lstsq_spec ws v) v = CBool true.

Lemma lincomb_cons c cs w ws : lincomb (c :: cs) (w :: ws) = vadd (cvscale c w) (lincomb cs ws).
Proof. reflexivity. Qed.

Lemma lstsq_spec_full ws v : crank ws = length ws -> (length ws < length v)%nat -> lstsq_spec ws v = Some (cres2 ws v).
Proof.
  intros Hr Hl. unfold lstsq_spec. rewrite Hr.
  assert (E1 : (length ws <? length ws)%nat = false) by (apply Nat.ltb_ge; lia).
  assert (E2 : (length v <=? length ws)%nat = false) by (apply Nat.leb_gt; lia).
  rewrite E1, E2. reflexivity.
Qed.

(* full-strength statement, for independent spanning vectors (fewer than the dimension) *)
Theorem span_iff tl ws v : crank ws = length ws -> (length ws < length v)%nat ->
  (span_accept tl ws v <->
   norm_le tl 0 (norm2 v) = false /\ tol_ok tl = true /\
   exists cs : list C, dist2 v (lincomb cs ws) <= tol2 tl (norm2 v)).
Proof.
  intros Hr Hl. unfold span_accept, span_core. rewrite (lstsq_spec_full ws v Hr Hl).
  destruct (norm_le tl 0 (norm2 v)).
  - split; [discriminate | intros [H _]; discriminate].
  - unfold nearly_zero. split.
    + intro H. injection H as H. apply norm_le_iff in H. destruct H as [Hok H].
      split; [reflexivity|]. split; [exact Hok|].
      destruct (cres2_attained_lincomb ws v) as [cs Hcs]. exists cs. rewrite Hcs. exact H.
    + intros [_ [Hok [cs Hcs]]]. f_equal. apply norm_le_iff. split; [exact Hok|].
      pose proof (cres2_min_lincomb ws v cs). lra.
Qed.

(* members generated by the defining transformation are accepted by every configuration *)
Theorem span_members tl ws v cs : tol_ok tl = true -> norm_le tl 0 (norm2 v) = false ->
  veq v (lincomb cs ws) -> span_accept tl ws v.
Proof.
  intros Hok Hz Hv. unfold span_accept, span_core. rewrite Hz.
  destruct (lstsq_spec ws v) as [r2|] eqn:E; [|reflexivity].
  f_equal. unfold nearly_zero. apply norm_le_iff. split; [exact Hok|].
  unfold lstsq_spec in E. destruct (_ || _); [discriminate|]. injection E as <-.
  pose proof (cres2_min_lincomb ws v cs) as H. rewrite (veq_dist2_zero _ _ Hv) in H.
  pose proof (tol2_nonneg tl (norm2 v) (norm2_nonneg v)). lra.
Qed.

(* dependent spanning vectors: lstsq reports no residual and everything nonzero is accepted *)
Theorem span_rank_deficient_accepts_all tl ws v : (crank ws < length ws)%nat ->
  norm_le tl 0 (norm2 v) = false -> span_accept tl ws v.
Proof.
  intros Hr Hz. unfold span_accept, span_core, lstsq_spec. rewrite Hz.
  assert (E : (crank ws <? length ws)%nat = true) by (apply Nat.ltb_lt; exact Hr).
  rewrite E. reflexivity.
Qed.

(* ... so the full statement fails: [1,1,0],[2,2,0] accept [0,0,1], whose distance to the span is 1 *)
Definition sp_w1 : cvec := [(1, 0); (1, 0); (0, 0)].
Definition sp_w2 : cvec := [(2, 0); (2, 0); (0, 0)].
Definition sp_v : cvec := [(0, 0); (0, 0); (1, 0)].

Theorem span_iff_refuted :
  ~ (forall tl ws v, (length ws < length v)%nat ->
       (span_accept tl ws v <->
        norm_le tl 0 (norm2 v) = false /\ tol_ok tl = true /\
        exists cs : list C, dist2 v (lincomb cs ws) <= tol2 tl (norm2 v))).
Proof.
  intro H. specialize (H (TPct (1 # 10000)) [sp_w1; sp_w2] sp_v).
  destruct H as [H _]; [simpl; lia|].
  assert (A : span_accept (TPct (1 # 10000)) [sp_w1; sp_w2] sp_v) by (vm_compute; reflexivity).
  destruct (H A) as [_ [_ [cs Hcs]]].
  pose proof (cres2_min_lincomb [sp_w1; sp_w2] sp_v cs) as L.
  assert (E : cres2 [sp_w1; sp_w2] sp_v == 1) by (vm_compute; reflexivity).
  assert (T : tol2 (TPct (1 # 10000)) (norm2 sp_v) == 1 # 100000000) by (vm_compute; reflexivity).
  rewrite E in L. rewrite T in Hcs. assert (X : 1 <= 1 # 100000000) by lra. vm_compute in X. apply X. reflexivity.
Qed.

(* =========================================================================================== *)
(* vector_phase_comparer                                                                         *)
(* =========================================================================================== *)
(* the decision once the parameter is a single vector t and the input has its shape *)
Definition phase_decision (tl : tol) (t v : cvec) : bool :=
  match span_core tl (lstsq_spec [t] v) v with
  | CBool false => false
  | _ => tol_ok tl && mag_close (norm2 t) (norm2 v) (tol2 tl (norm2 t))
  end.

Lemma shape_eqb_refl s : shape_eqb s s = true.
Proof. induction s as [|x s IH]; [reflexivity|]. simpl. rewrite Z.eqb_refl. exact IH. Qed.

Lemma phase_cmp_decision d tl t v : length v = length t ->
  vector_phase_cmp (Some d) tl lstsq_spec [VVec t] (VVec v) = CBool (phase_decision tl t v).
Proof.
  intro Hl. unfold vector_phase_cmp, vector_span_cmp, same_length_vectors, validate_shape. simpl.
  rewrite !Z.eqb_refl. simpl. rewrite Hl, Z.eqb_refl. simpl.
  unfold phase_decision.
  match goal with |- context [span_core ?a ?b ?c] => destruct (span_core a b c) as [[|]|g mk|e] eqn:E end; try reflexivity.
  unfold span_core in E. destruct (norm_le tl 0 (norm2 v)); [discriminate|].
  match type of E with context [lstsq_spec ?a ?b] => destruct (lstsq_spec a b); discriminate end.
Qed.

Lemma lincomb1 u t : veq (lincomb [u] [t]) (cvscale u t).
Proof. intro c. simpl lincomb. rewrite rdot_vadd_l. simpl (rdot [] c). ring. Qed.

(* members: the target times any unit-modulus number is accepted, whatever the (valid) tolerance *)
Theorem phase_members tl t v u : tol_ok tl = true -> cabs2 u == 1 -> veq v (cvscale u t) ->
  phase_decision tl t v = true.
Proof.
  intros Hok Hu Hv. unfold phase_decision.
  assert (M : tol_ok tl && mag_close (norm2 t) (norm2 v) (tol2 tl (norm2 t)) = true).
  { rewrite Hok. simpl.
    assert (E : norm2 v == norm2 t).
    { rewrite (veq_norm2 _ _ Hv), norm2_cvscale, Hu. ring. }
    rewrite (mag_close_comp _ (norm2 t) _ (norm2 t) _ (tol2 tl (norm2 t)) (Qeq_refl _) E (Qeq_refl _)).
    apply mag_close_refl; [apply norm2_nonneg | apply tol2_nonneg; apply norm2_nonneg]. }
  unfold span_core. destruct (norm_le tl 0 (norm2 v)); [exact M|].
  destruct (lstsq_spec [t] v) as [r2|] eqn:E; [|exact M].
  assert (A : nearly_zero tl r2 (norm2 v) = true).
  { unfold nearly_zero. apply norm_le_iff. split; [exact Hok|].
    unfold lstsq_spec in E. destruct (_ || _); [discriminate|]. injection E as <-.
    pose proof (cres2_min_lincomb [t] v [u]) as H.
    assert (Z : dist2 v (lincomb [u] [t]) == 0).
    { apply veq_dist2_zero. rewrite lincomb1. exact Hv. }
    pose proof (tol2_nonneg tl (norm2 v) (norm2_nonneg v)). lra. }
  rewrite A. exact M.
Qed.

Lemma lstsq_spec_single t v : 0 < norm2 t -> (1 < length v)%nat -> lstsq_spec [t] v = Some (cres2 [t] v).
Proof.
  intros Ht Hl. apply lstsq_spec_full; [|simpl; lia].
  unfold crank. simpl. destruct (vzero t) eqn:E; [|reflexivity].
  pose proof (vzero_rdot t t E) as Z. unfold norm2 in Ht. lra.
Qed.

(* soundness: an accepted input is within tolerance of a complex multiple of the target (or "zero within
   tolerance") and has the target's magnitude within tolerance *)
Theorem phase_sound tl t v : 0 < norm2 t -> (1 < length v)%nat -> phase_decision tl t v = true ->
  tol_ok tl = true /\ mag_close (norm2 t) (norm2 v) (tol2 tl (norm2 t)) = true /\
  (norm_le tl 0 (norm2 v) = true \/ exists c : C, dist2 v (cvscale c t) <= tol2 tl (norm2 v)).
Proof.
  intros Ht Hl H. unfold phase_decision in H. rewrite (lstsq_spec_single t v Ht Hl) in H.
  unfold span_core in H. destruct (norm_le tl 0 (norm2 v)) eqn:Z.
  - apply andb_true_iff in H. destruct H as [H1 H2]. repeat split; auto.
  - destruct (nearly_zero tl (cres2 [t] v) (norm2 v)) eqn:N; [|discriminate].
    apply andb_true_iff in H. destruct H as [H1 H2]. repeat split; auto. right.
    unfold nearly_zero in N. apply norm_le_iff in N. destruct N as [_ N].
    destruct (cres2_attained_lincomb [t] v) as [cs Hcs].
    destruct cs as [|c cs].
    + exists (0, 0). simpl lincomb in Hcs.
      assert (E : dist2 v (cvscale (0, 0) t) == dist2 v []).
      { apply veq_dist2; [reflexivity|]. intro x. rewrite rdot_cvscale_l. simpl. ring. }
      rewrite E, Hcs. exact N.
    + exists c. assert (E : dist2 v (cvscale c t) == dist2 v (lincomb (c :: cs) [t])).
      { apply veq_dist2; [reflexivity|]. intro x. destruct cs; simpl lincomb; rewrite rdot_vadd_l; simpl (rdot [] x); ring. }
      rewrite E, Hcs. exact N.
Qed.

(* at zero tolerance the accepted class is exactly { u * t : |u| = 1 } *)
Theorem phase_iff_exact t v : 0 < norm2 t -> (1 < length v)%nat ->
  (phase_decision (TAbs 0) t v = true <-> exists u : C, cabs2 u == 1 /\ veq v (cvscale u t)).
Proof.
  intros Ht Hl. split.
  - intro H. destruct (phase_sound (TAbs 0) t v Ht Hl H) as [_ [M S]].
    unfold mag_close in M. simpl tol2 in M. apply orb_true_iff in M.
    pose proof (norm2_nonneg v) as Hv.
    assert (E : norm2 v == norm2 t).
    { destruct M as [M | M]; apply Qle_bool_iff in M; nra. }
    destruct S as [S | [c Hc]].
    + apply norm_le_iff in S. destruct S as [_ S]. simpl in S. lra.
    + simpl tol2 in Hc. pose proof (dist2_nonneg v (cvscale c t)) as D.
      assert (V : veq v (cvscale c t)) by (apply dist2_zero_veq; lra).
      exists c. split; [|exact V].
      pose proof (veq_norm2 _ _ V) as N. rewrite norm2_cvscale in N.
      assert (X : cabs2 c * norm2 t == norm2 t) by lra.
      apply Qmult_inj_r with (z := norm2 t); [lra|]. rewrite X. ring.
  - intros [u [Hu Hv]]. apply phase_members with (u := u); [reflexivity | exact Hu | exact Hv].
Qed.
