(* Proofs/Comparers.v -- lemmas about the comparers model (C16): tolerance on squares, between, congruence,
   eigenvector, span, phase.  (Entry/linear/shape-policy lemmas are in Proofs/ComparersCredit.v.) *)
From Coq Require Import ZArith QArith Qround Qabs Lia Lqa List Bool Setoid Morphisms.
From Verif.Lib Require Import QRound.
From Verif.Model Require Import Result Comparers.
From Verif.Proofs Require Import Credit ComparersLA.
Import ListNotations.
Open Scope Q_scope.

Arguments Qred : simpl never.

(* =========================================================================================== *)
(* tolerance on squares                                                                          *)
(* =========================================================================================== *)
Lemma norm_le_iff tl ref2 d2 : norm_le tl ref2 d2 = true <-> tol_ok tl = true /\ d2 <= tol2 tl ref2.
Proof.
  unfold norm_le. rewrite andb_true_iff, Qle_bool_iff. reflexivity.
Qed.

Lemma tol_ok_abs t : tol_ok (TAbs t) = true <-> 0 <= t.
Proof. simpl. apply Qle_bool_iff. Qed.
Lemma tol_ok_pct p : tol_ok (TPct p) = true <-> 0 <= p.
Proof. simpl. apply Qle_bool_iff. Qed.

Lemma tol2_nonneg tl ref2 : 0 <= ref2 -> 0 <= tol2 tl ref2.
Proof. intro H. destruct tl as [t|p]; simpl; nra. Qed.

(* why squares are enough: for the non-negative root x of d2 (and n of ref2) the comparison is the documented one *)
Lemma sq_le_iff x t : 0 <= x -> 0 <= t -> (x * x <= t * t <-> x <= t).
Proof. intros Hx Ht. split; intro H; nra. Qed.

Theorem norm_le_abs_root x t ref2 : 0 <= x ->
  (norm_le (TAbs t) ref2 (x * x) = true <-> 0 <= t /\ x <= t).
Proof.
  intro Hx. rewrite norm_le_iff, tol_ok_abs. simpl. split; intros [Ht H]; split; try exact Ht; nra.
Qed.

Theorem norm_le_pct_root x n p : 0 <= x -> 0 <= n ->
  (norm_le (TPct p) (n * n) (x * x) = true <-> 0 <= p /\ x <= n * p).
Proof.
  intros Hx Hn. rewrite norm_le_iff, tol_ok_pct. simpl. split; intros [Hp H]; split; try exact Hp.
  - assert (E : x * x <= (n * p) * (n * p)) by nra. assert (0 <= n * p) by nra. nra.
  - assert (0 <= n * p) by nra. nra.
Qed.

Lemma abs_le_of_sq a t : 0 <= t -> a * a <= t * t -> Qabs a <= t.
Proof. intros Ht H. apply Qabs_case; intros; nra. Qed.

Theorem mag_close_root x y t : 0 <= x -> 0 <= y -> 0 <= t ->
  (mag_close (x * x) (y * y) (t * t) = true <-> Qabs (x - y) <= t).
Proof.
  intros Hx Hy Ht. unfold mag_close. rewrite orb_true_iff, !Qle_bool_iff.
  assert (Hxy : 0 <= x * y) by nra. assert (Hxy2 : 0 <= 2 * (x * y)) by lra. split.
  - intros H. apply abs_le_of_sq; [exact Ht|].
    destruct (Qlt_le_dec 0 (x * x + y * y - t * t)) as [P | P]; [|nra].
    destruct H as [H | H]; [lra|].
    assert (S : x * x + y * y - t * t <= 2 * (x * y)).
    { apply (proj1 (sq_le_iff _ _ (Qlt_le_weak _ _ P) Hxy2)).
      setoid_replace (2 * (x * y) * (2 * (x * y))) with (4 * (x * x) * (y * y)) by ring. exact H. }
    nra.
  - intro H. assert (H1 : x - y <= t /\ y - x <= t).
    { revert H. apply Qabs_case; intros; split; lra. }
    destruct H1 as [H1 H2].
    destruct (Qlt_le_dec 0 (x * x + y * y - t * t)) as [P | P]; [right | left; exact P].
    assert (D : (x - y) * (x - y) <= t * t) by nra.
    assert (S : x * x + y * y - t * t <= 2 * (x * y)) by nra.
    assert (G : (x * x + y * y - t * t) * (x * x + y * y - t * t) <= (2 * (x * y)) * (2 * (x * y))).
    { apply (proj2 (sq_le_iff _ _ (Qlt_le_weak _ _ P) Hxy2)). exact S. }
    setoid_replace (4 * (x * x) * (y * y)) with (2 * (x * y) * (2 * (x * y))) by ring. exact G.
Qed.

Lemma mag_close_refl a tau2 : 0 <= a -> 0 <= tau2 -> mag_close a a tau2 = true.
Proof.
  intros Ha Ht. unfold mag_close. rewrite orb_true_iff, !Qle_bool_iff.
  destruct (Qlt_le_dec 0 (a + a - tau2)) as [P | P]; [right; nra | left; exact P].
Qed.

Lemma mag_close_comp a a' b b' t t' : a == a' -> b == b' -> t == t' -> mag_close a b t = mag_close a' b' t'.
Proof. intros Ha Hb Ht. unfold mag_close. rewrite Ha, Hb, Ht. reflexivity. Qed.

Lemma norm_le_comp tl r r' d d' : r == r' -> d == d' -> norm_le tl r d = norm_le tl r' d'.
Proof.
  intros Hr Hd. unfold norm_le. destruct tl; simpl; [rewrite Hd | rewrite Hr, Hd]; reflexivity.
Qed.

(* a larger tolerance accepts more *)
Lemma norm_le_mono_abs t t' ref2 d2 : t <= t' -> norm_le (TAbs t) ref2 d2 = true -> norm_le (TAbs t') ref2 d2 = true.
Proof. intros H. rewrite !norm_le_iff, !tol_ok_abs. simpl. intros [H0 H1]. split; nra. Qed.

(* =========================================================================================== *)
(* between_comparer                                                                              *)
(* =========================================================================================== *)
Theorem between_iff lo hi n :
  between_cmp lo hi n = CBool true <-> (snd (num_c n) == 0 /\ lo <= fst (num_c n) <= hi).
Proof.
  destruct n as [x | a b]; simpl.
  - split.
    + intro H. injection H as H. apply andb_true_iff in H. destruct H as [H1 H2]. qbool. split; [reflexivity | auto].
    + intros [_ [H1 H2]]. f_equal. apply andb_true_iff. split; apply Qle_bool_iff; assumption.
  - destruct (Qeq_bool b 0) eqn:E.
    + apply Qeq_bool_iff in E. split.
      * intro H. injection H as H. apply andb_true_iff in H. destruct H as [H1 H2]. qbool. auto.
      * intros [_ [H1 H2]]. f_equal. apply andb_true_iff. split; apply Qle_bool_iff; assumption.
    + split; [discriminate|]. intros [H _]. apply Qeq_bool_neq in E. contradiction.
Qed.

(* a non-real input is never accepted (it raises "Input must be real.") *)
Theorem between_nonreal lo hi a b : ~ b == 0 -> between_cmp lo hi (NCplx a b) = CRaise (XInputType MsgMustBeReal).
Proof.
  intro H. simpl. destruct (Qeq_bool b 0) eqn:E; [apply Qeq_bool_iff in E; contradiction | reflexivity].
Qed.

(* =========================================================================================== *)
(* congruence_comparer                                                                           *)
(* =========================================================================================== *)
Lemma Qfloor_unique q z : inject_Z z <= q -> q < inject_Z (z + 1) -> Qfloor q = z.
Proof.
  intros H1 H2. pose proof (Qfloor_le q) as F1. pose proof (Qlt_floor q) as F2.
  assert (A : inject_Z z < inject_Z (Qfloor q + 1)) by lra.
  assert (B : inject_Z (Qfloor q) < inject_Z (z + 1)) by lra.
  rewrite <- Zlt_Qlt in A, B. lia.
Qed.

Lemma Qfloor_shift q k : Qfloor (q + inject_Z k) = (Qfloor q + k)%Z.
Proof.
  apply Qfloor_unique.
  - rewrite inject_Z_plus. pose proof (Qfloor_le q). lra.
  - pose proof (Qlt_floor q) as H. rewrite !inject_Z_plus in *. lra.
Qed.

Lemma qmod_shift x m k : ~ m == 0 -> qmod (x + inject_Z k * m) m == qmod x m.
Proof.
  intro Hm. unfold qmod.
  assert (E : (x + inject_Z k * m) / m == x / m + inject_Z k) by (field; exact Hm).
  rewrite (Qfloor_comp _ _ E), Qfloor_shift, inject_Z_plus. ring.
Qed.

Lemma qmod_decomp x m : ~ m == 0 -> x == m * inject_Z (Qfloor (x / m)) + qmod x m.
Proof. intros _. unfold qmod. ring. Qed.

Definition in_residues (m r : Q) : Prop := (0 < m /\ 0 <= r < m) \/ (m < 0 /\ m < r <= 0).

Lemma in_residues_comp m r r' : r == r' -> in_residues m r -> in_residues m r'.
Proof. intros E [[P R] | [P R]]; [left | right]; split; try exact P; lra. Qed.

Lemma qmod_range x m : ~ m == 0 -> in_residues m (qmod x m).
Proof.
  intro Hm. unfold in_residues, qmod.
  pose proof (Qfloor_le (x / m)) as F1. pose proof (Qlt_floor (x / m)) as F2.
  rewrite inject_Z_plus in F2. change (inject_Z 1) with 1 in F2.
  set (f := inject_Z (Qfloor (x / m))) in *.
  assert (E : x == (x / m) * m) by (field; exact Hm).
  destruct (Qlt_le_dec 0 m) as [P | P].
  - left. split; [exact P|]. split; nra.
  - right. assert (m < 0) by (destruct (Qeq_dec m 0); [contradiction | lra]). split; [assumption|]. split; nra.
Qed.

(* uniqueness of the reduced representative *)
Lemma qmod_unique x m z r : ~ m == 0 -> x == m * inject_Z z + r -> in_residues m r -> qmod x m == r.
Proof.
  intros Hm E Hr. unfold qmod.
  assert (F : Qfloor (x / m) = z).
  { apply Qfloor_unique.
    - assert (x / m == inject_Z z + r / m) by (rewrite E; field; exact Hm).
      destruct Hr as [[P [R1 R2]] | [P [R1 R2]]].
      + assert (0 <= r / m) by (apply div_nonneg; assumption). lra.
      + assert (0 <= r / m).
        { setoid_replace (r / m) with ((- r) / (- m)) by (field; exact Hm). apply div_nonneg; lra. }
        lra.
    - rewrite inject_Z_plus. change (inject_Z 1) with 1.
      assert (x / m == inject_Z z + r / m) by (rewrite E; field; exact Hm).
      destruct Hr as [[P [R1 R2]] | [P [R1 R2]]].
      + assert (r / m < 1).
        { apply Qlt_shift_div_r; lra. }
        lra.
      + assert (r / m < 1).
        { setoid_replace (r / m) with ((- r) / (- m)) by (field; exact Hm). apply Qlt_shift_div_r; lra. }
        lra. }
  rewrite F, E. ring.
Qed.

Definition cong_accept (tl : tol) (t m x : Q) : Prop := congruence_cmp tl t m (NReal x) = CBool true.

Lemma cong_accept_iff tl t m x : ~ m == 0 ->
  (cong_accept tl t m x <->
   tol_ok tl = true /\
   exists s, (s == 0 \/ s == m \/ s == - m) /\
             (qmod t m - (qmod x m + s)) * (qmod t m - (qmod x m + s)) <= tol2 tl (qmod t m * qmod t m)).
Proof.
  intro Hm. unfold cong_accept, congruence_cmp.
  destruct (Qeq_bool m 0) eqn:E; [apply Qeq_bool_iff in E; contradiction|].
  split.
  - intro H. injection H as H. apply orb_true_iff in H. destruct H as [H | H]; [apply orb_true_iff in H; destruct H as [H | H]|];
      apply norm_le_iff in H; destruct H as [Hok H]; (split; [exact Hok|]).
    + exists 0. split; [left; reflexivity | exact H].
    + exists m. split; [right; left; reflexivity | exact H].
    + exists (- m). split; [right; right; reflexivity | exact H].
  - intros [Hok [s [Hs H]]]. f_equal.
    assert (W : forall s', s == s' ->
              norm_le tl (qmod t m * qmod t m) ((qmod t m - (qmod x m + s')) * (qmod t m - (qmod x m + s'))) = true).
    { intros s' Es. apply norm_le_iff. split; [exact Hok|]. rewrite <- Es. exact H. }
    destruct Hs as [Hs | [Hs | Hs]].
    + rewrite (W 0 Hs). reflexivity.
    + rewrite (W m Hs). apply orb_true_iff. left. apply orb_true_r.
    + rewrite (W (- m) Hs). apply orb_true_r.
Qed.

Lemma far_multiple d m N : (- m < d < m \/ m < d < - m) -> (2 <= N \/ N <= - (2)) ->
  d * d <= (d + N * m) * (d + N * m).
Proof.
  intros Hd HN. set (P := N * m).
  assert (G : 0 <= P * (2 * d + P)).
  { destruct Hd as [[H1 H2] | [H1 H2]]; destruct HN as [HN | HN]; unfold P.
    - assert (2 * m <= N * m) by nra. apply Qmult_le_0_compat; lra.
    - assert (N * m <= - (2 * m)) by nra.
      setoid_replace (N * m * (2 * d + N * m)) with ((- (N * m)) * (- (2 * d + N * m))) by ring.
      apply Qmult_le_0_compat; lra.
    - assert (N * m <= 2 * m) by nra.
      setoid_replace (N * m * (2 * d + N * m)) with ((- (N * m)) * (- (2 * d + N * m))) by ring.
      apply Qmult_le_0_compat; lra.
    - assert (- (2 * m) <= N * m) by nra. apply Qmult_le_0_compat; lra. }
  setoid_replace ((d + P) * (d + P)) with (d * d + P * (2 * d + P)) by ring. lra.
Qed.

(* FULL STATEMENT: accepted iff the input equals the target modulo the modulus within the effective tolerance
   (a percentage tolerance is relative to the reduced target) *)
Theorem congruence_iff tl t m x : ~ m == 0 ->
  (cong_accept tl t m x <->
   tol_ok tl = true /\
   exists k : Z, (x - (t + inject_Z k * m)) * (x - (t + inject_Z k * m)) <= tol2 tl (qmod t m * qmod t m)).
Proof.
  intro Hm. rewrite cong_accept_iff by exact Hm.
  set (ft := Qfloor (t / m)). set (fx := Qfloor (x / m)).
  assert (Et : qmod t m == t - m * inject_Z ft) by reflexivity.
  assert (Ex : qmod x m == x - m * inject_Z fx) by reflexivity.
  split; intros [Hok H]; (split; [exact Hok|]).
  - destruct H as [s [Hs H]].
    destruct Hs as [Hs | [Hs | Hs]].
    + exists (fx - ft)%Z. unfold Zminus. rewrite inject_Z_plus, inject_Z_opp.
      setoid_replace ((x - (t + (inject_Z fx + - inject_Z ft) * m)) * (x - (t + (inject_Z fx + - inject_Z ft) * m)))
        with ((qmod t m - (qmod x m + s)) * (qmod t m - (qmod x m + s))) by (rewrite Et, Ex, Hs; ring). exact H.
    + exists (fx - ft - 1)%Z. unfold Zminus. rewrite !inject_Z_plus, !inject_Z_opp. change (inject_Z 1) with 1.
      setoid_replace ((x - (t + (inject_Z fx + - inject_Z ft + - (1)) * m)) * (x - (t + (inject_Z fx + - inject_Z ft + - (1)) * m)))
        with ((qmod t m - (qmod x m + s)) * (qmod t m - (qmod x m + s))) by (rewrite Et, Ex, Hs; ring). exact H.
    + exists (fx - ft + 1)%Z. unfold Zminus. rewrite !inject_Z_plus, !inject_Z_opp. change (inject_Z 1) with 1.
      setoid_replace ((x - (t + (inject_Z fx + - inject_Z ft + 1) * m)) * (x - (t + (inject_Z fx + - inject_Z ft + 1) * m)))
        with ((qmod t m - (qmod x m + s)) * (qmod t m - (qmod x m + s))) by (rewrite Et, Ex, Hs; ring). exact H.
  - destruct H as [k H].
    set (d := qmod x m - qmod t m).
    set (n := (fx - ft - k)%Z).
    assert (ED : x - (t + inject_Z k * m) == d + inject_Z n * m).
    { unfold d, n. rewrite Et, Ex. unfold Zminus. rewrite !inject_Z_plus, !inject_Z_opp. ring. }
    assert (Hd : - m < d < m \/ m < d < - m).
    { unfold d. destruct (qmod_range t m Hm) as [[P1 R1] | [P1 R1]]; destruct (qmod_range x m Hm) as [[P2 R2] | [P2 R2]];
        try lra. }
    assert (Cases : (n = 0 \/ n = 1 \/ n = -1 \/ 2 <= n \/ n <= -2)%Z) by lia.
    destruct Cases as [C | [C | [C | C]]].
    + exists 0. split; [left; reflexivity|].
      setoid_replace ((qmod t m - (qmod x m + 0)) * (qmod t m - (qmod x m + 0))) with ((d + inject_Z n * m) * (d + inject_Z n * m))
        by (rewrite C; unfold d; simpl; ring).
      rewrite <- ED. exact H.
    + exists m. split; [right; left; reflexivity|].
      setoid_replace ((qmod t m - (qmod x m + m)) * (qmod t m - (qmod x m + m))) with ((d + inject_Z n * m) * (d + inject_Z n * m))
        by (rewrite C; unfold d; change (inject_Z 1) with 1; ring).
      rewrite <- ED. exact H.
    + exists (- m). split; [right; right; reflexivity|].
      setoid_replace ((qmod t m - (qmod x m + - m)) * (qmod t m - (qmod x m + - m))) with ((d + inject_Z n * m) * (d + inject_Z n * m))
        by (rewrite C; unfold d; change (inject_Z (-1)) with (- (1)); ring).
      rewrite <- ED. exact H.
    + exists 0. split; [left; reflexivity|].
      assert (HN : 2 <= inject_Z n \/ inject_Z n <= - (2)).
      { destruct C as [C | C]; [left; change 2 with (inject_Z 2) | right; change (- (2)) with (inject_Z (-2))];
          rewrite <- Zle_Qle; exact C. }
      pose proof (far_multiple d m (inject_Z n) Hd HN) as F.
      setoid_replace ((qmod t m - (qmod x m + 0)) * (qmod t m - (qmod x m + 0))) with (d * d) by (unfold d; ring).
      rewrite ED in H. lra.
Qed.

(* absolute tolerance, in the familiar form *)
Theorem congruence_iff_abs tau t m x : ~ m == 0 -> 0 <= tau ->
  (cong_accept (TAbs tau) t m x <-> exists k : Z, Qabs (x - (t + inject_Z k * m)) <= tau).
Proof.
  intros Hm Ht. rewrite congruence_iff by exact Hm. simpl tol2. split.
  - intros [_ [k H]]. exists k. apply abs_le_of_sq; assumption.
  - intros [k H]. split; [apply tol_ok_abs; exact Ht|]. exists k.
    assert (B : - tau <= x - (t + inject_Z k * m) <= tau) by (revert H; apply Qabs_case; intros; lra). nra.
Qed.

(* shifting the input by whole multiples of the modulus never changes the verdict *)
Theorem congruence_shift_invariant tl t m x j : ~ m == 0 ->
  (cong_accept tl t m (x + inject_Z j * m) <-> cong_accept tl t m x).
Proof.
  intro Hm. rewrite !congruence_iff by exact Hm. split; intros [Hok [k H]]; (split; [exact Hok|]).
  - exists (k - j)%Z. unfold Zminus. rewrite inject_Z_plus, inject_Z_opp.
    setoid_replace (x - (t + (inject_Z k + - inject_Z j) * m)) with (x + inject_Z j * m - (t + inject_Z k * m)) by ring. exact H.
  - exists (k + j)%Z. rewrite inject_Z_plus.
    setoid_replace (x + inject_Z j * m - (t + (inject_Z k + inject_Z j) * m)) with (x - (t + inject_Z k * m)) by ring. exact H.
Qed.

(* the defining transformation: target + k * modulus is accepted for every k and every tolerance *)
Theorem congruence_exact_members tl t m k : ~ m == 0 -> tol_ok tl = true -> cong_accept tl t m (t + inject_Z k * m).
Proof.
  intros Hm Hok. apply congruence_iff; [exact Hm|]. split; [exact Hok|]. exists k.
  setoid_replace ((t + inject_Z k * m - (t + inject_Z k * m)) * (t + inject_Z k * m - (t + inject_Z k * m))) with 0 by ring.
  apply tol2_nonneg. nra.
Qed.

(* =========================================================================================== *)
(* pointwise equality of complex vectors                                                         *)
(* =========================================================================================== *)
Definition ceq (z w : C) : Prop := fst z == fst w /\ snd z == snd w.

Lemma Forall2_ceq_veq a b : Forall2 ceq a b -> veq a b.
Proof.
  induction 1 as [|x y a b [H1 H2] _ IH]; intro c; [reflexivity|].
  destruct c as [|z c]; [rewrite !rdot_nil_r; reflexivity|].
  rewrite !rdot_cons, (IH c), H1, H2. reflexivity.
Qed.

Lemma dist2_zero_veq a b : dist2 a b == 0 -> veq a b.
Proof.
  intros H c. pose proof (norm2_zero_rdot (vsub a b) c H) as E. rewrite rdot_vsub_l in E. lra.
Qed.

Lemma veq_dist2_zero a b : veq a b -> dist2 a b == 0.
Proof.
  intro H. unfold dist2, norm2. rewrite rdot_vsub_l.
  rewrite (veq_app a b (vsub a b) H). ring.
Qed.

Lemma veq_dist2 a a' b b' : veq a a' -> veq b b' -> dist2 a b == dist2 a' b'.
Proof. intros H1 H2. unfold dist2. apply veq_norm2. apply veq_vsub; assumption. Qed.

(* complex scalars *)
Lemma veq_cvscale c a b : veq a b -> veq (cvscale c a) (cvscale c b).
Proof.
  intros H x. rewrite !rdot_cvscale_l, (veq_app a b x H), (veq_app _ _ x (veq_vJ a b H)). reflexivity.
Qed.

Lemma cvscale_vsub c a b : veq (cvscale c (vsub a b)) (vsub (cvscale c a) (cvscale c b)).
Proof.
  intro x. rewrite rdot_vsub_l, !rdot_cvscale_l, rdot_vsub_l.
  rewrite (rdot_vJ_l (vsub a b) x), rdot_vsub_l, (rdot_vJ_l a x), (rdot_vJ_l b x). ring.
Qed.

Lemma dist2_cvscale c a b : dist2 (cvscale c a) (cvscale c b) == cabs2 c * dist2 a b.
Proof.
  unfold dist2. rewrite <- norm2_cvscale. apply veq_norm2. symmetry. apply cvscale_vsub.
Qed.

Lemma cvscale_cvscale c d a : veq (cvscale c (cvscale d a)) (cvscale d (cvscale c a)).
Proof.
  apply Forall2_ceq_veq. unfold cvscale. rewrite !map_map.
  induction a as [|z a IH]; constructor; [|exact IH].
  split; rewrite ?fst_cmul, ?snd_cmul, ?fst_cmul, ?snd_cmul; ring.
Qed.

Lemma cdotu_cvscale c row v : ceq (cdotu row (cvscale c v)) (cmul c (cdotu row v)).
Proof.
  revert v. induction row as [|r row IH]; intros v.
  - simpl. split; rewrite ?fst_cmul, ?snd_cmul; simpl; ring.
  - destruct v as [|z v].
    + simpl. split; rewrite ?fst_cmul, ?snd_cmul; simpl; ring.
    + unfold cvscale in *. simpl map. simpl cdotu. destruct (IH v) as [I1 I2].
      split; rewrite ?fst_cadd, ?snd_cadd, ?fst_cmul, ?snd_cmul, ?fst_cadd, ?snd_cadd, ?fst_cmul, ?snd_cmul, ?I1, ?I2,
             ?fst_cmul, ?snd_cmul; ring.
Qed.

Lemma matvec_cvscale c m v : veq (matvec m (cvscale c v)) (cvscale c (matvec m v)).
Proof.
  apply Forall2_ceq_veq. unfold matvec, cvscale at 2. rewrite map_map.
  induction m as [|row m IH]; constructor; [apply cdotu_cvscale | exact IH].
Qed.

(* =========================================================================================== *)
(* eigenvector_comparer                                                                          *)
(* =========================================================================================== *)
Definition eigen_accept (tl : tol) (m : list cvec) (lam : C) (v : cvec) : Prop :=
  eigen_core tl m lam v = CBool true.

Theorem eigenvector_iff tl m lam v :
  eigen_accept tl m lam v <->
  norm_le tl 0 (norm2 v) = false /\ tol_ok tl = true /\
  dist2 (matvec m v) (cvscale lam v) <= tol2 tl (norm2 (matvec m v)).
Proof.
  unfold eigen_accept, eigen_core, within. destruct (norm_le tl 0 (norm2 v)).
  - split; [discriminate | intros [H _]; discriminate].
  - split.
    + intro H. injection H as H. apply norm_le_iff in H. split; [reflexivity | exact H].
    + intros [_ H]. f_equal. apply norm_le_iff. exact H.
Qed.

Lemma eigen_residual_scale c m lam v :
  dist2 (matvec m (cvscale c v)) (cvscale lam (cvscale c v)) == cabs2 c * dist2 (matvec m v) (cvscale lam v).
Proof.
  rewrite <- dist2_cvscale. apply veq_dist2; [apply matvec_cvscale | apply cvscale_cvscale].
Qed.

(* members generated by the defining transformation: every rescaling of an exact eigenvector that is not
   "zero within tolerance" is accepted, whatever the tolerance *)
Theorem eigenvector_exact_members tl m lam v c : tol_ok tl = true ->
  dist2 (matvec m v) (cvscale lam v) == 0 ->
  norm_le tl 0 (norm2 (cvscale c v)) = false ->
  eigen_accept tl m lam (cvscale c v).
Proof.
  intros Hok He Hz. apply eigenvector_iff. split; [exact Hz|]. split; [exact Hok|].
  rewrite eigen_residual_scale, He. setoid_replace (cabs2 c * 0) with 0 by ring.
  apply tol2_nonneg. apply norm2_nonneg.
Qed.

(* with a percentage tolerance the verdict is invariant under every nonzero complex rescaling *)
Theorem eigenvector_scale_invariant_pct p m lam v c : 0 < cabs2 c ->
  (eigen_accept (TPct p) m lam (cvscale c v) <-> eigen_accept (TPct p) m lam v).
Proof.
  intro Hc. rewrite !eigenvector_iff. simpl tol2.
  assert (N1 : norm2 (cvscale c v) == cabs2 c * norm2 v) by apply norm2_cvscale.
  assert (N2 : norm2 (matvec m (cvscale c v)) == cabs2 c * norm2 (matvec m v)).
  { rewrite (veq_norm2 _ _ (matvec_cvscale c m v)). apply norm2_cvscale. }
  assert (Z : norm_le (TPct p) 0 (norm2 (cvscale c v)) = norm_le (TPct p) 0 (norm2 v)).
  { unfold norm_le. simpl. destruct (Qle_bool 0 p); [|reflexivity]. simpl.
    pose proof (norm2_nonneg v) as Hv.
    destruct (Qle_bool (norm2 v) (0 * (p * p))) eqn:E.
    - apply Qle_bool_iff. apply Qle_bool_iff in E. rewrite N1. nra.
    - destruct (Qle_bool (norm2 (cvscale c v)) (0 * (p * p))) eqn:E'; [|reflexivity].
      apply Qle_bool_iff in E'. rewrite N1 in E'.
      assert (norm2 v <= 0 * (p * p)) by nra. apply Qle_bool_iff in H. congruence. }
  rewrite Z, eigen_residual_scale, N2.
  pose proof (dist2_nonneg (matvec m v) (cvscale lam v)) as D.
  split; intros [H1 [H2 H3]]; (split; [exact H1|]; split; [exact H2|]).
  - apply Qmult_le_l with (z := cabs2 c); [exact Hc|]. nra.
  - nra.
Qed.

(* at zero tolerance the accepted class is exactly the nonzero solutions of M v = lambda v *)
Theorem eigenvector_iff_exact m lam v :
  eigen_accept (TAbs 0) m lam v <-> 0 < norm2 v /\ veq (matvec m v) (cvscale lam v).
Proof.
  rewrite eigenvector_iff. simpl tol2. pose proof (norm2_nonneg v) as Hv.
  pose proof (dist2_nonneg (matvec m v) (cvscale lam v)) as D. split.
  - intros [H1 [_ H3]]. split.
    + destruct (Qlt_le_dec 0 (norm2 v)) as [P | P]; [exact P|].
      assert (X : norm_le (TAbs 0) 0 (norm2 v) = true) by (apply norm_le_iff; split; [reflexivity | simpl; lra]).
      congruence.
    + apply dist2_zero_veq. lra.
  - intros [H1 H2]. split; [| split; [reflexivity|]].
    + destruct (norm_le (TAbs 0) 0 (norm2 v)) eqn:E; [|reflexivity].
      apply norm_le_iff in E. destruct E as [_ E]. simpl in E. lra.
    + rewrite (veq_dist2_zero _ _ H2). lra.
Qed.

(* =========================================================================================== *)
(* vector_span_comparer  (coeffs = what lstsq returned)                                           *)
(* =========================================================================================== *)
Definition span_accept (tl : tol) (ws : list cvec) (coeffs : list C) (v : cvec) : Prop :=
  span_core tl ws coeffs v = CBool true.

(* lstsq's contract: the returned coefficients minimise |v - sum c_j w_j| *)
Definition minimiser (ws : list cvec) (coeffs : list C) (v : cvec) : Prop :=
  dist2 v (lincomb coeffs ws) == cres2 ws v.

Lemma lincomb_cons c cs w ws : lincomb (c :: cs) (w :: ws) = vadd (cvscale c w) (lincomb cs ws).
Proof. reflexivity. Qed.

Lemma span_accept_iff tl ws coeffs v :
  span_accept tl ws coeffs v <->
  norm_le tl 0 (norm2 v) = false /\ tol_ok tl = true /\ dist2 v (lincomb coeffs ws) <= tol2 tl (norm2 v).
Proof.
  unfold span_accept, span_core. destruct (norm_le tl 0 (norm2 v)).
  - split; [discriminate | intros [H _]; discriminate].
  - unfold nearly_zero. split.
    + intro H. injection H as H. apply norm_le_iff in H. split; [reflexivity | exact H].
    + intros [_ H]. f_equal. apply norm_le_iff. exact H.
Qed.

(* soundness needs nothing from lstsq: whatever is accepted is within tolerance of an explicit combination *)
Theorem span_sound tl ws coeffs v : span_accept tl ws coeffs v ->
  norm_le tl 0 (norm2 v) = false /\ tol_ok tl = true /\
  exists cs : list C, dist2 v (lincomb cs ws) <= tol2 tl (norm2 v).
Proof.
  intro H. apply span_accept_iff in H. destruct H as [H1 [H2 H3]]. repeat split; auto. exists coeffs. exact H3.
Qed.

(* FULL STATEMENT, every family of spanning vectors (dependent or not, any number) *)
Theorem span_iff tl ws coeffs v : minimiser ws coeffs v ->
  (span_accept tl ws coeffs v <->
   norm_le tl 0 (norm2 v) = false /\ tol_ok tl = true /\
   exists cs : list C, dist2 v (lincomb cs ws) <= tol2 tl (norm2 v)).
Proof.
  intro Hmin. split; [apply span_sound|].
  intros [H1 [H2 [cs Hcs]]]. apply span_accept_iff. repeat split; auto.
  unfold minimiser in Hmin. rewrite Hmin. pose proof (cres2_min_lincomb ws v cs). lra.
Qed.

(* members generated by the defining transformation are accepted by every configuration *)
Theorem span_members tl ws coeffs v cs : minimiser ws coeffs v -> tol_ok tl = true -> norm_le tl 0 (norm2 v) = false ->
  veq v (lincomb cs ws) -> span_accept tl ws coeffs v.
Proof.
  intros Hmin Hok Hz Hv. apply span_iff; [exact Hmin|]. repeat split; auto. exists cs.
  rewrite (veq_dist2_zero _ _ Hv). apply tol2_nonneg. apply norm2_nonneg.
Qed.

(* a minimiser always exists, so the contract is satisfiable for every input *)
Theorem minimiser_exists ws v : exists coeffs, minimiser ws coeffs v.
Proof. exact (cres2_attained_lincomb ws v). Qed.

(* =========================================================================================== *)
(* vector_phase_comparer                                                                         *)
(* =========================================================================================== *)
(* the decision once the parameter is a single vector t and the input has its shape *)
Definition phase_decision (tl : tol) (t : cvec) (coeffs : list C) (v : cvec) : bool :=
  match span_core tl [t] coeffs v with
  | CBool false => false
  | _ => tol_ok tl && mag_close (norm2 t) (norm2 v) (tol2 tl (norm2 t))
  end.

Lemma shape_eqb_refl s : shape_eqb s s = true.
Proof. induction s as [|x s IH]; [reflexivity|]. simpl. rewrite Z.eqb_refl. exact IH. Qed.

Lemma phase_cmp_decision d tl lstsq (t v : cvec) : length v = length t ->
  vector_phase_cmp (Some d) tl lstsq [VVec t] (VVec v) = CBool (phase_decision tl t (lstsq [t] v) v).
Proof.
  intro Hl. unfold vector_phase_cmp, vector_span_cmp, same_length_vectors, validate_shape. simpl.
  rewrite !Z.eqb_refl. simpl. rewrite Hl, Z.eqb_refl. simpl.
  unfold phase_decision.
  match goal with |- context [span_core ?a ?b ?c ?e] => destruct (span_core a b c e) as [[|]|g mk|e0] eqn:E end; try reflexivity.
  unfold span_core in E. destruct (norm_le tl 0 (norm2 v)); discriminate.
Qed.

Lemma lincomb1 u (t : cvec) : veq (lincomb [u] [t]) (cvscale u t).
Proof. intro c. simpl lincomb. rewrite rdot_vadd_l. simpl (rdot [] c). ring. Qed.

Lemma lincomb_single cs (t : cvec) : veq (lincomb cs [t]) (cvscale (hd (0, 0) cs) t).
Proof.
  intro c. destruct cs as [|a [|b cs]]; cbn [lincomb hd]; rewrite ?rdot_vadd_l, ?rdot_cvscale_l; cbn [fst snd rdot]; ring.
Qed.

(* members: the target times any unit-modulus number is accepted, whatever the (valid) tolerance *)
Theorem phase_members tl t coeffs v u : minimiser [t] coeffs v -> tol_ok tl = true -> cabs2 u == 1 -> veq v (cvscale u t) ->
  phase_decision tl t coeffs v = true.
Proof.
  intros Hmin Hok Hu Hv. unfold phase_decision.
  assert (M : tol_ok tl && mag_close (norm2 t) (norm2 v) (tol2 tl (norm2 t)) = true).
  { rewrite Hok. simpl.
    assert (E : norm2 v == norm2 t).
    { rewrite (veq_norm2 _ _ Hv), norm2_cvscale, Hu. ring. }
    rewrite (mag_close_comp _ (norm2 t) _ (norm2 t) _ (tol2 tl (norm2 t)) (Qeq_refl _) E (Qeq_refl _)).
    apply mag_close_refl; [apply norm2_nonneg | apply tol2_nonneg; apply norm2_nonneg]. }
  unfold span_core. destruct (norm_le tl 0 (norm2 v)); [exact M|].
  assert (A : nearly_zero tl (dist2 v (lincomb coeffs [t])) (norm2 v) = true).
  { unfold nearly_zero. apply norm_le_iff. split; [exact Hok|].
    unfold minimiser in Hmin. rewrite Hmin.
    pose proof (cres2_min_lincomb [t] v [u]) as H.
    assert (Z : dist2 v (lincomb [u] [t]) == 0).
    { apply veq_dist2_zero. rewrite lincomb1. exact Hv. }
    pose proof (tol2_nonneg tl (norm2 v) (norm2_nonneg v)). lra. }
  rewrite A. exact M.
Qed.

(* soundness (nothing needed from lstsq): an accepted input is within tolerance of a complex multiple of the
   target (or "zero within tolerance") and has the target's magnitude within tolerance *)
Theorem phase_sound tl t coeffs v : phase_decision tl t coeffs v = true ->
  tol_ok tl = true /\ mag_close (norm2 t) (norm2 v) (tol2 tl (norm2 t)) = true /\
  (norm_le tl 0 (norm2 v) = true \/ exists c : C, dist2 v (cvscale c t) <= tol2 tl (norm2 v)).
Proof.
  intro H. unfold phase_decision, span_core in H. destruct (norm_le tl 0 (norm2 v)) eqn:Z.
  - apply andb_true_iff in H. destruct H as [H1 H2]. repeat split; auto.
  - destruct (nearly_zero tl (dist2 v (lincomb coeffs [t])) (norm2 v)) eqn:N; [|discriminate].
    apply andb_true_iff in H. destruct H as [H1 H2]. repeat split; auto. right.
    unfold nearly_zero in N. apply norm_le_iff in N. destruct N as [_ N].
    exists (hd (0, 0) coeffs).
    rewrite <- (veq_dist2 v v _ _ (veq_refl v) (lincomb_single coeffs t)). exact N.
Qed.

(* at zero tolerance the accepted class is exactly { u * t : |u| = 1 } *)
Theorem phase_iff_exact t coeffs v : minimiser [t] coeffs v -> 0 < norm2 t ->
  (phase_decision (TAbs 0) t coeffs v = true <-> exists u : C, cabs2 u == 1 /\ veq v (cvscale u t)).
Proof.
  intros Hmin Ht. split.
  - intro H. destruct (phase_sound (TAbs 0) t coeffs v H) as [_ [M S]].
    unfold mag_close in M. simpl tol2 in M. apply orb_true_iff in M.
    pose proof (norm2_nonneg v) as Hv.
    assert (E : norm2 v == norm2 t).
    { destruct M as [M | M]; apply Qle_bool_iff in M; nra. }
    destruct S as [S | [c Hc]].
    + apply norm_le_iff in S. destruct S as [_ S]. simpl in S. lra.
    + simpl tol2 in Hc. pose proof (dist2_nonneg v (cvscale c t)) as D.
      assert (V : veq v (cvscale c t)) by (apply dist2_zero_veq; lra).
      exists c. split; [|exact V].
      pose proof (veq_norm2 _ _ V) as N. rewrite norm2_cvscale in N.
      assert (X : cabs2 c * norm2 t == norm2 t) by lra.
      apply Qmult_inj_r with (z := norm2 t); [lra|]. rewrite X. ring.
  - intros [u [Hu Hv]]. apply phase_members with (u := u); [exact Hmin | reflexivity | exact Hu | exact Hv].
Qed.
