(* Proofs/MunkresInvDefs.v -- Z instances of the solver steps and the phase invariants of the
   partial-correctness proof. *)
From Coq Require Import ZArith List Bool Arith Lia Permutation.
From Verif.Model Require Import Munkres.
From Verif.Proofs Require Import MunkresInvLib.
Import ListNotations.
Open Scope Z_scope.

Definition zstep1 : st -> st := step1 Z 0 Z.sub Z.ltb.
Definition zstep2 : st -> st := step2 Z 0 Z.eqb.
Definition zstep3 : nat -> st -> st * nat := step3 Z.
Definition zfind_a_zero : nat -> st -> nat -> nat -> option (nat * nat) := find_a_zero Z 0 Z.eqb.
Definition zstep4_loop : nat -> nat -> st -> nat -> nat -> option (st * nat) := step4_loop Z 0 Z.eqb.
Definition zstep4 : nat -> st -> option (st * nat) := step4 Z 0 Z.eqb.
Definition zstep5 : nat -> st -> option st := step5 Z.
Definition zfind_smallest : st -> Z := find_smallest Z Z.ltb zmaxsize.
Definition zstep6 : st -> option st := step6 Z Z.add Z.sub Z.ltb zmaxsize.
Definition zdrive : nat -> nat -> st -> nat -> list nat -> option (st * list nat) :=
  drive Z 0 Z.add Z.sub Z.ltb Z.eqb zmaxsize.
Definition zinit : list (list Z) -> st := init Z 0.

Section Inv.
  Variable n : nat.
  Variable M0 : nat -> nat -> Z.

  Definition shifted (s : st) : Prop :=
    exists u v : nat -> Z, forall i j, (i < n)%nat -> (j < n)%nat -> M0 i j = gC s i j + u i + v j.
  Definition nonneg (s : st) : Prop := forall i j, (i < n)%nat -> (j < n)%nat -> 0 <= gC s i j.
  Definition star_zero (s : st) : Prop := forall i j, gM s i j = 1%nat -> gC s i j = 0.
  Definition row_indep (s : st) : Prop := forall i j j', gM s i j = 1%nat -> gM s i j' = 1%nat -> j = j'.
  Definition col_indep (s : st) : Prop := forall i i' j, gM s i j = 1%nat -> gM s i' j = 1%nat -> i = i'.

  Record base (s : st) : Prop := mkBase {
    b_wf : wf n s;
    b_shift : shifted s;
    b_nonneg : nonneg s;
    b_star0 : star_zero s;
    b_row : row_indep s;
    b_col : col_indep s }.

  Definition no_marks (s : st) : Prop := forall i j, gM s i j = 0%nat.
  Definition no_primes (s : st) : Prop := forall i j, gM s i j <> 2%nat.
  Definition covers_clear (s : st) : Prop := (forall i, rcov s i = false) /\ (forall j, ccov s j = false).
  (* every star is covered exactly once *)
  Definition star_cov (s : st) : Prop := forall i j, gM s i j = 1%nat -> rcov s i = negb (ccov s j).
  Definition prime_ok (s : st) : Prop :=
    forall i j, gM s i j = 2%nat -> gC s i j = 0 /\ rcov s i = true /\ ccov s j = false.
  Definition prime_zero (s : st) : Prop := forall i j, gM s i j = 2%nat -> gC s i j = 0.

  Definition P1 (s : st) : Prop :=
    wf n s /\ (forall i j, (i < n)%nat -> (j < n)%nat -> gC s i j = M0 i j) /\ no_marks s /\ covers_clear s.
  Definition P2 (s : st) : Prop := wf n s /\ shifted s /\ nonneg s /\ no_marks s /\ covers_clear s.
  Definition P3 (s : st) : Prop := base s /\ no_primes s /\ covers_clear s.
  Definition P4 (s : st) : Prop := base s /\ star_cov s /\ prime_ok s.
  Definition P5 (s : st) : Prop :=
    base s /\ prime_zero s /\ (fst (sZ0 s) < n)%nat /\ (snd (sZ0 s) < n)%nat
    /\ gM s (fst (sZ0 s)) (snd (sZ0 s)) = 2%nat /\ (forall j, gM s (fst (sZ0 s)) j <> 1%nat).
  Definition P7 (s : st) : Prop := base s /\ forall j, (j < n)%nat -> exists i, gM s i j = 1%nat.

  Definition phase (step : nat) (s : st) : Prop :=
    match step with
    | 1 => P1 s | 2 => P2 s | 3 => P3 s | 4 => P4 s | 5 => P5 s | 6 => P4 s | _ => P7 s
    end%nat.

  (* the C-part of base depends only on sC; the mark part only on sM *)
  Lemma base_covers : forall s rc cc z, base s -> length rc = n -> length cc = n ->
    base (mkState (sC s) (sM s) rc cc z).
  Proof.
    intros s rc cc z [[W1 [W2 [W3 W4]]] B2 B3 B4 B5 B6] Lr Lc.
    constructor; auto. repeat split; simpl; auto; try apply W1; try apply W2.
  Qed.
End Inv.
