(* Proofs/Restrict.v -- lemmas about the restriction model (C09), part 1: sets, strings, validators, the permitted
   set, numbered variables, the sampling loop. *)
From Coq Require Import ZArith List Bool Lia.
From Verif.Model Require Import Result Lexer Parser Eval RestrictBase Restrict.
Import ListNotations.
Local Open Scope Z_scope.

(* ---------- sets ---------- *)
Lemma mem_In : forall x l, mem x l = true <-> In x l.
Proof.
  intros x l. unfold mem. rewrite existsb_exists. split.
  - intros [y [Hy He]]. apply str_eqb_eq in He. subst. exact Hy.
  - intro H. exists x. split; [exact H | apply str_eqb_eq; reflexivity].
Qed.

Lemma mem_false : forall x l, mem x l = false <-> ~ In x l.
Proof.
  intros x l. rewrite <- mem_In. destruct (mem x l); split; intro H.
  - discriminate.
  - exfalso. apply H. reflexivity.
  - intro H'. discriminate.
  - reflexivity.
Qed.

Lemma union_In : forall x a b, In x (set_union a b) <-> In x a \/ In x b.
Proof. intros. unfold set_union. apply in_app_iff. Qed.

Lemma diff_In : forall x a b, In x (set_diff a b) <-> In x a /\ ~ In x b.
Proof.
  intros. unfold set_diff. rewrite filter_In. rewrite negb_true_iff, mem_false. tauto.
Qed.

Lemma wl_names_In : forall f w, In f (wl_names w) <-> In (Some f) w.
Proof.
  induction w as [|[n|] w IH]; simpl.
  - tauto.
  - rewrite IH. split; intros [H|H]; auto. left. congruence. left. congruence.
  - rewrite IH. split; [auto | intros [H|H]; [discriminate | exact H]].
Qed.

Lemma dedup_In : forall x l, In x (dedup l) <-> In x l.
Proof.
  induction l as [|y l IH]; simpl; [tauto|].
  destruct (mem y l) eqn:Hm.
  - rewrite IH. split; [auto|]. intros [H|H]; [subst; apply mem_In; exact Hm | exact H].
  - simpl. rewrite IH. tauto.
Qed.

Lemma insert_sorted_In : forall x y l, In x (insert_sorted y l) <-> x = y \/ In x l.
Proof.
  induction l as [|z l IH]; simpl.
  - split; intros [H|H]; auto; try contradiction.
  - destruct (str_leb y z); simpl; [split; intros [H|H]; auto|].
    rewrite IH. split; intros H; tauto.
Qed.

Lemma py_sorted_In : forall x l, In x (py_sorted l) <-> In x l.
Proof.
  induction l as [|y l IH]; simpl; [tauto|].
  unfold py_sorted in *. simpl. rewrite insert_sorted_In, IH. split; intros [H|H]; auto.
Qed.

Lemma truthy_false : forall (A : Type) (l : list A), truthy l = false <-> l = [].
Proof. destruct l; simpl; split; intro H; congruence. Qed.

Lemma nil_no_In : forall (A : Type) (l : list A), l = [] <-> (forall x, ~ In x l).
Proof.
  destruct l; split; intro H; try reflexivity; try discriminate.
  - intros x Hx. exact Hx.
  - exfalso. apply (H a). left. reflexivity.
Qed.

(* ---------- strings ---------- *)
Lemma is_prefix_spec : forall a b, is_prefix a b = true <-> exists q, b = a ++ q.
Proof.
  induction a as [|x a IH]; intros b; simpl.
  - split; [intros _; exists b; reflexivity | reflexivity].
  - destruct b as [|y b]; [split; [discriminate | intros [q Hq]; discriminate]|].
    rewrite andb_true_iff, Z.eqb_eq, IH. split.
    + intros [H1 [q Hq]]. subst. exists q. reflexivity.
    + intros [q Hq]. inversion Hq. split; [reflexivity | exists q; reflexivity].
Qed.

Lemma substr_spec : forall a b, substr a b = true <-> exists p q, b = p ++ a ++ q.
Proof.
  intros a b. induction b as [|y b IH]; simpl.
  - rewrite is_prefix_spec. split.
    + intros [q Hq]. exists [], q. exact Hq.
    + intros [p [q H]]. destruct p; [exists q; exact H | discriminate].
  - rewrite orb_true_iff, IH. rewrite (is_prefix_spec a (y :: b)). split.
    + intros [[q Hq] | [p [q H]]].
      * exists [], q. exact Hq.
      * exists (y :: p), q. simpl. rewrite H. reflexivity.
    + intros [p [q H]]. destruct p as [|z p].
      * left. exists q. exact H.
      * right. simpl in H. inversion H. exists p, q. reflexivity.
Qed.

Lemma strip_spaces_idem : forall s, strip_spaces (strip_spaces s) = strip_spaces s.
Proof.
  intro s. unfold strip_spaces. induction s as [|c s IH]; simpl; [reflexivity|].
  destruct (negb (c =? ch_space)) eqn:Hc; simpl; [rewrite Hc, IH|]; auto.
Qed.

Lemma strip_spaces_app : forall a b, strip_spaces (a ++ b) = strip_spaces a ++ strip_spaces b.
Proof. intros. unfold strip_spaces. apply filter_app. Qed.

(* ---------- for_each / vseq ---------- *)
Lemma for_each_pass : forall (A : Type) (l : list A) (body : A -> vres),
  for_each l body = VPass <-> (forall x, In x l -> body x = VPass).
Proof.
  induction l as [|x l IH]; intros body; simpl.
  - split; [intros _ y [] | reflexivity].
  - destruct (body x) eqn:Hb.
    + rewrite IH. split.
      * intros H y [Hy|Hy]; [subst; exact Hb | apply H; exact Hy].
      * intros H y Hy. apply H. right. exact Hy.
    + split; [discriminate|]. intro H. rewrite (H x (or_introl eq_refl)) in Hb. discriminate.
Qed.

Lemma for_each_raise : forall (A : Type) (l : list A) (body : A -> vres) e,
  for_each l body = VRaise e -> exists x, In x l /\ body x = VRaise e.
Proof.
  induction l as [|x l IH]; intros body e; simpl; [discriminate|].
  destruct (body x) eqn:Hb.
  - intro H. destruct (IH _ _ H) as [y [Hy Hb']]. exists y. auto.
  - intro H. inversion H; subst. exists x. auto.
Qed.

Lemma vseq_pass : forall a b, vseq a b = VPass <-> a = VPass /\ b = VPass.
Proof. destruct a; simpl; intros; split; try tauto; try (intros [H _]; discriminate); discriminate. Qed.

(* ---------- the three validators ---------- *)
Lemma forbidden_pass : forall e F,
  validate_forbidden_strings_not_used e F = VPass <->
  (forall x f, In x (si_values e) -> In f F -> substr (strip_spaces f) (strip_spaces x) = false).
Proof.
  intros e F. unfold validate_forbidden_strings_not_used.
  rewrite vseq_pass. rewrite for_each_pass. split.
  - intros [H _] x f Hx Hf. specialize (H x Hx). cbv zeta in H. rewrite vseq_pass in H. destruct H as [H _].
    rewrite for_each_pass in H. specialize (H f Hf). cbv zeta in H.
    destruct (substr (strip_spaces f) (strip_spaces x)); [discriminate | reflexivity].
  - intro H. split; [|reflexivity]. intros x Hx. cbv zeta. rewrite vseq_pass. split; [|reflexivity].
    rewrite for_each_pass. intros f Hf. cbv zeta. rewrite (H x f Hx Hf). reflexivity.
Qed.

Lemma forbidden_raise : forall e F v, validate_forbidden_strings_not_used e F = VRaise v -> v = VForbidden.
Proof.
  intros e F v. unfold validate_forbidden_strings_not_used.
  destruct (for_each (si_values e) _) eqn:H1; simpl; [discriminate|].
  intro H; inversion H; subst. apply for_each_raise in H1. destruct H1 as [x [_ H1]]. cbv zeta in H1.
  destruct (for_each F _) eqn:H2; simpl in H1; [discriminate|]. inversion H1; subst.
  apply for_each_raise in H2. destruct H2 as [f [_ H2]]. cbv zeta in H2.
  destruct (substr _ _); [inversion H2; reflexivity | discriminate].
Qed.

Lemma required_pass : forall used req,
  validate_required_functions_used used req = VPass <-> (forall r, In r req -> In r used).
Proof.
  intros used req. unfold validate_required_functions_used. rewrite vseq_pass, for_each_pass. split.
  - intros [H _] r Hr. specialize (H r Hr). simpl in H. destruct (mem r used) eqn:Hm; [apply mem_In; exact Hm | discriminate].
  - intro H. split; [|reflexivity]. intros r Hr. apply H in Hr. apply mem_In in Hr. rewrite Hr. reflexivity.
Qed.

Lemma required_raise : forall used req v, validate_required_functions_used used req = VRaise v ->
  exists r, v = VRequired r /\ In r req /\ ~ In r used.
Proof.
  intros used req v. unfold validate_required_functions_used.
  destruct (for_each req _) eqn:H1; simpl; [discriminate|]. intro H; inversion H; subst.
  apply for_each_raise in H1. destruct H1 as [r [Hr H1]]. destruct (mem r used) eqn:Hm; simpl in H1; [discriminate|].
  inversion H1; subst. exists r. repeat split; auto. apply mem_false. exact Hm.
Qed.

Lemma only_permitted_pass : forall used P,
  validate_only_permitted_functions_used used P = VPass <-> (forall f, In f used -> In f P).
Proof.
  intros used P. unfold validate_only_permitted_functions_used. cbv zeta.
  destruct (truthy (py_sorted (filter (fun f => negb (mem f P)) used))) eqn:Ht.
  - split; [discriminate|]. intro H. exfalso.
    destruct (py_sorted (filter (fun f => negb (mem f P)) used)) as [|x l] eqn:Hs; [discriminate|].
    assert (Hx : In x (py_sorted (filter (fun f => negb (mem f P)) used))) by (rewrite Hs; left; reflexivity).
    rewrite py_sorted_In, filter_In in Hx. destruct Hx as [Hu Hn].
    apply negb_true_iff in Hn. apply mem_false in Hn. apply Hn. apply H. exact Hu.
  - split; [|reflexivity]. intros _ f Hf. apply truthy_false in Ht.
    destruct (mem f P) eqn:Hm; [apply mem_In; exact Hm|]. exfalso.
    assert (Hx : In f (py_sorted (filter (fun f => negb (mem f P)) used))).
    { apply py_sorted_In. apply filter_In. split; [exact Hf | rewrite Hm; reflexivity]. }
    rewrite Ht in Hx. exact Hx.
Qed.

Lemma only_permitted_raise : forall used P v, validate_only_permitted_functions_used used P = VRaise v ->
  exists fs, v = VNotPermitted fs /\ fs <> [] /\ (forall f, In f fs <-> In f used /\ ~ In f P).
Proof.
  intros used P v. unfold validate_only_permitted_functions_used. cbv zeta.
  destruct (truthy _) eqn:Ht; [|discriminate]. intro H; inversion H; subst.
  eexists. split; [reflexivity|]. split.
  - intro He. rewrite He in Ht. discriminate.
  - intro f. rewrite py_sorted_In, filter_In, negb_true_iff, mem_false. tauto.
Qed.

Lemma post_eval_pass : forall e used F R P,
  post_eval_validation e used F R P = VPass <->
  (forall x f, In x (si_values e) -> In f F -> substr (strip_spaces f) (strip_spaces x) = false)
  /\ (forall r, In r R -> In r used) /\ (forall f, In f used -> In f P).
Proof.
  intros. unfold post_eval_validation. rewrite !vseq_pass, forbidden_pass, required_pass, only_permitted_pass. tauto.
Qed.

(* every refusal by the validators is one of the three student-facing InvalidInput messages *)
Lemma post_eval_raise : forall e used F R P v,
  post_eval_validation e used F R P = VRaise v ->
  v = VForbidden \/ (exists r, v = VRequired r /\ In r R /\ ~ In r used)
  \/ (exists fs, v = VNotPermitted fs /\ fs <> [] /\ forall f, In f fs <-> In f used /\ ~ In f P).
Proof.
  intros e used F R P v. unfold post_eval_validation.
  destruct (validate_forbidden_strings_not_used e F) eqn:H1; simpl.
  - destruct (validate_required_functions_used used R) eqn:H2; simpl.
    + destruct (validate_only_permitted_functions_used used P) eqn:H3; simpl; [discriminate|].
      intro H; inversion H; subst. right. right. apply only_permitted_raise. exact H3.
    + intro H; inversion H; subst. right. left. apply required_raise. exact H2.
  - intro H; inversion H; subst. left. eapply forbidden_raise. exact H1.
Qed.

(* ---------- the permitted set ---------- *)
Lemma permitted_spec : forall D W B U P,
  get_permitted_functions D W B U = Some P ->
  forall f, In f P <->
    (W = [] /\ (In f U \/ In f D) /\ ~ In f B)
    \/ (W = [None] /\ In f U)
    \/ (W <> [] /\ W <> [None] /\ (In f U \/ In (Some f) W)).
Proof.
  intros D W B U P. unfold get_permitted_functions.
  destruct (truthy W && truthy B) eqn:Hb; [discriminate|]. cbv zeta. intro H. inversion H; subst; clear H. intro f.
  destruct (wl_is_empty W) eqn:He; [|destruct (wl_is_none W) eqn:Hn].
  - assert (W = []) by (destruct W; [reflexivity | discriminate]). subst.
    rewrite diff_In, union_In. split.
    + intros [H1 H2]. left. auto.
    + intros [[_ [H1 H2]] | [[H _] | [H _]]]; [auto | discriminate | exfalso; apply H; reflexivity].
  - assert (W = [None]) by (destruct W as [|[n|] [|w W]]; try discriminate; reflexivity). subst.
    split.
    + intro H. right. left. auto.
    + intros [[H _] | [[_ H] | [_ [H _]]]]; [discriminate | exact H | exfalso; apply H; reflexivity].
  - assert (W <> []) by (intro; subst; discriminate).
    assert (W <> [None]) by (intro; subst; discriminate).
    rewrite union_In, wl_names_In. split.
    + intro H1. right. right. auto.
    + intros [[H1 _] | [[H1 _] | [_ [_ H1]]]]; [contradiction | contradiction | exact H1].
Qed.

(* the configuration validation (validate_blacklist_whitelist_config) rejects a grader with both lists *)
Lemma permitted_none : forall D W B U, get_permitted_functions D W B U = None <-> W <> [] /\ B <> [].
Proof.
  intros. unfold get_permitted_functions. destruct W, B; simpl; split; intro H; try discriminate; try reflexivity;
    try (destruct H as [H1 H2]; congruence). split; discriminate.
Qed.

(* a blacklisted default function is never permitted; user functions always are *)
Lemma blacklisted_not_permitted : forall D W B U P f,
  get_permitted_functions D W B U = Some P -> In f B -> ~ In f U -> ~ In f P.
Proof.
  intros D W B U P f H Hb Hu Hp. pose proof (permitted_spec _ _ _ _ _ H f) as S. apply S in Hp.
  assert (W = []).
  { unfold get_permitted_functions in H. destruct W; [reflexivity|]. destruct B; [contradiction|]. discriminate. }
  subst. destruct Hp as [[_ [_ Hn]] | [[H1 _] | [H1 _]]]; [contradiction | discriminate | congruence].
Qed.

Lemma user_function_permitted : forall D W B U P f,
  get_permitted_functions D W B U = Some P -> In f U -> ~ In f B -> In f P.
Proof.
  intros D W B U P f H Hu Hb. apply (permitted_spec _ _ _ _ _ H f).
  destruct W as [|[n|] [|w W]]; [left; auto | right; right | right; right | right; left; auto | right; right];
    (split; [discriminate | split; [discriminate | left; exact Hu]]).
Qed.

(* ---------- numbered variables ---------- *)
Definition num_ok (s : str) : Prop :=
  s = [48]
  \/ (exists d r, s = d :: r /\ is_digit19 d = true /\ forallb is_digit r = true)
  \/ (exists d r, s = 45 :: d :: r /\ is_digit19 d = true /\ forallb is_digit r = true).

Lemma digit19_not_minus : forall d, is_digit19 d = true -> (d =? 45) = false.
Proof. intros d H. unfold is_digit19 in H. apply andb_true_iff in H. destruct H as [H _]. apply Z.leb_le in H. apply Z.eqb_neq. lia. Qed.

Lemma num_pattern_spec : forall s, num_pattern s = true <-> num_ok s.
Proof.
  intro s. unfold num_ok. destruct s as [|c [|d r]]; simpl.
  - split; [discriminate|]. intros [H|[[d [r [H _]]]|[d [r [H _]]]]]; discriminate.
  - rewrite orb_true_iff, Z.eqb_eq. split.
    + intros [H|H]; [left; subst; reflexivity | right; left; exists c, []; auto].
    + intros [H|[[d [r [H [H1 _]]]]|[d [r [H _]]]]]; [inversion H; auto | inversion H; subst; auto | discriminate].
  - destruct (c =? 45) eqn:Hc.
    + apply Z.eqb_eq in Hc. subst. rewrite andb_true_iff. split.
      * intros [H1 H2]. right. right. exists d, r. auto.
      * intros [H|[[d' [r' [H [H1 _]]]]|[d' [r' [H [H1 H2]]]]]]; [discriminate | inversion H; subst; discriminate | inversion H; subst; auto].
    + rewrite andb_true_iff. split.
      * intros [H1 H2]. right. left. exists c, (d :: r). auto.
      * intros [H|[[d' [r' [H [H1 H2]]]]|[d' [r' [H _]]]]]; [discriminate | inversion H; subst; auto |].
        inversion H; subst. rewrite Z.eqb_refl in Hc. discriminate.
Qed.

Lemma strip_prefix_spec : forall p s r, strip_prefix p s = Some r <-> s = p ++ r.
Proof.
  induction p as [|x p IH]; intros s r; simpl.
  - split; intro H; [inversion H; reflexivity | subst; reflexivity].
  - destruct s as [|y s]; [split; discriminate|].
    destruct (x =? y) eqn:He.
    + apply Z.eqb_eq in He. subst. rewrite IH. split; intro H; [subst; reflexivity | inversion H; reflexivity].
    + split; [discriminate|]. intro H. inversion H. subst. rewrite Z.eqb_refl in He. discriminate.
Qed.

Lemma match_head_spec : forall h n,
  match_head h n = true <-> exists num, n = h ++ [95; 123] ++ num ++ [125] /\ num_ok num.
Proof.
  intros h n. unfold match_head. destruct (strip_prefix (h ++ [95; 123]) n) as [rest|] eqn:Hs.
  - apply strip_prefix_spec in Hs. rewrite <- app_assoc in Hs.
    assert (Hinj : forall num, n = h ++ [95; 123] ++ num ++ [125] -> rest = num ++ [125]).
    { intros num Hn. rewrite Hs in Hn. apply app_inv_head in Hn. simpl in Hn. inversion Hn. reflexivity. }
    destruct (rev rest) as [|c m] eqn:Hr.
    + split; [discriminate|]. intros [num [Hn _]]. apply Hinj in Hn. rewrite Hn, rev_app_distr in Hr. discriminate.
    + assert (Hrest : rest = rev m ++ [c]) by (rewrite <- (rev_involutive rest), Hr; reflexivity).
      rewrite andb_true_iff, Z.eqb_eq, num_pattern_spec. split.
      * intros [H1 H2]. subst c. exists (rev m). split; [|exact H2]. rewrite Hs, Hrest. reflexivity.
      * intros [num [Hn Hok]]. apply Hinj in Hn. rewrite Hrest in Hn. apply app_inj_tail in Hn.
        destruct Hn as [H1 H2]. subst. auto.
  - split; [discriminate|]. intros [num [Hn _]].
    assert (strip_prefix (h ++ [95; 123]) n = Some (num ++ [125])).
    { apply strip_prefix_spec. rewrite Hn, <- app_assoc. reflexivity. }
    congruence.
Qed.

(* the names accepted by numbered_vars_regexp(heads): head_{n}, n a canonical integer literal *)
Lemma numbered_match_spec : forall heads n,
  numbered_match heads n = true <->
  exists h num, In h heads /\ n = h ++ [95; 123] ++ num ++ [125] /\ num_ok num.
Proof.
  intros heads n. unfold numbered_match. rewrite existsb_exists. split.
  - intros [h [Hh Hm]]. apply match_head_spec in Hm. destruct Hm as [num [H1 H2]]. exists h, num. auto.
  - intros [h [num [Hh [H1 H2]]]]. exists h. split; [exact Hh|]. apply match_head_spec. exists num. auto.
Qed.

(* ---------- sample names and the student's scope ---------- *)
Lemma variable_list_In : forall c used n,
  In n (variable_list c used) <-> In n (c_variables c) \/ (In n used /\ numbered_match (c_numbered c) n = true).
Proof.
  intros c used n. unfold variable_list. rewrite in_app_iff, !filter_In, dedup_In, negb_true_iff, mem_false.
  destruct (mem n (c_variables c)) eqn:Hm.
  - apply mem_In in Hm. tauto.
  - apply mem_false in Hm. tauto.
Qed.

Lemma sample_names_In : forall c used sib n,
  In n (sample_names c used sib) <-> In n (variable_list c used) \/ In n sib \/ In n (c_constants c).
Proof.
  intros c used sib n. unfold sample_names. cbv zeta. rewrite in_app_iff, filter_In, negb_true_iff, mem_false, in_app_iff.
  destruct (mem n (variable_list c used ++ sib)) eqn:Hm.
  - apply mem_In in Hm. apply in_app_iff in Hm. tauto.
  - apply mem_false in Hm. rewrite in_app_iff in Hm. tauto.
Qed.

Lemma formula_blacklist_In : forall instr sample sib n,
  In n (var_blacklist formula_blacklist instr sample sib) <-> (In n instr /\ In n sample) \/ In n sib.
Proof.
  intros. unfold var_blacklist, formula_blacklist. simpl. rewrite !in_app_iff, filter_In, mem_In. simpl. tauto.
Qed.

Lemma summation_blacklist_In : forall instr sample sib n,
  In n (var_blacklist summation_blacklist instr sample sib) <-> In n instr /\ In n sample.
Proof.
  intros. unfold var_blacklist, summation_blacklist. simpl. rewrite !in_app_iff, filter_In, mem_In. simpl. tauto.
Qed.

Lemma formula_scope_In : forall c sample sib n,
  In n (student_scope formula_blacklist c sample sib) <-> In n sample /\ ~ In n (c_instructor c) /\ ~ In n sib.
Proof. intros. unfold student_scope. rewrite diff_In, formula_blacklist_In. tauto. Qed.

Lemma summation_scope_In : forall c sample sib n,
  In n (student_scope summation_blacklist c sample sib) <-> In n sample /\ ~ In n (c_instructor c).
Proof. intros. unfold student_scope. rewrite diff_In, summation_blacklist_In. tauto. Qed.

(* what a student may mention as a variable: a declared variable, a constant, or an instance of a numbered
   variable -- unless the author reserved the name (instructor_vars) or it stands for a sibling input *)
Definition allowed (c : rcfg) (sib : names) (n : str) : Prop :=
  (In n (c_variables c) \/ In n (c_constants c) \/ numbered_match (c_numbered c) n = true)
  /\ ~ In n (c_instructor c) /\ ~ In n sib.

Lemma formula_scope_allowed : forall c used sib n, In n used ->
  (In n (student_scope formula_blacklist c (sample_names c used sib) sib) <-> allowed c sib n).
Proof.
  intros c used sib n Hu. rewrite formula_scope_In, sample_names_In, variable_list_In. unfold allowed. tauto.
Qed.

Lemma summation_scope_allowed : forall c used n, In n used ->
  (In n (student_scope summation_blacklist c (sample_names c used []) []) <-> allowed c [] n).
Proof.
  intros c used n Hu. rewrite summation_scope_In, sample_names_In, variable_list_In. unfold allowed. simpl. tauto.
Qed.

(* the author's scope contains the reserved names: every declared variable, constant and sibling key is sampled *)
Lemma author_scope_has : forall c used sib n,
  In n (c_variables c) \/ In n (c_constants c) \/ In n sib -> In n (sample_names c used sib).
Proof. intros c used sib n H. rewrite sample_names_In, variable_list_In. tauto. Qed.

(* ---------- the sampling loop ---------- *)
Definition fresh_inv (sample : names) (b : bindings) : Prop := forall x j, In (x, j) b -> In x sample.

Lemma b_update_In : forall b sample i x j, fresh_inv sample b ->
  (In (x, j) (b_update b sample i) <-> j = i /\ In x sample).
Proof.
  intros b sample i x j Hinv. unfold b_update. rewrite in_app_iff, in_map_iff, filter_In. split.
  - intros [[n [Hn Hi]] | [Hb Hm]].
    + inversion Hn; subst. auto.
    + simpl in Hm. apply negb_true_iff, mem_false in Hm. exfalso. apply Hm. eapply Hinv. exact Hb.
  - intros [Hj Hx]. subst. left. exists x. auto.
Qed.

Lemma b_delete_In : forall b keys p, In p (b_delete b keys) <-> In p b /\ ~ In (fst p) keys.
Proof. intros. unfold b_delete. rewrite filter_In, negb_true_iff, mem_false. tauto. Qed.

(* one iteration of the loop regenerated from the source: the author's expressions see every name of the current
   sample with the current sample's value, the student's input sees the same minus var_blacklist *)
Definition source_loop (evs : list loop_event) : Prop := evs = loop_events \/ evs = sum_loop_events.

Lemma iteration_scopes : forall evs sample bl i b, source_loop evs -> fresh_inv sample b ->
  exists ba bs b',
    run_events evs sample bl i b (mkSeen [] []) = (b', mkSeen [ba] [bs])
    /\ (forall x j, In (x, j) ba <-> j = i /\ In x sample)
    /\ (forall x j, In (x, j) bs <-> j = i /\ In x sample /\ ~ In x bl)
    /\ fresh_inv sample b'.
Proof.
  intros evs sample bl i b Hevs Hinv.
  set (b1 := b_update b sample i). set (b2 := b_delete b1 bl).
  exists b1, b2, (b_update b2 sample i). split; [destruct Hevs; subst; reflexivity|].
  assert (H1 : forall x j, In (x, j) b1 <-> j = i /\ In x sample) by (intros; apply b_update_In; exact Hinv).
  assert (H2 : forall x j, In (x, j) b2 <-> j = i /\ In x sample /\ ~ In x bl).
  { intros x j. unfold b2. rewrite b_delete_In, H1. simpl. tauto. }
  assert (Hinv2 : fresh_inv sample b2) by (intros x j Hx; apply H2 in Hx; tauto).
  split; [exact H1|]. split; [exact H2|].
  intros x j Hx. apply (b_update_In _ _ _ _ _ Hinv2) in Hx. tauto.
Qed.

(* any number of samples: iteration k (counting from i) sees exactly sample i+k *)
Lemma loop_scopes : forall evs, source_loop evs -> forall sample bl n i b, fresh_inv sample b ->
  let l := run_loop evs sample bl n i b in
  length l = n /\
  forall k s, nth_error l k = Some s ->
    exists ba bs, seen_author s = [ba] /\ seen_student s = [bs]
      /\ (forall x j, In (x, j) ba <-> j = (i + k)%nat /\ In x sample)
      /\ (forall x j, In (x, j) bs <-> j = (i + k)%nat /\ In x sample /\ ~ In x bl).
Proof.
  intros evs Hevs sample bl n. induction n as [|n IH]; intros i b Hinv.
  - simpl. split; [reflexivity|]. intros k s H. destruct k; discriminate.
  - destruct (iteration_scopes evs sample bl i b Hevs Hinv) as [ba [bs [b' [Hrun [Ha [Hs Hinv']]]]]].
    cbn [run_loop]. rewrite Hrun. cbv zeta.
    destruct (IH (S i) b' Hinv') as [Hlen Hnth]. split; [simpl; rewrite Hlen; reflexivity|].
    intros k s Hk. destruct k as [|k]; simpl in Hk.
    + inversion Hk; subst. exists ba, bs. simpl. rewrite Nat.add_0_r. auto.
    + destruct (Hnth k s Hk) as [ba' [bs' [E1 [E2 [E3 E4]]]]]. exists ba', bs'.
      replace (i + S k)%nat with (S i + k)%nat by lia. auto.
Qed.
