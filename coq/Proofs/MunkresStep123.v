(* Proofs/MunkresStep123.v -- steps 1, 2, 3 establish / preserve the phase invariants. *)
From Coq Require Import ZArith List Bool Arith Lia Permutation.
From Verif.Model Require Import Munkres.
From Verif.Proofs Require Import MunkresInvLib MunkresInvDefs.
Import ListNotations.
Open Scope Z_scope.

(* ---------- generic map/nth helpers ---------- *)
Lemma nth_map_nil : forall {A B} (g : list A -> list B) l i, g [] = [] -> nth i (map g l) [] = g (nth i l []).
Proof.
  intros A B g l i H. transitivity (nth i (map g l) (g [])); [f_equal; symmetry; exact H | apply map_nth].
Qed.

Lemma nth_map_lt : forall {A B} (f : A -> B) l j d d', (j < length l)%nat -> nth j (map f l) d' = f (nth j l d).
Proof.
  intros A B f l j d d' H. rewrite (nth_indep _ d' (f d)) by (rewrite map_length; exact H). apply map_nth.
Qed.

(* ---------- step 1 ---------- *)
Lemma kmin_fold_le : forall r x, let m := fold_left (fun m y => if Z.ltb y m then y else m) r x in
  m <= x /\ forall y, In y r -> m <= y.
Proof.
  induction r as [|a r IH]; intro x; simpl; [split; [lia | intros y []]|].
  destruct (IH (if Z.ltb a x then a else x)) as [H1 H2].
  destruct (Z.ltb_spec a x) as [L|L]; split; try lia.
  - intros y [<-|Hy]; [lia | apply H2; exact Hy].
  - intros y [<-|Hy]; [lia | apply H2; exact Hy].
Qed.

Lemma kmin_le : forall d row x, In x row -> kmin Z Z.ltb d row <= x.
Proof.
  intros d [|a r] x H; [destruct H|]. simpl. destruct (kmin_fold_le r a) as [H1 H2].
  destruct H as [<-|H]; [exact H1 | apply H2; exact H].
Qed.

Lemma step1_C : forall n s i j, wf n s -> (i < n)%nat -> (j < n)%nat ->
  gC (zstep1 s) i j = gC s i j - kmin Z Z.ltb 0 (nth i (sC s) []).
Proof.
  intros n s i j [S _] Hi Hj. unfold gC, zstep1, step1, get2. simpl.
  rewrite nth_map_nil by reflexivity.
  rewrite (nth_map_lt _ _ j 0 0) by (rewrite (sq_row_len n _ i S Hi); exact Hj). reflexivity.
Qed.

Lemma step1_wf : forall n s, wf n s -> wf n (zstep1 s).
Proof.
  intros n s [[L F] [S2 [L3 L4]]]. repeat split; simpl; auto; try apply S2.
  - rewrite map_length. exact L.
  - rewrite Forall_forall in *. intros row H. apply in_map_iff in H. destruct H as [r0 [<- H]].
    rewrite map_length. apply F. exact H.
Qed.

Lemma step1_P : forall n M0 s, P1 n M0 s -> P2 n M0 (zstep1 s).
Proof.
  intros n M0 s [W [HC [HM HV]]]. unfold P2. split; [apply step1_wf; exact W|].
  split; [|split; [|split; [exact HM | exact HV]]].
  - exists (fun i => kmin Z Z.ltb 0 (nth i (sC s) [])), (fun _ => 0). intros i j Hi Hj.
    rewrite (step1_C n s i j W Hi Hj). rewrite HC by assumption. lia.
  - intros i j Hi Hj. rewrite (step1_C n s i j W Hi Hj).
    assert (kmin Z Z.ltb 0 (nth i (sC s) []) <= gC s i j); [|lia].
    apply kmin_le. unfold gC, get2. apply nth_In. destruct W as [S _]. rewrite (sq_row_len n _ i S Hi). exact Hj.
Qed.

(* ---------- step 2 ---------- *)
Lemma first_free_zero_some : forall row cc k j, first_free_zero Z 0 Z.eqb row cc k = Some j ->
  (k <= j)%nat /\ (j - k < length row)%nat /\ (j - k < length cc)%nat
  /\ nth (j - k) row 0 = 0 /\ nth (j - k) cc false = false.
Proof.
  induction row as [|x row IH]; intros [|c cc] k j H; simpl in H; try discriminate.
  destruct (Z.eqb_spec x 0) as [E|N]; simpl in H.
  - destruct c; simpl in H.
    + apply IH in H. destruct H as [H1 [H2 [H3 [H4 H5]]]].
      replace (j - k)%nat with (S (j - S k)) by lia. simpl. repeat split; try lia; assumption.
    + inversion H; subst. rewrite Nat.sub_diag. simpl. repeat split; try lia.
  - apply IH in H. destruct H as [H1 [H2 [H3 [H4 H5]]]].
    replace (j - k)%nat with (S (j - S k)) by lia. simpl. repeat split; try lia; assumption.
Qed.

Section Step2.
  Variable n : nat.
  Variable C : list (list Z).
  Hypothesis SC : sq n C.

  Definition J2 (mk : marks) (rc cc : list bool) : Prop :=
    sq n mk /\ length rc = n /\ length cc = n
    /\ (forall i j, get2 0%nat mk i j = 0%nat \/ get2 0%nat mk i j = 1%nat)
    /\ (forall i j, get2 0%nat mk i j = 1%nat ->
          get2 0 C i j = 0 /\ nth i rc false = true /\ nth j cc false = true)
    /\ (forall i j j', get2 0%nat mk i j = 1%nat -> get2 0%nat mk i j' = 1%nat -> j = j')
    /\ (forall i i' j, get2 0%nat mk i j = 1%nat -> get2 0%nat mk i' j = 1%nat -> i = i').

  Lemma get2_upd2 : forall {A} (m : list (list A)) i j v d i' j', sq n m -> (i < n)%nat -> (j < n)%nat ->
    get2 d (upd2 m i j v) i' j' = if (Nat.eqb i' i && Nat.eqb j' j)%bool then v else get2 d m i' j'.
  Proof.
    intros A m i j v d i' j' S Hi Hj.
    destruct (Nat.eqb_spec i' i) as [->|Ni]; simpl.
    - destruct (Nat.eqb_spec j' j) as [->|Nj].
      + apply (get2_upd2_same n); assumption.
      + apply get2_upd2_other. intro E; inversion E; contradiction.
    - apply get2_upd2_other. intro E; inversion E; contradiction.
  Qed.

  Lemma J2_star : forall mk rc cc i j, J2 mk rc cc -> (i < n)%nat -> (j < n)%nat ->
    get2 0 C i j = 0 -> nth i rc false = false -> nth j cc false = false ->
    J2 (upd2 mk i j 1%nat) (upd rc i true) (upd cc j true).
  Proof.
    intros mk rc cc i j [S [Lr [Lc [H01 [Hs [Hr Hc]]]]]] Hi Hj HC Ri Cj.
    assert (G : forall i' j', get2 0%nat (upd2 mk i j 1%nat) i' j' =
                 if (Nat.eqb i' i && Nat.eqb j' j)%bool then 1%nat else get2 0%nat mk i' j')
      by (intros; apply get2_upd2; assumption).
    unfold J2. split; [apply sq_upd2; exact S|]. split; [rewrite upd_length; exact Lr|].
    split; [rewrite upd_length; exact Lc|]. split; [|split; [|split]].
    - intros i' j'. rewrite G. destruct (Nat.eqb i' i && Nat.eqb j' j)%bool; [right; reflexivity | apply H01].
    - intros i' j'. rewrite G. rewrite !nth_upd. rewrite Lr, Lc.
      destruct (Nat.eqb_spec i' i) as [->|Ni]; destruct (Nat.eqb_spec j' j) as [->|Nj]; simpl; intro H.
      + destruct (Nat.ltb_spec i n); destruct (Nat.ltb_spec j n); try lia.
      + destruct (Hs _ _ H) as [_ [R _]]. congruence.
      + destruct (Hs _ _ H) as [_ [_ R]]. congruence.
      + apply Hs. exact H.
    - intros i' j' j''. rewrite !G.
      destruct (Nat.eqb_spec i' i) as [->|Ni]; simpl.
      + destruct (Nat.eqb_spec j' j) as [->|Nj]; destruct (Nat.eqb_spec j'' j) as [->|Nj']; intros A B; auto.
        * destruct (Hs _ _ B) as [_ [R _]]. congruence.
        * destruct (Hs _ _ A) as [_ [R _]]. congruence.
        * destruct (Hs _ _ A) as [_ [R _]]. congruence.
      + apply Hr.
    - intros i' i'' j'. rewrite !G.
      destruct (Nat.eqb_spec j' j) as [->|Nj]; rewrite ?andb_false_r, ?andb_true_r.
      + destruct (Nat.eqb_spec i' i) as [->|Ni]; destruct (Nat.eqb_spec i'' i) as [->|Ni']; intros A B; auto.
        * destruct (Hs _ _ B) as [_ [_ R]]. congruence.
        * destruct (Hs _ _ A) as [_ [_ R]]. congruence.
        * destruct (Hs _ _ A) as [_ [_ R]]. congruence.
      + apply Hc.
  Qed.

  Lemma step2_rows_J : forall rows i mk rc cc mk' rc' cc',
    (forall k, (k < length rows)%nat -> nth k rows [] = nth (i + k) C []) ->
    (i + length rows <= n)%nat -> J2 mk rc cc ->
    step2_rows Z 0 Z.eqb rows i mk rc cc = (mk', rc', cc') -> J2 mk' rc' cc'.
  Proof.
    induction rows as [|row rest IH]; intros i mk rc cc mk' rc' cc' Hrows Hlen HJ H; simpl in H.
    - inversion H; subst. exact HJ.
    - assert (Hrest : forall k, (k < length rest)%nat -> nth k rest [] = nth (S i + k) C []).
      { intros k Hk. specialize (Hrows (S k)). simpl in Hrows. rewrite Hrows by lia. f_equal. lia. }
      simpl in Hlen.
      destruct (nth i rc false) eqn:Ri.
      + eapply IH; [exact Hrest | lia | exact HJ | exact H].
      + destruct (first_free_zero Z 0 Z.eqb row cc 0) as [j|] eqn:F.
        * apply first_free_zero_some in F. rewrite Nat.sub_0_r in F. destruct F as [_ [F1 [F2 [F3 F4]]]].
          assert (Lc : length cc = n) by (destruct HJ as [_ [_ [Lc _]]]; exact Lc).
          eapply IH; [exact Hrest | lia | | exact H].
          apply J2_star; auto; try lia.
          unfold get2. specialize (Hrows 0%nat). simpl in Hrows. rewrite Nat.add_0_r in Hrows.
          rewrite <- Hrows by lia. exact F3.
        * eapply IH; [exact Hrest | lia | exact HJ | exact H].
  Qed.
End Step2.

Lemma step2_P : forall n M0 s, P2 n M0 s -> P3 n M0 (zstep2 s).
Proof.
  intros n M0 s [W [Hsh [Hnn [HM HV]]]]. unfold zstep2, step2.
  destruct (step2_rows Z 0 Z.eqb (sC s) 0 (sM s) (sRC s) (sCC s)) as [[mk' rc'] cc'] eqn:E.
  destruct W as [SC [SM [Lr Lc]]].
  assert (J : J2 n (sC s) mk' rc' cc').
  { eapply (step2_rows_J n (sC s) (sC s) 0%nat); [ | | | exact E].
    - intros k _. reflexivity.
    - destruct SC; lia.
    - unfold no_marks, gM in HM. unfold J2. repeat split; auto; try apply SM.
      all: intros; try (left; apply HM);
        try (match goal with H : get2 0%nat _ ?i ?j = 1%nat |- _ => rewrite (HM i j) in H; discriminate end). }
  destruct J as [S' [Lr' [Lc' [H01 [Hs [Hr Hc]]]]]].
  unfold P3. split; [|split].
  - constructor.
    + repeat split; simpl; auto; try apply SC; try apply S'; rewrite clear_length; assumption.
    + exact Hsh.
    + exact Hnn.
    + intros i j H. apply (Hs i j H).
    + exact Hr.
    + exact Hc.
  - intros i j H. unfold gM in H. simpl in H. destruct (H01 i j) as [X|X]; rewrite X in H; discriminate.
  - split; intro k; unfold rcov, ccov; simpl; apply nth_clear.
Qed.

(* ---------- step 3 ---------- *)
Lemma filter_id_length_le : forall l : list bool, (length (filter (fun b => b) l) <= length l)%nat.
Proof. induction l as [|[|] l IH]; simpl; lia. Qed.

Lemma filter_id_all : forall l : list bool, (length l <= length (filter (fun b => b) l))%nat ->
  forall j, (j < length l)%nat -> nth j l false = true.
Proof.
  induction l as [|x l IH]; intros H j Hj; simpl in *; [lia|].
  destruct x; simpl in H.
  - destruct j as [|j]; [reflexivity|]. apply IH; lia.
  - pose proof (filter_id_length_le l). lia.
Qed.

Lemma step3_state : forall n s, fst (zstep3 n s) =
  mkState (sC s) (sM s) (sRC s) (mapi (fun j c => c || col_has 1 (sM s) j) (sCC s)) (sZ0 s).
Proof. reflexivity. Qed.

Lemma step3_next : forall n s, snd (zstep3 n s) = 4%nat \/ snd (zstep3 n s) = 7%nat.
Proof. intros. unfold zstep3, step3. simpl. destruct (Nat.leb _ _); auto. Qed.

Lemma step3_P4 : forall n M0 s, P3 n M0 s -> P4 n M0 (fst (zstep3 n s)).
Proof.
  intros n M0 s [B [NP [CR CC]]]. rewrite step3_state.
  pose proof (b_wf _ _ _ B) as W. destruct W as [SC [SM [Lr Lc]]].
  unfold P4. split; [|split].
  - apply base_covers; auto. rewrite mapi_length. exact Lc.
  - intros i j H. unfold gM in H; simpl in H. unfold rcov, ccov; simpl.
    fold (rcov s i). rewrite CR.
    assert (R : (i < n /\ j < n)%nat) by (apply (get2_range n (sM s) i j 0%nat SM); rewrite H; discriminate).
    rewrite (nth_mapi _ _ j false false) by lia.
    assert (X : col_has 1 (sM s) j = true).
    { apply (col_has_true n 1 (sM s) j SM); [discriminate|]. exists i. split; [lia | exact H]. }
    rewrite X. rewrite orb_true_r. reflexivity.
  - intros i j H. exfalso. exact (NP i j H).
Qed.

Lemma step3_P7 : forall n M0 s, P3 n M0 s -> snd (zstep3 n s) = 7%nat -> P7 n M0 (fst (zstep3 n s)).
Proof.
  intros n M0 s P H. pose proof P as [B [NP [CR CC]]].
  pose proof (b_wf _ _ _ B) as W. destruct W as [SC [SM [Lr Lc]]].
  split.
  - apply (step3_P4 n M0 s P).
  - intros j Hj. rewrite step3_state. unfold gM; simpl.
    unfold zstep3, step3 in H. simpl in H.
    destruct (Nat.leb_spec n (length (filter (fun b => b)
               (mapi (fun j c => negb c && col_has 1 (sM s) j) (sCC s))))) as [L|L]; [|discriminate].
    pose proof (filter_id_all (mapi (fun j c => negb c && col_has 1 (sM s) j) (sCC s))) as F.
    rewrite mapi_length in F. specialize (F ltac:(lia) j ltac:(lia)).
    rewrite (nth_mapi _ _ j false false) in F by lia.
    apply andb_true_iff in F. destruct F as [_ F].
    apply (col_has_true n 1 (sM s) j SM) in F; [|discriminate].
    destruct F as [i [_ Hi]]. exists i. exact Hi.
Qed.
