(* Proofs/Tolerance.v -- lemmas about the tolerance decision and sample counting (C04) *)
From Coq Require Import ZArith QArith Qabs Lia Lqa List Bool.
From Verif.Lib Require Import QRound.
From Verif.Model Require Import Result Tolerance.
From Verif.Proofs Require Import Credit.          (* qbool and the Q*_bool reflection lemmas *)
Import ListNotations.
Open Scope Q_scope.

(* ------------------------------------------------------------------------------------------------ *)
(* squares decide the comparison of non-negative quantities                                          *)
(* ------------------------------------------------------------------------------------------------ *)
Lemma sq_le_iff : forall r t, 0 <= r -> 0 <= t -> (r <= t <-> r * r <= t * t).
Proof. intros r t Hr Ht. split; intro H; nra. Qed.

Lemma Qabs_sq : forall a, Qabs a * Qabs a == a * a.
Proof. intro a. apply Qabs_case; intros; ring. Qed.

(* any rational lower bound r of the norm (r^2 <= n2) is <= T once n2 <= T^2; any rational upper bound
   r (n2 <= r^2) with r <= T gives n2 <= T^2: the decision on squares is the decision on the real norm *)
Lemma norm_lower_bound : forall n2 T r, 0 <= T -> 0 <= r -> r * r <= n2 -> n2 <= T * T -> r <= T.
Proof. intros. nra. Qed.
Lemma norm_upper_bound : forall n2 T r, 0 <= r -> n2 <= r * r -> r <= T -> n2 <= T * T.
Proof. intros. nra. Qed.
Lemma norm_exact : forall n2 T r, 0 <= T -> 0 <= r -> r * r == n2 -> (n2 <= T * T <-> r <= T).
Proof. intros n2 T r HT Hr E. rewrite <- E. symmetry. apply sq_le_iff; assumption. Qed.

Lemma Qle_bool_comp : forall a a' b b', a == a' -> b == b' -> Qle_bool a b = Qle_bool a' b'.
Proof.
  intros a a' b b' Ea Eb.
  destruct (Qle_bool a b) eqn:H1; destruct (Qle_bool a' b') eqn:H2; try reflexivity; qbool; exfalso; lra.
Qed.

Lemma Qltb_nonneg : forall p, 0 <= p -> Qltb p 0 = false.
Proof. intros p H. destruct (Qltb p 0) eqn:E; [qbool; lra | reflexivity]. Qed.

(* ------------------------------------------------------------------------------------------------ *)
(* norms                                                                                             *)
(* ------------------------------------------------------------------------------------------------ *)
Lemma cq_n2_nonneg : forall a, 0 <= cq_n2 a.
Proof. intros [r i]. unfold cq_n2. rewrite Qred_correct. cbn [fst snd]. nra. Qed.
Lemma cqs_n2_nonneg : forall l, 0 <= cqs_n2 l.
Proof. induction l as [|a l IH]; cbn [cqs_n2]; [lra | rewrite Qred_correct; pose proof (cq_n2_nonneg a); lra]. Qed.
Lemma v_norm2_nonneg : forall x, 0 <= v_norm2 x.
Proof. destruct x; simpl; [apply cq_n2_nonneg | lra | apply cqs_n2_nonneg]. Qed.

(* ------------------------------------------------------------------------------------------------ *)
(* within_tolerance                                                                                  *)
(* ------------------------------------------------------------------------------------------------ *)
(* an independent, direct statement of the decision (no nval, no early-return structure) *)
Definition spec_within (x y : value) (t : tolx) : option bool :=
  match x, y with
  | VInf p, VInf q => Some (Bool.eqb p q)
  | VInf _, _ => Some false
  | VNum _, VInf _ => Some false
  | VNum a, VNum b => Some (Qle_bool (cq_n2 (cq_sub a b)) (tol_sq t x))
  | VArr s a, VArr s' b =>
      if shape_eqb s s'
      then match cqs_sub a b with Some d => Some (Qle_bool (cqs_n2 d) (tol_sq t x)) | None => None end
      else None
  | _, _ => None
  end.

Lemma n_le_nonneg : forall a b, n_neg a = false -> n_neg b = false -> n_le a b = Qle_bool (n_sq a) (n_sq b).
Proof. intros [na sa] [nb sb]; simpl; intros -> ->. reflexivity. Qed.

Lemma tolerance_applied : forall t x, tol_neg t = false ->
  let t' := if t_is_str t then XNum (n_mul (n_norm x) (percentage_as_number t)) else t in
  n_neg (n_of_tolx t') = false /\ n_sq (n_of_tolx t') = tol_sq t x.
Proof.
  intros [p | [ng sq]] x H; simpl in *.
  - rewrite H. split; reflexivity.
  - split; [exact H | reflexivity].
Qed.

Lemma within_spec : forall x y t, tol_neg t = false -> within_tolerance x y t = spec_within x y t.
Proof.
  intros x y t Ht. unfold within_tolerance. cbv zeta.
  pose proof (tolerance_applied t x Ht) as [Hn Hs]. cbv zeta in Hn, Hs.
  destruct x as [a | p | s a]; destruct y as [b | q | s' b]; simpl v_is_number; simpl v_eqb; simpl andb;
    simpl orb; try reflexivity.
  - (* number, number *)
    simpl. rewrite n_le_nonneg; [ | reflexivity | exact Hn]. rewrite Hs. reflexivity.
  - (* number, inf *) destruct q; reflexivity.
  - (* inf, number *) destruct p; reflexivity.
  - (* inf, inf *) destruct p, q; reflexivity.
  - (* inf, array *) destruct p; reflexivity.
  - (* array, array *)
    simpl. destruct (shape_eqb s s'); [ | reflexivity]. destruct (cqs_sub a b) as [d|]; [ | reflexivity].
    simpl. rewrite n_le_nonneg; [ | reflexivity | exact Hn]. rewrite Hs. reflexivity.
Qed.

(* absolute tolerance: || expected - student ||^2 <= t^2 *)
Lemma within_abs_spec : forall x y d t, 0 <= t -> v_finite x = true -> v_finite y = true ->
  v_sub x y = Some d ->
  within_tolerance x y (t_abs t) = Some (Qle_bool (v_norm2 d) (t * t)).
Proof.
  intros x y d t Ht Fx Fy Hd. rewrite within_spec by (simpl; apply Qltb_nonneg; exact Ht).
  destruct x as [a | p | s a]; destruct y as [b | q | s' b]; simpl in *; try discriminate.
  - inversion Hd; subst. reflexivity.
  - destruct (shape_eqb s s'); [ | discriminate]. destruct (cqs_sub a b); [ | discriminate].
    inversion Hd; subst. reflexivity.
Qed.

(* percentage tolerance: || expected - student ||^2 <= (p/100)^2 * || expected ||^2  (relative to the FIRST argument) *)
Lemma within_pct_spec : forall x y d p, 0 <= p -> v_finite x = true -> v_finite y = true ->
  v_sub x y = Some d ->
  within_tolerance x y (XStr p) = Some (Qle_bool (v_norm2 d) (v_norm2 x * (p * p * ((1 # 100) * (1 # 100))))).
Proof.
  intros x y d p Hp Fx Fy Hd. rewrite within_spec by (simpl; apply Qltb_nonneg; exact Hp).
  destruct x as [a | q | s a]; destruct y as [b | q' | s' b]; simpl in *; try discriminate.
  - inversion Hd; subst. reflexivity.
  - destruct (shape_eqb s s'); [ | discriminate]. destruct (cqs_sub a b); [ | discriminate].
    inversion Hd; subst. reflexivity.
Qed.

(* real scalars, literally as in the property text *)
Definition vreal (q : Q) : value := VNum (q, 0).

Lemma real_n2 : forall e s, cq_n2 (cq_sub (e, 0) (s, 0)) == (e - s) * (e - s).
Proof. intros. unfold cq_n2, cq_sub; cbn [fst snd]. rewrite !Qred_correct. ring. Qed.

Lemma within_abs_real : forall e s t, 0 <= t ->
  exists b, within_tolerance (vreal e) (vreal s) (t_abs t) = Some b /\ (b = true <-> Qabs (e - s) <= t).
Proof.
  intros e s t Ht. eexists. split.
  - apply within_abs_spec with (d := VNum (cq_sub (e, 0) (s, 0))); try reflexivity. exact Ht.
  - simpl v_norm2. rewrite Qle_bool_iff. rewrite real_n2. rewrite <- Qabs_sq.
    symmetry. apply sq_le_iff; [apply Qabs_nonneg | exact Ht].
Qed.

Lemma within_pct_real : forall e s p, 0 <= p ->
  exists b, within_tolerance (vreal e) (vreal s) (XStr p) = Some b
            /\ (b = true <-> Qabs (e - s) <= (p / 100) * Qabs e).
Proof.
  intros e s p Hp. eexists. split.
  - apply within_pct_spec with (d := VNum (cq_sub (e, 0) (s, 0))); try reflexivity. exact Hp.
  - simpl v_norm2. rewrite Qle_bool_iff. rewrite real_n2. rewrite <- Qabs_sq.
    assert (E : cq_n2 (e, 0) * (p * p * ((1 # 100) * (1 # 100))) == (p / 100 * Qabs e) * (p / 100 * Qabs e)).
    { unfold cq_n2; cbn [fst snd]. rewrite Qred_correct.
      setoid_replace (e * e + 0 * 0) with (Qabs e * Qabs e) by (rewrite Qabs_sq; ring). field. }
    rewrite E. symmetry. apply sq_le_iff; [apply Qabs_nonneg | ].
    apply Qmult_le_0_compat; [ | apply Qabs_nonneg]. apply Qle_shift_div_l; lra.
Qed.

(* infinities: only the same infinity matches, whatever the tolerance *)
Lemma within_inf_spec : forall x y t, v_is_number x = true -> v_finite x = false \/ v_finite y = false ->
  within_tolerance x y t = Some (v_eqb x y)
  /\ (v_eqb x y = true <-> exists p, x = VInf p /\ y = VInf p).
Proof.
  intros x y t Nx H. split.
  - unfold within_tolerance. cbv zeta.
    destruct x as [a | p | s a]; try discriminate; destruct y as [b | q | s' b]; simpl in *;
      try (destruct H; discriminate); try destruct p; try destruct q; reflexivity.
  - destruct x as [a | p | s a]; try discriminate; destruct y as [b | q | s' b]; simpl in *;
      try (destruct H; discriminate);
      try (split; [discriminate | intros [r [E1 E2]]; discriminate]).
    split.
    + intro E. apply eqb_prop in E. subst. exists q. split; reflexivity.
    + intros [r [E1 E2]]. inversion E1; inversion E2; subst. apply eqb_reflx.
Qed.

(* ---- identical values are within every non-negative tolerance ---- *)
Definition cq_equiv (a b : cq) : Prop := fst a == fst b /\ snd a == snd b.
Inductive v_equiv : value -> value -> Prop :=
| EqNum : forall a b, cq_equiv a b -> v_equiv (VNum a) (VNum b)
| EqInf : forall p, v_equiv (VInf p) (VInf p)
| EqArr : forall s a b, Forall2 cq_equiv a b -> v_equiv (VArr s a) (VArr s b).

Lemma cq_sub_equiv_n2 : forall a b, cq_equiv a b -> cq_n2 (cq_sub a b) == 0.
Proof. intros [ar ai] [br bi] [E1 E2]; unfold cq_n2, cq_sub; cbn [fst snd] in *. rewrite !Qred_correct. rewrite E1, E2. ring. Qed.

Lemma cqs_sub_equiv : forall a b, Forall2 cq_equiv a b -> exists d, cqs_sub a b = Some d /\ cqs_n2 d == 0.
Proof.
  induction 1 as [|x y a b Hxy _ [d [Hd Hn]]]; simpl.
  - exists []. split; [reflexivity | reflexivity].
  - rewrite Hd. exists (cq_sub x y :: d). split; [reflexivity|]. cbn [cqs_n2]. rewrite Qred_correct, Hn, (cq_sub_equiv_n2 _ _ Hxy). ring.
Qed.

Lemma shape_eqb_refl : forall s, shape_eqb s s = true.
Proof. induction s; simpl; [reflexivity | rewrite Z.eqb_refl; exact IHs]. Qed.

(* an arbitrary nval may carry any sign and square; tolerances built by t_abs / XStr from non-negative
   numbers are well-formed *)
Definition tol_wf (t : tolx) : Prop := tol_neg t = false /\ match t with XNum n => 0 <= n_sq n | XStr _ => True end.

Lemma tol_sq_nonneg : forall t x, tol_wf t -> 0 <= tol_sq t x.
Proof.
  intros [p | [ng sq]] x [_ H]; simpl in *.
  - pose proof (v_norm2_nonneg x). assert (0 <= p * p * ((1 # 100) * (1 # 100))) by nra. nra.
  - exact H.
Qed.

Lemma tol_wf_abs : forall t, 0 <= t -> tol_wf (t_abs t).
Proof. intros t Ht. split; simpl; [apply Qltb_nonneg; exact Ht | nra]. Qed.
Lemma tol_wf_pct : forall p, 0 <= p -> tol_wf (XStr p).
Proof. intros p Hp. split; simpl; [apply Qltb_nonneg; exact Hp | exact I]. Qed.

Lemma within_equiv : forall x y t, tol_wf t -> v_equiv x y -> within_tolerance x y t = Some true.
Proof.
  intros x y t Ht E. rewrite within_spec by (apply Ht).
  destruct E as [a b E | p | s a b E]; simpl.
  - f_equal. apply Qle_bool_iff. rewrite (cq_sub_equiv_n2 _ _ E). apply (tol_sq_nonneg t (VNum a) Ht).
  - rewrite eqb_reflx. reflexivity.
  - rewrite shape_eqb_refl. destruct (cqs_sub_equiv _ _ E) as [d [Hd Hn]]. rewrite Hd.
    f_equal. apply Qle_bool_iff. rewrite Hn. apply (tol_sq_nonneg t (VArr s a) Ht).
Qed.

(* ------------------------------------------------------------------------------------------------ *)
(* consolidate_results                                                                               *)
(* ------------------------------------------------------------------------------------------------ *)
Definition failed (r : entry) : bool := negb (okv_eqb (e_ok r) OkTrue).
Definition fails (results : list entry) : list entry := filter failed results.

Definition cbody (single : bool) (failable : Z) (result : entry) (nf : Z) : step Z entry :=
  if negb (okv_eqb (e_ok result) OkTrue) then
    let nf := (nf + 1)%Z in
    if single || (failable <? nf)%Z then Return result else Continue nf
  else Continue nf.

Lemma loop_no_failure : forall single failable l nf,
  fails l = [] -> for_loop (cbody single failable) l nf = inl nf.
Proof.
  induction l as [|r l IH]; intros nf H; simpl; [reflexivity|].
  unfold fails in H. simpl in H. unfold cbody. fold (failed r). destruct (failed r); [discriminate|].
  apply IH. exact H.
Qed.

Lemma loop_single : forall failable l nf r rest,
  fails l = r :: rest -> for_loop (cbody true failable) l nf = inr r.
Proof.
  induction l as [|x l IH]; intros nf r rest H; [discriminate|].
  unfold fails in H. simpl in H. simpl. unfold cbody at 1. fold (failed x). destruct (failed x).
  - inversion H; subst. reflexivity.
  - eapply IH. exact H.
Qed.

Lemma loop_within_budget : forall failable l nf,
  (nf + zlen (fails l) <= failable)%Z ->
  for_loop (cbody false failable) l nf = inl (nf + zlen (fails l))%Z.
Proof.
  induction l as [|x l IH]; intros nf H; simpl.
  - unfold zlen; simpl. f_equal. lia.
  - unfold fails, zlen in *. simpl in *. unfold cbody at 1. fold (failed x). destruct (failed x); simpl in *.
    + assert (L : (failable <? nf + 1)%Z = false) by (apply Z.ltb_ge; lia). rewrite L.
      rewrite IH by lia. f_equal. lia.
    + apply IH. exact H.
Qed.

Lemma loop_over_budget : forall failable l nf,
  (nf <= failable)%Z -> (failable < nf + zlen (fails l))%Z ->
  exists r, In r (fails l) /\ for_loop (cbody false failable) l nf = inr r.
Proof.
  induction l as [|x l IH]; intros nf H0 H.
  - unfold zlen in H; simpl in H. lia.
  - unfold fails, zlen in *. simpl in *. unfold cbody at 1. fold (failed x). destruct (failed x) eqn:Fx; simpl in *.
    + destruct (failable <? nf + 1)%Z eqn:L.
      * exists x. split; [left; reflexivity | reflexivity].
      * apply Z.ltb_ge in L. destruct (IH (nf + 1)%Z) as [r [Hr1 Hr2]]; [lia | lia | ].
        exists r. split; [right; exact Hr1 | exact Hr2].
    + apply IH; assumption.
Qed.

Lemma entry_prune_id : forall e, entry_prune e = e.
Proof. destruct e; reflexivity. Qed.

Lemma consolidate_unfold : forall results answer failable,
  consolidate_results results (Some answer) failable =
  match for_loop (cbody (zlen results =? 1)%Z failable) results 0%Z with
  | inr r => r
  | inl _ => entry_prune answer
  end.
Proof. reflexivity. Qed.

(* the verdict of consolidate_results, for any list of comparer results *)
Definition enough (n nfail failable : Z) : bool :=
  if (n =? 1)%Z then (nfail =? 0)%Z else (nfail <=? failable)%Z.

Lemma consolidate_spec : forall results answer failable, (0 <= failable)%Z ->
  (enough (zlen results) (zlen (fails results)) failable = true ->
     consolidate_results results (Some answer) failable = answer) /\
  (enough (zlen results) (zlen (fails results)) failable = false ->
     exists r, In r (fails results) /\ consolidate_results results (Some answer) failable = r).
Proof.
  intros results answer failable Hf. rewrite consolidate_unfold. unfold enough.
  rewrite entry_prune_id.
  destruct (zlen results =? 1)%Z eqn:S1.
  - split; intro H.
    + apply Z.eqb_eq in H. assert (E : fails results = []).
      { destruct (fails results); [reflexivity | unfold zlen in H; simpl in H; lia]. }
      rewrite loop_no_failure by exact E. reflexivity.
    + apply Z.eqb_neq in H. destruct (fails results) as [|r rest] eqn:E; [unfold zlen in H; simpl in H; lia|].
      exists r. split; [left; reflexivity|]. rewrite (loop_single failable results 0%Z r rest E). reflexivity.
  - split; intro H.
    + apply Z.leb_le in H. rewrite loop_within_budget by lia. reflexivity.
    + apply Z.leb_gt in H. destruct (loop_over_budget failable results 0%Z) as [r [Hr1 Hr2]]; [lia | lia |].
      exists r. split; [exact Hr1 | rewrite Hr2; reflexivity].
Qed.

(* ------------------------------------------------------------------------------------------------ *)
(* raw_check                                                                                         *)
(* ------------------------------------------------------------------------------------------------ *)
(* the list of per-sample comparison outcomes; None = some comparison raised (shape mismatch) *)
Fixpoint sample_oks (within : value -> value -> option bool) (evs : list sample) : option (list bool) :=
  match evs with
  | [] => Some []
  | (ps, s) :: r =>
      obind (equality_call within ps s) (fun b => obind (sample_oks within r) (fun bs => Some (b :: bs)))
  end.

Lemma compare_evaluations_oks : forall w evs,
  compare_evaluations w evs = match sample_oks w evs with Some bs => Some (map standardize_bool bs) | None => None end.
Proof.
  induction evs as [|[ps s] r IH]; simpl; [reflexivity|].
  destruct (equality_call w ps s) as [b|]; simpl; [ | reflexivity].
  rewrite IH. destruct (sample_oks w r); reflexivity.
Qed.

Lemma sample_oks_length : forall w evs bs, sample_oks w evs = Some bs -> length bs = length evs.
Proof.
  induction evs as [|[ps s] r IH]; intros bs H; simpl in H.
  - inversion H. reflexivity.
  - destruct (equality_call w ps s); simpl in H; [ | discriminate].
    destruct (sample_oks w r) as [bs'|]; simpl in H; [ | discriminate].
    inversion H; subst. simpl. f_equal. apply IH. reflexivity.
Qed.

Definition fail_entry (answer : entry) : entry := mkEntry OkFalse (0 * e_grade answer) [].

Lemma fails_scaled : forall answer bs,
  fails (map (scale_result answer) (map standardize_bool bs)) = map (fun _ => fail_entry answer) (filter negb bs).
Proof.
  induction bs as [|b bs IH]; simpl; [reflexivity|].
  destruct b; simpl; unfold fails in *; simpl; rewrite IH; reflexivity.
Qed.

Lemma zlen_map : forall A B (f : A -> B) l, zlen (map f l) = zlen l.
Proof. intros. unfold zlen. rewrite map_length. reflexivity. Qed.

Definition nfail (bs : list bool) : Z := zlen (filter negb bs).

Theorem verdict_iff_failures : forall t failable answer evs bs, (0 <= failable)%Z ->
  sample_oks (fun x y => within_tolerance x y t) evs = Some bs ->
  raw_check t failable answer evs =
    Some (if enough (zlen evs) (nfail bs) failable then answer else fail_entry answer).
Proof.
  intros t failable answer evs bs Hf Hbs. unfold raw_check, raw_check_with.
  rewrite compare_evaluations_oks, Hbs. simpl obind. f_equal.
  pose proof (consolidate_spec (map (scale_result answer) (map standardize_bool bs)) answer failable Hf) as [C1 C2].
  rewrite fails_scaled in C1, C2. rewrite !zlen_map in C1, C2.
  assert (L : zlen bs = zlen evs) by (unfold zlen; rewrite (sample_oks_length _ _ _ Hbs); reflexivity).
  rewrite L in C1, C2. unfold nfail.
  destruct (enough (zlen evs) (zlen (filter negb bs)) failable).
  - apply C1. reflexivity.
  - destruct (C2 eq_refl) as [r [Hr1 Hr2]]. rewrite Hr2.
    apply in_map_iff in Hr1. destruct Hr1 as [b [E _]]. symmetry. exact E.
Qed.

(* identical rewriting: at every sample the student's value is the author's value *)
Definition same_value (ev : sample) : Prop := exists e rest, fst ev = e :: rest /\ v_equiv e (snd ev).

Lemma sample_oks_same : forall t evs, tol_wf t -> Forall same_value evs ->
  sample_oks (fun x y => within_tolerance x y t) evs = Some (map (fun _ => true) evs).
Proof.
  intros t evs Ht H. induction H as [|[ps s] r [e [rest [E1 E2]]] _ IH]; simpl; [reflexivity|].
  simpl in E1, E2. subst ps. simpl. rewrite (within_equiv e s t Ht E2). simpl. rewrite IH. reflexivity.
Qed.

Lemma filter_negb_all_true : forall A (l : list A), filter negb (map (fun _ => true) l) = [].
Proof. induction l; simpl; [reflexivity | exact IHl]. Qed.

Theorem identical_rewrite_full_credit : forall t failable answer evs, (0 <= failable)%Z -> tol_wf t ->
  Forall same_value evs -> raw_check t failable answer evs = Some answer.
Proof.
  intros t failable answer evs Hf Ht H.
  rewrite (verdict_iff_failures t failable answer evs _ Hf (sample_oks_same t evs Ht H)).
  unfold nfail. rewrite filter_negb_all_true. unfold enough. change (zlen []) with 0%Z.
  destruct (zlen evs =? 1)%Z; [reflexivity|]. destruct (0 <=? failable)%Z eqn:E; [reflexivity|].
  apply Z.leb_gt in E. lia.
Qed.

(* off at every sample *)
Definition off_sample (t : tolx) (ev : sample) : Prop :=
  equality_call (fun x y => within_tolerance x y t) (fst ev) (snd ev) = Some false.

Lemma sample_oks_off : forall t evs, Forall (off_sample t) evs ->
  sample_oks (fun x y => within_tolerance x y t) evs = Some (map (fun _ => false) evs).
Proof.
  intros t evs H. induction H as [|[ps s] r E _ IH]; simpl; [reflexivity|].
  unfold off_sample in E. simpl in E. rewrite E. simpl. rewrite IH. reflexivity.
Qed.

Lemma filter_negb_all_false : forall A (l : list A), filter negb (map (fun _ => false) l) = map (fun _ => false) l.
Proof. induction l; simpl; [reflexivity | rewrite IHl; reflexivity]. Qed.

Theorem always_off_no_credit : forall t failable answer evs, (0 <= failable)%Z ->
  evs <> [] -> (zlen evs = 1%Z \/ (failable < zlen evs)%Z) -> Forall (off_sample t) evs ->
  raw_check t failable answer evs = Some (fail_entry answer) /\ e_grade (fail_entry answer) == 0.
Proof.
  intros t failable answer evs Hf Hne Hn H. split; [ | simpl; ring].
  rewrite (verdict_iff_failures t failable answer evs _ Hf (sample_oks_off t evs H)).
  unfold nfail. rewrite filter_negb_all_false, zlen_map. unfold enough.
  assert (P : (0 < zlen evs)%Z) by (destruct evs; [congruence | unfold zlen; simpl; lia]).
  destruct (zlen evs =? 1)%Z eqn:S1.
  - destruct (zlen evs =? 0)%Z eqn:S0; [apply Z.eqb_eq in S0; lia | reflexivity].
  - apply Z.eqb_neq in S1. destruct Hn as [Hn | Hn]; [congruence|].
    destruct (zlen evs <=? failable)%Z eqn:E; [apply Z.leb_le in E; lia | reflexivity].
Qed.

Lemma filter_len_le : forall A (f : A -> bool) l, (length (filter f l) <= length l)%nat.
Proof. induction l as [|a l IH]; simpl; [lia | destruct (f a); simpl; lia]. Qed.

(* with failable_evals >= samples > 1 the count can never exceed the budget: everything earns the credit *)
Theorem budget_not_below_samples_accepts_all : forall t failable answer evs bs,
  (1 < zlen evs <= failable)%Z ->
  sample_oks (fun x y => within_tolerance x y t) evs = Some bs ->
  raw_check t failable answer evs = Some answer.
Proof.
  intros t failable answer evs bs [H1 H2] Hbs.
  rewrite (verdict_iff_failures t failable answer evs bs) by (assumption || lia).
  unfold enough. destruct (zlen evs =? 1)%Z eqn:S1; [apply Z.eqb_eq in S1; lia|].
  assert (L : (nfail bs <= zlen evs)%Z).
  { unfold nfail, zlen. rewrite <- (sample_oks_length _ _ _ Hbs). pose proof (filter_len_le _ negb bs). lia. }
  destruct (nfail bs <=? failable)%Z eqn:E; [reflexivity | apply Z.leb_gt in E; lia].
Qed.

(* ---- the per-sample decision inside the verdict, spelled out for real scalars ---- *)
Definition real_sample (es : Q * Q) : sample := ([vreal (fst es)], vreal (snd es)).

Lemma sample_oks_cons : forall w e ps s r,
  sample_oks w ((e :: ps, s) :: r) = obind (w e s) (fun b => obind (sample_oks w r) (fun bs => Some (b :: bs))).
Proof. reflexivity. Qed.

Lemma bool_iff_eq : forall (b c : bool), (b = true <-> c = true) -> b = c.
Proof. intros [|] [|] [H1 H2]; try reflexivity; [symmetry; apply H1 | apply H2]; reflexivity. Qed.

Lemma sample_oks_abs_real : forall t (l : list (Q * Q)), 0 <= t ->
  sample_oks (fun x y => within_tolerance x y (t_abs t)) (map real_sample l)
  = Some (map (fun es => Qle_bool (Qabs (fst es - snd es)) t) l).
Proof.
  intros t l Ht. induction l as [|[e s] l IH]; [reflexivity|].
  change (map real_sample ((e, s) :: l)) with (([vreal e], vreal s) :: map real_sample l).
  rewrite sample_oks_cons. destruct (within_abs_real e s t Ht) as [b [Hb Hiff]]. rewrite Hb, IH.
  simpl. f_equal. f_equal. apply bool_iff_eq. rewrite Hiff. symmetry. apply Qle_bool_iff.
Qed.

Lemma sample_oks_pct_real : forall p (l : list (Q * Q)), 0 <= p ->
  sample_oks (fun x y => within_tolerance x y (XStr p)) (map real_sample l)
  = Some (map (fun es => Qle_bool (Qabs (fst es - snd es)) (p / 100 * Qabs (fst es))) l).
Proof.
  intros p l Hp. induction l as [|[e s] l IH]; [reflexivity|].
  change (map real_sample ((e, s) :: l)) with (([vreal e], vreal s) :: map real_sample l).
  rewrite sample_oks_cons. destruct (within_pct_real e s p Hp) as [b [Hb Hiff]]. rewrite Hb, IH.
  simpl. f_equal. f_equal. apply bool_iff_eq. rewrite Hiff. symmetry. apply Qle_bool_iff.
Qed.

Lemma zlen_map_real : forall l, zlen (map real_sample l) = zlen l.
Proof. intro l. apply zlen_map. Qed.

(* number of samples at which the student's value differs from the author's by MORE than the tolerance *)
Definition misses_abs (t : Q) (l : list (Q * Q)) : Z :=
  zlen (filter (fun es => Qltb t (Qabs (fst es - snd es))) l).
Definition misses_pct (p : Q) (l : list (Q * Q)) : Z :=
  zlen (filter (fun es => Qltb (p / 100 * Qabs (fst es)) (Qabs (fst es - snd es))) l).

Lemma filter_negb_map : forall A (f : A -> bool) l, filter negb (map f l) = map f (filter (fun a => negb (f a)) l).
Proof. induction l as [|a l IH]; simpl; [reflexivity|]. destruct (f a) eqn:E; simpl; rewrite ?E, IH; reflexivity. Qed.

Theorem verdict_abs_real : forall t failable answer (l : list (Q * Q)), 0 <= t -> (0 <= failable)%Z ->
  raw_check (t_abs t) failable answer (map real_sample l) =
    Some (if enough (zlen l) (misses_abs t l) failable then answer else fail_entry answer).
Proof.
  intros t failable answer l Ht Hf.
  rewrite (verdict_iff_failures _ _ _ _ _ Hf (sample_oks_abs_real t l Ht)).
  rewrite zlen_map_real. unfold nfail, misses_abs. rewrite filter_negb_map, zlen_map. reflexivity.
Qed.

Theorem verdict_pct_real : forall p failable answer (l : list (Q * Q)), 0 <= p -> (0 <= failable)%Z ->
  raw_check (XStr p) failable answer (map real_sample l) =
    Some (if enough (zlen l) (misses_pct p l) failable then answer else fail_entry answer).
Proof.
  intros p failable answer l Hp Hf.
  rewrite (verdict_iff_failures _ _ _ _ _ Hf (sample_oks_pct_real p l Hp)).
  rewrite zlen_map_real. unfold nfail, misses_pct. rewrite filter_negb_map, zlen_map. reflexivity.
Qed.

(* ---- every well-shaped sample list has an outcome list (so the hypotheses above are satisfiable) ---- *)
Lemma within_defined : forall x y t, (exists d, v_sub x y = Some d) -> exists b, within_tolerance x y t = Some b.
Proof.
  intros x y t [d Hd]. unfold within_tolerance. cbv zeta.
  match goal with |- exists b, (if ?c then _ else _) = _ => destruct c end; [eexists; reflexivity|].
  rewrite Hd. simpl. eexists; reflexivity.
Qed.

(* ---- extensionality of the pipeline in its two components (used to state the theorems on Gen) ---- *)
Lemma compare_evaluations_ext : forall w w' evs, (forall x y, w x y = w' x y) ->
  compare_evaluations w evs = compare_evaluations w' evs.
Proof.
  intros w w' evs H. induction evs as [|[ps s] r IH]; simpl; [reflexivity|].
  rewrite IH. destruct ps; simpl; [reflexivity | rewrite H; reflexivity].
Qed.

Lemma raw_check_with_ext : forall wt wt' cons cons' t f a evs,
  (forall x y t, wt x y t = wt' x y t) -> (forall r a f, cons r a f = cons' r a f) ->
  raw_check_with wt cons t f a evs = raw_check_with wt' cons' t f a evs.
Proof.
  intros wt wt' cons cons' t f a evs H1 H2. unfold raw_check_with.
  rewrite (compare_evaluations_ext (fun x y => wt x y t) (fun x y => wt' x y t)) by (intros; apply H1).
  destruct (compare_evaluations (fun x y => wt' x y t) evs); simpl; [rewrite H2; reflexivity | reflexivity].
Qed.

(* ------------------------------------------------------------------------------------------------ *)
(* the general end-to-end statement: finite values of any kind (real, complex, arrays of any shape)   *)
(* ------------------------------------------------------------------------------------------------ *)
Lemma within_finite : forall x y d t, tol_neg t = false -> v_finite x = true -> v_finite y = true ->
  v_sub x y = Some d -> within_tolerance x y t = Some (Qle_bool (v_norm2 d) (tol_sq t x)).
Proof.
  intros x y d t Ht Fx Fy Hd. rewrite within_spec by exact Ht.
  destruct x as [a | p | s a]; destruct y as [b | q | s' b]; simpl in *; try discriminate.
  - inversion Hd; subst. reflexivity.
  - destruct (shape_eqb s s'); [ | discriminate]. destruct (cqs_sub a b); [ | discriminate].
    inversion Hd; subst. reflexivity.
Qed.

(* a sample whose author's and student's values are finite and of the same shape *)
Definition finite_sample (ev : sample) : Prop :=
  exists e rest d, fst ev = e :: rest /\ v_finite e = true /\ v_finite (snd ev) = true /\ v_sub e (snd ev) = Some d.

(* the student's value differs from the author's by MORE than the tolerance:  ||e - s||^2 > tol^2 *)
Definition sample_miss (t : tolx) (ev : sample) : bool :=
  match fst ev with
  | e :: _ => match v_sub e (snd ev) with Some d => Qltb (tol_sq t e) (v_norm2 d) | None => false end
  | [] => false
  end.
Definition misses (t : tolx) (evs : list sample) : Z := zlen (filter (sample_miss t) evs).

Lemma sample_oks_finite : forall t evs, tol_neg t = false -> Forall finite_sample evs ->
  sample_oks (fun x y => within_tolerance x y t) evs = Some (map (fun ev => negb (sample_miss t ev)) evs).
Proof.
  intros t evs Ht H. induction H as [|[ps s] r [e [rest [d [E1 [F1 [F2 Hd]]]]]] _ IH]; [reflexivity|].
  simpl in E1, F2, Hd. subst ps. rewrite sample_oks_cons. rewrite (within_finite e s d t Ht F1 F2 Hd), IH.
  simpl. unfold sample_miss. simpl. rewrite Hd. unfold Qltb. rewrite negb_involutive. reflexivity.
Qed.

Theorem verdict_general : forall t failable answer evs, tol_neg t = false -> (0 <= failable)%Z ->
  Forall finite_sample evs ->
  raw_check t failable answer evs =
    Some (if enough (zlen evs) (misses t evs) failable then answer else fail_entry answer).
Proof.
  intros t failable answer evs Ht Hf H.
  rewrite (verdict_iff_failures _ _ _ _ _ Hf (sample_oks_finite t evs Ht H)).
  unfold nfail, misses. rewrite filter_negb_map, zlen_map.
  assert (E : filter (fun a => negb (negb (sample_miss t a))) evs = filter (sample_miss t) evs).
  { clear. induction evs as [|a l IH]; simpl; [reflexivity|]. rewrite negb_involutive, IH. reflexivity. }
  rewrite E. reflexivity.
Qed.

(* every list of well-shaped samples has an outcome list: the hypothesis of verdict_iff_failures is satisfiable *)
Definition well_shaped (ev : sample) : Prop :=
  exists e rest, fst ev = e :: rest /\
    ((exists d, v_sub e (snd ev) = Some d) \/
     (v_is_number e = true /\ v_is_number (snd ev) = true)).

Lemma within_defined_numbers : forall x y t, v_is_number x = true -> v_is_number y = true ->
  exists b, within_tolerance x y t = Some b.
Proof.
  intros x y t Nx Ny. unfold within_tolerance. cbv zeta.
  destruct x as [a | p | s a]; try discriminate; destruct y as [b | q | s' b]; try discriminate; simpl;
    try (eexists; reflexivity); try destruct p; try destruct q; simpl; eexists; reflexivity.
Qed.

Lemma sample_oks_defined : forall t evs, Forall well_shaped evs ->
  exists bs, sample_oks (fun x y => within_tolerance x y t) evs = Some bs.
Proof.
  intros t evs H. induction H as [|[ps s] r [e [rest [E1 HW]]] _ [bs IH]]; [exists []; reflexivity|].
  simpl in E1, HW. subst ps. rewrite sample_oks_cons.
  assert (D : exists b, within_tolerance e s t = Some b).
  { destruct HW as [HW | [N1 N2]]; [apply within_defined; exact HW | apply within_defined_numbers; assumption]. }
  destruct D as [b Hb]. rewrite Hb, IH. simpl. eexists; reflexivity.
Qed.

Theorem verdict_total : forall t failable answer evs, (0 <= failable)%Z -> Forall well_shaped evs ->
  exists bs, sample_oks (fun x y => within_tolerance x y t) evs = Some bs /\ length bs = length evs /\
    raw_check t failable answer evs =
      Some (if enough (zlen evs) (nfail bs) failable then answer else fail_entry answer).
Proof.
  intros t failable answer evs Hf H. destruct (sample_oks_defined t evs H) as [bs Hbs].
  exists bs. split; [exact Hbs | split; [eapply sample_oks_length; exact Hbs | apply verdict_iff_failures; assumption]].
Qed.
