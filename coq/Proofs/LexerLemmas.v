(* LexerLemmas.v -- character level: strings containing a character outside the formula alphabet are
   rejected, whatever their length; leading TAB / LF / CR are irrelevant. *)
From Coq Require Import ZArith List Bool Lia.
From Verif.Model Require Import Result Lexer Parser.
Import ListNotations.
Local Open Scope Z_scope.

(* the alphabet of formulas after the spaces have been deleted *)
Definition lex_char_ok (c : Z) : bool :=
  is_digit c || is_alpha c || is_ws c
  || match punct c with Some _ => true | None => false end
  || (c =? ch_dot) || (c =? 37) || (c =? ch_us) || (c =? 39) || (c =? ch_lbrace) || (c =? ch_rbrace).

Definition okstr (s : str) : Prop := forallb lex_char_ok s = true.

Lemma okstr_cons : forall c s, lex_char_ok c = true -> okstr s -> okstr (c :: s).
Proof. intros c s Hc Hs. unfold okstr in *. simpl. rewrite Hc, Hs. reflexivity. Qed.

Lemma okstr_app : forall a b, okstr a -> okstr b -> okstr (a ++ b).
Proof. intros a b Ha Hb. unfold okstr in *. rewrite forallb_app, Ha, Hb. reflexivity. Qed.

Lemma span_split : forall p s a b, span p s = (a, b) -> s = a ++ b /\ forallb p a = true.
Proof.
  intros p s. induction s as [|c s IH]; intros a b H; simpl in H.
  - inversion H; subst. auto.
  - destruct (p c) eqn:Pc.
    + destruct (span p s) as [a' b'] eqn:E. inversion H; subst.
      destruct (IH a' b eq_refl) as [E1 E2]. subst. simpl. rewrite Pc, E2. auto.
    + inversion H; subst. auto.
Qed.

Lemma span_ok : forall p s a b,
  (forall c, p c = true -> lex_char_ok c = true) -> span p s = (a, b) -> okstr b -> okstr s.
Proof.
  intros p s a b Hp H Hb. destruct (span_split _ _ _ _ H) as [E F]. subst.
  apply okstr_app; [|assumption]. unfold okstr. rewrite forallb_forall in *. intros c Hc. apply Hp, F, Hc.
Qed.

Ltac unfold_chars := unfold ch_us, ch_dot, ch_lbrace, ch_rbrace, ch_minus, ch_plus, ch_emdash, ch_E, ch_e, ch_caret, ch_space in *.
Ltac ok_class := intros c Hc; unfold lex_char_ok; try rewrite Hc; rewrite ?orb_true_r; reflexivity.

Lemma digit_ok : forall c, is_digit c = true -> lex_char_ok c = true.
Proof. ok_class. Qed.
Lemma alnum_ok : forall c, is_alnum c = true -> lex_char_ok c = true.
Proof.
  intros c H. unfold is_alnum in H. apply orb_true_iff in H. unfold lex_char_ok.
  destruct H as [H|H]; rewrite H; rewrite ?orb_true_r; reflexivity.
Qed.
Lemma ws_ok : forall c, is_ws c = true -> lex_char_ok c = true.
Proof. ok_class. Qed.
Lemma suffix_char_ok : forall c, is_suffix_char c = true -> lex_char_ok c = true.
Proof.
  intros c H. unfold is_suffix_char in H. apply orb_true_iff in H. unfold lex_char_ok.
  destruct H as [H|H]; rewrite H; rewrite ?orb_true_r; reflexivity.
Qed.
Lemma sub_char_ok : forall c, is_sub_char c = true -> lex_char_ok c = true.
Proof.
  intros c H. unfold is_sub_char in H. apply orb_true_iff in H.
  destruct H as [H|H]; [apply alnum_ok; assumption|]. unfold lex_char_ok. unfold_chars. rewrite H. rewrite ?orb_true_r. reflexivity.
Qed.
Lemma prime_ok : forall c, is_prime c = true -> lex_char_ok c = true.
Proof. intros c H. unfold is_prime in H. unfold lex_char_ok. unfold_chars. rewrite H. rewrite ?orb_true_r. reflexivity. Qed.

Lemma eqb_ok : forall c k, (c =? k) = true -> lex_char_ok k = true -> lex_char_ok c = true.
Proof. intros c k H Hk. apply Z.eqb_eq in H. subst. assumption. Qed.

Lemma skip_ws_ok : forall s, okstr (skip_ws s) -> okstr s.
Proof.
  intros s H. unfold skip_ws in H. destruct (span is_ws s) as [a b] eqn:E. simpl in H.
  eapply span_ok; [apply ws_ok|exact E|exact H].
Qed.

(* ---------- every sub-lexer only consumes characters of the alphabet ---------- *)
Lemma lex_mantissa_ok : forall s m r, lex_mantissa s = Some (m, r) -> okstr r -> okstr s.
Proof.
  intros s m r H Hr. unfold lex_mantissa in H.
  destruct (span is_digit s) as [ip r1] eqn:E1.
  assert (K : okstr r1 -> okstr s) by (intro; eapply span_ok; [apply digit_ok|exact E1|assumption]).
  apply K. clear K E1.
  destruct ip as [|d ip].
  - destruct r1 as [|c r2]; [discriminate|]. destruct (c =? ch_dot) eqn:C; [|discriminate].
    destruct (span is_digit r2) as [fp r3] eqn:E2. destruct fp; [discriminate|]. inversion H; subst.
    apply okstr_cons; [eapply eqb_ok; [exact C|reflexivity]|].
    eapply span_ok; [apply digit_ok|exact E2|assumption].
  - destruct r1 as [|c r2]; [inversion H; subst; assumption|].
    destruct (c =? ch_dot) eqn:C.
    + destruct (span is_digit r2) as [fp r3] eqn:E2. inversion H; subst.
      apply okstr_cons; [eapply eqb_ok; [exact C|reflexivity]|].
      eapply span_ok; [apply digit_ok|exact E2|assumption].
    + inversion H; subst. assumption.
Qed.

Lemma lex_exponent_ok : forall s e r, lex_exponent s = (e, r) -> okstr r -> okstr s.
Proof.
  intros s e r H Hr. unfold lex_exponent in H.
  destruct s as [|c s']; [inversion H; subst; assumption|].
  destruct ((c =? ch_e) || (c =? ch_E)) eqn:C; [|inversion H; subst; assumption].
  assert (Hc : lex_char_ok c = true).
  { apply orb_true_iff in C. destruct C as [C|C]; apply Z.eqb_eq in C; subst; reflexivity. }
  destruct (match s' with
            | d :: r' => if d =? ch_plus then ([ch_plus], r')
                         else if (d =? ch_minus) || (d =? ch_emdash) then ([ch_minus], r') else ([], s')
            | [] => ([], s')
            end) as [sg r1] eqn:Es.
  destruct (span is_digit r1) as [ds r2] eqn:Ed.
  destruct ds as [|d0 ds]; [inversion H; subst; assumption|]. inversion H; subst.
  assert (K1 : okstr r1) by (eapply span_ok; [apply digit_ok|exact Ed|assumption]).
  apply okstr_cons; [assumption|].
  destruct s' as [|d r']; [inversion Es; subst; assumption|].
  destruct (d =? ch_plus) eqn:D1.
  - inversion Es; subst. apply okstr_cons; [eapply eqb_ok; [exact D1|reflexivity]|assumption].
  - destruct ((d =? ch_minus) || (d =? ch_emdash)) eqn:D2.
    + inversion Es; subst. apply okstr_cons; [|assumption].
      apply orb_true_iff in D2. destruct D2 as [D|D]; apply Z.eqb_eq in D; subst; reflexivity.
    + inversion Es; subst. assumption.
Qed.

Lemma lex_suffix_ok : forall s u r, lex_suffix s = (u, r) -> okstr r -> okstr s.
Proof.
  intros s u r H Hr. unfold lex_suffix in H.
  destruct (span is_suffix_char (skip_ws s)) as [w r1] eqn:E.
  destruct w; [inversion H; subst; assumption|]. inversion H; subst.
  apply skip_ws_ok. eapply span_ok; [apply suffix_char_ok|exact E|assumption].
Qed.

Lemma lex_number_ok : forall s t r, lex_number s = Some (t, r) -> okstr r -> okstr s.
Proof.
  intros s t r H Hr. unfold lex_number in H.
  destruct (lex_mantissa s) as [[m r1]|] eqn:E1; [|discriminate].
  destruct (lex_exponent r1) as [e r2] eqn:E2. destruct (lex_suffix r2) as [u r3] eqn:E3.
  inversion H; subst.
  eapply lex_mantissa_ok; [exact E1|]. eapply lex_exponent_ok; [exact E2|]. eapply lex_suffix_ok; [exact E3|assumption].
Qed.

Lemma lex_index_ok : forall lead s i r, lex_char_ok lead = true -> lex_index lead s = (i, r) -> okstr r -> okstr s.
Proof.
  intros lead s i r Hl H Hr. unfold lex_index in H.
  destruct s as [|c [|b s']]; try (inversion H; subst; assumption).
  destruct ((c =? lead) && (b =? ch_lbrace)) eqn:C; [|inversion H; subst; assumption].
  apply andb_true_iff in C. destruct C as [C1 C2].
  destruct (match s' with
            | d :: r' => if d =? ch_minus then ([ch_minus], r') else ([], s')
            | [] => ([], s')
            end) as [sg r1] eqn:Es.
  destruct (span is_alnum r1) as [w r2] eqn:Ew.
  destruct w as [|w0 w]; [inversion H; subst; assumption|].
  destruct r2 as [|cl r3]; [inversion H; subst; assumption|].
  destruct (cl =? ch_rbrace) eqn:C3; [|inversion H; subst; assumption].
  inversion H; subst.
  apply okstr_cons; [eapply eqb_ok; [exact C1|assumption]|].
  apply okstr_cons; [eapply eqb_ok; [exact C2|reflexivity]|].
  assert (K : okstr r1).
  { eapply span_ok; [apply alnum_ok|exact Ew|]. apply okstr_cons; [eapply eqb_ok; [exact C3|reflexivity]|assumption]. }
  destruct s' as [|d r']; [inversion Es; subst; assumption|].
  destruct (d =? ch_minus) eqn:D; inversion Es; subst; [|assumption].
  apply okstr_cons; [eapply eqb_ok; [exact D|reflexivity]|assumption].
Qed.

Lemma lex_name_ok : forall s n r, lex_name s = (n, r) -> okstr r -> okstr s.
Proof.
  intros s n r H Hr. unfold lex_name in H.
  destruct (span is_alnum s) as [front r1] eqn:E1.
  destruct (span is_sub_char r1) as [u r2] eqn:E2.
  assert (Kalt : forall mid r3, (let (lo, ra) := lex_index ch_us r1 in
                                 let (up, rb) := lex_index ch_caret ra in (lo ++ up, rb)) = (mid, r3) ->
                                okstr r3 -> okstr r1).
  { intros mid r3 Ha Hr3. destruct (lex_index ch_us r1) as [lo ra] eqn:Ei1.
    destruct (lex_index ch_caret ra) as [up rb] eqn:Ei2. inversion Ha; subst.
    apply (lex_index_ok ch_us r1 lo ra eq_refl Ei1). apply (lex_index_ok ch_caret ra up r3 eq_refl Ei2). assumption. }
  destruct (match u, r2 with
            | _ :: _, c :: _ => if c =? ch_lbrace
                                then let (lo, ra) := lex_index ch_us r1 in
                                     let (up, rb) := lex_index ch_caret ra in (lo ++ up, rb)
                                else (u, r2)
            | _ :: _, [] => (u, r2)
            | [], _ => let (lo, ra) := lex_index ch_us r1 in
                       let (up, rb) := lex_index ch_caret ra in (lo ++ up, rb)
            end) as [mid r3] eqn:Em.
  destruct (span is_prime r3) as [pr r4] eqn:E4. inversion H; subst.
  assert (K3 : okstr r3) by (eapply span_ok; [apply prime_ok|exact E4|assumption]).
  eapply span_ok; [apply alnum_ok|exact E1|].
  assert (Ksub : okstr r2 -> okstr r1) by (intro; eapply span_ok; [apply sub_char_ok|exact E2|assumption]).
  destruct u as [|u0 u].
  - eapply Kalt; [exact Em|assumption].
  - destruct r2 as [|c r2'].
    + inversion Em; subst. apply Ksub. assumption.
    + destruct (c =? ch_lbrace).
      * eapply Kalt; [exact Em|assumption].
      * inversion Em; subst. apply Ksub. assumption.
Qed.

Lemma punct_ok : forall c t, punct c = Some t -> lex_char_ok c = true.
Proof. intros c t H. unfold lex_char_ok. rewrite H. rewrite ?orb_true_r. reflexivity. Qed.

Theorem lex_loop_alphabet : forall fuel s ts, lex_loop fuel s = Some ts -> okstr s.
Proof.
  induction fuel as [|f IH]; intros s ts H; [discriminate|]. simpl in H.
  apply skip_ws_ok. destruct (skip_ws s) as [|c r] eqn:Es; [reflexivity|].
  destruct (is_digit c || (c =? ch_dot)) eqn:C1.
  - destruct (lex_number (c :: r)) as [[t r']|] eqn:En; [|discriminate].
    destruct (lex_loop f r') as [ts'|] eqn:El; [|discriminate].
    eapply lex_number_ok; [exact En|]. eapply IH. exact El.
  - destruct (is_alpha c) eqn:C2.
    + destruct (lex_name (c :: r)) as [n r'] eqn:En.
      destruct (lex_loop f r') as [ts'|] eqn:El; [|discriminate].
      eapply lex_name_ok; [exact En|]. eapply IH. exact El.
    + destruct (punct c) as [t|] eqn:Ep; [|discriminate].
      destruct (lex_loop f r) as [ts'|] eqn:El; [|discriminate].
      apply okstr_cons; [eapply punct_ok; exact Ep|]. eapply IH. exact El.
Qed.

(* a character outside the alphabet anywhere in the (space-free) string makes lexing fail *)
Theorem lex_foreign : forall s1 c s2, lex_char_ok c = false -> lex (s1 ++ c :: s2) = None.
Proof.
  intros s1 c s2 Hc. destruct (lex (s1 ++ c :: s2)) as [ts|] eqn:E; [|reflexivity].
  apply lex_loop_alphabet in E. unfold okstr in E. rewrite forallb_app in E. simpl in E.
  rewrite Hc in E. rewrite andb_false_r in E. discriminate.
Qed.

(* hence a formula containing a foreign character (other than a space) is never given a tree *)
Theorem parse_formula_foreign : forall s1 c s2,
  lex_char_ok c = false -> c <> ch_space ->
  parse_formula (s1 ++ c :: s2) = PUnparsable \/ exists e, parse_formula (s1 ++ c :: s2) = PUnbalanced e.
Proof.
  intros s1 c s2 Hc Hsp. unfold parse_formula.
  assert (E : strip_spaces (s1 ++ c :: s2) = strip_spaces s1 ++ c :: strip_spaces s2).
  { unfold strip_spaces. rewrite filter_app. simpl.
    destruct (c =? ch_space) eqn:C; [apply Z.eqb_eq in C; contradiction|reflexivity]. }
  rewrite E. destruct (check_brackets _); [right; eauto|].
  rewrite lex_foreign by assumption. left. reflexivity.
Qed.

(* ---------- leading TAB / LF / CR ---------- *)
Lemma skip_ws_app : forall w s, forallb is_ws w = true -> skip_ws (w ++ s) = skip_ws s.
Proof.
  induction w as [|c w IH]; intros s H; [reflexivity|]. simpl in H. apply andb_true_iff in H. destruct H as [H1 H2].
  unfold skip_ws in *. simpl. rewrite H1. specialize (IH s H2).
  destruct (span is_ws (w ++ s)). simpl in *. assumption.
Qed.

Theorem lex_loop_leading_ws : forall fuel w s, forallb is_ws w = true -> lex_loop fuel (w ++ s) = lex_loop fuel s.
Proof.
  intros fuel w s H. destruct fuel; [reflexivity|]. simpl. rewrite skip_ws_app by assumption. reflexivity.
Qed.
