(* Proofs/RestrictReport.v -- how an undefined name is reported (C09): scope_report, the list-level rendering of
   MathExpression.check_scope's messages, is the scope check itself -- same formulas rejected, same error class. *)
From Coq Require Import ZArith QArith List Bool Lia.
From Verif.Model Require Import Result Lexer Parser Eval RestrictBase Restrict.
From Verif.Proofs Require Import Restrict.
Import ListNotations.
Local Open Scope Z_scope.

Lemma truthy_filter_neg : forall (f : str -> bool) l, truthy (filter (fun x => negb (f x)) l) = negb (forallb f l).
Proof.
  intros f l. induction l as [|x l IH]; simpl; [reflexivity|].
  destruct (f x); simpl; [exact IH | reflexivity].
Qed.

Lemma forallb_eq : forall (A : Type) (f g : A -> bool) l, (forall x, f x = g x) -> forallb f l = forallb g l.
Proof. intros A f g l H. induction l as [|x l IH]; simpl; [reflexivity|]. rewrite H, IH. reflexivity. Qed.

Lemma name_env_vars : forall v f s n, defined (venv (name_env v f s)) n = mem n v.
Proof. intros. unfold defined, name_env. simpl. destruct (mem n v); reflexivity. Qed.
Lemma name_env_funcs : forall v f s n, defined (fenv (name_env v f s)) n = mem n f.
Proof. intros. unfold defined, name_env. simpl. destruct (mem n f); reflexivity. Qed.
Lemma name_env_sufs : forall v f s n, defined (senv (name_env v f s)) n = mem n s.
Proof. intros. unfold defined, name_env. simpl. destruct (mem n s); reflexivity. Qed.

Lemma check_scope_name_env : forall v f s t,
  check_scope (name_env v f s) t =
  if negb (forallb (fun n => mem n v) (vars_of t)) then Some EUndefVar
  else if negb (forallb (fun n => mem n f) (funcs_of t)) then Some EUndefFun
  else if negb (forallb (fun n => mem n s) (suffixes_of t)) then Some EUndefSuffix
  else None.
Proof.
  intros. unfold check_scope.
  rewrite (forallb_eq _ _ (fun n => mem n v) (vars_of t) (name_env_vars v f s)).
  rewrite (forallb_eq _ _ (fun n => mem n f) (funcs_of t) (name_env_funcs v f s)).
  rewrite (forallb_eq _ _ (fun n => mem n s) (suffixes_of t) (name_env_sufs v f s)).
  reflexivity.
Qed.

(* the report is the scope check: same formulas rejected, same class -- always the undefined-name error *)
Theorem scope_report_spec : forall v f s t,
  scope_report v f s t = option_map GEvalError (check_scope (name_env v f s) t).
Proof.
  intros v f s t. rewrite check_scope_name_env. unfold scope_report. cbv zeta.
  rewrite (truthy_filter_neg (fun n => mem n v)), (truthy_filter_neg (fun n => mem n f)),
          (truthy_filter_neg (fun n => mem n s)).
  destruct (negb (forallb (fun n => mem n v) (vars_of t))); [reflexivity|].
  destruct (negb (forallb (fun n => mem n f) (funcs_of t))); [reflexivity|].
  destruct (negb (forallb (fun n => mem n s) (suffixes_of t))); reflexivity.
Qed.
