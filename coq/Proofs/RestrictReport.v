(* Proofs/RestrictReport.v -- how an undefined name is reported (C09): scope_report agrees with check_scope on WHETHER a
   formula is rejected and on the class of the error, except when formatting the "did you mean" suggestion fails. *)
From Coq Require Import ZArith QArith List Bool Lia.
From Verif.Model Require Import Result Lexer Parser Eval RestrictBase Restrict.
From Verif.Proofs Require Import Restrict.
Import ListNotations.
Local Open Scope Z_scope.

Lemma truthy_filter_neg : forall (f : str -> bool) l, truthy (filter (fun x => negb (f x)) l) = negb (forallb f l).
Proof.
  intros f l. induction l as [|x l IH]; simpl; [reflexivity|].
  destruct (f x); simpl; [exact IH | reflexivity].
Qed.

Lemma forallb_eq : forall (A : Type) (f g : A -> bool) l, (forall x, f x = g x) -> forallb f l = forallb g l.
Proof. intros A f g l H. induction l as [|x l IH]; simpl; [reflexivity|]. rewrite H, IH. reflexivity. Qed.

Lemma name_env_vars : forall v f s n, defined (venv (name_env v f s)) n = mem n v.
Proof. intros. unfold defined, name_env. simpl. destruct (mem n v); reflexivity. Qed.
Lemma name_env_funcs : forall v f s n, defined (fenv (name_env v f s)) n = mem n f.
Proof. intros. unfold defined, name_env. simpl. destruct (mem n f); reflexivity. Qed.
Lemma name_env_sufs : forall v f s n, defined (senv (name_env v f s)) n = mem n s.
Proof. intros. unfold defined, name_env. simpl. destruct (mem n s); reflexivity. Qed.

Lemma check_scope_name_env : forall v f s t,
  check_scope (name_env v f s) t =
  if negb (forallb (fun n => mem n v) (vars_of t)) then Some EUndefVar
  else if negb (forallb (fun n => mem n f) (funcs_of t)) then Some EUndefFun
  else if negb (forallb (fun n => mem n s) (suffixes_of t)) then Some EUndefSuffix
  else None.
Proof.
  intros. unfold check_scope.
  rewrite (forallb_eq _ _ (fun n => mem n v) (vars_of t) (name_env_vars v f s)).
  rewrite (forallb_eq _ _ (fun n => mem n f) (funcs_of t) (name_env_funcs v f s)).
  rewrite (forallb_eq _ _ (fun n => mem n s) (suffixes_of t) (name_env_sufs v f s)).
  reflexivity.
Qed.

(* the report rejects exactly the formulas the scope check rejects, with the same error class or the generic error *)
Theorem scope_report_spec : forall v f s t,
  (check_scope (name_env v f s) t = None <-> scope_report v f s t = None)
  /\ (forall e, check_scope (name_env v f s) t = Some e ->
        scope_report v f s t = Some (GEvalError e) \/ scope_report v f s t = Some GGenericError).
Proof.
  intros v f s t. rewrite check_scope_name_env. unfold scope_report. cbv zeta.
  rewrite (truthy_filter_neg (fun n => mem n v)), (truthy_filter_neg (fun n => mem n f)),
          (truthy_filter_neg (fun n => mem n s)).
  destruct (negb (forallb (fun n => mem n v) (vars_of t))).
  { split; [split; discriminate|]. intros e H; inversion H; subst. destruct (format_crashes _ v); auto. }
  destruct (negb (forallb (fun n => mem n f) (funcs_of t))).
  { split; [split; discriminate|]. intros e H; inversion H; subst. destruct (format_crashes _ f); auto. }
  destruct (negb (forallb (fun n => mem n s) (suffixes_of t))).
  { split; [split; discriminate|]. intros e H; inversion H; subst. auto. }
  split; [split; reflexivity | discriminate].
Qed.

Lemma format_crashes_spec : forall bad defined,
  format_crashes bad defined = true <->
  exists d b, In d defined /\ has_brace d = true /\ In b bad /\ lower d = lower b.
Proof.
  intros bad defined. unfold format_crashes. rewrite existsb_exists. split.
  - intros [d [Hd H]]. apply andb_true_iff in H. destruct H as [Hb H]. apply existsb_exists in H.
    destruct H as [b [Hin He]]. apply str_eqb_eq in He. exists d, b. auto.
  - intros [d [b [Hd [Hb [Hin He]]]]]. exists d. split; [exact Hd|]. rewrite Hb. simpl. apply existsb_exists.
    exists b. split; [exact Hin | apply str_eqb_eq; exact He].
Qed.

(* the generic error needs a defined name WITH A BRACE that differs from an undefined one only by case *)
Theorem generic_error_needs_brace_variant : forall v f s t,
  scope_report v f s t = Some GGenericError ->
  exists d b, (In d v /\ In b (vars_of t) /\ ~ In b v \/ In d f /\ In b (funcs_of t) /\ ~ In b f)
              /\ has_brace d = true /\ lower d = lower b.
Proof.
  intros v f s t. unfold scope_report. cbv zeta.
  destruct (truthy (filter (fun x => negb (mem x v)) (vars_of t))).
  { destruct (format_crashes _ v) eqn:Hc; [|discriminate]. intros _.
    apply format_crashes_spec in Hc. destruct Hc as [d [b [Hd [Hb [Hin He]]]]].
    apply filter_In in Hin. destruct Hin as [Hin Hn]. apply negb_true_iff, mem_false in Hn.
    exists d, b. split; [left; auto | auto]. }
  destruct (truthy (filter (fun x => negb (mem x f)) (funcs_of t))).
  { destruct (format_crashes _ f) eqn:Hc; [|discriminate]. intros _.
    apply format_crashes_spec in Hc. destruct Hc as [d [b [Hd [Hb [Hin He]]]]].
    apply filter_In in Hin. destruct Hin as [Hin Hn]. apply negb_true_iff, mem_false in Hn.
    exists d, b. split; [right; auto | auto]. }
  destruct (truthy _); discriminate.
Qed.

Lemma no_brace_no_generic : forall v f s t,
  (forall d, In d v \/ In d f -> has_brace d = false) -> scope_report v f s t <> Some GGenericError.
Proof.
  intros v f s t H Hg. apply generic_error_needs_brace_variant in Hg.
  destruct Hg as [d [b [[[Hd _]|[Hd _]] [Hb _]]]]; rewrite (H d) in Hb; auto; discriminate.
Qed.
