(* Proofs/CallGuard.v -- lemmas for C02 (only library errors escape). *)
From Coq Require Import ZArith QArith List Bool String Ascii Lia.
From Verif.Lib Require Import CallGuardBase.
From Verif.Model Require Import Result Credit CallGuard.
Import ListNotations.
Open Scope string_scope.
Open Scope list_scope.

(* ------------------------------------------------------------------------------------------------------- *)
(* vocabulary of the statements                                                                             *)
(* ------------------------------------------------------------------------------------------------------- *)
Definition is_exception (e : exc) : Prop := isinst e "Exception" = true.
Definition lib_error (e : exc) : Prop := isinst e "MITxError" = true.
Definition student_facing (e : exc) : Prop := isinst e "StudentFacingError" = true.
Definition config_error (e : exc) : Prop := isinst e "ConfigError" = true.
Definition in_family (e : exc) : Prop := student_facing e \/ config_error e.

Definition infix (s m : cstr) : Prop := exists a b, m = a ++ s ++ b.

Lemma isinst_In : forall e c, isinst e c = true <-> In c (x_mro e).
Proof.
  intros e c. unfold isinst. rewrite existsb_exists. split.
  - intros [x [Hin Heq]]. apply String.eqb_eq in Heq. subst. exact Hin.
  - intro H. exists c. split; [exact H | apply String.eqb_refl].
Qed.

(* ------------------------------------------------------------------------------------------------------- *)
(* A. the exception tree                                                                                    *)
(* ------------------------------------------------------------------------------------------------------- *)
Definition rooted_b (tbl : list (string * string)) : bool :=
  forallb (fun p => existsb (String.eqb "MITxError") (mro_of tbl (fst p))
                    && existsb (String.eqb "Exception") (mro_of tbl (fst p))) tbl.

Definition family_b (tbl : list (string * string)) : bool :=
  forallb (fun p => String.eqb (fst p) "MITxError"
                    || existsb (String.eqb "StudentFacingError") (mro_of tbl (fst p))
                    || existsb (String.eqb "ConfigError") (mro_of tbl (fst p))) tbl.

Lemma existsb_eqb_In : forall c l, existsb (String.eqb c) l = true <-> In c l.
Proof.
  intros c l. rewrite existsb_exists. split.
  - intros [x [Hin Heq]]. apply String.eqb_eq in Heq. subst. exact Hin.
  - intro H. exists c. split; [exact H | apply String.eqb_refl].
Qed.

Lemma exc_tree_rooted : forall c b, In (c, b) exc_table ->
  In "MITxError" (mro_of exc_table c) /\ In "Exception" (mro_of exc_table c).
Proof.
  assert (H : rooted_b exc_table = true) by (vm_compute; reflexivity).
  unfold rooted_b in H. rewrite forallb_forall in H.
  intros c b Hin. specialize (H (c, b) Hin). simpl in H. apply andb_true_iff in H. destruct H as [H1 H2].
  split; apply existsb_eqb_In; assumption.
Qed.

Lemma exc_tree_family : forall c b, In (c, b) exc_table ->
  c = "MITxError" \/ In "StudentFacingError" (mro_of exc_table c) \/ In "ConfigError" (mro_of exc_table c).
Proof.
  assert (H : family_b exc_table = true) by (vm_compute; reflexivity).
  unfold family_b in H. rewrite forallb_forall in H.
  intros c b Hin. specialize (H (c, b) Hin). simpl in H.
  apply orb_true_iff in H. destruct H as [H | H].
  - apply orb_true_iff in H. destruct H as [H | H].
    + left. apply String.eqb_eq. exact H.
    + right. left. apply existsb_eqb_In. exact H.
  - right. right. apply existsb_eqb_In. exact H.
Qed.

Lemma lookup_In : forall tbl c b, lookup tbl c = Some b -> In (c, b) tbl.
Proof.
  induction tbl as [|[k v] r IH]; simpl; intros c b H; [discriminate|].
  destruct (String.eqb k c) eqn:E.
  - apply String.eqb_eq in E. inversion H. subst. left. reflexivity.
  - right. apply IH. exact H.
Qed.

(* an exception built from a class named in the table is a library error (and an Exception) *)
Lemma mk_named_lib : forall c m b, lookup exc_table c = Some b ->
  lib_error (mk_named exc_table c m) /\ is_exception (mk_named exc_table c m).
Proof.
  intros c m b H. unfold mk_named. rewrite H. apply lookup_In in H. destruct (exc_tree_rooted c b H) as [H1 H2].
  split; apply isinst_In; simpl; assumption.
Qed.

(* ------------------------------------------------------------------------------------------------------- *)
(* B. ensure_text_inputs                                                                                    *)
(* ------------------------------------------------------------------------------------------------------- *)
Lemma first_bad_none : forall l i, first_bad l i = None <-> all_str l = true.
Proof.
  induction l as [|x r IH]; simpl; intro i; [tauto|].
  destruct (is_str x); simpl; [apply IH|]. split; discriminate.
Qed.

Lemma first_bad_some : forall l i k, first_bad l i = Some k ->
  (i <= k)%nat /\ (k - i < List.length l)%nat /\ is_str (nth (k - i) l (POther [])) = false
  /\ forall j, (j < k - i)%nat -> is_str (nth j l (POther [])) = true.
Proof.
  induction l as [|x r IH]; simpl; intros i k H; [discriminate|].
  destruct (is_str x) eqn:E.
  - apply IH in H. destruct H as [H1 [H2 [H3 H4]]].
    replace (k - i)%nat with (S (k - S i)) by lia. simpl.
    split; [lia|]. split; [lia|]. split; [exact H3|].
    intros j Hj. destruct j; [exact E|]. apply H4. lia.
  - inversion H. subst. replace (k - k)%nat with O by lia. simpl.
    split; [lia|]. split; [lia|]. split; [exact E|]. intros j Hj. lia.
Qed.

Definition config_exc (m : cstr) : exc := mkExc (mro_of exc_table "ConfigError") m.

Lemma config_exc_family : forall m, lib_error (config_exc m) /\ config_error (config_exc m) /\ is_exception (config_exc m).
Proof. intro m. repeat split; vm_compute; reflexivity. Qed.

(* the library always passes at least one of the two flags *)
Lemma mode_flags_values :
  mode_flags ensure ModeItem = (false, true) /\ mode_flags ensure ModeList = (true, false)
  /\ mode_flags ensure ModeBoth = (true, true).
Proof. repeat split; reflexivity. Qed.

(* text of the shape the grader requires is returned unchanged ... *)
Lemma ensure_accepts : forall m v, shape_ok m v = true -> ensure_mode exc_table ensure m v = Ret v.
Proof.
  intros m v H. destruct v as [t s|t items|t]; destruct m; simpl in H; try discriminate; try reflexivity.
  - unfold ensure_mode. simpl mode_flags. cbv beta iota. unfold ensure_text, run_validation. simpl.
    apply first_bad_none with (i := O) in H. rewrite H. reflexivity.
  - unfold ensure_mode. simpl mode_flags. cbv beta iota. unfold ensure_text, run_validation. simpl.
    apply first_bad_none with (i := O) in H. rewrite H. reflexivity.
Qed.

(* ... and everything else is refused with a ConfigError *)
Lemma ensure_refuses : forall m v, shape_ok m v = false ->
  exists msg, ensure_mode exc_table ensure m v = Raise (config_exc msg).
Proof.
  intros m v H. destruct v as [t s|t items|t]; destruct m; simpl in H; try discriminate;
    try (eexists; reflexivity).
  - (* ModeList, a list with a non-text item *)
    unfold ensure_mode. simpl mode_flags. cbv beta iota. unfold ensure_text, run_validation. simpl.
    destruct (first_bad items 0) as [k|] eqn:E.
    + eexists. reflexivity.
    + apply first_bad_none in E. congruence.
  - (* ModeBoth, a list with a non-text item *)
    unfold ensure_mode. simpl mode_flags. cbv beta iota. unfold ensure_text, run_validation. simpl.
    destruct (first_bad items 0) as [k|] eqn:E.
    + eexists. reflexivity.
    + apply first_bad_none in E. congruence.
Qed.

Lemma ensure_spec_iff : forall m v,
  (shape_ok m v = true /\ ensure_mode exc_table ensure m v = Ret v)
  \/ (shape_ok m v = false /\ exists msg, ensure_mode exc_table ensure m v = Raise (config_exc msg)).
Proof.
  intros m v. destruct (shape_ok m v) eqn:E.
  - left. split; [reflexivity | apply ensure_accepts; exact E].
  - right. split; [reflexivity | apply ensure_refuses; exact E].
Qed.

(* the position named in the list-mode message is the first entry that is not text, and the type named is its type *)
Lemma ensure_list_position : forall t items, all_str items = false ->
  exists k, first_bad items 0 = Some k
    /\ (k < List.length items)%nat
    /\ is_str (nth k items (POther [])) = false
    /\ (forall j, (j < k)%nat -> is_str (nth j items (POther [])) = true)
    /\ ensure_mode exc_table ensure ModeList (PList t items)
       = Raise (config_exc (s2z "Expected a list of text strings for student_input, but item at position "
                            ++ dec k ++ s2z " has " ++ ty_of (nth k items (POther [])))).
Proof.
  intros t items H. destruct (first_bad items 0) as [k|] eqn:E.
  - exists k. pose proof (first_bad_some items 0 k E) as [H1 [H2 [H3 H4]]]. rewrite Nat.sub_0_r in *.
    repeat split; try assumption.
    unfold ensure_mode. simpl mode_flags. cbv beta iota. unfold ensure_text, run_validation. simpl. rewrite E. simpl.
    unfold config_exc. f_equal. f_equal. rewrite app_nil_r. reflexivity.
  - apply first_bad_none in E. congruence.
Qed.

(* calling the static method with both flags off is a programming error (ValueError); no grader does so *)
Lemma ensure_no_flags : forall v, exists e, ensure_text exc_table ensure false false v = Raise e /\ cls_of e = "ValueError".
Proof. intro v. destruct v; eexists; split; reflexivity. Qed.

(* ------------------------------------------------------------------------------------------------------- *)
(* C. the guard around check                                                                                *)
(* ------------------------------------------------------------------------------------------------------- *)
Definition generic_exc (inp : pyval) : exc := mkExc (mro_of exc_table "StudentFacingError") (generic_msg guard inp).

Lemma generic_exc_family : forall inp,
  lib_error (generic_exc inp) /\ student_facing (generic_exc inp) /\ cls_of (generic_exc inp) = "StudentFacingError".
Proof. intro inp. repeat split; vm_compute; reflexivity. Qed.

(* the three branches of the handler, debug off *)
Lemma guard_keeps : forall inp e, is_exception e -> lib_error e ->
  guard_exc exc_table guard false inp e = mkExc (x_mro e) (replace1 NL BR (x_msg e)).
Proof.
  intros inp e He Hl. unfold guard_exc. simpl g_catch. simpl g_keep_root.
  unfold is_exception in He. unfold lib_error in Hl. rewrite He, Hl. reflexivity.
Qed.

Lemma guard_generic : forall inp e, is_exception e -> ~ lib_error e ->
  guard_exc exc_table guard false inp e = generic_exc inp.
Proof.
  intros inp e He Hl. unfold guard_exc. simpl g_catch. simpl g_keep_root.
  unfold is_exception in He. unfold lib_error in Hl. rewrite He. simpl.
  destruct (isinst e "MITxError"); [exfalso; apply Hl; reflexivity | reflexivity].
Qed.

Lemma guard_debug : forall inp e, guard_exc exc_table guard true inp e = e.
Proof.
  intros inp e. unfold guard_exc. destruct (negb (isinst e (g_catch guard))); reflexivity.
Qed.

(* anything that is not an Exception (KeyboardInterrupt, SystemExit) is not caught at all *)
Lemma guard_not_exception : forall debug inp e, ~ is_exception e -> guard_exc exc_table guard debug inp e = e.
Proof.
  intros debug inp e H. unfold guard_exc. simpl g_catch. unfold is_exception in H.
  destruct (isinst e "Exception"); [exfalso; apply H; reflexivity | reflexivity].
Qed.

(* whatever check raises, what leaves the guard is a library error *)
Lemma guard_family : forall inp e, is_exception e -> lib_error (guard_exc exc_table guard false inp e).
Proof.
  intros inp e He. destruct (isinst e "MITxError") eqn:E.
  - rewrite guard_keeps by assumption. unfold lib_error, isinst in *. simpl. exact E.
  - rewrite guard_generic; [apply generic_exc_family | exact He | unfold lib_error; congruence].
Qed.

Lemma guard_family_strict : forall inp e, is_exception e -> (lib_error e -> in_family e) ->
  in_family (guard_exc exc_table guard false inp e).
Proof.
  intros inp e He Hf. destruct (isinst e "MITxError") eqn:E.
  - rewrite guard_keeps by assumption. specialize (Hf E). unfold in_family, student_facing, config_error, isinst in *.
    simpl. exact Hf.
  - rewrite guard_generic; [left; apply generic_exc_family | exact He | unfold lib_error; congruence].
Qed.

Lemma guard_class_kept : forall inp e, is_exception e -> lib_error e ->
  cls_of (guard_exc exc_table guard false inp e) = cls_of e
  /\ x_mro (guard_exc exc_table guard false inp e) = x_mro e.
Proof. intros inp e He Hl. rewrite guard_keeps by assumption. split; reflexivity. Qed.

(* line breaks: every "\n" becomes "<br/>", nothing else changes *)
Lemma br_spec : forall s, replace1 NL BR s = flat_map (fun c => if Z.eqb c NL then BR else [c]) s.
Proof.
  induction s as [|c r IH]; simpl; [reflexivity|]. destruct (Z.eqb c NL); rewrite IH; reflexivity.
Qed.

Lemma br_no_newline : forall s, ~ In NL (replace1 NL BR s).
Proof.
  induction s as [|c r IH]; simpl; [tauto|]. destruct (Z.eqb c NL) eqn:E.
  - intro H. do 5 (destruct H as [H|H]; [discriminate|]). exact (IH H).
  - intros [H|H]; [|exact (IH H)]. subst c. rewrite Z.eqb_refl in E. discriminate.
Qed.

Lemma br_identity : forall s, ~ In NL s -> replace1 NL BR s = s.
Proof.
  induction s as [|c r IH]; simpl; intro H; [reflexivity|]. destruct (Z.eqb c NL) eqn:E.
  - apply Z.eqb_eq in E. exfalso. apply H. left. exact E.
  - rewrite IH; [reflexivity | tauto].
Qed.

Lemma br_app : forall a b, replace1 NL BR (a ++ b) = replace1 NL BR a ++ replace1 NL BR b.
Proof.
  induction a as [|c r IH]; simpl; intro b; [reflexivity|]. destruct (Z.eqb c NL); rewrite IH; reflexivity.
Qed.

(* the generic message names what was submitted *)
Lemma generic_single : forall t s,
  generic_msg guard (PStr t s) = s2z "Invalid Input: Could not check input '" ++ s ++ s2z "'".
Proof. intros t s. unfold generic_msg, render. simpl. repeat rewrite <- app_assoc. try rewrite app_nil_r. reflexivity. Qed.

Lemma generic_list : forall t items,
  generic_msg guard (PList t items)
  = s2z "Invalid Input: Could not check inputs '" ++ join (s2z "', '") (map text_of items) ++ s2z "'".
Proof. intros t items. unfold generic_msg, render. simpl. repeat rewrite <- app_assoc. try rewrite app_nil_r. reflexivity. Qed.

Lemma infix_join : forall sep l s, In s l -> infix s (join sep l).
Proof.
  induction l as [|x r IH]; simpl; intros s H; [contradiction|].
  destruct r as [|y r'].
  - destruct H as [H|[]]. subst. exists [], []. rewrite app_nil_r. reflexivity.
  - destruct H as [H|H].
    + subst. exists [], (sep ++ join sep (y :: r')). reflexivity.
    + destruct (IH s H) as [a [b Hab]]. exists (x ++ sep ++ a), b. rewrite Hab. repeat rewrite <- app_assoc. reflexivity.
Qed.

Lemma generic_names_every_input : forall t items s, In s (map text_of items) ->
  infix s (generic_msg guard (PList t items)).
Proof.
  intros t items s H. rewrite generic_list. destruct (infix_join (s2z "', '") _ s H) as [a [b Hab]].
  exists (s2z "Invalid Input: Could not check inputs '" ++ a), (b ++ s2z "'"). rewrite Hab.
  repeat rewrite <- app_assoc. reflexivity.
Qed.

(* ------------------------------------------------------------------------------------------------------- *)
(* D. the whole call                                                                                        *)
(* ------------------------------------------------------------------------------------------------------- *)
Definition the_call := call exc_table guard ensure.

Lemma post_raises_only_config : forall cfg att r e, post cfg att r = Raise e -> e = config_exc ATTEMPT_MSG.
Proof.
  intros cfg att r e H. unfold post in H. destruct (cc_credit cfg) as [sched|].
  - destruct (apply_credit sched (cc_credit_msg cfg) att (entries_of r)).
    + discriminate.
    + inversion H. reflexivity.
  - discriminate.
Qed.

Lemma post_missing_attempt : forall cfg r sched, cc_credit cfg = Some sched ->
  post cfg None r = Raise (config_exc ATTEMPT_MSG).
Proof. intros cfg r sched H. unfold post. rewrite H. reflexivity. Qed.

Lemma post_returns : forall cfg n r, exists r', post cfg (Some n) r = Ret r'.
Proof.
  intros cfg n r. unfold post. destruct (cc_credit cfg) as [sched|].
  - unfold apply_credit. destruct (Qeq_bool _ 1); eexists; reflexivity.
  - eexists. reflexivity.
Qed.

Lemma post_no_credit_returns : forall cfg att r, cc_credit cfg = None -> exists r', post cfg att r = Ret r'.
Proof. intros cfg att r H. unfold post. rewrite H. eexists. reflexivity. Qed.

(* input of the wrong shape is refused before check is consulted: the outcome does not depend on check at all *)
Lemma call_refuses_ungraded : forall cfg check1 check2 att1 att2 inp, shape_ok (cc_mode cfg) inp = false ->
  the_call cfg check1 att1 inp = the_call cfg check2 att2 inp
  /\ exists msg, the_call cfg check1 att1 inp = Raise (config_exc msg).
Proof.
  intros cfg check1 check2 att1 att2 inp H. unfold the_call, call.
  destruct (ensure_refuses _ _ H) as [msg Hm]. rewrite Hm. split; [reflexivity | exists msg; reflexivity].
Qed.

Lemma call_on_text : forall cfg check att inp, shape_ok (cc_mode cfg) inp = true ->
  the_call cfg check att inp =
  match guarded exc_table guard (cc_debug cfg) inp (check inp) with
  | Raise e => Raise e
  | Ret r => post cfg att r
  end.
Proof. intros cfg check att inp H. unfold the_call, call. rewrite (ensure_accepts _ _ H). reflexivity. Qed.

(* MAIN: with debug off, for every input object, every check oracle whose failures are Python Exceptions, every
   attempt number: the call returns or raises an exception of the library's own family *)
Lemma call_family : forall cfg check att inp, cc_debug cfg = false ->
  (forall v e, check v = Raise e -> is_exception e) ->
  match the_call cfg check att inp with
  | Ret _ => True
  | Raise e => lib_error e /\ is_exception e
  end.
Proof.
  intros cfg check att inp Hd Hc. destruct (shape_ok (cc_mode cfg) inp) eqn:S.
  - rewrite call_on_text by exact S. rewrite Hd. destruct (check inp) as [r|e] eqn:C; simpl.
    + destruct (post cfg att r) as [r'|e'] eqn:P; [exact I|].
      apply post_raises_only_config in P. subst. split; apply config_exc_family.
    + split; [apply guard_family; exact (Hc _ _ C)|].
      specialize (Hc _ _ C). destruct (isinst e "MITxError") eqn:E.
      * rewrite guard_keeps by assumption. unfold is_exception, isinst in *. simpl. exact Hc.
      * rewrite guard_generic; [vm_compute; reflexivity | exact Hc | unfold lib_error; congruence].
  - destruct (call_refuses_ungraded cfg check check att att inp S) as [_ [msg Hm]]. rewrite Hm.
    split; apply config_exc_family.
Qed.

(* the same with the family spelled out: student-facing or configuration error, provided the library errors
   check raises are (every class of the tree except the bare root is, by exc_tree_family) *)
Lemma call_family_strict : forall cfg check att inp, cc_debug cfg = false ->
  (forall v e, check v = Raise e -> is_exception e /\ (lib_error e -> in_family e)) ->
  match the_call cfg check att inp with
  | Ret _ => True
  | Raise e => in_family e
  end.
Proof.
  intros cfg check att inp Hd Hc. destruct (shape_ok (cc_mode cfg) inp) eqn:S.
  - rewrite call_on_text by exact S. rewrite Hd. destruct (check inp) as [r|e] eqn:C; simpl.
    + destruct (post cfg att r) as [r'|e'] eqn:P; [exact I|].
      apply post_raises_only_config in P. subst. right. apply config_exc_family.
    + destruct (Hc _ _ C) as [H1 H2]. apply guard_family_strict; assumption.
  - destruct (call_refuses_ungraded cfg check check att att inp S) as [_ [msg Hm]]. rewrite Hm.
    right. apply config_exc_family.
Qed.

(* an anticipated problem keeps its class, its message has the line breaks rendered; an unanticipated one becomes
   the generic error naming the input; a successful check is never turned into an error by the guard *)
Lemma call_anticipated : forall cfg check att inp e, cc_debug cfg = false -> shape_ok (cc_mode cfg) inp = true ->
  check inp = Raise e -> is_exception e -> lib_error e ->
  the_call cfg check att inp = Raise (mkExc (x_mro e) (replace1 NL BR (x_msg e))).
Proof.
  intros cfg check att inp e Hd S C He Hl. rewrite call_on_text by exact S. rewrite Hd, C. simpl.
  rewrite guard_keeps by assumption. reflexivity.
Qed.

Lemma call_unanticipated : forall cfg check att inp e, cc_debug cfg = false -> shape_ok (cc_mode cfg) inp = true ->
  check inp = Raise e -> is_exception e -> ~ lib_error e ->
  the_call cfg check att inp = Raise (generic_exc inp).
Proof.
  intros cfg check att inp e Hd S C He Hl. rewrite call_on_text by exact S. rewrite Hd, C. simpl.
  rewrite guard_generic by assumption. reflexivity.
Qed.

Lemma call_check_returned : forall cfg check att inp r, shape_ok (cc_mode cfg) inp = true -> check inp = Ret r ->
  the_call cfg check att inp = post cfg att r.
Proof. intros cfg check att inp r S C. rewrite call_on_text by exact S. rewrite C. reflexivity. Qed.

(* debug on: the raw exception is re-raised unchanged (why the property says "with debug off") *)
Lemma call_debug_reraises : forall cfg check att inp e, cc_debug cfg = true -> shape_ok (cc_mode cfg) inp = true ->
  check inp = Raise e -> the_call cfg check att inp = Raise e.
Proof.
  intros cfg check att inp e Hd S C. rewrite call_on_text by exact S. rewrite Hd, C. simpl. rewrite guard_debug. reflexivity.
Qed.

(* ItemGrader.__call__: inference from `expect` happens outside the guarded region *)
Lemma item_call_no_expect : forall cfg infer check att inp,
  item_call exc_table guard ensure cfg infer false check att inp = the_call cfg check att inp.
Proof. reflexivity. Qed.

Lemma item_call_valid_expect : forall cfg check att inp,
  item_call exc_table guard ensure cfg (Ret tt) true check att inp = the_call cfg check att inp.
Proof. reflexivity. Qed.

Lemma item_call_invalid_expect_escapes : forall cfg e check att inp,
  item_call exc_table guard ensure cfg (Raise e) true check att inp = Raise e.
Proof. reflexivity. Qed.

(* ------------------------------------------------------------------------------------------------------- *)
(* E. numpy floating point errors and the except-clause tables                                              *)
(* ------------------------------------------------------------------------------------------------------- *)
Definition np_exc (err : cstr) : exc := np_raise np_err_rules np_err_default err.

Definition arith_or_value (e : exc) : Prop :=
  cls_of e = "ZeroDivisionError" \/ cls_of e = "OverflowError" \/ cls_of e = "ValueError" \/ cls_of e = "Exception".

(* whatever numpy reports, the handler raises a Python Exception of one of four classes *)
Lemma np_exc_classes : forall err, is_exception (np_exc err) /\ arith_or_value (np_exc err).
Proof.
  intro err. unfold np_exc, np_raise, np_err_rules, np_pick.
  destruct (containsb (s2z "divide by zero") err); [split; [reflexivity | left; reflexivity]|].
  destruct (containsb (s2z "overflow") err); [split; [reflexivity | right; left; reflexivity]|].
  destruct (containsb (s2z "value") err); [split; [reflexivity | right; right; left; reflexivity]|].
  split; [reflexivity | right; right; right; reflexivity].
Qed.

Definition lib_exc (c : string) (m : cstr) : exc := mkExc (mro_of exc_table c) m.

Definition DIV_MSG : cstr := s2z "Division by zero occurred. Check your input's denominators.".
Definition OVF_MSG : cstr := s2z "Numerical overflow occurred. Does your input generate very large numbers?".
Definition fn_domain_msg (name : cstr) : cstr :=
  s2z "There was an error evaluating " ++ name ++ s2z "(...). Its input does not seem to be in its domain.".
Definition fn_overflow_msg (name : cstr) : cstr :=
  s2z "There was an error evaluating " ++ name ++ s2z "(...). (Numerical overflow).".

(* MathExpression.eval: the two arithmetic errors become their student-facing counterparts, everything else passes *)
Lemma eval_recast_zero : forall env e, isinst e "OverflowError" = false -> isinst e "ZeroDivisionError" = true ->
  apply_handlers exc_table eval_handlers env e = lib_exc "CalcZeroDivisionError" DIV_MSG.
Proof. intros env e H1 H2. unfold eval_handlers. simpl. rewrite H1, H2. reflexivity. Qed.

Lemma eval_recast_overflow : forall env e, isinst e "OverflowError" = true ->
  apply_handlers exc_table eval_handlers env e = lib_exc "CalcOverflowError" OVF_MSG.
Proof. intros env e H1. unfold eval_handlers. simpl. rewrite H1. reflexivity. Qed.

Lemma eval_recast_other : forall env e, isinst e "OverflowError" = false -> isinst e "ZeroDivisionError" = false ->
  apply_handlers exc_table eval_handlers env e = e.
Proof. intros env e H1 H2. unfold eval_handlers. simpl. rewrite H1, H2. reflexivity. Qed.

(* a numpy "divide by zero" / "overflow" report inside an expression surfaces as the Calc error *)
Lemma np_divide_by_zero_surfaces : forall err env, containsb (s2z "divide by zero") err = true ->
  apply_handlers exc_table eval_handlers env (np_exc err) = lib_exc "CalcZeroDivisionError" DIV_MSG.
Proof.
  intros err env H. unfold np_exc, np_raise, np_err_rules, np_pick. rewrite H. reflexivity.
Qed.

Lemma np_overflow_surfaces : forall err env, containsb (s2z "divide by zero") err = false ->
  containsb (s2z "overflow") err = true ->
  apply_handlers exc_table eval_handlers env (np_exc err) = lib_exc "CalcOverflowError" OVF_MSG.
Proof.
  intros err env H0 H. unfold np_exc, np_raise, np_err_rules, np_pick. rewrite H0, H. reflexivity.
Qed.

(* MathExpression.eval_function: whatever the function raises (any Exception), a student-facing error comes out;
   student-facing errors pass unchanged *)
Lemma evalfn_recast_cases : forall name e, is_exception e ->
  let e' := apply_handlers exc_table evalfn_handlers (fun _ => name) e in
  (student_facing e /\ e' = e)
  \/ (~ student_facing e /\ isinst e "ZeroDivisionError" = true /\ e' = lib_exc "CalcZeroDivisionError" (fn_domain_msg name))
  \/ (~ student_facing e /\ isinst e "ZeroDivisionError" = false /\ isinst e "OverflowError" = true
      /\ e' = lib_exc "CalcOverflowError" (fn_overflow_msg name))
  \/ (~ student_facing e /\ isinst e "ZeroDivisionError" = false /\ isinst e "OverflowError" = false
      /\ e' = lib_exc "FunctionEvalError" (fn_domain_msg name)).
Proof.
  intros name e He. unfold is_exception in He. unfold student_facing, evalfn_handlers. simpl.
  destruct (isinst e "StudentFacingError") eqn:E1; [left; split; reflexivity|].
  destruct (isinst e "ZeroDivisionError") eqn:E2.
  { right; left. split; [discriminate|]. split; [reflexivity|]. vm_compute. reflexivity. }
  destruct (isinst e "OverflowError") eqn:E3.
  { right; right; left. split; [discriminate|]. split; [reflexivity|]. split; [reflexivity|].
    vm_compute. reflexivity. }
  rewrite He. right; right; right. split; [discriminate|]. split; [reflexivity|]. split; [reflexivity|].
  vm_compute. reflexivity.
Qed.

Lemma lib_exc_calc_student_facing : forall c m,
  c = "CalcZeroDivisionError" \/ c = "CalcOverflowError" \/ c = "FunctionEvalError" \/ c = "ArgumentError"
  \/ c = "UnableToParse" \/ c = "UnbalancedBrackets" ->
  student_facing (lib_exc c m) /\ lib_error (lib_exc c m) /\ is_exception (lib_exc c m).
Proof. intros c m H. decompose [or] H; subst; repeat split; vm_compute; reflexivity. Qed.

Lemma evalfn_student_facing : forall name e, is_exception e ->
  student_facing (apply_handlers exc_table evalfn_handlers (fun _ => name) e).
Proof.
  intros name e He. destruct (evalfn_recast_cases name e He) as [[H1 H2]|[[_ [_ H]]|[[_ [_ [_ H]]]|[_ [_ [_ H]]]]]].
  - rewrite H2. exact H1.
  - rewrite H. apply lib_exc_calc_student_facing. tauto.
  - rewrite H. apply lib_exc_calc_student_facing. tauto.
  - rewrite H. apply lib_exc_calc_student_facing. tauto.
Qed.

(* ------------------------------------------------------------------------------------------------------- *)
(* F. BracketValidator accepts exactly the balanced strings; MathParser.parse                                *)
(* ------------------------------------------------------------------------------------------------------- *)
Definition opener (k : bkind) : Z := match k with Curly => 123%Z | Paren => 40%Z | Square => 91%Z end.
Definition closer (k : bkind) : Z := match k with Curly => 125%Z | Paren => 41%Z | Square => 93%Z end.

(* the Dyck language over three bracket pairs, interleaved with arbitrary other characters *)
Inductive Balanced : cstr -> Prop :=
| B_nil : Balanced []
| B_other : forall c s, classify c = None -> Balanced s -> Balanced (c :: s)
| B_pair : forall k s t, Balanced s -> Balanced t -> Balanced (opener k :: s ++ closer k :: t).

Lemma classify_opener : forall k, classify (opener k) = Some (k, false).
Proof. destruct k; reflexivity. Qed.

Lemma classify_closer : forall k, classify (closer k) = Some (k, true).
Proof. destruct k; reflexivity. Qed.

Lemma classify_inv : forall c k b, classify c = Some (k, b) -> c = if b then closer k else opener k.
Proof.
  intros c k b H. unfold classify in H.
  destruct (Z.eqb c 123) eqn:E1; [apply Z.eqb_eq in E1; inversion H; subst; reflexivity|].
  destruct (Z.eqb c 125) eqn:E2; [apply Z.eqb_eq in E2; inversion H; subst; reflexivity|].
  destruct (Z.eqb c 40) eqn:E3; [apply Z.eqb_eq in E3; inversion H; subst; reflexivity|].
  destruct (Z.eqb c 41) eqn:E4; [apply Z.eqb_eq in E4; inversion H; subst; reflexivity|].
  destruct (Z.eqb c 91) eqn:E5; [apply Z.eqb_eq in E5; inversion H; subst; reflexivity|].
  destruct (Z.eqb c 93) eqn:E6; [apply Z.eqb_eq in E6; inversion H; subst; reflexivity|].
  discriminate.
Qed.

Lemma bkind_eqb_eq : forall a b, bkind_eqb a b = true <-> a = b.
Proof. destruct a, b; simpl; split; intro H; try discriminate; reflexivity. Qed.

Lemma scan_balanced_prefix : forall s, Balanced s ->
  forall t i st, bv_scan (s ++ t) i st = bv_scan t (i + List.length s) st.
Proof.
  intros s H. induction H as [|c s Hc Hs IH|k s t Hs IHs Ht IHt]; intros u i st.
  - simpl. rewrite Nat.add_0_r. reflexivity.
  - simpl. rewrite Hc. rewrite IH. f_equal. lia.
  - simpl. rewrite classify_opener. rewrite <- app_assoc. rewrite IHs. simpl. rewrite classify_closer.
    rewrite (proj2 (bkind_eqb_eq k k) eq_refl). rewrite IHt. f_equal.
    rewrite app_length. simpl. lia.
Qed.

Lemma balanced_accepted : forall s, Balanced s -> bv_validate s = BvOk.
Proof.
  intros s H. unfold bv_validate. rewrite <- (app_nil_r s). rewrite (scan_balanced_prefix s H). reflexivity.
Qed.

Fixpoint Closes (st : list bkind) (s : cstr) : Prop :=
  match st with
  | [] => Balanced s
  | k :: st' => exists s1 s2, s = s1 ++ closer k :: s2 /\ Balanced s1 /\ Closes st' s2
  end.

Lemma closes_cons_other : forall st s c, classify c = None -> Closes st s -> Closes st (c :: s).
Proof.
  destruct st as [|k st']; simpl; intros s c Hc H.
  - apply B_other; assumption.
  - destruct H as [s1 [s2 [E [B C]]]]. exists (c :: s1), s2. subst. repeat split; try assumption.
    apply B_other; assumption.
Qed.

Lemma closes_pair : forall st k s1 s2, Balanced s1 -> Closes st s2 -> Closes st (opener k :: s1 ++ closer k :: s2).
Proof.
  destruct st as [|k' st']; simpl; intros k s1 s2 B H.
  - apply B_pair; assumption.
  - destruct H as [s3 [s4 [E [B3 C]]]]. exists (opener k :: s1 ++ closer k :: s3), s4. subst.
    split; [simpl; rewrite <- app_assoc; reflexivity|]. split; [apply B_pair; assumption | exact C].
Qed.

Lemma scan_ok_closes : forall s i st, bv_scan s i st = BvOk -> Closes (map snd st) s.
Proof.
  induction s as [|c r IH]; intros i st H.
  - simpl in H. destruct st; [apply B_nil | discriminate].
  - simpl in H. destruct (classify c) as [[k b]|] eqn:C.
    + pose proof (classify_inv c k b C) as Hc. destruct b.
      * destruct st as [|[j pk] st']; [discriminate|].
        destruct (bkind_eqb pk k) eqn:E; [|discriminate]. apply bkind_eqb_eq in E. subst pk.
        apply IH in H. simpl. exists [], r. subst c. repeat split; [apply B_nil | exact H].
      * apply IH in H. simpl in H. destruct H as [s1 [s2 [E [B Cl]]]]. subst c r. apply closes_pair; assumption.
    + apply IH in H. apply closes_cons_other; assumption.
Qed.

Lemma bv_ok_iff_balanced : forall s, bv_validate s = BvOk <-> Balanced s.
Proof.
  intro s. split.
  - intro H. apply scan_ok_closes in H. exact H.
  - apply balanced_accepted.
Qed.

Lemma bv_message_none_iff : forall s, bv_message s = None <-> Balanced s.
Proof.
  intro s. rewrite <- bv_ok_iff_balanced. unfold bv_message. destruct (bv_validate s); split; intro H; try discriminate; reflexivity.
Qed.

Definition the_parse := parse_model exc_table parse_handlers parse_strip raw_parse_steps.

Definition PARSE_PRE : cstr := s2z "Invalid Input: Could not parse '".
Definition PARSE_POST : cstr := s2z "' as a formula".

(* unbalanced text is rejected as UnbalancedBrackets before the grammar is consulted *)
Lemma parse_unbalanced : forall expr gram, ~ Balanced (remove_chars parse_strip expr) ->
  exists m, the_parse expr gram = Raise (lib_exc "UnbalancedBrackets" m)
            /\ forall gram', the_parse expr gram' = the_parse expr gram.
Proof.
  intros expr gram H. unfold the_parse, parse_model, raw_parse_steps. simpl run_steps.
  destruct (bv_message (remove_chars parse_strip expr)) as [m|] eqn:E.
  - exists m. split; reflexivity.
  - exfalso. apply H. apply bv_message_none_iff. exact E.
Qed.

Lemma parse_balanced : forall expr gram, Balanced (remove_chars parse_strip expr) ->
  the_parse expr gram =
  match gram (remove_chars parse_strip expr) with
  | GOk => Ret tt
  | GRaise e => Raise (apply_handlers exc_table parse_handlers (fun _ => expr) e)
  end.
Proof.
  intros expr gram H. unfold the_parse, parse_model, raw_parse_steps. simpl run_steps.
  apply bv_message_none_iff in H. rewrite H. destruct (gram _); reflexivity.
Qed.

(* a grammar failure (pyparsing's ParseException) becomes UnableToParse quoting the text as typed *)
Lemma parse_exception_recast : forall expr e, isinst e "ParseException" = true ->
  apply_handlers exc_table parse_handlers (fun _ => expr) e = lib_exc "UnableToParse" (PARSE_PRE ++ expr ++ PARSE_POST).
Proof.
  intros expr e H. unfold parse_handlers. simpl. rewrite H. vm_compute. reflexivity.
Qed.

Lemma parse_other_passes : forall expr e, isinst e "ParseException" = false ->
  apply_handlers exc_table parse_handlers (fun _ => expr) e = e.
Proof. intros expr e H. unfold parse_handlers. simpl. rewrite H. reflexivity. Qed.

(* parsing any text, with the engine either accepting or raising ParseException: returns or a student-facing error *)
Lemma parse_family : forall expr gram,
  (forall s e, gram s = GRaise e -> isinst e "ParseException" = true) ->
  match the_parse expr gram with
  | Ret _ => True
  | Raise e => student_facing e /\ lib_error e /\ is_exception e
  end.
Proof.
  intros expr gram Hg. destruct (bv_message (remove_chars parse_strip expr)) as [m|] eqn:E.
  - assert (H : ~ Balanced (remove_chars parse_strip expr)).
    { intro B. apply bv_message_none_iff in B. congruence. }
    destruct (parse_unbalanced expr gram H) as [m' [Hm _]]. rewrite Hm. apply lib_exc_calc_student_facing. tauto.
  - apply bv_message_none_iff in E. rewrite parse_balanced by exact E.
    destruct (gram _) as [|e] eqn:G; [exact I|]. rewrite parse_exception_recast by (eapply Hg; exact G).
    apply lib_exc_calc_student_facing. tauto.
Qed.

(* ------------------------------------------------------------------------------------------------------- *)
(* G. evaluation of an expression tree: which errors can leave MathExpression.eval                          *)
(* ------------------------------------------------------------------------------------------------------- *)
Section EvalProofs.
  Variable val : Type.
  Variables (isnan isinf : val -> bool) (nanv : val) (allow_inf : bool).

  Definition ev := eval_node val isnan isinf nanv exc_table evalfn_handlers arity_error allow_inf.
  Definition ev_top := eval_top val isnan isinf nanv exc_table evalfn_handlers eval_handlers arity_error allow_inf.

  (* induction over trees whose nodes carry lists of subtrees *)
  Fixpoint node_ind' (P : node val -> Prop)
      (HL : forall v, P (Leaf v))
      (HF : forall name vd ex f args, Forall P args -> P (Fn name vd ex f args))
      (HO : forall f ch, Forall P ch -> P (Op f ch)) (n : node val) : P n :=
    match n with
    | Leaf v => HL v
    | Fn name vd ex f args =>
        HF name vd ex f args
           ((fix go (l : list (node val)) : Forall P l :=
               match l with [] => Forall_nil P | x :: r => Forall_cons x (node_ind' P HL HF HO x) (go r) end) args)
    | Op f ch =>
        HO f ch
           ((fix go (l : list (node val)) : Forall P l :=
               match l with [] => Forall_nil P | x :: r => Forall_cons x (node_ind' P HL HF HO x) (go r) end) ch)
    end.

  (* every function oracle in the tree fails only with Python Exceptions (PF), every operator action only with
     errors satisfying PO *)
  Fixpoint oracles_ok (PF PO : exc -> Prop) (n : node val) : Prop :=
    match n with
    | Leaf _ => True
    | Fn _ _ _ f args =>
        (forall vs e, f vs = Raise e -> PF e)
        /\ (fix all (l : list (node val)) : Prop := match l with [] => True | x :: r => oracles_ok PF PO x /\ all r end) args
    | Op f ch =>
        (forall vs e, f vs = Raise e -> PO e)
        /\ (fix all (l : list (node val)) : Prop := match l with [] => True | x :: r => oracles_ok PF PO x /\ all r end) ch
    end.

  Definition all_ok (PF PO : exc -> Prop) : list (node val) -> Prop :=
    fix all (l : list (node val)) : Prop := match l with [] => True | x :: r => oracles_ok PF PO x /\ all r end.

  Lemma children_errors : forall (R : exc -> Prop) PF PO l,
    Forall (fun x => oracles_ok PF PO x -> forall e, ev x = Raise e -> R e) l ->
    all_ok PF PO l -> forall e, eval_children ev l = Raise e -> R e.
  Proof.
    intros R PF PO l H. induction H as [|x r Hx Hr IH]; intros Hok e He; simpl in He; [discriminate|].
    destruct Hok as [Hox Hor]. destruct (ev x) as [v|e'] eqn:E.
    - destruct (eval_children ev r) as [vs|e''] eqn:E2; [discriminate|]. inversion He. subst. apply IH; [exact Hor | reflexivity].
    - inversion He. subst. apply (Hx Hox). reflexivity.
  Qed.

  Lemma post_check_errors : forall v e, post_check val isnan isinf nanv exc_table allow_inf v = Raise e ->
    e = lib_exc "CalcOverflowError" INF_MSG.
  Proof.
    intros v e H. unfold post_check in H. destruct (negb allow_inf && isinf v).
    - inversion H. reflexivity.
    - destruct (isnan v); discriminate.
  Qed.

  Lemma call_function_errors : forall name vd ex f vs e,
    (forall e', f vs = Raise e' -> is_exception e') ->
    call_function val exc_table evalfn_handlers arity_error name vd ex f vs = Raise e -> student_facing e.
  Proof.
    intros name vd ex f vs e Hf H. unfold call_function in H.
    destruct (negb vd && negb (Nat.eqb ex (List.length vs))).
    - inversion H. vm_compute. reflexivity.
    - destruct (f vs) as [v|e'] eqn:F; simpl in H; [discriminate|]. inversion H.
      apply evalfn_student_facing. apply Hf. reflexivity.
  Qed.

  (* an arity mismatch on a function that does not validate itself is an ArgumentError with the documented text,
     and the function is not called *)
  Lemma call_function_arity : forall name ex f vs, ex <> List.length vs ->
    call_function val exc_table evalfn_handlers arity_error name false ex f vs
    = Raise (lib_exc "ArgumentError"
               (s2z "Wrong number of arguments passed to " ++ name ++ s2z "(...): Expected " ++ dec ex
                ++ s2z " inputs, but received " ++ dec (List.length vs) ++ s2z ".")).
  Proof.
    intros name ex f vs H. unfold call_function. apply Nat.eqb_neq in H. rewrite H. simpl.
    unfold mk_named, lib_exc, render. simpl. repeat rewrite <- app_assoc. simpl. try rewrite app_nil_r. reflexivity.
  Qed.

  (* MAIN (tree level): whatever leaves eval_node is student-facing, or is the raw failure of an operator action *)
  Lemma eval_node_errors : forall PO n, oracles_ok is_exception PO n ->
    forall e, ev n = Raise e -> student_facing e \/ PO e.
  Proof.
    intros PO. apply (node_ind' (fun n => oracles_ok is_exception PO n -> forall e, ev n = Raise e -> student_facing e \/ PO e)).
    - intros v _ e H. simpl in H. apply post_check_errors in H. subst. left. vm_compute. reflexivity.
    - intros name vd ex f args IH [Hf Hargs] e H. unfold ev in H. simpl in H. fold ev in H.
      destruct (eval_children ev args) as [vs|e'] eqn:E.
      + destruct (existsb isnan vs); [discriminate|].
        destruct (call_function val exc_table evalfn_handlers arity_error name vd ex f vs) as [v|e''] eqn:C.
        * apply post_check_errors in H. subst. left. vm_compute. reflexivity.
        * inversion H. subst. left. eapply call_function_errors; [|exact C]. intros e' He'. eapply Hf. exact He'.
      + inversion H. subst. eapply (children_errors (fun e => student_facing e \/ PO e)); [exact IH | exact Hargs | exact E].
    - intros f ch IH [Hf Hch] e H. unfold ev in H. simpl in H. fold ev in H.
      destruct (eval_children ev ch) as [vs|e'] eqn:E.
      + destruct (existsb isnan vs); [discriminate|].
        destruct (f vs) as [v|e''] eqn:C.
        * apply post_check_errors in H. subst. left. vm_compute. reflexivity.
        * inversion H. subst. right. eapply Hf. exact C.
      + inversion H. subst. eapply (children_errors (fun e => student_facing e \/ PO e)); [exact IH | exact Hch | exact E].
  Qed.

  Definition arith_or_sf (e : exc) : Prop :=
    student_facing e \/ isinst e "ZeroDivisionError" = true \/ isinst e "OverflowError" = true.

  (* MAIN (eval level): if operator actions fail only with ZeroDivisionError / OverflowError (which is what numpy's
     error handler and Python arithmetic raise) or with student-facing errors, every error that leaves
     MathExpression.eval is student-facing, for every tree and every function oracle *)
  Lemma eval_recast_student_facing : forall env e0, arith_or_sf e0 ->
    student_facing (apply_handlers exc_table eval_handlers env e0).
  Proof.
    intros env e0 Ha. destruct (isinst e0 "OverflowError") eqn:O.
    - rewrite eval_recast_overflow by exact O. apply lib_exc_calc_student_facing. tauto.
    - destruct (isinst e0 "ZeroDivisionError") eqn:Z.
      + rewrite eval_recast_zero by assumption. apply lib_exc_calc_student_facing. tauto.
      + rewrite eval_recast_other by assumption. destruct Ha as [Hs|[Hz|Ho]]; [exact Hs | congruence | congruence].
  Qed.

  Lemma eval_top_student_facing : forall n, oracles_ok is_exception arith_or_sf n ->
    forall e, ev_top n = Raise e -> student_facing e.
  Proof.
    intros n Hok e H. unfold ev_top, eval_top, handle in H. fold ev in H.
    destruct (ev n) as [v|e0] eqn:E; [discriminate|].
    assert (Heq : e = apply_handlers exc_table eval_handlers (fun _ => []) e0) by (inversion H; reflexivity).
    rewrite Heq. apply eval_recast_student_facing.
    destruct (eval_node_errors arith_or_sf n Hok e0 E) as [Hs|Ha]; [left; exact Hs | exact Ha].
  Qed.

  (* with no assumption on the operator actions beyond "they fail with Exceptions": what leaves eval is an Exception,
     hence (guard_family) what leaves the grader call is a library error *)
  Lemma student_facing_is_exception_after_recast : forall env e, is_exception e ->
    is_exception (apply_handlers exc_table eval_handlers env e).
  Proof.
    intros env e He. destruct (isinst e "OverflowError") eqn:O.
    - rewrite eval_recast_overflow by exact O. vm_compute. reflexivity.
    - destruct (isinst e "ZeroDivisionError") eqn:Z.
      + rewrite eval_recast_zero by assumption. vm_compute. reflexivity.
      + rewrite eval_recast_other by assumption. exact He.
  Qed.

  Lemma evalfn_is_exception : forall name e, is_exception e ->
    is_exception (apply_handlers exc_table evalfn_handlers (fun _ => name) e).
  Proof.
    intros name e He. destruct (evalfn_recast_cases name e He) as [[H1 H2]|[[_ [_ H]]|[[_ [_ [_ H]]]|[_ [_ [_ H]]]]]];
      rewrite ?H2, ?H; try exact He; vm_compute; reflexivity.
  Qed.

  Lemma eval_node_exception : forall n, oracles_ok is_exception is_exception n ->
    forall e, ev n = Raise e -> is_exception e.
  Proof.
    apply (node_ind' (fun n => oracles_ok is_exception is_exception n -> forall e, ev n = Raise e -> is_exception e)).
    - intros v _ e H. simpl in H. apply post_check_errors in H. subst. vm_compute. reflexivity.
    - intros name vd ex f args IH [Hf Hargs] e H. unfold ev in H. simpl in H. fold ev in H.
      destruct (eval_children ev args) as [vs|e'] eqn:E.
      + destruct (existsb isnan vs); [discriminate|].
        destruct (call_function val exc_table evalfn_handlers arity_error name vd ex f vs) as [v|e''] eqn:C.
        * apply post_check_errors in H. subst. vm_compute. reflexivity.
        * inversion H. subst. unfold call_function in C.
          destruct (negb vd && negb (Nat.eqb ex (List.length vs))).
          -- inversion C. vm_compute. reflexivity.
          -- destruct (f vs) as [v|e0] eqn:F; simpl in C; [discriminate|]. inversion C.
             apply evalfn_is_exception. eapply Hf. exact F.
      + inversion H. subst. eapply (children_errors is_exception); [exact IH | exact Hargs | exact E].
    - intros f ch IH [Hf Hch] e H. unfold ev in H. simpl in H. fold ev in H.
      destruct (eval_children ev ch) as [vs|e'] eqn:E.
      + destruct (existsb isnan vs); [discriminate|].
        destruct (f vs) as [v|e''] eqn:C.
        * apply post_check_errors in H. subst. vm_compute. reflexivity.
        * inversion H. subst. eapply Hf. exact C.
      + inversion H. subst. eapply (children_errors is_exception); [exact IH | exact Hch | exact E].
  Qed.

  (* end to end: an arbitrary expression tree evaluated inside check, debug off: a library error or a result *)
  Lemma eval_inside_guard_family : forall n inp (k : val -> outcome result),
    oracles_ok is_exception is_exception n ->
    (forall v e, k v = Raise e -> is_exception e) ->
    match guarded exc_table guard false inp
            (match ev_top n with Raise e => Raise e | Ret v => k v end) with
    | Ret _ => True
    | Raise e => lib_error e
    end.
  Proof.
    intros n inp k Hok Hk. unfold ev_top, eval_top, handle. fold ev.
    destruct (ev n) as [v|e0] eqn:E.
    - destruct (k v) as [r|e] eqn:K; simpl; [exact I|]. apply guard_family. eapply Hk. exact K.
    - cbn [guarded]. apply guard_family. apply student_facing_is_exception_after_recast. eapply eval_node_exception; eassumption.
  Qed.
End EvalProofs.

(* ------------------------------------------------------------------------------------------------------- *)
(* H. statements as quoted in Props/C02.v                                                                   *)
(* ------------------------------------------------------------------------------------------------------- *)
Lemma br_rendering : forall s,
  replace1 NL BR s = flat_map (fun c => if Z.eqb c NL then BR else [c]) s /\ ~ In NL (replace1 NL BR s).
Proof. intro s. split; [apply br_spec | apply br_no_newline]. Qed.

Lemma generic_list_full : forall t items s, In s (map text_of items) ->
  infix s (generic_msg guard (PList t items))
  /\ generic_msg guard (PList t items)
     = s2z "Invalid Input: Could not check inputs '" ++ join (s2z "', '") (map text_of items) ++ s2z "'".
Proof. intros t items s H. split; [apply generic_names_every_input; exact H | apply generic_list]. Qed.

Lemma call_check_returned_full : forall cfg check att inp r,
  shape_ok (cc_mode cfg) inp = true -> check inp = Ret r ->
  the_call cfg check att inp = post cfg att r
  /\ (forall e, post cfg att r = Raise e -> e = config_exc ATTEMPT_MSG)
  /\ (forall n, att = Some n -> exists r', post cfg att r = Ret r')
  /\ (cc_credit cfg = None -> exists r', post cfg att r = Ret r').
Proof.
  intros cfg check att inp r S C. split; [apply call_check_returned; assumption|].
  split; [intros e H; eapply post_raises_only_config; exact H|].
  split; [intros n H; subst; apply post_returns | apply post_no_credit_returns].
Qed.

Lemma evalfn_full : forall name e, is_exception e ->
  let e' := apply_handlers exc_table evalfn_handlers (fun _ => name) e in
  student_facing e'
  /\ ((student_facing e /\ e' = e)
      \/ (~ student_facing e /\ isinst e "ZeroDivisionError" = true /\ e' = lib_exc "CalcZeroDivisionError" (fn_domain_msg name))
      \/ (~ student_facing e /\ isinst e "ZeroDivisionError" = false /\ isinst e "OverflowError" = true
          /\ e' = lib_exc "CalcOverflowError" (fn_overflow_msg name))
      \/ (~ student_facing e /\ isinst e "ZeroDivisionError" = false /\ isinst e "OverflowError" = false
          /\ e' = lib_exc "FunctionEvalError" (fn_domain_msg name))).
Proof. intros name e He. split; [apply evalfn_student_facing; exact He | apply evalfn_recast_cases; exact He]. Qed.

Lemma parse_malformed : forall expr gram e,
  Balanced (remove_chars parse_strip expr) -> gram (remove_chars parse_strip expr) = GRaise e ->
  isinst e "ParseException" = true ->
  the_parse expr gram = Raise (lib_exc "UnableToParse" (PARSE_PRE ++ expr ++ PARSE_POST)).
Proof.
  intros expr gram e B Gr P. rewrite parse_balanced by exact B. rewrite Gr. rewrite parse_exception_recast by exact P. reflexivity.
Qed.

Lemma keyboard_interrupt_not_caught : forall inp,
  guard_exc exc_table guard false inp (mkExc (builtin_mro "KeyboardInterrupt") [])
  = mkExc (builtin_mro "KeyboardInterrupt") [].
Proof. intro inp. apply guard_not_exception. unfold is_exception. vm_compute. discriminate. Qed.
