(* Proofs/CallGuard.v -- lemmas for C02 (only library errors escape). *)
From Coq Require Import ZArith QArith List Bool String Ascii Lia.
From Verif.Lib Require Import CallGuardBase.
From Verif.Model Require Import Result Credit CallGuard.
Import ListNotations.
Open Scope string_scope.
Open Scope list_scope.

(* ------------------------------------------------------------------------------------------------------- *)
(* vocabulary of the statements                                                                             *)
(* ------------------------------------------------------------------------------------------------------- *)
Definition is_exception (e : exc) : Prop := isinst e "Exception" = true.
Definition lib_error (e : exc) : Prop := isinst e "MITxError" = true.
Definition student_facing (e : exc) : Prop := isinst e "StudentFacingError" = true.
Definition config_error (e : exc) : Prop := isinst e "ConfigError" = true.
Definition in_family (e : exc) : Prop := student_facing e \/ config_error e.

Definition infix (s m : cstr) : Prop := exists a b, m = a ++ s ++ b.

Lemma isinst_In : forall e c, isinst e c = true <-> In c (x_mro e).
Proof.
  intros e c. unfold isinst. rewrite existsb_exists. split.
  - intros [x [Hin Heq]]. apply String.eqb_eq in Heq. subst. exact Hin.
  - intro H. exists c. split; [exact H | apply String.eqb_refl].
Qed.

(* ------------------------------------------------------------------------------------------------------- *)
(* A. the exception tree                                                                                    *)
(* ------------------------------------------------------------------------------------------------------- *)
Definition rooted_b (tbl : list (string * string)) : bool :=
  forallb (fun p => existsb (String.eqb "MITxError") (mro_of tbl (fst p))
                    && existsb (String.eqb "Exception") (mro_of tbl (fst p))) tbl.

Definition family_b (tbl : list (string * string)) : bool :=
  forallb (fun p => String.eqb (fst p) "MITxError"
                    || existsb (String.eqb "StudentFacingError") (mro_of tbl (fst p))
                    || existsb (String.eqb "ConfigError") (mro_of tbl (fst p))) tbl.

Lemma existsb_eqb_In : forall c l, existsb (String.eqb c) l = true <-> In c l.
Proof.
  intros c l. rewrite existsb_exists. split.
  - intros [x [Hin Heq]]. apply String.eqb_eq in Heq. subst. exact Hin.
  - intro H. exists c. split; [exact H | apply String.eqb_refl].
Qed.

Lemma exc_tree_rooted : forall c b, In (c, b) exc_table ->
  In "MITxError" (mro_of exc_table c) /\ In "Exception" (mro_of exc_table c).
Proof.
  assert (H : rooted_b exc_table = true) by (vm_compute; reflexivity).
  unfold rooted_b in H. rewrite forallb_forall in H.
  intros c b Hin. specialize (H (c, b) Hin). simpl in H. apply andb_true_iff in H. destruct H as [H1 H2].
  split; apply existsb_eqb_In; assumption.
Qed.

Lemma exc_tree_family : forall c b, In (c, b) exc_table ->
  c = "MITxError" \/ In "StudentFacingError" (mro_of exc_table c) \/ In "ConfigError" (mro_of exc_table c).
Proof.
  assert (H : family_b exc_table = true) by (vm_compute; reflexivity).
  unfold family_b in H. rewrite forallb_forall in H.
  intros c b Hin. specialize (H (c, b) Hin). simpl in H.
  apply orb_true_iff in H. destruct H as [H | H].
  - apply orb_true_iff in H. destruct H as [H | H].
    + left. apply String.eqb_eq. exact H.
    + right. left. apply existsb_eqb_In. exact H.
  - right. right. apply existsb_eqb_In. exact H.
Qed.

Lemma lookup_In : forall tbl c b, lookup tbl c = Some b -> In (c, b) tbl.
Proof.
  induction tbl as [|[k v] r IH]; simpl; intros c b H; [discriminate|].
  destruct (String.eqb k c) eqn:E.
  - apply String.eqb_eq in E. inversion H. subst. left. reflexivity.
  - right. apply IH. exact H.
Qed.

(* an exception built from a class named in the table is a library error (and an Exception) *)
Lemma mk_named_lib : forall c m b, lookup exc_table c = Some b ->
  lib_error (mk_named exc_table c m) /\ is_exception (mk_named exc_table c m).
Proof.
  intros c m b H. unfold mk_named. rewrite H. apply lookup_In in H. destruct (exc_tree_rooted c b H) as [H1 H2].
  split; apply isinst_In; simpl; assumption.
Qed.

(* ------------------------------------------------------------------------------------------------------- *)
(* B. ensure_text_inputs                                                                                    *)
(* ------------------------------------------------------------------------------------------------------- *)
Lemma first_bad_none : forall l i, first_bad l i = None <-> all_str l = true.
Proof.
  induction l as [|x r IH]; simpl; intro i; [tauto|].
  destruct (is_str x); simpl; [apply IH|]. split; discriminate.
Qed.

Lemma first_bad_some : forall l i k, first_bad l i = Some k ->
  (i <= k)%nat /\ (k - i < List.length l)%nat /\ is_str (nth (k - i) l (POther [])) = false
  /\ forall j, (j < k - i)%nat -> is_str (nth j l (POther [])) = true.
Proof.
  induction l as [|x r IH]; simpl; intros i k H; [discriminate|].
  destruct (is_str x) eqn:E.
  - apply IH in H. destruct H as [H1 [H2 [H3 H4]]].
    replace (k - i)%nat with (S (k - S i)) by lia. simpl.
    split; [lia|]. split; [lia|]. split; [exact H3|].
    intros j Hj. destruct j; [exact E|]. apply H4. lia.
  - inversion H. subst. replace (k - k)%nat with O by lia. simpl.
    split; [lia|]. split; [lia|]. split; [exact E|]. intros j Hj. lia.
Qed.

Definition config_exc (m : cstr) : exc := mkExc (mro_of exc_table "ConfigError") m.

Lemma config_exc_family : forall m, lib_error (config_exc m) /\ config_error (config_exc m) /\ is_exception (config_exc m).
Proof. intro m. repeat split; vm_compute; reflexivity. Qed.

(* the library always passes at least one of the two flags *)
Lemma mode_flags_values :
  mode_flags ensure ModeItem = (false, true) /\ mode_flags ensure ModeList = (true, false)
  /\ mode_flags ensure ModeBoth = (true, true).
Proof. repeat split; reflexivity. Qed.

(* text of the shape the grader requires is returned unchanged ... *)
Lemma ensure_accepts : forall m v, shape_ok m v = true -> ensure_mode exc_table ensure m v = Ret v.
Proof.
  intros m v H. destruct v as [t s|t items|t]; destruct m; simpl in H; try discriminate; try reflexivity.
  - unfold ensure_mode. simpl mode_flags. cbv beta iota. unfold ensure_text, run_validation. simpl.
    apply first_bad_none with (i := O) in H. rewrite H. reflexivity.
  - unfold ensure_mode. simpl mode_flags. cbv beta iota. unfold ensure_text, run_validation. simpl.
    apply first_bad_none with (i := O) in H. rewrite H. reflexivity.
Qed.

(* ... and everything else is refused with a ConfigError *)
Lemma ensure_refuses : forall m v, shape_ok m v = false ->
  exists msg, ensure_mode exc_table ensure m v = Raise (config_exc msg).
Proof.
  intros m v H. destruct v as [t s|t items|t]; destruct m; simpl in H; try discriminate;
    try (eexists; reflexivity).
  - (* ModeList, a list with a non-text item *)
    unfold ensure_mode. simpl mode_flags. cbv beta iota. unfold ensure_text, run_validation. simpl.
    destruct (first_bad items 0) as [k|] eqn:E.
    + eexists. reflexivity.
    + apply first_bad_none in E. congruence.
  - (* ModeBoth, a list with a non-text item *)
    unfold ensure_mode. simpl mode_flags. cbv beta iota. unfold ensure_text, run_validation. simpl.
    destruct (first_bad items 0) as [k|] eqn:E.
    + eexists. reflexivity.
    + apply first_bad_none in E. congruence.
Qed.

Lemma ensure_spec_iff : forall m v,
  (shape_ok m v = true /\ ensure_mode exc_table ensure m v = Ret v)
  \/ (shape_ok m v = false /\ exists msg, ensure_mode exc_table ensure m v = Raise (config_exc msg)).
Proof.
  intros m v. destruct (shape_ok m v) eqn:E.
  - left. split; [reflexivity | apply ensure_accepts; exact E].
  - right. split; [reflexivity | apply ensure_refuses; exact E].
Qed.

(* the position named in the list-mode message is the first entry that is not text, and the type named is its type *)
Lemma ensure_list_position : forall t items, all_str items = false ->
  exists k, first_bad items 0 = Some k
    /\ (k < List.length items)%nat
    /\ is_str (nth k items (POther [])) = false
    /\ (forall j, (j < k)%nat -> is_str (nth j items (POther [])) = true)
    /\ ensure_mode exc_table ensure ModeList (PList t items)
       = Raise (config_exc (s2z "Expected a list of text strings for student_input, but item at position "
                            ++ dec k ++ s2z " has " ++ ty_of (nth k items (POther [])))).
Proof.
  intros t items H. destruct (first_bad items 0) as [k|] eqn:E.
  - exists k. pose proof (first_bad_some items 0 k E) as [H1 [H2 [H3 H4]]]. rewrite Nat.sub_0_r in *.
    repeat split; try assumption.
    unfold ensure_mode. simpl mode_flags. cbv beta iota. unfold ensure_text, run_validation. simpl. rewrite E. simpl.
    unfold config_exc. f_equal. f_equal. rewrite app_nil_r. reflexivity.
  - apply first_bad_none in E. congruence.
Qed.

(* calling the static method with both flags off is a programming error (ValueError); no grader does so *)
Lemma ensure_no_flags : forall v, exists e, ensure_text exc_table ensure false false v = Raise e /\ cls_of e = "ValueError".
Proof. intro v. destruct v; eexists; split; reflexivity. Qed.
