(* ParserStateNames.v -- the names reported for a rendered derivation are the occurrences in the derivation.

   Derivations are Model/EvalSpec.v's binary syntax (expr); evars / efuncs / esufs (Model/ParserState.v) list
   the occurrences of names by syntactic role, by plain recursion on the derivation.
     names_flatten      : the flat tree the grammar assigns to e has exactly these occurrences, in order
     names_exact_render : parsing the token text of e fires the callbacks for exactly these occurrences
     names_exact_string : hence any string whose token stream is render e (its brackets then balance: ParserStateBr), parsed on the shared parser after
                          any history, reports exactly evars e / efuncs e / esufs e *)
From Coq Require Import ZArith QArith List Bool Lia Arith Permutation.
From Verif.Model Require Import Result Lexer Parser Eval EvalSpec ParserStateCb ParserState.
From Verif.Proofs Require Import ParserRoundTrip EvalFlatten ParserStateCb ParserState ParserStateBr.
Import ListNotations.
Local Open Scope nat_scope.

Lemma flat_map_map_ext : forall (A B C : Type) (g : A -> B) (f : B -> list C) (h : A -> list C) (l : list A),
  Forall (fun x => f (g x) = h x) l -> flat_map f (map g l) = flat_map h l.
Proof. intros A B C g f h l H. induction H; simpl; congruence. Qed.

Section Collector.
  (* c is one of vars_of / funcs_of / suffixes_of; only their common equations are used *)
  Variable c : tree -> list str.
  Hypothesis c_Paren : forall t, c (Paren t) = c t.
  Hypothesis c_Neg : forall t, c (Neg t) = c t.
  Hypothesis c_Pow : forall b rest, c (Pow b rest) = c b ++ flat_map (fun p : bool * tree => c (snd p)) rest.
  Hypothesis c_Par : forall f rest, c (Par f rest) = c f ++ flat_map c rest.
  Hypothesis c_Prod : forall f rest, c (Prod f rest) = c f ++ flat_map (fun p : mulop * tree => c (snd p)) rest.
  Hypothesis c_Sum : forall b f rest, c (Sum b f rest) = c f ++ flat_map (fun p : addop * tree => c (snd p)) rest.

  Lemma c_wrap : forall n e t, c (wrap n e t) = c t.
  Proof. intros n e t. unfold wrap. destruct (n <=? elevel e); [reflexivity|apply c_Paren]. Qed.

  Lemma c_sum_snoc : forall t o u, c (sum_snoc t o u) = c t ++ c u.
  Proof.
    intros t o u. destruct t; simpl; rewrite ?c_Sum; simpl; rewrite ?app_nil_r; try reflexivity.
    rewrite flat_map_app. simpl. rewrite app_nil_r, app_assoc. reflexivity.
  Qed.

  Lemma c_prod_snoc : forall t o u, c (prod_snoc t o u) = c t ++ c u.
  Proof.
    intros t o u. destruct t; simpl; rewrite ?c_Prod; simpl; rewrite ?app_nil_r; try reflexivity.
    rewrite flat_map_app. simpl. rewrite app_nil_r, app_assoc. reflexivity.
  Qed.

  Lemma c_pow_cons : forall b sg u, c (pow_cons b sg u) = c b ++ c u.
  Proof.
    intros b sg u. destruct u; simpl; rewrite ?c_Pow; simpl; rewrite ?app_nil_r; reflexivity.
  Qed.

  Lemma c_mk_par : forall t r, c (mk_par t r) = c t ++ flat_map c r.
  Proof. intros t [|x r]; simpl; [rewrite app_nil_r; reflexivity|apply c_Par]. Qed.

  Lemma c_flatten_pow : forall a b, c (flatten (EPow a b)) = c (flatten a) ++ c (flatten b).
  Proof.
    intros a b.
    assert (X : exists sg u, flatten (EPow a b) = pow_cons (wrap 5 a (flatten a)) sg u /\ c u = c (flatten b)).
    { destruct b; try (eexists _, _; split; [apply flatten_EPow_other; exact I|apply c_wrap]).
      rewrite flatten_EPow_neg. destruct (4 <=? elevel b).
      - eexists _, _. split; [reflexivity|]. simpl. rewrite c_Neg, c_wrap. reflexivity.
      - eexists _, _. split; [reflexivity|]. apply c_wrap. }
    destruct X as (sg & u & -> & Hu). rewrite c_pow_cons, c_wrap, Hu. reflexivity.
  Qed.

  Lemma c_flatten_par : forall l (h : expr -> list str),
    c (Num [48%Z] None) = [] ->
    Forall (fun e => c (flatten e) = h e) l -> c (flatten (EPar l)) = flat_map h l.
  Proof.
    intros l h H0 H. destruct l as [|a l]; [exact H0|].
    simpl flatten. rewrite c_mk_par, c_wrap. inversion H as [|? ? Ha Hl]; subst. rewrite Ha. simpl. f_equal.
    apply flat_map_map_ext. revert Hl. apply Forall_impl. intros x Hx. rewrite c_wrap. assumption.
  Qed.
End Collector.

Lemma vars_flatten : forall e, vars_of (flatten e) = evars e.
Proof.
  assert (CW := c_wrap vars_of (fun _ => eq_refl)).
  assert (CSS := c_sum_snoc vars_of (fun _ _ _ => eq_refl)).
  assert (CPS := c_prod_snoc vars_of (fun _ _ => eq_refl)).
  assert (CPW := c_flatten_pow vars_of (fun _ => eq_refl) (fun _ => eq_refl) (fun _ _ => eq_refl)).
  assert (CPA := c_flatten_par vars_of (fun _ => eq_refl) (fun _ _ => eq_refl)).
  intro e; induction e using expr_ind'.
  - reflexivity.
  - reflexivity.
  - simpl. apply flat_map_map_ext. assumption.
  - simpl. apply flat_map_map_ext. assumption.
  - simpl. assumption.
  - simpl. rewrite CSS, CW. congruence.
  - simpl. rewrite CSS, CW. congruence.
  - simpl. rewrite CPS, !CW. congruence.
  - simpl. rewrite CPS, !CW. congruence.
  - apply CPA; [reflexivity|assumption].
  - simpl. rewrite CW. assumption.
  - simpl. rewrite app_nil_r, CW. assumption.
  - rewrite CPW. simpl. congruence.
Qed.

Lemma funcs_flatten : forall e, funcs_of (flatten e) = efuncs e.
Proof.
  assert (CW := c_wrap funcs_of (fun _ => eq_refl)).
  assert (CSS := c_sum_snoc funcs_of (fun _ _ _ => eq_refl)).
  assert (CPS := c_prod_snoc funcs_of (fun _ _ => eq_refl)).
  assert (CPW := c_flatten_pow funcs_of (fun _ => eq_refl) (fun _ => eq_refl) (fun _ _ => eq_refl)).
  assert (CPA := c_flatten_par funcs_of (fun _ => eq_refl) (fun _ _ => eq_refl)).
  intro e; induction e using expr_ind'.
  - reflexivity.
  - reflexivity.
  - simpl. f_equal. apply flat_map_map_ext. assumption.
  - simpl. apply flat_map_map_ext. assumption.
  - simpl. assumption.
  - simpl. rewrite CSS, CW. congruence.
  - simpl. rewrite CSS, CW. congruence.
  - simpl. rewrite CPS, !CW. congruence.
  - simpl. rewrite CPS, !CW. congruence.
  - apply CPA; [reflexivity|assumption].
  - simpl. rewrite CW. assumption.
  - simpl. rewrite app_nil_r, CW. assumption.
  - rewrite CPW. simpl. congruence.
Qed.

Lemma sufs_flatten : forall e, suffixes_of (flatten e) = esufs e.
Proof.
  assert (CW := c_wrap suffixes_of (fun _ => eq_refl)).
  assert (CSS := c_sum_snoc suffixes_of (fun _ _ _ => eq_refl)).
  assert (CPS := c_prod_snoc suffixes_of (fun _ _ => eq_refl)).
  assert (CPW := c_flatten_pow suffixes_of (fun _ => eq_refl) (fun _ => eq_refl) (fun _ _ => eq_refl)).
  assert (CPA := c_flatten_par suffixes_of (fun _ => eq_refl) (fun _ _ => eq_refl)).
  intro e; induction e using expr_ind'.
  - reflexivity.
  - reflexivity.
  - simpl. apply flat_map_map_ext. assumption.
  - simpl. apply flat_map_map_ext. assumption.
  - simpl. assumption.
  - simpl. rewrite CSS, CW. congruence.
  - simpl. rewrite CSS, CW. congruence.
  - simpl. rewrite CPS, !CW. congruence.
  - simpl. rewrite CPS, !CW. congruence.
  - apply CPA; [reflexivity|assumption].
  - simpl. rewrite CW. assumption.
  - simpl. rewrite app_nil_r, CW. assumption.
  - rewrite CPW. simpl. congruence.
Qed.

Theorem names_flatten : forall e, names_of (flatten e) = enames e.
Proof. intro e. unfold names_of, enames. rewrite vars_flatten, funcs_flatten, sufs_flatten. reflexivity. Qed.

(* parsing the token text of a derivation fires the callbacks for exactly its occurrences *)
Theorem names_exact_render : forall e, wf_expr e = true ->
  exists log, cb_parse_tokens (render e) = (Some (flatten e), log) /\ nperm log (enames e).
Proof.
  intros e W. destruct (cb_exact_parse (render e) (flatten e) (parse_render e W)) as (log & H1 & H2).
  exists log. split; [assumption|]. rewrite <- names_flatten. assumption.
Qed.

(* every string that lexes to the token text of a derivation, parsed by the shared parser after any
   history of calls, reports exactly the occurrences of the derivation *)
Theorem names_exact_string : forall junk engine ops s e,
  engine (strip_spaces s) = false ->
  wf_expr e = true ->
  lex (strip_spaces s) = Some (render e) ->
  exists l, snd (step junk engine faithful (run junk engine faithful init ops) (OParse s)) = VP (VTree (flatten e) l) /\
            nperm l (enames e).
Proof.
  intros junk engine ops s e He W L.
  assert (B : check_brackets (strip_spaces s) = None) by (apply (brackets_of_print _ (flatten e)); exact L).
  destruct (names_exact_render e W) as (log & H1 & H2).
  pose proof (step_spec junk engine (run junk engine faithful init ops) (OParse s) (reachable_inv junk engine ops)) as P.
  destruct (step junk engine faithful (run junk engine faithful init ops) (OParse s)) as [st' v].
  destruct P as (_ & _ & ->). exists log. split; [|assumption].
  simpl. unfold spec_parse. rewrite B, He, L, H1. reflexivity.
Qed.

(* membership form: a name is reported as a variable iff it occurs as a variable, etc.; in particular a name
   that occurs only as a function head is not reported as a variable and vice versa *)
Corollary names_exact_membership : forall junk engine ops s e,
  engine (strip_spaces s) = false ->
  wf_expr e = true ->
  lex (strip_spaces s) = Some (render e) ->
  exists l, snd (step junk engine faithful (run junk engine faithful init ops) (OParse s)) = VP (VTree (flatten e) l) /\
            forall x, (In x (n_vars l) <-> In x (evars e)) /\
                      (In x (n_funcs l) <-> In x (efuncs e)) /\
                      (In x (n_sufs l) <-> In x (esufs e)).
Proof.
  intros junk engine ops s e He W L.
  destruct (names_exact_string junk engine ops s e He W L) as (l & H1 & H2).
  exists l. split; [assumption|]. intro x.
  split; [apply (nperm_in_vars l (enames e) x H2)|].
  split; [apply (nperm_in_funcs l (enames e) x H2)|apply (nperm_in_sufs l (enames e) x H2)].
Qed.
