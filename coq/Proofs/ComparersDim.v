(* Proofs/ComparersDim.v -- the dimension bound for the Gram-Schmidt model (C16):
   hermitian-orthogonal nonzero vectors of C^n number at most n, and n of them span everything.
   Proof: Bessel's identity for the 2n real coordinate vectors, summed over the coordinates. *)
From Coq Require Import ZArith QArith Qabs Lia Lqa List Bool Setoid Morphisms.
From Verif.Lib Require Import QRound.
From Verif.Model Require Import Result Comparers.
From Verif.Proofs Require Import Credit ComparersLA Comparers.
Import ListNotations.
Open Scope Q_scope.

Arguments Qred : simpl never.

(* ---------- finite sums ---------- *)
Fixpoint qsum (l : list Q) : Q := match l with [] => 0 | x :: r => x + qsum r end.

Lemma qsum_map_add {A} (f g : A -> Q) l : qsum (map (fun a => f a + g a) l) == qsum (map f l) + qsum (map g l).
Proof. induction l as [|a l IH]; simpl; [ring | rewrite IH; ring]. Qed.

Lemma qsum_map_ext {A} (f g : A -> Q) l : (forall a, In a l -> f a == g a) -> qsum (map f l) == qsum (map g l).
Proof.
  induction l as [|a l IH]; intro H; simpl; [reflexivity|].
  rewrite (H a (or_introl eq_refl)), IH; [reflexivity|]. intros b Hb. apply H. right. exact Hb.
Qed.

Lemma qsum_map_const {A} (c : Q) (l : list A) : qsum (map (fun _ => c) l) == inject_Z (Z.of_nat (length l)) * c.
Proof.
  induction l as [|a l IH]; [simpl; ring|].
  simpl qsum. simpl length. rewrite IH, Nat2Z.inj_succ. unfold Z.succ. rewrite inject_Z_plus. change (inject_Z 1) with 1. ring.
Qed.

Lemma qsum_map_nonneg {A} (f : A -> Q) l : (forall a, 0 <= f a) -> 0 <= qsum (map f l).
Proof. intro H. induction l as [|a l IH]; simpl; [lra | specialize (H a); lra]. Qed.

Lemma qsum_exchange {A B} (f : A -> B -> Q) (la : list A) (lb : list B) :
  qsum (map (fun a => qsum (map (fun b => f a b) lb)) la) == qsum (map (fun b => qsum (map (fun a => f a b) la)) lb).
Proof.
  induction la as [|a la IH]; simpl.
  - induction lb as [|b lb IHb]; simpl; [reflexivity | rewrite <- IHb; ring].
  - rewrite IH, <- qsum_map_add. reflexivity.
Qed.

(* ---------- Bessel's identity for one reduction ---------- *)
Definition hcoef (u v : cvec) : Q := (rdot u v * rdot u v + rdot (vJ u) v * rdot (vJ u) v) / norm2 u.

Lemma cproj_sub_pyth u v : 0 < norm2 u -> norm2 v == norm2 (cproj_sub u v) + hcoef u v.
Proof.
  intro Hn. unfold hcoef.
  set (a := rdot u v / norm2 u). set (b := rdot (vJ u) v / norm2 u).
  assert (E : veq v (vadd (cproj_sub u v) (vadd (vscale a u) (vscale b (vJ u))))).
  { intro c. unfold cproj_sub, a, b. vnorm. ring. }
  destruct (cproj_sub_perp u v Hn) as [P1 P2].
  rewrite (veq_norm2 _ _ E), norm2_vadd, norm2_vadd, !norm2_vscale, norm2_vJ.
  rewrite rdot_vadd_r, !rdot_vscale_r, !rdot_vscale_l, (rdot_comm (cproj_sub u v) u), P1.
  rewrite (rdot_comm (cproj_sub u v) (vJ u)), P2, (rdot_comm u (vJ u)), rdot_vJ_self.
  unfold a, b. field. lra.
Qed.

Lemma hcoef_keep x u v : hperp x u -> hcoef x (cproj_sub u v) == hcoef x v.
Proof.
  intro H. pose proof (hperp_vJ_r x u H) as U3. destruct H as [U1 U2]. unfold hcoef.
  rewrite !rdot_cproj_sub, U1, U2, U3, rdot_vJ_vJ, U1.
  setoid_replace (rdot x v - rdot u v / norm2 u * 0 - rdot (vJ u) v / norm2 u * 0) with (rdot x v) by ring.
  setoid_replace (rdot (vJ x) v - rdot u v / norm2 u * 0 - rdot (vJ u) v / norm2 u * 0) with (rdot (vJ x) v) by ring.
  reflexivity.
Qed.

Theorem bessel us : ortho us -> forall v, norm2 v == norm2 (creduce us v) + qsum (map (fun u => hcoef u v) us).
Proof.
  induction 1 as [|u us Hn Hp Ho IH]; intro v; [simpl; ring|].
  simpl creduce. simpl map. simpl qsum.
  rewrite (cproj_sub_pyth u v Hn), (IH (cproj_sub u v)).
  rewrite (qsum_map_ext (fun u0 => hcoef u0 (cproj_sub u v)) (fun u0 => hcoef u0 v)); [ring|].
  intros w Hw. apply hcoef_keep. apply hperp_sym. apply Hp. exact Hw.
Qed.

(* ---------- coordinate vectors ---------- *)
Definition evec (i : nat) : cvec := repeat (0, 0) i ++ [(1, 0)].

Lemma rdot_evec : forall i v, rdot v (evec i) == fst (nth i v (0, 0)).
Proof.
  induction i as [|i IH]; intros [|z v]; try reflexivity.
  - unfold evec. cbn [repeat app nth]. rewrite rdot_cons, rdot_nil_r. cbn [fst snd]. ring.
  - unfold evec in *. cbn [repeat app nth]. rewrite rdot_cons, IH. cbn [fst snd]. ring.
Qed.

Lemma rdot_J_evec : forall i v, rdot v (vJ (evec i)) == snd (nth i v (0, 0)).
Proof.
  induction i as [|i IH]; intros [|z v]; try reflexivity.
  - unfold evec, vJ. cbn [repeat app nth map]. rewrite rdot_cons, rdot_nil_r. unfold cJ. cbn [fst snd]. ring.
  - unfold evec, vJ in *. cbn [repeat app nth map]. rewrite rdot_cons, IH. unfold cJ. cbn [fst snd]. ring.
Qed.

Lemma norm2_evec i : norm2 (evec i) == 1.
Proof.
  unfold norm2. rewrite rdot_evec. unfold evec. rewrite app_nth2; rewrite repeat_length; [|lia].
  rewrite Nat.sub_diag. reflexivity.
Qed.

(* |v|^2 as the sum over the coordinates *)
Lemma norm2_coords : forall v n, (length v <= n)%nat ->
  norm2 v == qsum (map (fun i => fst (nth i v (0, 0)) * fst (nth i v (0, 0)) + snd (nth i v (0, 0)) * snd (nth i v (0, 0))) (seq 0 n)).
Proof.
  induction v as [|z v IH]; intros n Hn.
  - unfold norm2. simpl rdot. symmetry.
    rewrite (qsum_map_ext _ (fun _ => 0)); [rewrite qsum_map_const; ring|].
    intros i _. destruct i; simpl; ring.
  - destruct n as [|n]; [simpl in Hn; lia|].
    unfold norm2 in *. rewrite rdot_cons. simpl seq. simpl map. simpl qsum.
    rewrite <- seq_shift, map_map. rewrite (IH n) by (simpl in Hn; lia). simpl nth. ring.
Qed.

(* the 2n coordinate directions together see every u with weight 2 *)
Lemma hcoef_coords u n : 0 < norm2 u -> (length u <= n)%nat ->
  qsum (map (fun i => hcoef u (evec i) + hcoef u (vJ (evec i))) (seq 0 n)) == 2.
Proof.
  intros Hu Hl.
  rewrite (qsum_map_ext _ (fun i => 2 * (fst (nth i u (0, 0)) * fst (nth i u (0, 0)) + snd (nth i u (0, 0)) * snd (nth i u (0, 0))) / norm2 u)).
  - assert (E : forall l, qsum (map (fun i => 2 * (fst (nth i u (0, 0)) * fst (nth i u (0, 0)) + snd (nth i u (0, 0)) * snd (nth i u (0, 0))) / norm2 u) l)
                == 2 / norm2 u * qsum (map (fun i => fst (nth i u (0, 0)) * fst (nth i u (0, 0)) + snd (nth i u (0, 0)) * snd (nth i u (0, 0))) l)).
    { induction l as [|i l IH]; simpl; [field; lra | rewrite IH; field; lra]. }
    rewrite E, <- (norm2_coords u n Hl). field. lra.
  - intros i _. unfold hcoef.
    rewrite (rdot_evec i u), (rdot_J_evec i u).
    assert (A : rdot (vJ u) (evec i) == - snd (nth i u (0, 0))).
    { rewrite rdot_vJ_l, rdot_J_evec. reflexivity. }
    assert (B : rdot (vJ u) (vJ (evec i)) == fst (nth i u (0, 0))).
    { rewrite rdot_vJ_vJ, rdot_evec. reflexivity. }
    rewrite A, B. field. lra.
Qed.

(* ---------- at most n hermitian-orthogonal nonzero vectors in C^n; n of them leave no residual ---------- *)
Definition total_residual (us : list cvec) (n : nat) : Q :=
  qsum (map (fun i => norm2 (creduce us (evec i)) + norm2 (creduce us (vJ (evec i)))) (seq 0 n)).

Lemma bessel_total us n : ortho us -> (forall u, In u us -> (length u <= n)%nat) ->
  2 * inject_Z (Z.of_nat n) == total_residual us n + 2 * inject_Z (Z.of_nat (length us)).
Proof.
  intros Ho Hl. unfold total_residual.
  assert (L : qsum (map (fun i => norm2 (evec i) + norm2 (vJ (evec i))) (seq 0 n)) == 2 * inject_Z (Z.of_nat n)).
  { rewrite (qsum_map_ext _ (fun _ => 2)); [rewrite qsum_map_const, seq_length; ring|].
    intros i _. rewrite norm2_vJ, norm2_evec. ring. }
  rewrite <- L.
  rewrite (qsum_map_ext _ (fun i => (norm2 (creduce us (evec i)) + norm2 (creduce us (vJ (evec i))))
                                    + qsum (map (fun u => hcoef u (evec i) + hcoef u (vJ (evec i))) us))).
  - rewrite qsum_map_add. apply Qplus_comp; [reflexivity|].
    rewrite (qsum_exchange (fun i u => hcoef u (evec i) + hcoef u (vJ (evec i))) (seq 0 n) us).
    rewrite (qsum_map_ext _ (fun _ => 2)); [rewrite qsum_map_const; ring|].
    intros u Hu. apply hcoef_coords; [|apply Hl; exact Hu].
    clear - Ho Hu. induction Ho as [|u0 us Hn _ _ IH]; [destruct Hu|]. destruct Hu as [<- | Hu]; [exact Hn | apply IH; exact Hu].
  - intros i _. rewrite (bessel us Ho (evec i)), (bessel us Ho (vJ (evec i))), qsum_map_add. ring.
Qed.

Lemma total_residual_nonneg us n : 0 <= total_residual us n.
Proof.
  unfold total_residual. apply qsum_map_nonneg. intro i.
  pose proof (norm2_nonneg (creduce us (evec i))). pose proof (norm2_nonneg (creduce us (vJ (evec i)))). lra.
Qed.

Theorem ortho_count_le_dim us n : ortho us -> (forall u, In u us -> (length u <= n)%nat) -> (length us <= n)%nat.
Proof.
  intros Ho Hl. pose proof (bessel_total us n Ho Hl) as B. pose proof (total_residual_nonneg us n) as R.
  assert (X : inject_Z (Z.of_nat (length us)) <= inject_Z (Z.of_nat n)) by lra.
  rewrite <- Zle_Qle in X. lia.
Qed.

Lemma qsum_zero_terms {A} (f : A -> Q) l : (forall a, 0 <= f a) -> qsum (map f l) == 0 -> forall a, In a l -> f a == 0.
Proof.
  intros Hf. induction l as [|b l IH]; intros H a Ha; [destruct Ha|].
  simpl in H. pose proof (Hf b). pose proof (qsum_map_nonneg f l Hf).
  destruct Ha as [<- | Ha]; [lra | apply IH; [lra | exact Ha]].
Qed.

(* general minimality of the reduction by an orthogonal family *)
Lemma creduce_min us v p : ortho us -> cspan us p -> norm2 (creduce us v) <= dist2 v p.
Proof.
  intros Ho Hp. set (r := creduce us v). set (q := vsub (vsub v r) p).
  assert (Hq : cspan us q) by (apply cspan_sub; [apply creduce_span | exact Hp]).
  assert (Hperp : rdot r q == 0).
  { rewrite rdot_comm. apply (hperp_span us r); [|exact Hq]. intros u Hu. apply creduce_perp; assumption. }
  assert (E : veq (vsub v p) (vadd r q)) by (intro c; unfold q; vnorm; ring).
  unfold dist2. rewrite (veq_norm2 _ _ E), norm2_vadd, Hperp. pose proof (norm2_nonneg q). lra.
Qed.

(* every vector of length <= n is a combination of the coordinate vectors *)
Lemma zeros_veq k : veq (repeat (0, 0) k) [].
Proof.
  induction k as [|k IH]; intros [|y c]; try reflexivity.
  cbn [repeat]. rewrite rdot_cons, (veq_app _ _ c IH). cbn [fst snd rdot]. ring.
Qed.

Lemma shift_decomp : forall k z (w : cvec),
  veq (repeat (0, 0) k ++ z :: w)
      (vadd (vadd (vscale (fst z) (evec k)) (vscale (snd z) (vJ (evec k)))) (repeat (0, 0) (S k) ++ w)).
Proof.
  intros k z w c. vnorm. rewrite (rdot_comm (evec k) c), (rdot_comm (vJ (evec k)) c), rdot_evec, rdot_J_evec.
  revert c. induction k as [|k IH]; intros [|y c].
  - cbn [repeat app nth rdot fst snd]. ring.
  - cbn [repeat app nth]. rewrite !rdot_cons. cbn [fst snd]. ring.
  - cbn [repeat app nth rdot fst snd]. ring.
  - cbn [repeat app nth]. rewrite !rdot_cons. specialize (IH c). cbn [repeat app] in IH. rewrite IH. cbn [fst snd]. ring.
Qed.

Lemma coords_span : forall (v : cvec) n all, (length v <= n)%nat ->
  (forall i, (i < n)%nat -> cspan all (evec i)) -> cspan all v.
Proof.
  intros v n all Hl He.
  assert (G : forall (w : cvec) k, (k + length w <= n)%nat -> cspan all (repeat (0, 0) k ++ w)).
  { induction w as [|z w IH]; intros k Hk.
    - rewrite app_nil_r. apply cs_eq with (a := []); [symmetry; apply zeros_veq | apply cs_zero].
    - eapply cs_eq; [symmetry; apply shift_decomp|]. cbn [length] in Hk. apply cs_add.
      + apply cs_add; apply cs_scale; [apply He; lia | apply cs_J; apply He; lia].
      + apply IH. lia. }
  apply (G v 0%nat). simpl. exact Hl.
Qed.

Theorem ortho_full_no_residual us n v : ortho us -> (forall u, In u us -> (length u <= n)%nat) ->
  length us = n -> (length v <= n)%nat -> norm2 (creduce us v) == 0.
Proof.
  intros Ho Hl Hn Hv.
  pose proof (bessel_total us n Ho Hl) as B. rewrite Hn in B.
  assert (R : total_residual us n == 0) by lra.
  assert (E : forall i, (i < n)%nat -> cspan us (evec i)).
  { intros i Hi. unfold total_residual in R.
    pose proof (qsum_zero_terms (fun i => norm2 (creduce us (evec i)) + norm2 (creduce us (vJ (evec i)))) (seq 0 n)) as Z.
    assert (Z0 : norm2 (creduce us (evec i)) + norm2 (creduce us (vJ (evec i))) == 0).
    { apply Z; [|exact R | apply in_seq; lia].
      intro a. pose proof (norm2_nonneg (creduce us (evec a))). pose proof (norm2_nonneg (creduce us (vJ (evec a)))). lra. }
    pose proof (norm2_nonneg (creduce us (evec i))). pose proof (norm2_nonneg (creduce us (vJ (evec i)))).
    assert (Z1 : norm2 (creduce us (evec i)) == 0) by lra.
    apply cs_eq with (a := vsub (evec i) (creduce us (evec i))); [|apply creduce_span].
    intro c. vnorm. rewrite (norm2_zero_rdot _ c Z1). ring. }
  pose proof (creduce_min us v v Ho (coords_span v n us Hv E)) as M.
  assert (D : dist2 v v == 0) by (apply veq_dist2_zero; reflexivity).
  pose proof (norm2_nonneg (creduce us v)). lra.
Qed.

(* ---------- lengths are preserved by the reduction ---------- *)
Lemma vadd_length a b : length (vadd a b) = Nat.max (length a) (length b).
Proof.
  revert b. induction a as [|x a IH]; intros [|y b]; simpl; try reflexivity. rewrite IH. reflexivity.
Qed.

Lemma vscale_length k a : length (vscale k a) = length a.
Proof. unfold vscale. apply map_length. Qed.

Lemma vJ_length a : length (vJ a) = length a.
Proof. unfold vJ. apply map_length. Qed.

Lemma cproj_sub_length u v n : (length u <= n)%nat -> (length v <= n)%nat -> (length (cproj_sub u v) <= n)%nat.
Proof.
  intros Hu Hv. unfold cproj_sub, vsub. rewrite !vadd_length, !vscale_length, vJ_length. lia.
Qed.

Lemma creduce_length us : forall v n, (forall u, In u us -> (length u <= n)%nat) -> (length v <= n)%nat ->
  (length (creduce us v) <= n)%nat.
Proof.
  induction us as [|u us IH]; intros v n Hu Hv; [exact Hv|].
  simpl. apply IH; [intros w Hw; apply Hu; right; exact Hw|].
  apply cproj_sub_length; [apply Hu; left; reflexivity | exact Hv].
Qed.

Lemma gs_length ws : forall us n, (forall u, In u us -> (length u <= n)%nat) -> (forall w, In w ws -> (length w <= n)%nat) ->
  forall u, In u (gs ws us) -> (length u <= n)%nat.
Proof.
  induction ws as [|w ws IH]; intros us n Hus Hws u Hu; [apply Hus; exact Hu|].
  simpl in Hu. destruct (vzero (creduce us w)).
  - eapply IH; [exact Hus | intros w' Hw'; apply Hws; right; exact Hw' | exact Hu].
  - eapply IH; [ | intros w' Hw'; apply Hws; right; exact Hw' | exact Hu].
    intros u' [<- | Hu']; [|apply Hus; exact Hu'].
    apply creduce_length; [exact Hus | apply Hws; left; reflexivity].
Qed.

(* ---------- consequences for the model ---------- *)
Theorem crank_le_dim ws n : (forall w, In w ws -> (length w <= n)%nat) -> (crank ws <= n)%nat.
Proof.
  intro Hl. unfold crank. apply ortho_count_le_dim.
  - apply gs_ortho. constructor.
  - apply (gs_length ws [] n); [intros u [] | exact Hl].
Qed.

Theorem full_rank_square_spans ws v n : (forall w, In w ws -> (length w <= n)%nat) -> (length v <= n)%nat ->
  crank ws = n -> cres2 ws v == 0.
Proof.
  intros Hl Hv Hr. unfold cres2. apply ortho_full_no_residual with (n := n).
  - apply gs_ortho. constructor.
  - apply (gs_length ws [] n); [intros u [] | exact Hl].
  - exact Hr.
  - exact Hv.
Qed.

(* more vectors than the dimension are never independent *)
Corollary independent_at_most_dim ws n : (forall w, In w ws -> (length w <= n)%nat) -> crank ws = length ws -> (length ws <= n)%nat.
Proof. intros Hl Hr. rewrite <- Hr. apply crank_le_dim. exact Hl. Qed.
